(* x/bank as used by Sifchain: balances per (account id, denom id), supply per denom.
   Modelled, not verified (trusted base); validated by the correspondence on every history. *)
From Coq Require Import ZArith Lia List Bool.
From Sif Require Import Base.Outcome Base.Store.
Import ListNotations.
Local Open Scope Z_scope.

Definition DENS : Z := 65536.
Definition bkey (a d : Z) : Z := a * DENS + d.

Record bank := mkBank { balances : store Z; supply : store Z }.

Definition getz (k : Z) (m : store Z) : Z := match get k m with Some v => v | None => 0 end.
Definition bal (b : bank) (a d : Z) : Z := getz (bkey a d) (balances b).
Definition sup (b : bank) (d : Z) : Z := getz d (supply b).

Definition credit (b : bank) (a d x : Z) : bank :=
  mkBank (set (bkey a d) (bal b a d + x) (balances b)) (supply b).

(* SendCoins of one coin; amount 0 = empty Coins = no-op success; fails on insufficient funds *)
Definition send (b : bank) (from to d x : Z) : option bank :=
  if x <? 0 then None
  else if x =? 0 then Some b
  else if bal b from d <? x then None
  else Some (credit (credit b from d (- x)) to d x).

Definition mint (b : bank) (a d x : Z) : bank :=
  if x <=? 0 then b else
  mkBank (set (bkey a d) (bal b a d + x) (balances b)) (set d (sup b d + x) (supply b)).

Definition burn (b : bank) (a d x : Z) : option bank :=
  if x <=? 0 then Some b
  else if bal b a d <? x then None
  else Some (mkBank (set (bkey a d) (bal b a d - x) (balances b)) (set d (sup b d - x) (supply b))).
