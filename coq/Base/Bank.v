(* x/bank as used by Sifchain: balances per (account id, denom id), supply per denom.
   Modelled, not verified (trusted base); validated by the correspondence on every history. *)
From Coq Require Import ZArith Lia List Bool.
From Sif Require Import Base.Outcome Base.Store.
Import ListNotations.
Local Open Scope Z_scope.

(* balances: account id -> denom id -> amount *)
Record bank := mkBank { balances : store (store Z); supply : store Z }.

Definition getz (k : Z) (m : store Z) : Z := match get k m with Some v => v | None => 0 end.
Definition acct_of (b : bank) (a : Z) : store Z := match get a (balances b) with Some m => m | None => [] end.
Definition bal (b : bank) (a d : Z) : Z := getz d (acct_of b a).
Definition sup (b : bank) (d : Z) : Z := getz d (supply b).

Definition set_bal (b : bank) (a d v : Z) : bank :=
  mkBank (set a (set d v (acct_of b a)) (balances b)) (supply b).
Definition credit (b : bank) (a d x : Z) : bank := set_bal b a d (bal b a d + x).

(* SendCoins of one coin; amount 0 = empty Coins = no-op success; fails on insufficient funds *)
Definition send (b : bank) (from to d x : Z) : option bank :=
  if x <? 0 then None
  else if x =? 0 then Some b
  else if bal b from d <? x then None
  else Some (credit (credit b from d (- x)) to d x).

Definition mint (b : bank) (a d x : Z) : bank :=
  if x <=? 0 then b else
  mkBank (balances (set_bal b a d (bal b a d + x))) (set d (sup b d + x) (supply b)).

Definition burn (b : bank) (a d x : Z) : option bank :=
  if x <=? 0 then Some b
  else if bal b a d <? x then None
  else Some (mkBank (balances (set_bal b a d (bal b a d - x))) (set d (sup b d - x) (supply b))).
