(* Outcome of a Go call: normal return, returned error (small enum code), or panic. *)
From Coq Require Import ZArith List.
Import ListNotations.

Inductive Outcome (A : Type) : Type :=
| Ok (a : A)
| Err (code : Z)
| Panic.
Arguments Ok {A} a.
Arguments Err {A} code.
Arguments Panic {A}.

Definition bind {A B} (o : Outcome A) (f : A -> Outcome B) : Outcome B :=
  match o with
  | Ok a => f a
  | Err c => Err c
  | Panic => Panic
  end.

Definition is_ok {A} (o : Outcome A) : bool :=
  match o with Ok _ => true | _ => false end.
Definition is_panic {A} (o : Outcome A) : bool :=
  match o with Panic => true | _ => false end.

Declare Scope outcome_scope.
Delimit Scope outcome_scope with outcome.
Notation "x <- e1 ;; e2" := (bind e1 (fun x => e2))
  (at level 61, e1 at next level, right associativity) : outcome_scope.
Notation "' p <- e1 ;; e2" := (bind e1 (fun x => match x with p => e2 end))
  (at level 61, p pattern, e1 at next level, right associativity) : outcome_scope.

Definition guard (b : bool) (code : Z) : Outcome unit :=
  if b then Ok tt else Err code.
Definition require_nopanic (b : bool) : Outcome unit :=
  if b then Ok tt else Panic.

Lemma bind_ok_inv {A B} (o : Outcome A) (f : A -> Outcome B) b :
  bind o f = Ok b -> exists a, o = Ok a /\ f a = Ok b.
Proof. destruct o; simpl; intros H; try discriminate; eauto. Qed.
