(* cosmos-sdk v0.45.16 sdk.Uint / sdk.Int / sdk.Dec arithmetic on Z, bit-exact.
   A Dec d is represented by the integer d * 10^18. *)
From Coq Require Import ZArith Lia List Bool.
From Sif Require Import Base.Outcome.
Import ListNotations.
Local Open Scope Z_scope.

Definition PREC : Z := 1000000000000000000.          (* 10^18 *)
Definition HALF : Z := 500000000000000000.           (* 5 * 10^17 *)
Definition UINT_LIM : Z := 2 ^ 256.
Definition DEC_LIM : Z := 2 ^ 315.

Definition fits_uint (x : Z) : bool := (0 <=? x) && (x <? UINT_LIM).
Definition fits_int (x : Z) : bool := Z.abs x <? UINT_LIM.
Definition fits_dec (x : Z) : bool := Z.abs x <? DEC_LIM.

(* chopPrecisionAndRound on a non-negative integer *)
Definition chop_round_pos (d : Z) : Z :=
  let q := d / PREC in
  let r := d mod PREC in
  if r =? 0 then q
  else if r <? HALF then q
  else if HALF <? r then q + 1
  else if Z.even q then q else q + 1.

Definition chop_round (d : Z) : Z :=
  if d <? 0 then - chop_round_pos (- d) else chop_round_pos d.

(* big.Int.Quo : truncation toward zero *)
Definition chop_trunc (d : Z) : Z := Z.quot d PREC.

Definition dec_mul (a b : Z) : Z := chop_round (a * b).
Definition dec_mul_trunc (a b : Z) : Z := chop_trunc (a * b).
Definition dec_quo (a b : Z) : Z := chop_round (Z.quot (a * PREC * PREC) b).
Definition dec_quo_trunc (a b : Z) : Z := chop_trunc (Z.quot (a * PREC * PREC) b).
Definition dec_of_int (i : Z) : Z := i * PREC.
Definition dec_trunc_int (d : Z) : Z := Z.quot d PREC.
Definition dec_round_int (d : Z) : Z := chop_round d.
Definition dec_mul_int (d i : Z) : Z := d * i.
Definition dec_quo_int (d i : Z) : Z := Z.quot d i.

(* Dec.Power: the SDK loop, fuelled by the bit length of the exponent. *)
Fixpoint dec_power_loop (fuel : nat) (d tmp : Z) (i : Z) : Z * Z :=
  match fuel with
  | O => (d, tmp)
  | S f =>
    if i <=? 1 then (d, tmp)
    else
      let tmp' := if Z.odd i then dec_mul tmp d else tmp in
      dec_power_loop f (dec_mul d d) tmp' (i / 2)
  end.
Definition dec_power (d : Z) (p : Z) : Z :=
  if p =? 0 then PREC
  else let '(d', tmp) := dec_power_loop 64 d PREC p in dec_mul d' tmp.

(* checked versions: Go panics *)
Definition ck_uint (x : Z) : Outcome Z := if fits_uint x then Ok x else Panic.
Definition ck_int (x : Z) : Outcome Z := if fits_int x then Ok x else Panic.
Definition ck_dec (x : Z) : Outcome Z := if fits_dec x then Ok x else Panic.

Definition uint_add (a b : Z) : Outcome Z := ck_uint (a + b).
Definition uint_sub (a b : Z) : Outcome Z := ck_uint (a - b).
Definition uint_mul (a b : Z) : Outcome Z := ck_uint (a * b).
Definition uint_quo (a b : Z) : Outcome Z := if b =? 0 then Panic else Ok (a / b).

Definition Dmul (a b : Z) : Outcome Z := ck_dec (dec_mul a b).
Definition Dquo (a b : Z) : Outcome Z := if b =? 0 then Panic else ck_dec (dec_quo a b).
