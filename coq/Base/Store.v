(* A KV store as an association list kept sorted by (integer) key.  Iteration order of the
   real IAVL stores is ascending key-byte order; the harness assigns integer ids in that order. *)
From Coq Require Import ZArith Lia List Bool.
Import ListNotations.
Local Open Scope Z_scope.

Section Store.
Context {V : Type}.

Definition store := list (Z * V).

Fixpoint get (k : Z) (m : store) : option V :=
  match m with
  | [] => None
  | (k', v) :: m' =>
    if k' <? k then get k m'
    else if k' =? k then Some v else None
  end.

Fixpoint set (k : Z) (v : V) (m : store) : store :=
  match m with
  | [] => [(k, v)]
  | (k', v') :: m' =>
    if k' <? k then (k', v') :: set k v m'
    else if k' =? k then (k, v) :: m'
    else (k, v) :: (k', v') :: m'
  end.

Fixpoint del (k : Z) (m : store) : store :=
  match m with
  | [] => []
  | (k', v') :: m' =>
    if k' <? k then (k', v') :: del k m'
    else if k' =? k then m'
    else m
  end.

Definition keys (m : store) : list Z := map fst m.
Definition vals (m : store) : list V := map snd m.

Fixpoint sorted_from (lo : Z) (m : store) : Prop :=
  match m with
  | [] => True
  | (k, _) :: m' => lo < k /\ sorted_from k m'
  end.
Definition sorted (m : store) : Prop :=
  match m with
  | [] => True
  | (k, _) :: m' => sorted_from k m'
  end.

Variable f : V -> Z.
Definition sumf (m : store) : Z := fold_right (fun kv acc => f (snd kv) + acc) 0 m.
Definition fopt (o : option V) : Z := match o with Some v => f v | None => 0 end.

Lemma sumf_set k v m : sumf (set k v m) = sumf m - fopt (get k m) + f v.
Proof.
  induction m as [|[k' v'] m IH]; simpl; [lia|].
  destruct (k' <? k) eqn:E1; simpl; [rewrite IH; lia|].
  destruct (k' =? k) eqn:E2; simpl; lia.
Qed.

Lemma sumf_del k m : sumf (del k m) = sumf m - fopt (get k m).
Proof.
  induction m as [|[k' v'] m IH]; simpl; [lia|].
  destruct (k' <? k) eqn:E1; simpl; [rewrite IH; lia|].
  destruct (k' =? k) eqn:E2; simpl; lia.
Qed.

Lemma sumf_nonneg m : (forall v, 0 <= f v) -> 0 <= sumf m.
Proof. intros H; induction m as [|[k v] m IH]; simpl; [lia|]. specialize (H v). lia. Qed.

Lemma sumf_get_le k m v : (forall v, 0 <= f v) -> get k m = Some v -> f v <= sumf m.
Proof.
  intros Hf; induction m as [|[k' v'] m IH]; simpl; [discriminate|].
  pose proof (sumf_nonneg m Hf). specialize (Hf v').
  destruct (k' <? k); [intros H1; specialize (IH H1); lia|].
  destruct (k' =? k); [intros [= ->]; lia| discriminate].
Qed.

End Store.

Arguments store V : clear implicits.

Section StoreProps.
Context {V : Type}.

Lemma sorted_from_weaken lo lo' (m : store V) : lo' <= lo -> sorted_from lo m -> sorted_from lo' m.
Proof. destruct m as [|[k v] m]; simpl; auto. intros ? [? ?]; split; auto; lia. Qed.

Lemma get_lt_none lo k (m : store V) : sorted_from lo m -> k <= lo -> get k m = None.
Proof.
  revert lo; induction m as [|[k' v'] m IH]; simpl; auto.
  intros lo [H1 H2] Hk.
  destruct (Z.ltb_spec k' k); [lia|]. destruct (Z.eqb_spec k' k); [lia|reflexivity].
Qed.

Lemma set_sorted_from lo k v (m : store V) : lo < k -> sorted_from lo m -> sorted_from lo (set k v m).
Proof.
  revert lo; induction m as [|[k' v'] m IH]; simpl; intros lo Hlo Hs; [auto|].
  destruct Hs as [H1 H2].
  destruct (Z.ltb_spec k' k); simpl; [split; auto|].
  destruct (Z.eqb_spec k' k); simpl; [subst; auto|].
  repeat split; auto; lia.
Qed.

Lemma set_sorted k v (m : store V) : sorted m -> sorted (set k v m).
Proof.
  destruct m as [|[k' v'] m]; simpl; auto. intros Hs.
  destruct (Z.ltb_spec k' k); simpl; [apply set_sorted_from; auto|].
  destruct (Z.eqb_spec k' k); simpl; [subst; auto|]. split; auto; lia.
Qed.

Lemma del_sorted_from lo k (m : store V) : sorted_from lo m -> sorted_from lo (del k m).
Proof.
  revert lo; induction m as [|[k' v'] m IH]; simpl; intros lo Hs; [auto|].
  destruct Hs as [H1 H2].
  destruct (Z.ltb_spec k' k); simpl; [split; auto|].
  destruct (Z.eqb_spec k' k); simpl; [|split; auto].
  eapply sorted_from_weaken; [|exact H2]. lia.
Qed.

Lemma del_sorted k (m : store V) : sorted m -> sorted (del k m).
Proof.
  destruct m as [|[k' v'] m]; simpl; auto. intros Hs.
  destruct (Z.ltb_spec k' k); simpl; [apply del_sorted_from; auto|].
  destruct (Z.eqb_spec k' k); simpl; auto.
  destruct m as [|[k2 v2] m]; simpl in *; tauto.
Qed.

Lemma get_set_same k v (m : store V) : get k (set k v m) = Some v.
Proof.
  induction m as [|[k' v'] m IH]; simpl.
  - rewrite Z.ltb_irrefl, Z.eqb_refl; reflexivity.
  - destruct (Z.ltb_spec k' k); simpl.
    + destruct (Z.ltb_spec k' k); [auto|lia].
    + destruct (Z.eqb_spec k' k); simpl; rewrite Z.ltb_irrefl, Z.eqb_refl; reflexivity.
Qed.

Lemma get_set_other k k2 v (m : store V) : k2 <> k -> get k2 (set k v m) = get k2 m.
Proof.
  intros Hne; induction m as [|[k' v'] m IH]; simpl.
  - destruct (Z.ltb_spec k k2); auto. destruct (Z.eqb_spec k k2); [lia|auto].
  - destruct (Z.ltb_spec k' k); simpl.
    + rewrite IH; reflexivity.
    + destruct (Z.eqb_spec k' k); simpl.
      * subst k'. destruct (Z.ltb_spec k k2); [reflexivity|].
        destruct (Z.eqb_spec k k2); [lia|reflexivity].
      * destruct (Z.ltb_spec k k2).
        { reflexivity. }
        destruct (Z.eqb_spec k k2); [lia|].
        destruct (Z.ltb_spec k' k2); [lia|]. destruct (Z.eqb_spec k' k2); [lia|reflexivity].
Qed.

Lemma get_del_same lo k (m : store V) : sorted_from lo m -> get k (del k m) = None.
Proof.
  revert lo; induction m as [|[k' v'] m IH]; simpl; intros lo Hs; auto.
  destruct Hs as [H1 H2].
  destruct (Z.ltb_spec k' k); simpl.
  - destruct (Z.ltb_spec k' k); [eauto|lia].
  - destruct (Z.eqb_spec k' k); simpl.
    + subst. eapply get_lt_none; eauto; lia.
    + destruct (Z.ltb_spec k' k); [lia|]. destruct (Z.eqb_spec k' k); [lia|reflexivity].
Qed.


Lemma get_del_other lo k k2 (m : store V) : sorted_from lo m -> k2 <> k -> get k2 (del k m) = get k2 m.
Proof.
  revert lo; induction m as [|[k' v'] m IH]; simpl; intros lo Hs Hne; auto.
  destruct Hs as [H1 H2].
  destruct (Z.ltb_spec k' k); simpl.
  - rewrite (IH k'); auto.
  - destruct (Z.eqb_spec k' k); simpl; [|reflexivity].
    subst k'. destruct (Z.ltb_spec k k2); [reflexivity|].
    destruct (Z.eqb_spec k k2); [lia|]. eapply get_lt_none; eauto; lia.
Qed.

Definition wf (m : store V) : Prop := exists lo, sorted_from lo m.
Lemma wf_nil : wf [].
Proof. exists 0. exact I. Qed.
Lemma sorted_wf (m : store V) : sorted m -> wf m.
Proof. destruct m as [|[k v] m]; [intros; exists 0; exact I|]. simpl. intros H. exists (k - 1). simpl. split; [lia|auto]. Qed.
Lemma wf_sorted (m : store V) : wf m -> sorted m.
Proof. intros [lo H]. destruct m as [|[k v] m]; simpl in *; tauto. Qed.
Lemma wf_set k v (m : store V) : wf m -> wf (set k v m).
Proof. intros H. apply sorted_wf, set_sorted, wf_sorted, H. Qed.
Lemma wf_del k (m : store V) : wf m -> wf (del k m).
Proof. intros H. apply sorted_wf, del_sorted, wf_sorted, H. Qed.
Lemma wf_get_del_same k (m : store V) : wf m -> get k (del k m) = None.
Proof. intros [lo H]. eapply get_del_same; eauto. Qed.
Lemma wf_get_del_other k k2 (m : store V) : wf m -> k2 <> k -> get k2 (del k m) = get k2 m.
Proof. intros [lo H]. eapply get_del_other; eauto. Qed.

End StoreProps.
