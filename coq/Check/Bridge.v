(* Per-transition correspondence for the bridge (oracle + ethbridge). *)
From Coq Require Import ZArith List Bool Uint63.
From RecordUpdate Require Import RecordUpdate.
From Sif Require Import Base.Outcome Base.Store Base.Bank Model.Bridge Check.Eq Check.Decode Check.DecClp.
Import ListNotations.
Local Open Scope Z_scope.
Local Open Scope dec_scope.

Definition dProphecy : dec prophecy :=
  st <- dZ ;; fin <- dZ ;; cl <- dList (dPair dZ (dList dZ)) ;; vc <- dList (dPair dZ dZ) ;; dRet (mkProphecy st fin cl vc).

Definition dContent : dec content := r <- dZ ;; a <- dZ ;; sy <- dZ ;; t <- dZ ;; dRet (mkContent r a sy t).

Definition dBridge : dec bridge_state :=
  bal <- dStore (dStore dZ) ;; sup <- dStore dZ ;; blocked <- dList dZ ;; wl <- dList dZ ;;
  vals <- dList (v <- dZ ;; p <- dZ ;; b <- dBool ;; dRet (v, (p, b))) ;;
  prs <- dStore dProphecy ;; cts <- dStore dContent ;; peggy <- dList dZ ;; paused <- dBool ;; bl <- dList dZ ;;
  cr <- dZ ;; oa <- dZ ;; accts <- dList dZ ;;
  dRet (mkBridge (mkBank bal sup) blocked wl vals prs cts peggy paused bl (if cr <? 0 then None else Some cr) oa accts).

Inductive bstep :=
| BClaim (pid val cid : Z)
| BLock (is_burn : bool) (sender eth amount symbol ceth : Z)
| BWhitelist (sender val : Z) (add : bool)
| BCethReceiver (sender r : Z)
| BRescue (sender r amount : Z)
(* a claim whose validator field is the all-upper-case bech32 spelling of a validator's address: the whitelist check
   compares the raw string with the canonical spelling of every whitelisted validator, so it is always refused *)
| BClaimUpper (pid val cid : Z)
| BSetBlacklist (is_admin : bool) (sender : Z) (addrs : list Z).

Definition dBStep : dec bstep :=
  k <- dZ ;;
  if k =? 1 then p <- dZ ;; v <- dZ ;; c <- dZ ;; dRet (BClaim p v c)
  else if k =? 2 then b <- dBool ;; s <- dZ ;; e <- dZ ;; a <- dZ ;; sy <- dZ ;; ce <- dZ ;; dRet (BLock b s e a sy ce)
  else if k =? 3 then s <- dZ ;; v <- dZ ;; ad <- dBool ;; dRet (BWhitelist s v ad)
  else if k =? 4 then s <- dZ ;; r <- dZ ;; dRet (BCethReceiver s r)
  else if k =? 6 then p <- dZ ;; v <- dZ ;; c <- dZ ;; dRet (BClaimUpper p v c)
  else if k =? 7 then ad <- dBool ;; sd <- dZ ;; l <- dList dZ ;; dRet (BSetBlacklist ad sd l)
  else s <- dZ ;; r <- dZ ;; a <- dZ ;; dRet (BRescue s r a).

Definition signer_of_b (st : bstep) : Z :=
  match st with
  | BClaim _ v _ => v | BLock _ s _ _ _ _ => s | BWhitelist s _ _ => s | BCethReceiver s _ => s | BRescue s _ _ => s | BClaimUpper _ v _ => v
  | BSetBlacklist _ s _ => s
  end.

Definition bhandle (s : bridge_state) (st : bstep) : Outcome bridge_state :=
  match st with
  | BClaim p v c =>
    match get c (br_contents s) with
    | Some ct => create_claim s (fun x => x) p v c ct
    | None => Err 1
    end
  | BLock b sd e a sy ce => lock_or_burn s b sd e a sy ce
  | BWhitelist sd v ad => update_whitelist s sd v ad
  | BCethReceiver sd r => update_ceth_receiver s sd r
  | BRescue sd r a => rescue_ceth s sd r a
  | BClaimUpper _ _ _ => Err 1
  | BSetBlacklist ad sd l => set_blacklist s ad sd l
  end.

Definition bdeliver (s : bridge_state) (fee : Z) (st : bstep) : bridge_state * bool :=
  let s0 := with_bbank s (credit (br_bank s) (signer_of_b st) 0 (- fee)) in
  match bhandle s0 st with
  | Ok s' => (s', true)
  | _ => (s0, false)
  end.

(* order-insensitive comparison of the two Go maps of a prophecy *)
Definition sort_pairs {A} (l : list (Z * A)) : list (Z * A) := fold_left (fun m kv => set (fst kv) (snd kv) m) l [].
Definition prophecy_eqb (a b : prophecy) : bool :=
  (pr_status a =? pr_status b) && (pr_final a =? pr_final b) &&
  list_eqb (pair_eqb Z.eqb (list_eqb Z.eqb)) (sort_pairs (pr_claims a)) (sort_pairs (pr_claims b)) &&
  list_eqb (pair_eqb Z.eqb Z.eqb) (sort_pairs (pr_vclaims a)) (sort_pairs (pr_vclaims b)).

(* the blacklist is a set *)
Definition as_set (l : list Z) : list Z := map fst (fold_left (fun m k => set k tt m) l []).

Definition bridge_diff (a b : bridge_state) : Z :=
  if negb (bal_eqb (balances (br_bank a)) (balances (br_bank b))) then 2
  else if negb (zstore_eqb (supply (br_bank a)) (supply (br_bank b))) then 3
  else if negb (list_eqb (pair_eqb Z.eqb prophecy_eqb) (br_prophecies a) (br_prophecies b)) then 4
  else if negb (list_eqb Z.eqb (br_whitelist a) (br_whitelist b)) then 5
  else if negb (list_eqb Z.eqb (br_peggy a) (br_peggy b)) then 6
  else if negb (match br_ceth_receiver a, br_ceth_receiver b with
                | Some x, Some y => x =? y | None, None => true | _, _ => false end) then 7
  else if negb (list_eqb Z.eqb (as_set (br_blacklist a)) (as_set (br_blacklist b))) then 9
  else 0.

Definition bcase := (Z * bstep * Z * bool * bridge_state * bridge_state)%type.
Definition dBCase : dec bcase :=
  id <- dZ ;; st <- dBStep ;; fee <- dZ ;; ok <- dBool ;; pre <- dBridge ;; post <- dBridge ;; dRet (id, st, fee, ok, pre, post).

Definition bmismatch (c : bcase) : option (Z * Z) :=
  let '(id, st, fee, ok, pre, post) := c in
  let '(s', ok') := bdeliver pre fee st in
  if negb (Bool.eqb ok ok') then Some (id, 1)
  else if negb (bridge_inv_b pre && bridge_inv_b post) then Some (id, 8)   (* premise of C05_history_order_independent *)
  else let d := bridge_diff s' post in if d =? 0 then None else Some (id, d).

Definition check_all {A} (d : dec A) (f : A -> option (Z * Z)) (raw : list (list int)) : list (Z * Z) :=
  concat (map (fun r => match run_dec d r with
                        | None => [(-1, -1)]
                        | Some c => match f c with Some m => [m] | None => [] end
                        end) raw).
Definition bridge_mismatches (raw : list (list int)) : list (Z * Z) := check_all dBCase bmismatch raw.
