From Coq Require Import ZArith List Bool Uint63.
From Sif Require Import Base.Outcome Model.Admin Check.Decode.
Import ListNotations.
Local Open Scope Z_scope.
Local Open Scope dec_scope.

Definition role_of_code (c : Z) : role :=
  if c =? 1 then R_CLPDEX else if c =? 2 then R_PMTPREWARDS else if c =? 3 then R_TOKENREGISTRY
  else if c =? 4 then R_ETHBRIDGE else if c =? 5 then R_ADMIN else R_MARGIN.

(* case: id, index of the message in the table, signer, role table, oracle admin (-1 none), clp whitelist,
   observed: refused for lack of permission? *)
Definition c08_case := (Z * Z * Z * auth_state * bool)%type.
Definition dC08 : dec c08_case :=
  id <- dZ ;; idx <- dZ ;; sg <- dZ ;; adm <- dList (dPair dZ dZ) ;; oa <- dZ ;; wl <- dList dZ ;; refused <- dBool ;;
  dRet (id, idx, sg, mkAuth (map (fun e => (role_of_code (fst e), snd e)) adm) (if oa <? 0 then None else Some oa) wl, refused).

Definition c08_mismatch (c : c08_case) : option (Z * Z) :=
  let '(id, idx, sg, au, refused) := c in
  let permitted := match required_role (Z.to_nat idx) with Some r => holds au r sg | None => true end in
  if Bool.eqb permitted (negb refused) then None else Some (id, 1).

Definition c08_mismatches (raw : list (list int)) : list (Z * Z) :=
  concat (map (fun r => match run_dec dC08 r with
                        | None => [(-1, -1)]
                        | Some c => match c08_mismatch c with Some m => [m] | None => [] end
                        end) raw).
