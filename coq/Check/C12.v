From Coq Require Import ZArith List Bool Uint63.
From Sif Require Import Base.Outcome Model.ClpTypes Model.ClpMsgs Model.Registry Check.Eq Check.Decode Check.ClpHist.
Import ListNotations.
Local Open Scope Z_scope.
Local Open Scope dec_scope.

(* transfer case: id, registry (denom, bits, alias), denom, amount, observed: handed to ibc-go? *)
Definition tr_case := (Z * list (Z * reg_entry_x) * Z * Z * bool)%type.
Definition dTr : dec tr_case :=
  id <- dZ ;; reg <- dList (k <- dZ ;; b <- dZ ;; al <- dBool ;; dRet (k, mkRE b al)) ;; d <- dZ ;; amt <- dZ ;; r <- dBool ;;
  dRet (id, reg, d, amt, r).
Definition tr_mismatch (c : tr_case) : option (Z * Z) :=
  let '(id, reg, d, amt, reached) := c in
  if Bool.eqb (transfer_gate reg d amt) reached then None else Some (id, 1).

(* registry edit: id, registry before (denom, bits), op (1 MsgRegister, 2 MsgDeregister, 3 MsgSetRegistry), denom, bits,
   the list carried by a MsgSetRegistry (empty for the other two), registry after *)
Definition re_case := (Z * list (Z * Z) * Z * Z * Z * list (Z * Z) * list (Z * Z))%type.
Definition dRe : dec re_case :=
  id <- dZ ;; pre <- dList (dPair dZ dZ) ;; op <- dZ ;; d <- dZ ;; b <- dZ ;; newl <- dList (dPair dZ dZ) ;;
  post <- dList (dPair dZ dZ) ;; dRet (id, pre, op, d, b, newl, post).
Definition re_mismatch (c : re_case) : option (Z * Z) :=
  let '(id, pre, op, d, b, newl, post) := c in
  let want := if op =? 1 then set_token d b pre else if op =? 3 then set_registry newl pre else remove_token d pre in
  if list_eqb (pair_eqb Z.eqb Z.eqb) want post then None else Some (id, 1).

Definition c12_mismatches (steps trs : list (list int)) : list (Z * Z) :=
  hist_mismatches steps ++ check_all dTr tr_mismatch trs.
Definition c12_mismatches_re (steps trs res : list (list int)) : list (Z * Z) :=
  c12_mismatches steps trs ++ check_all dRe re_mismatch res.
