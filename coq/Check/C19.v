From Coq Require Import ZArith List Bool String Uint63.
From Sif Require Import Base.Outcome Model.Ante Check.Decode.
Import ListNotations.
Local Open Scope Z_scope.
Local Open Scope dec_scope.

Section WithUrls.
Variable urls : list (Z * string).

Fixpoint url_lookup (k : Z) (l : list (Z * string)) : string :=
  match l with [] => ""%string | (a, s) :: r => if a =? k then s else url_lookup k r end.

Definition dStaking : dec staking_info :=
  t <- dZ ;;
  if t =? 0 then dRet SNone
  else if t =? 1 then r <- dZ ;; dRet (SCreateValidator r)
  else if t =? 2 then h <- dBool ;; r <- dZ ;; dRet (SEditValidator (if h then Some r else None))
  else if t =? 3 then f <- dBool ;; v <- dZ ;; a <- dZ ;; dRet (SDelegate f v a)
  else f <- dBool ;; v <- dZ ;; a <- dZ ;; sm <- dBool ;; dRet (SRedelegate f v a sm).

Fixpoint dMsgF (fuel : nat) : dec msg :=
  match fuel with
  | O => fun _ => None
  | S f =>
    tag <- dZ ;;
    if tag =? 0 then u <- dZ ;; st <- dStaking ;; dRet (Leaf (url_lookup u urls) st)
    else inner <- dList (dMsgF f) ;; dRet (Exec inner)
  end.

(* case: id, submit fee, rowan fee, total bonded+unbonding, messages, observed: rejected by the two decorators? *)
Definition c19_case := (Z * Z * Z * Z * list msg * bool)%type.
Definition dC19 : dec c19_case :=
  id <- dZ ;; sf <- dZ ;; fee <- dZ ;; tot <- dZ ;; ms <- dList (dMsgF 8) ;; rej <- dBool ;; dRet (id, sf, fee, tot, ms, rej).

Definition c19_mismatch (c : c19_case) : option (Z * Z) :=
  let '(id, sf, fee, tot, ms, rej) := c in
  if Bool.eqb (ante_ok sf fee tot ms) (negb rej) then None
  else Some (id, if fee_ok sf fee ms then 2 else 1).

Definition c19_mismatches (raw : list (list int)) : list (Z * Z) :=
  List.concat (map (fun r => match run_dec dC19 r with
                        | None => [(-1, -1)]
                        | Some c => match c19_mismatch c with Some m => [m] | None => [] end
                        end) raw).
End WithUrls.
