From Coq Require Import ZArith List Bool Uint63.
From Sif Require Import Base.Outcome Base.Store Base.Bank Model.ClpTypes Model.ClpState Model.ClpHooks Model.Mint
  Check.Eq Check.Decode Check.DecClp.
Import ListNotations.
Local Open Scope Z_scope.
Local Open Scope dec_scope.

(* mint case: id, pre-state, observed [counter; eco; module; supply] after BeginBlock *)
Definition mint_case := (Z * mstate * list Z)%type.
Definition dMint : dec mint_case :=
  id <- dZ ;; f <- dBool ;; c <- dZ ;; e <- dZ ;; m <- dZ ;; s <- dZ ;; blk <- dBool ;; post <- dList dZ ;;
  dRet (id, Build_mstate f c e m s blk, post).
Definition mint_mismatch (c : mint_case) : option (Z * Z) :=
  let '(id, pre, post) := c in
  if list_eqb Z.eqb (obs (fst (begin_block pre))) post then None else Some (id, 1).

(* reward case: id, clp state before EndBlock, observed: panicked?, state after EndBlock *)
Definition rew_case := (Z * clp_state * bool * clp_state)%type.
Definition dRew : dec rew_case :=
  id <- dZ ;; pre <- dClp ;; p <- dBool ;; post <- dClp ;; dRet (id, pre, p, post).
Definition rew_mismatch (c : rew_case) : option (Z * Z) :=
  let '(id, pre, panicked, post) := c in
  match end_block pre with
  | Panic => if panicked then None else Some (id, 1)
  | Err _ => Some (id, 1)
  | Ok (s', _, _) =>
    if panicked then Some (id, 1) else
    let d := clp_diff s' post in if d =? 0 then None else Some (id, d)
  end.

(* a case that does not decode is reported as (-1, index) *)
Definition check_all {A} (d : dec A) (f : A -> option (Z * Z)) (raw : list (list int)) : list (Z * Z) :=
  concat (map (fun r => match run_dec d r with
                        | None => [(-1, -1)]
                        | Some c => match f c with Some m => [m] | None => [] end
                        end) raw).

Definition mismatches (mc rc : list (list int)) : list (Z * Z) :=
  check_all dMint mint_mismatch mc ++ check_all dRew rew_mismatch rc.
