(* Differential check of the pure AMM calculators against their Go originals. *)
From Coq Require Import ZArith List Bool Uint63.
From Sif Require Import Base.Outcome Base.SdkMath Model.ClpCalc Model.ClpRewards Check.Eq Check.Decode.
Import ListNotations.
Local Open Scope Z_scope.
Local Open Scope dec_scope.

(* case: id, function number, arguments, observed kind (0 ok, 1 error, 2 panic), observed outputs *)
Definition calc_case := (Z * Z * list Z * Z * list Z)%type.
Definition dCalc : dec calc_case :=
  id <- dZ ;; fn <- dZ ;; args <- dList dZ ;; k <- dZ ;; outs <- dList dZ ;; dRet (id, fn, args, k, outs).

Definition kind_of {A} (o : Outcome A) : Z := match o with Ok _ => 0 | Err _ => 1 | Panic => 2 end.
Definition outs_of {A} (f : A -> list Z) (o : Outcome A) : list Z := match o with Ok a => f a | _ => [] end.

Definition status_code (s : swap_status) : Z := match s with SellNative => 0 | BuyNative => 1 | NoSwap => 2 end.

Definition run_fn (fn : Z) (args : list Z) : option (Z * list Z) :=
  match fn, args with
  | 1, [tr; X; x; Y; r; f] =>
    let o := calc_swap_result (negb (tr =? 0)) X x Y r f in
    Some (kind_of o, outs_of (fun p => [fst p; snd p]) o)
  | 2, [tr; sent; nb; eb; nl; el; r; f] =>
    let o := swap_one (negb (tr =? 0)) sent (mkSpool nb eb nl el) r f in
    Some (kind_of o, outs_of (fun t => let '(res, fee, p) := t in [res; fee; sp_nb p; sp_eb p]) o)
  | 3, [P; R; A; r; a; fs; fb; pm] =>
    let o := calculate_pool_units P R A r a fs fb pm in
    Some (kind_of o, outs_of (fun t => let '(pu, lpu, st, s) := t in [pu; lpu; status_code st; s]) o)
  | 4, [pu; nd; ed; lpu; wb; asym] =>
    let o := calculate_withdrawal pu nd ed lpu wb asym in
    Some (kind_of o, outs_of (fun t => let '(a, b, c, d) := t in [a; b; c; d]) o)
  | 5, [pu; nd; ed; lpu; wu] =>
    let o := calculate_withdrawal_from_units pu nd ed lpu wu in
    Some (kind_of o, outs_of (fun t => let '(a, b, c) := t in [a; b; c]) o)
  | 6, [total; units] => let o := conv_units_to_wbasis total units in Some (kind_of o, outs_of (fun x => [x]) o)
  | 7, [total; wb] => let o := conv_wbasis_to_units total wb in Some (kind_of o, outs_of (fun x => [x]) o)
  | 8, [sent; f] => let o := discounted_sent_amount sent f in Some (kind_of o, outs_of (fun x => [x]) o)
  | 9, [R; A; r; a; f; p] => let o := ext_swap_amount R A r a f p in Some (kind_of o, outs_of (fun x => [x]) o)
  | 10, [R; A; r; a; f; p] => let o := nat_swap_amount R A r a f p in Some (kind_of o, outs_of (fun x => [x]) o)
  | 11, [pd; pu; lpu] => Some (0, [calc_provider_amount pd pu lpu])
  | _, _ => None
  end.

Definition calc_mismatch (c : calc_case) : option (Z * Z) :=
  let '(id, fn, args, k, outs) := c in
  match run_fn fn args with
  | None => Some (id, -2)
  | Some (k', outs') =>
    if negb (k =? k') then Some (id, 1)
    else if negb (list_eqb Z.eqb outs outs') then Some (id, 2) else None
  end.

Definition check_all {A} (d : dec A) (f : A -> option (Z * Z)) (raw : list (list int)) : list (Z * Z) :=
  concat (map (fun r => match run_dec d r with
                        | None => [(-1, -1)]
                        | Some c => match f c with Some m => [m] | None => [] end
                        end) raw).

Definition calc_mismatches (raw : list (list int)) : list (Z * Z) := check_all dCalc calc_mismatch raw.
