(* Per-transition correspondence for clp histories: the model is restarted from the observed
   pre-state of every DeliverTx / EndBlock / BeginBlock and must produce the observed post-state. *)
From Coq Require Import ZArith List Bool Uint63.
From RecordUpdate Require Import RecordUpdate.
From Sif Require Import Base.Outcome Base.Store Base.Bank Model.ClpTypes Model.ClpState Model.ClpHooks Model.ClpMsgs Model.ClpEpoch
  Check.Eq Check.Decode Check.DecClp.
Import ListNotations.
Local Open Scope Z_scope.
Local Open Scope dec_scope.

Definition dMsg : dec clp_msg :=
  tag <- dZ ;; sg <- dZ ;;
  if tag =? 1 then a <- dZ ;; x <- dZ ;; y <- dZ ;; dRet (MCreatePool sg a x y)
  else if tag =? 2 then a <- dZ ;; x <- dZ ;; y <- dZ ;; dRet (MAddLiquidity sg a x y)
  else if tag =? 3 then a <- dZ ;; x <- dZ ;; y <- dZ ;; dRet (MRemoveLiquidity sg a x y)
  else if tag =? 4 then a <- dZ ;; x <- dZ ;; dRet (MRemoveLiquidityUnits sg a x)
  else if tag =? 5 then a <- dZ ;; b <- dZ ;; x <- dZ ;; y <- dZ ;; dRet (MSwap sg a b x y)
  else if tag =? 6 then a <- dZ ;; x <- dZ ;; dRet (MUnlock sg a x)
  else if tag =? 7 then a <- dZ ;; x <- dZ ;; dRet (MCancelUnlock sg a x)
  else if tag =? 8 then a <- dZ ;; dRet (MDecommission sg a)
  else cs <- dList (dPair dZ dZ) ;; dRet (MAddToBucket sg cs).

Inductive step :=
| STx (m : clp_msg) (fee : Z)
| SEnd
| SBegin (epoch : bool).

Definition step_case := (Z * step * bool * clp_state * clp_state)%type.
Definition dStep : dec step_case :=
  id <- dZ ;; k <- dZ ;;
  st <- (if k =? 1 then m <- dMsg ;; fee <- dZ ;; dRet (STx m fee)
         else if k =? 2 then dRet SEnd else ep <- dBool ;; dRet (SBegin ep)) ;;
  ok <- dBool ;; pre <- dClp ;; post <- dClp ;; dRet (id, st, ok, pre, post).

(* BeginBlock: with no ratio-shifting policy period, no liquidity protection and no margin pools, the
   clp-visible state changes only when the rewards epoch ended in this block (epochs BeginBlocker ->
   AfterEpochEnd).  Whether it ended is an input observed by the harness (x/epochs is not modelled). *)
Definition begin_block (s : clp_state) (epoch : bool) : Outcome clp_state :=
  if epoch then after_epoch_end s else Ok s.

Definition step_mismatch (c : step_case) : option (Z * Z) :=
  let '(id, st, ok, pre, post) := c in
  match st with
  | STx m fee =>
    let '(s', ok') := deliver pre fee m in
    if negb (Bool.eqb ok ok') then Some (id, 1)
    else let d := clp_diff s' post in if d =? 0 then None else Some (id, d)
  | SEnd =>
    match end_block pre with
    | Ok (s', _, _) => if negb ok then Some (id, 1) else let d := clp_diff s' post in if d =? 0 then None else Some (id, d)
    | _ => if ok then Some (id, 1) else None
    end
  | SBegin ep =>
    match begin_block pre ep with
    | Ok s' =>
      if negb ok then Some (id, 1) else
      (* rowan supply moves in BeginBlock through x/mint and the dispensation mint (C20); not clp state *)
      let s'' := s' <| cs_bank := mkBank (balances (cs_bank s')) (supply (cs_bank post)) |> in
      let d := clp_diff s'' post in if d =? 0 then None else Some (id, d)
    | _ => if ok then Some (id, 1) else None
    end
  end.

Definition check_all {A} (d : dec A) (f : A -> option (Z * Z)) (raw : list (list int)) : list (Z * Z) :=
  concat (map (fun r => match run_dec d r with
                        | None => [(-1, -1)]
                        | Some c => match f c with Some m => [m] | None => [] end
                        end) raw).

Definition hist_mismatches (raw : list (list int)) : list (Z * Z) := check_all dStep step_mismatch raw.
