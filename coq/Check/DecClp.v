From Coq Require Import ZArith List Bool.
From Sif Require Import Base.Outcome Base.Store Base.Bank Model.ClpTypes Model.ClpState Check.Decode.
Import ListNotations.
Local Open Scope Z_scope.
Local Open Scope dec_scope.

Definition dStore {V} (d : dec V) : dec (store V) := dList (dPair dZ d).

Definition dPool : dec pool :=
  nb <- dZ ;; eb <- dZ ;; u <- dZ ;; nl <- dZ ;; el <- dZ ;; nc <- dZ ;; ec <- dZ ;; rpd <- dZ ;; rae <- dZ ;;
  dRet (mkPool nb eb u nl el nc ec rpd rae).

Definition dLp : dec lprov :=
  u <- dZ ;; ul <- dList (dPair dZ dZ) ;; last <- dZ ;; dRet (mkLp u ul last).

Definition dRP : dec reward_period :=
  s <- dZ ;; e <- dZ ;; a <- dZ ;; ms <- dList (dPair dZ dZ) ;; d <- dZ ;; dist <- dBool ;; md <- dZ ;;
  dRet (mkRP s e a ms d dist md).

Definition dPD : dec lppd_period :=
  r <- dZ ;; s <- dZ ;; e <- dZ ;; md <- dZ ;; dRet (mkPD r s e md).

Definition dCP : dec clp_params :=
  pm <- dZ ;; fd <- dZ ;; ft <- dList (dPair dZ dZ) ;; lk <- dZ ;; cn <- dZ ;; reg <- dList (dPair dZ dZ) ;; wl <- dList dZ ;; rl <- dZ ;; rw <- dBool ;; mg <- dList dZ ;; th <- dZ ;;
  dRet (mkCP pm fd ft lk cn reg wl rl rw mg th).

Definition dClp : dec clp_state :=
  bal <- dStore (dStore dZ) ;; sup <- dStore dZ ;; pools <- dStore dPool ;; lps <- dStore (dStore dLp) ;;
  buckets <- dStore dZ ;; accu <- dZ ;; rps <- dList dRP ;; pds <- dList dPD ;; h <- dZ ;; cp <- dCP ;;
  dRet (mkClp (mkBank bal sup) pools lps buckets accu rps pds h cp).
