(* Case files carry data as lists of primitive 63-bit integers (fast to parse); this file decodes
   them into Z tokens and then into structured values.  Used only by the correspondence check. *)
From Coq Require Import ZArith List Bool Uint63.
Import ListNotations.
Local Open Scope Z_scope.

Definition LIMB : Z := 2 ^ 60.

(* token stream: header h = 2 * (number of limbs) + sign bit, then the limbs, least significant first *)
Fixpoint take_limbs (n : nat) (l : list int) (mul acc : Z) : Z * list int :=
  match n with
  | O => (acc, l)
  | S n' => match l with
            | [] => (acc, [])
            | x :: l' => take_limbs n' l' (mul * LIMB) (acc + mul * Uint63.to_Z x)
            end
  end.

Fixpoint tokens_fuel (fuel : nat) (l : list int) : list Z :=
  match fuel with
  | O => []
  | S f =>
    match l with
    | [] => []
    | h :: l' =>
      let hz := Uint63.to_Z h in
      let '(v, rest) := take_limbs (Z.to_nat (hz / 2)) l' 1 0 in
      (if Z.odd hz then - v else v) :: tokens_fuel f rest
    end
  end.
Definition tokens (l : list int) : list Z := tokens_fuel (length l) l.

(* decoders *)
Definition dec (A : Type) := list Z -> option (A * list Z).

Definition dZ : dec Z := fun l => match l with x :: l' => Some (x, l') | [] => None end.
Definition dBool : dec bool := fun l => match l with x :: l' => Some (negb (x =? 0), l') | [] => None end.
Definition dRet {A} (a : A) : dec A := fun l => Some (a, l).
Definition dBind {A B} (d : dec A) (f : A -> dec B) : dec B :=
  fun l => match d l with Some (a, l') => f a l' | None => None end.
Definition dMap {A B} (f : A -> B) (d : dec A) : dec B := dBind d (fun a => dRet (f a)).
Definition dPair {A B} (da : dec A) (db : dec B) : dec (A * B) :=
  dBind da (fun a => dBind db (fun b => dRet (a, b))).

Fixpoint dRep {A} (d : dec A) (n : nat) : dec (list A) :=
  match n with
  | O => dRet []
  | S n' => dBind d (fun a => dBind (dRep d n') (fun r => dRet (a :: r)))
  end.
(* length-prefixed list *)
Definition dList {A} (d : dec A) : dec (list A) := dBind dZ (fun n => dRep d (Z.to_nat n)).
Definition dOpt {A} (d : dec A) : dec (option A) :=
  dBind dZ (fun t => if t =? 0 then dRet None else dMap Some d).

Declare Scope dec_scope.
Delimit Scope dec_scope with dec.
Notation "x <- d1 ;; d2" := (dBind d1 (fun x => d2))
  (at level 61, d1 at next level, right associativity) : dec_scope.

Definition run_dec {A} (d : dec A) (l : list int) : option A :=
  match d (tokens l) with
  | Some (a, []) => Some a
  | _ => None
  end.
