(* Per-transaction correspondence for x/dispensation: the model is restarted from the observed pre-state of
   every DeliverTx and must produce the observed post-state (ghost ledger not compared: the code has none). *)
From Coq Require Import ZArith List Bool Uint63.
From RecordUpdate Require Import RecordUpdate.
From Sif Require Import Base.Outcome Base.Store Base.Bank Model.Dispensation Check.Eq Check.Decode Check.DecClp Check.ClpHist.
Import ListNotations.
Local Open Scope Z_scope.
Local Open Scope dec_scope.

Definition dKey : dec rkey := n <- dZ ;; t <- dZ ;; r <- dZ ;; dRet (n, t, r).
Definition dRec : dec drec := cs <- dStore dZ ;; ru <- dZ ;; st <- dZ ;; dn <- dZ ;; dRet (mkRec cs ru st dn).
Definition dTable : dec (table drec) := dList (dPair dKey dRec).

Definition dDisp : dec disp_state :=
  bal <- dStore (dStore dZ) ;; p <- dTable ;; c <- dTable ;; f <- dTable ;;
  ds <- dList dKey ;; cl <- dList (dPair dZ dZ) ;; bl <- dList dZ ;; h <- dZ ;;
  dRet (mkDS (mkBank bal []) p c f ds cl bl h []).

Definition dDMsg : dec disp_msg :=
  tag <- dZ ;;
  if tag =? 1 then d <- dZ ;; n <- dZ ;; t <- dZ ;; r <- dZ ;; outs <- dList (dPair dZ (dStore dZ)) ;; dRet (MCreateDist d n t r outs)
  else if tag =? 2 then r <- dZ ;; n <- dZ ;; t <- dZ ;; c <- dZ ;; dRet (MRunDist r n t c)
  else u <- dZ ;; t <- dZ ;; dRet (MCreateClaim u t).

Definition disp_case := (Z * disp_msg * Z * bool * disp_state * disp_state)%type.
Definition dDCase : dec disp_case :=
  id <- dZ ;; m <- dDMsg ;; fee <- dZ ;; ok <- dBool ;; pre <- dDisp ;; post <- dDisp ;; dRet (id, m, fee, ok, pre, post).

Definition rec_eqb (a b : drec) : bool :=
  zstore_eqb (r_coins a) (r_coins b) && (r_runner a =? r_runner b) && (r_start a =? r_start b) && (r_done a =? r_done b).
Definition table_eqb (a b : table drec) : bool := list_eqb (pair_eqb key_eqb rec_eqb) a b.

(* distributions and claims are compared as sets (their store order is the byte order of other strings) *)
Definition subset {A} (eqb : A -> A -> bool) (a b : list A) : bool := forallb (fun x => inb eqb x b) a.
Definition set_eqb {A} (eqb : A -> A -> bool) (a b : list A) : bool :=
  subset eqb a b && subset eqb b a && (Z.of_nat (length a) =? Z.of_nat (length b)).

Definition disp_diff (a b : disp_state) : Z :=
  if negb (bal_eqb (balances (ds_bank a)) (balances (ds_bank b))) then 2
  else if negb (table_eqb (ds_pending a) (ds_pending b)) then 3
  else if negb (table_eqb (ds_completed a) (ds_completed b)) then 4
  else if negb (table_eqb (ds_failed a) (ds_failed b)) then 5
  else if negb (set_eqb triple_eqb (ds_dists a) (ds_dists b)) then 6
  else if negb (set_eqb pair_eqbZ (ds_claims a) (ds_claims b)) then 7
  else 0.

Definition disp_mismatch (c : disp_case) : option (Z * Z) :=
  let '(id, m, fee, ok, pre, post) := c in
  let '(s', ok') := deliver pre fee m in
  if negb (Bool.eqb ok ok') then Some (id, 1)
  else let d := disp_diff s' post in if d =? 0 then None else Some (id, d).

Definition disp_mismatches (raw : list (list int)) : list (Z * Z) := check_all dDCase disp_mismatch raw.
