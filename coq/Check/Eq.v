(* Boolean comparison of model states with observed implementation states (correspondence check). *)
From Coq Require Import ZArith List Bool.
From Sif Require Import Base.Outcome Base.Store Base.Bank Model.ClpTypes Model.ClpState.
Import ListNotations.
Local Open Scope Z_scope.

Fixpoint list_eqb {A} (eqb : A -> A -> bool) (l1 l2 : list A) : bool :=
  match l1, l2 with
  | [], [] => true
  | x :: l1', y :: l2' => eqb x y && list_eqb eqb l1' l2'
  | _, _ => false
  end.

Definition pair_eqb {A B} (ea : A -> A -> bool) (eb : B -> B -> bool) (x y : A * B) : bool :=
  ea (fst x) (fst y) && eb (snd x) (snd y).

Definition zstore_norm (m : store Z) : store Z := filter (fun kv => negb (snd kv =? 0)) m.
Definition zstore_eqb (m1 m2 : store Z) : bool :=
  list_eqb (pair_eqb Z.eqb Z.eqb) (zstore_norm m1) (zstore_norm m2).

Definition pool_eqb (p q : pool) : bool :=
  (p_nb p =? p_nb q) && (p_eb p =? p_eb q) && (p_units p =? p_units q) &&
  (p_nl p =? p_nl q) && (p_el p =? p_el q) && (p_nc p =? p_nc q) && (p_ec p =? p_ec q) &&
  (p_rpd p =? p_rpd q) && (p_rae p =? p_rae q).

Definition lp_eqb (a b : lprov) : bool :=
  (lp_units a =? lp_units b) && list_eqb (pair_eqb Z.eqb Z.eqb) (lp_unlocks a) (lp_unlocks b) &&
  (lp_last a =? lp_last b).

Definition pools_eqb (m1 m2 : store pool) : bool := list_eqb (pair_eqb Z.eqb pool_eqb) m1 m2.
Definition lps_norm (m : store (store lprov)) := filter (fun kv => match snd kv with [] => false | _ => true end) m.
Definition lps_eqb (m1 m2 : store (store lprov)) : bool :=
  list_eqb (pair_eqb Z.eqb (list_eqb (pair_eqb Z.eqb lp_eqb))) (lps_norm m1) (lps_norm m2).
Definition bal_norm (m : store (store Z)) : store (store Z) :=
  filter (fun kv => match snd kv with [] => false | _ => true end) (map (fun kv => (fst kv, zstore_norm (snd kv))) m).
Definition bal_eqb (m1 m2 : store (store Z)) : bool :=
  list_eqb (pair_eqb Z.eqb (list_eqb (pair_eqb Z.eqb Z.eqb))) (bal_norm m1) (bal_norm m2).

(* first differing field of two clp states: 0 = equal *)
Definition clp_diff (a b : clp_state) : Z :=
  if negb (bal_eqb (balances (cs_bank a)) (balances (cs_bank b))) then 2
  else if negb (zstore_eqb (supply (cs_bank a)) (supply (cs_bank b))) then 3
  else if negb (pools_eqb (cs_pools a) (cs_pools b)) then 4
  else if negb (lps_eqb (cs_lps a) (cs_lps b)) then 5
  else if negb (cs_accu a =? cs_accu b) then 6
  else if negb (zstore_eqb (cs_buckets a) (cs_buckets b)) then 7
  else 0.
