(* Correspondence for genesis export / import: the observed carried state of the running chain, the exported
   genesis document, and the observed carried state of the chain initialised from it. *)
From Coq Require Import ZArith List Bool Uint63.
From RecordUpdate Require Import RecordUpdate.
From Sif Require Import Base.Outcome Base.Store Base.Bank Model.ClpTypes Model.ClpPolicy Model.Dispensation Model.Margin Model.Genesis
  Check.Eq Check.Decode Check.DecClp Check.ClpHist Check.Policy Check.Disp Check.Margin.
Import ListNotations.
Local Open Scope Z_scope.
Local Open Scope dec_scope.

Definition dCarried : dec clp_carried :=
  pools <- dStore dPool ;; lps <- dStore (dStore dLp) ;; b <- dStore dZ ;; rs <- dList dRP ;; ds <- dList dPD ;; l <- dLPS ;; pm <- dPM ;;
  dRet (mkCC pools lps b rs ds l pm).
Definition dGen : dec clp_gen :=
  pools <- dList (dPair dZ dPool) ;; lps <- dList (dPair dZ (dPair dZ dLp)) ;; b <- dList (dPair dZ dZ) ;; rs <- dList dRP ;; ds <- dList dPD ;;
  l <- dLPS ;; pm <- dPM ;; dRet (mkCG pools lps b rs ds l pm).

Definition carried_eqb (a b : clp_carried) : bool :=
  pools_eqb (cc_pools a) (cc_pools b) && Eq.lps_eqb (cc_lps a) (cc_lps b) &&
  list_eqb (pair_eqb Z.eqb Z.eqb) (cc_buckets a) (cc_buckets b) &&
  list_eqb rp_eqb (cc_rewards a) (cc_rewards b) && list_eqb pd_eqb (cc_lppd a) (cc_lppd b) &&
  Policy.lps_eqb (cc_lp a) (cc_lp b) && pm_eqb (cc_pmtp a) (cc_pmtp b).
Definition gen_eqb (a b : clp_gen) : bool :=
  list_eqb (pair_eqb Z.eqb pool_eqb) (cg_pools a) (cg_pools b) &&
  list_eqb (pair_eqb Z.eqb (pair_eqb Z.eqb lp_eqb)) (cg_lps a) (cg_lps b) &&
  list_eqb (pair_eqb Z.eqb Z.eqb) (cg_buckets a) (cg_buckets b) &&
  list_eqb rp_eqb (cg_rewards a) (cg_rewards b) && list_eqb pd_eqb (cg_lppd a) (cg_lppd b) &&
  Policy.lps_eqb (cg_lp a) (cg_lp b) && pm_eqb (cg_pmtp a) (cg_pmtp b).

Definition dDCarried : dec disp_carried :=
  p <- dTable ;; c <- dTable ;; f <- dTable ;; ds <- dList dKey ;; cl <- dList (dPair dZ dZ) ;; dRet (mkDC p c f ds cl).
Definition dDGen : dec disp_gen :=
  rs <- dList (dPair dZ (dPair dKey dRec)) ;; ds <- dList dKey ;; cl <- dList (dPair dZ dZ) ;; dRet (mkDG rs ds cl).
Definition dcarried_eqb (a b : disp_carried) : bool :=
  table_eqb (dc_pending a) (dc_pending b) && table_eqb (dc_completed a) (dc_completed b) && table_eqb (dc_failed a) (dc_failed b) &&
  list_eqb triple_eqb (dc_dists a) (dc_dists b) && list_eqb pair_eqbZ (dc_claims a) (dc_claims b).
Definition dgen_eqb (a b : disp_gen) : bool :=
  list_eqb (pair_eqb Z.eqb (pair_eqb key_eqb rec_eqb)) (dg_records a) (dg_records b) &&
  list_eqb triple_eqb (dg_dists a) (dg_dists b) && list_eqb pair_eqbZ (dg_claims a) (dg_claims b).

Definition mparams_eqb (a b : mparams) : bool :=
  (mp_lev_max a =? mp_lev_max b) && (mp_safety a =? mp_safety b) && (mp_epoch_len a =? mp_epoch_len b) &&
  Bool.eqb (mp_incr a) (mp_incr b) && (mp_incr_pct a =? mp_incr_pct b) && (mp_incr_fund a =? mp_incr_fund b) &&
  (mp_fc_pct a =? mp_fc_pct b) && (mp_fc_fund a =? mp_fc_fund b) &&
  list_eqb Z.eqb (mp_pools a) (mp_pools b) && list_eqb Z.eqb (mp_closed a) (mp_closed b) &&
  Bool.eqb (mp_whitelisting a) (mp_whitelisting b) && (mp_max_open a =? mp_max_open b) && Bool.eqb (mp_rowan_coll a) (mp_rowan_coll b) &&
  (mp_rate_min a =? mp_rate_min b).

Inductive gen_case :=
| GClp (id h : Z) (c1 : clp_carried) (g : clp_gen) (c2 : clp_carried)
| GDisp (id : Z) (d1 : disp_carried) (g : disp_gen) (d2 : disp_carried)
| GMargin (id : Z) (s1 : mstate) (doc : list (Z * (Z * mtp))) (s2 : mstate).
Definition dGenCase : dec gen_case :=
  k <- dZ ;; id <- dZ ;;
  if k =? 1 then h <- dZ ;; c1 <- dCarried ;; g <- dGen ;; c2 <- dCarried ;; dRet (GClp id h c1 g c2)
  else if k =? 3 then s1 <- dMState ;; doc <- dList (dPair dZ (dPair dZ dMtp)) ;; s2 <- dMState ;; dRet (GMargin id s1 doc s2)
  else d1 <- dDCarried ;; g <- dDGen ;; d2 <- dDCarried ;; dRet (GDisp id d1 g d2).

(* 1: the model's export of the observed state is not the observed document; 2: the model's import of the
   observed document is not the state observed on the new chain *)
Definition gen_mismatch (c : gen_case) : option (Z * Z) :=
  match c with
  | GClp id h c1 g c2 =>
    if negb (gen_eqb (export_clp c1) g) then
      let e := export_clp c1 in
      Some (id, if negb (list_eqb (pair_eqb Z.eqb pool_eqb) (cg_pools e) (cg_pools g)) then 11
                else if negb (list_eqb (pair_eqb Z.eqb (pair_eqb Z.eqb lp_eqb)) (cg_lps e) (cg_lps g)) then 12
                else if negb (list_eqb (pair_eqb Z.eqb Z.eqb) (cg_buckets e) (cg_buckets g)) then 13
                else if negb (list_eqb rp_eqb (cg_rewards e) (cg_rewards g)) then 14
                else if negb (list_eqb pd_eqb (cg_lppd e) (cg_lppd g)) then 15
                else if negb (Policy.lps_eqb (cg_lp e) (cg_lp g)) then 16 else 17)
    else if negb (carried_eqb (import_clp h g) c2) then Some (id, 2) else None
  | GDisp id d1 g d2 =>
    if negb (dgen_eqb (export_disp d1) g) then Some (id, 1)
    else if negb (dcarried_eqb (import_disp g) d2) then Some (id, 2) else None
  | GMargin id s1 doc s2 =>
    (* the document's position list (in its own order) against the model's export; the model's import of the document
       against positions, counters, parameters and whitelist read from the new chain *)
    let mtps_eqb := list_eqb (pair_eqb Z.eqb (list_eqb (pair_eqb Z.eqb mtp_eqb))) in
    if negb (list_eqb (pair_eqb Z.eqb (pair_eqb Z.eqb mtp_eqb)) (mg_mtps (export_margin (margin_carried_of s1))) doc) then Some (id, 1)
    else let c' := import_margin (mkMG (ms_params s1) doc) in
      if negb (mtps_eqb (mtps_norm (mc_mtps c')) (mtps_norm (ms_mtps s2))) then Some (id, 2)
      else if negb (mc_count c' =? ms_count s2) then Some (id, 3)
      else if negb (mc_open c' =? ms_open s2) then Some (id, 4)
      else if negb (mparams_eqb (mc_params c') (ms_params s2)) then Some (id, 5)
      else if negb (list_eqb Z.eqb (mc_whitelist c') (ms_whitelist s2)) then Some (id, 6) else None
  end.
Definition gen_mismatches (raw : list (list int)) : list (Z * Z) := check_all dGenCase gen_mismatch raw.
