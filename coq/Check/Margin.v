(* Correspondence check for x/margin: each observed transition (Open / Close / AdminClose transaction,
   BeginBlock) is re-run by the model from the observed pre-state and compared with the observed post-state. *)
From Coq Require Import ZArith List Bool Uint63.
From Sif Require Import Base.Outcome Base.SdkMath Base.Store Base.Bank Model.Margin Check.Eq Check.Decode Check.DecClp Check.Calc.
Import ListNotations.
Local Open Scope Z_scope.
Local Open Scope dec_scope.

Definition dMtp : dec mtp :=
  ca <- dZ ;; cam <- dZ ;; l <- dZ ;; ipc <- dZ ;; ipu <- dZ ;; iu <- dZ ;; cua <- dZ ;; cuam <- dZ ;; lev <- dZ ;;
  dRet (mkMtp ca cam l ipc ipu iu cua cuam lev 0).
Definition dMPool : dec mpool :=
  nb <- dZ ;; eb <- dZ ;; nl <- dZ ;; el <- dZ ;; nc <- dZ ;; ec <- dZ ;; un <- dZ ;; ue <- dZ ;; bin <- dZ ;; bie <- dZ ;;
  r <- dZ ;; rn <- dZ ;; rd <- dZ ;; dRet (mkMPool nb eb nl el nc ec un ue bin bie r rn rd).
Definition dMParams : dec mparams :=
  lm <- dZ ;; sf <- dZ ;; el <- dZ ;; incr <- dBool ;; ipct <- dZ ;; ifund <- dZ ;; fpct <- dZ ;; ffund <- dZ ;;
  pools <- dList dZ ;; closed <- dList dZ ;; wl <- dBool ;; mo <- dZ ;; rc <- dBool ;; rm <- dZ ;; rmn <- dZ ;; rmd <- dZ ;;
  dRet (mkMParams lm sf el incr ipct ifund fpct ffund pools closed wl mo rc rm rmn rmd).
Definition dMState : dec mstate :=
  bal <- dStore (dStore dZ) ;; pools <- dStore dMPool ;; mtps <- dStore (dStore dMtp) ;; cnt <- dZ ;; op <- dZ ;; h <- dZ ;;
  ps <- dMParams ;; wl <- dList dZ ;; fd <- dZ ;; ft <- dList (dPair dZ dZ) ;; pm <- dZ ;;
  dRet (mkMState (mkBank bal []) pools mtps cnt op h ps wl fd ft pm).

(* step: id, kind (1 tx, 3 BeginBlock), payload, ok flag, pre, post *)
Inductive mstep :=
| MTx (m : margin_msg) (fee : Z) (health_low : bool)
| MBegin (rates : list (Z * Z * Z)).
Definition dMsg : dec margin_msg :=
  tag <- dZ ;;
  if tag =? 1 then sg <- dZ ;; c <- dZ ;; b <- dZ ;; a <- dZ ;; l <- dZ ;; dRet (MOpen sg c b a l)
  else if tag =? 2 then sg <- dZ ;; id <- dZ ;; dRet (MClose sg id)
  else adm <- dBool ;; sg <- dZ ;; addr <- dZ ;; id <- dZ ;; tf <- dBool ;; dRet (MAdminClose adm sg addr id tf).
Definition dMCase : dec (Z * mstep * bool * mstate * mstate) :=
  id <- dZ ;; kind <- dZ ;;
  st <- (if kind =? 1 then m <- dMsg ;; fee <- dZ ;; hl <- dBool ;; dRet (MTx m fee hl)
         else rs <- dList (r <- dZ ;; n <- dZ ;; d <- dZ ;; dRet (r, n, d)) ;; dRet (MBegin rs)) ;;
  ok <- dBool ;; pre <- dMState ;; post <- dMState ;; dRet (id, st, ok, pre, post).

Definition mtp_eqb (a b : mtp) : bool :=
  (m_coll_asset a =? m_coll_asset b) && (m_coll_amt a =? m_coll_amt b) && (m_liab a =? m_liab b) &&
  (m_ipaid_coll a =? m_ipaid_coll b) && (m_ipaid_cust a =? m_ipaid_cust b) && (m_iunpaid a =? m_iunpaid b) &&
  (m_cust_asset a =? m_cust_asset b) && (m_cust_amt a =? m_cust_amt b) && (m_lev a =? m_lev b).
(* the pool interest rate and its float are oracle inputs; everything else is compared *)
Definition mpool_eqb (p q : mpool) : bool :=
  (q_nb p =? q_nb q) && (q_eb p =? q_eb q) && (q_nl p =? q_nl q) && (q_el p =? q_el q) && (q_nc p =? q_nc q) && (q_ec p =? q_ec q) &&
  (q_un p =? q_un q) && (q_ue p =? q_ue q) && (q_bin p =? q_bin q) && (q_bie p =? q_bie q) && (q_rate p =? q_rate q).
Definition mtps_norm (m : store (store mtp)) := filter (fun kv => match snd kv with [] => false | _ => true end) m.

Definition mstate_diff (a b : mstate) : Z :=
  if negb (bal_eqb (balances (ms_bank a)) (balances (ms_bank b))) then 2
  else if negb (list_eqb (pair_eqb Z.eqb mpool_eqb) (ms_pools a) (ms_pools b)) then 4
  else if negb (list_eqb (pair_eqb Z.eqb (list_eqb (pair_eqb Z.eqb mtp_eqb))) (mtps_norm (ms_mtps a)) (mtps_norm (ms_mtps b))) then 5
  else if negb (ms_count a =? ms_count b) then 6
  else if negb (ms_open a =? ms_open b) then 7
  else 0.

Definition margin_mismatch (c : Z * mstep * bool * mstate * mstate) : option (Z * Z) :=
  let '(id, st, ok, pre, post) := c in
  match st with
  | MTx m fee hl =>
    let '(s', ok') := deliver_margin pre fee hl m in
    (* what C13_history asks along the run when a position is opened: the id the counter hands out next is free *)
    let fresh := match m with
                 | MOpen sg _ _ _ _ => (0 <=? ms_count pre) && (match find_mtp pre sg (ms_count pre + 1) with None => true | Some _ => false end)
                 | _ => true
                 end in
    if negb (Bool.eqb ok ok') then Some (id, 1)
    else if negb fresh then Some (id, 12)
    else let d := mstate_diff s' post in if d =? 0 then None else Some (id, d)
  | MBegin rates =>
    match begin_block_margin pre rates with
    | Ok (s', _) => if negb ok then Some (id, 1) else
                    let d := mstate_diff s' post in if d =? 0 then None else Some (id, d)
    | _ => if ok then Some (id, 1) else None
    end
  end.

Definition margin_mismatches (raw : list (list int)) : list (Z * Z) := check_all dMCase margin_mismatch raw.
