(* Correspondence for the AMM policy: administrator messages (accepted / rejected, policy state after) and the
   policy part of BeginBlock (panicked / not, policy state after) as observed on the real app. *)
From Coq Require Import ZArith List Bool Uint63.
From RecordUpdate Require Import RecordUpdate.
From Sif Require Import Base.Outcome Base.SdkMath Model.ClpTypes Model.ClpPolicy Check.Eq Check.Decode Check.DecClp Check.ClpHist.
Import ListNotations.
Local Open Scope Z_scope.
Local Open Scope dec_scope.

Definition dLPS : dec lp_state := mx <- dZ ;; ep <- dZ ;; a <- dBool ;; c <- dZ ;; dRet (mkLPS mx ep a c).
Definition dPM : dec pmtp_state :=
  st <- dZ ;; en <- dZ ;; el <- dZ ;; g <- dZ ;; b <- dZ ;; r <- dZ ;; i <- dZ ;; ec <- dZ ;; bc <- dZ ;;
  dRet (mkPM st en el g b r i ec bc).
Definition dPol : dec policy_state :=
  h <- dZ ;; l <- dLPS ;; pm <- dPM ;; rs <- dList dRP ;; ds <- dList dPD ;; dRet (mkPol h l pm rs ds).

Definition dOptZ : dec (option Z) := dOpt dZ.
Definition dRM : dec rp_msg :=
  ie <- dBool ;; st <- dZ ;; en <- dZ ;; al <- dOptZ ;; ms <- dList (dPair dZ dOptZ) ;; df <- dOptZ ;; di <- dBool ;; md <- dZ ;;
  dRet (mkRM ie st en al ms df di md).
Definition dField : dec dec_field :=
  t <- dZ ;; if t =? 0 then dRet DEmpty else if t =? 1 then dRet DBad else v <- dZ ;; dRet (DVal v).
Definition dPMsg : dec policy_msg :=
  tag <- dZ ;;
  if tag =? 0 then ps <- dList dRM ;; dRet (PAddRewardPeriods ps)
  else if tag =? 1 then ps <- dList dPD ;; dRet (PAddLppd ps)
  else if tag =? 2 then g <- dField ;; el <- dZ ;; st <- dZ ;; en <- dZ ;; br <- dOptZ ;; dRet (PUpdatePmtpParams g el st en br)
  else if tag =? 3 then b <- dField ;; r <- dField ;; e <- dBool ;; br <- dOptZ ;; dRet (PModifyPmtpRates b r e br)
  else if tag =? 4 then mx <- dZ ;; ep <- dZ ;; a <- dBool ;; dRet (PUpdateLPParams mx ep a)
  else if tag =? 5 then c <- dZ ;; dRet (PModifyLPRates c)
  else d <- dZ ;; rs <- dList dZ ;; dRet (PUpdateSwapFee d rs).

Inductive pol_step := PSMsg (m : policy_msg) | PSBegin (br : option Z).
Definition pol_case := (Z * pol_step * bool * policy_state * policy_state)%type.
Definition dPolCase : dec pol_case :=
  id <- dZ ;; k <- dZ ;;
  st <- (if k =? 1 then m <- dPMsg ;; dRet (PSMsg m) else br <- dOptZ ;; dRet (PSBegin br)) ;;
  ok <- dBool ;; pre <- dPol ;; post <- dPol ;; dRet (id, st, ok, pre, post).

Definition lps_eqb (a b : lp_state) : bool :=
  (lps_max a =? lps_max b) && (lps_epoch a =? lps_epoch b) && Bool.eqb (lps_active a) (lps_active b) && (lps_current a =? lps_current b).
Definition pm_eqb (a b : pmtp_state) : bool :=
  (pm_start a =? pm_start b) && (pm_end a =? pm_end b) && (pm_epoch_len a =? pm_epoch_len b) && (pm_gov a =? pm_gov b) &&
  (pm_block_rate a =? pm_block_rate b) && (pm_running a =? pm_running b) && (pm_inter a =? pm_inter b) &&
  (pm_epochs a =? pm_epochs b) && (pm_blocks a =? pm_blocks b).
Definition rp_eqb (a b : reward_period) : bool :=
  (rp_start a =? rp_start b) && (rp_end a =? rp_end b) && (rp_alloc a =? rp_alloc b) &&
  list_eqb (pair_eqb Z.eqb Z.eqb) (rp_mults a) (rp_mults b) && (rp_default a =? rp_default b) &&
  Bool.eqb (rp_distribute a) (rp_distribute b) && (rp_mod a =? rp_mod b).
Definition pd_eqb (a b : lppd_period) : bool :=
  (pd_rate a =? pd_rate b) && (pd_start a =? pd_start b) && (pd_end a =? pd_end b) && (pd_mod a =? pd_mod b).

Definition pol_diff (a b : policy_state) : Z :=
  if negb (lps_eqb (pol_lp a) (pol_lp b)) then 2
  else if negb (pm_eqb (pol_pmtp a) (pol_pmtp b)) then 3
  else if negb (list_eqb rp_eqb (pol_rewards a) (pol_rewards b)) then 4
  else if negb (list_eqb pd_eqb (pol_lppd a) (pol_lppd b)) then 5
  else 0.

Definition pol_mismatch (c : pol_case) : option (Z * Z) :=
  let '(id, st, ok, pre, post) := c in
  match st with
  | PSMsg m =>
    let '(s', ok') := policy_deliver pre m in
    if negb (Bool.eqb ok ok') then Some (id, 1)
    else let d := pol_diff s' post in if d =? 0 then None else Some (id, d)
  | PSBegin br =>
    match policy_begin pre br with
    | Ok s' => if negb ok then Some (id, 1) else let d := pol_diff s' post in if d =? 0 then None else Some (id, d)
    | _ => if ok then Some (id, 1) else None
    end
  end.

Definition pol_mismatches (raw : list (list int)) : list (Z * Z) := check_all dPolCase pol_mismatch raw.
