(* Correspondence for the removal queue's accounting: GetRemovalQueueUnitsForLP on queues built through the message server. *)
From Coq Require Import ZArith List Bool Uint63.
From Sif Require Import Base.Outcome Model.ClpQueue Check.Eq Check.Decode.
Import ListNotations.
Local Open Scope Z_scope.
Local Open Scope dec_scope.

(* id, provider units, asset, the provider's requests in store order (asset, weighted basis points), observed result (-1: panic) *)
Definition qcase := (Z * Z * Z * list (Z * Z) * Z)%type.
Definition dQCase : dec qcase :=
  id <- dZ ;; u <- dZ ;; a <- dZ ;; rs <- dList (dPair dZ dZ) ;; got <- dZ ;; dRet (id, u, a, rs, got).

Definition qmismatch (c : qcase) : option (Z * Z) :=
  let '(id, u, a, rs, got) := c in
  match queued_units u a rs with
  | Ok q => if q =? got then None else Some (id, 1)
  | _ => if got =? -1 then None else Some (id, 2)
  end.

Definition queue_mismatches (raw : list (list int)) : list (Z * Z) :=
  concat (map (fun r => match run_dec dQCase r with
                        | None => [(-1, -1)]
                        | Some c => match qmismatch c with Some m => [m] | None => [] end
                        end) raw).
