(* Correspondence for the relayer's translation functions: the real functions were called on these inputs. *)
From Coq Require Import ZArith List Bool Uint63.
From Sif Require Import Model.Relayer Check.Eq Check.Decode Check.DecClp Check.ClpHist.
Import ListNotations.
Local Open Scope Z_scope.
Local Open Scope dec_scope.

Definition dStr : dec str := dList dZ.
Definition c16_table : sym_table :=
  [ ([99;119;101;105;114;100], [87;101;105;114;100]);                                 (* cweird <-> Weird *)
    ([105;98;99;47;70;69;69;68;70;65;67;69], [65;84;79;77]);                          (* ibc/FEEDFACE <-> ATOM *)
    ([120;114;111;119;97;110], [101;114;111;119;97;110]) ].                           (* xrowan <-> erowan *)

Inductive rcase :=
| RSif (id : Z) (burn : bool) (attrs : list (Z * str)) (ok : bool) (out : option cosmos_msg)
| REth (id : Z) (e : eth_event) (ok : bool) (out : option (Z * Z * str * Z)) (panicked : bool).

Definition dOptZ : dec (option Z) := dOpt dZ.
Definition dRCase : dec rcase :=
  k <- dZ ;; id <- dZ ;;
  if k =? 1 then
    burn <- dBool ;; attrs <- dList (dPair dZ dStr) ;; ok <- dBool ;;
    (if ok then s <- dStr ;; q <- dOptZ ;; r <- dList dZ ;; y <- dStr ;; m <- dOptZ ;; dRet (RSif id burn attrs ok (Some (mkCM s q r y m)))
     else dRet (RSif id burn attrs ok None))
  else
    burn <- dBool ;; ch <- dZ ;; no <- dZ ;; fr <- dList dZ ;; tk <- dList dZ ;; sy <- dStr ;; v <- dZ ;; rv <- dBool ;; ok <- dBool ;;
    out <- (if ok then c <- dZ ;; n <- dZ ;; s <- dStr ;; a <- dZ ;; dRet (Some (c, n, s, a)) else dRet None) ;;
    p <- dBool ;; dRet (REth id (mkEv burn ch no fr tk sy v rv) ok out p).

Definition optz_eqb (a b : option Z) : bool :=
  match a, b with Some x, Some y => x =? y | None, None => true | _, _ => false end.
Definition cm_eqb (a b : cosmos_msg) : bool :=
  str_eqb (cm_sender a) (cm_sender b) && optz_eqb (cm_sequence a) (cm_sequence b) && str_eqb (cm_receiver a) (cm_receiver b) &&
  str_eqb (cm_symbol a) (cm_symbol b) && optz_eqb (cm_amount a) (cm_amount b).

Definition rmismatch (c : rcase) : option (Z * Z) :=
  match c with
  | RSif id burn attrs ok out =>
    match burn_lock_to_msg burn c16_table attrs, out with
    | Some m, Some o => if ok && cm_eqb m o then None else Some (id, 2)
    | None, None => if ok then Some (id, 1) else None
    | _, _ => Some (id, 1)
    end
  | REth id e ok out panicked =>
    if panicked then None else
    match event_to_claim c16_table e, out with
    | Some cl, Some (c, n, s, a) =>
      if ok && (cl_chain cl =? c) && (cl_nonce cl =? n) && str_eqb (cl_symbol cl) s && (cl_amount cl =? a) then None else Some (id, 2)
    | None, None => if ok then Some (id, 1) else None
    | _, _ => Some (id, 1)
    end
  end.
Definition relayer_mismatches (raw : list (list int)) : list (Z * Z) := check_all dRCase rmismatch raw.
