(* Correspondence check for the relayer's scanning loop: the schedule of a scenario (headers, query failures, kills
   at the chosen points) is run through the model, which must predict every log query the real loop made, every
   claim it submitted (in order), and the LevelDB cursor after every step, kill and at the end. *)
From Coq Require Import ZArith List Bool Uint63.
From Sif Require Import Model.RelayerLoop Check.Eq Check.Decode Check.Calc.
Import ListNotations.
Local Open Scope Z_scope.
Local Open Scope dec_scope.

(* a scenario step: header number, query mode (0 ok, 1 fail, 2 kill on receipt), submit mode (0 none, 1 kill before
   the claims are recorded, 2 kill after they are recorded / during the sleep that follows) *)
Definition sstep := (Z * Z * Z)%type.

Fixpoint assoc_events (evs : list (Z * list Z)) (b : Z) : list Z :=
  match evs with [] => [] | (b', l) :: r => if b' =? b then l else assoc_events r b end.
(* the scenario marks an event whose fields txs.EthereumEventToEthBridgeClaim refuses (recipient with a wrong checksum, "eth"
   with a token address) by a nonce whose last two digits are 50 or more *)
Definition scenario_tr (n : Z) : bool := n mod 100 <? 50.

(* observation tokens: [1; from; to; code] a log query (code 0 ok, 1 failed, 2 killed), [2; nonce] a submitted claim,
   [3; cursor] the persisted cursor *)
Definition apply_step (ev : Z -> list Z) (s : rstate) (st : sstep) : rstate * list Z :=
  let '(n, q, sm) := st in
  let ending := n - TRAILING in
  let cur := if r_cursor s =? 0 then ending else r_cursor s in
  if ending <? 0 then let s1 := step ev s (Head n true) in (s1, [3; r_persisted s1]) else
  if q =? 2 then let s1 := step ev s Kill in (s1, [1; cur; ending; 2; 3; r_persisted s1]) else
  if q =? 1 then let s1 := step ev s (Head n false) in (s1, [1; cur; ending; 1; 3; r_persisted s1]) else
  let s1 := step ev s (Head n true) in
  match r_pc s1 with
  | Fetched _ _ evs =>
    let nonces := concat (map (fun be => [2; snd be]) (handle_events scenario_tr evs)) in
    if sm =? 1 then let s2 := step ev s1 Kill in (s2, [1; cur; ending; 0; 3; r_persisted s2])
    else if sm =? 2 then let s2 := step ev (step ev s1 Tick) Kill in (s2, [1; cur; ending; 0] ++ nonces ++ [3; r_persisted s2])
    else let s2 := step ev (step ev s1 Tick) Tick in (s2, [1; cur; ending; 0] ++ nonces ++ [3; r_persisted s2])
  | _ => (s1, [1; cur; ending; 0; 3; r_persisted s1])
  end.

Fixpoint run_obs (ev : Z -> list Z) (s : rstate) (steps : list sstep) : list Z :=
  match steps with
  | [] => [3; r_persisted s]
  | st :: rest => let '(s1, o) := apply_step ev s st in o ++ run_obs ev s1 rest
  end.

Definition dLoopCase : dec (Z * list (Z * list Z) * list sstep * list Z) :=
  id <- dZ ;; evs <- dList (dPair dZ (dList dZ)) ;; steps <- dList (n <- dZ ;; q <- dZ ;; sm <- dZ ;; dRet (n, q, sm)) ;;
  obs <- dList dZ ;; dRet (id, evs, steps, obs).

Definition loop_mismatch (c : Z * list (Z * list Z) * list sstep * list Z) : option (Z * Z) :=
  let '(id, evs, steps, obs) := c in
  let model := run_obs (assoc_events evs) init steps in
  if list_eqb Z.eqb model obs then None else Some (id, Z.of_nat (length (filter (fun x => x) (map (fun p => Z.eqb (fst p) (snd p)) (combine model obs))))).

Definition loop_mismatches (raw : list (list int)) : list (Z * Z) := check_all dLoopCase loop_mismatch raw.
