(* GENERATED from /repo by harness/extract on every run; do not edit. *)
From Coq Require Import ZArith List String.
Import ListNotations.
Local Open Scope string_scope.
(* (module, Msg service method, role checked first, only reads/parsing before the check) *)
Definition gen_auth_table : list (string * string * string * bool) := [
  ("admin", "AddAccount", "ADMIN", true);
  ("admin", "RemoveAccount", "ADMIN", true);
  ("admin", "SetParams", "ADMIN", true);
  ("clp", "AddLiquidity", "NONE", true);
  ("clp", "AddLiquidityToRewardsBucket", "NONE", true);
  ("clp", "AddProviderDistributionPeriod", "PMTPREWARDS", true);
  ("clp", "AddRewardPeriod", "PMTPREWARDS", true);
  ("clp", "CancelUnlockLiquidity", "NONE", true);
  ("clp", "CreatePool", "NONE", true);
  ("clp", "DecommissionPool", "CLP_WHITELIST", true);
  ("clp", "ModifyLiquidityProtectionRates", "CLPDEX", true);
  ("clp", "ModifyPmtpRates", "PMTPREWARDS", true);
  ("clp", "RemoveLiquidity", "NONE", true);
  ("clp", "RemoveLiquidityUnits", "NONE", true);
  ("clp", "SetSymmetryThreshold", "CLPDEX", true);
  ("clp", "Swap", "NONE", true);
  ("clp", "UnlockLiquidity", "NONE", true);
  ("clp", "UpdateLiquidityProtectionParams", "CLPDEX", true);
  ("clp", "UpdatePmtpParams", "PMTPREWARDS", true);
  ("clp", "UpdateRewardsParams", "PMTPREWARDS", true);
  ("clp", "UpdateStakingRewardParams", "PMTPREWARDS", true);
  ("clp", "UpdateSwapFeeParams", "PMTPREWARDS", true);
  ("dispensation", "CreateDistribution", "NONE", true);
  ("dispensation", "CreateUserClaim", "NONE", true);
  ("dispensation", "RunDistribution", "NONE", true);
  ("ethbridge", "Burn", "NONE", true);
  ("ethbridge", "CreateEthBridgeClaim", "NONE", true);
  ("ethbridge", "Lock", "NONE", true);
  ("ethbridge", "RescueCeth", "ORACLE_ADMIN", true);
  ("ethbridge", "SetBlacklist", "ETHBRIDGE", true);
  ("ethbridge", "SetPause", "ETHBRIDGE", true);
  ("ethbridge", "UpdateCethReceiverAccount", "ORACLE_ADMIN", true);
  ("ethbridge", "UpdateWhiteListValidator", "ORACLE_ADMIN", true);
  ("margin", "AdminClose", "MARGIN", true);
  ("margin", "AdminCloseAll", "MARGIN", true);
  ("margin", "Close", "NONE", true);
  ("margin", "Dewhitelist", "MARGIN", true);
  ("margin", "ForceClose", "MARGIN", true);
  ("margin", "Open", "NONE", true);
  ("margin", "UpdateParams", "MARGIN", true);
  ("margin", "UpdatePools", "MARGIN", true);
  ("margin", "UpdateRowanCollateral", "MARGIN", true);
  ("margin", "Whitelist", "MARGIN", true);
  ("tokenregistry", "Deregister", "TOKENREGISTRY", true);
  ("tokenregistry", "Register", "TOKENREGISTRY", true);
  ("tokenregistry", "SetRegistry", "TOKENREGISTRY", true)].
