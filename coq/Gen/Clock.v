(* GENERATED from /repo by harness/extract on every run; do not edit. *)
From Coq Require Import ZArith List String.
Import ListNotations.
Local Open Scope string_scope.
Definition gen_written_globals : list (string * string * string) := [("x/clp/abci.go", "MeasureBlockTime", "blockTime");
  ("x/oracle/types/codec.go", "init", "ModuleCdc")].
Definition gen_numeric_globals : list (string * string) := [("app/ante/commission.go", "MinCommission");
  ("app/ante/commission.go", "maxVotingPower");
  ("x/ethbridge/types/test_common.go", "testCethAmount");
  ("x/ethbridge/types/test_common.go", "TestCoinsAmount");
  ("x/ethbridge/types/test_common.go", "AltTestCoinsAmountSDKInt")].
Definition gen_clock_sites : list (string * string * string * string) := [("x/clp/abci.go", "EndBlocker", "time.Now", "defer telemetry.ModuleMeasureSince");
  ("x/clp/abci.go", "BeginBlocker", "time.Now", "defer telemetry.ModuleMeasureSince");
  ("x/clp/abci.go", "MeasureBlockTime", "time.Now", "statement");
  ("x/epochs/keeper/abci.go", "Keeper.BeginBlocker", "time.Now", "defer telemetry.ModuleMeasureSince")].
Definition gen_map_ranges : list (string * string * string) := [("x/clp/keeper/epoch_hooks.go", "Keeper.AfterEpochEnd", "rewardsEligibleLps");
  ("x/clp/keeper/provider_distribution.go", "Keeper.TransferProviderDistribution", "poolRowanMap");
  ("x/clp/keeper/provider_distribution.go", "Keeper.TransferProviderDistributionGeneric", "lpRowanMap");
  ("x/clp/keeper/provider_distribution.go", "PoolRowanMapToLPPools", "poolRowanMap");
  ("x/clp/keeper/rewards.go", "Keeper.DistributeDepthRewards", "poolRowanMap");
  ("x/clp/keeper/rewards.go", "Keeper.DistributeDepthRewards", "poolRowanMap");
  ("x/ethbridge/types/msgs.go", "MapOracleClaimsToEthBridgeClaims", "oracleValidatorClaims");
  ("x/oracle/types/prophecy.go", "Prophecy.FindHighestClaim", "prophecy.ClaimValidators")].
