(* GENERATED from /repo by harness/extract on every run; do not edit. *)
From Coq Require Import ZArith List String.
Import ListNotations.
Local Open Scope string_scope.
Definition gen_max_mint : Z := 350000000000000000000000000%Z.
Definition gen_mint_per_block : Z := 225000000000000000000%Z.
Definition gen_eco_pool : string := "sif1ct2s3t8u2kffjpaekhtngzv6yc4vm97xajqyl3".
Definition gen_dispensation_begin_blockers : Z := 1%Z.
Definition gen_consensus_needed_times_1000 : Z := 700%Z.
Definition gen_oracle_keeper_uses_default_threshold : Z := 1%Z.
Definition gen_trailing_blocks : Z := 50%Z.
Definition gen_relayer_loop_actions : list string := ["Sleep"; "Get"; "FilterLogs"; "handleEthereumEvent"; "Sleep"; "Put"].
Definition gen_relayer_db_accesses : list (string * string * string * string) := [("cosmos.go", "CosmosSub.Start", "Get", "[]byte(cosmosLevelDBKey)");
  ("cosmos.go", "CosmosSub.Start", "Put", "[]byte(cosmosLevelDBKey)");
  ("ethereum.go", "EthereumSub.Start", "Get", "[]byte(ethLevelDBKey)");
  ("ethereum.go", "EthereumSub.Start", "Put", "[]byte(ethLevelDBKey)")].
