(* GENERATED from /repo by harness/extract on every run; do not edit. *)
From Coq Require Import ZArith List String.
Import ListNotations.
Local Open Scope string_scope.
Definition gen_fee_substrings : list string := ["disptypes.MsgTypeCreateDistribution"; "disptypes.MsgTypeRunDistribution"; "banktypes.TypeMsgSend"; "banktypes.TypeMsgMultiSend"; "createuserclaim"; "swap"; "removeliquidity"; "removeliquidityunits"; "addliquidity"; "transfer"; "submitproposal"; "govtypes.TypeMsgSubmitProposal"].
Definition gen_fee_amounts : list Z := [100000000000000000; 10000000000000000]%Z.
Definition gen_fee_takes_maximum : Z := 1%Z.
Definition gen_fee_walks_msgexec : Z := 1%Z.
Definition gen_commission_walks_msgexec : Z := 1%Z.
Definition gen_commission_decs : list (Z * Z) := [(5, 2)%Z; (66, 1)%Z].
