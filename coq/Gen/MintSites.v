(* GENERATED from /repo by harness/extract on every run; do not edit. *)
From Coq Require Import ZArith List String.
Import ListNotations.
Local Open Scope string_scope.
Definition gen_mint_sites : list (string * string) := [("x/clp/keeper/rewards.go", "Keeper.DistributeDepthRewards");
  ("x/dispensation/abci.go", "BeginBlocker");
  ("x/ethbridge/keeper/keeper.go", "Keeper.ProcessSuccessfulClaim");
  ("x/ethbridge/keeper/keeper.go", "Keeper.ProcessSuccessfulClaim");
  ("x/ibctransfer/helpers/conversion_helper.go", "PrepareToSendConvertedCoins")].
Definition gen_controller_writers : list (string * string) := [("x/dispensation/genesis.go", "InitGenesis");
  ("x/dispensation/keeper/migrations.go", "Migrator.MigrateToVer2");
  ("x/dispensation/keeper/mint_controller.go", "Keeper.AddMintAmount")].
