(* Privileged messages: every handler's first effectful step is a role check (x/admin role table,
   the oracle admin account, the clp decommission whitelist). *)
From Coq Require Import ZArith List Bool String.
From Sif Require Import Base.Outcome.
Import ListNotations.
Local Open Scope Z_scope.

Inductive role := R_ADMIN | R_TOKENREGISTRY | R_PMTPREWARDS | R_CLPDEX | R_MARGIN | R_ETHBRIDGE | R_ORACLE_ADMIN | R_CLP_WHITELIST.

Definition role_eqb (a b : role) : bool :=
  match a, b with
  | R_ADMIN, R_ADMIN | R_TOKENREGISTRY, R_TOKENREGISTRY | R_PMTPREWARDS, R_PMTPREWARDS | R_CLPDEX, R_CLPDEX
  | R_MARGIN, R_MARGIN | R_ETHBRIDGE, R_ETHBRIDGE | R_ORACLE_ADMIN, R_ORACLE_ADMIN | R_CLP_WHITELIST, R_CLP_WHITELIST => true
  | _, _ => false
  end.

Record auth_state := mkAuth {
  au_admins : list (role * Z);       (* x/admin store: (admin type, account) *)
  au_oracle_admin : option Z;        (* x/oracle admin account *)
  au_clp_whitelist : list Z          (* x/clp address whitelist *)
}.

Definition holds (s : auth_state) (r : role) (a : Z) : bool :=
  match r with
  | R_ORACLE_ADMIN => match au_oracle_admin s with Some x => x =? a | None => false end
  | R_CLP_WHITELIST => existsb (Z.eqb a) (au_clp_whitelist s)
  | _ => existsb (fun e => role_eqb (fst e) r && (snd e =? a)) (au_admins s)
  end.

(* the 46 Sifchain message types: (module, method) -> required role, as the table in DESIGN.md 4/C08 *)
Local Open Scope string_scope.
Definition spec_table : list (string * string * string * bool) := [
  ("admin", "AddAccount", "ADMIN", true);
  ("admin", "RemoveAccount", "ADMIN", true);
  ("admin", "SetParams", "ADMIN", true);
  ("clp", "AddLiquidity", "NONE", true);
  ("clp", "AddLiquidityToRewardsBucket", "NONE", true);
  ("clp", "AddProviderDistributionPeriod", "PMTPREWARDS", true);
  ("clp", "AddRewardPeriod", "PMTPREWARDS", true);
  ("clp", "CancelUnlockLiquidity", "NONE", true);
  ("clp", "CreatePool", "NONE", true);
  ("clp", "DecommissionPool", "CLP_WHITELIST", true);
  ("clp", "ModifyLiquidityProtectionRates", "CLPDEX", true);
  ("clp", "ModifyPmtpRates", "PMTPREWARDS", true);
  ("clp", "RemoveLiquidity", "NONE", true);
  ("clp", "RemoveLiquidityUnits", "NONE", true);
  ("clp", "SetSymmetryThreshold", "CLPDEX", true);
  ("clp", "Swap", "NONE", true);
  ("clp", "UnlockLiquidity", "NONE", true);
  ("clp", "UpdateLiquidityProtectionParams", "CLPDEX", true);
  ("clp", "UpdatePmtpParams", "PMTPREWARDS", true);
  ("clp", "UpdateRewardsParams", "PMTPREWARDS", true);
  ("clp", "UpdateStakingRewardParams", "PMTPREWARDS", true);
  ("clp", "UpdateSwapFeeParams", "PMTPREWARDS", true);
  ("dispensation", "CreateDistribution", "NONE", true);
  ("dispensation", "CreateUserClaim", "NONE", true);
  ("dispensation", "RunDistribution", "NONE", true);
  ("ethbridge", "Burn", "NONE", true);
  ("ethbridge", "CreateEthBridgeClaim", "NONE", true);
  ("ethbridge", "Lock", "NONE", true);
  ("ethbridge", "RescueCeth", "ORACLE_ADMIN", true);
  ("ethbridge", "SetBlacklist", "ETHBRIDGE", true);
  ("ethbridge", "SetPause", "ETHBRIDGE", true);
  ("ethbridge", "UpdateCethReceiverAccount", "ORACLE_ADMIN", true);
  ("ethbridge", "UpdateWhiteListValidator", "ORACLE_ADMIN", true);
  ("margin", "AdminClose", "MARGIN", true);
  ("margin", "AdminCloseAll", "MARGIN", true);
  ("margin", "Close", "NONE", true);
  ("margin", "Dewhitelist", "MARGIN", true);
  ("margin", "ForceClose", "MARGIN", true);
  ("margin", "Open", "NONE", true);
  ("margin", "UpdateParams", "MARGIN", true);
  ("margin", "UpdatePools", "MARGIN", true);
  ("margin", "UpdateRowanCollateral", "MARGIN", true);
  ("margin", "Whitelist", "MARGIN", true);
  ("tokenregistry", "Deregister", "TOKENREGISTRY", true);
  ("tokenregistry", "Register", "TOKENREGISTRY", true);
  ("tokenregistry", "SetRegistry", "TOKENREGISTRY", true)].
Local Close Scope string_scope.

Definition role_of_name (n : string) : option role :=
  if String.eqb n "ADMIN" then Some R_ADMIN else if String.eqb n "TOKENREGISTRY" then Some R_TOKENREGISTRY
  else if String.eqb n "PMTPREWARDS" then Some R_PMTPREWARDS else if String.eqb n "CLPDEX" then Some R_CLPDEX
  else if String.eqb n "MARGIN" then Some R_MARGIN else if String.eqb n "ETHBRIDGE" then Some R_ETHBRIDGE
  else if String.eqb n "ORACLE_ADMIN" then Some R_ORACLE_ADMIN else if String.eqb n "CLP_WHITELIST" then Some R_CLP_WHITELIST
  else None.

(* the role a message needs: index into the table *)
Definition required_role (idx : nat) : option role :=
  match nth_error spec_table idx with
  | Some (_, _, r, _) => role_of_name r
  | None => None
  end.

(* A privileged handler: role check first, then an arbitrary effect on an arbitrary state. *)
Section Handler.
  Variable St : Type.
  Variable Payload : Type.
  Variable effect : St -> Payload -> Outcome St.   (* whatever the handler does once authorised *)

  Definition handle_priv (au : auth_state) (st : St) (idx : nat) (signer : Z) (p : Payload) : Outcome St :=
    match required_role idx with
    | Some r => if holds au r signer then effect st p else Err 1
    | None => effect st p
    end.

  (* baseapp: the writes of a failed message are discarded *)
  Definition deliver_priv (au : auth_state) (st : St) (idx : nat) (signer : Z) (p : Payload) : St * bool :=
    match handle_priv au st idx signer p with
    | Ok st' => (st', true)
    | _ => (st, false)
    end.
End Handler.

(* x/admin's own messages act on the role table *)
Definition add_account (s : auth_state) (r : role) (a : Z) : auth_state :=
  mkAuth (filter (fun e => negb (role_eqb (fst e) r && (snd e =? a))) (au_admins s) ++ [(r, a)]) (au_oracle_admin s) (au_clp_whitelist s).
Definition remove_account (s : auth_state) (r : role) (a : Z) : auth_state :=
  mkAuth (filter (fun e => negb (role_eqb (fst e) r && (snd e =? a))) (au_admins s)) (au_oracle_admin s) (au_clp_whitelist s).
