(* app/ante: AdjustGasPriceDecorator (fee floors) and ValidateMinCommissionDecorator (commission floor,
   voting-power concentration), over transactions whose messages may be nested in authz MsgExec. *)
From Coq Require Import ZArith List Bool String Ascii.
From Sif Require Import Base.Outcome Base.SdkMath.
Import ListNotations.
Local Open Scope Z_scope.

(* ---- strings.ToLower / strings.Contains on ASCII ---- *)
Definition lower_ascii (c : ascii) : ascii :=
  let n := nat_of_ascii c in
  if (Nat.leb 65 n && Nat.leb n 90)%bool then ascii_of_nat (n + 32) else c.
Fixpoint lower (s : string) : string :=
  match s with EmptyString => EmptyString | String c r => String (lower_ascii c) (lower r) end.
Fixpoint prefix_of (p s : string) : bool :=
  match p, s with
  | EmptyString, _ => true
  | String a p', String b s' => if Ascii.eqb a b then prefix_of p' s' else false
  | _, _ => false
  end.
Fixpoint contains (s sub : string) : bool :=
  prefix_of sub s || match s with EmptyString => false | String _ r => contains r sub end.

(* what the staking-related decorator looks at *)
Inductive staking_info :=
| SNone
| SCreateValidator (rate : Z)                         (* commission rate, Dec *)
| SEditValidator (rate : option Z)
| SDelegate (found : bool) (val_tokens amount : Z)     (* destination validator found?, its tokens, delegated amount *)
| SRedelegate (found : bool) (dst_tokens amount : Z) (same : bool).

Inductive msg :=
| Leaf (url : string) (st : staking_info)
| Exec (inner : list msg).                             (* authz MsgExec *)

(* FlattenMsgs: every message, including those nested to any depth *)
Fixpoint flatten (m : msg) : list msg :=
  match m with
  | Leaf _ _ => [m]
  | Exec inner => m :: (fix go (l : list msg) : list msg := match l with [] => [] | x :: r => flatten x ++ go r end) inner
  end.
Definition flatten_all (ms : list msg) : list msg := flat_map flatten ms.

Definition url_of (m : msg) : string :=
  match m with Leaf u _ => u | Exec _ => "/cosmos.authz.v1beta1.MsgExec"%string end.

Definition FEE_HIGH : Z := 100000000000000000.   (* 0.1 rowan *)
Definition FEE_LOW : Z := 10000000000000000.     (* 0.01 rowan *)

(* the floor one message asks for *)
Definition msg_fee (submit_fee : Z) (m : msg) : Z :=
  let u := lower (url_of m) in
  if contains u "send" || contains u "multisend" || contains u "createuserclaim" || contains u "swap"
     || contains u "removeliquidity" || contains u "removeliquidityunits" || contains u "addliquidity" then FEE_HIGH
  else if contains u "transfer" then FEE_LOW
  else if contains u "submitproposal" || contains u "submit_proposal" then submit_fee
  else 0.

Definition min_fee (submit_fee : Z) (ms : list msg) : Z :=
  fold_left (fun acc m => Z.max acc (msg_fee submit_fee m)) (flatten_all ms) 0.

Definition is_dispensation_single (ms : list msg) : bool :=
  match ms with
  | [m] => let u := lower (url_of m) in contains u "createdistribution" || contains u "rundistribution"
  | _ => false
  end.

(* AdjustGasPriceDecorator: does the fee pass?  rowan_fee = amount of the rowan coin in the fee (0 if none) *)
Definition fee_ok (submit_fee rowan_fee : Z) (ms : list msg) : bool :=
  if is_dispensation_single ms then true
  else let mf := min_fee submit_fee ms in
       if mf =? 0 then true else (0 <? rowan_fee) && (mf <=? rowan_fee).

Definition MIN_COMMISSION : Z := 50000000000000000.     (* 0.05 *)
Definition MAX_VOTING_POWER : Z := 6600000000000000000.  (* 6.6 (percent) *)

(* projected voting power in percent, as the Dec computation of the decorator *)
Definition projected_power (val_tokens add_val total add_total : Z) : Z :=
  dec_mul (dec_quo (dec_of_int (val_tokens + add_val)) (dec_of_int (total + add_total))) (dec_of_int 100).

Definition staking_ok (total : Z) (m : msg) : bool :=
  match m with
  | Leaf _ (SCreateValidator r) => MIN_COMMISSION <=? r
  | Leaf _ (SEditValidator (Some r)) => MIN_COMMISSION <=? r
  | Leaf _ (SDelegate found vt amt) => found && (projected_power vt amt total amt <? MAX_VOTING_POWER)
  | Leaf _ (SRedelegate found vt amt same) =>
      found && (projected_power vt (if same then 0 else amt) total 0 <? MAX_VOTING_POWER)
  | _ => true
  end.

Definition staking_rules_ok (total : Z) (ms : list msg) : bool := forallb (staking_ok total) (flatten_all ms).

Definition ante_ok (submit_fee rowan_fee total : Z) (ms : list msg) : bool :=
  fee_ok submit_fee rowan_fee ms && staking_rules_ok total ms.
