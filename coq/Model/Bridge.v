(* x/oracle (prophecies) + x/ethbridge (claims, lock, burn), statement by statement.
   Identifiers: validators, accounts, prophecy ids and claim contents are integers; two claim messages
   carry the same content id iff their JSON content strings are equal (assigned by the harness). *)
From Coq Require Import ZArith List Bool.
From RecordUpdate Require Import RecordUpdate.
From Sif Require Import Base.Outcome Base.Store Base.Bank.
Import ListNotations.
Local Open Scope Z_scope.
Local Open Scope outcome_scope.

Definition BRIDGE_MODULE : Z := 3.        (* account id of the ethbridge module account *)
Definition PEG : Z := 1000.               (* denom id of "c" ++ symbol = symbol id + PEG *)
Definition CETH : Z := PEG + 1.           (* "ceth"; "eth" has id 1 *)

Record content := mkContent { ct_receiver : Z; ct_amount : Z; ct_symbol : Z; ct_type : Z (* 1 lock, 2 burn *) }.

Record prophecy := mkProphecy {
  pr_status : Z;                          (* 0 pending, 1 success, 2 failed *)
  pr_final : Z;                           (* content id of the final claim, -1 if none *)
  pr_claims : list (Z * list Z);          (* content id -> validators that claimed it, in arrival order *)
  pr_vclaims : list (Z * Z)               (* validator -> content id *)
}.
#[export] Instance eta_prophecy : Settable _ := settable! mkProphecy <pr_status; pr_final; pr_claims; pr_vclaims>.

Record bridge_state := mkBridge {
  br_bank : bank;
  br_blocked : list Z;                    (* accounts that cannot receive from a module (module accounts) *)
  br_whitelist : list Z;                  (* oracle validator whitelist *)
  br_validators : list (Z * (Z * bool));  (* staking: validator -> (consensus power, bonded) *)
  br_prophecies : store prophecy;
  br_contents : store content;            (* what each content id says (decoded JSON) *)
  br_peggy : list Z;                      (* peggy token list *)
  br_paused : bool;
  br_blacklist : list Z;                  (* blacklisted Ethereum addresses *)
  br_ceth_receiver : option Z;
  br_oracle_admin : Z;
  br_accounts : list Z                    (* accounts known to x/auth *)
}.
#[export] Instance eta_bridge : Settable _ :=
  settable! mkBridge <br_bank; br_blocked; br_whitelist; br_validators; br_prophecies; br_contents; br_peggy; br_paused;
                      br_blacklist; br_ceth_receiver; br_oracle_admin; br_accounts>.

Definition mem (x : Z) (l : list Z) : bool := existsb (Z.eqb x) l.

Fixpoint lookup {A} (k : Z) (l : list (Z * A)) : option A :=
  match l with
  | [] => None
  | (a, v) :: l' => if a =? k then Some v else lookup k l'
  end.

(* staking view *)
Definition bonded_power (s : bridge_state) (v : Z) : option Z :=
  match lookup v (br_validators s) with
  | Some (p, true) => Some p
  | _ => None
  end.
Definition is_active (s : bridge_state) (v : Z) : bool :=
  match bonded_power s v with Some _ => true | None => false end.

(* total power of bonded, whitelisted validators (each validator once) *)
Definition total_power (s : bridge_state) : Z :=
  fold_left (fun acc e => let '(v, (p, b)) := e in if b && mem v (br_whitelist s) then acc + p else acc) (br_validators s) 0.

(* power behind one claim: every listed validator that is currently bonded and whitelisted *)
Definition claim_power (s : bridge_state) (vals : list Z) : Z :=
  fold_left (fun acc v => match bonded_power s v with
                          | Some p => if mem v (br_whitelist s) then acc + p else acc
                          | None => acc end) vals 0.

(* FindHighestClaim over the claim map in the given iteration order: strict > keeps the first maximum *)
Fixpoint highest_loop (s : bridge_state) (claims : list (Z * list Z)) (best bestp total : Z) : Z * Z * Z :=
  match claims with
  | [] => (best, bestp, total)
  | (c, vals) :: rest =>
    let p := claim_power s vals in
    if bestp <? p then highest_loop s rest c p (total + p) else highest_loop s rest best bestp (total + p)
  end.

(* float64(p)/float64(q) >= 0.7 and < 0.7, for powers far below 2^53 (q = 0: +Inf / NaN / -Inf) *)
Definition ratio_ge (p q : Z) : bool := if q =? 0 then 0 <? p else 7 * q <=? 10 * p.
Definition ratio_lt (p q : Z) : bool := if q =? 0 then p <? 0 else 10 * p <? 7 * q.

Definition process_completion (s : bridge_state) (order : list (Z * list Z)) (pr : prophecy) : prophecy :=
  let '(best, bestp, claimed) := highest_loop s order (-1) (-1) 0 in
  let total := total_power s in
  if ratio_ge bestp total then pr <| pr_status := 1 |> <| pr_final := best |>
  else if ratio_lt (bestp + (total - claimed)) total then pr <| pr_status := 2 |>
  else pr.

Fixpoint add_claim (c v : Z) (claims : list (Z * list Z)) : list (Z * list Z) :=
  match claims with
  | [] => [(c, [v])]
  | (c', vs) :: rest => if c' =? c then (c', vs ++ [v]) :: rest else (c', vs) :: add_claim c v rest
  end.

Definition new_prophecy : prophecy := mkProphecy 0 (-1) [] [].

Definition E_BRIDGE : Z := 1.
Definition bfail {A} : Outcome A := Err E_BRIDGE.

(* oracle keeper ProcessClaim; [perm] permutes the claim map into the iteration order Go happens to use *)
Definition process_claim (s : bridge_state) (perm : list (Z * list Z) -> list (Z * list Z)) (pid val cid : Z)
  : Outcome (bridge_state * prophecy) :=
  if negb (mem val (br_whitelist s)) then bfail else
  if negb (is_active s val) then bfail else
  let pr := match get pid (br_prophecies s) with Some p => p | None => new_prophecy end in
  if negb (pr_status pr =? 0) then bfail else
  match lookup val (pr_vclaims pr) with
  | Some _ => bfail
  | None =>
    let pr1 := pr <| pr_claims := add_claim cid val (pr_claims pr) |> <| pr_vclaims := pr_vclaims pr ++ [(val, cid)] |> in
    let pr2 := process_completion s (perm (pr_claims pr1)) pr1 in
    Ok (s <| br_prophecies := set pid pr2 (br_prophecies s) |>, pr2)
  end.

Definition with_bbank (s : bridge_state) (b : bank) : bridge_state := s <| br_bank := b |>.

(* ProcessSuccessfulClaim: mint to the module account, then send to the receiver (panic if that fails) *)
Definition process_successful_claim (s : bridge_state) (cid : Z) : Outcome bridge_state :=
  match get cid (br_contents s) with
  | None => bfail
  | Some ct =>
    if ct_amount ct <? 0 then Panic else                      (* sdk.NewCoin panics on a negative amount *)
    if ct_type ct =? 1 then
      let d := ct_symbol ct + PEG in
      let s1 := if mem d (br_peggy s) then s else s <| br_peggy := br_peggy s ++ [d] |> in
      let b1 := mint (br_bank s1) BRIDGE_MODULE d (ct_amount ct) in
      if mem (ct_receiver ct) (br_blocked s1) then Panic else
      match send b1 BRIDGE_MODULE (ct_receiver ct) d (ct_amount ct) with
      | Some b2 => Ok (with_bbank s1 b2)
      | None => Panic
      end
    else if ct_type ct =? 2 then
      let d := ct_symbol ct in
      let b1 := mint (br_bank s) BRIDGE_MODULE d (ct_amount ct) in
      if mem (ct_receiver ct) (br_blocked s) then Panic else
      match send b1 BRIDGE_MODULE (ct_receiver ct) d (ct_amount ct) with
      | Some b2 => Ok (with_bbank s b2)
      | None => Panic
      end
    else bfail
  end.

(* MsgCreateEthBridgeClaim *)
Definition create_claim (s : bridge_state) (perm : list (Z * list Z) -> list (Z * list Z))
  (pid val cid : Z) (ct : content) : Outcome bridge_state :=
  let s0 := s <| br_contents := set cid ct (br_contents s) |> in
  '(s1, pr) <- process_claim s0 perm pid val cid ;;
  if pr_status pr =? 1 then process_successful_claim s1 (pr_final pr) else Ok s1.

(* ---- Lock / Burn towards Ethereum ---- *)
Definition bsend2 (b : bank) (from to d x : Z) : Outcome bank :=
  match send b from to d x with Some b' => Ok b' | None => bfail end.

(* MsgLock / MsgBurn ValidateBasic: amount > 0, ceth amount >= the gas cost *)
Definition LOCK_GAS_COST : Z := 60000000000 * 393000.

(* sdk.NewCoins panics on duplicate denoms *)
Definition lock_or_burn (s : bridge_state) (is_burn : bool) (sender eth_receiver amount symbol ceth_amount : Z)
  : Outcome bridge_state :=
  if (amount <=? 0) || (ceth_amount <? LOCK_GAS_COST) then bfail else
  if br_paused s then bfail else
  if Bool.eqb is_burn (negb (mem symbol (br_peggy s))) then bfail else     (* lock: not peggy; burn: peggy *)
  if negb (mem sender (br_accounts s)) then bfail else
  if mem eth_receiver (br_blacklist s) then bfail else
  b1 <- match br_ceth_receiver s with
        | Some r =>
          b0 <- bsend2 (br_bank s) sender r CETH ceth_amount ;;
          bsend2 b0 sender BRIDGE_MODULE symbol amount
        | None =>
          if symbol =? CETH then
            if is_burn then bsend2 (br_bank s) sender BRIDGE_MODULE CETH (ceth_amount + amount)
            else Panic
          else
            b0 <- bsend2 (br_bank s) sender BRIDGE_MODULE symbol amount ;;
            bsend2 b0 sender BRIDGE_MODULE CETH ceth_amount
        end ;;
  match burn b1 BRIDGE_MODULE symbol amount with
  | Some b2 => Ok (with_bbank s b2)
  | None => bfail
  end.

(* ---- admin messages of the bridge ---- *)
Definition update_whitelist (s : bridge_state) (sender val : Z) (add : bool) : Outcome bridge_state :=
  if negb (mem sender (br_accounts s)) then bfail else
  if negb (sender =? br_oracle_admin s) then bfail else
  if add then Ok (s <| br_whitelist := br_whitelist s ++ [val] |>)
  else Ok (s <| br_whitelist := filter (fun v => negb (v =? val)) (br_whitelist s) |>).

(* MsgSetBlacklist (x/admin role ETHBRIDGE; [is_admin]: whether the sender holds it): the stored blacklist becomes exactly
   the listed addresses. Addresses are Ethereum ACCOUNTS here: the spellings of one address are one id. *)
Definition set_blacklist (s : bridge_state) (is_admin : bool) (sender : Z) (addrs : list Z) : Outcome bridge_state :=
  if negb (mem sender (br_accounts s)) then bfail else
  if negb is_admin then bfail else Ok (s <| br_blacklist := addrs |>).

Definition update_ceth_receiver (s : bridge_state) (sender r : Z) : Outcome bridge_state :=
  if negb (mem sender (br_accounts s)) then bfail else
  if negb (sender =? br_oracle_admin s) then bfail else Ok (s <| br_ceth_receiver := Some r |>).

Definition rescue_ceth (s : bridge_state) (sender receiver amount : Z) : Outcome bridge_state :=
  if negb (mem sender (br_accounts s)) then bfail else
  if negb (sender =? br_oracle_admin s) then bfail else
  if mem receiver (br_blocked s) then bfail else
  b <- bsend2 (br_bank s) BRIDGE_MODULE receiver CETH amount ;; Ok (with_bbank s b).

(* ---- what the order-independence theorems (Proofs/BridgeOrder.v) ask of a state, as booleans: the staking view is a
   map with non-negative powers, and every stored prophecy lists a validator under at most one claim content, each of
   them recorded in the validator -> claim map. Evaluated on every observed pre-state by Check/Bridge.v. ---- *)
Definition claimers (pr : prophecy) : list Z := concat (map snd (pr_claims pr)).
Fixpoint nodupb (l : list Z) : bool := match l with [] => true | x :: r => negb (mem x r) && nodupb r end.
Definition staking_wf_b (s : bridge_state) : bool :=
  nodupb (map fst (br_validators s)) && forallb (fun e : Z * (Z * bool) => 0 <=? fst (snd e)) (br_validators s).
Definition claims_inv_b (pr : prophecy) : bool :=
  nodupb (claimers pr) && forallb (fun v => match lookup v (pr_vclaims pr) with Some _ => true | None => false end) (claimers pr).
Definition bridge_inv_b (s : bridge_state) : bool :=
  staking_wf_b s && forallb (fun kv : Z * prophecy => claims_inv_b (snd kv)) (br_prophecies s).
