(* x/clp/keeper/calculations.go + pureCalculation.go: the AMM arithmetic, bit-exact.
   big.Rat values are Coq Q (never reduced: every use goes through RatIntQuo or a comparison). *)
From Coq Require Import ZArith QArith Qabs List Bool.
From Sif Require Import Base.Outcome Base.SdkMath.
Import ListNotations.
Local Open Scope Z_scope.
Local Open Scope outcome_scope.

(* DecToRat *)
Definition dec_to_q (d : Z) : Q := Qmake d (Z.to_pos PREC).
Definition zq (z : Z) : Q := inject_Z z.
(* RatIntQuo: truncation toward zero *)
Definition rat_int_quo (q : Q) : Z := Z.quot (Qnum q) (Zpos (Qden q)).
Definition q_is_zero (q : Q) : bool := Qnum q =? 0.
(* big.Rat.Quo panics when the divisor is zero *)
Definition qdiv_ck (a b : Q) : Outcome Q := if q_is_zero b then Panic else Ok (Qdiv a b).
(* sdk.NewUintFromBigInt panics on negative values and above 256 bits *)
Definition to_uint (z : Z) : Outcome Z := ck_uint z.

(* CalcSwapResult *)
Definition calc_swap_result (to_rowan : bool) (X x Y r f : Z) : Outcome (Z * Z) :=
  if (X =? 0) || (x =? 0) || (Y =? 0) then Ok (0, 0) else
  let raw := Qdiv (Qmult (zq x) (zq Y)) (Qplus (zq X) (zq x)) in
  let pf := Qplus (zq 1) (dec_to_q r) in
  adj <- (if to_rowan then qdiv_ck raw pf else Ok (Qmult raw pf)) ;;
  fee <- to_uint (rat_int_quo (Qmult adj (dec_to_q f))) ;;
  adjusted <- to_uint (rat_int_quo adj) ;;
  y <- uint_sub adjusted fee ;;
  Ok (y, fee).

(* a pool as seen by SwapOne: balances and liabilities *)
Record spool := mkSpool { sp_nb : Z; sp_eb : Z; sp_nl : Z; sp_el : Z }.

Definition ERR_NOT_ENOUGH_ASSETS : Z := 14.   (* types.ErrNotEnoughAssetTokens *)

(* SwapOne: returns (swap result, fee, pool with updated balances) *)
Definition swap_one (to_rowan : bool) (sent : Z) (p : spool) (r f : Z) : Outcome (Z * Z * spool) :=
  let '(X, Y) := if to_rowan then (sp_eb p, sp_nb p) else (sp_nb p, sp_eb p) in
  Xincl <- (if to_rowan then uint_add X (sp_el p) else uint_add X (sp_nl p)) ;;
  Yincl <- (if to_rowan then uint_add Y (sp_nl p) else uint_add Y (sp_el p)) ;;
  '(res, fee) <- calc_swap_result to_rowan Xincl sent Yincl r f ;;
  if Y <=? res then Err ERR_NOT_ENOUGH_ASSETS else
  X' <- uint_add X sent ;;
  Y' <- uint_sub Y res ;;
  Ok (res, fee,
      if to_rowan then mkSpool Y' X' (sp_nl p) (sp_el p) else mkSpool X' Y' (sp_nl p) (sp_el p)).

(* GetLiquidityAddSymmetryState (X = external depth A, x = a, Y = native depth R, y = r) *)
Inductive sym_state := EmptyPool | NothingAdded | NeedMoreY | Symmetric | NeedMoreX.
Definition symmetry_state (X x Y y : Z) : sym_state :=
  if (X =? 0) || (Y =? 0) then EmptyPool
  else if (x =? 0) && (y =? 0) then NothingAdded
  else if x =? 0 then NeedMoreX
  else match (Y * x ?= y * X) with     (* Y/X ? y/x with X, x > 0 *)
       | Lt => NeedMoreX | Eq => Symmetric | Gt => NeedMoreY
       end.

(* ApproxRatSquareRoot: big.Int.Sqrt panics on negative input *)
Definition approx_sqrt (q : Q) : Outcome Z :=
  let i := rat_int_quo q in if i <? 0 then Panic else Ok (Z.sqrt i).

Local Open Scope Q_scope.
(* CalculateExternalSwapAmountAsymmetricRat (Y X y x f r) *)
Definition ext_swap_amount_rat (Y X y x f r : Q) : Outcome Q :=
  let r1 := r + 1 in
  let c_ := Y * ((x + X) * (-1 # 1)) in
  let d_ := f * f * x * Y in
  let e_ := f * f * X * Y in
  let f_ := 2 * f * r * x * Y in
  let g_ := 4 * f * r * X * y in
  let h_ := 2 * f * r * X * Y in
  let i_ := 4 * f * X * y in
  let j_ := 4 * f * X * Y in
  let k_ := r * r * x * Y in
  let l_ := r * r * X * Y in
  let m_ := 4 * r * X * y in
  let n_ := 4 * r * X * Y in
  let o_ := 4 * X * y in
  let p_ := 4 * X * Y in
  let q_ := f * x * Y in
  let r_ := f * X * Y in
  let s_ := r * x * Y in
  let t_ := 2 * r * X * y in
  let u_ := r * X * Y in
  let v_ := 2 * X * y in
  let w_ := 2 * X * Y in
  let x_ := y + Y in
  let y_ := g_ + h_ + i_ + j_ - d_ - e_ - f_ - k_ - l_ - m_ - n_ - o_ - p_ in
  let z_ := c_ * y_ in
  bind (approx_sqrt z_) (fun root =>
  let aa_ := inject_Z root in
  let ab_ := aa_ + q_ + r_ + s_ - t_ - u_ - v_ - w_ in
  let ac_ := 2 * r1 * x_ in
  bind (qdiv_ck ab_ ac_) (fun ad_ => Ok (Qabs ad_))).

(* CalculateNativeSwapAmountAsymmetricRat (Y X y x f r) *)
Definition nat_swap_amount_rat (Y X y x f r : Q) : Outcome Q :=
  let a_ := f * r * X * y in
  let b_ := f * r * X * Y in
  let c_ := f * X * y in
  let d_ := f * X * Y in
  let e_ := r * X * y in
  let f_ := r * X * Y in
  let g_ := 2 * x * Y in
  let h_ := 2 * X * Y in
  let i_ := x + X in
  let l_ := x * Y * Y - X * y * Y in
  let m_ := 4 * i_ * l_ in
  let v_ := (x + X) * 2 in
  let w_ := e_ + f_ + g_ + h_ - a_ - b_ - c_ - d_ in
  let y_ := w_ * w_ - m_ in
  bind (approx_sqrt y_) (fun root =>
  let z_ := inject_Z root in
  let aa_ := z_ + a_ + b_ + c_ + d_ - e_ - f_ - g_ - h_ in
  bind (qdiv_ck aa_ v_) (fun ab_ => Ok (Qabs ab_))).
Local Close Scope Q_scope.

Definition ext_swap_amount (R A r a f p : Z) : Outcome Z :=
  s <- ext_swap_amount_rat (zq R) (zq A) (zq r) (zq a) (dec_to_q f) (dec_to_q p) ;;
  to_uint (rat_int_quo s).
Definition nat_swap_amount (R A r a f p : Z) : Outcome Z :=
  s <- nat_swap_amount_rat (zq R) (zq A) (zq r) (zq a) (dec_to_q f) (dec_to_q p) ;;
  to_uint (rat_int_quo s).

(* CalculatePoolUnitsSymmetric: big.Int.Quo panics on X = 0 *)
Definition pool_units_symmetric (X x P : Z) : Outcome (Z * Z) :=
  if X =? 0 then Panic else
  let pu := x * P / X in
  tot <- uint_add P pu ;; Ok (tot, pu).

Inductive swap_status := SellNative | BuyNative | NoSwap.
Definition ERR_INVALID_AMOUNT : Z := 7.   (* types.ErrInValidAmount *)

(* CalculatePoolUnits P R A r a sellNativeFee buyNativeFee pmtp -> (pool units, lp units, status, swap amount) *)
Definition calculate_pool_units (P R A r a fsell fbuy pm : Z) : Outcome (Z * Z * swap_status * Z) :=
  match symmetry_state A a R r with
  | EmptyPool => if (a =? 0) || (r =? 0) then Err ERR_INVALID_AMOUNT else Ok (r, r, NoSwap, 0)
  | NothingAdded => Ok (P, 0, NoSwap, 0)
  | NeedMoreY =>
    s <- ext_swap_amount R A r a fbuy pm ;;
    ac <- uint_sub a s ;; Ap <- uint_add A s ;;
    '(pu, lpu) <- pool_units_symmetric Ap ac P ;;
    Ok (pu, lpu, BuyNative, s)
  | Symmetric => '(pu, lpu) <- pool_units_symmetric R r P ;; Ok (pu, lpu, NoSwap, 0)
  | NeedMoreX =>
    s <- nat_swap_amount R A r a fsell pm ;;
    rc <- uint_sub r s ;; Rp <- uint_add R s ;;
    '(pu, lpu) <- pool_units_symmetric Rp rc P ;;
    Ok (pu, lpu, SellNative, s)
  end.

(* CalculateWithdrawal (asymmetry 0 is the only value the handlers pass besides user asymmetry) *)
Definition calculate_withdrawal (pool_units nd ed lp_units wbasis asym : Z) : Outcome (Z * Z * Z * Z) :=
  let pu := dec_of_int pool_units in let ndf := dec_of_int nd in let edf := dec_of_int ed in
  let lpf := dec_of_int lp_units in let wb := dec_of_int wbasis in let asf := dec_of_int asym in
  den <- Dquo (dec_of_int 10000) wb ;;
  claim <- Dquo lpf den ;;
  q <- Dquo pu claim ;;
  we <- Dquo edf q ;;
  wn <- Dquo ndf q ;;
  sw <- (if asym =? 0 then Ok 0 else
           d2 <- Dquo (dec_of_int 10000) (Z.abs asf) ;;
           uts <- Dquo claim d2 ;;
           q2 <- Dquo pu uts ;;
           if 0 <? asym then Dquo ndf q2 else Dquo edf q2) ;;
  let left := lpf - claim in
  a <- to_uint (dec_trunc_int wn) ;; b <- to_uint (dec_trunc_int we) ;;
  c <- to_uint (dec_trunc_int left) ;; d <- to_uint (dec_trunc_int sw) ;;
  Ok (a, b, c, d).

(* CalculateWithdrawalFromUnits *)
Definition calculate_withdrawal_from_units (pool_units nd ed lp_units wunits : Z) : Outcome (Z * Z * Z) :=
  let pu := dec_of_int pool_units in let ndf := dec_of_int nd in let edf := dec_of_int ed in
  let lpf := dec_of_int lp_units in let wu := dec_of_int wunits in
  q <- Dquo pu wu ;;
  we <- Dquo edf q ;;
  wn <- Dquo ndf q ;;
  let left := lpf - wu in
  a <- to_uint (dec_round_int wn) ;; b <- to_uint (dec_round_int we) ;; c <- to_uint (dec_round_int left) ;;
  Ok (a, b, c).

(* ConvUnitsToWBasisPoints / ConvWBasisPointsToUnits *)
Definition conv_units_to_wbasis (total units : Z) : Outcome Z :=
  q <- Dquo (dec_of_int total) (dec_of_int units) ;;
  w <- Dquo (dec_of_int 10000) q ;; Ok (dec_trunc_int w).
Definition conv_wbasis_to_units (total wbasis : Z) : Outcome Z :=
  if wbasis <? 0 then Panic else
  d <- uint_quo 10000 wbasis ;; uint_quo total d.

(* CalculateDiscountedSentAmount *)
Definition discounted_sent_amount (sent f : Z) : Outcome Z :=
  uint_sub sent (dec_round_int (dec_mul (dec_of_int sent) f)).
