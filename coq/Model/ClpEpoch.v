(* x/clp/keeper/epoch_hooks.go AfterEpochEnd: pays out each asset's rewards bucket to the providers
   that are past the rewards lock period — to their wallets, or re-invested into the pool. *)
From Coq Require Import ZArith List Bool.
From RecordUpdate Require Import RecordUpdate.
From Sif Require Import Base.Outcome Base.SdkMath Base.Store Base.Bank
  Model.ClpCalc Model.ClpTypes Model.ClpState Model.ClpMsgs.
Import ListNotations.
Local Open Scope Z_scope.
Local Open Scope outcome_scope.

(* filterLiquidityProvidersByLockPeriod *)
Definition eligible (s : clp_state) (l : lprov) : bool :=
  lp_last l <? cs_height s - cp_rewards_lock (cs_params s).

(* CalculateRewardShareForLiquidityProviders + CalculateRewardAmountForLiquidityProviders *)
Definition reward_amounts (units : list Z) (bucket : Z) : Outcome (list Z) :=
  let total := fold_left Z.add units 0 in
  if total =? 0 then Ok (map (fun _ => 0) units)      (* providers without units share nothing (after the fix of finding F-12; before it: Dec.Quo by zero) *)
  else Ok (map (fun u => dec_trunc_int (dec_mul_int (dec_quo (dec_of_int u) (dec_of_int total)) bucket)) units).

(* SubtractFromRewardsBucket *)
Definition sub_bucket (s : clp_state) (asset amt : Z) : option clp_state :=
  match get asset (cs_buckets s) with
  | None => None
  | Some b => if (amt <? 0) || (b <? amt) then None else Some (s <| cs_buckets := set asset (b - amt) (cs_buckets s) |>)
  end.

(* DistributeLiquidityProviderRewards: errors are only logged.  The amount is taken off the bucket first
   (an insufficient bucket stops this payout); if the transfer fails the bucket is restored. *)
Definition pay_wallet (s : clp_state) (asset addr amt : Z) : clp_state :=
  match sub_bucket s asset amt with
  | None => s
  | Some s1 =>
    match send (cs_bank s1) CLP_MODULE addr asset amt with
    | None => s
    | Some b => with_bank s1 b
    end
  end.

(* AddRewardAmountToLiquidityPool; returns the state and the provider's new units.
   An error leaves everything as it was; a panic of the units calculator is a panic of the hook. *)
Definition reinvest (s : clp_state) (asset addr amt : Z) (units : Z) : Outcome (clp_state * Z) :=
  match get asset (cs_pools s) with
  | None => Ok (s, units)
  | Some pl =>
    nd <- uint_add (p_nb pl) (p_nl pl) ;;
    ed <- uint_add (p_eb pl) (p_el pl) ;;
    let ps := cs_params s in
    match calculate_pool_units (p_units pl) nd ed 0 amt (fee_rate ps ROWAN) (fee_rate ps asset) (cp_pmtp ps) with
    | Panic => Panic
    | Err _ => Ok (s, units)
    | Ok (pu, lpu, _, _) =>
      eb' <- uint_add (p_eb pl) amt ;;
      match sub_bucket s asset amt with
      | None => Ok (s, units)
      | Some s1 =>
        u' <- uint_add units lpu ;;
        Ok (set_pool s1 asset (pl <| p_units := pu |> <| p_eb := eb' |>), u')
      end
    end
  end.

Fixpoint pay_all (s : clp_state) (asset : Z) (lps : list (Z * lprov)) (amts : list Z) : Outcome clp_state :=
  match lps, amts with
  | (addr, l) :: lps', amt :: amts' =>
    if cp_rewards_wallet (cs_params s) then
      let s1 := pay_wallet s asset addr amt in
      pay_all (set_lp s1 asset addr l) asset lps' amts'
    else
      '(s1, u') <- reinvest s asset addr amt (lp_units l) ;;
      pay_all (set_lp s1 asset addr (l <| lp_units := u' |>)) asset lps' amts'
  | _, _ => Ok s
  end.

Definition epoch_asset (s : clp_state) (asset : Z) (all : store lprov) : Outcome clp_state :=
  let lps := filter (fun kv => eligible s (snd kv)) all in
  match lps with
  | [] => Ok s
  | _ =>
    match get asset (cs_buckets s) with
    | None => Ok s
    | Some bucket =>
      amts <- reward_amounts (map (fun kv => lp_units (snd kv)) lps) bucket ;;
      s1 <- pay_all s asset lps amts ;;
      match get asset (cs_pools s1) with
      | None => Ok s1
      | Some pl => rae <- uint_add (p_rae pl) bucket ;; Ok (set_pool s1 asset (pl <| p_rae := rae |>))
      end
    end
  end.

(* the range over the asset map, in the given order (Go map order; assets are independent) *)
Fixpoint epoch_assets (s : clp_state) (order : list (Z * store lprov)) : Outcome clp_state :=
  match order with
  | [] => Ok s
  | (asset, lps) :: rest => s1 <- epoch_asset s asset lps ;; epoch_assets s1 rest
  end.

Definition after_epoch_end (s : clp_state) : Outcome clp_state := epoch_assets s (cs_lps s).
