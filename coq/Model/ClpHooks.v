(* x/clp/abci.go EndBlocker: LPPD run and depth rewards. *)
From Coq Require Import ZArith List Bool.
From RecordUpdate Require Import RecordUpdate.
From Sif Require Import Base.Outcome Base.SdkMath Base.Store Base.Bank
  Model.ClpTypes Model.ClpRewards Model.ClpState.
Import ListNotations.
Local Open Scope Z_scope.
Local Open Scope outcome_scope.

(* one pool's collected distribution: asset, per-LP amounts, pool total *)
Definition pool_dist := (Z * list (Z * Z) * Z)%type.

Definition addr_total (addr : Z) (ds : list pool_dist) : Z :=
  fold_left (fun acc d => let '(_, per, _) := d in
     fold_left (fun acc2 e => if fst e =? addr then acc2 + snd e else acc2) per acc) ds 0.

Fixpoint insert_sorted (x : Z) (l : list Z) : list Z :=
  match l with
  | [] => [x]
  | y :: l' => if x <? y then x :: l else if x =? y then l else y :: insert_sorted x l'
  end.
Definition addrs_of (ds : list pool_dist) : list Z :=
  fold_left (fun acc d => let '(_, per, _) := d in fold_left (fun a e => insert_sorted (fst e) a) per acc) ds [].

(* TransferProviderDistributionGeneric: pay every address its total, in the given order;
   returns the bank and the addresses whose payment failed *)
Fixpoint transfer_generic (b : bank) (order : list Z) (ds : list pool_dist) : bank * list Z :=
  match order with
  | [] => (b, [])
  | a :: rest =>
    match send b CLP_MODULE a ROWAN (addr_total a ds) with
    | Some b' => transfer_generic b' rest ds
    | None => let '(b', failed) := transfer_generic b rest ds in (b', a :: failed)
    end
  end.

Definition inb (x : Z) (l : list Z) : bool := existsb (Z.eqb x) l.

(* poolRowanMap after the failed payments have been subtracted *)
Definition pool_after_failures (failed : list Z) (d : pool_dist) : Z * Z :=
  let '(asset, per, tot) := d in
  (asset, tot - fold_left (fun acc e => if inb (fst e) failed then acc + snd e else acc) per 0).

Definition upd_pool (k : Z) (f : pool -> pool) (m : store pool) : store pool :=
  match get k m with Some p => set k (f p) m | None => m end.

(* ---- LPPD ---- *)
Fixpoint find_lppd (h : Z) (ps : list lppd_period) : option lppd_period :=
  match ps with
  | [] => None
  | p :: ps' => if (pd_start p <=? h) && (h <=? pd_end p) then Some p else find_lppd h ps'
  end.

Definition lppd_collect (s : clp_state) (rate : Z) : list pool_dist :=
  fold_right (fun kv acc =>
     let lps := lps_of (fst kv) (cs_lps s) in
     match lps with
     | [] => acc
     | _ => let '(per, tot) := collect_provider_distribution (dec_of_int (p_nb (snd kv))) rate (p_units (snd kv)) lps in
            (fst kv, per, tot) :: acc
     end) [] (cs_pools s).

Definition lppd_run (s : clp_state) : Outcome clp_state :=
  match find_lppd (cs_height s) (cs_lppd_periods s) with
  | None => Ok s
  | Some p =>
    isd <- is_distribution_block (cs_height s) (pd_start p) (pd_mod p) ;;
    if negb isd then Ok s else
    let ds := lppd_collect s (pd_rate p) in
    let '(b', failed) := transfer_generic (cs_bank s) (addrs_of ds) ds in
    let pools' := fold_left (fun m d =>
        let '(asset, sub) := pool_after_failures failed d in
        upd_pool asset (fun pl => if p_nb pl <? sub then pl else pl <| p_nb := p_nb pl - sub |>) m)
        ds (cs_pools s) in
    Ok (s <| cs_bank := b' |> <| cs_pools := pools' |>)
  end.

(* ---- depth rewards ---- *)
Definition add_rewards_to_pool (asset amt : Z) (m : store pool) : store pool :=
  upd_pool asset (fun pl => pl <| p_nb := p_nb pl + amt |> <| p_rpd := p_rpd pl + amt |>) m.

Definition distribute_depth_rewards (s : clp_state) (bd : Z) (p : reward_period) : Outcome (clp_state * Z * Z) :=
  (* returns state, minted, burned *)
  if bd =? 0 then Ok (s, 0, 0) else
  let td := total_depth (cs_pools s) p in
  let pools0 := if cs_height s =? rp_start p
                then map (fun kv => (fst kv, (snd kv) <| p_rpd := 0 |>)) (cs_pools s)
                else cs_pools s in
  let s0 := s <| cs_pools := pools0 |> in
  if td <=? 0 then Ok (s0, 0, 0) else
  let '(tuples, to_mint) := collect_tuples (raw_distributions pools0 p td bd) bd in
  let b1 := mint (cs_bank s0) CLP_MODULE ROWAN to_mint in
  if negb (rp_distribute p) then
    let pools1 := fold_left (fun m t => add_rewards_to_pool (fst t) (snd t) m) tuples pools0 in
    Ok (s0 <| cs_bank := b1 |> <| cs_pools := pools1 |>, to_mint, 0)
  else
    (* pools without providers get the reward added to the pool *)
    let step := fun (acc : store pool * list pool_dist) (t : Z * Z) =>
      let '(m, ds) := acc in
      match get (fst t) m with
      | None => acc
      | Some pl =>
        match lps_of (fst t) (cs_lps s0) with
        | [] => (add_rewards_to_pool (fst t) (snd t) m, ds)
        | lps => let '(per, tot) := collect_provider_distribution (dec_of_int (snd t)) PREC (p_units pl) lps in
                 (m, ds ++ [(fst t, per, tot)])
        end
      end in
    let '(pools1, ds) := fold_left step tuples (pools0, []) in
    let '(b2, failed) := transfer_generic b1 (addrs_of ds) ds in
    let pools2 := fold_left (fun m d =>
        let '(asset, amt) := pool_after_failures failed d in
        if amt =? 0 then m else upd_pool asset (fun pl => pl <| p_rpd := p_rpd pl + amt |>) m) ds pools1 in
    let pre := bal (cs_bank s0) CLP_MODULE ROWAN in
    let post := bal b2 CLP_MODULE ROWAN in
    let diff := post - pre in
    if diff <? 0 then Panic else
    match burn b2 CLP_MODULE ROWAN diff with
    | None => Ok (s0 <| cs_bank := b2 |> <| cs_pools := pools2 |>, to_mint, 0)
    | Some b3 => Ok (s0 <| cs_bank := b3 |> <| cs_pools := pools2 |>, to_mint, diff)
    end.

Definition rewards_run (s : clp_state) : Outcome (clp_state * Z * Z) :=
  match find_period (cs_height s) (cs_reward_periods s) with
  | None => Ok (s, 0, 0)
  | Some p0 =>
    if rp_alloc p0 =? 0 then Ok (s, 0, 0) else
    let p := if rp_mod p0 =? 0 then mkRP (rp_start p0) (rp_end p0) (rp_alloc p0) (rp_mults p0) (rp_default p0) (rp_distribute p0) 1 else p0 in
    isd <- is_distribution_block (cs_height s) (rp_start p) (rp_mod p) ;;
    cur <- calc_block_distribution p ;;
    bd <- uint_add (cs_accu s) cur ;;
    if isd then
      '(s1, minted, burned) <- distribute_depth_rewards s bd p ;;
      Ok (s1 <| cs_accu := 0 |>, minted, burned)
    else Ok (s <| cs_accu := bd |>, 0, 0)
  end.

Definition end_block (s : clp_state) : Outcome (clp_state * Z * Z) :=
  s1 <- lppd_run s ;;
  rewards_run s1.
