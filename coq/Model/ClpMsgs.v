(* x/clp/keeper/msg_server.go + executors.go: the user messages of the AMM, statement by statement.
   A handler returns Ok new_state, or Err/Panic (the transaction then fails and baseapp discards
   every write of the message). *)
From Coq Require Import ZArith List Bool.
From RecordUpdate Require Import RecordUpdate.
From Sif Require Import Base.Outcome Base.SdkMath Base.Store Base.Bank
  Model.ClpCalc Model.ClpTypes Model.ClpState.
Import ListNotations.
Local Open Scope Z_scope.
Local Open Scope outcome_scope.

Inductive clp_msg :=
| MCreatePool (signer asset native ext : Z)
| MAddLiquidity (signer asset native ext : Z)
| MRemoveLiquidity (signer asset wbasis asym : Z)
| MRemoveLiquidityUnits (signer asset units : Z)
| MSwap (signer sent recv amount minrecv : Z)
| MUnlock (signer asset units : Z)
| MCancelUnlock (signer asset units : Z)
| MDecommission (signer asset : Z)
| MAddToBucket (signer : Z) (coins : list (Z * Z)).

Definition POOL_THRESHOLD : Z := 1000000000000000000.
Definition E_GENERIC : Z := 1.

(* ---- token registry, fee parameters ---- *)
Fixpoint assoc (k : Z) (l : list (Z * Z)) : option Z :=
  match l with
  | [] => None
  | (a, v) :: l' => if a =? k then Some v else assoc k l'
  end.
Definition reg_entry (ps : clp_params) (d : Z) : option Z := assoc d (cp_registry ps).
Definition has_perm (bits p : Z) : bool := negb (Z.land bits p =? 0).
Definition fee_rate (ps : clp_params) (asset : Z) : Z :=
  match assoc asset (cp_fee_tokens ps) with Some f => f | None => cp_fee_default ps end.

Definition fail {A} : Outcome A := Err E_GENERIC.
Definition opt_or_fail {A} (o : option A) : Outcome A := match o with Some a => Ok a | None => fail end.
Definition require (b : bool) : Outcome unit := if b then Ok tt else fail.

(* bank helpers in the Outcome monad *)
Definition bsend (b : bank) (from to d x : Z) : Outcome bank := opt_or_fail (send b from to d x).

(* ---- unlock records ---- *)
Definition prune_unlocks (h lock cancel : Z) (us : list (Z * Z)) : list (Z * Z) :=
  filter (fun r => negb (fst r + lock + cancel <=? h) && negb (snd r =? 0)) us.

(* the loop of UseUnlockedLiquidity; returns the records (zeros kept) and the units still to find *)
Fixpoint use_loop (any : bool) (h lock : Z) (us : list (Z * Z)) (lft : Z) : list (Z * Z) * Z :=
  match us with
  | [] => ([], lft)
  | (rh, ru) :: rest =>
    if any || (rh + lock <=? h) then
      if ru <? lft then
        let '(rest', l') := use_loop any h lock rest (lft - ru) in ((rh, 0) :: rest', l')
      else ((rh, ru - lft) :: rest, 0)
    else let '(rest', l') := use_loop any h lock rest lft in ((rh, ru) :: rest', l')
  end.

(* UseUnlockedLiquidity: (records as the caller's copy sees them, records as stored) *)
Definition use_unlocked (any : bool) (h lock : Z) (us : list (Z * Z)) (units : Z)
  : Outcome (list (Z * Z) * list (Z * Z)) :=
  let '(us', lft) := use_loop any h lock us units in
  if negb (lock =? 0) && negb (lft =? 0) then fail
  else Ok (us', filter (fun r => negb (snd r =? 0)) us').

Definition get_pool (s : clp_state) (asset : Z) : Outcome pool := opt_or_fail (get asset (cs_pools s)).
Definition lps_for (s : clp_state) (asset : Z) : store lprov :=
  match get asset (cs_lps s) with Some m => m | None => [] end.
Definition find_lp (s : clp_state) (asset addr : Z) : option lprov := get addr (lps_for s asset).
Definition get_lp (s : clp_state) (asset addr : Z) : Outcome lprov := opt_or_fail (find_lp s asset addr).
Definition put_lp (s : clp_state) (asset addr : Z) (l : lprov) : clp_state :=
  s <| cs_lps := set asset (set addr l (lps_for s asset)) (cs_lps s) |>.
Definition set_pool (s : clp_state) (asset : Z) (p : pool) : clp_state := s <| cs_pools := set asset p (cs_pools s) |>.
(* SetLiquidityProvider fills LastUpdatedBlock when it is 0 *)
Definition set_lp (s : clp_state) (asset addr : Z) (l : lprov) : clp_state :=
  let l' := if lp_last l =? 0 then l <| lp_last := cs_height s |> else l in
  put_lp s asset addr l'.
Definition del_lp (s : clp_state) (asset addr : Z) : clp_state :=
  s <| cs_lps := set asset (del addr (lps_for s asset)) (cs_lps s) |>.
Definition with_bank (s : clp_state) (b : bank) : clp_state := s <| cs_bank := b |>.

Definition new_pool (nb eb units : Z) : pool := mkPool nb eb units 0 0 0 0 0 0.

(* PruneUnlockRecords: writes the LP only when something was pruned *)
Definition prune_lp (s : clp_state) (asset addr : Z) (l : lprov) : clp_state * lprov :=
  let ps := cs_params s in
  let us' := prune_unlocks (cs_height s) (cp_lock ps) (cp_cancel ps) (lp_unlocks l) in
  if Nat.eqb (length us') (length (lp_unlocks l)) then (s, l)
  else let l' := l <| lp_unlocks := us' |> in
       let l'' := if lp_last l' =? 0 then l' <| lp_last := cs_height s |> else l' in
       (put_lp s asset addr l'', l'').

(* ---- CreatePool ---- *)
Definition create_pool (s : clp_state) (signer asset native ext : Z) : Outcome clp_state :=
  let ps := cs_params s in
  _ <- require (POOL_THRESHOLD <=? native) ;;
  bits <- opt_or_fail (reg_entry ps asset) ;;
  _ <- require (has_perm bits PERM_CLP) ;;
  _ <- require (match get asset (cs_pools s) with Some _ => false | None => true end) ;;
  '(pu, lpu, _, _) <- calculate_pool_units 0 0 0 native ext (fee_rate ps ROWAN) (fee_rate ps asset) (cp_pmtp ps) ;;
  _ <- (if asset =? ROWAN then Panic else Ok tt) ;;      (* sdk.NewCoins panics on duplicate denoms *)
  b1 <- bsend (cs_bank s) signer CLP_MODULE asset ext ;;
  b2 <- bsend b1 signer CLP_MODULE ROWAN native ;;
  let s1 := set_pool (with_bank s b2) asset (new_pool native ext pu) in
  Ok (set_lp s1 asset signer (mkLp lpu [] (cs_height s))).

(* ---- AddLiquidity ---- *)
Definition add_liquidity (s : clp_state) (signer asset native ext : Z) : Outcome clp_state :=
  let ps := cs_params s in
  nbits <- opt_or_fail (reg_entry ps ROWAN) ;;
  ebits <- opt_or_fail (reg_entry ps asset) ;;
  _ <- require (has_perm ebits PERM_CLP) ;;
  pl <- get_pool s asset ;;
  nd <- uint_add (p_nb pl) (p_nl pl) ;;
  ed <- uint_add (p_eb pl) (p_el pl) ;;
  '(pu, lpu, st, sw) <- calculate_pool_units (p_units pl) nd ed native ext (fee_rate ps ROWAN) (fee_rate ps asset) (cp_pmtp ps) ;;
  _ <- match st with
       | NoSwap => Ok tt
       | SellNative => require (negb (has_perm nbits PERM_DISABLE_SELL) && negb (has_perm ebits PERM_DISABLE_BUY))
       | BuyNative => require (negb (has_perm ebits PERM_DISABLE_SELL) && negb (has_perm nbits PERM_DISABLE_BUY))
       end ;;
  _ <- (if (native =? 0) && (ext =? 0) then Panic else Ok tt) ;;   (* coins[0] on an empty Coins *)
  _ <- (if asset =? ROWAN then Panic else Ok tt) ;;
  b1 <- bsend (cs_bank s) signer CLP_MODULE asset ext ;;
  b2 <- bsend b1 signer CLP_MODULE ROWAN native ;;
  nb' <- uint_add (p_nb pl) native ;;
  eb' <- uint_add (p_eb pl) ext ;;
  let pl' := pl <| p_units := pu |> <| p_nb := nb' |> <| p_eb := eb' |> in
  let s1 := set_pool (with_bank s b2) asset pl' in
  match find_lp s asset signer with
  | None => Ok (set_lp s1 asset signer (mkLp lpu [] (cs_height s)))
  | Some l =>
    u' <- uint_add (lp_units l) lpu ;;
    Ok (set_lp s1 asset signer (l <| lp_units := u' |> <| lp_last := cs_height s |>))
  end.

(* keeper.RemoveLiquidity *)
Definition keeper_remove (s : clp_state) (signer asset : Z) (pl : pool) (we wn : Z) (l : lprov) (lft ed nd : Z)
  : Outcome clp_state :=
  _ <- require (negb ((ed <=? we) || (nd <=? wn))) ;;
  let s1 := set_pool s asset pl in
  b1 <- bsend (cs_bank s1) CLP_MODULE signer asset we ;;
  b2 <- bsend b1 CLP_MODULE signer ROWAN wn ;;
  let s2 := with_bank s1 b2 in
  if lft =? 0 then Ok (del_lp s2 asset signer)
  else Ok (set_lp s2 asset signer (l <| lp_units := lft |> <| lp_last := cs_height s |>)).

(* ---- pools enabled for margin trading: a removal that would leave the pool's health below the removal-queue threshold
   is refused (ErrRemovalsBlockedByHealth), or queued and answered with ErrQueued — an error, so the delivered
   transaction keeps none of its writes either way. margin CalculatePoolHealth: 0 if a side has neither balance nor
   liabilities, else balance/(balance+liabilities) of the one side times that of the other, in Dec arithmetic. ---- *)
Definition pool_health (nb nl eb el : Z) : Z :=
  if ((eb + el) =? 0) || ((nb + nl) =? 0) then 0
  else dec_mul (dec_quo (dec_of_int eb) (dec_of_int (eb + el))) (dec_quo (dec_of_int nb) (dec_of_int (nb + nl))).
Definition health_gate (ps : clp_params) (asset : Z) (pl' : pool) : Outcome unit :=
  if existsb (Z.eqb asset) (cp_margin ps)
  then require (negb (pool_health (p_nb pl') (p_nl pl') (p_eb pl') (p_el pl') <? cp_rq_threshold ps))
  else Ok tt.

(* ---- RemoveLiquidity (basis points) ---- *)
Definition remove_liquidity (s : clp_state) (signer asset wbasis asym : Z) : Outcome clp_state :=
  let ps := cs_params s in
  ebits <- opt_or_fail (reg_entry ps asset) ;;
  _ <- require (has_perm ebits PERM_CLP) ;;
  pl <- get_pool s asset ;;
  l0 <- get_lp s asset signer ;;
  let '(s1, l) := prune_lp s asset signer l0 in
  _ <- require (asym =? 0) ;;
  mu <- conv_wbasis_to_units (lp_units l) wbasis ;;
  _ <- require (mu <=? lp_units l) ;;
  nd <- uint_add (p_nb pl) (p_nl pl) ;;
  ed <- uint_add (p_eb pl) (p_el pl) ;;
  '(wn, we, lft, _) <- calculate_withdrawal (p_units pl) nd ed (lp_units l) wbasis asym ;;
  burned <- uint_sub (lp_units l) lft ;;
  '(us_caller, us_stored) <- use_unlocked false (cs_height s) (cp_lock ps) (lp_unlocks l) burned ;;
  let s2 := set_lp s1 asset signer (l <| lp_unlocks := us_stored |>) in
  t <- uint_sub (p_units pl) (lp_units l) ;; units' <- uint_add t lft ;;
  nb' <- uint_sub (p_nb pl) wn ;; eb' <- uint_sub (p_eb pl) we ;;
  let pl' := pl <| p_units := units' |> <| p_nb := nb' |> <| p_eb := eb' |> in
  _ <- health_gate ps asset pl' ;;
  keeper_remove s2 signer asset pl' we wn (l <| lp_unlocks := us_caller |>) lft ed nd.

(* ---- RemoveLiquidityUnits ---- *)
Definition remove_liquidity_units (s : clp_state) (signer asset wunits : Z) : Outcome clp_state :=
  let ps := cs_params s in
  ebits <- opt_or_fail (reg_entry ps asset) ;;
  _ <- require (has_perm ebits PERM_CLP) ;;
  pl <- get_pool s asset ;;
  l0 <- get_lp s asset signer ;;
  _ <- require (wunits <=? lp_units l0) ;;
  let '(s1, l) := prune_lp s asset signer l0 in
  nd <- uint_add (p_nb pl) (p_nl pl) ;;
  ed <- uint_add (p_eb pl) (p_el pl) ;;
  '(wn, we, lft) <- calculate_withdrawal_from_units (p_units pl) nd ed (lp_units l) wunits ;;
  burned <- uint_sub (lp_units l) lft ;;
  '(us_caller, us_stored) <- use_unlocked false (cs_height s) (cp_lock ps) (lp_unlocks l) burned ;;
  let s2 := set_lp s1 asset signer (l <| lp_unlocks := us_stored |>) in
  t <- uint_sub (p_units pl) (lp_units l) ;; units' <- uint_add t lft ;;
  nb' <- uint_sub (p_nb pl) wn ;; eb' <- uint_sub (p_eb pl) we ;;
  let pl' := pl <| p_units := units' |> <| p_nb := nb' |> <| p_eb := eb' |> in
  _ <- health_gate ps asset pl' ;;
  keeper_remove s2 signer asset pl' we wn (l <| lp_unlocks := us_caller |>) lft ed nd.

(* ---- Swap ---- *)
Definition to_spool (p : pool) : spool := mkSpool (p_nb p) (p_eb p) (p_nl p) (p_el p).
Definition upd_balances (p : pool) (sp : spool) : pool := p <| p_nb := sp_nb sp |> <| p_eb := sp_eb sp |>.

Definition swap (s : clp_state) (signer sent recv amount minrecv : Z) : Outcome (clp_state * Z) :=
  let ps := cs_params s in
  sbits <- opt_or_fail (reg_entry ps sent) ;;
  rbits <- opt_or_fail (reg_entry ps recv) ;;
  _ <- require (has_perm sbits PERM_CLP && has_perm rbits PERM_CLP) ;;
  _ <- require (negb (has_perm sbits PERM_DISABLE_SELL)) ;;
  _ <- require (negb (has_perm rbits PERM_DISABLE_BUY)) ;;
  let pm := cp_pmtp ps in let f := fee_rate ps sent in
  _ <- (if sent =? ROWAN then Ok tt else _ <- get_pool s sent ;; Ok tt) ;;
  b1 <- bsend (cs_bank s) signer CLP_MODULE sent amount ;;
  let s1 := with_bank s b1 in
  '(s2, amt2) <- (if negb (sent =? ROWAN) && negb (recv =? ROWAN) then
                    inp <- get_pool s1 sent ;;
                    '(emit, _, sp) <- swap_one true amount (to_spool inp) pm f ;;
                    Ok (set_pool s1 sent (upd_balances inp sp), emit)
                  else Ok (s1, amount)) ;;
  let out_asset := if recv =? ROWAN then sent else recv in
  outp <- get_pool s2 out_asset ;;
  '(emit, _, sp) <- swap_one (recv =? ROWAN) amt2 (to_spool outp) pm f ;;
  _ <- require (minrecv <=? emit) ;;
  let s3 := set_pool s2 out_asset (upd_balances outp sp) in
  b2 <- bsend (cs_bank s3) CLP_MODULE signer recv emit ;;
  Ok (with_bank s3 b2, emit).

(* ---- UnlockLiquidity / CancelUnlock ---- *)
Definition unlock (s : clp_state) (signer asset units : Z) : Outcome clp_state :=
  l0 <- get_lp s asset signer ;;
  let '(s1, l) := prune_lp s asset signer l0 in
  let total := fold_left (fun acc r => acc + snd r) (lp_unlocks l) 0 in
  _ <- require (total + units <=? lp_units l) ;;
  Ok (set_lp s1 asset signer (l <| lp_unlocks := lp_unlocks l ++ [(cs_height s, units)] |>)).

Definition cancel_unlock (s : clp_state) (signer asset units : Z) : Outcome clp_state :=
  l0 <- get_lp s asset signer ;;
  let '(s1, l) := prune_lp s asset signer l0 in
  '(_, us_stored) <- use_unlocked true (cs_height s) (cp_lock (cs_params s)) (lp_unlocks l) units ;;
  Ok (set_lp s1 asset signer (l <| lp_unlocks := us_stored |>)).

(* ---- DecommissionPool ---- *)

Fixpoint refund_all (s : clp_state) (asset : Z) (pl : pool) (nd ed : Z) (ls : list (Z * lprov)) (pu nb eb : Z)
  : Outcome clp_state :=
  match ls with
  | [] => Ok s
  | (k, l) :: rest =>
    '(wn, we, _, _) <- calculate_withdrawal (p_units pl) nd ed (lp_units l) 10000 0 ;;
    pu' <- uint_sub pu (lp_units l) ;;
    nb' <- uint_sub nb wn ;;
    eb' <- uint_sub eb we ;;
    let addr := k in
    _ <- (if asset =? ROWAN then Panic else Ok tt) ;;
    b1 <- bsend (cs_bank s) CLP_MODULE addr asset we ;;
    b2 <- bsend b1 CLP_MODULE addr ROWAN wn ;;
    refund_all (del_lp (with_bank s b2) asset addr) asset pl nd ed rest pu' nb' eb'
  end.

Definition decommission (s : clp_state) (signer asset : Z) : Outcome clp_state :=
  pl <- get_pool s asset ;;
  _ <- require (existsb (Z.eqb signer) (cp_whitelist (cs_params s))) ;;
  _ <- require (p_nb pl <? POOL_THRESHOLD) ;;
  nd <- uint_add (p_nb pl) (p_nl pl) ;;
  ed <- uint_add (p_eb pl) (p_el pl) ;;
  s1 <- refund_all s asset pl nd ed (lps_for s asset) (p_units pl) (p_nb pl) (p_eb pl) ;;
  Ok (s1 <| cs_pools := del asset (cs_pools s1) |>).

(* ---- AddLiquidityToRewardsBucket ---- *)
Fixpoint send_all (b : bank) (from to : Z) (coins : list (Z * Z)) : Outcome bank :=
  match coins with
  | [] => Ok b
  | (d, x) :: rest => b' <- bsend b from to d x ;; send_all b' from to rest
  end.

Definition add_to_bucket (s : clp_state) (signer : Z) (coins : list (Z * Z)) : Outcome clp_state :=
  b' <- send_all (cs_bank s) signer CLP_MODULE coins ;;
  let bk := fold_left (fun m c => set (fst c) (getz (fst c) m + snd c) m) coins (cs_buckets s) in
  Ok (s <| cs_bank := b' |> <| cs_buckets := bk |>).

Definition handle (s : clp_state) (m : clp_msg) : Outcome clp_state :=
  match m with
  | MCreatePool sg a n e => create_pool s sg a n e
  | MAddLiquidity sg a n e => add_liquidity s sg a n e
  | MRemoveLiquidity sg a w asym => remove_liquidity s sg a w asym
  | MRemoveLiquidityUnits sg a u => remove_liquidity_units s sg a u
  | MSwap sg sa ra amt mn => '(s', _) <- swap s sg sa ra amt mn ;; Ok s'
  | MUnlock sg a u => unlock s sg a u
  | MCancelUnlock sg a u => cancel_unlock s sg a u
  | MDecommission sg a => decommission s sg a
  | MAddToBucket sg cs => add_to_bucket s sg cs
  end.

(* A delivered transaction: the ante handler takes the fee from the signer first (it is kept even
   if the message fails); the message's writes are kept only on success (baseapp.runTx). *)
Definition signer_of (m : clp_msg) : Z :=
  match m with
  | MCreatePool sg _ _ _ | MAddLiquidity sg _ _ _ | MRemoveLiquidity sg _ _ _ | MRemoveLiquidityUnits sg _ _
  | MSwap sg _ _ _ _ | MUnlock sg _ _ | MCancelUnlock sg _ _ | MDecommission sg _ | MAddToBucket sg _ => sg
  end.

Definition deliver (s : clp_state) (fee : Z) (m : clp_msg) : clp_state * bool :=
  let s0 := with_bank s (credit (cs_bank s) (signer_of m) ROWAN (- fee)) in
  match handle s0 m with
  | Ok s' => (s', true)
  | _ => (s0, false)
  end.
