(* AMM policy state, the administrator messages that set it (ValidateBasic + handler checks:
   x/clp/types/msgs.go, x/clp/keeper/msg_server.go) and the policy part of the clp BeginBlocker
   (x/clp/abci.go, keeper/pmtp.go): liquidity-protection replenishment and the ratio-shifting (PMTP) policy.

   Go panics are explicit (Panic).  The signer is assumed to hold the governing role (C08 covers refusal).
   math.Pow in PolicyStart is not modelled: the block rate it yields is an input ([None] = the formatted
   float does not parse, which panics). *)
From Coq Require Import ZArith List Bool.
From RecordUpdate Require Import RecordUpdate.
From Sif Require Import Base.Outcome Base.SdkMath Model.ClpTypes.
Import ListNotations.
Local Open Scope Z_scope.
Local Open Scope outcome_scope.

Definition U64_LIM : Z := 2 ^ 64.
Definition TEN_DEC : Z := 10 * PREC.

Record lp_state := mkLPS {
  lps_max : Z;        (* MaxRowanLiquidityThreshold (Uint) *)
  lps_epoch : Z;      (* EpochLength (uint64) *)
  lps_active : bool;
  lps_current : Z     (* CurrentRowanLiquidityThreshold (Uint) *)
}.
#[export] Instance eta_lps : Settable _ := settable! mkLPS <lps_max; lps_epoch; lps_active; lps_current>.

Record pmtp_state := mkPM {
  pm_start : Z; pm_end : Z; pm_epoch_len : Z;     (* int64 *)
  pm_gov : Z;                                      (* PmtpPeriodGovernanceRate (Dec) *)
  pm_block_rate : Z; pm_running : Z; pm_inter : Z; (* PmtpRateParams (Dec) *)
  pm_epochs : Z; pm_blocks : Z                     (* PmtpEpoch counters (int64) *)
}.
#[export] Instance eta_pm : Settable _ :=
  settable! mkPM <pm_start; pm_end; pm_epoch_len; pm_gov; pm_block_rate; pm_running; pm_inter; pm_epochs; pm_blocks>.

Record policy_state := mkPol {
  pol_height : Z;
  pol_lp : lp_state;
  pol_pmtp : pmtp_state;
  pol_rewards : list reward_period;
  pol_lppd : list lppd_period
}.
#[export] Instance eta_pol : Settable _ := settable! mkPol <pol_height; pol_lp; pol_pmtp; pol_rewards; pol_lppd>.

(* ---------- messages ---------- *)
(* a reward period as it arrives: allocation and multipliers are optional (nil pointers) *)
Record rp_msg := mkRM {
  rm_id_empty : bool;
  rm_start : Z; rm_end : Z;                (* uint64 *)
  rm_alloc : option Z;
  rm_mults : list (Z * option Z);
  rm_default : option Z;
  rm_distribute : bool;
  rm_mod : Z
}.
(* a decimal given as a string: empty, unparsable, or a Dec *)
Inductive dec_field := DEmpty | DBad | DVal (d : Z).

Inductive policy_msg :=
| PAddRewardPeriods (ps : list rp_msg)
| PAddLppd (ps : list lppd_period)
| PUpdatePmtpParams (gov : dec_field) (epoch_len start end_ : Z) (br : option Z)
| PModifyPmtpRates (block running : dec_field) (end_policy : bool) (br : option Z)
| PUpdateLPParams (max epoch : Z) (active : bool)
| PModifyLPRates (current : Z)
| PUpdateSwapFee (default : Z) (token_rates : list Z).     (* Dec; the per-token overrides' rates *)

(* ---------- MsgAddRewardPeriodRequest ---------- *)
Definition mult_ok (m : Z * option Z) : bool :=
  match snd m with None => false | Some d => (0 <=? d) && (d <=? TEN_DEC) end.
Definition rp_valid (p : rp_msg) : bool :=
  negb (rm_id_empty p) &&
  (rm_start p <=? rm_end p) &&
  negb (rm_end p - rm_start p =? U64_LIM - 1) &&                 (* the length end - start + 1 would wrap to 0 *)
  (match rm_alloc p with None => false | Some _ => true end) &&
  (match rm_default p with None => false | Some d => (0 <=? d) && (d <=? TEN_DEC) end) &&
  forallb mult_ok (rm_mults p).
Definition rp_of_msg (p : rp_msg) : reward_period :=
  mkRP (rm_start p) (rm_end p) (match rm_alloc p with Some a => a | None => 0 end)
       (map (fun m => (fst m, match snd m with Some d => d | None => 0 end)) (rm_mults p))
       (match rm_default p with Some d => d | None => 0 end) (rm_distribute p) (rm_mod p).

(* ---------- MsgAddProviderDistributionPeriodRequest ---------- *)
Definition lppd_valid (p : lppd_period) : bool :=
  (pd_start p <=? pd_end p) && (0 <=? pd_rate p) && (pd_rate p <=? PREC) && negb (pd_mod p =? 0).

(* ---------- PMTP ---------- *)
Definition in_window (s : policy_state) : bool :=
  (pol_height s <=? pm_end (pol_pmtp s)) && (pm_start (pol_pmtp s) <=? pol_height s).

(* Dec.Power with the overflow panics of Dec.Mul *)
Fixpoint Dpower_loop (fuel : nat) (d tmp : Z) (i : Z) : Outcome (Z * Z) :=
  match fuel with
  | O => Ok (d, tmp)
  | S f =>
    if i <=? 1 then Ok (d, tmp)
    else
      tmp' <- (if Z.odd i then Dmul tmp d else Ok tmp) ;;
      d' <- Dmul d d ;;
      Dpower_loop f d' tmp' (i / 2)
  end.
Definition Dpower (d p : Z) : Outcome Z :=
  if p =? 0 then Ok PREC
  else '(d', tmp) <- Dpower_loop 64 d PREC p ;; Dmul d' tmp.

(* PolicyCalculations *)
Definition policy_calc (pm : pmtp_state) (height : Z) : Outcome pmtp_state :=
  base <- ck_dec (PREC + pm_block_rate pm) ;;
  p <- Dpower base (height - pm_start pm + 1) ;;
  r1 <- ck_dec (p - PREC) ;;
  r <- ck_dec (r1 + pm_inter pm) ;;
  Ok (pm <| pm_running := r |>).

(* the running rate a policy reaches on its last block, as PolicyCalculations computes it there, when PolicyStart gives it the
   block rate [b] *)
Definition policy_end_rate (pm : pmtp_state) (b : Z) : Outcome Z :=
  pm' <- policy_calc (pm <| pm_block_rate := b |>) (pm_end pm) ;; Ok (pm_running pm').
(* UpdatePmtpParams: a policy of negative rate lowers the running rate until its last block; one that would bring it to -1 or
   below is refused. [br] is what PmtpPeriodBlockRate (float arithmetic, printed with 18 decimals) returns for the policy *)
Definition end_rate_ok (pm : pmtp_state) (br : option Z) : Outcome unit :=
  if (0 <=? pm_gov pm) || (pm_epoch_len pm <=? 0) then Ok tt else
  match br with
  | None => Err 3
  | Some b => if 0 <=? b then Ok tt else r <- policy_end_rate pm b ;; if r <=? - PREC then Err 5 else Ok tt
  end.

Definition update_pmtp_params (s : policy_state) (gov : dec_field) (epoch_len start end_ : Z) (br : option Z) : Outcome policy_state :=
  (* ValidateBasic *)
  if epoch_len <=? 0 then Err 1 else
  if start <? 0 then Err 1 else
  if end_ <=? 0 then Err 1 else
  if end_ <? start then Err 1 else
  if negb (Z.rem (end_ - start + 1) epoch_len =? 0) then Err 1 else
  (* handler *)
  if in_window s then Err 2 else
  if start <=? pol_height s then Err 2 else
  let pm := pol_pmtp s <| pm_start := start |> <| pm_end := end_ |> <| pm_epoch_len := epoch_len |> in
  match gov with
  | DEmpty => u <- end_rate_ok pm br ;; Ok (s <| pol_pmtp := pm |>)
  | DBad => Err 3
  | DVal g => if g <=? - PREC then Err 4 else
              let pm' := pm <| pm_gov := g |> in u <- end_rate_ok pm' br ;; Ok (s <| pol_pmtp := pm' |>)
  end.

(* [br]: the block rate of the policy that is scheduled (see end_rate_ok); a running rate set before that policy starts is
   the rate it will start from *)
Definition modify_pmtp_rates (s : policy_state) (block running : dec_field) (end_policy : bool) (br : option Z) : Outcome policy_state :=
  let inside := in_window s in
  pm1 <- match block with
         | DEmpty => Ok (pol_pmtp s)
         | _ => if inside then Ok (pol_pmtp s) else
                match block with DVal b => Ok (pol_pmtp s <| pm_block_rate := b |>) | _ => Err 3 end
         end ;;
  pm2 <- match running with
         | DEmpty => Ok pm1
         | _ => if inside then Ok pm1 else
                match running with
                | DVal r => if r <=? - PREC then Err 4 else
                            let pm' := pm1 <| pm_running := r |> <| pm_inter := r |> in
                            if pol_height s <? pm_start pm1 then u <- end_rate_ok pm' br ;; Ok pm' else Ok pm'
                | _ => Err 3
                end
         end ;;
  if end_policy && inside
  then Ok (s <| pol_pmtp := pm2 <| pm_end := pol_height s |> <| pm_epochs := 0 |> <| pm_blocks := 0 |> <| pm_inter := pm_running pm2 |> |>)
  else Ok (s <| pol_pmtp := pm2 |>).

(* ---------- liquidity protection ---------- *)
Definition update_lp_params (s : policy_state) (max epoch : Z) (active : bool) : Outcome policy_state :=
  if epoch <=? 0 then Err 1 else
  Ok (s <| pol_lp := mkLPS max epoch active max |>).
Definition modify_lp_rates (s : policy_state) (current : Z) : Outcome policy_state :=
  if lps_max (pol_lp s) <? current then Err 5 else
  Ok (s <| pol_lp := pol_lp s <| lps_current := current |> |>).

(* ---------- MsgUpdateSwapFeeParamsRequest: the default rate and every per-token rate lie in [0,1] (the rates themselves are
   part of the AMM state, not of the policy state) ---------- *)
Definition fee_rate_ok (r : Z) : bool := (0 <=? r) && (r <=? PREC).

Definition policy_handle (s : policy_state) (m : policy_msg) : Outcome policy_state :=
  match m with
  | PAddRewardPeriods ps => if forallb rp_valid ps then Ok (s <| pol_rewards := map rp_of_msg ps |>) else Err 1
  | PAddLppd ps => if forallb lppd_valid ps then Ok (s <| pol_lppd := ps |>) else Err 1
  | PUpdatePmtpParams g el st en br => update_pmtp_params s g el st en br
  | PModifyPmtpRates b r e br => modify_pmtp_rates s b r e br
  | PUpdateLPParams mx ep a => update_lp_params s mx ep a
  | PModifyLPRates c => modify_lp_rates s c
  | PUpdateSwapFee d rs => if fee_rate_ok d && forallb fee_rate_ok rs then Ok s else Err 1
  end.
(* a failing (or panicking) message leaves the policy state as it was *)
Definition policy_deliver (s : policy_state) (m : policy_msg) : policy_state * bool :=
  match policy_handle s m with Ok s' => (s', true) | _ => (s, false) end.

(* ---------- BeginBlocker: liquidity protection ---------- *)
Definition lp_begin (l : lp_state) : Outcome lp_state :=
  if negb (lps_active l) then Ok l else
  repl <- uint_quo (lps_max l) (lps_epoch l) ;;          (* QuoUint64: panics on a zero epoch length *)
  room <- uint_sub (lps_max l) (lps_current l) ;;        (* Uint.Sub: panics when current > max *)
  if room <? repl then Ok (l <| lps_current := lps_max l |>)
  else cur <- uint_add (lps_current l) repl ;; Ok (l <| lps_current := cur |>).

(* ---------- BeginBlocker: ratio shifting ---------- *)
(* PolicyStart; [br] is what fmt.Sprintf("%.18f", math.Pow(1+gov, epochs/blocks) - 1) parses to *)
Definition policy_start (pm : pmtp_state) (br : option Z) : Outcome pmtp_state :=
  let blocks := pm_end pm - pm_start pm + 1 in
  if pm_epoch_len pm =? 0 then Panic else                 (* integer division by zero *)
  let epochs := Z.quot blocks (pm_epoch_len pm) in
  match br with
  | None => Panic                                          (* NaN / Inf does not parse *)
  | Some b => Ok (pm <| pm_block_rate := b |> <| pm_epochs := epochs |> <| pm_blocks := pm_epoch_len pm |>)
  end.

Definition pmtp_begin (pm0 : pmtp_state) (h : Z) (br : option Z) : Outcome pmtp_state :=
  pm1 <- (if (h =? pm_start pm0) && (pm_epochs pm0 =? 0) && (pm_blocks pm0 =? 0) then policy_start pm0 br else Ok pm0) ;;
  pm2 <- (if (pm_start pm1 <=? h) && (h <=? pm_end pm1) && (0 <? pm_epochs pm1)
          then pm' <- policy_calc pm1 h ;; Ok (pm' <| pm_blocks := pm_blocks pm' - 1 |>)
          else Ok pm1) ;;
  let pm3 := if (pm_blocks pm2 =? 0) && (h <? pm_end pm2) && (pm_start pm2 <=? h)
             then pm2 <| pm_epochs := pm_epochs pm2 - 1 |> <| pm_blocks := pm_epoch_len pm2 |> else pm2 in
  let pm4 := if h =? pm_end pm3
             then pm3 <| pm_epochs := 0 |> <| pm_blocks := 0 |> <| pm_inter := pm_running pm3 |> else pm3 in
  (* PolicyRun: CalcSpotPriceX returns an error (no panic) for an empty side or a zero factor 1 + rate *)
  Ok pm4.

(* the price computation of PolicyRun for one side of one pool: an error (None) or a rational price *)
Definition spot_price_x (X Y : Z) (running : Z) (x_native : bool) : Outcome (option (Z * Z)) :=
  if X =? 0 then Ok None else
  let fac := PREC + running in                      (* (1 + r) * 10^18 *)
  if fac =? 0 then Ok None                           (* guard (fix of finding F-6) *)
  else if x_native then Ok (Some (Y * fac, X * PREC))
  else Ok (Some (Y * PREC, X * fac)).                (* big.Rat.Quo: the divisor is non-zero here *)

Definition policy_begin (s : policy_state) (br : option Z) : Outcome policy_state :=
  l <- lp_begin (pol_lp s) ;;
  pm <- pmtp_begin (pol_pmtp s) (pol_height s) br ;;
  Ok (s <| pol_lp := l |> <| pol_pmtp := pm |>).
