(* x/clp removal queue (keeper/removalqueue.go), the part the removals read: the units a provider already has queued for
   removal from one pool. A queued request is (asset of its pool, weighted basis points still to be removed); the store
   iterates a provider's requests over all pools in key order.
   Note on reachability: a removal is queued by a message that answers ErrQueued, an error — baseapp keeps none of the
   writes of such a transaction, so on a running chain the queue stays empty (and Model/ClpMsgs.v's removals are the case
   queued = 0). The functions here are compared with the keeper on queues built by calling the message server directly on
   one context, the way the repository's own tests drive it. *)
From Coq Require Import ZArith List Bool.
From Sif Require Import Base.Outcome Base.SdkMath Model.ClpCalc.
Import ListNotations.
Local Open Scope Z_scope.
Local Open Scope outcome_scope.

(* GetRemovalQueueUnitsForLP: requests against other pools are skipped, every request against this pool counts *)
Fixpoint queued_units (lp_units asset : Z) (reqs : list (Z * Z)) : Outcome Z :=
  match reqs with
  | [] => Ok 0
  | (a, wbasis) :: rest =>
    if a =? asset then
      u <- conv_wbasis_to_units lp_units wbasis ;;
      r <- queued_units lp_units asset rest ;;
      uint_add u r
    else queued_units lp_units asset rest
  end.

(* the gate of RemoveLiquidityUnits / RemoveLiquidity: the asked units fit into what is not queued yet *)
Definition removal_fits (wunits lp_units queued : Z) : Outcome bool :=
  free <- uint_sub lp_units queued ;; Ok (wunits <=? free).
