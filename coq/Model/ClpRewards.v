(* x/clp/keeper/rewards.go, provider_distribution.go and the reward / LPPD part of
   x/clp/abci.go EndBlocker, statement by statement. *)
From Coq Require Import ZArith List Bool.
From RecordUpdate Require Import RecordUpdate.
From Sif Require Import Base.Outcome Base.SdkMath Base.Store Base.Bank Model.ClpTypes.
Import ListNotations.
Local Open Scope Z_scope.

Definition U64 : Z := 2 ^ 64.

(* CalcBlockDistribution: uint64 arithmetic for the length, QuoUint64 panics on 0 *)
Definition calc_block_distribution (p : reward_period) : Outcome Z :=
  let len := (rp_end p - rp_start p + 1) mod U64 in
  if len =? 0 then Panic else Ok (rp_alloc p / len).

(* IsDistributionBlockPure: Go's % on int64 (truncated); mod = 0 panics (integer divide by zero) *)
Definition is_distribution_block (height start md : Z) : Outcome bool :=
  if md =? 0 then Panic else Ok (Z.rem (height - start) md =? 0).

Fixpoint find_period (h : Z) (ps : list reward_period) : option reward_period :=
  match ps with
  | [] => None
  | p :: ps' => if (rp_start p <=? h) && (h <=? rp_end p) then Some p else find_period h ps'
  end.

Fixpoint pool_multiplier (asset : Z) (ms : list (Z * Z)) (dflt : Z) : Z :=
  match ms with
  | [] => dflt
  | (a, m) :: ms' => if a =? asset then m else pool_multiplier asset ms' dflt
  end.

(* calcPoolDistribution *)
Definition calc_pool_distribution (mult nb total_depth bd : Z) : Z :=
  let weight := dec_quo (dec_mul (dec_of_int nb) mult) total_depth in
  dec_trunc_int (dec_mul weight (dec_of_int bd)).

(* CollectPoolRewardTuples over the raw per-pool distributions (asset, raw): caps by what remains *)
Fixpoint collect_tuples (raws : list (Z * Z)) (remaining : Z) : list (Z * Z) * Z :=
  match raws with
  | [] => ([], 0)
  | (a, raw) :: rest =>
    if remaining =? 0 then ([], 0)
    else if raw =? 0 then collect_tuples rest remaining
    else let d := if remaining <? raw then remaining else raw in
         let '(ts, tot) := collect_tuples rest (remaining - d) in
         ((a, d) :: ts, d + tot)
  end.

Definition total_depth (pools : store pool) (p : reward_period) : Z :=
  fold_left (fun acc kv => acc + dec_mul (dec_of_int (p_nb (snd kv))) (pool_multiplier (fst kv) (rp_mults p) (rp_default p)))
            pools 0.

Definition raw_distributions (pools : store pool) (p : reward_period) (td bd : Z) : list (Z * Z) :=
  map (fun kv => (fst kv, calc_pool_distribution (pool_multiplier (fst kv) (rp_mults p) (rp_default p)) (p_nb (snd kv)) td bd)) pools.

(* CalcProviderDistributionAmount *)
Definition calc_provider_amount (rowan_pd pool_units lp_units : Z) : Z :=
  if pool_units =? 0 then 0 else     (* a pool without units hands out no shares (fix of finding F-25; before it: Dec.Quo by zero) *)
  dec_round_int (dec_mul (dec_quo (dec_of_int lp_units) (dec_of_int pool_units)) rowan_pd).

(* CollectProviderDistribution: lps = list of (address id, units) in store order.
   Returns the per-LP amounts and the pool's total. *)
Fixpoint collect_pd_loop (rowan_pd pd_uint pool_units : Z) (lps : list (Z * Z)) (total : Z)
  : list (Z * Z) * Z :=
  match lps with
  | [] => ([], total)
  | (addr, u) :: rest =>
    let pr := calc_provider_amount rowan_pd pool_units u in
    let total1 := total + pr in
    let '(pr', total2) := if pd_uint <? total1 then (pd_uint - (total1 - pr), pd_uint) else (pr, total1) in
    let '(out, tot) := collect_pd_loop rowan_pd pd_uint pool_units rest total2 in
    ((addr, pr') :: out, tot)
  end.

Definition collect_provider_distribution (depth_dec rate pool_units : Z) (lps : list (Z * Z))
  : list (Z * Z) * Z :=
  let rowan_pd := dec_mul rate depth_dec in
  collect_pd_loop rowan_pd (dec_round_int rowan_pd) pool_units lps 0.

(* LPs of a pool, in store order *)
Definition lps_of (asset : Z) (lps : store (store lprov)) : list (Z * Z) :=
  match get asset lps with
  | Some m => map (fun kv => (fst kv, lp_units (snd kv))) m
  | None => []
  end.
