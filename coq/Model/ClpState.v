(* The part of the chain state that x/clp reads and writes. *)
From Coq Require Import ZArith List Bool.
From RecordUpdate Require Import RecordUpdate.
From Sif Require Import Base.Outcome Base.SdkMath Base.Store Base.Bank Model.ClpTypes.
Import ListNotations.
Local Open Scope Z_scope.

Record clp_state := mkClp {
  cs_bank : bank;
  cs_pools : store pool;            (* key: external asset id *)
  cs_lps : store (store lprov);     (* asset id -> address id -> provider *)
  cs_buckets : store Z;             (* rewards buckets: denom id -> amount *)
  cs_accu : Z;                      (* block distribution accumulator *)
  cs_reward_periods : list reward_period;
  cs_lppd_periods : list lppd_period;
  cs_height : Z;
  cs_params : clp_params
}.
#[export] Instance eta_clp : Settable _ :=
  settable! mkClp <cs_bank; cs_pools; cs_lps; cs_buckets; cs_accu; cs_reward_periods; cs_lppd_periods; cs_height; cs_params>.
