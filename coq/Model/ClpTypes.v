(* Records of x/clp (types.pb.go) over integer ids. *)
From Coq Require Import ZArith List Bool.
From RecordUpdate Require Import RecordUpdate.
From Sif Require Import Base.Outcome Base.Store Base.Bank.
Import ListNotations.
Local Open Scope Z_scope.

Definition ROWAN : Z := 0.          (* denom id of the native token *)
Definition CLP_MODULE : Z := 1.     (* account id of the clp module account *)

Record pool := mkPool {
  p_nb : Z;      (* NativeAssetBalance *)
  p_eb : Z;      (* ExternalAssetBalance *)
  p_units : Z;   (* PoolUnits *)
  p_nl : Z;      (* NativeLiabilities *)
  p_el : Z;      (* ExternalLiabilities *)
  p_nc : Z;      (* NativeCustody *)
  p_ec : Z;      (* ExternalCustody *)
  p_rpd : Z;     (* RewardPeriodNativeDistributed *)
  p_rae : Z      (* RewardAmountExternal *)
}.
#[export] Instance eta_pool : Settable _ :=
  settable! mkPool <p_nb; p_eb; p_units; p_nl; p_el; p_nc; p_ec; p_rpd; p_rae>.

Record lprov := mkLp {
  lp_units : Z;
  lp_unlocks : list (Z * Z);   (* (request height, units) *)
  lp_last : Z                  (* LastUpdatedBlock *)
}.
#[export] Instance eta_lp : Settable _ := settable! mkLp <lp_units; lp_unlocks; lp_last>.

(* LP store key: asset id * LPK + address id  (real key: "<symbol>_<bech32>") *)
Definition LPK : Z := 65536.
Definition lpkey (asset addr : Z) : Z := asset * LPK + addr.
Definition lp_asset_of (k : Z) : Z := k / LPK.
Definition lp_addr_of (k : Z) : Z := k mod LPK.

Record reward_period := mkRP {
  rp_start : Z; rp_end : Z; rp_alloc : Z;
  rp_mults : list (Z * Z);     (* (asset id, multiplier Dec) *)
  rp_default : Z;              (* default multiplier, Dec *)
  rp_distribute : bool;
  rp_mod : Z
}.

Record lppd_period := mkPD { pd_rate : Z (* Dec *); pd_start : Z; pd_end : Z; pd_mod : Z }.
