(* Records of x/clp (types.pb.go) over integer ids. *)
From Coq Require Import ZArith List Bool.
From RecordUpdate Require Import RecordUpdate.
From Sif Require Import Base.Outcome Base.Store Base.Bank.
Import ListNotations.
Local Open Scope Z_scope.

Definition ROWAN : Z := 0.          (* denom id of the native token *)
Definition CLP_MODULE : Z := 1.     (* account id of the clp module account *)

Record pool := mkPool {
  p_nb : Z;      (* NativeAssetBalance *)
  p_eb : Z;      (* ExternalAssetBalance *)
  p_units : Z;   (* PoolUnits *)
  p_nl : Z;      (* NativeLiabilities *)
  p_el : Z;      (* ExternalLiabilities *)
  p_nc : Z;      (* NativeCustody *)
  p_ec : Z;      (* ExternalCustody *)
  p_rpd : Z;     (* RewardPeriodNativeDistributed *)
  p_rae : Z      (* RewardAmountExternal *)
}.
#[export] Instance eta_pool : Settable _ :=
  settable! mkPool <p_nb; p_eb; p_units; p_nl; p_el; p_nc; p_ec; p_rpd; p_rae>.

Record lprov := mkLp {
  lp_units : Z;
  lp_unlocks : list (Z * Z);   (* (request height, units) *)
  lp_last : Z                  (* LastUpdatedBlock *)
}.
#[export] Instance eta_lp : Settable _ := settable! mkLp <lp_units; lp_unlocks; lp_last>.

(* LP store: asset id -> address id -> record (real key "<symbol>_<bech32>": ordered by symbol, then address) *)

Record reward_period := mkRP {
  rp_start : Z; rp_end : Z; rp_alloc : Z;
  rp_mults : list (Z * Z);     (* (asset id, multiplier Dec) *)
  rp_default : Z;              (* default multiplier, Dec *)
  rp_distribute : bool;
  rp_mod : Z
}.

Record lppd_period := mkPD { pd_rate : Z (* Dec *); pd_start : Z; pd_end : Z; pd_mod : Z }.

(* x/clp parameters and the other modules' state that the clp handlers read *)
Record clp_params := mkCP {
  cp_pmtp : Z;                     (* PmtpCurrentRunningRate (Dec) *)
  cp_fee_default : Z;              (* DefaultSwapFeeRate (Dec) *)
  cp_fee_tokens : list (Z * Z);    (* per-token swap fee rates (denom id, Dec) *)
  cp_lock : Z;                     (* LiquidityRemovalLockPeriod *)
  cp_cancel : Z;                   (* LiquidityRemovalCancelPeriod *)
  cp_registry : list (Z * Z);      (* token registry: (denom id, permission bits) in registry order *)
  cp_whitelist : list Z;           (* clp address whitelist (decommission) *)
  cp_rewards_lock : Z;             (* RewardsLockPeriod *)
  cp_rewards_wallet : bool;        (* RewardsDistribute: pay bucket rewards to wallets (else re-invest) *)
  cp_margin : list Z;              (* x/margin Params.Pools: denom ids of the pools enabled for margin trading *)
  cp_rq_threshold : Z              (* x/margin Params.RemovalQueueThreshold (Dec) *)
}.
Definition PERM_CLP : Z := 1.
Definition PERM_IBCEXPORT : Z := 2.
Definition PERM_IBCIMPORT : Z := 4.
Definition PERM_DISABLE_BUY : Z := 8.
Definition PERM_DISABLE_SELL : Z := 16.
