(* C09: the code paths that range over Go maps, as functions of the iteration order.
   transfer_blk generalises ClpHooks.transfer_generic by recipients that cannot receive (module
   accounts on the bank's blocked list): such a payment fails whatever the order, and is only logged. *)
From Coq Require Import ZArith List Bool.
From Sif Require Import Base.Outcome Base.Store Base.Bank Model.ClpTypes Model.ClpRewards Model.ClpState Model.ClpHooks.
Import ListNotations.
Local Open Scope Z_scope.

(* TransferProviderDistributionGeneric: `for lpAddress, totalRowan := range lpRowanMap` *)
Fixpoint transfer_blk (blocked : Z -> bool) (amt : Z -> Z) (b : bank) (order : list Z) : bank * list Z :=
  match order with
  | [] => (b, [])
  | a :: rest =>
    if blocked a then let '(b', failed) := transfer_blk blocked amt b rest in (b', a :: failed)
    else match send b CLP_MODULE a ROWAN (amt a) with
         | Some b' => transfer_blk blocked amt b' rest
         | None => let '(b', failed) := transfer_blk blocked amt b rest in (b', a :: failed)
         end
  end.

(* `for pool, x := range poolRowanMap { ...; k.SetPool(ctx, pool) }`: one independent update per pool *)
Definition pool_updates (f : Z -> Z -> pool -> pool) (order : list (Z * Z)) (m : store pool) : store pool :=
  fold_left (fun m e => upd_pool (fst e) (f (fst e) (snd e)) m) order m.

(* `for _, rowan := range poolRowanMap { sum = sum.Add(rowan) }` *)
Definition map_sum (order : list (Z * Z)) : Z := fold_left (fun acc e => acc + snd e) order 0.
