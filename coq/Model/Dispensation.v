(* x/dispensation: distributions, distribution records by status, user claims
   (keeper/msg_server.go, executors.go, distributionRecords.go, distribution.go, userclaim.go).

   Identifiers: accounts, denoms and distribution names are integers assigned by the harness in the byte
   order of the real strings ("<height>_<distributor bech32>" for names), so that the lexicographic order
   of a key (name, type, recipient) is the byte order of the real store key "<name>_<type>_<recipient>"
   (no name is a proper prefix of another: bech32 addresses have one length, heights differ before '_').

   The state carries a ghost ledger (per key: coins ever recorded, ever paid, ever marked failed) that the
   implementation does not have; it is what the once-only theorems are stated over. *)
From Coq Require Import ZArith List Bool Lia.
From RecordUpdate Require Import RecordUpdate.
From Sif Require Import Base.Outcome Base.Store Base.Bank.
Import ListNotations.
Local Open Scope Z_scope.

Definition DISP_MODULE : Z := 2.     (* account id of the dispensation module account *)
Definition MAX_RECORDS : Z := 20.    (* types.MaxRecordsPerBlock *)

(* ---------- coins: sdk.Coins as (denom id -> amount), ascending denoms, positive amounts ---------- *)
Definition coins := store Z.

Fixpoint coins_valid_from (lo : Z) (cs : coins) : bool :=
  match cs with
  | [] => true
  | (d, a) :: r => (lo <? d) && (0 <? a) && coins_valid_from d r
  end.
Definition coins_valid (cs : coins) : bool := coins_valid_from (-1) cs.      (* Coins.IsValid *)
Definition coins_all_positive (cs : coins) : bool :=                          (* Coins.IsAllPositive *)
  match cs with [] => false | _ => forallb (fun c => 0 <? snd c) cs end.

Definition amt (d : Z) (cs : coins) : Z := getz d cs.
Definition coins_add (a b : coins) : coins :=                                  (* Coins.Add on valid operands *)
  fold_left (fun acc c => set (fst c) (getz (fst c) acc + snd c) acc) b a.

(* ---------- bank: multi-coin transfers as x/bank v0.45 performs them ---------- *)
(* subUnlockedCoins: coin by coin; an insufficient balance stops the loop and keeps the earlier writes *)
Fixpoint sub_coins (b : bank) (a : Z) (cs : coins) : bank * bool :=
  match cs with
  | [] => (b, true)
  | (d, x) :: r => if bal b a d <? x then (b, false) else sub_coins (set_bal b a d (bal b a d - x)) a r
  end.
Definition add_coins (b : bank) (a : Z) (cs : coins) : bank :=
  fold_left (fun b c => credit b a (fst c) (snd c)) cs b.
Definition send_coins (b : bank) (from to : Z) (cs : coins) : bank * bool :=
  let '(b1, ok) := sub_coins b from cs in
  if ok then (add_coins b1 to cs, true) else (b1, false).

(* ---------- record tables ---------- *)
Definition rkey := (Z * Z * Z)%type.                    (* distribution name, type, recipient *)
Definition k_name (k : rkey) := fst (fst k).
Definition k_type (k : rkey) := snd (fst k).
(* a record is kept under the recipient's address AS WRITTEN in the message; bech32 has a second, all-upper-case spelling of
   every address (it sorts before the lower-case one). Negative ids stand for that spelling of account id + SPELL: another
   record key, the same account. [k_raw] is what the record is filed under, [k_rcp] the account that is paid. *)
Definition SPELL : Z := 100000.
Definition acct_of (r : Z) : Z := if r <? 0 then r + SPELL else r.
Definition k_raw  (k : rkey) := snd k.
Definition k_rcp  (k : rkey) := acct_of (snd k).
Definition key_eqb (a b : rkey) : bool :=
  (k_name a =? k_name b) && (k_type a =? k_type b) && (k_raw a =? k_raw b).
Definition key_ltb (a b : rkey) : bool :=
  (k_name a <? k_name b) ||
  ((k_name a =? k_name b) && ((k_type a <? k_type b) || ((k_type a =? k_type b) && (k_raw a <? k_raw b)))).

Record drec := mkRec {
  r_coins : coins;
  r_runner : Z;      (* AuthorizedRunner *)
  r_start : Z;       (* DistributionStartHeight *)
  r_done : Z         (* DistributionCompletedHeight (-1 while pending) *)
}.
#[export] Instance eta_drec : Settable _ := settable! mkRec <r_coins; r_runner; r_start; r_done>.

Section Table.
  Context {V : Type}.
  Definition table := list (rkey * V).
  Fixpoint rget (k : rkey) (t : table) : option V :=
    match t with
    | [] => None
    | (k', v) :: r => if key_eqb k k' then Some v else rget k r
    end.
  (* store.Set: overwrite the value under an existing key, else insert in key order *)
  Fixpoint rreplace (k : rkey) (v : V) (t : table) : table :=
    match t with
    | [] => []
    | (k', v') :: r => if key_eqb k k' then (k, v) :: r else (k', v') :: rreplace k v r
    end.
  Fixpoint rinsert (k : rkey) (v : V) (t : table) : table :=
    match t with
    | [] => [(k, v)]
    | (k', v') :: r => if key_ltb k k' then (k, v) :: t else (k', v') :: rinsert k v r
    end.
  Definition rset (k : rkey) (v : V) (t : table) : table :=
    match rget k t with Some _ => rreplace k v t | None => rinsert k v t end.
  Fixpoint rdel (k : rkey) (t : table) : table :=
    match t with
    | [] => []
    | (k', v') :: r => if key_eqb k k' then r else (k', v') :: rdel k r
    end.
End Table.
Arguments table V : clear implicits.

(* ---------- state ---------- *)
Record ledger := mkLedger { l_owed : coins; l_paid : coins; l_failed : coins }.

Record disp_state := mkDS {
  ds_bank : bank;
  ds_pending : table drec;          (* prefix 0x00 *)
  ds_completed : table drec;        (* prefix 0x11 *)
  ds_failed : table drec;           (* prefix 0x12 *)
  ds_dists : list (Z * Z * Z);      (* Distribution (name, type, runner), prefix 0x01 *)
  ds_claims : list (Z * Z);         (* UserClaim (user, type), prefix 0x02 *)
  ds_blocked : list Z;              (* accounts x/bank refuses to credit from a module (the module accounts) *)
  ds_height : Z;
  ds_ghost : table ledger           (* ghost: not in the implementation *)
}.
#[export] Instance eta_ds : Settable _ :=
  settable! mkDS <ds_bank; ds_pending; ds_completed; ds_failed; ds_dists; ds_claims; ds_blocked; ds_height; ds_ghost>.

Definition T_AIRDROP : Z := 1.
Definition T_VALIDATOR_SUBSIDY : Z := 2.
Definition T_LIQUIDITY_MINING : Z := 3.
Definition valid_dist_type (t : Z) : bool := (1 <=? t) && (t <=? 3).       (* IsValidDistributionType *)
Definition valid_claim_type (t : Z) : bool := (t =? 2) || (t =? 3).        (* IsValidClaimType *)
Definition supports_claim (t : Z) : bool := (t =? 2) || (t =? 3).          (* DoesTypeSupportClaim *)

Definition triple_eqb (a b : Z * Z * Z) : bool := key_eqb a b.
Definition pair_eqbZ (a b : Z * Z) : bool := (fst a =? fst b) && (snd a =? snd b).
Definition inb {A} (eqb : A -> A -> bool) (x : A) (l : list A) : bool := existsb (eqb x) l.

Inductive disp_msg :=
| MCreateDist (distributor name typ runner : Z) (outputs : list (Z * coins))   (* name = "<height>_<distributor>" *)
| MRunDist (runner name typ count : Z)
| MCreateClaim (user typ : Z).

Definition signer_of (m : disp_msg) : Z :=
  match m with MCreateDist d _ _ _ _ => d | MRunDist r _ _ _ => r | MCreateClaim u _ => u end.

(* ---------- ghost ledger ---------- *)
Definition empty_ledger := mkLedger [] [] [].
Definition ledger_of (k : rkey) (g : table ledger) : ledger :=
  match rget k g with Some l => l | None => empty_ledger end.
Definition ghost_owe (k : rkey) (cs : coins) (g : table ledger) : table ledger :=
  let l := ledger_of k g in rset k (mkLedger (coins_add (l_owed l) cs) (l_paid l) (l_failed l)) g.
Definition ghost_pay (k : rkey) (cs : coins) (g : table ledger) : table ledger :=
  let l := ledger_of k g in rset k (mkLedger (l_owed l) (coins_add (l_paid l) cs) (l_failed l)) g.
Definition ghost_fail (k : rkey) (cs : coins) (g : table ledger) : table ledger :=
  let l := ledger_of k g in rset k (mkLedger (l_owed l) (l_paid l) (coins_add (l_failed l) cs)) g.

(* ---------- MsgCreateDistribution ---------- *)
Definition total_output (outs : list (Z * coins)) : coins :=                 (* utils.TotalOutput *)
  match outs with
  | [] => []
  | o :: r => fold_left (fun acc o' => coins_add acc (snd o')) r (snd o)
  end.

(* CreateDrops: one output after the other; an existing pending record of the same key is merged into the
   new one (coins added; runner and start height are the new message's) *)
Fixpoint create_drops (s : disp_state) (name typ runner : Z) (outs : list (Z * coins)) : Outcome disp_state :=
  match outs with
  | [] => Ok s
  | (rcp, cs) :: r =>
    let k := (name, typ, rcp) in
    let cs' := match rget k (ds_pending s) with Some old => coins_add cs (r_coins old) | None => cs end in
    (* SetDistributionRecord: Validate *)
    if negb (coins_valid cs' && coins_all_positive cs') then Err 3 else
    let rec_ := mkRec cs' runner (ds_height s) (-1) in
    create_drops (s <| ds_pending := rset k rec_ (ds_pending s) |> <| ds_ghost := ghost_owe k cs (ds_ghost s) |>)
                 name typ runner r
  end.

Definition create_distribution (s : disp_state) (distributor name typ runner : Z) (outs : list (Z * coins))
  : Outcome disp_state :=
  (* VerifyAndSetDistribution *)
  if inb triple_eqb (name, typ, runner) (ds_dists s) then Err 2 else
  let s1 := s <| ds_dists := (name, typ, runner) :: ds_dists s |> in
  (* AccumulateDrops *)
  let '(b, ok) := send_coins (ds_bank s1) distributor DISP_MODULE (total_output outs) in
  if negb ok then Err 4 else
  create_drops (s1 <| ds_bank := b |>) name typ runner outs.

(* ---------- MsgRunDistribution ---------- *)
(* GetLimitedRecordsForRunner: the first [count] pending records, in key order, of this name / runner / type *)
Fixpoint select_records (t : table drec) (name runner typ : Z) (count : nat) : list (rkey * drec) :=
  match count, t with
  | O, _ => []
  | _, [] => []
  | S c, (k, r) :: t' =>
    if (k_name k =? name) && (r_runner r =? runner) && (k_type k =? typ)
    then (k, r) :: select_records t' name runner typ c
    else select_records t' name runner typ count
  end.

Definition del_claim (u t : Z) (cl : list (Z * Z)) : list (Z * Z) :=
  filter (fun c => negb (pair_eqbZ (u, t) c)) cl.

(* one record of DistributeDrops *)
Definition pay_record (s : disp_state) (kr : rkey * drec) : disp_state :=
  let '(k, r) := kr in
  let done := r <| r_done := ds_height s |> in
  if inb Z.eqb (k_rcp k) (ds_blocked s) then
    (* SendCoinsFromModuleToAccount refuses a blocked recipient before touching any balance *)
    s <| ds_failed := rset k done (ds_failed s) |> <| ds_pending := rdel k (ds_pending s) |>
      <| ds_ghost := ghost_fail k (r_coins r) (ds_ghost s) |>
  else
    let '(b, ok) := send_coins (ds_bank s) DISP_MODULE (k_rcp k) (r_coins r) in
    if ok then
      let s1 := s <| ds_bank := b |> <| ds_completed := rset k done (ds_completed s) |>
                  <| ds_pending := rdel k (ds_pending s) |> <| ds_ghost := ghost_pay k (r_coins r) (ds_ghost s) |> in
      if supports_claim (k_type k) then s1 <| ds_claims := del_claim (k_rcp k) (k_type k) (ds_claims s1) |> else s1
    else
      (* the module account cannot pay (excluded by the escrow invariant): the coins already debited stay
         debited, the record is marked failed *)
      s <| ds_bank := b |> <| ds_failed := rset k done (ds_failed s) |> <| ds_pending := rdel k (ds_pending s) |>
        <| ds_ghost := ghost_fail k (r_coins r) (ds_ghost s) |>.

Definition run_distribution (s : disp_state) (runner name typ count : Z) : Outcome disp_state :=
  Ok (fold_left pay_record (select_records (ds_pending s) name runner typ (Z.to_nat count)) s).

(* ---------- MsgCreateUserClaim ---------- *)
Definition create_claim (s : disp_state) (user typ : Z) : Outcome disp_state :=
  if inb pair_eqbZ (user, typ) (ds_claims s) then Err 5 else
  Ok (s <| ds_claims := (user, typ) :: ds_claims s |>).

Definition handle (s : disp_state) (m : disp_msg) : Outcome disp_state :=
  match m with
  | MCreateDist d n t r outs => create_distribution s d n t r outs
  | MRunDist r n t c => run_distribution s r n t c
  | MCreateClaim u t => create_claim s u t
  end.

(* ValidateBasic of the three messages (types/msgs.go); baseapp runs it before the ante handler *)
Definition validate_basic (m : disp_msg) : bool :=
  match m with
  | MCreateDist _ _ t _ outs =>
    valid_dist_type t && negb (match outs with [] => true | _ => false end) && forallb (fun o => coins_valid (snd o)) outs
  | MRunDist _ _ t c => valid_dist_type t && (0 <? c) && (c <=? MAX_RECORDS)
  | MCreateClaim _ t => valid_claim_type t
  end.

(* a delivered transaction: refused outright if ValidateBasic fails; otherwise the ante handler takes the fee and a
   failing message leaves only that *)
Definition deliver (s : disp_state) (fee : Z) (m : disp_msg) : disp_state * bool :=
  if negb (validate_basic m) then (s, false) else
  let s0 := s <| ds_bank := credit (ds_bank s) (signer_of m) 0 (- fee) |> in
  match handle s0 m with
  | Ok s' => (s', true)
  | _ => (s0, false)
  end.
