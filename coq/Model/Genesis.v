(* Genesis export / import of x/clp and x/dispensation (x/clp/genesis.go, x/dispensation/genesis.go) over the
   model's stores.  ExportGenesis lists every store in key order; InitGenesis writes each listed record back with
   the keeper's Set function (SetLiquidityProvider re-bases a LastUpdatedBlock of 0 to the import height;
   SetDistributionRecord files a record under its status prefix).
   Not carried by the format (so not part of [clp_carried]): the block-distribution accumulator, the removal
   queue, the dispensation mint controller (reset on import). *)
From Coq Require Import ZArith List Bool.
From RecordUpdate Require Import RecordUpdate.
From Sif Require Import Base.Outcome Base.Store Base.Bank Model.ClpTypes Model.ClpPolicy Model.Dispensation Model.Margin.
Import ListNotations.
Local Open Scope Z_scope.

(* ---------- stores <-> lists ---------- *)
Definition of_list {V} (l : list (Z * V)) : store V := fold_left (fun m kv => set (fst kv) (snd kv) m) l [].

Definition inner {V} (a : Z) (m : store (store V)) : store V := match get a m with Some i => i | None => [] end.
Definition nset {V} (a k : Z) (v : V) (m : store (store V)) : store (store V) := set a (set k v (inner a m)) m.
Definition flatten {V} (m : store (store V)) : list (Z * (Z * V)) :=
  flat_map (fun kv => map (fun e => (fst kv, e)) (snd kv)) m.
Definition of_flat {V} (f : V -> V) (l : list (Z * (Z * V))) : store (store V) :=
  fold_left (fun m e => nset (fst e) (fst (snd e)) (f (snd (snd e))) m) l [].

(* ---------- x/clp ---------- *)
Record clp_carried := mkCC {
  cc_pools : store pool;
  cc_lps : store (store lprov);
  cc_buckets : store Z;
  cc_rewards : list reward_period;
  cc_lppd : list lppd_period;
  cc_lp : lp_state;
  cc_pmtp : pmtp_state
}.
Record clp_gen := mkCG {
  cg_pools : list (Z * pool);
  cg_lps : list (Z * (Z * lprov));
  cg_buckets : list (Z * Z);
  cg_rewards : list reward_period;
  cg_lppd : list lppd_period;
  cg_lp : lp_state;
  cg_pmtp : pmtp_state
}.
Definition export_clp (c : clp_carried) : clp_gen :=
  mkCG (cc_pools c) (flatten (cc_lps c)) (cc_buckets c) (cc_rewards c) (cc_lppd c) (cc_lp c) (cc_pmtp c).
(* SetLiquidityProvider *)
Definition import_lp (h : Z) (l : lprov) : lprov := if lp_last l =? 0 then l <| lp_last := h |> else l.
Definition import_clp (h : Z) (g : clp_gen) : clp_carried :=
  mkCC (of_list (cg_pools g)) (of_flat (import_lp h) (cg_lps g)) (of_list (cg_buckets g))
       (cg_rewards g) (cg_lppd g) (cg_lp g) (cg_pmtp g).

(* ---------- x/dispensation ---------- *)
Record disp_carried := mkDC {
  dc_pending : table drec; dc_completed : table drec; dc_failed : table drec;
  dc_dists : list (Z * Z * Z); dc_claims : list (Z * Z)
}.
(* a record in the genesis document carries its status: 1 pending, 2 completed, 3 failed *)
Record disp_gen := mkDG { dg_records : list (Z * (rkey * drec)); dg_dists : list (Z * Z * Z); dg_claims : list (Z * Z) }.
Definition export_disp (d : disp_carried) : disp_gen :=
  mkDG (map (fun e => (1, e)) (dc_pending d) ++ map (fun e => (2, e)) (dc_completed d) ++ map (fun e => (3, e)) (dc_failed d))
       (dc_dists d) (dc_claims d).
Definition of_records (st : Z) (l : list (Z * (rkey * drec))) : table drec :=
  fold_left (fun t e => if fst e =? st then rset (fst (snd e)) (snd (snd e)) t else t) l [].
Definition import_disp (g : disp_gen) : disp_carried :=
  mkDC (of_records 1 (dg_records g)) (of_records 2 (dg_records g)) (of_records 3 (dg_records g)) (dg_dists g) (dg_claims g).

(* ---------- x/margin (x/margin/keeper/genesis.go) ---------- *)
(* The document carries the parameters and the open positions (address, id, position). Not carried: the lifetime and the
   open position counter (restored on import from the listed positions, fix F-18), the whitelist (finding F-20). *)
Record margin_carried := mkMC {
  mc_params : mparams; mc_mtps : store (store mtp); mc_count : Z; mc_open : Z; mc_whitelist : list Z
}.
Record margin_gen := mkMG { mg_params : mparams; mg_mtps : list (Z * (Z * mtp)) }.
Definition export_margin (c : margin_carried) : margin_gen := mkMG (mc_params c) (flatten (mc_mtps c)).
(* SetMTP on the fresh store: a listed position with id 0 is given the next id and counted as open *)
Definition import_mtp (acc : store (store mtp) * Z * Z) (e : Z * (Z * mtp)) : store (store mtp) * Z * Z :=
  let '(m, cnt, op) := acc in
  if fst (snd e) =? 0 then (nset (fst e) (cnt + 1) (snd (snd e)) m, cnt + 1, op + 1)
  else (nset (fst e) (fst (snd e)) (snd (snd e)) m, cnt, op).
Definition max_id (l : list (Z * (Z * mtp))) : Z := fold_left Z.max (map (fun e => fst (snd e)) l) 0.
Definition import_margin (g : margin_gen) : margin_carried :=
  let '(m, cnt, op) := fold_left import_mtp (mg_mtps g) ([], 0, 0) in
  match mg_mtps g with
  | [] => mkMC (mg_params g) m cnt op []
  | _ => mkMC (mg_params g) m (Z.max cnt (max_id (mg_mtps g))) (Z.of_nat (length (mg_mtps g))) []
  end.
(* the carried part of a margin state of Model/Margin.v *)
Definition margin_carried_of (s : mstate) : margin_carried :=
  mkMC (ms_params s) (ms_mtps s) (ms_count s) (ms_open s) (ms_whitelist s).
