(* x/margin: positions (MTPs), their bookkeeping on the pool, and the BeginBlocker.
   Statement by statement after keeper.go / msg_server.go / admin_msg_server.go / abci.go / calculations.go.
   Go works on in-memory copies of the pool and of the position and writes them back with SetPool / SetMTP;
   the per-position recover() of the BeginBlocker keeps whatever was written before an error or panic, and the
   shared in-memory pool is written back at the end.  The model therefore threads a context (stored state,
   in-memory pool, in-memory position) that is returned even when a step fails.
   Oracle inputs (supplied by the harness from the real code): the exact rational value of
   float64(interest rate) per pool and of float64(minimum interest rate), and the pool interest rate that
   InterestRateComputation produces in BeginBlock (math.Pow / float parsing are not modelled). *)
From Coq Require Import ZArith QArith List Bool.
From RecordUpdate Require Import RecordUpdate.
From Sif Require Import Base.Outcome Base.SdkMath Base.Store Base.Bank Model.ClpCalc.
Import ListNotations.
Local Open Scope Z_scope.

Definition ROWAN : Z := 0.
Definition CLP_MODULE : Z := 1.

Record mtp := mkMtp {
  m_coll_asset : Z; m_coll_amt : Z; m_liab : Z; m_ipaid_coll : Z; m_ipaid_cust : Z; m_iunpaid : Z;
  m_cust_asset : Z; m_cust_amt : Z; m_lev : Z; m_health : Z
}.
#[export] Instance eta_mtp : Settable _ :=
  settable! mkMtp <m_coll_asset; m_coll_amt; m_liab; m_ipaid_coll; m_ipaid_cust; m_iunpaid; m_cust_asset; m_cust_amt; m_lev; m_health>.

Record mpool := mkMPool {
  q_nb : Z; q_eb : Z; q_nl : Z; q_el : Z; q_nc : Z; q_ec : Z;
  q_un : Z; q_ue : Z;              (* unsettled liabilities *)
  q_bin : Z; q_bie : Z;            (* block interest *)
  q_rate : Z;                      (* InterestRate (Dec) *)
  q_rate_num : Z; q_rate_den : Z   (* oracle: float64(InterestRate) as an exact fraction *)
}.
#[export] Instance eta_mpool : Settable _ :=
  settable! mkMPool <q_nb; q_eb; q_nl; q_el; q_nc; q_ec; q_un; q_ue; q_bin; q_bie; q_rate; q_rate_num; q_rate_den>.

Record mparams := mkMParams {
  mp_lev_max : Z; mp_safety : Z; mp_epoch_len : Z;
  mp_incr : bool; mp_incr_pct : Z; mp_incr_fund : Z;
  mp_fc_pct : Z; mp_fc_fund : Z;
  mp_pools : list Z; mp_closed : list Z;
  mp_whitelisting : bool; mp_max_open : Z; mp_rowan_coll : bool;
  mp_rate_min : Z; mp_rate_min_num : Z; mp_rate_min_den : Z     (* Dec, and float64 of it as a fraction *)
}.

Record mstate := mkMState {
  ms_bank : bank;
  ms_pools : store mpool;
  ms_mtps : store (store mtp);        (* address id -> position id -> position *)
  ms_count : Z; ms_open : Z;
  ms_height : Z;
  ms_params : mparams;
  ms_whitelist : list Z;
  ms_fee_default : Z; ms_fee_tokens : list (Z * Z); ms_pmtp : Z
}.
#[export] Instance eta_mstate : Settable _ :=
  settable! mkMState <ms_bank; ms_pools; ms_mtps; ms_count; ms_open; ms_height; ms_params; ms_whitelist; ms_fee_default; ms_fee_tokens; ms_pmtp>.

(* the context a keeper function works on *)
Record mctx := mkCtx { c_s : mstate; c_pool : mpool; c_mtp : mtp; c_asset : Z; c_addr : Z; c_id : Z }.
#[export] Instance eta_mctx : Settable _ := settable! mkCtx <c_s; c_pool; c_mtp; c_asset; c_addr; c_id>.

Definition PM (A : Type) := mctx -> mctx * Outcome A.
Definition ret {A} (a : A) : PM A := fun c => (c, Ok a).
Definition bindP {A B} (m : PM A) (f : A -> PM B) : PM B :=
  fun c => let '(c', o) := m c in
           match o with Ok a => f a c' | Err e => (c', Err e) | Panic => (c', Panic) end.
Definition lift {A} (o : Outcome A) : PM A := fun c => (c, o).
Definition getc : PM mctx := fun c => (c, Ok c).
Definition modc (f : mctx -> mctx) : PM unit := fun c => (f c, Ok tt).

Declare Scope pm_scope.
Delimit Scope pm_scope with pm.
Notation "x <-- e1 ;; e2" := (bindP e1 (fun x => e2)) (at level 61, e1 at next level, right associativity) : pm_scope.
Notation "e1 ;;; e2" := (bindP e1 (fun _ => e2)) (at level 61, right associativity) : pm_scope.
Local Open Scope pm_scope.

Definition E_M : Z := 1.
Definition E_HEALTHY : Z := 2.       (* types.ErrMTPHealthy *)
Definition failM {A} : PM A := lift (Err E_M).
Definition mem (x : Z) (l : list Z) : bool := existsb (Z.eqb x) l.
Fixpoint assocz (k : Z) (l : list (Z * Z)) : option Z :=
  match l with [] => None | (a, v) :: l' => if a =? k then Some v else assocz k l' end.

(* ---- CLPSwap -> CLPCalcSwap ---- *)
Definition clp_swap (s : mstate) (asset : Z) (sent to : Z) (p : mpool) : Outcome Z :=
  let to_rowan := to =? ROWAN in
  let '(X, Y) := if to_rowan then (q_eb p, q_nb p) else (q_nb p, q_eb p) in
  let from := if to_rowan then asset else ROWAN in
  bind (if to_rowan then uint_add Y (q_nl p) else uint_add Y (q_el p)) (fun Yincl =>
  bind (if to_rowan then uint_add X (q_el p) else uint_add X (q_nl p)) (fun Xincl =>
  let fee := if mem asset (mp_pools (ms_params s)) then ms_fee_default s
             else match assocz from (ms_fee_tokens s) with Some f => f | None => ms_fee_default s end in
  bind (calc_swap_result to_rowan Xincl sent Yincl (ms_pmtp s) fee) (fun r =>
  let res := fst r in
  if Y <=? res then Err E_M else if res =? 0 then Err E_M else Ok res))).

(* UpdateMTPHealth *)
Definition mtp_health (s : mstate) (asset : Z) (m : mtp) (p : mpool) : Outcome Z :=
  if m_liab m =? 0 then Ok 0 else
  bind (if 0 <? m_iunpaid m then uint_add (m_liab m) (m_iunpaid m) else Ok (m_liab m)) (fun xl =>
  bind (clp_swap s asset (m_cust_amt m) (m_coll_asset m) p) (fun C =>
  Dquo (dec_of_int C) (dec_of_int xl))).

(* floor of a non-negative rational times an integer *)
Definition frac_mul_floor (num den x : Z) : Z := Z.quot (num * x) den.

(* CalcMTPInterestLiabilities *)
Definition calc_interest (m : mtp) (p : mpool) (pos len : Z) : Outcome Z :=
  let l := m_liab m + m_iunpaid m in
  let '(n, d) := if 0 <? pos then (q_rate_num p * l * pos, q_rate_den p * len) else (q_rate_num p * l, q_rate_den p) in
  if d =? 0 then Panic else
  bind (ck_uint (Z.quot n d + m_iunpaid m)) (fun i =>
  if (i =? 0) && negb (q_rate p =? 0) then Ok 1 else Ok i).

(* ---- store operations ---- *)
Definition mtps_of (s : mstate) (addr : Z) : store mtp := match get addr (ms_mtps s) with Some m => m | None => [] end.
Definition find_mtp (s : mstate) (addr id : Z) : option mtp := get id (mtps_of s addr).
Definition put_mtp (s : mstate) (addr id : Z) (m : mtp) : mstate :=
  s <| ms_mtps := set addr (set id m (mtps_of s addr)) (ms_mtps s) |>.

(* SetPool(in-memory pool) *)
Definition set_pool : PM unit := modc (fun c => c <| c_s := (c_s c) <| ms_pools := set (c_asset c) (c_pool c) (ms_pools (c_s c)) |> |>).
(* SetMTP(in-memory position): a position without id gets the next one *)
Definition set_mtp : PM unit :=
  modc (fun c =>
    if c_id c =? 0 then
      let s := c_s c in
      let id := ms_count s + 1 in
      c <| c_id := id |> <| c_s := put_mtp (s <| ms_count := id |> <| ms_open := ms_open s + 1 |>) (c_addr c) id (c_mtp c) |>
    else c <| c_s := put_mtp (c_s c) (c_addr c) (c_id c) (c_mtp c) |>).
(* DestroyMTP: the open counter is a uint64 decremented without a check *)
Definition destroy_mtp : PM unit :=
  c <-- getc ;;
  match find_mtp (c_s c) (c_addr c) (c_id c) with
  | None => failM
  | Some _ =>
    modc (fun c => let s := c_s c in
      c <| c_s := s <| ms_mtps := set (c_addr c) (del (c_id c) (mtps_of s (c_addr c))) (ms_mtps s) |>
                    <| ms_open := if ms_open s =? 0 then 18446744073709551615 else ms_open s - 1 |> |>)
  end.
Definition bank_send (from to d x : Z) : PM unit :=
  c <-- getc ;;
  match send (ms_bank (c_s c)) from to d x with
  | Some b => modc (fun c => c <| c_s := (c_s c) <| ms_bank := b |> |>)
  | None => failM
  end.
Definition upd_pool (f : mpool -> Outcome mpool) : PM unit :=
  c <-- getc ;; p <-- lift (f (c_pool c)) ;; modc (fun c => c <| c_pool := p |>).
Definition upd_mtp (f : mtp -> Outcome mtp) : PM unit :=
  c <-- getc ;; m <-- lift (f (c_mtp c)) ;; modc (fun c => c <| c_mtp := m |>).

(* TakeFundPayment *)
Definition take_fund_payment (amount asset pct fund : Z) : PM Z :=
  take <-- lift (bind (Dmul pct (dec_of_int amount)) (fun d => ck_uint (dec_trunc_int d))) ;;
  (if take =? 0 then ret tt else bank_send CLP_MODULE fund asset take) ;;;
  ret take.

(* TakeInCustody / TakeOutCustody *)
Definition take_in_custody : PM unit :=
  c <-- getc ;;
  let m := c_mtp c in
  upd_pool (fun p => if m_cust_asset m =? ROWAN
     then bind (uint_sub (q_nb p) (m_cust_amt m)) (fun b => bind (uint_add (q_nc p) (m_cust_amt m)) (fun cu => Ok (p <| q_nb := b |> <| q_nc := cu |>)))
     else bind (uint_sub (q_eb p) (m_cust_amt m)) (fun b => bind (uint_add (q_ec p) (m_cust_amt m)) (fun cu => Ok (p <| q_eb := b |> <| q_ec := cu |>)))) ;;;
  set_pool.
Definition take_out_custody : PM unit :=
  c <-- getc ;;
  let m := c_mtp c in
  upd_pool (fun p => if m_cust_asset m =? ROWAN
     then bind (uint_sub (q_nc p) (m_cust_amt m)) (fun cu => bind (uint_add (q_nb p) (m_cust_amt m)) (fun b => Ok (p <| q_nc := cu |> <| q_nb := b |>)))
     else bind (uint_sub (q_ec p) (m_cust_amt m)) (fun cu => bind (uint_add (q_eb p) (m_cust_amt m)) (fun b => Ok (p <| q_ec := cu |> <| q_eb := b |>)))) ;;;
  set_pool.

(* IncrementalInterestPayment *)
Definition incremental_interest_payment (interest0 : Z) : PM Z :=
  c <-- getc ;;
  let m := c_mtp c in let s := c_s c in
  interest <-- lift (if 0 <? m_iunpaid m then uint_add interest0 (m_iunpaid m) else Ok interest0) ;;
  ipc <-- lift (clp_swap s (c_asset c) interest (m_cust_asset m) (c_pool c)) ;;
  upd_mtp (fun m => Ok (m <| m_iunpaid := 0 |>)) ;;;
  pr <-- (if m_cust_amt m <? ipc then
            cac <-- lift (clp_swap s (c_asset c) (m_cust_amt m) (m_coll_asset m) (c_pool c)) ;;
            un <-- lift (uint_sub interest cac) ;;
            upd_mtp (fun m => Ok (m <| m_iunpaid := un |>)) ;;;
            ret (cac, m_cust_amt m)
          else ret (interest, ipc)) ;;
  let '(interest, ipc) := pr in
  upd_mtp (fun m => bind (uint_add (m_ipaid_coll m) interest) (fun a => bind (uint_add (m_ipaid_cust m) ipc) (fun b =>
                    bind (uint_sub (m_cust_amt m) ipc) (fun cu => Ok (m <| m_ipaid_coll := a |> <| m_ipaid_cust := b |> <| m_cust_amt := cu |>))))) ;;;
  take <-- take_fund_payment ipc (m_cust_asset m) (mp_incr_pct (ms_params s)) (mp_incr_fund (ms_params s)) ;;
  actual <-- lift (uint_sub ipc take) ;;
  upd_pool (fun p => if m_cust_asset m =? ROWAN
     then bind (uint_sub (q_nc p) ipc) (fun cu => bind (uint_add (q_nb p) actual) (fun b => Ok (p <| q_nc := cu |> <| q_nb := b |>)))
     else bind (uint_sub (q_ec p) ipc) (fun cu => bind (uint_add (q_eb p) actual) (fun b => Ok (p <| q_ec := cu |> <| q_eb := b |>)))) ;;;
  set_mtp ;;; set_pool ;;; ret actual.

(* HandleInterestPayment: an error of the incremental payment is logged, what it changed in memory stays *)
Definition handle_interest_payment (interest : Z) : PM Z :=
  c <-- getc ;;
  if mp_incr (ms_params (c_s c)) then
    fun c0 => let '(c1, o) := incremental_interest_payment interest c0 in
              match o with Ok a => (c1, Ok a) | Err _ => (c1, Ok 0) | Panic => (c1, Panic) end
  else upd_mtp (fun m => Ok (m <| m_iunpaid := interest |>)) ;;; ret 0.

Definition add_block_interest (fin : Z) : PM unit :=
  c <-- getc ;;
  upd_pool (fun p => if m_coll_asset (c_mtp c) =? ROWAN
                     then bind (uint_add (q_bie p) fin) (fun x => Ok (p <| q_bie := x |>))
                     else bind (uint_add (q_bin p) fin) (fun x => Ok (p <| q_bin := x |>))).

(* Repay *)
Definition repay (repay_amount : Z) (take_fund : bool) : PM unit :=
  c <-- getc ;;
  let m0 := c_mtp c in let s := c_s c in
  h <-- lift (mtp_health s (c_asset c) m0 (c_pool c)) ;;
  upd_mtp (fun m => Ok (m <| m_health := h |>)) ;;;
  let L := m_liab m0 in let U := m_iunpaid m0 in
  owe <-- lift (uint_add L U) ;;
  tr <-- lift (if repay_amount <? L then bind (uint_sub L repay_amount) (fun dp => Ok (0, dp, U))
               else if repay_amount <? owe then bind (uint_sub owe repay_amount) (fun di => Ok (0, 0, di))
               else bind (uint_sub repay_amount L) (fun x => bind (uint_sub x U) (fun r => Ok (r, 0, 0)))) ;;
  let '(ret_amt, debtP, debtI) := tr in
  (if ret_amt =? 0 then ret tt else
     actual <-- (if take_fund then
                   take <-- take_fund_payment ret_amt (m_coll_asset m0) (mp_fc_pct (ms_params s)) (mp_fc_fund (ms_params s)) ;;
                   lift (uint_sub ret_amt take)
                 else ret ret_amt) ;;
     if actual =? 0 then ret tt else bank_send CLP_MODULE (c_addr c) (m_coll_asset m0) actual) ;;;
  upd_pool (fun p => if m_coll_asset m0 =? ROWAN
     then bind (uint_sub (q_nb p) ret_amt) (fun b => bind (uint_sub (q_nl p) L) (fun l => bind (uint_add (q_un p) debtI) (fun u1 => bind (uint_add u1 debtP) (fun u2 =>
          Ok (p <| q_nb := b |> <| q_nl := l |> <| q_un := u2 |>)))))
     else bind (uint_sub (q_eb p) ret_amt) (fun b => bind (uint_sub (q_el p) L) (fun l => bind (uint_add (q_ue p) debtI) (fun u1 => bind (uint_add u1 debtP) (fun u2 =>
          Ok (p <| q_eb := b |> <| q_el := l |> <| q_ue := u2 |>)))))) ;;;
  destroy_mtp ;;; set_pool.

Definition epoch_position (s : mstate) : Z :=
  let len := if mp_epoch_len (ms_params s) <=? 0 then 1 else mp_epoch_len (ms_params s) in
  Z.rem (ms_height s) len.

(* the prorated interest step shared by CloseLong and ForceCloseLong *)
Definition mid_epoch_interest : PM unit :=
  c <-- getc ;;
  let pos := epoch_position (c_s c) in
  if 0 <? pos then
    i <-- lift (calc_interest (c_mtp c) (c_pool c) pos (mp_epoch_len (ms_params (c_s c)))) ;;
    fin <-- handle_interest_payment i ;;
    add_block_interest fin ;;;
    c1 <-- getc ;;
    h <-- lift (mtp_health (c_s c1) (c_asset c1) (c_mtp c1) (c_pool c1)) ;;
    upd_mtp (fun m => Ok (m <| m_health := h |>))
  else ret tt.

(* ForceCloseLong *)
(* returns the repay amount and the health the decision was taken on *)
Definition force_close_long (is_admin take_fund : bool) : PM (Z * Z) :=
  mid_epoch_interest ;;;
  c <-- getc ;;
  if negb is_admin && (mp_safety (ms_params (c_s c)) <? m_health (c_mtp c)) then lift (Err E_HEALTHY) else
  take_out_custody ;;;
  c1 <-- getc ;;
  r <-- lift (clp_swap (c_s c1) (c_asset c1) (m_cust_amt (c_mtp c1)) (m_coll_asset (c_mtp c1)) (c_pool c1)) ;;
  repay r take_fund ;;; ret (r, m_health (c_mtp c)).

(* CloseLong (msg_server.go) *)
Definition close_long : PM Z :=
  mid_epoch_interest ;;;
  take_out_custody ;;;
  c1 <-- getc ;;
  r <-- lift (clp_swap (c_s c1) (c_asset c1) (m_cust_amt (c_mtp c1)) (m_coll_asset (c_mtp c1)) (c_pool c1)) ;;
  repay r false ;;; ret r.

(* Borrow *)
Definition borrow_fn (coll_amt cust_amt eta : Z) : PM unit :=
  c <-- getc ;;
  let m0 := c_mtp c in
  (if bal (ms_bank (c_s c)) (c_addr c) (m_coll_asset m0) <? coll_amt then failM else ret tt) ;;;
  liab_add <-- lift (bind (Dmul (dec_of_int coll_amt) eta) (fun d => ck_uint (dec_trunc_int d))) ;;
  upd_mtp (fun m => bind (uint_add (m_coll_amt m) coll_amt) (fun a => bind (uint_add (m_liab m) liab_add) (fun l =>
                    bind (uint_add (m_cust_amt m) cust_amt) (fun cu => Ok (m <| m_coll_amt := a |> <| m_liab := l |> <| m_cust_amt := cu |> <| m_lev := eta + PREC |>))))) ;;;
  c1 <-- getc ;;
  h <-- lift (mtp_health (c_s c1) (c_asset c1) (c_mtp c1) (c_pool c1)) ;;
  upd_mtp (fun m => Ok (m <| m_health := h |>)) ;;;
  bank_send (c_addr c) CLP_MODULE (m_coll_asset m0) coll_amt ;;;
  c2 <-- getc ;;
  upd_pool (fun p => if m_coll_asset m0 =? ROWAN
     then bind (uint_add (q_nb p) coll_amt) (fun b => bind (uint_add (q_nl p) (m_liab (c_mtp c2))) (fun l => Ok (p <| q_nb := b |> <| q_nl := l |>)))
     else bind (uint_add (q_eb p) coll_amt) (fun b => bind (uint_add (q_el p) (m_liab (c_mtp c2))) (fun l => Ok (p <| q_eb := b |> <| q_el := l |>)))) ;;;
  set_pool ;;; set_mtp.

(* CheckMinLiabilities *)
Definition check_min_liabilities (s : mstate) (asset coll_amt eta : Z) (p : mpool) (cust_asset : Z) : Outcome unit :=
  bind (bind (Dmul (dec_of_int coll_amt) eta) (fun d => ck_uint (dec_trunc_int d))) (fun liab =>
  let ps := ms_params s in
  if mp_rate_min_den ps =? 0 then Panic else
  bind (ck_uint (frac_mul_floor (mp_rate_min_num ps) (mp_rate_min_den ps) liab)) (fun sample =>
  if (sample =? 0) && negb (mp_rate_min ps =? 0) then Err E_M else
  match clp_swap s asset sample cust_asset p with Ok _ => Ok tt | Err _ => Err E_M | Panic => Panic end)).

(* ---- messages ---- *)
Inductive margin_msg :=
| MOpen (signer coll_asset borrow_asset coll_amt leverage : Z)
| MClose (signer id : Z)
| MAdminClose (is_margin_admin : bool) (signer addr id : Z) (take_fund : bool).

Definition new_mtp (coll borrow lev : Z) : mtp := mkMtp coll 0 0 0 0 0 borrow 0 lev 0.
Definition dummy_pool : mpool := mkMPool 0 0 0 0 0 0 0 0 0 0 0 0 1.

(* Open -> OpenLong.  pool health / open threshold gate: the pool health is an oracle bit of the pre-state *)
Definition open_msg (s : mstate) (health_low : bool) (signer coll borrow coll_amt lev_msg : Z) : mctx * Outcome unit :=
  let ps := ms_params s in
  let asset := if coll =? ROWAN then borrow else coll in
  let c0 := mkCtx s dummy_pool (new_mtp coll borrow lev_msg) asset signer 0 in
  if mp_whitelisting ps && negb (mem signer (ms_whitelist s)) then (c0, Err E_M) else
  if mp_max_open ps <=? ms_open s then (c0, Err E_M) else
  match get asset (ms_pools s) with
  | None => (c0, Err E_M)
  | Some pool =>
    if negb (mem asset (mp_pools ps)) || mem asset (mp_closed ps) then (c0, Err E_M) else
    if health_low then (c0, Err E_M) else
    (* exactly one of the two assets is the native token (fix of finding F-17) *)
    if Bool.eqb (coll =? ROWAN) (borrow =? ROWAN) then (c0, Err E_M) else
    let lev := Z.min lev_msg (mp_lev_max ps) in
    let eta := lev - PREC in
    let c1 := mkCtx s pool (new_mtp coll borrow lev) asset signer 0 in
    (if negb (mp_rowan_coll ps) && (coll =? ROWAN) then failM else
     lamt <-- lift (bind (Dmul (dec_of_int coll_amt) lev) (fun d => ck_uint (dec_trunc_int d))) ;;
     (if (if coll =? ROWAN then q_nb pool else q_eb pool) <? lamt then failM else ret tt) ;;;
     lift (check_min_liabilities s asset coll_amt eta pool borrow) ;;;
     cust <-- lift (clp_swap s asset lamt borrow pool) ;;
     (if (if coll =? ROWAN then q_eb pool else q_nb pool) <? cust then failM else ret tt) ;;;
     borrow_fn coll_amt cust eta ;;;
     set_pool ;;;                       (* UpdatePoolHealth: the health field is not modelled *)
     take_in_custody ;;;
     c2 <-- getc ;;
     lr <-- lift (mtp_health (c_s c2) asset (c_mtp c2) (c_pool c2)) ;;
     if lr <=? mp_safety ps then failM else ret tt) c1
  end.

Definition pool_asset_of (m : mtp) : Z := if m_coll_asset m =? ROWAN then m_cust_asset m else m_coll_asset m.

Definition close_msg (s : mstate) (signer id : Z) : mctx * Outcome Z :=
  let c0 := mkCtx s dummy_pool (new_mtp 0 0 0) 0 signer id in
  match find_mtp s signer id with
  | None => (c0, Err E_M)
  | Some m =>
    let asset := pool_asset_of m in
    match get asset (ms_pools s) with
    | None => (c0, Err E_M)
    | Some pool => close_long (mkCtx s pool m asset signer id)
    end
  end.

Definition admin_close_msg (s : mstate) (is_admin : bool) (addr id : Z) (take_fund : bool) : mctx * Outcome (Z * Z) :=
  let c0 := mkCtx s dummy_pool (new_mtp 0 0 0) 0 addr id in
  if negb is_admin then (c0, Err E_M) else
  match find_mtp s addr id with
  | None => (c0, Err E_M)
  | Some m =>
    let asset := pool_asset_of m in
    match get asset (ms_pools s) with
    | None => (c0, Err E_M)
    | Some pool => force_close_long true take_fund (mkCtx s pool m asset addr id)
    end
  end.

(* a delivered transaction keeps its writes only on success (baseapp) *)
Definition deliver_margin (s : mstate) (fee : Z) (health_low : bool) (m : margin_msg) : mstate * bool :=
  let signer := match m with MOpen sg _ _ _ _ => sg | MClose sg _ => sg | MAdminClose _ sg _ _ _ => sg end in
  let s0 := s <| ms_bank := credit (ms_bank s) signer ROWAN (- fee) |> in
  let r := match m with
           | MOpen sg c b a l => let '(c', o) := open_msg s0 health_low sg c b a l in (c', match o with Ok _ => true | _ => false end)
           | MClose sg id => let '(c', o) := close_msg s0 sg id in (c', match o with Ok _ => true | _ => false end)
           | MAdminClose adm sg addr id tf => let '(c', o) := admin_close_msg s0 adm addr id tf in (c', match o with Ok _ => true | _ => false end)
           end in
  if snd r then (c_s (fst r), true) else (s0, false).

(* ---- BeginBlocker ---- *)
(* BeginBlockerProcessMTP (after the fix of finding F-9): a position is processed atomically. The interest part
   (health, interest payment, SetMTP) is kept only if it completes; the liquidation that follows is kept only
   if ForceCloseLong succeeds; a panic anywhere (recover()) keeps nothing, neither in the store nor in the
   in-memory pool shared with the positions processed afterwards. *)
Definition process_interest : PM unit :=
  c <-- getc ;;
  h <-- lift (mtp_health (c_s c) (c_asset c) (c_mtp c) (c_pool c)) ;;
  upd_mtp (fun m => Ok (m <| m_health := h |>)) ;;;
  c1 <-- getc ;;
  i <-- lift (calc_interest (c_mtp c1) (c_pool c1) 0 0) ;;
  fin <-- handle_interest_payment i ;;
  add_block_interest fin ;;;
  set_mtp.

Definition process_mtp : PM Z :=
  fun c =>
    match process_interest c with
    | (cA, Ok _) =>
      match force_close_long false true cA with
      | (cF, Ok r) => (cF, Ok (snd r))
      | (_, Err e) => (cA, Err e)
      | (_, Panic) => (c, Panic)
      end
    | (_, Err e) => (c, Err e)
    | (_, Panic) => (c, Panic)
    end.

Definition all_mtps (s : mstate) : list (Z * Z * mtp) :=
  concat (map (fun am => map (fun im => (fst am, fst im, snd im)) (snd am)) (ms_mtps s)).

(* one pool of the BeginBlocker loop; new_rate = (Dec, num, den) computed by InterestRateComputation (oracle).
   returns the state and the positions closed (address, id, health at the decision) *)
Definition begin_block_pool (s : mstate) (asset : Z) (pool : mpool) (new_rate : Z * Z * Z) : Outcome (mstate * list (Z * Z * Z)) :=
  let p0 := pool <| q_bin := 0 |> <| q_bie := 0 |> in
  if negb (mem asset (mp_pools (ms_params s))) then
    Ok (s <| ms_pools := set asset p0 (ms_pools s) |>, [])
  else
    (* InterestRateComputation divides by both balances: with an empty side it returns an error (fix F-7), the error is
       logged and the loop goes on to the next pool without storing this one *)
    if (q_nb p0 =? 0) || (q_eb p0 =? 0) then Ok (s, []) else
    let '(r, rn, rd) := new_rate in
    let p1 := p0 <| q_rate := r |> <| q_rate_num := rn |> <| q_rate_den := rd |> in
    let s1 := s <| ms_pools := set asset p1 (ms_pools s) |> in
    let ms := filter (fun t => let '(_, _, m) := t in (m_cust_asset m =? asset) || (m_coll_asset m =? asset)) (all_mtps s1) in
    let '(s2, p2, closed) :=
      fold_left (fun acc t =>
         let '(st, p, closed) := acc in
         let '(addr, id, m) := t in
         let '(c', o) := process_mtp (mkCtx st p m asset addr id) in
         (c_s c', c_pool c', match o with Ok h => closed ++ [(addr, id, h)] | _ => closed end))
        ms (s1, p1, []) in
    Ok (s2 <| ms_pools := set asset p2 (ms_pools s2) |>, closed).

Fixpoint begin_block_pools (s : mstate) (assets : list Z) (rates : list (Z * Z * Z)) (closed : list (Z * Z * Z))
  : Outcome (mstate * list (Z * Z * Z)) :=
  match assets with
  | [] => Ok (s, closed)
  | a :: rest =>
    match get a (ms_pools s) with
    | None => begin_block_pools s rest (tl rates) closed
    | Some p =>
      bind (begin_block_pool s a p (hd (0, 0, 1) rates)) (fun r =>
      begin_block_pools (fst r) rest (tl rates) (closed ++ snd r))
    end
  end.

Definition begin_block_margin (s : mstate) (rates : list (Z * Z * Z)) : Outcome (mstate * list (Z * Z * Z)) :=
  if epoch_position s =? 0 then begin_block_pools s (map fst (ms_pools s)) rates [] else Ok (s, []).
