(* x/dispensation/abci.go BeginBlocker + keeper/mint_controller.go, statement by statement. *)
From Coq Require Import ZArith List Bool.
From Sif Require Import Base.Outcome.
Import ListNotations.
Local Open Scope Z_scope.

(* The two constants are regenerated from x/dispensation/types/keys.go into Gen/Consts.v;
   Props/C20.v proves the generated values equal these. *)
Definition MAX_MINT : Z := 350000000000000000000000000.
Definition MINT_PER_BLOCK : Z := 225000000000000000000.

Record mstate := {
  m_found : bool;      (* a mint controller record exists *)
  m_counter : Z;       (* controller.TotalCounter.Amount *)
  m_eco : Z;           (* rowan balance of the ecosystem-pool address *)
  m_module : Z;        (* rowan balance of the dispensation module account *)
  m_supply : Z;        (* rowan supply *)
  m_eco_blocked : bool (* SendCoinsFromModuleToAccount to the eco pool would be refused *)
}.

Definition tokens_can_be_minted (s : mstate) : bool :=
  m_found s && (m_counter s <? MAX_MINT).
Definition is_last_block (s : mstate) : bool :=
  m_found s && (MAX_MINT - m_counter s <=? MINT_PER_BLOCK).

(* returns the new state and the amount minted in this block *)
Definition begin_block (s : mstate) : mstate * Z :=
  if negb (tokens_can_be_minted s) then (s, 0) else
  let amt := if is_last_block s then MAX_MINT - m_counter s else MINT_PER_BLOCK in
  (* sdk.NewCoins drops zero coins: Len() != 1 => return.  (amt < 0 cannot happen here.) *)
  if amt <=? 0 then (s, 0) else
  let s1 := {| m_found := m_found s; m_counter := m_counter s; m_eco := m_eco s;
               m_module := m_module s + amt; m_supply := m_supply s + amt;
               m_eco_blocked := m_eco_blocked s |} in
  let s2 := if m_eco_blocked s1 then s1 else
            {| m_found := m_found s1; m_counter := m_counter s1; m_eco := m_eco s1 + amt;
               m_module := m_module s1 - amt; m_supply := m_supply s1;
               m_eco_blocked := m_eco_blocked s1 |} in
  (* AddMintAmount is executed whether or not the send succeeded *)
  ({| m_found := m_found s2; m_counter := m_counter s2 + amt; m_eco := m_eco s2;
      m_module := m_module s2; m_supply := m_supply s2; m_eco_blocked := m_eco_blocked s2 |}, amt).

Fixpoint run (n : nat) (s : mstate) : mstate * Z :=
  match n with
  | O => (s, 0)
  | S n' => let '(s1, a) := begin_block s in
            let '(s2, b) := run n' s1 in (s2, a + b)
  end.

(* observables compared with the implementation *)
Definition obs (s : mstate) : list Z := [m_counter s; m_eco s; m_module s; m_supply s].

Fixpoint trace (n : nat) (s : mstate) : list (list Z) :=
  match n with
  | O => []
  | S n' => let s1 := fst (begin_block s) in obs s1 :: trace n' s1
  end.
