(* x/ibctransfer/keeper/msg_server.go Transfer: the token-registry gate in front of ibc-go. *)
From Coq Require Import ZArith List Bool.
From Sif Require Import Base.Outcome Model.ClpTypes Model.ClpMsgs.
Import ListNotations.
Local Open Scope Z_scope.

(* registry entry as seen by the gate: permission bits and whether unit_denom is set to another denom *)
Record reg_entry_x := mkRE { re_bits : Z; re_alias : bool }.

Fixpoint reg_lookup (d : Z) (reg : list (Z * reg_entry_x)) : option reg_entry_x :=
  match reg with
  | [] => None
  | (k, e) :: rest => if k =? d then Some e else reg_lookup d rest
  end.

(* true = the message is handed to ibc-go's transfer; false = refused by the gate *)
Definition transfer_gate (reg : list (Z * reg_entry_x)) (denom amount : Z) : bool :=
  match reg_lookup denom reg with
  | None => false
  | Some e => negb (re_alias e) && has_perm (re_bits e) PERM_IBCEXPORT && (0 <? amount)
  end.

(* x/tokenregistry/keeper: the registry is one list; SetToken (MsgRegister) replaces the first entry of the denom or appends,
   RemoveToken (MsgDeregister) drops every entry of the denom, GetEntry returns the first entry of the denom *)
Section Edits.
Context {E : Type}.
Fixpoint lookup (d : Z) (reg : list (Z * E)) : option E :=
  match reg with [] => None | (k, e) :: rest => if k =? d then Some e else lookup d rest end.
Fixpoint set_token (d : Z) (e : E) (reg : list (Z * E)) : list (Z * E) :=
  match reg with
  | [] => [(d, e)]
  | (k, x) :: rest => if k =? d then (d, e) :: rest else (k, x) :: set_token d e rest
  end.
Definition remove_token (d : Z) (reg : list (Z * E)) : list (Z * E) := filter (fun kv => negb (fst kv =? d)) reg.
(* MsgSetRegistry: the list of the message, whatever its length, replaces the stored one *)
Definition set_registry (new old : list (Z * E)) : list (Z * E) := new.
End Edits.
