(* cmd/ebrelayer/txs/parser.go: translation of bridge events in both directions.
   Strings are lists of bytes.  Modelled for ASCII symbols and canonical decimal numbers (what the chain and
   the bridge contract emit); bech32 decoding of the recipient is an input (valid / invalid). *)
From Coq Require Import ZArith List Bool.
Import ListNotations.
Local Open Scope Z_scope.

Definition str := list Z.

Fixpoint str_eqb (a b : str) : bool :=
  match a, b with
  | [], [] => true
  | x :: a', y :: b' => (x =? y) && str_eqb a' b'
  | _, _ => false
  end.

(* strings.ToLower on ASCII *)
Definition lower_byte (b : Z) : Z := if (65 <=? b) && (b <=? 90) then b + 32 else b.
Definition to_lower (s : str) : str := map lower_byte s.

Definition PREFIX_C : Z := 99.   (* "c", the pegged-coin prefix *)

(* symbol table (sifchain denom, ethereum symbol); a miss returns the argument *)
Definition sym_table := list (str * str).
Fixpoint sif_to_eth (t : sym_table) (s : str) : str :=
  match t with [] => s | (a, b) :: r => if str_eqb a s then b else sif_to_eth r s end.
Fixpoint eth_to_sif (t : sym_table) (s : str) : str :=
  match t with [] => s | (a, b) :: r => if str_eqb b s then a else eth_to_sif r s end.

(* the symbol of a burn: exactly the leading prefix removed; no leading prefix = rejected *)
Definition burn_symbol (v : str) : option str :=
  match v with c :: rest => if c =? PREFIX_C then Some rest else None | [] => None end.

(* ---------- numbers and addresses ---------- *)
Definition is_digit (b : Z) : bool := (48 <=? b) && (b <=? 57).
Fixpoint digits_val (acc : Z) (s : str) : option Z :=
  match s with
  | [] => Some acc
  | d :: r => if is_digit d then digits_val (acc * 10 + (d - 48)) r else None
  end.
(* big.Int.SetString(s, 10): optional sign, at least one digit *)
Definition parse_dec (s : str) : option Z :=
  match s with
  | [] => None
  | 45 :: r => match r with [] => None | _ => option_map Z.opp (digits_val 0 r) end
  | 43 :: r => match r with [] => None | _ => digits_val 0 r end
  | _ => digits_val 0 s
  end.

Definition hex_val (b : Z) : option Z :=
  if is_digit b then Some (b - 48)
  else if (97 <=? b) && (b <=? 102) then Some (b - 87)
  else if (65 <=? b) && (b <=? 70) then Some (b - 55) else None.
Fixpoint hex_bytes (s : str) : option (list Z) :=
  match s with
  | [] => Some []
  | h :: l :: r =>
    match hex_val h, hex_val l, hex_bytes r with
    | Some a, Some b, Some t => Some ((a * 16 + b) :: t)
    | _, _, _ => None
    end
  | _ => None
  end.
(* common.IsHexAddress + HexToAddress: optional 0x / 0X, exactly 40 hex digits *)
Definition parse_address (s : str) : option (list Z) :=
  let body := match s with 48 :: x :: r => if (x =? 120) || (x =? 88) then r else s | _ => s end in
  if Z.of_nat (length body) =? 40 then hex_bytes body else None.

(* ---------- (A) Sifchain burn / lock event -> message for Ethereum ---------- *)
(* attribute keys: 1 cosmos_sender, 2 cosmos_sender_sequence, 3 ethereum_receiver, 4 symbol, 5 amount, 0 other *)
Record cosmos_msg := mkCM {
  cm_sender : str; cm_sequence : option Z; cm_receiver : list Z; cm_symbol : str; cm_amount : option Z
}.
Record acc := mkAcc {
  a_sender : option str; a_seq : option Z; a_recv : option (list Z); a_sym : option str; a_amt : option Z
}.
Definition acc0 := mkAcc None None None None None.

(* one attribute; None = the parser returns an error *)
Definition step (burn : bool) (t : sym_table) (a : acc) (kv : Z * str) : option acc :=
  let '(k, v) := kv in
  if k =? 1 then Some (mkAcc (Some v) (a_seq a) (a_recv a) (a_sym a) (a_amt a))
  else if k =? 2 then match parse_dec v with Some n => Some (mkAcc (a_sender a) (Some n) (a_recv a) (a_sym a) (a_amt a)) | None => None end
  else if k =? 3 then match parse_address v with Some r => Some (mkAcc (a_sender a) (a_seq a) (Some r) (a_sym a) (a_amt a)) | None => None end
  else if k =? 4 then
    (if burn then match burn_symbol v with Some s => Some (mkAcc (a_sender a) (a_seq a) (a_recv a) (Some s) (a_amt a)) | None => None end
     else Some (mkAcc (a_sender a) (a_seq a) (a_recv a) (Some (sif_to_eth t v)) (a_amt a)))
  else if k =? 5 then match parse_dec v with Some n => Some (mkAcc (a_sender a) (a_seq a) (a_recv a) (a_sym a) (Some n)) | None => None end
  else Some a.

Fixpoint run_attrs (burn : bool) (t : sym_table) (a : acc) (l : list (Z * str)) : option acc :=
  match l with
  | [] => Some a
  | kv :: r => match step burn t a kv with Some a' => run_attrs burn t a' r | None => None end
  end.

(* all five attributes must have been seen *)
Definition finish (a : acc) : option cosmos_msg :=
  match a_sender a, a_seq a, a_recv a, a_sym a, a_amt a with
  | Some s, Some q, Some r, Some y, Some m => Some (mkCM s (Some q) r y (Some m))
  | _, _, _, _, _ => None
  end.

Definition burn_lock_to_msg (burn : bool) (t : sym_table) (attrs : list (Z * str)) : option cosmos_msg :=
  match run_attrs burn t acc0 attrs with Some a => finish a | None => None end.

(* ---------- (B) Ethereum event -> claim ---------- *)
Record eth_event := mkEv {
  ev_burn : bool; ev_chain : Z; ev_nonce : Z; ev_from : list Z; ev_token : list Z; ev_symbol : str; ev_value : Z;
  ev_recipient_valid : bool
}.
Record claim := mkCl { cl_chain : Z; cl_nonce : Z; cl_sender : list Z; cl_token : list Z; cl_symbol : str; cl_amount : Z; cl_burn : bool }.

(* big.Int.Int64 of a non-negative value: the low 64 bits, read as signed *)
Definition wrap64 (z : Z) : Z := let m := z mod 2 ^ 64 in if m <? 2 ^ 63 then m else m - 2 ^ 64.
Definition is_zero_addr (a : list Z) : bool := forallb (Z.eqb 0) a.
Definition ETH : str := [101; 116; 104].

Definition event_to_claim (t : sym_table) (e : eth_event) : option claim :=
  if negb (ev_recipient_valid e) then None else
  let sym := if ev_burn e then eth_to_sif t (ev_symbol e) else to_lower (ev_symbol e) in
  if negb (ev_burn e) && str_eqb sym ETH && negb (is_zero_addr (ev_token e)) then None else
  Some (mkCl (wrap64 (ev_chain e)) (wrap64 (ev_nonce e)) (ev_from e) (ev_token e) sym (ev_value e) (ev_burn e)).

(* the claim identity used by the oracle: decimal chain id, decimal nonce and the sender, concatenated
   (x/ethbridge/types/claim.go CreateOracleClaimFromEthClaim); [fmt] is strconv.FormatInt, [hex] the 42-character
   rendering of the sender *)
Definition oracle_id (fmt : Z -> str) (hex : list Z -> str) (c : claim) : str :=
  fmt (cl_chain c) ++ fmt (cl_nonce c) ++ hex (cl_sender c).
