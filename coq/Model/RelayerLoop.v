(* cmd/ebrelayer/relayer/ethereum.go, EthereumSub.Start: the scanning loop, as a machine that can be killed
   between any two of its externally visible actions.
   pc Idle: waiting for a header.  Header n: ending = n - 50 (skip if negative); an in-memory cursor of 0 is replaced
   by ending; eth_getLogs [cursor, ending] (a failure keeps everything: continue); no burn/lock events: the cursor is
   persisted at once; otherwise the events are handed to submission (pc Fetched -> Handed), the relayer sleeps 10 s,
   and only then ending + 1 is written to LevelDB and becomes the in-memory cursor.
   A kill loses pc and the in-memory cursor; a restart reads the cursor back from LevelDB (0 if there is none). *)
From Coq Require Import ZArith List Bool.
Import ListNotations.
Local Open Scope Z_scope.

Definition TRAILING : Z := 50.

Section Loop.
(* the Ethereum chain: the burn/lock events (ids) of every block *)
Variable ev : Z -> list Z.

Inductive pc_t :=
| Idle
| Fetched (from to : Z) (events : list (Z * Z))    (* logs received and decoded, not yet handed over *)
| Handed (to : Z).                                  (* claims broadcast, cursor not yet written *)

Record rstate := mkR {
  r_pc : pc_t;
  r_cursor : Z;                 (* lastProcessedBlock, in memory *)
  r_persisted : Z;              (* LevelDB ethereumLastProcessedBlock; 0 = absent *)
  r_submitted : list (Z * Z);   (* (block, event) handed to submission so far, all runs *)
  r_maxhead : Z;                (* newest header number seen *)
  r_lo : Z                      (* ghost: first block of the scan the persisted cursor belongs to; 0 = none *)
}.

(* blocks from, from+1, ..., to (none if from > to), by fuel *)
Fixpoint range_fuel (fuel : nat) (from to : Z) : list Z :=
  match fuel with
  | O => []
  | S f => if to <? from then [] else from :: range_fuel f (from + 1) to
  end.
Definition range (from to : Z) : list Z := range_fuel (Z.to_nat (to - from + 1)) from to.

Definition events_in (from to : Z) : list (Z * Z) :=
  concat (map (fun b => map (fun e => (b, e)) (ev b)) (range from to)).

Inductive input :=
| Head (n : Z) (query_ok : bool)     (* a new header; does the log query succeed *)
| Tick                                (* the next internal action of the current iteration *)
| Kill.                               (* SIGKILL + restart *)

Definition init : rstate := mkR Idle 0 0 [] 0 0.

Definition step (s : rstate) (i : input) : rstate :=
  match i with
  | Kill =>
    mkR Idle (r_persisted s) (r_persisted s) (r_submitted s) (r_maxhead s) (if r_persisted s =? 0 then 0 else r_lo s)
  | Head n ok =>
    match r_pc s with
    | Idle =>
      let mh := Z.max (r_maxhead s) n in
      let ending := n - TRAILING in
      if ending <? 0 then mkR Idle (r_cursor s) (r_persisted s) (r_submitted s) mh (r_lo s) else
      let cur := if r_cursor s =? 0 then ending else r_cursor s in
      let lo := if r_cursor s =? 0 then ending else r_lo s in
      if negb ok then mkR Idle cur (r_persisted s) (r_submitted s) mh lo else
      match events_in cur ending with
      | [] => mkR Idle (ending + 1) (ending + 1) (r_submitted s) mh lo
      | evs => mkR (Fetched cur ending evs) cur (r_persisted s) (r_submitted s) mh lo
      end
    | _ => s      (* headers wait in the channel while an iteration is in progress *)
    end
  | Tick =>
    match r_pc s with
    | Idle => s
    | Fetched from to evs => mkR (Handed to) (r_cursor s) (r_persisted s) (r_submitted s ++ evs) (r_maxhead s) (r_lo s)
    | Handed to => mkR Idle (to + 1) (to + 1) (r_submitted s) (r_maxhead s) (r_lo s)
    end
  end.

Definition run (s : rstate) (is : list input) : rstate := fold_left step is s.

End Loop.

(* handleEthereumEvent: the loop hands it all the burn / lock events of the range (and then sleeps, and writes the cursor,
   whenever the range held at least one such event); it turns each event into a claim, logs and leaves out an event whose
   fields txs.EthereumEventToEthBridgeClaim refuses, goes on with the next one, and broadcasts the claims in one
   transaction. [r_submitted] is what was handed over; the claims that reach Sifchain are its translatable members, in
   their order *)
Definition handle_events (tr : Z -> bool) (evs : list (Z * Z)) : list (Z * Z) := filter (fun be => tr (snd be)) evs.
