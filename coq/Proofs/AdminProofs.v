From Coq Require Import ZArith List Bool String Lia.
From Sif Require Import Base.Outcome Model.Admin.
Import ListNotations.
Local Open Scope Z_scope.

Lemma role_eqb_refl r : role_eqb r r = true. Proof. destruct r; reflexivity. Qed.
Lemma role_eqb_eq a b : role_eqb a b = true -> a = b. Proof. destruct a, b; cbn; congruence. Qed.

Section Handler.
  Variable St Payload : Type.
  Variable effect : St -> Payload -> Outcome St.

  (* a privileged message from a signer that does not hold the matching role is rejected, state unchanged *)
  Lemma reject au st idx signer p r :
    required_role idx = Some r -> holds au r signer = false ->
    handle_priv St Payload effect au st idx signer p = Err 1 /\
    deliver_priv St Payload effect au st idx signer p = (st, false).
  Proof. intros Hr Hh. unfold deliver_priv, handle_priv. rewrite Hr, Hh. auto. Qed.

  (* ... whatever other roles the signer holds *)
  Lemma separation au st idx signer p r :
    required_role idx = Some r -> holds au r signer = false ->
    (forall r', r' <> r -> True) ->
    fst (deliver_priv St Payload effect au st idx signer p) = st.
  Proof. intros Hr Hh _. unfold deliver_priv, handle_priv. rewrite Hr, Hh. reflexivity. Qed.

  Lemma authorised_runs_effect au st idx signer p r :
    required_role idx = Some r -> holds au r signer = true ->
    handle_priv St Payload effect au st idx signer p = effect st p.
  Proof. intros Hr Hh. unfold handle_priv. rewrite Hr, Hh. reflexivity. Qed.
End Handler.

Definition table_role (r : role) : bool :=
  match r with R_ORACLE_ADMIN | R_CLP_WHITELIST => false | _ => true end.

(* removing a role takes effect immediately: the very next check fails *)
Lemma removal_immediate s r a : table_role r = true -> holds (remove_account s r a) r a = false.
Proof.
  intros Ht. unfold holds, remove_account. destruct r; try discriminate Ht; cbn [au_admins];
  (induction (au_admins s) as [|[r0 a0] l IH]; cbn; [reflexivity|];
   destruct (role_eqb r0 _ && (a0 =? a)) eqn:E; cbn; [exact IH|]; rewrite E; cbn; exact IH).
Qed.

(* ... and does not touch anybody else's roles *)
Lemma removal_frame s r a r' a' :
  table_role r = true -> (r', a') <> (r, a) -> holds (remove_account s r a) r' a' = holds s r' a'.
Proof.
  intros Ht Hne. unfold holds, remove_account.
  destruct r'; cbn [au_admins au_oracle_admin au_clp_whitelist]; try reflexivity;
  (induction (au_admins s) as [|[r0 a0] l IH]; cbn; [reflexivity|];
   destruct (role_eqb r0 r && (a0 =? a)) eqn:E; cbn;
   [ rewrite IH; apply andb_prop in E; destruct E as (E1 & E2); apply role_eqb_eq in E1; apply Z.eqb_eq in E2; subst;
     match goal with |- _ = (role_eqb ?x ?y && (?p =? ?q)) || _ =>
       destruct (role_eqb x y && (p =? q)) eqn:E3; [|reflexivity];
       apply andb_prop in E3; destruct E3 as (E4 & E5); apply role_eqb_eq in E4; apply Z.eqb_eq in E5; subst; congruence end
   | rewrite IH; reflexivity ]).
Qed.

Lemma addition_immediate s r a : table_role r = true -> holds (add_account s r a) r a = true.
Proof.
  intros Ht. unfold holds, add_account. destruct r; try discriminate Ht; cbn [au_admins];
  rewrite existsb_app; cbn; rewrite Z.eqb_refl; cbn; apply orb_true_r.
Qed.
