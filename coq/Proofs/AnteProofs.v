From Coq Require Import ZArith List Bool String Lia.
From Sif Require Import Base.Outcome Base.SdkMath Model.Ante Proofs.SdkMathProofs Proofs.PayoutProofs.
Import ListNotations.
Local Open Scope Z_scope.

Lemma fold_max_ge {A} (f : A -> Z) l : forall acc,
  acc <= fold_left (fun a m => Z.max a (f m)) l acc /\
  forall x, In x l -> f x <= fold_left (fun a m => Z.max a (f m)) l acc.
Proof.
  induction l as [|y l IH]; intros acc; cbn [fold_left]; [split; [lia|contradiction]|].
  destruct (IH (Z.max acc (f y))) as (H1 & H2). split; [lia|].
  intros x [->|Hin]; [lia|auto].
Qed.

Lemma min_fee_ge sf ms m : In m (flatten_all ms) -> msg_fee sf m <= min_fee sf ms.
Proof. intros H. unfold min_fee. apply (proj2 (fold_max_ge (msg_fee sf) (flatten_all ms) 0)). exact H. Qed.

(* messages nested in MsgExec, to any depth, are among the flattened messages *)
Lemma flatten_self m : In m (flatten m).
Proof. destruct m; cbn; auto. Qed.

Lemma flatten_exec_inner inner x y : In x inner -> In y (flatten x) -> In y (flatten (Exec inner)).
Proof.
  intros Hx Hy. cbn [flatten]. right.
  induction inner as [|z r IH]; [contradiction|].
  apply in_or_app. destruct Hx as [->|Hx]; [left; exact Hy|right; apply IH; exact Hx].
Qed.

Lemma flatten_all_in ms m y : In m ms -> In y (flatten m) -> In y (flatten_all ms).
Proof. intros Hm Hy. unfold flatten_all. apply in_flat_map. eauto. Qed.

(* "nested at any depth" as an inductive relation *)
Inductive inside : msg -> msg -> Prop :=
| in_here m : inside m m
| in_deeper x inner y : In x inner -> inside y x -> inside y (Exec inner).

Lemma inside_flatten y m : inside y m -> In y (flatten m).
Proof. induction 1 as [m|x inner y Hx Hy IH]; [apply flatten_self|eapply flatten_exec_inner; eauto]. Qed.

(* C19 fee floor: an accepted transaction pays at least the floor of every message it contains, however deeply wrapped *)
Lemma fee_floor_all sf fee ms top y :
  fee_ok sf fee ms = true -> is_dispensation_single ms = false ->
  In top ms -> inside y top -> 0 < msg_fee sf y -> msg_fee sf y <= fee.
Proof.
  intros Hok Hd Htop Hy Hpos. unfold fee_ok in Hok. rewrite Hd in Hok.
  pose proof (min_fee_ge sf ms y (flatten_all_in ms top y Htop (inside_flatten y top Hy))) as Hle.
  destruct (Z.eqb_spec (min_fee sf ms) 0) as [E|E]; [lia|].
  apply andb_prop in Hok. destruct Hok as (_ & H2). apply Z.leb_le in H2. lia.
Qed.

(* C19 commission: no accepted transaction creates or edits a validator below 5% *)
Lemma commission_all total ms top url r :
  staking_rules_ok total ms = true -> In top ms ->
  (inside (Leaf url (SCreateValidator r)) top \/ inside (Leaf url (SEditValidator (Some r))) top) ->
  MIN_COMMISSION <= r.
Proof.
  intros Hok Htop Hin. unfold staking_rules_ok in Hok. rewrite forallb_forall in Hok.
  destruct Hin as [Hin|Hin];
  specialize (Hok _ (flatten_all_in ms top _ Htop (inside_flatten _ top Hin))); cbn in Hok; apply Z.leb_le in Hok; exact Hok.
Qed.

Lemma D_val : PREC = 1000 * 1000000000000000. Proof. reflexivity. Qed.

(* the Dec computation of the projected power can only make the check stricter than the exact ratio *)
Lemma projected_power_exact vt av total at_ :
  0 <= vt + av -> 0 < total + at_ ->
  projected_power vt av total at_ < MAX_VOTING_POWER ->
  (vt + av) * 1000 < 66 * (total + at_).
Proof.
  intros Ha Hb H. unfold projected_power, dec_of_int in H. pose proof PREC_pos as HD.
  set (a := (vt + av) * PREC) in *. set (b := (total + at_) * PREC) in *.
  assert (Ha0 : 0 <= a) by (unfold a; nia). assert (Hb0 : 0 < b) by (unfold b; nia).
  set (q := dec_quo a b) in *.
  assert (Hq0 : 0 <= q) by (apply dec_quo_nonneg; assumption).
  assert (E : dec_mul q (100 * PREC) = q * 100).
  { unfold dec_mul. replace (q * (100 * PREC)) with ((q * 100) * PREC) by ring. apply chop_round_exact. lia. }
  rewrite E in H. unfold MAX_VOTING_POWER in H.
  destruct (dec_quo_bounds a b Ha0 Hb0) as (Hl & _). fold q in Hl.
  assert (Hq : q <= 66000000000000000 - 1) by lia.
  assert (Hqb : q * b <= (66000000000000000 - 1) * b) by (apply Z.mul_le_mono_nonneg_r; lia).
  pose proof D_val as HDv.
  unfold a, b in *. nia.
Qed.

(* C19 concentration: an accepted delegation leaves the destination strictly below 6.6% of bonded + unbonding stake *)
Lemma delegation_all total ms top url vt amt :
  staking_rules_ok total ms = true -> In top ms ->
  inside (Leaf url (SDelegate true vt amt)) top -> 0 <= vt + amt -> 0 < total + amt ->
  (vt + amt) * 1000 < 66 * (total + amt).
Proof.
  intros Hok Htop Hin H1 H2. unfold staking_rules_ok in Hok. rewrite forallb_forall in Hok.
  specialize (Hok _ (flatten_all_in ms top _ Htop (inside_flatten _ top Hin))). cbn [staking_ok andb] in Hok.
  apply Z.ltb_lt in Hok. apply projected_power_exact; assumption.
Qed.

Lemma redelegation_all total ms top url vt amt :
  staking_rules_ok total ms = true -> In top ms ->
  inside (Leaf url (SRedelegate true vt amt false)) top -> 0 <= vt + amt -> 0 < total ->
  (vt + amt) * 1000 < 66 * total.
Proof.
  intros Hok Htop Hin H1 H2. unfold staking_rules_ok in Hok. rewrite forallb_forall in Hok.
  specialize (Hok _ (flatten_all_in ms top _ Htop (inside_flatten _ top Hin))). cbn [staking_ok andb] in Hok.
  apply Z.ltb_lt in Hok. pose proof (projected_power_exact vt amt total 0 H1 ltac:(lia) Hok). lia.
Qed.
