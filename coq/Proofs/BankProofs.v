From Coq Require Import ZArith Lia Bool List.
From Sif Require Import Base.Outcome Base.Store Base.Bank.
Import ListNotations.
Local Open Scope Z_scope.

Lemma getz_set_same k v (m : store Z) : getz k (set k v m) = v.
Proof. unfold getz. rewrite get_set_same. reflexivity. Qed.
Lemma getz_set_other k k2 v (m : store Z) : k2 <> k -> getz k2 (set k v m) = getz k2 m.
Proof. intros. unfold getz. rewrite get_set_other; auto. Qed.

Lemma bal_set_bal b a d v a' d' :
  bal (set_bal b a d v) a' d' = if (a' =? a) && (d' =? d) then v else bal b a' d'.
Proof.
  unfold bal, set_bal, acct_of; cbn [balances].
  destruct (Z.eqb_spec a' a) as [->|Ha]; cbn [andb].
  - rewrite get_set_same. destruct (Z.eqb_spec d' d) as [->|Hd].
    + apply getz_set_same.
    + rewrite getz_set_other; auto.
  - rewrite get_set_other; auto.
Qed.

Lemma bal_credit b a d x a' d' :
  bal (credit b a d x) a' d' = bal b a' d' + (if (a' =? a) && (d' =? d) then x else 0).
Proof.
  unfold credit. rewrite bal_set_bal.
  destruct (Z.eqb_spec a' a) as [->|]; destruct (Z.eqb_spec d' d) as [->|]; cbn [andb]; lia.
Qed.

Lemma sup_credit b a d x d' : sup (credit b a d x) d' = sup b d'.
Proof. reflexivity. Qed.

(* effect of a successful send on every balance *)
Lemma send_effect b from to d x b' :
  send b from to d x = Some b' ->
  0 <= x /\
  (forall a' d', bal b' a' d' = bal b a' d'
     - (if (a' =? from) && (d' =? d) then x else 0)
     + (if (a' =? to) && (d' =? d) then x else 0)) /\
  (forall d', sup b' d' = sup b d').
Proof.
  unfold send. destruct (Z.ltb_spec x 0); [discriminate|].
  destruct (Z.eqb_spec x 0) as [->|].
  - intros [= <-]. repeat split; try lia. intros a' d'.
    destruct ((a' =? from) && (d' =? d)); destruct ((a' =? to) && (d' =? d)); lia.
  - destruct (Z.ltb_spec (bal b from d) x); [discriminate|].
    intros [= <-]. repeat split; try lia.
    intros a' d'. rewrite !bal_credit.
    destruct ((a' =? from) && (d' =? d)); destruct ((a' =? to) && (d' =? d)); lia.
Qed.

Lemma send_some_funds b from to d x b' :
  send b from to d x = Some b' -> x = 0 \/ x <= bal b from d.
Proof.
  unfold send. destruct (Z.ltb_spec x 0); [discriminate|].
  destruct (Z.eqb_spec x 0); [auto|].
  destruct (Z.ltb_spec (bal b from d) x); [discriminate|]. auto.
Qed.

Lemma bal_mk b0 sp a d : bal (mkBank (balances b0) sp) a d = bal b0 a d.
Proof. reflexivity. Qed.

Lemma mint_effect b a d x :
  (forall a' d', bal (mint b a d x) a' d' = bal b a' d' + (if (a' =? a) && (d' =? d) then Z.max 0 x else 0)) /\
  (forall d', sup (mint b a d x) d' = sup b d' + (if d' =? d then Z.max 0 x else 0)).
Proof.
  unfold mint. destruct (Z.leb_spec x 0).
  - split; intros; [destruct (_ && _)|destruct (_ =? _)]; lia.
  - split.
    + intros a' d'. rewrite bal_mk, bal_set_bal. destruct (Z.eqb_spec a' a) as [->|]; destruct (Z.eqb_spec d' d) as [->|]; cbn [andb]; lia.
    + intros d'. unfold sup at 1. cbn [supply].
      destruct (Z.eqb_spec d' d) as [->|]; [rewrite getz_set_same|rewrite getz_set_other; auto]; unfold sup; lia.
Qed.

Lemma burn_effect b a d x b' :
  burn b a d x = Some b' ->
  (forall a' d', bal b' a' d' = bal b a' d' - (if (a' =? a) && (d' =? d) then Z.max 0 x else 0)) /\
  (forall d', sup b' d' = sup b d' - (if d' =? d then Z.max 0 x else 0)).
Proof.
  unfold burn. destruct (Z.leb_spec x 0).
  - intros [= <-]. split; intros; [destruct (_ && _)|destruct (_ =? _)]; lia.
  - destruct (Z.ltb_spec (bal b a d) x); [discriminate|]. intros Heq.
    assert (Hb : b' = mkBank (balances (set_bal b a d (bal b a d - x))) (set d (sup b d - x) (supply b))) by congruence.
    clear Heq. subst b'. split.
    + intros a' d'. rewrite bal_mk, bal_set_bal. destruct (Z.eqb_spec a' a) as [->|]; destruct (Z.eqb_spec d' d) as [->|]; cbn [andb]; lia.
    + intros d'. unfold sup at 1. cbn [supply].
      destruct (Z.eqb_spec d' d) as [->|]; [rewrite getz_set_same|rewrite getz_set_other; auto]; unfold sup; lia.
Qed.
