(* C05 / C09, order independence without the premise on the claims' total power: every stored prophecy lists each
   validator under at most one claim content (kept by every claim transaction), so the powers of its claims add up to
   at most the whitelisted bonded total, whatever the whitelist and the staking set are NOW. Hence the result of a
   claim transaction, and of a whole history of them, is the same for every iteration order of the claim map. *)
From Coq Require Import ZArith Lia Bool List Permutation.
From RecordUpdate Require Import RecordUpdate.
From Sif Require Import Base.Outcome Base.Store Base.Bank Model.Bridge Proofs.BridgeProofs.
Import ListNotations.
Local Open Scope Z_scope.

(* what one validator weighs now *)
Definition weight (s : bridge_state) (v : Z) : Z :=
  match bonded_power s v with Some p => if mem v (br_whitelist s) then p else 0 | None => 0 end.
Fixpoint zsum (l : list Z) : Z := match l with [] => 0 | x :: r => x + zsum r end.
Definition wsum (s : bridge_state) (l : list Z) : Z := zsum (map (weight s) l).

Lemma zsum_app a b : zsum (a ++ b) = zsum a + zsum b.
Proof. induction a as [|x a IH]; cbn [zsum app]; lia. Qed.
Lemma wsum_app s a b : wsum s (a ++ b) = wsum s a + wsum s b.
Proof. unfold wsum. rewrite map_app. apply zsum_app. Qed.

Lemma claim_power_wsum s vals : claim_power s vals = wsum s vals.
Proof.
  unfold claim_power, wsum.
  assert (G : forall acc, fold_left (fun acc v => match bonded_power s v with
              | Some p => if mem v (br_whitelist s) then acc + p else acc | None => acc end) vals acc = acc + zsum (map (weight s) vals)).
  { induction vals as [|v r IH]; intros acc; cbn [fold_left map zsum]; [lia|]. rewrite IH. unfold weight.
    destruct (bonded_power s v); [destruct (mem v _)|]; lia. }
  rewrite G. lia.
Qed.

Lemma claims_total_concat s claims : claims_total s claims = wsum s (concat (map snd claims)).
Proof.
  unfold claims_total. induction claims as [|[c vs] r IH]; cbn [fold_right map concat snd]; [reflexivity|].
  rewrite IH, wsum_app, claim_power_wsum. reflexivity.
Qed.

(* the staking view is a map with non-negative powers *)
Definition staking_wf (s : bridge_state) : Prop :=
  NoDup (map fst (br_validators s)) /\ Forall (fun e : Z * (Z * bool) => 0 <= fst (snd e)) (br_validators s).

Lemma lookup_in {A} k (l : list (Z * A)) v : lookup k l = Some v -> In (k, v) l.
Proof.
  induction l as [|[a x] r IH]; cbn [lookup]; [discriminate|]. destruct (Z.eqb_spec a k) as [->|]; [intros [= ->]; left; reflexivity|right; auto].
Qed.
Lemma lookup_nodup {A} k (l : list (Z * A)) v : NoDup (map fst l) -> In (k, v) l -> lookup k l = Some v.
Proof.
  induction l as [|[a x] r IH]; intros Hn Hin; [contradiction|]. cbn [map fst] in Hn. apply NoDup_cons_iff in Hn. destruct Hn as [Hna Hn].
  cbn [lookup]. destruct Hin as [[= -> ->]|Hin]; [rewrite Z.eqb_refl; reflexivity|].
  destruct (Z.eqb_spec a k) as [->|]; [|auto]. exfalso. apply Hna. apply (in_map fst) in Hin. exact Hin.
Qed.
Lemma lookup_none_notin {A} k (l : list (Z * A)) : lookup k l = None -> ~ In k (map fst l).
Proof.
  induction l as [|[a x] r IH]; cbn [lookup map fst]; [intros _ []|]. destruct (Z.eqb_spec a k); [discriminate|]. intros H [E|Hin]; [contradiction|]. exact (IH H Hin).
Qed.

Lemma staking_nonneg s : staking_wf s -> powers_nonneg s.
Proof.
  intros [_ Hf] v p H. unfold bonded_power in H. destruct (lookup v (br_validators s)) as [[q b]|] eqn:E; [|discriminate].
  destruct b; [|discriminate]. injection H as <-. apply lookup_in in E. exact (proj1 (Forall_forall _ _) Hf _ E).
Qed.
Lemma weight_nonneg s v : staking_wf s -> 0 <= weight s v.
Proof. intros H. unfold weight. destruct (bonded_power s v) eqn:E; [|lia]. pose proof (staking_nonneg s H v _ E). destruct (mem v _); lia. Qed.
Lemma weight_outside s v : ~ In v (map fst (br_validators s)) -> weight s v = 0.
Proof.
  intros Hn. unfold weight, bonded_power. destruct (lookup v (br_validators s)) as [[q b]|] eqn:E; [|reflexivity].
  exfalso. apply Hn. apply lookup_in in E. apply (in_map fst) in E. exact E.
Qed.

Lemma total_power_wsum s : staking_wf s -> total_power s = wsum s (map fst (br_validators s)).
Proof.
  intros [Hn _]. unfold total_power, wsum.
  assert (G : forall l acc, (forall e, In e l -> lookup (fst e) (br_validators s) = Some (snd e)) ->
     fold_left (fun acc e => let '(v, (p, b)) := e in if b && mem v (br_whitelist s) then acc + p else acc) l acc
     = acc + zsum (map (weight s) (map fst l))).
  { induction l as [|[v [p b]] r IH]; intros acc Hl; cbn [fold_left map zsum fst]; [lia|].
    rewrite IH by (intros e He; apply Hl; right; exact He).
    assert (E : lookup v (br_validators s) = Some (p, b)) by (apply (Hl (v, (p, b))); left; reflexivity).
    unfold weight, bonded_power. rewrite E. destruct b; cbn [andb]; [destruct (mem v _)|]; lia. }
  rewrite G; [lia|]. intros [v x] He. cbn [fst snd]. apply lookup_nodup; assumption.
Qed.

(* a duplicate-free list of validators weighs at most the whole set *)
Lemma wsum_sub s : staking_wf s -> forall k l, NoDup l -> (forall v, In v l -> ~ In v k -> weight s v = 0) -> wsum s l <= wsum s k.
Proof.
  intros Hw. induction k as [|a k IH]; intros l Hn Hout.
  - assert (E : wsum s l = 0).
    { clear Hn. unfold wsum. induction l as [|x l IHl]; cbn [map zsum]; [reflexivity|].
      rewrite (Hout x) by (try (left; reflexivity); intros []). rewrite IHl; [reflexivity|]. intros v Hv. apply Hout. right. exact Hv. }
    rewrite E. reflexivity.
  - unfold wsum at 2. cbn [map zsum]. fold (wsum s k). pose proof (weight_nonneg s a Hw) as Ha.
    destruct (in_dec Z.eq_dec a l) as [Hin|Hnin].
    + destruct (in_split _ _ Hin) as (l1 & l2 & ->). apply NoDup_remove in Hn. destruct Hn as [Hn Hna].
      rewrite wsum_app. unfold wsum at 2. cbn [map zsum]. fold (wsum s l2).
      assert (H := IH (l1 ++ l2) Hn). rewrite wsum_app in H.
      assert (wsum s l1 + wsum s l2 <= wsum s k); [|lia]. apply H. intros v Hv Hk. apply Hout.
      * apply in_app_or in Hv. apply in_or_app. destruct Hv; [left|right; right]; assumption.
      * intros [<-|Hk']; [exact (Hna Hv)|exact (Hk Hk')].
    + assert (wsum s l <= wsum s k); [|lia]. apply IH; [exact Hn|]. intros v Hv Hk. apply Hout; [exact Hv|].
      intros [<-|Hk']; [exact (Hnin Hv)|exact (Hk Hk')].
Qed.

(* ---- the invariant of one prophecy ---- *)
Definition claims_inv (pr : prophecy) : Prop :=
  NoDup (claimers pr) /\ forall v, In v (claimers pr) -> lookup v (pr_vclaims pr) <> None.

Lemma claims_inv_bound s pr : staking_wf s -> NoDup (claimers pr) -> claims_total s (pr_claims pr) <= total_power s.
Proof.
  intros Hw Hn. rewrite claims_total_concat, (total_power_wsum s Hw). apply wsum_sub; [exact Hw|exact Hn|].
  intros v _ Hk. apply weight_outside. exact Hk.
Qed.

Lemma add_claim_perm c v claims : Permutation (concat (map snd (add_claim c v claims))) (v :: concat (map snd claims)).
Proof.
  induction claims as [|[c' vs] r IH]; cbn [add_claim map concat snd app]; [reflexivity|].
  destruct (c' =? c); cbn [map concat snd].
  - rewrite <- app_assoc. cbn [app]. symmetry. apply Permutation_middle.
  - rewrite IH. symmetry. apply Permutation_middle.
Qed.

Lemma lookup_app_none {A} k (l : list (Z * A)) k2 x : lookup k l <> None -> lookup k (l ++ [(k2, x)]) <> None.
Proof.
  induction l as [|[a y] r IH]; cbn [lookup app]; [intros H; contradiction|]. destruct (a =? k); [intros _; discriminate|exact IH].
Qed.
Lemma lookup_app_last {A} k (l : list (Z * A)) x : lookup k (l ++ [(k, x)]) <> None.
Proof.
  induction l as [|[a y] r IH]; cbn [lookup app]; [rewrite Z.eqb_refl; discriminate|]. destruct (a =? k); [discriminate|exact IH].
Qed.

Lemma claims_inv_add pr c v :
  claims_inv pr -> lookup v (pr_vclaims pr) = None ->
  claims_inv (pr <| pr_claims := add_claim c v (pr_claims pr) |> <| pr_vclaims := pr_vclaims pr ++ [(v, c)] |>).
Proof.
  intros [Hn Hk] Hnone. unfold claims_inv, claimers. cbn [pr_claims pr_vclaims set]. cbn.
  pose proof (add_claim_perm c v (pr_claims pr)) as Hp. split.
  - apply (Permutation_NoDup (Permutation_sym Hp)). constructor; [|exact Hn]. intros Hin. exact (Hk v Hin Hnone).
  - intros v' Hin. apply (Permutation_in _ Hp) in Hin. destruct Hin as [<-|Hin]; [apply lookup_app_last|apply lookup_app_none, Hk, Hin].
Qed.

Lemma completion_claims s l pr : pr_claims (process_completion s l pr) = pr_claims pr /\ pr_vclaims (process_completion s l pr) = pr_vclaims pr.
Proof.
  unfold process_completion. destruct (highest_loop s l (-1) (-1) 0) as [[b p] t]. destruct (ratio_ge _ _); [split; reflexivity|]. destruct (ratio_lt _ _); split; reflexivity.
Qed.
Lemma claims_inv_completion s l pr : claims_inv pr -> claims_inv (process_completion s l pr).
Proof. unfold claims_inv, claimers. destruct (completion_claims s l pr) as [-> ->]. auto. Qed.

Lemma claims_inv_new : claims_inv new_prophecy.
Proof. split; [constructor|intros v []]. Qed.

(* ---- the invariant of the prophecy store ---- *)
Definition prophecies_inv (s : bridge_state) : Prop := forall pid pr, get pid (br_prophecies s) = Some pr -> claims_inv pr.

Lemma old_prophecy_inv s pid : prophecies_inv s -> claims_inv (old_prophecy s pid).
Proof. intros H. unfold old_prophecy. destruct (get pid (br_prophecies s)) eqn:E; [exact (H _ _ E)|exact claims_inv_new]. Qed.

Lemma process_claim_keeps s perm pid val cid s' pr :
  prophecies_inv s -> process_claim s perm pid val cid = Ok (s', pr) -> prophecies_inv s' /\ claims_inv pr.
Proof.
  intros Hi H. apply process_claim_inv in H. destruct H as (_ & _ & _ & Hnone & -> & Hpr). cbn zeta in Hpr.
  assert (Hc : claims_inv pr).
  { rewrite Hpr. apply claims_inv_completion. apply claims_inv_add; [apply old_prophecy_inv; exact Hi|exact Hnone]. }
  split; [|exact Hc]. intros pid' pr' Hg. cbn in Hg.
  destruct (Z.eq_dec pid' pid) as [->|Hne]; [rewrite get_set_same in Hg; injection Hg as <-; exact Hc|].
  rewrite get_set_other in Hg by exact Hne. exact (Hi _ _ Hg).
Qed.

Lemma successful_claim_prophecies s cid s' : process_successful_claim s cid = Ok s' -> br_prophecies s' = br_prophecies s.
Proof. intros H. apply process_successful_claim_effect in H. destruct H as (ct & _ & _ & _ & _ & _ & _ & _ & Hp & _). exact Hp. Qed.

Lemma create_claim_keeps s perm pid val cid ct s' : prophecies_inv s -> create_claim s perm pid val cid ct = Ok s' -> prophecies_inv s'.
Proof.
  intros Hi H. unfold create_claim in H.
  destruct (process_claim _ perm pid val cid) as [[s1 pr]| |] eqn:E; cbn [bind] in H; try discriminate.
  assert (H1 : prophecies_inv s1) by (eapply (process_claim_keeps (s <| br_contents := set cid ct (br_contents s) |>)); [exact Hi|exact E]).
  destruct (pr_status pr =? 1); [|injection H as <-; exact H1].
  apply successful_claim_prophecies in H. unfold prophecies_inv. rewrite H. exact H1.
Qed.

(* ---- one claim: the same result for any two iteration orders ---- *)
Definition is_order (perm : list (Z * list Z) -> list (Z * list Z)) : Prop := forall l, Permutation (perm l) l.

Lemma completion_same s l1 l2 pr :
  Permutation l1 l2 -> staking_wf s -> claims_total s l1 <= total_power s -> pr_status pr = 0 ->
  process_completion s l1 pr = process_completion s l2 pr.
Proof.
  intros Hp Hw Hle Hst.
  destruct (completion_order_independent s l1 l2 pr Hp (staking_nonneg s Hw) Hle) as [Hs Hf].
  assert (Hne : pr_status pr <> 1) by lia.
  revert Hs Hf. unfold process_completion.
  destruct (highest_loop s l1 (-1) (-1) 0) as [[b1 p1] t1]. destruct (highest_loop s l2 (-1) (-1) 0) as [[b2 p2] t2].
  destruct (ratio_ge p1 _), (ratio_ge p2 _); cbn; intros Hs Hf.
  - specialize (Hf eq_refl Hne). cbn in Hf. rewrite Hf. reflexivity.
  - destruct (ratio_lt (p2 + _) _); cbn in Hs; [discriminate|lia].
  - destruct (ratio_lt (p1 + _) _); cbn in Hs; [discriminate|lia].
  - destruct (ratio_lt (p1 + _) _), (ratio_lt (p2 + _) _); cbn in Hs; try reflexivity; lia.
Qed.

Theorem process_claim_order_free s perm1 perm2 pid val cid :
  is_order perm1 -> is_order perm2 -> staking_wf s -> prophecies_inv s ->
  process_claim s perm1 pid val cid = process_claim s perm2 pid val cid.
Proof.
  intros H1 H2 Hw Hi. unfold process_claim.
  destruct (negb (mem val (br_whitelist s))); [reflexivity|]. destruct (negb (is_active s val)); [reflexivity|].
  fold (old_prophecy s pid). destruct (Z.eqb_spec (pr_status (old_prophecy s pid)) 0) as [Hst|]; cbn [negb]; [|reflexivity].
  destruct (lookup val (pr_vclaims (old_prophecy s pid))) eqn:Hnone; [reflexivity|].
  set (pr1 := old_prophecy s pid <| pr_claims := add_claim cid val (pr_claims (old_prophecy s pid)) |> <| pr_vclaims := pr_vclaims (old_prophecy s pid) ++ [(val, cid)] |>).
  assert (Hc : claims_inv pr1) by (apply claims_inv_add; [apply old_prophecy_inv; exact Hi|exact Hnone]).
  assert (E : process_completion s (perm1 (pr_claims pr1)) pr1 = process_completion s (perm2 (pr_claims pr1)) pr1).
  { apply completion_same; [rewrite (H1 _), (H2 _); reflexivity|exact Hw| |exact Hst].
    rewrite (claims_total_perm s _ _ (H1 _)). apply claims_inv_bound; [exact Hw|exact (proj1 Hc)]. }
  rewrite E. reflexivity.
Qed.

Theorem create_claim_order_free s perm1 perm2 pid val cid ct :
  is_order perm1 -> is_order perm2 -> staking_wf s -> prophecies_inv s ->
  create_claim s perm1 pid val cid ct = create_claim s perm2 pid val cid ct.
Proof.
  intros H1 H2 Hw Hi. unfold create_claim.
  cbv zeta. match goal with |- context [process_claim ?s0 perm1 pid val cid] => rewrite (process_claim_order_free s0 perm1 perm2 pid val cid H1 H2 Hw Hi) end. reflexivity.
Qed.

(* ---- histories: claims interleaved with whitelist edits and arbitrary changes of the staking set ---- *)
Inductive bridge_ev :=
| EvClaim (m : claim_msg)
| EvWhitelist (sender val : Z) (add : bool)
| EvStaking (vals : list (Z * (Z * bool))).     (* the staking module's view after any block *)

Definition staking_list_wf (vals : list (Z * (Z * bool))) : Prop :=
  NoDup (map fst vals) /\ Forall (fun e : Z * (Z * bool) => 0 <= fst (snd e)) vals.

Definition bridge_step (perm : list (Z * list Z) -> list (Z * list Z)) (s : bridge_state) (e : bridge_ev) : bridge_state * option Z :=
  match e with
  | EvClaim m => deliver_claim perm s m
  | EvWhitelist sender val add => (match update_whitelist s sender val add with Ok s' => s' | _ => s end, None)
  | EvStaking vals => (s <| br_validators := vals |>, None)
  end.

Fixpoint bridge_run (perm : list (Z * list Z) -> list (Z * list Z)) (s : bridge_state) (es : list bridge_ev) : bridge_state * list (option Z) :=
  match es with
  | [] => (s, [])
  | e :: rest => let '(s1, c) := bridge_step perm s e in let '(s2, cs) := bridge_run perm s1 rest in (s2, c :: cs)
  end.

Definition evs_wf (es : list bridge_ev) : Prop :=
  Forall (fun e => match e with EvStaking vals => staking_list_wf vals | _ => True end) es.

Definition bridge_inv (s : bridge_state) : Prop := staking_wf s /\ prophecies_inv s.

Lemma successful_claim_staking s cid s' : process_successful_claim s cid = Ok s' -> br_validators s' = br_validators s.
Proof.
  unfold process_successful_claim. intros H.
  repeat match type of H with
  | (match ?x with _ => _ end) = _ => let E := fresh "E" in destruct x eqn:E; try discriminate
  | (let _ := _ in _) = _ => cbv zeta in H
  end.
  - injection H as <-. cbn. match goal with |- context [if ?c then _ else _] => destruct c end; reflexivity.
  - injection H as <-. reflexivity.
Qed.

Lemma create_claim_staking s perm pid val cid ct s' : create_claim s perm pid val cid ct = Ok s' -> br_validators s' = br_validators s.
Proof.
  unfold create_claim. intros H.
  destruct (process_claim _ perm pid val cid) as [[s1 pr]| |] eqn:E; cbn [bind] in H; try discriminate.
  apply process_claim_inv in E. destruct E as (_ & _ & _ & _ & -> & _).
  destruct (pr_status pr =? 1); [|injection H as <-; reflexivity].
  exact (successful_claim_staking _ _ _ H).
Qed.

Lemma bridge_step_inv perm s e : bridge_inv s -> (match e with EvStaking vals => staking_list_wf vals | _ => True end) ->
  bridge_inv (fst (bridge_step perm s e)).
Proof.
  intros [Hw Hi] He. destruct e as [m|sender val add|vals]; cbn [bridge_step fst].
  - unfold deliver_claim. destruct (create_claim s perm _ _ _ _) as [s'| |] eqn:E; cbn [fst]; try (split; assumption).
    split; [unfold staking_wf; rewrite (create_claim_staking _ _ _ _ _ _ _ E); exact Hw|exact (create_claim_keeps _ _ _ _ _ _ _ Hi E)].
  - unfold update_whitelist. destruct (negb (mem sender (br_accounts s))); [split; assumption|].
    destruct (negb (sender =? br_oracle_admin s)); [split; assumption|]. destruct add; split; assumption.
  - split; [exact He|exact Hi].
Qed.

(* the whole history — final state and which events were credited at which step — is the same for any two iteration orders *)
Theorem bridge_run_order_free perm1 perm2 es : is_order perm1 -> is_order perm2 -> forall s,
  bridge_inv s -> evs_wf es -> bridge_run perm1 s es = bridge_run perm2 s es.
Proof.
  intros H1 H2. induction es as [|e rest IH]; intros s Hinv Hes; cbn [bridge_run]; [reflexivity|].
  inversion Hes as [|? ? He Hrest]; subst.
  assert (E : bridge_step perm1 s e = bridge_step perm2 s e).
  { destruct e as [m| |]; cbn [bridge_step]; try reflexivity. unfold deliver_claim.
    rewrite (create_claim_order_free s perm1 perm2 _ _ _ _ H1 H2 (proj1 Hinv) (proj2 Hinv)). reflexivity. }
  pose proof (bridge_step_inv perm1 s e Hinv He) as Hn. rewrite E in *.
  destruct (bridge_step perm2 s e) as [s1 c]. cbn [fst] in Hn. rewrite (IH s1 Hn Hrest). reflexivity.
Qed.

Lemma bridge_run_inv perm es : forall s, bridge_inv s -> evs_wf es -> bridge_inv (fst (bridge_run perm s es)).
Proof.
  induction es as [|e rest IH]; intros s Hinv Hes; cbn [bridge_run]; [exact Hinv|].
  inversion Hes as [|? ? He Hrest]; subst. pose proof (bridge_step_inv perm s e Hinv He) as Hn.
  destruct (bridge_step perm s e) as [s1 c]. cbn [fst] in Hn. specialize (IH s1 Hn Hrest).
  destruct (bridge_run perm s1 rest) as [s2 cs]. exact IH.
Qed.

(* the premise holds on a chain without prophecies *)
Lemma bridge_inv_initial s : staking_wf s -> br_prophecies s = [] -> bridge_inv s.
Proof. intros Hw E. split; [exact Hw|]. intros pid pr Hg. rewrite E in Hg. discriminate. Qed.

(* ---- the premise as a boolean, evaluated on every state the harness observes (Check/Bridge.v) ---- *)
Lemma mem_In x l : mem x l = true <-> In x l.
Proof.
  unfold mem. rewrite existsb_exists. split; [intros (y & Hy & E); apply Z.eqb_eq in E; subst; exact Hy|intros H; exists x; split; [exact H|apply Z.eqb_refl]].
Qed.
Lemma nodupb_sound l : nodupb l = true -> NoDup l.
Proof.
  induction l as [|x r IH]; cbn [nodupb]; [constructor|]. intros H. apply andb_prop in H. destruct H as [H1 H2].
  constructor; [|exact (IH H2)]. intros Hin. apply mem_In in Hin. rewrite Hin in H1. discriminate.
Qed.

Lemma get_in_store {V} k (m : store V) v : get k m = Some v -> In (k, v) m.
Proof.
  induction m as [|[a x] r IH]; cbn [get]; [discriminate|].
  destruct (a <? k); [intros H; right; exact (IH H)|].
  destruct (a =? k) eqn:E; [apply Z.eqb_eq in E; subst; intros [= ->]; left; reflexivity|discriminate].
Qed.

Lemma bridge_inv_b_sound s : bridge_inv_b s = true -> bridge_inv s.
Proof.
  unfold bridge_inv_b, staking_wf_b. intros H. apply andb_prop in H. destruct H as [H1 H2]. apply andb_prop in H1. destruct H1 as [Ha Hb].
  split; [split; [exact (nodupb_sound _ Ha)|]|].
  - apply Forall_forall. intros e He. rewrite forallb_forall in Hb. specialize (Hb e He). apply Z.leb_le in Hb. exact Hb.
  - intros pid pr Hg. apply get_in_store in Hg. rewrite forallb_forall in H2. specialize (H2 _ Hg). cbn [snd] in H2.
    unfold claims_inv_b in H2. apply andb_prop in H2. destruct H2 as [Hn Hf]. split; [exact (nodupb_sound _ Hn)|].
    intros v Hv. rewrite forallb_forall in Hf. specialize (Hf v Hv). destruct (lookup v (pr_vclaims pr)); [discriminate|discriminate].
Qed.
