From Coq Require Import ZArith Lia Bool List.
From RecordUpdate Require Import RecordUpdate.
From Sif Require Import Base.Outcome Base.SdkMath Base.Store Base.Bank Model.Bridge Proofs.BankProofs Proofs.ClpInv.
Import ListNotations.
Local Open Scope Z_scope.

Lemma bsend2_ok b from to d x b' : bsend2 b from to d x = Ok b' -> send b from to d x = Some b'.
Proof. unfold bsend2. destruct (send b from to d x); [intros [= ->]; reflexivity|discriminate]. Qed.

Ltac inv_all := repeat match goal with H : bind _ _ = Ok _ |- _ => inv1 H end.
Ltac use_sends2 := repeat match goal with H : bsend2 _ _ _ _ _ = Ok _ |- _ =>
  let Hb := fresh "Hb" in let Hn := fresh "Hn" in let Hs := fresh "Hs" in
  apply bsend2_ok, send_effect in H; destruct H as (Hn & Hb & Hs) end.

(* the account that receives the cross-chain fee *)
Definition fee_receiver (s : bridge_state) : Z :=
  match br_ceth_receiver s with Some r => r | None => BRIDGE_MODULE end.

Definition ind (b : bool) (x : Z) : Z := if b then x else 0.

Lemma gas_pos : 0 < LOCK_GAS_COST. Proof. reflexivity. Qed.
Global Opaque CETH PEG BRIDGE_MODULE LOCK_GAS_COST.

(* C07: a successful lock or burn *)
Lemma lock_or_burn_effect s is_burn sender eth amount symbol ceth s' :
  sender <> BRIDGE_MODULE ->
  lock_or_burn s is_burn sender eth amount symbol ceth = Ok s' ->
  br_paused s = false /\ mem eth (br_blacklist s) = false /\
  mem symbol (br_peggy s) = is_burn /\
  0 < amount /\ 0 < ceth /\
  (forall a d, bal (br_bank s') a d = bal (br_bank s) a d
     - ind ((a =? sender) && (d =? symbol)) amount
     - ind ((a =? sender) && (d =? CETH)) ceth
     + ind ((a =? fee_receiver s) && (d =? CETH)) ceth) /\
  (forall d, sup (br_bank s') d = sup (br_bank s) d - ind (d =? symbol) amount) /\
  br_prophecies s' = br_prophecies s /\ br_whitelist s' = br_whitelist s /\ br_peggy s' = br_peggy s.
Proof.
  unfold lock_or_burn. intros Hsd H. pose proof gas_pos as Hg.
  destruct (Z.leb_spec amount 0) as [|Hamt]; [discriminate|].
  destruct (Z.ltb_spec ceth LOCK_GAS_COST) as [|Hceth]; [discriminate|]. cbn [orb] in H.
  destruct (br_paused s) eqn:Hp; [discriminate|].
  destruct (Bool.eqb is_burn (negb (mem symbol (br_peggy s)))) eqn:Hpg; [discriminate|].
  destruct (mem sender (br_accounts s)); cbn [negb] in H; [|discriminate].
  destruct (mem eth (br_blacklist s)) eqn:Hbl; [discriminate|].
  assert (Hpeg : mem symbol (br_peggy s) = is_burn).
  { destruct is_burn; destruct (mem symbol (br_peggy s)); cbn in Hpg; congruence. }
  assert (Hmax : Z.max 0 amount = amount) by lia.
  unfold fee_receiver.
  destruct (br_ceth_receiver s) as [r|] eqn:Hr.
  - repeat inv1 H. inv_all. use_sends2.
    match goal with Hq : match burn ?b _ _ _ with _ => _ end = Ok _ |- _ => destruct (burn b BRIDGE_MODULE symbol amount) as [b2|] eqn:Hbn; [|discriminate]; injection Hq as <- end.
    apply burn_effect in Hbn. destruct Hbn as (Hbb & Hbs). rewrite Hmax in *.
    repeat split; try reflexivity; try assumption; try lia.
    + intros a d. cbn. rewrite Hbb. repeat match goal with Hq : forall a' d', bal _ a' d' = _ |- _ => rewrite Hq; clear Hq end. unfold ind.
      repeat match goal with |- context [?p =? ?q] => destruct (Z.eqb_spec p q); subst end; cbn [andb]; try lia; try congruence.
    + intros d. cbn. rewrite Hbs. repeat match goal with Hq : forall d', sup _ d' = _ |- _ => rewrite Hq; clear Hq end. unfold ind. destruct (d =? symbol); lia.
  - destruct (Z.eqb_spec symbol CETH) as [->|Hne].
    + destruct is_burn; [|discriminate]. repeat inv1 H. inv_all. use_sends2.
      match goal with Hq : match burn ?b _ _ _ with _ => _ end = Ok _ |- _ => destruct (burn b BRIDGE_MODULE CETH amount) as [b2|] eqn:Hbn; [|discriminate]; injection Hq as <- end.
      apply burn_effect in Hbn. destruct Hbn as (Hbb & Hbs). rewrite Hmax in *.
      repeat split; try reflexivity; try assumption; try lia.
      * intros a d. cbn. rewrite Hbb. repeat match goal with Hq : forall a' d', bal _ a' d' = _ |- _ => rewrite Hq; clear Hq end. unfold ind.
        repeat match goal with |- context [?p =? ?q] => destruct (Z.eqb_spec p q); subst end; cbn [andb]; try lia; try congruence.
      * intros d. cbn. rewrite Hbs. repeat match goal with Hq : forall d', sup _ d' = _ |- _ => rewrite Hq; clear Hq end. unfold ind. destruct (d =? CETH); lia.
    + repeat inv1 H. inv_all. use_sends2.
      match goal with Hq : match burn ?b _ _ _ with _ => _ end = Ok _ |- _ => destruct (burn b BRIDGE_MODULE symbol amount) as [b2|] eqn:Hbn; [|discriminate]; injection Hq as <- end.
      apply burn_effect in Hbn. destruct Hbn as (Hbb & Hbs). rewrite Hmax in *.
      repeat split; try reflexivity; try assumption; try lia.
      * intros a d. cbn. rewrite Hbb. repeat match goal with Hq : forall a' d', bal _ a' d' = _ |- _ => rewrite Hq; clear Hq end. unfold ind.
        repeat match goal with |- context [?p =? ?q] => destruct (Z.eqb_spec p q); subst end; cbn [andb]; try lia; try congruence.
      * intros d. cbn. rewrite Hbs. repeat match goal with Hq : forall d', sup _ d' = _ |- _ => rewrite Hq; clear Hq end. unfold ind. destruct (d =? symbol); lia.
Qed.

(* ---- prophecies ---- *)
Definition old_prophecy (s : bridge_state) (pid : Z) : prophecy :=
  match get pid (br_prophecies s) with Some p => p | None => new_prophecy end.

Lemma process_claim_inv s perm pid val cid s' pr :
  process_claim s perm pid val cid = Ok (s', pr) ->
  mem val (br_whitelist s) = true /\ is_active s val = true /\
  pr_status (old_prophecy s pid) = 0 /\ lookup val (pr_vclaims (old_prophecy s pid)) = None /\
  s' = s <| br_prophecies := set pid pr (br_prophecies s) |> /\
  let pr1 := (old_prophecy s pid) <| pr_claims := add_claim cid val (pr_claims (old_prophecy s pid)) |>
                                  <| pr_vclaims := pr_vclaims (old_prophecy s pid) ++ [(val, cid)] |> in
  pr = process_completion s (perm (pr_claims pr1)) pr1.
Proof.
  unfold process_claim. fold (old_prophecy s pid).
  destruct (mem val (br_whitelist s)); cbn [negb]; try discriminate.
  destruct (is_active s val); cbn [negb]; try discriminate.
  destruct (Z.eqb_spec (pr_status (old_prophecy s pid)) 0) as [E|E]; cbn [negb]; try discriminate.
  destruct (lookup val (pr_vclaims (old_prophecy s pid))); try discriminate.
  intros [= <- <-]. repeat split; try reflexivity; assumption.
Qed.

Definition claims_total (s : bridge_state) (claims : list (Z * list Z)) : Z :=
  fold_right (fun c acc => claim_power s (snd c) + acc) 0 claims.

Lemma highest_loop_spec s claims : forall best0 bestp0 tot0 best bestp tot,
  highest_loop s claims best0 bestp0 tot0 = (best, bestp, tot) ->
  tot = tot0 + claims_total s claims /\ bestp0 <= bestp /\
  Forall (fun c => claim_power s (snd c) <= bestp) claims /\
  ((bestp = bestp0 /\ best = best0) \/ (bestp0 < bestp /\ exists vals, In (best, vals) claims /\ claim_power s vals = bestp)).
Proof.
  induction claims as [|[c vals] rest IH]; intros best0 bestp0 tot0 best bestp tot H; cbn [highest_loop] in H.
  - injection H as <- <- <-. cbn. repeat split; try lia; try constructor; try (left; auto).
  - cbn [claims_total fold_right snd]. fold (claims_total s rest).
    destruct (Z.ltb_spec bestp0 (claim_power s vals)) as [Hlt|Hge].
    + apply IH in H. destruct H as (H1 & H2 & H3 & H4). repeat split; try lia.
      * constructor; [cbn [snd]; lia|assumption].
      * right. destruct H4 as [(E1 & E2)|(E1 & v' & Hin & Hp)].
        -- subst. split; [lia|]. exists vals. split; [left; reflexivity|reflexivity].
        -- split; [lia|]. exists v'. split; [right; assumption|assumption].
    + apply IH in H. destruct H as (H1 & H2 & H3 & H4). repeat split; try lia.
      * constructor; [cbn [snd]; lia|assumption].
      * destruct H4 as [(E1 & E2)|(E1 & v' & Hin & Hp)]; [left; auto|right].
        split; [assumption|]. exists v'. split; [right; assumption|assumption].
Qed.

Lemma claim_power_nonneg s vals :
  (forall v p, bonded_power s v = Some p -> 0 <= p) -> 0 <= claim_power s vals.
Proof.
  intros Hp. unfold claim_power.
  assert (G : forall acc, 0 <= acc -> 0 <= fold_left (fun acc v => match bonded_power s v with
              | Some p => if mem v (br_whitelist s) then acc + p else acc | None => acc end) vals acc).
  { induction vals as [|v rest IH]; intros acc Ha; cbn; [assumption|]. apply IH.
    destruct (bonded_power s v) eqn:E; [|assumption]. specialize (Hp _ _ E). destruct (mem v _); lia. }
  apply G. lia.
Qed.

(* C05 threshold: a prophecy becomes successful only on a claim whose currently whitelisted, bonded
   supporters reach the threshold of all whitelisted bonded power *)
Lemma success_needs_threshold s perm pid val cid s' pr :
  0 <= total_power s ->
  process_claim s perm pid val cid = Ok (s', pr) -> pr_status pr = 1 ->
  exists vals, In (pr_final pr, vals) (perm (add_claim cid val (pr_claims (old_prophecy s pid)))) /\
               ratio_ge (claim_power s vals) (total_power s) = true.
Proof.
  intros Htot H Hs. apply process_claim_inv in H. destruct H as (_ & _ & Hst & _ & _ & Hpr).
  cbn zeta in Hpr. cbn [pr_claims] in Hpr.
  remember (old_prophecy s pid <| pr_claims := add_claim cid val (pr_claims (old_prophecy s pid)) |>
              <| pr_vclaims := pr_vclaims (old_prophecy s pid) ++ [(val, cid)] |>) as pr1 eqn:Epr1.
  assert (Hst1 : pr_status pr1 = 0) by (subst pr1; exact Hst).
  assert (Hcl : pr_claims pr1 = add_claim cid val (pr_claims (old_prophecy s pid))) by (subst pr1; reflexivity).
  rewrite Hcl in Hpr. clear Epr1.
  set (order := perm (add_claim cid val (pr_claims (old_prophecy s pid)))) in *.
  unfold process_completion in Hpr.
  destruct (highest_loop s order (-1) (-1) 0) as [[best bestp] claimed] eqn:Hh.
  apply highest_loop_spec in Hh. destruct Hh as (_ & _ & _ & H4).
  destruct (ratio_ge bestp (total_power s)) eqn:Hr.
  - assert (Hfin : pr_final pr = best) by (subst pr; reflexivity). rewrite Hfin.
    destruct H4 as [(E1 & E2)|(E1 & vals & Hin & Hp)].
    + subst bestp. unfold ratio_ge in Hr. exfalso.
      destruct (Z.eqb_spec (total_power s) 0) as [E0|E0]; [discriminate|].
      apply Z.leb_le in Hr. lia.
    + exists vals. split; [assumption|]. rewrite Hp. assumption.
  - destruct (ratio_lt _ _); subst pr; cbn in Hs; try discriminate; try (rewrite Hst1 in Hs; discriminate); congruence.
Qed.

Lemma mem_app_r x l : mem x (l ++ [x]) = true.
Proof. unfold mem. rewrite existsb_app. cbn. rewrite Z.eqb_refl. apply orb_true_r. Qed.

Definition credit_denom (ct : content) : Z := if ct_type ct =? 1 then ct_symbol ct + PEG else ct_symbol ct.

Lemma process_successful_claim_effect s cid s' :
  process_successful_claim s cid = Ok s' ->
  exists ct, get cid (br_contents s) = Some ct /\ 0 <= ct_amount ct /\ (ct_type ct = 1 \/ ct_type ct = 2) /\
    mem (ct_receiver ct) (br_blocked s) = false /\
    (forall a d, bal (br_bank s') a d = bal (br_bank s) a d + ind ((a =? ct_receiver ct) && (d =? credit_denom ct)) (ct_amount ct)) /\
    (forall d, sup (br_bank s') d = sup (br_bank s) d + ind (d =? credit_denom ct) (ct_amount ct)) /\
    (ct_type ct = 1 -> mem (credit_denom ct) (br_peggy s') = true) /\
    br_prophecies s' = br_prophecies s /\ br_whitelist s' = br_whitelist s.
Proof.
  unfold process_successful_claim. destruct (get cid (br_contents s)) as [ct|]; [|discriminate].
  destruct (Z.ltb_spec (ct_amount ct) 0) as [|Hamt]; [discriminate|].
  intros H. exists ct. split; [reflexivity|]. split; [assumption|]. unfold credit_denom.
  assert (Hmax : Z.max 0 (ct_amount ct) = ct_amount ct) by lia.
  destruct (Z.eqb_spec (ct_type ct) 1) as [E1|E1].
  - set (d := ct_symbol ct + PEG) in *.
    set (s1 := if mem d (br_peggy s) then s else s <| br_peggy := br_peggy s ++ [d] |>) in *.
    assert (Hb1 : br_bank s1 = br_bank s) by (unfold s1; destruct (mem d (br_peggy s)); reflexivity).
    assert (Hbl : br_blocked s1 = br_blocked s) by (unfold s1; destruct (mem d (br_peggy s)); reflexivity).
    assert (Hpg : mem d (br_peggy s1) = true).
    { unfold s1. destruct (mem d (br_peggy s)) eqn:Em; [assumption|]. cbn. apply mem_app_r. }
    assert (Hpr : br_prophecies s1 = br_prophecies s /\ br_whitelist s1 = br_whitelist s)
      by (unfold s1; destruct (mem d (br_peggy s)); split; reflexivity).
    rewrite Hb1, Hbl in H.
    destruct (mem (ct_receiver ct) (br_blocked s)) eqn:Ebl; [discriminate|].
    destruct (send _ _ _ _ _) as [b2|] eqn:Hs; [|discriminate]. injection H as <-.
    apply send_effect in Hs. destruct Hs as (_ & Hsb & Hss).
    destruct (mint_effect (br_bank s) BRIDGE_MODULE d (ct_amount ct)) as (Hmb & Hms).
    split; [left; assumption|]. split; [reflexivity|]. split; [|split; [|split; [intros _; exact Hpg|exact Hpr]]].
    + intros a dd. cbn. rewrite Hsb, Hmb, Hmax. unfold ind.
      repeat match goal with |- context [?p =? ?q] => destruct (Z.eqb_spec p q); subst end; cbn [andb]; try lia; try congruence.
    + intros dd. cbn. rewrite Hss, Hms, Hmax. unfold ind. destruct (dd =? d); lia.
  - destruct (Z.eqb_spec (ct_type ct) 2) as [E2|E2]; [|discriminate].
    set (d := ct_symbol ct) in *.
    destruct (mem (ct_receiver ct) (br_blocked s)) eqn:Ebl; [discriminate|].
    destruct (send _ _ _ _ _) as [b2|] eqn:Hs; [|discriminate]. injection H as <-.
    apply send_effect in Hs. destruct Hs as (_ & Hsb & Hss).
    destruct (mint_effect (br_bank s) BRIDGE_MODULE d (ct_amount ct)) as (Hmb & Hms).
    split; [right; assumption|]. split; [reflexivity|]. split; [|split; [|split; [intros; congruence|split; reflexivity]]].
    + intros a dd. cbn. rewrite Hsb, Hmb, Hmax. unfold ind.
      repeat match goal with |- context [?p =? ?q] => destruct (Z.eqb_spec p q); subst end; cbn [andb]; try lia; try congruence.
    + intros dd. cbn. rewrite Hss, Hms, Hmax. unfold ind. destruct (dd =? d); lia.
Qed.

(* C06 / C05: what one claim message does *)
Lemma create_claim_effect s perm pid val cid ct s' :
  create_claim s perm pid val cid ct = Ok s' ->
  pr_status (old_prophecy s pid) = 0 /\
  exists pr, get pid (br_prophecies s') = Some pr /\
    (forall pid', pid' <> pid -> get pid' (br_prophecies s') = get pid' (br_prophecies s)) /\
    (pr_status pr <> 1 -> br_bank s' = br_bank s /\ br_peggy s' = br_peggy s) /\
    (pr_status pr = 1 ->
       exists ctf, get (pr_final pr) (set cid ct (br_contents s)) = Some ctf /\ 0 <= ct_amount ctf /\
         (ct_type ctf = 1 \/ ct_type ctf = 2) /\ mem (ct_receiver ctf) (br_blocked s) = false /\
         (forall a d, bal (br_bank s') a d = bal (br_bank s) a d + ind ((a =? ct_receiver ctf) && (d =? credit_denom ctf)) (ct_amount ctf)) /\
         (forall d, sup (br_bank s') d = sup (br_bank s) d + ind (d =? credit_denom ctf) (ct_amount ctf)) /\
         (ct_type ctf = 1 -> mem (credit_denom ctf) (br_peggy s') = true)).
Proof.
  unfold create_claim. intros H. repeat inv1 H;
  match goal with Hp : process_claim _ _ _ _ _ = Ok (?s1, ?pr) |- _ =>
    pose proof (process_claim_inv _ _ _ _ _ _ _ Hp) as (_ & _ & Hst & _ & Hs1 & _); (split; [exact Hst|]); exists pr; subst s1 end.
  - apply Z.eqb_eq in E. apply process_successful_claim_effect in H.
    destruct H as (ctf & Hg & Ha & Ht & Hbl & Hb & Hsu & Hpg & Hpr & _). cbn in Hg, Hbl, Hb, Hsu.
    split; [rewrite Hpr; cbn; apply get_set_same|]. split; [intros pid' Hne; rewrite Hpr; cbn; apply get_set_other; assumption|].
    split; [contradiction|]. intros _. exists ctf. repeat split; assumption.
  - apply Z.eqb_neq in E. subst s'. cbn.
    split; [apply get_set_same|]. split; [intros pid' Hne; apply get_set_other; assumption|].
    split; [intros _; split; reflexivity|contradiction].
Qed.

(* finality: a prophecy that is no longer pending accepts no claim, and no claim on another event touches it *)
Lemma finalised_rejects s perm pid val cid ct :
  pr_status (old_prophecy s pid) <> 0 -> exists e, create_claim s perm pid val cid ct = e /\ is_ok e = false.
Proof.
  intros Hst. eexists. split; [reflexivity|].
  destruct (create_claim s perm pid val cid ct) eqn:E; try reflexivity.
  apply create_claim_effect in E. destruct E as (E0 & _). unfold old_prophecy in *. cbn in E0. contradiction.
Qed.

From Coq Require Import Permutation.

Lemma claims_total_perm s l1 l2 : Permutation l1 l2 -> claims_total s l1 = claims_total s l2.
Proof.
  unfold claims_total. induction 1 as [|x l l' Hp IH|x y l|l l' l'' H1 IH1 H2 IH2]; cbn [fold_right]; try lia.
Qed.

Definition powers_nonneg (s : bridge_state) : Prop := forall v p, bonded_power s v = Some p -> 0 <= p.

Lemma claims_total_nonneg s l : powers_nonneg s -> 0 <= claims_total s l.
Proof.
  intros Hp. unfold claims_total. induction l as [|[c v] r IH]; cbn [fold_right snd]; [lia|].
  pose proof (claim_power_nonneg s v Hp). lia.
Qed.

Lemma claims_total_two s l c1 v1 c2 v2 :
  powers_nonneg s -> In (c1, v1) l -> In (c2, v2) l -> c1 <> c2 ->
  claim_power s v1 + claim_power s v2 <= claims_total s l.
Proof.
  intros Hp. induction l as [|[c v] rest IH]; intros H1 H2 Hne; [contradiction|].
  cbn [claims_total fold_right snd]. fold (claims_total s rest).
  assert (Hall : forall c' v', In (c', v') rest -> claim_power s v' <= claims_total s rest).
  { clear -Hp. induction rest as [|[c0 v0] r IHr]; intros c' v' Hin; [contradiction|].
    cbn [claims_total fold_right snd]. fold (claims_total s r).
    pose proof (claims_total_nonneg s r Hp).
    pose proof (claim_power_nonneg s v0 Hp).
    destruct Hin as [[= -> ->]|Hin]; [lia|]. specialize (IHr _ _ Hin). lia. }
  pose proof (claim_power_nonneg s v Hp).
  destruct H1 as [[= -> ->]|H1]; destruct H2 as [[= -> ->]|H2].
  - congruence.
  - specialize (Hall _ _ H2). lia.
  - specialize (Hall _ _ H1). lia.
  - specialize (IH H1 H2 Hne). lia.
Qed.

(* C05 / C09: the outcome does not depend on the order in which the claim map is ranged over *)
Lemma completion_order_independent s l1 l2 pr :
  Permutation l1 l2 -> powers_nonneg s -> claims_total s l1 <= total_power s ->
  pr_status (process_completion s l1 pr) = pr_status (process_completion s l2 pr) /\
  (pr_status (process_completion s l1 pr) = 1 -> pr_status pr <> 1 ->
   pr_final (process_completion s l1 pr) = pr_final (process_completion s l2 pr)).
Proof.
  intros Hperm Hp Hle. unfold process_completion.
  destruct (highest_loop s l1 (-1) (-1) 0) as [[b1 p1] t1] eqn:H1.
  destruct (highest_loop s l2 (-1) (-1) 0) as [[b2 p2] t2] eqn:H2.
  apply highest_loop_spec in H1, H2.
  destruct H1 as (T1 & G1 & F1 & C1). destruct H2 as (T2 & G2 & F2 & C2).
  assert (Ht : t1 = t2) by (rewrite T1, T2, (claims_total_perm s _ _ Hperm); reflexivity).
  assert (Hpeq : p1 = p2).
  { rewrite Forall_forall in F1, F2.
    assert (A : p1 <= p2).
    { destruct C1 as [(E & _)|(_ & v & Hin & Hv)]; [lia|].
      specialize (F2 (b1, v) (Permutation_in _ Hperm Hin)). cbn [snd] in F2. lia. }
    assert (B : p2 <= p1).
    { destruct C2 as [(E & _)|(_ & v & Hin & Hv)]; [lia|].
      specialize (F1 (b2, v) (Permutation_in _ (Permutation_sym Hperm) Hin)). cbn [snd] in F1. lia. }
    lia. }
  subst p2 t2.
  destruct (ratio_ge p1 (total_power s)) eqn:Hr.
  - split; [reflexivity|]. intros _ _. cbn.
    destruct C1 as [(E & _)|(Hgt1 & v1 & Hin1 & Hv1)].
    + (* p1 = -1 cannot reach the threshold *)
      exfalso. subst p1. unfold ratio_ge in Hr. destruct (Z.eqb_spec (total_power s) 0); [discriminate|].
      apply Z.leb_le in Hr.
      pose proof (claims_total_nonneg s l1 Hp).
      lia.
    + destruct C2 as [(E & _)|(_ & v2 & Hin2 & Hv2)]; [lia|].
      destruct (Z.eq_dec b1 b2) as [|Hne]; [assumption|]. exfalso.
      pose proof (claims_total_two s l1 b1 v1 b2 v2 Hp Hin1 (Permutation_in _ (Permutation_sym Hperm) Hin2) Hne) as Htwo.
      rewrite Hv1, Hv2 in Htwo. unfold ratio_ge in Hr.
      destruct (Z.eqb_spec (total_power s) 0) as [E0|E0].
      * apply Z.ltb_lt in Hr. lia.
      * apply Z.leb_le in Hr.
        pose proof (claims_total_nonneg s l1 Hp).
        lia.
  - rewrite <- (claims_total_perm s _ _ Hperm), <- T1.
    destruct (ratio_lt _ _); (split; [reflexivity|]); cbn; intros; congruence.
Qed.

(* ---- histories of claim messages: each event is credited at most once ---- *)
Record claim_msg := mkClaimMsg { cm_pid : Z; cm_val : Z; cm_cid : Z; cm_content : content }.

Definition status_of (s : bridge_state) (pid : Z) : Z := pr_status (old_prophecy s pid).

(* one delivered claim transaction (any iteration order of the claim map): new state, and the event
   credited by it, if any *)
Definition deliver_claim (perm : list (Z * list Z) -> list (Z * list Z)) (s : bridge_state) (m : claim_msg)
  : bridge_state * option Z :=
  match create_claim s perm (cm_pid m) (cm_val m) (cm_cid m) (cm_content m) with
  | Ok s' => (s', if (status_of s' (cm_pid m) =? 1) then Some (cm_pid m) else None)
  | _ => (s, None)
  end.

Fixpoint run_claims (perm : list (Z * list Z) -> list (Z * list Z)) (s : bridge_state) (ms : list claim_msg)
  : bridge_state * list Z :=
  match ms with
  | [] => (s, [])
  | m :: rest =>
    let '(s1, c) := deliver_claim perm s m in
    let '(s2, cs) := run_claims perm s1 rest in
    (s2, match c with Some p => p :: cs | None => cs end)
  end.

Lemma status_stable perm s m pid :
  status_of s pid <> 0 -> status_of (fst (deliver_claim perm s m)) pid = status_of s pid.
Proof.
  intros Hst. unfold deliver_claim.
  destruct (create_claim s perm (cm_pid m) (cm_val m) (cm_cid m) (cm_content m)) as [s'| |] eqn:E; try reflexivity.
  cbn [fst]. apply create_claim_effect in E. destruct E as (E0 & pr & Hg & Hother & _).
  destruct (Z.eq_dec pid (cm_pid m)) as [->|Hne]; [unfold status_of in Hst; contradiction|].
  unfold status_of, old_prophecy. rewrite (Hother _ Hne). reflexivity.
Qed.

Lemma run_claims_credited perm ms : forall s pid,
  In pid (snd (run_claims perm s ms)) -> status_of s pid = 0.
Proof.
  induction ms as [|m rest IH]; intros s pid Hin; cbn [run_claims] in Hin; [contradiction|].
  destruct (deliver_claim perm s m) as [s1 c] eqn:Ed.
  destruct (run_claims perm s1 rest) as [s2 cs] eqn:Er. cbn [snd] in Hin.
  assert (Hrest : In pid cs -> status_of s pid = 0).
  { intros Hc. assert (H1 : status_of s1 pid = 0) by (apply IH; rewrite Er; exact Hc).
    destruct (Z.eq_dec (status_of s pid) 0) as [|Hne]; [assumption|].
    pose proof (status_stable perm s m pid Hne) as Hs. rewrite Ed in Hs. cbn in Hs. congruence. }
  destruct c as [p|]; [|auto]. destruct Hin as [<-|Hc]; [|auto].
  unfold deliver_claim in Ed.
  destruct (create_claim s perm (cm_pid m) (cm_val m) (cm_cid m) (cm_content m)) as [s'| |] eqn:E; try (injection Ed as _ Hc; discriminate).
  injection Ed as <- Hc. destruct (status_of s' (cm_pid m) =? 1); [|discriminate]. injection Hc as <-.
  apply create_claim_effect in E. destruct E as (E0 & _). exact E0.
Qed.

Theorem credited_at_most_once perm ms : forall s, NoDup (snd (run_claims perm s ms)).
Proof.
  induction ms as [|m rest IH]; intros s; cbn [run_claims]; [constructor|].
  destruct (deliver_claim perm s m) as [s1 c] eqn:Ed.
  pose proof (IH s1) as Hnd. pose proof (run_claims_credited perm rest s1) as Hcr.
  destruct (run_claims perm s1 rest) as [s2 cs]. cbn [snd] in *.
  destruct c as [p|]; [|assumption]. constructor; [|assumption].
  intros Hin. specialize (Hcr p Hin).
  unfold deliver_claim in Ed.
  destruct (create_claim s perm (cm_pid m) (cm_val m) (cm_cid m) (cm_content m)) as [s'| |] eqn:E; try (injection Ed as _ Hc; discriminate).
  injection Ed as <- Hc. destruct (Z.eqb_spec (status_of s' (cm_pid m)) 1) as [E1|]; [|discriminate]. injection Hc as <-. lia.
Qed.

(* ---- the blacklist is what the administrator's last accepted message says ---- *)
Lemma mem_true_iff x l : mem x l = true <-> In x l.
Proof.
  unfold mem. rewrite existsb_exists. split; [intros (y & Hy & E); apply Z.eqb_eq in E; subst; exact Hy|intros H; exists x; split; [exact H|apply Z.eqb_refl]].
Qed.

Lemma set_blacklist_effect s is_admin sender addrs s' :
  set_blacklist s is_admin sender addrs = Ok s' ->
  is_admin = true /\ br_blacklist s' = addrs /\ br_bank s' = br_bank s /\ br_prophecies s' = br_prophecies s /\
  br_paused s' = br_paused s /\ br_peggy s' = br_peggy s /\ br_accounts s' = br_accounts s.
Proof.
  unfold set_blacklist. destruct (mem sender (br_accounts s)); cbn [negb]; [|discriminate].
  destruct is_admin; cbn [negb]; [|discriminate]. intros [= <-]. repeat split; reflexivity.
Qed.

Lemma set_blacklist_refused s sender addrs : exists e, set_blacklist s false sender addrs = e /\ is_ok e = false.
Proof. eexists. split; [reflexivity|]. unfold set_blacklist. destruct (mem sender (br_accounts s)); reflexivity. Qed.

(* after an accepted update every listed account is refused by lock and burn, whatever else the message says; an account
   that is not listed is not stopped by the blacklist *)
Lemma blacklist_takes_effect s sender addrs s' :
  set_blacklist s true sender addrs = Ok s' ->
  (forall a is_burn sd amount symbol ceth, In a addrs -> is_ok (lock_or_burn s' is_burn sd a amount symbol ceth) = false) /\
  (forall a, ~ In a addrs -> mem a (br_blacklist s') = false).
Proof.
  intros H. apply set_blacklist_effect in H. destruct H as (_ & Hb & _). split.
  - intros a is_burn sd amount symbol ceth Hin. unfold lock_or_burn.
    destruct ((amount <=? 0) || (ceth <? LOCK_GAS_COST)); [reflexivity|]. destruct (br_paused s'); [reflexivity|].
    destruct (Bool.eqb is_burn (negb (mem symbol (br_peggy s')))); [reflexivity|]. destruct (negb (mem sd (br_accounts s'))); [reflexivity|].
    rewrite Hb. rewrite (proj2 (mem_true_iff a addrs) Hin). reflexivity.
  - intros a Hn. rewrite Hb. destruct (mem a addrs) eqn:E; [|reflexivity]. apply mem_true_iff in E. contradiction.
Qed.
