(* The well-formedness that the C01 / C02 history theorems ask of every visited state (pool store in key order, recorded
   amounts non-negative) is itself kept by every delivered transaction: it is a premise on the first state only. *)
From Coq Require Import ZArith Lia Bool List.
From RecordUpdate Require Import RecordUpdate.
From Sif Require Import Base.Outcome Base.SdkMath Base.Store Base.Bank
  Model.ClpCalc Model.ClpTypes Model.ClpState Model.ClpMsgs Proofs.BankProofs Proofs.ClpInv Proofs.ClpUnits Proofs.ClpUnitsHist Proofs.UnlockHist.
Import ListNotations.
Local Open Scope Z_scope.

Definition pool_nn (p : pool) : Prop := 0 <= p_nb p /\ 0 <= p_eb p /\ 0 <= p_nc p /\ 0 <= p_ec p.
Definition GInv (s : clp_state) : Prop := wf (cs_pools s) /\ Forall (fun kv : Z * pool => pool_nn (snd kv)) (cs_pools s).

Lemma GInv_good s : GInv s -> good s.
Proof.
  intros [Hw Hf]. split; [exact Hw|]. intros a p Hg. apply get_In in Hg. destruct (proj1 (Forall_forall _ _) Hf _ Hg) as (A & B & C & D). auto.
Qed.
Lemma GInv_find s a p : GInv s -> get a (cs_pools s) = Some p -> pool_nn p.
Proof. intros [_ Hf] Hg. apply get_In in Hg. exact (proj1 (Forall_forall _ _) Hf _ Hg). Qed.
Lemma GInv_set s s' a p : GInv s -> cs_pools s' = set a p (cs_pools s) -> pool_nn p -> GInv s'.
Proof. intros [Hw Hf] E Hp. unfold GInv. rewrite E. split; [apply wf_set; exact Hw|apply Forall_set; assumption]. Qed.
Lemma GInv_same s s' : cs_pools s' = cs_pools s -> GInv s -> GInv s'.
Proof. unfold GInv. intros ->. auto. Qed.

Lemma swap_one_nn tr sent sp r f res fee sp' :
  swap_one tr sent sp r f = Ok (res, fee, sp') -> 0 <= sp_nb sp' /\ 0 <= sp_eb sp'.
Proof. unfold swap_one. destruct tr; intros H; repeat inv1 H; use_uints; subst; cbn; lia. Qed.

Lemma handle_GInv s m s' : GInv s -> handle s m = Ok s' -> GInv s'.
Proof.
  intros HG H. destruct m; cbn [handle] in H.
  - (* CreatePool *)
    unfold create_pool in H. repeat inv1 H. subst s'. cbn in Hx3. destruct ((ext =? 0) || (native =? 0)) eqn:E0; [discriminate|]. injection Hx3 as <- <- <- <-.
    use_requires. apply Z.leb_le in Hx. unfold POOL_THRESHOLD in Hx.
    match goal with Hs : bsend _ _ _ asset ext = Ok _ |- _ => apply bsend_ok, send_effect in Hs; destruct Hs as (He & _) end.
    eapply (GInv_set s); [exact HG|reflexivity|]. unfold pool_nn, new_pool. cbn. lia.
  - (* AddLiquidity *)
    unfold add_liquidity in H. repeat inv1 H. use_get_pool.
    match goal with Hg : get asset (cs_pools s) = Some ?p |- _ => destruct (GInv_find _ _ _ HG Hg) as (A & B & C & D) end. use_uints. subst.
    destruct (find_lp s asset signer); repeat inv1 H; subst s'; (eapply (GInv_set s); [exact HG|reflexivity|unfold pool_nn; cbn; lia]).
  - (* RemoveLiquidity *)
    unfold remove_liquidity in H. repeat inv1 H. use_get_pool.
    match goal with Hg : get asset (cs_pools s) = Some ?p |- _ => destruct (GInv_find _ _ _ HG Hg) as (A & B & C & D) end. use_uints. subst.
    match goal with Hp : prune_lp _ _ _ _ = (?c, _) |- _ => apply prune_lp_frame in Hp; destruct Hp as (_ & Hpl & _) end.
    unfold keeper_remove in H. repeat inv1 H; subst s'; (eapply (GInv_set s); [exact HG|cbn; rewrite ?Hpl; reflexivity|unfold pool_nn; cbn; lia]).
  - (* RemoveLiquidityUnits *)
    unfold remove_liquidity_units in H. repeat inv1 H. use_get_pool.
    match goal with Hg : get asset (cs_pools s) = Some ?p |- _ => destruct (GInv_find _ _ _ HG Hg) as (A & B & C & D) end. use_uints. subst.
    match goal with Hp : prune_lp _ _ _ _ = (?c, _) |- _ => apply prune_lp_frame in Hp; destruct Hp as (_ & Hpl & _) end.
    unfold keeper_remove in H. repeat inv1 H; subst s'; (eapply (GInv_set s); [exact HG|cbn; rewrite ?Hpl; reflexivity|unfold pool_nn; cbn; lia]).
  - (* Swap *)
    repeat inv1 H. subst. unfold swap in *. repeat inv1 Hx. subst. use_get_pool.
    match goal with Hq : (if negb (sent =? ROWAN) && negb (recv =? ROWAN) then _ else _) = Ok _ |- _ =>
      destruct (negb (sent =? ROWAN) && negb (recv =? ROWAN)); [repeat inv1 Hq|injection Hq as <- <-] end; subst; use_get_pool.
    + (* two legs *)
      rewrite ?pools_set_pool, ?pools_with_bank in *.
      match goal with Hs1 : swap_one true _ (to_spool ?inp) _ _ = Ok (_, _, ?sp1), Hg1 : get sent (cs_pools s) = Some ?inp |- _ =>
        destruct (swap_one_nn _ _ _ _ _ _ _ _ Hs1) as [N1 N2]; destruct (GInv_find _ _ _ HG Hg1) as (A1 & B1 & C1 & D1);
        assert (G1 : GInv (set_pool (with_bank s x5) sent (upd_balances inp sp1))) by (eapply (GInv_set s); [exact HG|reflexivity|unfold pool_nn, upd_balances; cbn; lia]) end.
      match goal with Hs2 : swap_one _ _ (to_spool ?outp) _ _ = Ok (_, _, ?sp2), Hg2 : get _ (set sent _ (cs_pools s)) = Some ?outp |- _ =>
        destruct (swap_one_nn _ _ _ _ _ _ _ _ Hs2) as [M1 M2];
        assert (Hnn : pool_nn outp) by (eapply (GInv_find _ _ _ G1); rewrite pools_set_pool, pools_with_bank; exact Hg2);
        destruct Hnn as (A2 & B2 & C2 & D2) end.
      eapply (GInv_set _ _ _ _ G1); [reflexivity|unfold pool_nn, upd_balances; cbn; lia].
    + rewrite ?pools_with_bank in *.
      match goal with Hs2 : swap_one _ _ (to_spool ?outp) _ _ = Ok (_, _, ?sp2), Hg2 : get _ (cs_pools s) = Some ?outp |- _ =>
        destruct (swap_one_nn _ _ _ _ _ _ _ _ Hs2) as [M1 M2]; destruct (GInv_find _ _ _ HG Hg2) as (A2 & B2 & C2 & D2) end.
      eapply (GInv_set s); [exact HG|reflexivity|unfold pool_nn, upd_balances; cbn; lia].
  - (* Unlock *)
    unfold unlock in H. repeat inv1 H. subst s'.
    match goal with Hp : prune_lp _ _ _ _ = (?c, _) |- _ => apply prune_lp_frame in Hp; destruct Hp as (_ & Hpl & _) end.
    apply (GInv_same s); [rewrite pools_set_lp; exact Hpl|exact HG].
  - (* CancelUnlock *)
    unfold cancel_unlock in H. repeat inv1 H. subst s'.
    match goal with Hp : prune_lp _ _ _ _ = (?c, _) |- _ => apply prune_lp_frame in Hp; destruct Hp as (_ & Hpl & _) end.
    apply (GInv_same s); [rewrite pools_set_lp; exact Hpl|exact HG].
  - (* Decommission *)
    unfold decommission in H. repeat inv1 H. subst s'.
    match goal with Hr : refund_all _ _ _ _ _ _ _ _ _ = Ok _ |- _ => apply refund_all_pools in Hr end.
    destruct HG as [Hw Hf]. unfold GInv. cbn. rewrite Hx4. split; [apply wf_del; exact Hw|apply Forall_del; exact Hf].
  - (* AddToBucket *)
    unfold add_to_bucket in H. repeat inv1 H. subst s'. apply (GInv_same s); [reflexivity|exact HG].
Qed.

Lemma deliver_GInv s fee m : GInv s -> GInv (fst (deliver s fee m)).
Proof.
  intros HG. unfold deliver. set (s0 := with_bank s (credit (cs_bank s) (signer_of m) ROWAN (- fee))).
  assert (H0 : GInv s0) by exact HG.
  destruct (handle s0 m) as [s'| |] eqn:E; cbn [fst]; try exact H0. exact (handle_GInv s0 m s' H0 E).
Qed.

(* signers other than the module account *)
Definition signers_ok (txs : list (Z * clp_msg)) : Prop := Forall (fun t => signer_of (snd t) <> CLP_MODULE) txs.

Lemma good_run_of_GInv txs : forall s, GInv s -> signers_ok txs -> good_run s txs.
Proof.
  induction txs as [|[fee m] rest IH]; intros s HG Hs; cbn [good_run]; [exact I|].
  inversion Hs as [|? ? H1 H2]; subst. cbn [snd] in H1. split; [apply GInv_good; exact HG|]. split; [exact H1|].
  apply IH; [apply deliver_GInv; exact HG|exact H2].
Qed.

(* C01 over transaction histories, with a premise on the first state only *)
Theorem run_txs_gap_full txs s : GInv s -> signers_ok txs ->
  forall d, gap s d <= gap (run_txs s txs) d /\
            (forallb (fun t => negb (is_decommission (snd t))) txs = true -> gap (run_txs s txs) d = gap s d).
Proof. intros HG Hs. apply run_txs_gap. apply good_run_of_GInv; assumption. Qed.
Theorem run_txs_solvent_full txs s : GInv s -> signers_ok txs -> solvent s -> solvent (run_txs s txs).
Proof. intros HG Hs. apply run_txs_solvent. apply good_run_of_GInv; assumption. Qed.
Lemma run_txs_GInv txs : forall s, GInv s -> GInv (run_txs s txs).
Proof. induction txs as [|[fee m] rest IH]; intros s HG; cbn [run_txs]; [exact HG|]. apply IH. apply deliver_GInv. exact HG. Qed.

(* C02 over transaction histories: the only condition left along the run is the exclusion of finding F-14 *)
Fixpoint no_one_sided_run (s : clp_state) (txs : list (Z * clp_msg)) : Prop :=
  match txs with
  | [] => True
  | (fee, m) :: rest => not_one_sided_add s m /\ no_one_sided_run (fst (deliver s fee m)) rest
  end.
Lemma units_run_of txs : forall s, GInv s -> no_one_sided_run s txs -> units_run s txs.
Proof.
  induction txs as [|[fee m] rest IH]; intros s HG Hn; cbn [units_run]; [exact I|]. destruct Hn as [H1 H2].
  split; [exact (proj1 HG)|]. split; [exact H1|]. apply IH; [apply deliver_GInv; exact HG|exact H2].
Qed.
Theorem run_txs_UInv_full txs s : GInv s -> no_one_sided_run s txs -> UInv s -> UInv (run_txs s txs).
Proof. intros HG Hn. apply run_txs_UInv. apply units_run_of; assumption. Qed.
