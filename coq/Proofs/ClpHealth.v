(* C04 / C13: a removal from a pool that is enabled for margin trading is executed only if the pool it leaves behind has a
   health of at least the removal-queue threshold (the providers cannot pull the depth away from under the open positions). *)
From Coq Require Import ZArith Lia Bool List.
From RecordUpdate Require Import RecordUpdate.
From Sif Require Import Base.Outcome Base.SdkMath Base.Store Base.Bank Model.ClpCalc Model.ClpTypes Model.ClpState Model.ClpMsgs Proofs.BankProofs Proofs.ClpInv.
Import ListNotations.
Local Open Scope Z_scope.

Lemma health_gate_ok ps a pl : health_gate ps a pl = Ok tt ->
  existsb (Z.eqb a) (cp_margin ps) = true -> cp_rq_threshold ps <= pool_health (p_nb pl) (p_nl pl) (p_eb pl) (p_el pl).
Proof.
  unfold health_gate. intros H Hm. rewrite Hm in H. apply require_ok in H. apply negb_true_iff in H. apply Z.ltb_ge in H. exact H.
Qed.

Lemma keeper_remove_pool s signer asset pl we wn l lft ed nd s' :
  keeper_remove s signer asset pl we wn l lft ed nd = Ok s' -> get asset (cs_pools s') = Some pl.
Proof.
  unfold keeper_remove. intros H. repeat inv1 H; subst s'; cbn; rewrite ?pools_set_lp, ?pools_del_lp, ?pools_with_bank, ?pools_set_pool; apply get_set_same.
Qed.

Theorem remove_liquidity_health s sg a w asym s' :
  remove_liquidity s sg a w asym = Ok s' -> existsb (Z.eqb a) (cp_margin (cs_params s)) = true ->
  exists pl', get a (cs_pools s') = Some pl' /\ cp_rq_threshold (cs_params s) <= pool_health (p_nb pl') (p_nl pl') (p_eb pl') (p_el pl').
Proof.
  intros H Hm. unfold remove_liquidity in H. repeat inv1 H.
  match goal with Hg : health_gate _ _ ?pl = Ok ?u |- _ => exists pl; split; [|destruct u; exact (health_gate_ok _ _ _ Hg Hm)] end.
  eapply keeper_remove_pool; eassumption.
Qed.

Theorem remove_liquidity_units_health s sg a u s' :
  remove_liquidity_units s sg a u = Ok s' -> existsb (Z.eqb a) (cp_margin (cs_params s)) = true ->
  exists pl', get a (cs_pools s') = Some pl' /\ cp_rq_threshold (cs_params s) <= pool_health (p_nb pl') (p_nl pl') (p_eb pl') (p_el pl').
Proof.
  intros H Hm. unfold remove_liquidity_units in H. repeat inv1 H.
  match goal with Hg : health_gate _ _ ?pl = Ok ?u |- _ => exists pl; split; [|destruct u; exact (health_gate_ok _ _ _ Hg Hm)] end.
  eapply keeper_remove_pool; eassumption.
Qed.
