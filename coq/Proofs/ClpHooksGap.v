(* C01 for the per-block processing of x/clp: the epoch payout of the rewards buckets (AfterEpochEnd) and the
   provider-distribution run of EndBlocker keep, for every token, the difference between what the module account holds
   and what pools, custody and buckets record. *)
From Coq Require Import ZArith Lia Bool List.
From RecordUpdate Require Import RecordUpdate.
From Sif Require Import Base.Outcome Base.SdkMath Base.Store Base.Bank
  Model.ClpCalc Model.ClpTypes Model.ClpState Model.ClpMsgs Model.ClpEpoch Proofs.BankProofs Proofs.ClpInv.
Import ListNotations.
Local Open Scope Z_scope.

(* ---------- AfterEpochEnd ---------- *)
Lemma sub_bucket_effect s a amt s1 :
  sub_bucket s a amt = Some s1 ->
  0 <= amt /\ cs_bank s1 = cs_bank s /\ cs_pools s1 = cs_pools s /\ cs_lps s1 = cs_lps s /\ cs_params s1 = cs_params s /\
  (forall d, recorded s1 d = recorded s d - (if d =? a then amt else 0)).
Proof.
  unfold sub_bucket. destruct (get a (cs_buckets s)) as [b|] eqn:Hg; [|discriminate].
  destruct (Z.ltb_spec amt 0); [discriminate|]. destruct (Z.ltb_spec b amt); [discriminate|]. cbn [orb]. intros [= <-].
  repeat split; try reflexivity; try lia. intros d. unfold recorded, rec_native, rec_ext. cbn -[sumf getz get set].
  destruct (Z.eqb_spec d a) as [->|Hne].
  - rewrite getz_set_same. unfold getz. rewrite Hg. lia.
  - rewrite getz_set_other by exact Hne. lia.
Qed.

Lemma pay_wallet_gap s a addr amt d : addr <> CLP_MODULE -> gap (pay_wallet s a addr amt) d = gap s d.
Proof.
  intros Hne. unfold pay_wallet. destruct (sub_bucket s a amt) as [s1|] eqn:Hs; [|reflexivity].
  apply sub_bucket_effect in Hs. destruct Hs as (Hamt & Hb & _ & _ & _ & Hr).
  destruct (send (cs_bank s1) CLP_MODULE addr a amt) as [b|] eqn:Hsend; [|reflexivity].
  apply send_effect in Hsend. destruct Hsend as (_ & Hbal & _).
  unfold gap. rewrite bank_with_bank, recorded_with_bank, Hbal, Hr, Hb.
  rewrite Z.eqb_refl. destruct (Z.eqb_spec CLP_MODULE addr) as [E|_]; [congruence|]. cbn [andb].
  destruct (Z.eqb_spec d a); lia.
Qed.
Lemma pay_wallet_frame s a addr amt :
  cs_pools (pay_wallet s a addr amt) = cs_pools s /\ cs_lps (pay_wallet s a addr amt) = cs_lps s /\ cs_params (pay_wallet s a addr amt) = cs_params s.
Proof.
  unfold pay_wallet. destruct (sub_bucket s a amt) as [s1|] eqn:Hs; [|auto].
  apply sub_bucket_effect in Hs. destruct Hs as (_ & _ & Hp & Hl & Hps & _).
  destruct (send (cs_bank s1) CLP_MODULE addr a amt); auto.
Qed.

Lemma reinvest_gap s a addr amt u s1 u' : reinvest s a addr amt u = Ok (s1, u') -> forall d, gap s1 d = gap s d.
Proof.
  unfold reinvest. intros H d. destruct (get a (cs_pools s)) as [pl|] eqn:Hg; [|injection H as <- _; reflexivity].
  repeat inv1 H.
  destruct (calculate_pool_units _ _ _ _ _ _ _ _) as [[[[pu lpu] st] sw]| |]; try discriminate; [|injection H as <- _; reflexivity].
  repeat inv1 H. destruct (sub_bucket s a amt) as [s2|] eqn:Hs; [|injection H as <- _; reflexivity].
  repeat inv1 H. subst s1. apply sub_bucket_effect in Hs. destruct Hs as (_ & Hb & Hp & _ & _ & Hr).
  use_uints. subst.
  unfold gap. rewrite bank_set_pool, recorded_set_pool, Hp, Hg, Hb, Hr. cbn [fopt]. unfold f_native, f_ext. cbn.
  destruct (d =? ROWAN); destruct (d =? a); lia.
Qed.
Lemma reinvest_params s a addr amt u s1 u' : reinvest s a addr amt u = Ok (s1, u') -> cs_params s1 = cs_params s.
Proof.
  unfold reinvest. intros H. destruct (get a (cs_pools s)) as [pl|]; [|injection H as <- _; reflexivity].
  repeat inv1 H.
  destruct (calculate_pool_units _ _ _ _ _ _ _ _) as [[[[pu lpu] st] sw]| |]; try discriminate; [|injection H as <- _; reflexivity].
  repeat inv1 H. destruct (sub_bucket s a amt) as [s2|] eqn:Hs; [|injection H as <- _; reflexivity].
  repeat inv1 H. subst s1. apply sub_bucket_effect in Hs. destruct Hs as (_ & _ & _ & _ & Hps & _). exact Hps.
Qed.

(* no provider record is keyed by the module account *)
Definition no_module_lp (lps : list (Z * lprov)) : Prop := Forall (fun kv => fst kv <> CLP_MODULE) lps.

Lemma pay_all_gap lps : forall s a amts s', no_module_lp lps -> pay_all s a lps amts = Ok s' -> forall d, gap s' d = gap s d.
Proof.
  induction lps as [|[addr l] lps IH]; intros s a amts s' Hn H d; cbn [pay_all] in H; [injection H as <-; reflexivity|].
  destruct amts as [|amt amts]; [injection H as <-; reflexivity|].
  inversion Hn as [|? ? Hne Hrest]; subst. cbn [fst] in Hne.
  destruct (cp_rewards_wallet (cs_params s)).
  - rewrite (IH _ _ _ _ Hrest H d). rewrite gap_set_lp. apply pay_wallet_gap. exact Hne.
  - repeat inv1 H. rewrite (IH _ _ _ _ Hrest H d). rewrite gap_set_lp. eapply reinvest_gap. eassumption.
Qed.

Lemma epoch_asset_gap s a all s' :
  no_module_lp all -> epoch_asset s a all = Ok s' -> forall d, gap s' d = gap s d.
Proof.
  unfold epoch_asset. intros Hn H d.
  assert (Hf : no_module_lp (filter (fun kv => eligible s (snd kv)) all)).
  { unfold no_module_lp in *. apply Forall_forall. intros kv Hin. apply filter_In in Hin. exact (proj1 (Forall_forall _ _) Hn kv (proj1 Hin)). }
  destruct (filter (fun kv => eligible s (snd kv)) all) as [|kv0 rest] eqn:E; [injection H as <-; reflexivity|].
  destruct (get a (cs_buckets s)) as [bucket|]; [|injection H as <-; reflexivity].
  repeat inv1 H.
  match goal with Hp : pay_all _ _ _ _ = Ok ?s1 |- _ => pose proof (pay_all_gap _ _ _ _ _ Hf Hp d) as Hg end.
  destruct (get a (cs_pools x0)) as [pl|] eqn:Hgp; [|injection H as <-; exact Hg].
  repeat inv1 H. subst s'. rewrite <- Hg. unfold gap. rewrite bank_set_pool, recorded_set_pool, Hgp. cbn [fopt]. unfold f_native, f_ext. cbn.
  destruct (d =? ROWAN); destruct (d =? a); lia.
Qed.

Lemma epoch_assets_gap order : forall s s',
  Forall (fun kv => no_module_lp (snd kv)) order -> epoch_assets s order = Ok s' -> forall d, gap s' d = gap s d.
Proof.
  induction order as [|[a lps] rest IH]; intros s s' Hn H d; cbn [epoch_assets] in H; [injection H as <-; reflexivity|].
  inversion Hn as [|? ? Hh Hrest]; subst. cbn [snd] in Hh. repeat inv1 H.
  rewrite (IH _ _ Hrest H d). eapply epoch_asset_gap; eassumption.
Qed.

(* the epoch hook pays the buckets out (to wallets, or re-invested into the pools): for every token the module account
   holds exactly as much beyond the recorded amounts as before *)
Theorem after_epoch_end_gap s s' :
  Forall (fun kv => no_module_lp (snd kv)) (cs_lps s) -> after_epoch_end s = Ok s' -> forall d, gap s' d = gap s d.
Proof. unfold after_epoch_end. apply epoch_assets_gap. Qed.

(* ---------- EndBlocker: provider distribution (LPPD) ---------- *)
From Sif Require Import Model.ClpRewards Model.ClpHooks Proofs.SdkMathProofs Proofs.PayoutProofs.

(* the amounts of a distribution list that go to the addresses selected by g *)
Definition per_sum (g : Z -> bool) (per : list (Z * Z)) : Z :=
  fold_right (fun e acc => (if g (fst e) then snd e else 0) + acc) 0 per.
Definition ds_sum (g : Z -> bool) (ds : list pool_dist) : Z :=
  fold_right (fun d acc => let '(_, per, _) := d in per_sum g per + acc) 0 ds.

Lemma addr_total_inner a per : forall acc,
  fold_left (fun acc2 e => if fst e =? a then acc2 + snd e else acc2) per acc = acc + per_sum (Z.eqb a) per.
Proof.
  induction per as [|e per IH]; intros acc; cbn [fold_left per_sum fold_right]; [lia|].
  rewrite IH. fold (per_sum (Z.eqb a) per). rewrite (Z.eqb_sym a (fst e)). destruct (fst e =? a); lia.
Qed.
Lemma addr_total_acc a ds : forall acc,
  fold_left (fun acc d => let '(_, per, _) := d in
     fold_left (fun acc2 e => if fst e =? a then acc2 + snd e else acc2) per acc) ds acc = acc + ds_sum (Z.eqb a) ds.
Proof.
  induction ds as [|[[asset per] tot] ds IH]; intros acc; cbn [fold_left ds_sum fold_right]; [lia|].
  rewrite IH, addr_total_inner. fold (ds_sum (Z.eqb a) ds). lia.
Qed.
Lemma addr_total_ds a ds : addr_total a ds = ds_sum (Z.eqb a) ds.
Proof. unfold addr_total. rewrite addr_total_acc. lia. Qed.

Lemma per_sum_ext g g' per : (forall e, In e per -> g (fst e) = g' (fst e)) -> per_sum g per = per_sum g' per.
Proof.
  induction per as [|e per IH]; intros H; cbn [per_sum fold_right]; [reflexivity|]. fold (per_sum g per) (per_sum g' per).
  rewrite (H e (or_introl eq_refl)), IH; [reflexivity|]. intros e' He'. apply H. right; exact He'.
Qed.
Lemma per_sum_split g h per : (forall x, g x && h x = false) ->
  per_sum (fun x => g x || h x) per = per_sum g per + per_sum h per.
Proof.
  intros Hd. induction per as [|e per IH]; cbn [per_sum fold_right]; [reflexivity|].
  fold (per_sum (fun x => g x || h x) per) (per_sum g per) (per_sum h per). rewrite IH. specialize (Hd (fst e)).
  destruct (g (fst e)); destruct (h (fst e)); cbn in *; try discriminate; lia.
Qed.
Lemma ds_sum_split g h ds : (forall x, g x && h x = false) ->
  ds_sum (fun x => g x || h x) ds = ds_sum g ds + ds_sum h ds.
Proof.
  intros Hd. induction ds as [|[[asset per] tot] ds IH]; cbn [ds_sum fold_right]; [reflexivity|].
  fold (ds_sum (fun x => g x || h x) ds) (ds_sum g ds) (ds_sum h ds). rewrite IH, (per_sum_split g h per Hd). lia.
Qed.
Lemma ds_sum_ext g g' ds :
  (forall asset per tot e, In (asset, per, tot) ds -> In e per -> g (fst e) = g' (fst e)) -> ds_sum g ds = ds_sum g' ds.
Proof.
  induction ds as [|[[asset per] tot] ds IH]; intros H; cbn [ds_sum fold_right]; [reflexivity|]. fold (ds_sum g ds) (ds_sum g' ds).
  rewrite IH by (intros a p t e Hi He; eapply H; [right; exact Hi|exact He]).
  rewrite (per_sum_ext g g' per); [reflexivity|]. intros e He. eapply H; [left; reflexivity|exact He].
Qed.
Lemma per_sum_false per : per_sum (fun _ => false) per = 0.
Proof. induction per as [|e per IHp]; cbn [per_sum fold_right]; [reflexivity|]. fold (per_sum (fun _ : Z => false) per). lia. Qed.
Lemma ds_sum_false ds : ds_sum (fun _ => false) ds = 0.
Proof.
  induction ds as [|[[asset per] tot] ds IH]; cbn [ds_sum fold_right]; [reflexivity|]. fold (ds_sum (fun _ => false) ds). rewrite IH, per_sum_false. reflexivity.
Qed.

(* summing, over a duplicate-free list of addresses, what each selected address receives = what the selected addresses
   of that list receive in total *)
Lemma sum_over_addresses (g : Z -> bool) (ds : list pool_dist) : forall order : list Z, NoDup order ->
  fold_right (fun a acc => (if g a then addr_total a ds else 0) + acc) 0 order
  = ds_sum (fun x => g x && inb x order) ds.
Proof.
  induction order as [|a rest IH]; intros Hnd; cbn [fold_right].
  - rewrite (ds_sum_ext _ (fun _ => false)); [rewrite ds_sum_false; reflexivity|]. intros. cbn. apply andb_false_r.
  - inversion Hnd as [|? ? Hnin Hnd']; subst. rewrite (IH Hnd'). rewrite addr_total_ds.
    rewrite (ds_sum_ext (fun x => g x && inb x (a :: rest)) (fun x => (g x && Z.eqb a x) || (g x && inb x rest))).
    + rewrite ds_sum_split.
      * f_equal. destruct (g a) eqn:Ga.
        -- apply ds_sum_ext. intros ? ? ? e _ _. destruct (Z.eqb_spec a (fst e)) as [<-|]; [rewrite Ga; reflexivity|rewrite andb_false_r; reflexivity].
        -- rewrite (ds_sum_ext _ (fun _ => false)); [rewrite ds_sum_false; reflexivity|].
           intros ? ? ? e _ _. destruct (Z.eqb_spec a (fst e)) as [<-|]; [rewrite Ga; reflexivity|rewrite andb_false_r; reflexivity].
      * intros x. destruct (Z.eqb_spec a x) as [<-|]; [|rewrite andb_false_r; reflexivity].
        assert (inb a rest = false).
        { unfold inb. apply not_true_is_false. intros Hc. apply existsb_exists in Hc. destruct Hc as (y & Hy & E). apply Z.eqb_eq in E. subst. contradiction. }
        rewrite H. rewrite !andb_false_r. reflexivity.
    + intros ? ? ? e _ _. unfold inb. cbn [existsb]. rewrite (Z.eqb_sym (fst e) a). destruct (g (fst e)); reflexivity.
Qed.

(* the module account after the payments: it has paid exactly the addresses whose payment did not fail *)
Lemma transfer_generic_module order : forall b ds b' failed,
  transfer_generic b order ds = (b', failed) -> NoDup order -> ~ In CLP_MODULE order ->
  bal b' CLP_MODULE ROWAN = bal b CLP_MODULE ROWAN
    - fold_right (fun a acc => (if negb (inb a failed) then addr_total a ds else 0) + acc) 0 order /\
  (forall x, In x failed -> In x order).
Proof.
  induction order as [|a rest IH]; intros b ds b' failed H Hnd Hm; cbn [transfer_generic] in H.
  - injection H as <- <-. cbn. split; [lia|intros x []].
  - inversion Hnd as [|? ? Hnin Hnd']; subst.
    assert (Hm' : ~ In CLP_MODULE rest) by (intros Hc; apply Hm; right; exact Hc).
    assert (Ha : a <> CLP_MODULE) by (intros ->; apply Hm; left; reflexivity).
    destruct (send b CLP_MODULE a ROWAN (addr_total a ds)) as [b1|] eqn:Hs.
    + destruct (IH _ _ _ _ H Hnd' Hm') as (Hb & Hf). split; [|intros x Hx; right; apply Hf; exact Hx].
      cbn [fold_right]. rewrite Hb.
      assert (Hna : inb a failed = false).
      { unfold inb. apply not_true_is_false. intros Hc. apply existsb_exists in Hc. destruct Hc as (y & Hy & E). apply Z.eqb_eq in E. subst. apply Hnin, Hf, Hy. }
      rewrite Hna. cbn [negb]. apply send_effect in Hs. destruct Hs as (_ & Hbal & _). rewrite Hbal.
      rewrite !Z.eqb_refl. destruct (Z.eqb_spec CLP_MODULE a); [congruence|]. cbn [andb]. lia.
    + destruct (transfer_generic b rest ds) as [b2 f2] eqn:Hr. injection H as <- <-.
      destruct (IH _ _ _ _ Hr Hnd' Hm') as (Hb & Hf). split.
      * cbn [fold_right]. unfold inb at 1. cbn [existsb]. rewrite Z.eqb_refl. cbn [orb negb]. rewrite Hb.
        f_equal. clear - Hnin. induction rest as [|x rest IHr]; cbn [fold_right]; [reflexivity|].
        rewrite IHr by (intros Hc; apply Hnin; right; exact Hc). unfold inb at 1 3. cbn [existsb].
        destruct (Z.eqb_spec x a) as [->|]; [exfalso; apply Hnin; left; reflexivity|]. reflexivity.
      * intros x [<-|Hx]; [left; reflexivity|right; apply Hf; exact Hx].
Qed.

(* ---------- the sorted, duplicate-free list of receiving addresses ---------- *)
Fixpoint asc (lo : Z) (l : list Z) : Prop := match l with [] => True | x :: l' => lo < x /\ asc x l' end.
Lemma asc_weaken lo lo' l : lo' <= lo -> asc lo l -> asc lo' l.
Proof. destruct l; cbn; [auto|]. intros ? [? ?]. split; [lia|assumption]. Qed.
Lemma insert_sorted_asc x : forall l lo, lo < x -> asc lo l -> asc lo (insert_sorted x l).
Proof.
  induction l as [|y l IH]; intros lo Hlo H; cbn [insert_sorted].
  - cbn. auto.
  - destruct H as [H1 H2]. destruct (Z.ltb_spec x y); [cbn; auto|]. destruct (Z.eqb_spec x y); [cbn; auto|].
    cbn. split; [exact H1|]. apply IH; [lia|exact H2].
Qed.
Lemma insert_sorted_in x y : forall l, In y (insert_sorted x l) <-> y = x \/ In y l.
Proof.
  induction l as [|z l IH]; cbn [insert_sorted]; [cbn; intuition|].
  destruct (Z.ltb_spec x z); [cbn; intuition|]. destruct (Z.eqb_spec x z) as [->|]; [cbn; intuition|].
  cbn [In]. rewrite IH. intuition.
Qed.
Lemma asc_notin lo l x : asc lo l -> x <= lo -> ~ In x l.
Proof.
  revert lo. induction l as [|y l IH]; intros lo H Hx; [intros []|]. destruct H as [H1 H2]. intros [->|Hin]; [lia|].
  exact (IH y H2 ltac:(lia) Hin).
Qed.
Lemma asc_nodup lo l : asc lo l -> NoDup l.
Proof.
  revert lo. induction l as [|y l IH]; intros lo H; [constructor|]. destruct H as [H1 H2].
  constructor; [eapply asc_notin; [exact H2|lia]|eapply IH; exact H2].
Qed.
Definition wf_addrs (l : list Z) : Prop := exists lo, asc lo l.
Lemma wf_addrs_insert x l : wf_addrs l -> wf_addrs (insert_sorted x l).
Proof.
  intros [lo H]. exists (Z.min lo x - 1). apply insert_sorted_asc; [lia|]. eapply asc_weaken; [|exact H]. lia.
Qed.
Lemma addrs_inner (per : list (Z * Z)) : forall acc, wf_addrs acc ->
  wf_addrs (fold_left (fun a e => insert_sorted (fst e) a) per acc) /\
  (forall x, In x (fold_left (fun a e => insert_sorted (fst e) a) per acc) <-> In x acc \/ In x (map fst per)).
Proof.
  induction per as [|e per IH]; intros acc Hw; cbn [fold_left map]; [split; [exact Hw|cbn; intuition]|].
  destruct (IH (insert_sorted (fst e) acc) (wf_addrs_insert _ _ Hw)) as [H1 H2]. split; [exact H1|].
  intros x. rewrite H2, insert_sorted_in. cbn [In]. intuition.
Qed.
Definition ds_addrs (ds : list pool_dist) : list Z := flat_map (fun d => let '(_, per, _) := d in map fst per) ds.
Lemma addrs_of_acc ds : forall acc, wf_addrs acc ->
  wf_addrs (fold_left (fun acc d => let '(_, per, _) := d in fold_left (fun a e => insert_sorted (fst e) a) per acc) ds acc) /\
  (forall x, In x (fold_left (fun acc d => let '(_, per, _) := d in fold_left (fun a e => insert_sorted (fst e) a) per acc) ds acc)
     <-> In x acc \/ In x (ds_addrs ds)).
Proof.
  induction ds as [|[[asset per] tot] ds IH]; intros acc Hw; cbn [fold_left ds_addrs flat_map]; [split; [exact Hw|cbn; intuition]|].
  destruct (addrs_inner per acc Hw) as [W1 I1]. destruct (IH _ W1) as [W2 I2]. split; [exact W2|].
  intros x. rewrite I2, I1, in_app_iff. fold (ds_addrs ds). intuition.
Qed.
Lemma addrs_of_spec ds : NoDup (addrs_of ds) /\ (forall x, In x (addrs_of ds) <-> In x (ds_addrs ds)).
Proof.
  destruct (addrs_of_acc ds [] (ex_intro _ 0 I)) as [[lo W] I2]. split; [eapply asc_nodup; exact W|].
  intros x. unfold addrs_of. rewrite I2. cbn. intuition.
Qed.

(* ---------- the write-back of the pools ---------- *)
Definition lppd_step (failed : list Z) (m : store pool) (d : pool_dist) : store pool :=
  let '(asset, sub) := pool_after_failures failed d in
  upd_pool asset (fun pl => if p_nb pl <? sub then pl else pl <| p_nb := p_nb pl - sub |>) m.
Definition d_asset (d : pool_dist) : Z := let '(a, _, _) := d in a.
Definition d_sub (failed : list Z) (d : pool_dist) : Z := snd (pool_after_failures failed d).

Lemma failed_inner failed per : forall acc,
  fold_left (fun acc e => if inb (fst e) failed then acc + snd e else acc) per acc = acc + per_sum (fun x => inb x failed) per.
Proof.
  induction per as [|e per IH]; intros acc; cbn [fold_left per_sum fold_right]; [lia|].
  rewrite IH. fold (per_sum (fun x => inb x failed) per). destruct (inb (fst e) failed); lia.
Qed.
Lemma per_sum_compl g per : PayoutProofs.asum per = per_sum g per + per_sum (fun x => negb (g x)) per.
Proof.
  induction per as [|e per IH]; cbn [PayoutProofs.asum per_sum fold_right]; [reflexivity|].
  fold (PayoutProofs.asum per) (per_sum g per) (per_sum (fun x => negb (g x)) per). rewrite IH. destruct (g (fst e)); cbn; lia.
Qed.
Lemma per_sum_nonneg g per : Forall (fun e => 0 <= snd e) per -> 0 <= per_sum g per.
Proof.
  induction 1 as [|e per He _ IH]; cbn [per_sum fold_right]; [lia|]. fold (per_sum g per). destruct (g (fst e)); lia.
Qed.

Lemma pools_fold failed : forall ds m,
  NoDup (map d_asset ds) ->
  (forall d, In d ds -> exists pl, get (d_asset d) m = Some pl /\ 0 <= d_sub failed d <= p_nb pl) ->
  let m' := fold_left (lppd_step failed) ds m in
  sumf f_native m' = sumf f_native m - fold_right (fun d acc => d_sub failed d + acc) 0 ds /\
  (forall k, fopt f_ext (get k m') = fopt f_ext (get k m)).
Proof.
  induction ds as [|d ds IH]; intros m Hnd Hall; cbn [fold_left fold_right]; [split; [lia|reflexivity]|].
  cbn [map] in Hnd. inversion Hnd as [|? ? Hnin Hnd']; subst.
  destruct (Hall d (or_introl eq_refl)) as (pl & Hg & Hsub).
  assert (E : lppd_step failed m d = set (d_asset d) (pl <| p_nb := p_nb pl - d_sub failed d |>) m).
  { unfold lppd_step, d_sub, d_asset in *. destruct d as [[asset per] tot]. cbn [pool_after_failures snd] in *.
    unfold upd_pool. rewrite Hg. destruct (Z.ltb_spec (p_nb pl) (tot - fold_left (fun acc e => if inb (fst e) failed then acc + snd e else acc) per 0)); [lia|reflexivity]. }
  rewrite E. set (m1 := set (d_asset d) (pl <| p_nb := p_nb pl - d_sub failed d |>) m).
  destruct (IH m1 Hnd') as [S1 S2].
  { intros d' Hd'. destruct (Hall d' (or_intror Hd')) as (pl' & Hg' & Hs'). exists pl'. split; [|exact Hs'].
    unfold m1. rewrite get_set_other; [exact Hg'|]. intros Ec. apply Hnin. rewrite <- Ec. apply in_map. exact Hd'. }
  split.
  - rewrite S1. unfold m1. rewrite sumf_set, Hg. cbn [fopt]. unfold f_native. cbn. lia.
  - intros k. rewrite S2. unfold m1. destruct (Z.eq_dec k (d_asset d)) as [->|Hne].
    + rewrite get_set_same, Hg. reflexivity.
    + rewrite get_set_other by exact Hne. reflexivity.
Qed.

Lemma d_sub_eq failed asset per tot :
  PayoutProofs.asum per = tot -> d_sub failed (asset, per, tot) = per_sum (fun x => negb (inb x failed)) per.
Proof.
  intros E. unfold d_sub. cbn [pool_after_failures snd]. rewrite failed_inner, <- E, (per_sum_compl (fun x => inb x failed) per). ring.
Qed.
Lemma sub_total failed ds :
  (forall asset per tot, In (asset, per, tot) ds -> PayoutProofs.asum per = tot) ->
  fold_right (fun d acc => d_sub failed d + acc) 0 ds = ds_sum (fun x => negb (inb x failed)) ds.
Proof.
  induction ds as [|[[asset per] tot] ds IH]; intros H; cbn [fold_right ds_sum]; [reflexivity|].
  fold (ds_sum (fun x => negb (inb x failed)) ds). rewrite IH by (intros a p t Hi; eapply H; right; exact Hi).
  rewrite (d_sub_eq failed asset per tot (H _ _ _ (or_introl eq_refl))). reflexivity.
Qed.
Lemma inb_true x l : In x l -> inb x l = true.
Proof. intros H. unfold inb. apply existsb_exists. exists x. split; [exact H|apply Z.eqb_refl]. Qed.

(* a distribution list paid out of the module account and written back to the pools: the gap of every token stays *)
Lemma distribution_gap s ds b' failed :
  transfer_generic (cs_bank s) (addrs_of ds) ds = (b', failed) ->
  NoDup (map d_asset ds) -> ~ In CLP_MODULE (ds_addrs ds) ->
  (forall asset per tot, In (asset, per, tot) ds ->
     PayoutProofs.asum per = tot /\ Forall (fun e => 0 <= snd e) per /\ exists pl, get asset (cs_pools s) = Some pl /\ tot <= p_nb pl) ->
  forall d, gap (s <| cs_bank := b' |> <| cs_pools := fold_left (lppd_step failed) ds (cs_pools s) |>) d = gap s d.
Proof.
  intros Ht Hnd Hm Hall d.
  destruct (addrs_of_spec ds) as [Hnd_o Hin_o].
  assert (Hm_o : ~ In CLP_MODULE (addrs_of ds)) by (rewrite Hin_o; exact Hm).
  destruct (transfer_generic_module _ _ _ _ _ Ht Hnd_o Hm_o) as [Hbal _].
  rewrite (sum_over_addresses (fun a => negb (inb a failed)) ds (addrs_of ds) Hnd_o) in Hbal.
  rewrite (ds_sum_ext _ (fun x => negb (inb x failed))) in Hbal.
  2:{ intros asset per tot e Hi He. rewrite (inb_true (fst e) (addrs_of ds)); [apply andb_true_r|].
      apply Hin_o. unfold ds_addrs. apply in_flat_map. exists (asset, per, tot). split; [exact Hi|apply in_map; exact He]. }
  destruct (pools_fold failed ds (cs_pools s) Hnd) as [S1 S2].
  { intros [[asset per] tot] Hd. destruct (Hall _ _ _ Hd) as (E & Hnn & pl & Hg & Hle). exists pl. split; [exact Hg|].
    rewrite (d_sub_eq failed asset per tot E). split; [apply per_sum_nonneg; exact Hnn|].
    pose proof (per_sum_compl (fun x => inb x failed) per) as Hc. cbn beta in Hc. pose proof (per_sum_nonneg (fun x => inb x failed) per Hnn). lia. }
  rewrite (sub_total failed ds) in S1 by (intros a p t Hi; exact (proj1 (Hall _ _ _ Hi))).
  unfold gap, recorded, rec_native, rec_ext. cbn [cs_bank cs_pools cs_buckets].
  change (cs_buckets (s <| cs_bank := b' |> <| cs_pools := fold_left (lppd_step failed) ds (cs_pools s) |>)) with (cs_buckets s).
  change (cs_bank (s <| cs_bank := b' |> <| cs_pools := fold_left (lppd_step failed) ds (cs_pools s) |>)) with b'.
  change (cs_pools (s <| cs_bank := b' |> <| cs_pools := fold_left (lppd_step failed) ds (cs_pools s) |>)) with (fold_left (lppd_step failed) ds (cs_pools s)).
  rewrite S2. destruct (Z.eqb_spec d ROWAN) as [->|Hne].
  - rewrite S1, Hbal. lia.
  - rewrite (transfer_generic_denoms _ _ _ _ _ CLP_MODULE d Ht Hne). lia.
Qed.

(* ---------- the provider-distribution run itself ---------- *)
Lemma sorted_in_get {V} lo (m : store V) k v : sorted_from lo m -> In (k, v) m -> get k m = Some v.
Proof.
  revert lo. induction m as [|[k' v'] m IH]; intros lo Hs Hin; [destruct Hin|]. cbn [sorted_from] in Hs. destruct Hs as [H1 H2].
  cbn [get]. destruct Hin as [E|Hin].
  - injection E as -> ->. rewrite Z.ltb_irrefl, Z.eqb_refl. reflexivity.
  - assert (k' < k).
    { clear - H2 Hin. revert k' H2. induction m as [|[k2 v2] m IHm]; intros k' H2; [destruct Hin|]. cbn in H2. destruct H2 as [H3 H4].
      destruct Hin as [E|Hin]; [injection E as -> ->; exact H3|]. specialize (IHm Hin k2 H4). lia. }
    destruct (Z.ltb_spec k' k); [|lia]. eapply IH; eassumption.
Qed.
Lemma sorted_keys_nodup {V} lo (m : store V) : sorted_from lo m -> NoDup (map fst m).
Proof.
  revert lo. induction m as [|[k v] m IH]; intros lo Hs; [constructor|]. cbn in Hs. destruct Hs as [H1 H2]. cbn [map fst].
  constructor; [|eapply IH; exact H2].
  intros Hin. apply in_map_iff in Hin. destruct Hin as ([k' v'] & E & Hin). cbn in E. subst k'.
  clear - H2 Hin. revert k H2 Hin. induction m as [|[k2 v2] m IHm]; intros k H2 Hin; [destruct Hin|]. cbn in H2. destruct H2 as [H3 H4].
  destruct Hin as [E|Hin]; [injection E as -> ->; lia|]. apply (IHm k2 H4). 
  clear - H3 H4 Hin. exfalso. revert k2 H3 H4. induction m as [|[k3 v3] m IHm]; intros k2 H3 H4; [destruct Hin|]. cbn in H4. destruct H4 as [H5 H6].
  destruct Hin as [E|Hin]; [injection E as -> ->; lia|]. apply (IHm Hin k3); [lia|exact H6].
Qed.

Lemma round_rate_le rate nb : 0 <= rate <= PREC -> 0 <= nb -> dec_round_int (dec_mul rate (dec_of_int nb)) <= nb.
Proof.
  intros Hr Hn. pose proof PREC_pos. unfold dec_of_int, dec_mul. replace (rate * (nb * PREC)) with (rate * nb * PREC) by ring.
  rewrite chop_round_exact by nia. pose proof (dec_round_bounds (rate * nb) ltac:(nia)) as [_ Hb]. nia.
Qed.

(* what the run relies on: pools in key order; a pool that has providers has a non-negative native balance, positive units,
   providers with non-negative units, none of them the module account *)
Definition lppd_ready (s : clp_state) : Prop :=
  wf (cs_pools s) /\
  forall a pl, In (a, pl) (cs_pools s) -> lps_of a (cs_lps s) <> [] ->
    0 <= p_nb pl /\ 0 < p_units pl /\ Forall (fun l => 0 <= snd l /\ fst l <> CLP_MODULE) (lps_of a (cs_lps s)).

Lemma lppd_collect_spec s rate : lppd_ready s -> 0 <= rate <= PREC ->
  let ds := lppd_collect s rate in
  NoDup (map d_asset ds) /\ ~ In CLP_MODULE (ds_addrs ds) /\
  (forall asset per tot, In (asset, per, tot) ds ->
     PayoutProofs.asum per = tot /\ Forall (fun e => 0 <= snd e) per /\ exists pl, get asset (cs_pools s) = Some pl /\ tot <= p_nb pl).
Proof.
  intros [[lo Hs] Hr] Hrate. unfold lppd_collect.
  assert (G : forall m, (forall a pl, In (a, pl) m -> In (a, pl) (cs_pools s)) -> forall lo', sorted_from lo' m ->
    let ds := fold_right (fun kv acc =>
       match lps_of (fst kv) (cs_lps s) with
       | [] => acc
       | _ => let '(per, tot) := collect_provider_distribution (dec_of_int (p_nb (snd kv))) rate (p_units (snd kv)) (lps_of (fst kv) (cs_lps s)) in
              (fst kv, per, tot) :: acc
       end) [] m in
    (forall a, In a (map d_asset ds) -> In a (map fst m)) /\ NoDup (map d_asset ds) /\ ~ In CLP_MODULE (ds_addrs ds) /\
    (forall asset per tot, In (asset, per, tot) ds ->
       PayoutProofs.asum per = tot /\ Forall (fun e => 0 <= snd e) per /\ exists pl, get asset (cs_pools s) = Some pl /\ tot <= p_nb pl)).
  { induction m as [|[a pl] m IH]; intros Hsub lo' Hsm; cbn [fold_right].
    - split; [intros a []|split; [apply NoDup_nil|split; [intros []|intros ? ? ? []]]].
    - cbn [sorted_from] in Hsm. destruct Hsm as [Hlo Hsm].
      destruct (IH (fun a' pl' Hi => Hsub a' pl' (or_intror Hi)) a Hsm) as (I1 & I2 & I3 & I4). cbn [fst snd].
      destruct (lps_of a (cs_lps s)) as [|l0 lrest] eqn:El.
      + split; [intros a' Ha'; right; apply I1; exact Ha'|split; [exact I2|split; [exact I3|exact I4]]].
      + destruct (Hr a pl (Hsub a pl (or_introl eq_refl)) ltac:(rewrite El; discriminate)) as (Hnb & Hpu & Hlps). rewrite El in Hlps.
        pose proof (collect_provider_distribution_spec (dec_of_int (p_nb pl)) rate (p_units pl) (l0 :: lrest)
                      ltac:(unfold dec_of_int; pose proof PREC_pos; nia) (proj1 Hrate) Hpu
                      ltac:(eapply Forall_impl; [|exact Hlps]; intros ? [? _]; assumption)) as Hspec.
        cbv zeta in Hspec.
        destruct (collect_provider_distribution (dec_of_int (p_nb pl)) rate (p_units pl) (l0 :: lrest)) as [per tot].
        destruct Hspec as ((Ht0 & Htle) & Hsum & Hmap & HF2).
        split; [|split; [|split]].
        * intros a' [<-|Ha']; [left; reflexivity|right; apply I1; exact Ha'].
        * cbn [map d_asset]. constructor; [|exact I2]. intros Hin. apply I1 in Hin.
          pose proof (sorted_keys_nodup lo' ((a, pl) :: m) (conj Hlo Hsm)) as Hnd. cbn [map fst] in Hnd. inversion Hnd; contradiction.
        * cbn [ds_addrs flat_map]. rewrite in_app_iff. intros [Hin|Hin]; [|exact (I3 Hin)].
          rewrite Hmap in Hin. apply in_map_iff in Hin. destruct Hin as (l & El' & Hl). 
          exact (proj2 (proj1 (Forall_forall _ _) Hlps l Hl) El').
        * intros asset per' tot' [E|Hin]; [|exact (I4 _ _ _ Hin)]. injection E as <- <- <-.
          split; [exact Hsum|]. split.
          -- clear - HF2. remember (l0 :: lrest) as ls eqn:Els. clear Els. induction HF2 as [|l o ls os [Ho _] _ IHf]; constructor; assumption.
          -- exists pl. split; [eapply sorted_in_get; [exact Hs|apply Hsub; left; reflexivity]|].
             pose proof (round_rate_le rate (p_nb pl) Hrate Hnb). lia. }
  destruct (G (cs_pools s) (fun _ _ H => H) lo Hs) as (_ & G2 & G3 & G4). split; [exact G2|split; [exact G3|exact G4]].
Qed.

(* x/clp EndBlocker, provider distribution: every token's gap is kept *)
Theorem lppd_run_gap s s' :
  lppd_ready s -> Forall (fun p => 0 <= pd_rate p <= PREC) (cs_lppd_periods s) ->
  lppd_run s = Ok s' -> forall d, gap s' d = gap s d.
Proof.
  unfold lppd_run. intros Hready Hrates H d.
  destruct (find_lppd (cs_height s) (cs_lppd_periods s)) as [p|] eqn:Hf; [|injection H as <-; reflexivity].
  assert (Hrate : 0 <= pd_rate p <= PREC).
  { clear - Hf Hrates. induction (cs_lppd_periods s) as [|q qs IH]; [discriminate|]. cbn [find_lppd] in Hf. inversion Hrates; subst.
    destruct ((pd_start q <=? cs_height s) && (cs_height s <=? pd_end q)); [injection Hf as <-; assumption|apply IH; assumption]. }
  repeat inv1 H; [subst; reflexivity|]. subst s'.
  match goal with Ht : transfer_generic _ _ _ = (?b', ?failed) |- _ =>
    destruct (lppd_collect_spec s (pd_rate p) Hready Hrate) as (C1 & C2 & C3);
    exact (distribution_gap s _ b' failed Ht C1 C2 C3 d) end.
Qed.

(* ---------- EndBlocker: depth rewards ---------- *)
From Sif Require Import Proofs.RewardsProofs.

(* pool updates that touch neither balance nor custody *)
Lemma upd_pool_neutral k (f : pool -> pool) m :
  (forall p, f_native (f p) = f_native p /\ f_ext (f p) = f_ext p) ->
  sumf f_native (upd_pool k f m) = sumf f_native m /\ (forall d, fopt f_ext (get d (upd_pool k f m)) = fopt f_ext (get d m)).
Proof.
  intros Hf. unfold upd_pool. destruct (get k m) as [p|] eqn:Hg; [|split; reflexivity]. destruct (Hf p) as [H1 H2]. split.
  - rewrite sumf_set, Hg. cbn [fopt]. lia.
  - intros d. destruct (Z.eq_dec d k) as [->|Hne]; [rewrite get_set_same, Hg; cbn [fopt]; exact H2|rewrite get_set_other by exact Hne; reflexivity].
Qed.
Lemma upd_pool_add k amt m p :
  get k m = Some p ->
  sumf f_native (add_rewards_to_pool k amt m) = sumf f_native m + amt /\
  (forall d, fopt f_ext (get d (add_rewards_to_pool k amt m)) = fopt f_ext (get d m)) /\
  (forall d, get d m <> None -> get d (add_rewards_to_pool k amt m) <> None).
Proof.
  intros Hg. unfold add_rewards_to_pool, upd_pool. rewrite Hg. split; [|split].
  - rewrite sumf_set, Hg. cbn [fopt]. unfold f_native. cbn. lia.
  - intros d. destruct (Z.eq_dec d k) as [->|Hne]; [rewrite get_set_same, Hg; reflexivity|rewrite get_set_other by exact Hne; reflexivity].
  - intros d Hd. destruct (Z.eq_dec d k) as [->|Hne]; [rewrite get_set_same; discriminate|rewrite get_set_other by exact Hne; exact Hd].
Qed.

Definition tsum (ts : list (Z * Z)) : Z := fold_right (fun t acc => snd t + acc) 0 ts.

(* accumulation mode: every tuple's amount is added to its pool *)
Lemma add_all_tuples ts : forall m,
  (forall t, In t ts -> get (fst t) m <> None) ->
  let m' := fold_left (fun m t => add_rewards_to_pool (fst t) (snd t) m) ts m in
  sumf f_native m' = sumf f_native m + tsum ts /\ (forall d, fopt f_ext (get d m') = fopt f_ext (get d m)).
Proof.
  induction ts as [|t ts IH]; intros m Hall; cbn [fold_left tsum fold_right]; [split; [lia|reflexivity]|].
  destruct (get (fst t) m) as [p|] eqn:Hg; [|exfalso; exact (Hall t (or_introl eq_refl) Hg)].
  destruct (upd_pool_add (fst t) (snd t) m p Hg) as (A1 & A2 & A3).
  destruct (IH (add_rewards_to_pool (fst t) (snd t) m)) as [B1 B2]; [intros t' Ht'; apply A3; apply Hall; right; exact Ht'|].
  fold (tsum ts). split; [rewrite B1, A1; lia|intros d; rewrite B2, A2; reflexivity].
Qed.

(* distribution mode: when every rewarded pool has providers, the pools are left as they are and only lists are built *)
Lemma collect_all_tuples (lpss : store (store lprov)) ts : forall m ds,
  (forall t, In t ts -> get (fst t) m <> None -> lps_of (fst t) lpss <> []) ->
  fst (fold_left (fun (acc : store pool * list pool_dist) (t : Z * Z) =>
      let '(m, ds) := acc in
      match get (fst t) m with
      | None => acc
      | Some pl =>
        match lps_of (fst t) lpss with
        | [] => (add_rewards_to_pool (fst t) (snd t) m, ds)
        | lps => let '(per, tot) := collect_provider_distribution (dec_of_int (snd t)) PREC (p_units pl) lps in
                 (m, ds ++ [(fst t, per, tot)])
        end
      end) ts (m, ds)) = m.
Proof.
  induction ts as [|t ts IH]; intros m ds Hall; cbn [fold_left]; [reflexivity|].
  destruct (get (fst t) m) as [pl|] eqn:Hg.
  - destruct (lps_of (fst t) lpss) as [|l0 lrest] eqn:El.
    + exfalso. apply (Hall t (or_introl eq_refl)); [rewrite Hg; discriminate|exact El].
    + destruct (collect_provider_distribution _ _ _ _) as [per tot]. apply IH. intros t' Ht'. apply Hall. right; exact Ht'.
  - apply IH. intros t' Ht'. apply Hall. right; exact Ht'.
Qed.

Lemma rpd_all ds failed : forall m,
  let m' := fold_left (fun m d =>
        let '(asset, amt) := pool_after_failures failed d in
        if amt =? 0 then m else upd_pool asset (fun pl => pl <| p_rpd := p_rpd pl + amt |>) m) ds m in
  sumf f_native m' = sumf f_native m /\ (forall d, fopt f_ext (get d m') = fopt f_ext (get d m)).
Proof.
  induction ds as [|d0 ds IH]; intros m; cbn [fold_left]; [split; reflexivity|].
  destruct (pool_after_failures failed d0) as [asset amt]. destruct (amt =? 0); [apply IH|].
  destruct (upd_pool_neutral asset (fun pl => pl <| p_rpd := p_rpd pl + amt |>) m ltac:(intros p; split; reflexivity)) as [A1 A2].
  destruct (IH (upd_pool asset (fun pl => pl <| p_rpd := p_rpd pl + amt |>) m)) as [B1 B2].
  split; [rewrite B1, A1; reflexivity|intros d; rewrite B2, A2; reflexivity].
Qed.

Lemma reset_rpd_neutral (m : store pool) :
  sumf f_native (map (fun kv => (fst kv, (snd kv) <| p_rpd := 0 |>)) m) = sumf f_native m /\
  (forall d, fopt f_ext (get d (map (fun kv => (fst kv, (snd kv) <| p_rpd := 0 |>)) m)) = fopt f_ext (get d m)) /\
  (forall d, get d m <> None -> get d (map (fun kv => (fst kv, (snd kv) <| p_rpd := 0 |>)) m) <> None).
Proof.
  induction m as [|[k p] m (I1 & I2 & I3)]; [repeat split; auto|]. cbn [map sumf fold_right fst snd get]. split; [|split].
  - unfold sumf in I1. rewrite I1. reflexivity.
  - intros d. destruct (k <? d); [apply I2|]. destruct (k =? d); reflexivity.
  - intros d. destruct (k <? d); [apply I3|]. destruct (k =? d); [discriminate|auto].
Qed.

Lemma get_in_store {V} k (m : store V) v : get k m = Some v -> In (k, v) m.
Proof.
  induction m as [|[k' v'] m IH]; cbn [get]; [discriminate|]. destruct (k' <? k); [intros H; right; apply IH; exact H|].
  destruct (Z.eqb_spec k' k) as [->|]; [intros [= ->]; left; reflexivity|discriminate].
Qed.
(* the tuples name pools of the store they were computed from *)
Lemma collect_tuples_assets raws : forall remaining t, In t (fst (collect_tuples raws remaining)) -> In (fst t) (map fst raws).
Proof.
  induction raws as [|[a raw] rest IH]; intros remaining t; cbn [collect_tuples]; [intros []|].
  destruct (remaining =? 0); [intros []|]. destruct (raw =? 0); [intros H; right; eapply IH; exact H|].
  destruct (collect_tuples rest (remaining - (if remaining <? raw then remaining else raw))) as [ts tot] eqn:E. cbn [fst].
  intros [<-|H]; [left; reflexivity|right]. apply (IH (remaining - (if remaining <? raw then remaining else raw))). rewrite E. exact H.
Qed.
Lemma in_keys_get {V} lo (m : store V) k : sorted_from lo m -> In k (map fst m) -> get k m <> None.
Proof.
  intros Hs Hin. apply in_map_iff in Hin. destruct Hin as ([k' v] & E & Hin). cbn in E. subst k'.
  rewrite (sorted_in_get lo m k v Hs Hin). discriminate.
Qed.

(* what the rewards step relies on *)
Definition rewards_ready (s : clp_state) : Prop :=
  wf (cs_pools s) /\ pools_wf (cs_pools s) /\ Forall period_wf (cs_reward_periods s) /\ 0 <= cs_accu s /\
  0 <= bal (cs_bank s) CLP_MODULE ROWAN /\
  (* every pool has providers (C02: its units are the sum of theirs), none of them the module account *)
  (forall a, get a (cs_pools s) <> None -> lps_of a (cs_lps s) <> []).

Lemma distribute_depth_rewards_gap s bd p s' minted burned :
  rewards_ready s -> period_wf p -> 0 <= bd ->
  distribute_depth_rewards s bd p = Ok (s', minted, burned) -> forall d, gap s' d = gap s d.
Proof.
  intros ([lo Hs] & Hpw & _ & _ & Hbal & Hlps) Hp Hbd H d. unfold distribute_depth_rewards in H.
  destruct (Z.eqb_spec bd 0); [injection H as <- _ _; reflexivity|].
  set (td := total_depth (cs_pools s) p) in *.
  set (pools0 := if cs_height s =? rp_start p then map (fun kv => (fst kv, (snd kv) <| p_rpd := 0 |>)) (cs_pools s) else cs_pools s) in *.
  assert (N0 : sumf f_native pools0 = sumf f_native (cs_pools s) /\ (forall d, fopt f_ext (get d pools0) = fopt f_ext (get d (cs_pools s))) /\
               (forall k, get k (cs_pools s) <> None -> get k pools0 <> None) /\ map fst pools0 = map fst (cs_pools s) /\ pools_wf pools0).
  { unfold pools0. destruct (cs_height s =? rp_start p).
    - destruct (reset_rpd_neutral (cs_pools s)) as (R1 & R2 & R3). repeat split; auto; [rewrite map_map; reflexivity|apply map_reset_wf; exact Hpw].
    - repeat split; auto. }
  destruct N0 as (N1 & N2 & N3 & N4 & N5).
  assert (G0 : forall d, gap (s <| cs_pools := pools0 |>) d = gap s d).
  { intros d'. unfold gap, recorded, rec_native, rec_ext. cbn -[sumf get getz bal fopt]. rewrite N1, N2. reflexivity. }
  destruct (Z.leb_spec td 0); [injection H as <- _ _; apply G0|].
  pose proof (collect_tuples_le (raw_distributions pools0 p td bd) bd Hbd (raw_distributions_nonneg pools0 p td bd Hp N5 ltac:(lia) Hbd)) as (Hle & _ & Hsum).
  pose proof (collect_tuples_assets (raw_distributions pools0 p td bd) bd) as Hassets.
  destruct (collect_tuples (raw_distributions pools0 p td bd) bd) as [tuples to_mint]. cbn [fst snd] in *.
  assert (Hex : forall t, In t tuples -> get (fst t) pools0 <> None).
  { intros t Ht. apply N3. eapply in_keys_get; [exact Hs|]. rewrite <- N4. specialize (Hassets t Ht). unfold raw_distributions in Hassets. rewrite map_map in Hassets. exact Hassets. }
  destruct (mint_effect (cs_bank s) CLP_MODULE ROWAN to_mint) as [Hmint _].
  destruct (rp_distribute p); cbn [negb] in H.
  - (* distribution to the providers' wallets *)
    assert (Hhave : forall t, In t tuples -> get (fst t) pools0 <> None -> lps_of (fst t) (cs_lps s) <> []).
    { intros t Ht Hg. apply Hlps. intros Hc. apply Hg. clear - Hc N4 Hs.
      destruct (get (fst t) pools0) as [pl0|] eqn:E; [|reflexivity]. exfalso.
      assert (Hin : In (fst t) (map fst pools0)) by (apply get_in_store in E; apply in_map_iff; exists (fst t, pl0); split; [reflexivity|exact E]).
      rewrite N4 in Hin. pose proof (in_keys_get lo (cs_pools s) (fst t) Hs Hin). contradiction. }
    pose proof (collect_all_tuples (cs_lps s) tuples pools0 [] Hhave) as Hsame.
    match type of H with context [fold_left ?f tuples (pools0, [])] =>
      change (fst (fold_left f tuples (pools0, [])) = pools0) in Hsame; destruct (fold_left f tuples (pools0, [])) as [pools1 ds] end.
    cbn [fst] in Hsame. subst pools1.
    change (cs_bank (s <| cs_pools := pools0 |>)) with (cs_bank s) in *.
    match type of H with context [transfer_generic ?b ?o ?dd] => destruct (transfer_generic b o dd) as [b2 failed] eqn:Et end.
    match type of H with context [fold_left ?f ds pools0] => destruct (rpd_all ds failed pools0) as [P1 P2] end.
    cbn zeta in P1, P2.
    change (cs_bank (s <| cs_pools := pools0 |>)) with (cs_bank s) in *.
    destruct (Z.ltb_spec (bal b2 CLP_MODULE ROWAN - bal (cs_bank s) CLP_MODULE ROWAN) 0); [discriminate|].
    destruct (burn b2 CLP_MODULE ROWAN (bal b2 CLP_MODULE ROWAN - bal (cs_bank s) CLP_MODULE ROWAN)) as [b3|] eqn:Eb.
    + injection H as <- _ _. apply burn_effect in Eb. destruct Eb as [Hb _].
      unfold gap, recorded, rec_native, rec_ext. cbn -[sumf get getz bal fopt]. rewrite P1, P2, N1, N2, Hb.
      destruct (Z.eqb_spec d ROWAN) as [->|Hne].
      * rewrite !Z.eqb_refl. cbn [andb]. lia.
      * destruct (Z.eqb_spec d ROWAN); [contradiction|]. rewrite andb_false_r.
        rewrite (transfer_generic_denoms _ _ _ _ _ CLP_MODULE d Et Hne). rewrite Hmint. destruct (Z.eqb_spec d ROWAN); [contradiction|]. rewrite andb_false_r. lia.
    + (* the burn can only fail for lack of funds, and the module account holds at least what it held before *)
      exfalso. unfold burn in Eb. destruct (_ <=? 0); [discriminate|].
      destruct (Z.ltb_spec (bal b2 CLP_MODULE ROWAN) (bal b2 CLP_MODULE ROWAN - bal (cs_bank s) CLP_MODULE ROWAN)); [lia|discriminate].
  - (* accumulation in the pools *)
    injection H as <- _ _. destruct (add_all_tuples tuples pools0 Hex) as [A1 A2]. cbn zeta in A1, A2.
    unfold gap, recorded, rec_native, rec_ext. cbn -[sumf get getz bal fopt]. rewrite A1, A2, N1, N2, Hmint.
    assert (Hts : tsum tuples = to_mint) by exact Hsum.
    destruct (Z.eqb_spec d ROWAN) as [->|Hne].
    + rewrite !Z.eqb_refl. cbn [andb]. lia.
    + rewrite andb_false_r. lia.
Qed.

Lemma find_period_wf h ps p : Forall period_wf ps -> find_period h ps = Some p -> period_wf p.
Proof.
  induction ps as [|q qs IH]; intros Hall Hf; [discriminate|]. cbn [find_period] in Hf. inversion Hall; subst.
  destruct ((rp_start q <=? h) && (h <=? rp_end q)); [injection Hf as <-; assumption|apply IH; assumption].
Qed.

Theorem rewards_run_gap s s' minted burned :
  rewards_ready s -> rewards_run s = Ok (s', minted, burned) -> forall d, gap s' d = gap s d.
Proof.
  intros Hready H d. unfold rewards_run in H.
  destruct (find_period (cs_height s) (cs_reward_periods s)) as [p0|] eqn:Hf; [|injection H as <- _ _; reflexivity].
  destruct (rp_alloc p0 =? 0); [injection H as <- _ _; reflexivity|].
  pose proof (find_period_wf _ _ _ (proj1 (proj2 (proj2 Hready))) Hf) as Hp0.
  set (p := if rp_mod p0 =? 0 then _ else p0) in *.
  assert (Hp : period_wf p) by (unfold p; destruct (rp_mod p0 =? 0); [exact Hp0|exact Hp0]).
  repeat inv1 H.
  - (* distribution block *)
    match goal with Hd : distribute_depth_rewards s ?bd p = Ok _ |- _ =>
      assert (Hbd : 0 <= bd) by (use_uints; lia);
      pose proof (distribute_depth_rewards_gap s bd p _ _ _ Hready Hp Hbd Hd d) as Hg end.
    subst s'. rewrite <- Hg. reflexivity.
  - subst s'. reflexivity.
Qed.

(* x/clp EndBlocker as a whole (provider distribution, then depth rewards) *)
Theorem end_block_gap s s' minted burned :
  lppd_ready s -> Forall (fun p => 0 <= pd_rate p <= PREC) (cs_lppd_periods s) ->
  (forall s1, lppd_run s = Ok s1 -> rewards_ready s1) ->
  end_block s = Ok (s', minted, burned) -> forall d, gap s' d = gap s d.
Proof.
  intros Hl Hr Hnext H d. unfold end_block in H. repeat inv1 H.
  match goal with Hlp : lppd_run s = Ok ?s1 |- _ => rewrite (rewards_run_gap s1 s' minted burned (Hnext s1 Hlp) H d); exact (lppd_run_gap s s1 Hl Hr Hlp d) end.
Qed.

(* ---------- chains of blocks: transactions and the per-block processing together ---------- *)
Inductive chain_step :=
| CTx (fee : Z) (m : clp_msg)       (* a delivered transaction *)
| CEndBlock                         (* x/clp EndBlocker: provider distribution, then depth rewards *)
| CEpochEnd                         (* the epoch hook: rewards buckets paid out *)
| CNextBlock.                       (* the height advances *)
(* a hook that fails leaves the state of the block as it was (the model's Err / Panic outcomes are observed separately) *)
Definition chain_apply (s : clp_state) (st : chain_step) : clp_state :=
  match st with
  | CTx fee m => fst (deliver s fee m)
  | CEndBlock => match end_block s with Ok (s', _, _) => s' | _ => s end
  | CEpochEnd => match after_epoch_end s with Ok s' => s' | _ => s end
  | CNextBlock => s <| cs_height := cs_height s + 1 |>
  end.
(* what each step relies on in the state it starts from *)
Definition step_ready (s : clp_state) (st : chain_step) : Prop :=
  match st with
  | CTx _ m => good s /\ signer_of m <> CLP_MODULE
  | CEndBlock => lppd_ready s /\ Forall (fun p => 0 <= pd_rate p <= PREC) (cs_lppd_periods s) /\
                 (forall s1, lppd_run s = Ok s1 -> rewards_ready s1)
  | CEpochEnd => Forall (fun kv => no_module_lp (snd kv)) (cs_lps s)
  | CNextBlock => True
  end.
Fixpoint chain_ready (s : clp_state) (steps : list chain_step) : Prop :=
  match steps with
  | [] => True
  | st :: rest => step_ready s st /\ chain_ready (chain_apply s st) rest
  end.
Definition no_decommission (st : chain_step) : bool := match st with CTx _ m => negb (is_decommission m) | _ => true end.

Lemma chain_apply_gap s st : step_ready s st ->
  forall d, gap s d <= gap (chain_apply s st) d /\ (no_decommission st = true -> gap (chain_apply s st) d = gap s d).
Proof.
  intros Hr d. destruct st as [fee m| | |]; cbn [chain_apply step_ready no_decommission] in *.
  - destruct Hr as [[Hwf Hc] Hsg]. destruct (deliver_gap s fee m Hsg Hwf Hc d) as [H1 H2]. split; [exact H1|].
    intros Hn. apply H2. destruct (is_decommission m); [discriminate|reflexivity].
  - destruct Hr as (H1 & H2 & H3). destruct (end_block s) as [[[s' mi] bu]| |] eqn:E; [|split; [lia|reflexivity]..].
    rewrite (end_block_gap s s' mi bu H1 H2 H3 E d). split; [lia|reflexivity].
  - destruct (after_epoch_end s) as [s'| |] eqn:E; [|split; [lia|reflexivity]..].
    rewrite (after_epoch_end_gap s s' Hr E d). split; [lia|reflexivity].
  - split; [apply Z.le_refl|reflexivity].
Qed.

(* C01 over chains of blocks: the module account covers the recorded amounts after every step, and holds exactly as
   much beyond them as at the start as long as no pool is decommissioned *)
Theorem chain_gap : forall steps s, chain_ready s steps ->
  forall d, gap s d <= gap (fold_left chain_apply steps s) d /\
            (forallb no_decommission steps = true -> gap (fold_left chain_apply steps s) d = gap s d).
Proof.
  induction steps as [|st rest IH]; intros s Hr d; cbn [fold_left forallb]; [split; [lia|reflexivity]|].
  destruct Hr as [Hst Hrest]. destruct (chain_apply_gap s st Hst d) as [A1 A2]. destruct (IH _ Hrest d) as [B1 B2].
  split; [lia|]. intros Hn. apply andb_true_iff in Hn. destruct Hn as [N1 N2]. rewrite (B2 N2). exact (A2 N1).
Qed.
Corollary chain_solvent steps s : chain_ready s steps -> solvent s -> solvent (fold_left chain_apply steps s).
Proof. intros Hr Hs d. destruct (chain_gap steps s Hr d) as [H _]. specialize (Hs d). lia. Qed.
