(* C01: the clp module account holds exactly what pools, custody and buckets record (+ decommission
   remainder).  gap s d = balance - recorded is preserved by every message and hook, and only grows
   (by the truncation remainder) when a pool is decommissioned. *)
From Coq Require Import ZArith Lia Bool List.
From RecordUpdate Require Import RecordUpdate.
From Sif Require Import Base.Outcome Base.SdkMath Base.Store Base.Bank
  Model.ClpCalc Model.ClpTypes Model.ClpState Model.ClpMsgs Proofs.BankProofs.
Import ListNotations.
Local Open Scope Z_scope.

Definition f_native (p : pool) : Z := p_nb p + p_nc p.
Definition f_ext (p : pool) : Z := p_eb p + p_ec p.
Definition rec_native (s : clp_state) : Z := sumf f_native (cs_pools s).
Definition rec_ext (s : clp_state) (d : Z) : Z := fopt f_ext (get d (cs_pools s)).
Definition recorded (s : clp_state) (d : Z) : Z :=
  (if d =? ROWAN then rec_native s else 0) + rec_ext s d + getz d (cs_buckets s).
Definition gap (s : clp_state) (d : Z) : Z := bal (cs_bank s) CLP_MODULE d - recorded s d.

(* ---- generic inversion of the Outcome monad ---- *)
Lemma require_ok b : require b = Ok tt -> b = true.
Proof. destruct b; [reflexivity|discriminate]. Qed.
Lemma opt_or_fail_ok {A} (o : option A) a : opt_or_fail o = Ok a -> o = Some a.
Proof. destruct o; cbn; [intros [= ->]; reflexivity|discriminate]. Qed.
Lemma ck_uint_ok x y : ck_uint x = Ok y -> y = x /\ 0 <= x.
Proof.
  unfold ck_uint, fits_uint. destruct (Z.leb_spec 0 x); cbn [andb]; [|discriminate].
  destruct (x <? UINT_LIM); [|discriminate]. intros [= <-]. auto.
Qed.
Lemma uint_add_ok a b c : uint_add a b = Ok c -> c = a + b /\ 0 <= a + b.
Proof. apply ck_uint_ok. Qed.
Lemma uint_sub_ok a b c : uint_sub a b = Ok c -> c = a - b /\ 0 <= a - b.
Proof. apply ck_uint_ok. Qed.
Lemma bsend_ok b from to d x b' : bsend b from to d x = Ok b' -> send b from to d x = Some b'.
Proof. apply opt_or_fail_ok. Qed.

Ltac inv1 H :=
  match type of H with
  | bind ?e ?k = Ok _ =>
    let x := fresh "x" in let Hx := fresh "Hx" in
    apply bind_ok_inv in H; destruct H as (x & Hx & H); cbn beta in H
  | (let '(_, _) := ?p in _) = Ok _ => (is_var p; destruct p) || (let Ep := fresh "Ep" in destruct p eqn:Ep); cbn beta iota in H
  | (match ?p with (_, _) => _ end) = Ok _ => (is_var p; destruct p) || (let Ep := fresh "Ep" in destruct p eqn:Ep); cbn beta iota in H
  | (if ?c then _ else _) = Ok _ => let E := fresh "E" in destruct c eqn:E; try discriminate H
  | Ok _ = Ok _ => injection H as H
  end.

(* ---- effect of the record updates on [recorded] ---- *)
Lemma rec_native_set s a p :
  rec_native (set_pool s a p) = rec_native s - fopt f_native (get a (cs_pools s)) + f_native p.
Proof. unfold rec_native, set_pool; cbn. apply sumf_set. Qed.

Lemma rec_ext_set s a p d :
  rec_ext (set_pool s a p) d = if d =? a then f_ext p else rec_ext s d.
Proof.
  unfold rec_ext, set_pool; cbn. destruct (Z.eqb_spec d a) as [->|Hne].
  - rewrite get_set_same. reflexivity.
  - rewrite get_set_other; auto.
Qed.

Lemma recorded_set_pool s a p d :
  recorded (set_pool s a p) d =
  recorded s d
  + (if d =? ROWAN then f_native p - fopt f_native (get a (cs_pools s)) else 0)
  + (if d =? a then f_ext p - fopt f_ext (get a (cs_pools s)) else 0).
Proof.
  unfold recorded. rewrite rec_native_set, rec_ext_set.
  replace (cs_buckets (set_pool s a p)) with (cs_buckets s) by reflexivity.
  destruct (Z.eqb_spec d ROWAN); destruct (Z.eqb_spec d a) as [->|]; unfold rec_ext; lia.
Qed.

Lemma recorded_with_bank s b d : recorded (with_bank s b) d = recorded s d.
Proof. reflexivity. Qed.
Lemma recorded_put_lp s a addr l d : recorded (put_lp s a addr l) d = recorded s d.
Proof. reflexivity. Qed.
Lemma recorded_set_lp s a addr l d : recorded (set_lp s a addr l) d = recorded s d.
Proof. reflexivity. Qed.
Lemma recorded_del_lp s a addr d : recorded (del_lp s a addr) d = recorded s d.
Proof. reflexivity. Qed.
Lemma bank_set_pool s a p : cs_bank (set_pool s a p) = cs_bank s.
Proof. reflexivity. Qed.
Lemma bank_set_lp s a addr l : cs_bank (set_lp s a addr l) = cs_bank s.
Proof. reflexivity. Qed.
Lemma bank_del_lp s a addr : cs_bank (del_lp s a addr) = cs_bank s.
Proof. reflexivity. Qed.
Lemma bank_with_bank s b : cs_bank (with_bank s b) = b.
Proof. reflexivity. Qed.
Lemma pools_with_bank s b : cs_pools (with_bank s b) = cs_pools s.
Proof. reflexivity. Qed.
Lemma pools_set_lp s a addr l : cs_pools (set_lp s a addr l) = cs_pools s.
Proof. reflexivity. Qed.
Lemma pools_del_lp s a addr : cs_pools (del_lp s a addr) = cs_pools s.
Proof. reflexivity. Qed.
Lemma pools_set_pool s a p : cs_pools (set_pool s a p) = set a p (cs_pools s).
Proof. reflexivity. Qed.

Lemma gap_set_lp s a addr l d : gap (set_lp s a addr l) d = gap s d.
Proof. reflexivity. Qed.
Lemma gap_del_lp s a addr d : gap (del_lp s a addr) d = gap s d.
Proof. reflexivity. Qed.

Lemma prune_lp_frame s a addr l s' l' :
  prune_lp s a addr l = (s', l') ->
  cs_bank s' = cs_bank s /\ cs_pools s' = cs_pools s /\ cs_buckets s' = cs_buckets s /\
  cs_height s' = cs_height s /\ cs_params s' = cs_params s /\ lp_units l' = lp_units l.
Proof.
  unfold prune_lp. destruct (Nat.eqb _ _).
  - intros [= <- <-]. repeat split; reflexivity.
  - intros [= <- <-]. destruct (lp_last _ =? 0); cbn; repeat split; reflexivity.
Qed.

(* ---- SwapOne ---- *)
Lemma swap_one_effect tr sent sp r f res fee sp' :
  swap_one tr sent sp r f = Ok (res, fee, sp') ->
  (if tr then sp_eb sp' = sp_eb sp + sent /\ sp_nb sp' = sp_nb sp - res /\ res < sp_nb sp
   else sp_nb sp' = sp_nb sp + sent /\ sp_eb sp' = sp_eb sp - res /\ res < sp_eb sp) /\
  sp_nl sp' = sp_nl sp /\ sp_el sp' = sp_el sp.
Proof.
  unfold swap_one. destruct tr; intros H.
  - repeat inv1 H.
    apply uint_add_ok in Hx2. apply uint_sub_ok in Hx3.
    apply Z.leb_gt in E. subst. cbn. repeat split; lia.
  - repeat inv1 H.
    apply uint_add_ok in Hx2. apply uint_sub_ok in Hx3.
    apply Z.leb_gt in E. subst. cbn. repeat split; lia.
Qed.

Lemma get_pool_ok s a p : get_pool s a = Ok p -> get a (cs_pools s) = Some p.
Proof. apply opt_or_fail_ok. Qed.

Lemma swap_leg_recorded c a p tr z r f z0 z1 s0 d :
  get a (cs_pools c) = Some p ->
  swap_one tr z (to_spool p) r f = Ok (z0, z1, s0) ->
  recorded (set_pool c a (upd_balances p s0)) d =
  recorded c d + (if d =? ROWAN then (if tr then - z0 else z) else 0)
               + (if d =? a then (if tr then z else - z0) else 0).
Proof.
  intros Hg Hs. apply swap_one_effect in Hs. rewrite recorded_set_pool, Hg. cbn [fopt].
  unfold f_native, f_ext, upd_balances; cbn. cbn in Hs.
  destruct tr; destruct Hs as ((H1 & H2 & H3) & _ & _); rewrite H1, H2;
  destruct (d =? ROWAN); destruct (d =? a); lia.
Qed.

Ltac use_get_pool := repeat match goal with H : get_pool _ _ = Ok _ |- _ => apply get_pool_ok in H end.
Ltac use_sends := repeat match goal with H : bsend _ _ _ _ _ = Ok _ |- _ =>
  let Hb := fresh "Hb" in apply bsend_ok, send_effect in H; destruct H as (_ & Hb & _) end.
Ltac use_leg d := match goal with
  Hg : get ?a (cs_pools ?c) = Some ?p, Hs : swap_one _ _ (to_spool ?p) _ _ = Ok _ |- context [recorded (set_pool ?c ?a (upd_balances ?p _)) _] =>
    rewrite (swap_leg_recorded _ _ _ _ _ _ _ _ _ _ d Hg Hs) end.

Lemma swap_gap s sg sent recv amt mn s' emit :
  sg <> CLP_MODULE ->
  swap s sg sent recv amt mn = Ok (s', emit) -> forall d, gap s' d = gap s d.
Proof.
  unfold swap. intros Hsg H. repeat inv1 H. intros d. subst s'.
  destruct (negb (sent =? ROWAN) && negb (recv =? ROWAN)) eqn:Edbl.
  - repeat inv1 Hx6. subst. use_sends. use_get_pool.
    apply andb_prop in Edbl. destruct Edbl as [Es Er]. apply negb_true_iff in Es, Er. rewrite Er in *.
    unfold gap. rewrite bank_with_bank, recorded_with_bank.
    use_leg d. use_leg d.
    repeat (rewrite ?bank_set_pool, ?bank_with_bank, ?recorded_with_bank;
            match goal with Hb : forall a' d', bal _ a' d' = _ |- _ => rewrite Hb; clear Hb end).
    rewrite ?bank_set_pool, ?bank_with_bank, ?recorded_with_bank.
    apply Z.eqb_neq in Es, Er.
    destruct (Z.eqb_spec d ROWAN); destruct (Z.eqb_spec d recv); destruct (Z.eqb_spec d sent);
    destruct (Z.eqb_spec CLP_MODULE sg); rewrite ?Z.eqb_refl; cbn [andb]; try lia.
  - injection Hx6 as <- <-. use_sends. use_get_pool.
    unfold gap. rewrite bank_with_bank, recorded_with_bank.
    use_leg d.
    repeat (rewrite ?bank_set_pool, ?bank_with_bank, ?recorded_with_bank;
            match goal with Hb : forall a' d', bal _ a' d' = _ |- _ => rewrite Hb; clear Hb end).
    rewrite ?bank_set_pool, ?bank_with_bank, ?recorded_with_bank.
    destruct (Z.eqb_spec recv ROWAN) as [->|Hr].
    + destruct (Z.eqb_spec d ROWAN); destruct (Z.eqb_spec d sent);
      destruct (Z.eqb_spec CLP_MODULE sg); rewrite ?Z.eqb_refl; cbn [andb]; try lia.
    + destruct (Z.eqb_spec sent ROWAN) as [->|Hs]; [|cbn in Edbl; discriminate].
      destruct (Z.eqb_spec d ROWAN); destruct (Z.eqb_spec d recv);
      destruct (Z.eqb_spec CLP_MODULE sg); rewrite ?Z.eqb_refl; cbn [andb]; try lia.
Qed.

Ltac use_requires := repeat match goal with H : require _ = Ok ?u |- _ => destruct u; apply require_ok in H end.
Ltac norm_gap := repeat (rewrite ?bank_set_pool, ?bank_with_bank, ?recorded_with_bank, ?bank_set_lp, ?bank_del_lp,
            ?recorded_set_lp, ?recorded_del_lp, ?recorded_put_lp;
            match goal with Hb : forall a' d', bal _ a' d' = _ |- _ => rewrite Hb; clear Hb end);
    rewrite ?bank_set_pool, ?bank_with_bank, ?recorded_with_bank, ?bank_set_lp, ?bank_del_lp,
            ?recorded_set_lp, ?recorded_del_lp, ?recorded_put_lp.

Lemma create_pool_gap s sg a n e s' :
  sg <> CLP_MODULE ->
  create_pool s sg a n e = Ok s' -> forall d, gap s' d = gap s d.
Proof.
  unfold create_pool. intros Hsg H. repeat inv1 H. intros d. subst s'.
  use_sends. use_requires.
  destruct (get a (cs_pools s)) eqn:Hg; [discriminate|].
  unfold gap. rewrite recorded_set_lp, bank_set_lp. norm_gap.
  rewrite recorded_set_pool, recorded_with_bank. cbn [pools_with_bank]. rewrite pools_with_bank, Hg. cbn [fopt].
  unfold f_native, f_ext, new_pool; cbn [p_nb p_nc p_eb p_ec].
  destruct (Z.eqb_spec d ROWAN); destruct (Z.eqb_spec d a);
  destruct (Z.eqb_spec CLP_MODULE sg); rewrite ?Z.eqb_refl; cbn [andb]; try lia.
Qed.

Ltac finish_gap sg d a := 
  destruct (Z.eqb_spec d ROWAN); destruct (Z.eqb_spec d a);
  destruct (Z.eqb_spec CLP_MODULE sg); rewrite ?Z.eqb_refl; cbn [andb]; try lia.

Ltac use_uints := repeat match goal with
  | H : uint_add _ _ = Ok _ |- _ => apply uint_add_ok in H; destruct H as [? ?]
  | H : uint_sub _ _ = Ok _ |- _ => apply uint_sub_ok in H; destruct H as [? ?]
  end.

Lemma add_liquidity_gap s sg a n e s' :
  sg <> CLP_MODULE ->
  add_liquidity s sg a n e = Ok s' -> forall d, gap s' d = gap s d.
Proof.
  unfold add_liquidity. intros Hsg H. repeat inv1 H. intros d.
  use_sends. use_requires. use_get_pool. use_uints. subst.
  destruct (find_lp s a sg); repeat inv1 H; subst; rewrite gap_set_lp;
  unfold gap; norm_gap;
  match goal with Hg : get a (cs_pools s) = Some _ |- _ =>
    rewrite recorded_set_pool, recorded_with_bank, pools_with_bank, Hg end; cbn [fopt];
  unfold f_native, f_ext; cbn -[Z.eqb Z.add Z.sub]; finish_gap sg d a.
Qed.

Lemma keeper_remove_gap s sg a pl we wn l lft ed nd s' p0 :
  sg <> CLP_MODULE ->
  get a (cs_pools s) = Some p0 ->
  f_native pl = f_native p0 - wn -> f_ext pl = f_ext p0 - we ->
  keeper_remove s sg a pl we wn l lft ed nd = Ok s' -> forall d, gap s' d = gap s d.
Proof.
  unfold keeper_remove. intros Hsg Hg Hn He H. repeat inv1 H; intros d;
  use_sends; use_requires; subst s'; rewrite ?gap_set_lp, ?gap_del_lp;
  unfold gap; norm_gap; rewrite recorded_set_pool, Hg; cbn [fopt]; rewrite Hn, He; finish_gap sg d a.
Qed.

Lemma remove_liquidity_gap s sg a w asym s' :
  sg <> CLP_MODULE ->
  remove_liquidity s sg a w asym = Ok s' -> forall d, gap s' d = gap s d.
Proof.
  unfold remove_liquidity. intros Hsg H. repeat inv1 H.
  use_requires. use_get_pool. use_uints. subst.
  match goal with Hp : prune_lp _ _ _ _ = _ |- _ => apply prune_lp_frame in Hp; destruct Hp as (Hb & Hpl & Hbk & _) end.
  intros d.
  match goal with Hg : get a (cs_pools s) = Some ?p, Hk : keeper_remove ?s0 _ _ _ _ _ _ _ _ _ = Ok _ |- _ =>
    transitivity (gap s0 d);
    [ eapply (keeper_remove_gap s0) with (p0 := p); [exact Hsg | | | | exact Hk]
    | rewrite gap_set_lp; unfold gap, recorded, rec_native, rec_ext; rewrite Hb, Hpl, Hbk; reflexivity ]
  end.
  - rewrite pools_set_lp, Hpl. assumption.
  - unfold f_native; cbn -[Z.add Z.sub]. lia.
  - unfold f_ext; cbn -[Z.add Z.sub]. lia.
Qed.

Lemma remove_liquidity_units_gap s sg a u s' :
  sg <> CLP_MODULE ->
  remove_liquidity_units s sg a u = Ok s' -> forall d, gap s' d = gap s d.
Proof.
  unfold remove_liquidity_units. intros Hsg H. repeat inv1 H.
  use_requires. use_get_pool. use_uints. subst.
  match goal with Hp : prune_lp _ _ _ _ = _ |- _ => apply prune_lp_frame in Hp; destruct Hp as (Hb & Hpl & Hbk & _) end.
  intros d.
  match goal with Hg : get a (cs_pools s) = Some ?p, Hk : keeper_remove ?s0 _ _ _ _ _ _ _ _ _ = Ok _ |- _ =>
    transitivity (gap s0 d);
    [ eapply (keeper_remove_gap s0) with (p0 := p); [exact Hsg | | | | exact Hk]
    | rewrite gap_set_lp; unfold gap, recorded, rec_native, rec_ext; rewrite Hb, Hpl, Hbk; reflexivity ]
  end.
  - rewrite pools_set_lp, Hpl. assumption.
  - unfold f_native; cbn -[Z.add Z.sub]. lia.
  - unfold f_ext; cbn -[Z.add Z.sub]. lia.
Qed.

Lemma unlock_gap s sg a u s' : unlock s sg a u = Ok s' -> forall d, gap s' d = gap s d.
Proof.
  unfold unlock. intros H. repeat inv1 H. subst.
  match goal with Hp : prune_lp _ _ _ _ = _ |- _ => apply prune_lp_frame in Hp; destruct Hp as (Hb & Hpl & Hbk & _) end.
  intros d. rewrite gap_set_lp. unfold gap, recorded, rec_native, rec_ext. rewrite Hb, Hpl, Hbk. reflexivity.
Qed.

Lemma cancel_unlock_gap s sg a u s' : cancel_unlock s sg a u = Ok s' -> forall d, gap s' d = gap s d.
Proof.
  unfold cancel_unlock. intros H. repeat inv1 H. subst.
  match goal with Hp : prune_lp _ _ _ _ = _ |- _ => apply prune_lp_frame in Hp; destruct Hp as (Hb & Hpl & Hbk & _) end.
  intros d. rewrite gap_set_lp. unfold gap, recorded, rec_native, rec_ext. rewrite Hb, Hpl, Hbk. reflexivity.
Qed.

Definition coin_sum (d : Z) (coins : list (Z * Z)) : Z :=
  fold_right (fun c acc => (if fst c =? d then snd c else 0) + acc) 0 coins.

Lemma send_all_effect coins : forall b from to b',
  send_all b from to coins = Ok b' ->
  forall a' d', bal b' a' d' = bal b a' d' - (if a' =? from then coin_sum d' coins else 0)
                                          + (if a' =? to then coin_sum d' coins else 0).
Proof.
  induction coins as [|[d x] rest IH]; intros b from to b' H a' d'; cbn [send_all] in H.
  - injection H as <-. cbn. destruct (a' =? from); destruct (a' =? to); lia.
  - repeat inv1 H. use_sends. rewrite (IH _ _ _ _ H). rewrite Hb. cbn [coin_sum fold_right fst snd]. fold (coin_sum d' rest).
    destruct (Z.eqb_spec a' from); destruct (Z.eqb_spec a' to); destruct (Z.eqb_spec d' d); subst;
    rewrite ?Z.eqb_refl; cbn [andb];
    repeat match goal with |- context [?x =? ?y] => destruct (Z.eqb_spec x y); try congruence end; lia.
Qed.

Lemma bucket_fold_effect coins : forall m d,
  getz d (fold_left (fun m c => set (fst c) (getz (fst c) m + snd c) m) coins m) = getz d m + coin_sum d coins.
Proof.
  induction coins as [|[k x] rest IH]; intros m d; cbn [fold_left coin_sum fold_right fst snd].
  - lia.
  - rewrite IH. fold (coin_sum d rest). destruct (Z.eqb_spec k d) as [->|Hne].
    + rewrite getz_set_same. lia.
    + rewrite getz_set_other by auto. lia.
Qed.

Lemma add_to_bucket_gap s sg coins s' :
  sg <> CLP_MODULE ->
  add_to_bucket s sg coins = Ok s' -> forall d, gap s' d = gap s d.
Proof.
  unfold add_to_bucket. intros Hsg H. repeat inv1 H. intros d. subst s'.
  unfold gap, recorded, rec_native, rec_ext. cbn -[Z.eqb Z.add Z.sub getz bal].
  rewrite (send_all_effect _ _ _ _ _ Hx), bucket_fold_effect.
  destruct (Z.eqb_spec CLP_MODULE sg); [congruence|]. rewrite Z.eqb_refl. unfold sumf. destruct (d =? ROWAN); lia.
Qed.

Lemma refund_all_effect ls : forall s a pl nd ed pu nb eb s',
  0 <= nb -> 0 <= eb ->
  refund_all s a pl nd ed ls pu nb eb = Ok s' ->
  cs_pools s' = cs_pools s /\ cs_buckets s' = cs_buckets s /\
  exists nbf ebf, 0 <= nbf /\ 0 <= ebf /\
    forall d, bal (cs_bank s) CLP_MODULE d
              - (if d =? ROWAN then nb - nbf else 0) - (if d =? a then eb - ebf else 0)
              <= bal (cs_bank s') CLP_MODULE d <= bal (cs_bank s) CLP_MODULE d.
Proof.
  induction ls as [|[k l] rest IH]; intros s a pl nd ed pu nb eb s' Hnb Heb H; cbn [refund_all] in H.
  - injection H as <-. split; [reflexivity|]. split; [reflexivity|].
    exists nb, eb. repeat split; try assumption; intros;
    destruct (d =? ROWAN); destruct (d =? a); lia.
  - repeat inv1 H. use_uints. subst.
    repeat match goal with Hs : bsend _ _ _ _ _ = Ok _ |- _ => apply bsend_ok, send_effect in Hs; destruct Hs as (? & ? & _) end.
    apply IH in H; try lia. destruct H as (Hp & Hb & nbf & ebf & Hn0 & He0 & Hbal).
    split; [rewrite Hp; reflexivity|]. split; [rewrite Hb; reflexivity|].
    exists nbf, ebf. split; [assumption|]. split; [assumption|]. intros d. specialize (Hbal d).
    rewrite bank_del_lp, bank_with_bank in Hbal.
    repeat match goal with Hq : forall a' d', bal _ a' d' = _ |- _ => rewrite Hq in Hbal; clear Hq end.
    rewrite Z.eqb_refl in Hbal. cbn [andb] in Hbal.
    destruct (Z.eqb_spec d ROWAN); destruct (Z.eqb_spec d a); destruct (Z.eqb_spec CLP_MODULE k); cbn [andb] in Hbal; lia.
Qed.

Definition custody_nonneg (s : clp_state) : Prop :=
  forall a p, get a (cs_pools s) = Some p -> 0 <= p_nc p /\ 0 <= p_ec p /\ 0 <= p_nb p /\ 0 <= p_eb p.

Lemma decommission_gap s sg a s' :
  wf (cs_pools s) -> custody_nonneg s ->
  decommission s sg a = Ok s' ->
  forall d, gap s d <= gap s' d /\ (d <> ROWAN -> d <> a -> gap s' d = gap s d).
Proof.
  unfold decommission. intros Hwf Hc H. repeat inv1 H. use_get_pool. use_requires. intros d. subst s'.
  match goal with Hg : get a (cs_pools s) = Some ?p |- _ => destruct (Hc _ _ Hg) as (Hnc & Hec & Hnb & Heb) end.
  match goal with Hr : refund_all _ _ _ _ _ _ _ _ _ = Ok _ |- _ =>
    apply refund_all_effect in Hr; [|assumption|assumption]; destruct Hr as (Hp & Hb & nbf & ebf & Hn0 & He0 & Hbal) end.
  specialize (Hbal d).
  unfold gap, recorded, rec_native, rec_ext. cbn -[Z.eqb Z.add Z.sub getz bal sumf fopt].
  rewrite Hp, Hb, sumf_del.
  match goal with Hg : get a (cs_pools s) = Some ?p |- _ => rewrite Hg; cbn [fopt] end.
  destruct (Z.eqb_spec d a) as [Heq|Hda].
  - subst d. rewrite wf_get_del_same by assumption.
    match goal with Hg : get a (cs_pools s) = Some ?p |- _ => rewrite Hg; cbn [fopt] end.
    unfold f_native, f_ext. split; [|congruence]. destruct (a =? ROWAN); lia.
  - rewrite wf_get_del_other by assumption. unfold f_native. split.
    + destruct (d =? ROWAN); lia.
    + intros Hr _. destruct (Z.eqb_spec d ROWAN); [congruence|]. lia.
Qed.

(* ---- all messages ---- *)
Definition is_decommission (m : clp_msg) : bool := match m with MDecommission _ _ => true | _ => false end.

Lemma handle_gap s m s' :
  signer_of m <> CLP_MODULE -> is_decommission m = false ->
  handle s m = Ok s' -> forall d, gap s' d = gap s d.
Proof.
  destruct m; cbn [signer_of is_decommission handle]; intros Hsg Hd H; try discriminate Hd.
  - eapply create_pool_gap; eauto.
  - eapply add_liquidity_gap; eauto.
  - eapply remove_liquidity_gap; eauto.
  - eapply remove_liquidity_units_gap; eauto.
  - repeat inv1 H. subst. eapply swap_gap; eauto.
  - eapply unlock_gap; eauto.
  - eapply cancel_unlock_gap; eauto.
  - eapply add_to_bucket_gap; eauto.
Qed.

Lemma fee_gap s sg fee d : sg <> CLP_MODULE -> gap (with_bank s (credit (cs_bank s) sg ROWAN (- fee))) d = gap s d.
Proof.
  intros Hsg. unfold gap. rewrite bank_with_bank, recorded_with_bank, bal_credit.
  destruct (Z.eqb_spec CLP_MODULE sg); [congruence|]. cbn [andb]. lia.
Qed.

(* a delivered transaction, successful or not, keeps balance - recorded unchanged for every denom;
   a decommission may only increase it *)
Lemma deliver_gap s fee m :
  signer_of m <> CLP_MODULE ->
  wf (cs_pools s) -> custody_nonneg s ->
  forall d, gap s d <= gap (fst (deliver s fee m)) d /\
            (is_decommission m = false -> gap (fst (deliver s fee m)) d = gap s d).
Proof.
  intros Hsg Hwf Hc d. unfold deliver.
  set (s0 := with_bank s (credit (cs_bank s) (signer_of m) ROWAN (- fee))).
  assert (H0 : forall d, gap s0 d = gap s d) by (intros; apply fee_gap; assumption).
  destruct (handle s0 m) as [s'| |] eqn:Hh; cbn [fst]; try (rewrite H0; split; [lia|reflexivity]).
  destruct (is_decommission m) eqn:Hd.
  - destruct m; try discriminate Hd. cbn [handle] in Hh.
    apply decommission_gap with (d := d) in Hh; [|exact Hwf|exact Hc].
    rewrite H0 in Hh. split; [tauto|discriminate].
  - rewrite (handle_gap s0 m s' Hsg Hd Hh d), H0. split; [lia|reflexivity].
Qed.

(* ---- histories of delivered transactions ---- *)
Fixpoint run_txs (s : clp_state) (txs : list (Z * clp_msg)) : clp_state :=
  match txs with
  | [] => s
  | (fee, m) :: rest => run_txs (fst (deliver s fee m)) rest
  end.

Definition good (s : clp_state) : Prop := wf (cs_pools s) /\ custody_nonneg s.

(* every state visited by the history is well formed (sorted pool store, non-negative amounts) *)
Fixpoint good_run (s : clp_state) (txs : list (Z * clp_msg)) : Prop :=
  match txs with
  | [] => True
  | (fee, m) :: rest => good s /\ signer_of m <> CLP_MODULE /\ good_run (fst (deliver s fee m)) rest
  end.

Lemma run_txs_gap txs : forall s,
  good_run s txs ->
  forall d, gap s d <= gap (run_txs s txs) d /\
            (forallb (fun t => negb (is_decommission (snd t))) txs = true -> gap (run_txs s txs) d = gap s d).
Proof.
  induction txs as [|[fee m] rest IH]; intros s Hg d; cbn [run_txs good_run forallb snd] in *.
  - split; [lia|reflexivity].
  - destruct Hg as ((Hwf & Hc) & Hsg & Hrest).
    destruct (deliver_gap s fee m Hsg Hwf Hc d) as (H1 & H2).
    destruct (IH _ Hrest d) as (H3 & H4). split; [lia|].
    intros Hall. apply andb_prop in Hall. destruct Hall as (Hm & Hr).
    apply negb_true_iff in Hm. rewrite (H4 Hr), (H2 Hm). reflexivity.
Qed.

Definition solvent (s : clp_state) : Prop := forall d, 0 <= gap s d.

Lemma run_txs_solvent txs s : good_run s txs -> solvent s -> solvent (run_txs s txs).
Proof. intros Hg Hs d. destruct (run_txs_gap txs s Hg d) as (H & _). specialize (Hs d). lia. Qed.
