From Coq Require Import ZArith Lia Bool List QArith.
From RecordUpdate Require Import RecordUpdate.
From Sif Require Import Base.Outcome Base.SdkMath Base.Store Base.Bank
  Model.ClpCalc Model.ClpTypes Model.ClpState Model.ClpMsgs Proofs.BankProofs Proofs.ClpInv.
Import ListNotations.
Local Open Scope Z_scope.

Lemma pool_units_symmetric_ok X x P tot pu :
  pool_units_symmetric X x P = Ok (tot, pu) -> tot = P + pu /\ pu = x * P / X.
Proof.
  unfold pool_units_symmetric. destruct (X =? 0); [discriminate|]. intros H. repeat inv1 H.
  apply uint_add_ok in Hx. destruct Hx. subst. auto.
Qed.

(* CalculatePoolUnits: the new pool total is the old total plus what the provider receives,
   except in the empty-side branch, which returns (r, r) whatever P was *)
Lemma calculate_pool_units_total P R A r a fs fb pm pu lpu st sw :
  calculate_pool_units P R A r a fs fb pm = Ok (pu, lpu, st, sw) ->
  symmetry_state A a R r <> EmptyPool ->
  pu = P + lpu.
Proof.
  unfold calculate_pool_units. destruct (symmetry_state A a R r) eqn:Es; intros H Hne; try congruence.
  - injection H as <- <- _ _. lia.
  - repeat inv1 H. apply pool_units_symmetric_ok in Hx2. destruct Hx2. subst. reflexivity.
  - repeat inv1 H. apply pool_units_symmetric_ok in Hx. destruct Hx. subst. reflexivity.
  - repeat inv1 H. apply pool_units_symmetric_ok in Hx2. destruct Hx2. subst. reflexivity.
Qed.

Lemma calculate_pool_units_empty P R A r a fs fb pm pu lpu st sw :
  calculate_pool_units P R A r a fs fb pm = Ok (pu, lpu, st, sw) ->
  symmetry_state A a R r = EmptyPool -> pu = r /\ lpu = r.
Proof.
  unfold calculate_pool_units. intros H Hs. rewrite Hs in H.
  destruct ((a =? 0) || (r =? 0)); [discriminate|]. injection H as <- <- _ _. auto.
Qed.

Definition lp_units_of (s : clp_state) (a addr : Z) : Z := fopt lp_units (find_lp s a addr).
Definition pool_units_of (s : clp_state) (a : Z) : Z := fopt p_units (get a (cs_pools s)).

Lemma lps_for_put s a addr l : lps_for (put_lp s a addr l) a = set addr l (lps_for s a).
Proof. unfold lps_for, put_lp; cbn. rewrite get_set_same. reflexivity. Qed.
Lemma find_put_same s a addr l : find_lp (put_lp s a addr l) a addr = Some l.
Proof. unfold find_lp. rewrite lps_for_put, get_set_same. reflexivity. Qed.
Lemma find_put_other s a addr l addr' : addr' <> addr -> find_lp (put_lp s a addr l) a addr' = find_lp s a addr'.
Proof. intros. unfold find_lp. rewrite lps_for_put, get_set_other; auto. Qed.
Lemma find_set_lp_same s a addr l : exists l', find_lp (set_lp s a addr l) a addr = Some l' /\ lp_units l' = lp_units l /\ lp_unlocks l' = lp_unlocks l.
Proof. unfold set_lp. destruct (lp_last l =? 0); eexists; rewrite find_put_same; (split; [reflexivity|split; reflexivity]). Qed.
Lemma find_set_lp_other s a addr l addr' : addr' <> addr -> find_lp (set_lp s a addr l) a addr' = find_lp s a addr'.
Proof. intros. unfold set_lp. apply find_put_other; auto. Qed.
Lemma lp_units_set_lp_same s a addr l : lp_units_of (set_lp s a addr l) a addr = lp_units l.
Proof. unfold lp_units_of. destruct (find_set_lp_same s a addr l) as (l' & -> & Hu & _). exact Hu. Qed.
Lemma lp_units_set_lp_other s a addr l addr' : addr' <> addr -> lp_units_of (set_lp s a addr l) a addr' = lp_units_of s a addr'.
Proof. intros. unfold lp_units_of. rewrite find_set_lp_other; auto. Qed.
Lemma find_lp_set_pool s a p a' addr : find_lp (set_pool s a p) a' addr = find_lp s a' addr.
Proof. reflexivity. Qed.
Lemma find_lp_with_bank s b a' addr : find_lp (with_bank s b) a' addr = find_lp s a' addr.
Proof. reflexivity. Qed.
Lemma pool_units_set_pool s a p : pool_units_of (set_pool s a p) a = p_units p.
Proof. unfold pool_units_of, set_pool; cbn. rewrite get_set_same. reflexivity. Qed.
Lemma pool_units_set_lp s a addr l a' : pool_units_of (set_lp s a addr l) a' = pool_units_of s a'.
Proof. reflexivity. Qed.
Lemma pool_units_del_lp s a addr a' : pool_units_of (del_lp s a addr) a' = pool_units_of s a'.
Proof. reflexivity. Qed.
Lemma lps_for_del s a addr : lps_for (del_lp s a addr) a = del addr (lps_for s a).
Proof. unfold lps_for, del_lp; cbn. rewrite get_set_same. reflexivity. Qed.
Lemma lp_units_del_lp_same s a addr : wf (lps_for s a) -> lp_units_of (del_lp s a addr) a addr = 0.
Proof. intros Hwf. unfold lp_units_of, find_lp. rewrite lps_for_del, wf_get_del_same; auto. Qed.
Lemma lp_units_del_lp_other s a addr addr' : wf (lps_for s a) -> addr' <> addr ->
  lp_units_of (del_lp s a addr) a addr' = lp_units_of s a addr'.
Proof. intros Hwf Hne. unfold lp_units_of, find_lp. rewrite lps_for_del, wf_get_del_other; auto. Qed.

(* AddLiquidity: the pool's units grow by exactly what the provider's record grows by; nobody else's units change *)
Lemma add_liquidity_units s sg a n e s' :
  add_liquidity s sg a n e = Ok s' ->
  (forall p, get a (cs_pools s) = Some p ->
     symmetry_state (p_eb p + p_el p) e (p_nb p + p_nl p) n <> EmptyPool) ->
  pool_units_of s' a - pool_units_of s a = lp_units_of s' a sg - lp_units_of s a sg /\
  forall addr, addr <> sg -> lp_units_of s' a addr = lp_units_of s a addr.
Proof.
  unfold add_liquidity. intros H Hne. repeat inv1 H. use_get_pool. use_uints. subst.
  match goal with Hg : get a (cs_pools s) = Some ?p |- _ => specialize (Hne _ Hg) end.
  match goal with Hc : calculate_pool_units _ _ _ _ _ _ _ _ = Ok _ |- _ =>
    apply calculate_pool_units_total in Hc; [|exact Hne] end.
  unfold lp_units_of at 2. unfold pool_units_of at 2.
  match goal with Hg : get a (cs_pools s) = Some ?p |- _ => rewrite Hg; cbn [fopt] end.
  destruct (find_lp s a sg) as [l|] eqn:Hf; repeat inv1 H; use_uints; subst; cbn [fopt];
  rewrite pool_units_set_lp, pool_units_set_pool, lp_units_set_lp_same; (split; [cbn -[Z.add Z.sub]; lia|]);
  intros addr Hna; rewrite lp_units_set_lp_other by assumption; reflexivity.
Qed.

Lemma keeper_remove_units s sg a pl we wn l lft ed nd s' :
  wf (lps_for s a) ->
  keeper_remove s sg a pl we wn l lft ed nd = Ok s' ->
  pool_units_of s' a = p_units pl /\ lp_units_of s' a sg = lft /\
  forall addr, addr <> sg -> lp_units_of s' a addr = lp_units_of s a addr.
Proof.
  unfold keeper_remove. intros Hwf H. repeat inv1 H; subst s'.
  - apply Z.eqb_eq in E. subst lft.
    rewrite pool_units_del_lp. split; [apply pool_units_set_pool|]. split.
    + apply lp_units_del_lp_same. exact Hwf.
    + intros addr Hna. rewrite lp_units_del_lp_other; auto.
  - rewrite pool_units_set_lp. split; [apply pool_units_set_pool|]. split.
    + rewrite lp_units_set_lp_same. reflexivity.
    + intros addr Hna. rewrite lp_units_set_lp_other by assumption. reflexivity.
Qed.

Lemma prune_lp_units s a addr l s' l' :
  find_lp s a addr = Some l -> prune_lp s a addr l = (s', l') ->
  lp_units l' = lp_units l /\ pool_units_of s' a = pool_units_of s a /\
  (forall addr', lp_units_of s' a addr' = lp_units_of s a addr') /\
  (wf (lps_for s a) -> wf (lps_for s' a)).
Proof.
  unfold prune_lp. intros Hf. destruct (Nat.eqb _ _).
  - intros [= <- <-]. repeat split; auto.
  - intros [= <- <-]. split; [destruct (lp_last _ =? 0); reflexivity|]. split; [reflexivity|]. split.
    + intros addr'. unfold lp_units_of. destruct (Z.eq_dec addr' addr) as [->|Hne].
      * rewrite find_put_same, Hf. destruct (lp_last _ =? 0); reflexivity.
      * rewrite find_put_other by assumption. reflexivity.
    + intros Hwf. rewrite lps_for_put. apply wf_set. exact Hwf.
Qed.

(* both removal messages: the pool total drops by exactly what the remover's record drops by,
   the burned amount is within the remover's holdings, nobody else's units change *)
Lemma remove_liquidity_units_acct s sg a w asym s' :
  wf (lps_for s a) ->
  remove_liquidity s sg a w asym = Ok s' ->
  pool_units_of s' a - pool_units_of s a = lp_units_of s' a sg - lp_units_of s a sg /\
  0 <= lp_units_of s a sg - lp_units_of s' a sg <= lp_units_of s a sg /\ 0 <= lp_units_of s' a sg /\
  forall addr, addr <> sg -> lp_units_of s' a addr = lp_units_of s a addr.
Proof.
  unfold remove_liquidity. intros Hwf H. repeat inv1 H. use_get_pool. use_uints. subst.
  match goal with Hg : get_lp s a sg = Ok ?l |- _ => apply opt_or_fail_ok in Hg; pose proof Hg as Hf end.
  match goal with Hp : prune_lp _ _ _ _ = _ |- _ => eapply prune_lp_units in Hp; [|exact Hf]; destruct Hp as (Hu & Hpu & Hlu & Hwf') end.
  match goal with Hk : keeper_remove _ _ _ _ _ _ _ _ _ _ = Ok _ |- _ =>
    apply keeper_remove_units in Hk; [destruct Hk as (Hk1 & Hk2 & Hk3)|] end.
  2:{ unfold set_lp. destruct (lp_last _ =? 0); rewrite lps_for_put; apply wf_set; auto. }
  assert (Hs : lp_units_of s a sg = lp_units x2) by (unfold lp_units_of; rewrite Hf; reflexivity).
  match goal with Hc : calculate_withdrawal _ _ _ _ _ _ = Ok (_, _, ?left, _) |- _ =>
    assert (Hl0 : 0 <= left) by (unfold calculate_withdrawal in Hc; repeat inv1 Hc;
      repeat match goal with Hq : to_uint _ = Ok _ |- _ => apply ck_uint_ok in Hq; destruct Hq end; subst; assumption) end.
  rewrite Hk1, Hk2, Hs. unfold pool_units_of.
  match goal with Hg : get a (cs_pools s) = Some ?p |- _ => rewrite Hg; cbn [fopt] end.
  rewrite Hu in *. split; [cbn -[Z.add Z.sub]; lia|]. split; [lia|]. split; [lia|].
  intros addr Hna. rewrite Hk3 by assumption. rewrite lp_units_set_lp_other by assumption. apply Hlu.
Qed.

Lemma remove_units_units_acct s sg a u s' :
  wf (lps_for s a) ->
  remove_liquidity_units s sg a u = Ok s' ->
  pool_units_of s' a - pool_units_of s a = lp_units_of s' a sg - lp_units_of s a sg /\
  0 <= lp_units_of s a sg - lp_units_of s' a sg <= lp_units_of s a sg /\ 0 <= lp_units_of s' a sg /\
  forall addr, addr <> sg -> lp_units_of s' a addr = lp_units_of s a addr.
Proof.
  unfold remove_liquidity_units. intros Hwf H. repeat inv1 H. use_get_pool. use_uints. subst.
  match goal with Hg : get_lp s a sg = Ok ?l |- _ => apply opt_or_fail_ok in Hg; pose proof Hg as Hf end.
  match goal with Hp : prune_lp _ _ _ _ = _ |- _ => eapply prune_lp_units in Hp; [|exact Hf]; destruct Hp as (Hu & Hpu & Hlu & Hwf') end.
  match goal with Hk : keeper_remove _ _ _ _ _ _ _ _ _ _ = Ok _ |- _ =>
    apply keeper_remove_units in Hk; [destruct Hk as (Hk1 & Hk2 & Hk3)|] end.
  2:{ unfold set_lp. destruct (lp_last _ =? 0); rewrite lps_for_put; apply wf_set; auto. }
  assert (Hs : lp_units_of s a sg = lp_units x2) by (unfold lp_units_of; rewrite Hf; reflexivity).
  match goal with Hc : calculate_withdrawal_from_units _ _ _ _ _ = Ok (_, _, ?left) |- _ =>
    assert (Hl0 : 0 <= left) by (unfold calculate_withdrawal_from_units in Hc; repeat inv1 Hc;
      repeat match goal with Hq : to_uint _ = Ok _ |- _ => apply ck_uint_ok in Hq; destruct Hq end; subst; assumption) end.
  rewrite Hk1, Hk2, Hs. unfold pool_units_of.
  match goal with Hg : get a (cs_pools s) = Some ?p |- _ => rewrite Hg; cbn [fopt] end.
  rewrite Hu in *. split; [cbn -[Z.add Z.sub]; lia|]. split; [lia|]. split; [lia|].
  intros addr Hna. rewrite Hk3 by assumption. rewrite lp_units_set_lp_other by assumption. apply Hlu.
Qed.

(* F-14: the empty-side branch breaks the unit accounting — a concrete witness.
   Pool with units 1000 whose native side was emptied (LPPD at rate 1); an add of (5, 5) sets the pool
   total to 5 while the old provider still holds 1000. *)
Definition f14_state : clp_state :=
  mkClp (mkBank [(1, [(1, 700)]); (10, [(0, 9000000000000000000000); (1, 9000000000000000000000)])] [])
        [(1, mkPool 0 700 1000 0 0 0 0 0 0)]
        [(1, [(11, mkLp 1000 [] 2)])] [] 0 [] [] 5 (mkCP 0 3000000000000000 [] 0 0 [(0, 7); (1, 7)] [] 0 false [] 0).
Lemma add_to_one_sided_pool_refuted :
  exists s', add_liquidity f14_state 10 1 5 5 = Ok s' /\
             pool_units_of s' 1 = 5 /\ lp_units_of s' 1 10 + lp_units_of s' 1 11 = 1005.
Proof. eexists. split; [vm_compute; reflexivity|]. split; vm_compute; reflexivity. Qed.
