(* C02 over histories: pool units = sum of the providers' units, for every pool, in every state reached by user
   messages — by induction over the transaction list. *)
From Coq Require Import ZArith Lia Bool List.
From RecordUpdate Require Import RecordUpdate.
From Sif Require Import Base.Outcome Base.SdkMath Base.Store Base.Bank
  Model.ClpCalc Model.ClpTypes Model.ClpState Model.ClpMsgs Proofs.BankProofs Proofs.ClpInv Proofs.ClpUnits.
Import ListNotations.
Local Open Scope Z_scope.

Definition usum (s : clp_state) (a : Z) : Z := sumf lp_units (lps_for s a).

Lemma lps_for_put_other s a addr l a' : a' <> a -> lps_for (put_lp s a addr l) a' = lps_for s a'.
Proof. intros H. unfold lps_for, put_lp; cbn. rewrite get_set_other by exact H. reflexivity. Qed.
Lemma lps_for_del_other s a addr a' : a' <> a -> lps_for (del_lp s a addr) a' = lps_for s a'.
Proof. intros H. unfold lps_for, del_lp; cbn. rewrite get_set_other by exact H. reflexivity. Qed.

Lemma usum_put s a addr l a' :
  usum (put_lp s a addr l) a' = if a' =? a then usum s a - lp_units_of s a addr + lp_units l else usum s a'.
Proof.
  unfold usum. destruct (Z.eqb_spec a' a) as [->|Hne].
  - rewrite lps_for_put, sumf_set. unfold lp_units_of, find_lp. reflexivity.
  - rewrite lps_for_put_other by exact Hne. reflexivity.
Qed.
Lemma usum_set_lp s a addr l a' :
  usum (set_lp s a addr l) a' = if a' =? a then usum s a - lp_units_of s a addr + lp_units l else usum s a'.
Proof. unfold set_lp. rewrite usum_put. destruct (lp_last l =? 0); reflexivity. Qed.
Lemma usum_del_lp s a addr a' :
  usum (del_lp s a addr) a' = if a' =? a then usum s a - lp_units_of s a addr else usum s a'.
Proof.
  unfold usum. destruct (Z.eqb_spec a' a) as [->|Hne].
  - rewrite lps_for_del, sumf_del. unfold lp_units_of, find_lp. reflexivity.
  - rewrite lps_for_del_other by exact Hne. reflexivity.
Qed.
Lemma usum_set_pool s a p a' : usum (set_pool s a p) a' = usum s a'. Proof. reflexivity. Qed.
Lemma usum_with_bank s b a' : usum (with_bank s b) a' = usum s a'. Proof. reflexivity. Qed.

Lemma pool_units_set_pool_other s a p a' : a' <> a -> pool_units_of (set_pool s a p) a' = pool_units_of s a'.
Proof. intros H. unfold pool_units_of, set_pool; cbn. rewrite get_set_other by exact H. reflexivity. Qed.
Lemma pools_get_set_lp s a addr l a' : get a' (cs_pools (set_lp s a addr l)) = get a' (cs_pools s). Proof. reflexivity. Qed.

(* the invariant: a pool's units are the sum of its providers' units; an asset without a pool has no provider records *)
Definition UInv (s : clp_state) : Prop :=
  forall a, match get a (cs_pools s) with
            | Some p => p_units p = usum s a
            | None => lps_for s a = []
            end.

Lemma prune_lp_usum s a addr l s' l' :
  find_lp s a addr = Some l -> prune_lp s a addr l = (s', l') ->
  (forall a', usum s' a' = usum s a') /\ cs_pools s' = cs_pools s /\ lp_units l' = lp_units l /\
  lp_units_of s' a addr = lp_units l /\ (forall a', a' <> a -> lps_for s' a' = lps_for s a').
Proof.
  unfold prune_lp. intros Hf. destruct (Nat.eqb _ _).
  - intros [= <- <-]. repeat split; auto. unfold lp_units_of. rewrite Hf. reflexivity.
  - intros [= <- <-]. split; [|split; [reflexivity|split; [destruct (lp_last _ =? 0); reflexivity|split]]].
    + intros a'. rewrite usum_put. destruct (Z.eqb_spec a' a) as [->|]; [|reflexivity].
      unfold lp_units_of at 1. rewrite Hf. cbn [fopt]. destruct (lp_last _ =? 0); cbn; lia.
    + unfold lp_units_of. rewrite find_put_same. destruct (lp_last _ =? 0); reflexivity.
    + intros a' Hne. apply lps_for_put_other. exact Hne.
Qed.

Lemma UInv_frame s s' : (forall a, usum s' a = usum s a) -> (forall a, lps_for s' a = [] <-> lps_for s a = []) ->
  cs_pools s' = cs_pools s -> UInv s -> UInv s'.
Proof. intros Hu Hl Hp H a. specialize (H a). rewrite Hp. destruct (get a (cs_pools s)); [rewrite Hu; exact H|apply Hl; exact H]. Qed.

(* CreatePool *)
Lemma create_pool_UInv s sg a n e s' : UInv s -> create_pool s sg a n e = Ok s' -> UInv s'.
Proof.
  unfold create_pool. intros HI H. repeat inv1 H. use_requires. subst s'.
  match goal with Hc : calculate_pool_units 0 0 0 _ _ _ _ _ = Ok _ |- _ =>
    apply calculate_pool_units_empty in Hc; [destruct Hc as (-> & ->)|unfold symmetry_state; reflexivity] end.
  assert (Hnone : get a (cs_pools s) = None) by (destruct (get a (cs_pools s)); [discriminate|reflexivity]).
  pose proof (HI a) as Ha. rewrite Hnone in Ha.
  intros a'. specialize (HI a'). rewrite pools_set_lp, pools_set_pool, pools_with_bank.
  destruct (Z.eq_dec a' a) as [->|Hne].
  - rewrite get_set_same. cbn [p_units new_pool].
    rewrite usum_set_lp, Z.eqb_refl, usum_set_pool, usum_with_bank. unfold usum, lp_units_of, find_lp.
    match goal with |- context [lps_for (set_pool (with_bank s ?b) a ?p) a] => change (lps_for (set_pool (with_bank s b) a p) a) with (lps_for s a) end.
    rewrite Ha. cbn. lia.
  - rewrite get_set_other by exact Hne.
    destruct (get a' (cs_pools s)).
    + rewrite usum_set_lp. destruct (Z.eqb_spec a' a); [contradiction|]. exact HI.
    + unfold set_lp. destruct (lp_last _ =? 0); rewrite lps_for_put_other by exact Hne; exact HI.
Qed.

(* a state that differs from s1 by one provider record of asset a and by the pool of asset a *)
Lemma UInv_update s s1 a sg (pl' : pool) (l' : lprov) :
  UInv s ->
  (forall a', usum s1 a' = usum s a') -> (forall a', a' <> a -> lps_for s1 a' = lps_for s a') -> cs_pools s1 = cs_pools s ->
  lp_units_of s1 a sg = lp_units_of s a sg ->
  forall p, get a (cs_pools s) = Some p ->
  p_units pl' = p_units p - lp_units_of s a sg + lp_units l' ->
  UInv (set_lp (set_pool s1 a pl') a sg l').
Proof.
  intros HI Hu Hl Hp Hsg p Hg Hunits a'. specialize (HI a'). rewrite pools_set_lp, pools_set_pool, Hp.
  destruct (Z.eq_dec a' a) as [->|Hne].
  - rewrite get_set_same. rewrite usum_set_lp, Z.eqb_refl, usum_set_pool, Hu.
    unfold lp_units_of, find_lp in *. change (lps_for (set_pool s1 a pl') a) with (lps_for s1 a). rewrite Hsg.
    rewrite Hg in HI. lia.
  - rewrite get_set_other by exact Hne. destruct (get a' (cs_pools s)).
    + rewrite usum_set_lp. destruct (Z.eqb_spec a' a); [contradiction|]. rewrite usum_set_pool, Hu. exact HI.
    + unfold set_lp. destruct (lp_last _ =? 0); rewrite lps_for_put_other by exact Hne;
      change (lps_for (set_pool s1 a pl') a') with (lps_for s1 a'); rewrite Hl by exact Hne; exact HI.
Qed.

Lemma UInv_delete s s1 a sg (pl' : pool) :
  UInv s ->
  (forall a', usum s1 a' = usum s a') -> (forall a', a' <> a -> lps_for s1 a' = lps_for s a') -> cs_pools s1 = cs_pools s ->
  lp_units_of s1 a sg = lp_units_of s a sg ->
  forall p, get a (cs_pools s) = Some p ->
  p_units pl' = p_units p - lp_units_of s a sg ->
  UInv (del_lp (set_pool s1 a pl') a sg).
Proof.
  intros HI Hu Hl Hp Hsg p Hg Hunits a'. specialize (HI a'). rewrite pools_del_lp, pools_set_pool, Hp.
  destruct (Z.eq_dec a' a) as [->|Hne].
  - rewrite get_set_same. rewrite usum_del_lp, Z.eqb_refl, usum_set_pool, Hu.
    unfold lp_units_of, find_lp in *. change (lps_for (set_pool s1 a pl') a) with (lps_for s1 a). rewrite Hsg.
    rewrite Hg in HI. lia.
  - rewrite get_set_other by exact Hne. destruct (get a' (cs_pools s)).
    + rewrite usum_del_lp. destruct (Z.eqb_spec a' a); [contradiction|]. rewrite usum_set_pool, Hu. exact HI.
    + rewrite lps_for_del_other by exact Hne. change (lps_for (set_pool s1 a pl') a') with (lps_for s1 a'). rewrite Hl by exact Hne. exact HI.
Qed.

(* AddLiquidity (outside the empty-side branch, finding F-14) *)
Lemma add_liquidity_UInv s sg a n e s' :
  UInv s -> add_liquidity s sg a n e = Ok s' ->
  (forall p, get a (cs_pools s) = Some p -> symmetry_state (p_eb p + p_el p) e (p_nb p + p_nl p) n <> EmptyPool) ->
  UInv s'.
Proof.
  unfold add_liquidity. intros HI H Hne. repeat inv1 H. use_get_pool. use_uints. subst.
  match goal with Hg : get a (cs_pools s) = Some ?p |- _ => specialize (Hne _ Hg); rename Hg into Hgp end.
  match goal with Hc : calculate_pool_units _ _ _ _ _ _ _ _ = Ok _ |- _ =>
    apply calculate_pool_units_total in Hc; [|exact Hne] end. subst.
  destruct (find_lp s a sg) as [l|] eqn:Hf; repeat inv1 H; use_uints; subst.
  - eapply (UInv_update s (with_bank s _) a sg _ _ HI); try reflexivity; [exact Hgp|].
    cbn. unfold lp_units_of. rewrite Hf. cbn [fopt]. lia.
  - eapply (UInv_update s (with_bank s _) a sg _ _ HI); try reflexivity; [exact Hgp|].
    cbn. unfold lp_units_of. rewrite Hf. cbn [fopt]. lia.
Qed.

Lemma keeper_remove_UInv s0 s sg a pl we wn l lft ed nd s' p :
  UInv s0 ->
  (forall a', usum s a' = usum s0 a') -> (forall a', a' <> a -> lps_for s a' = lps_for s0 a') -> cs_pools s = cs_pools s0 ->
  lp_units_of s a sg = lp_units_of s0 a sg ->
  get a (cs_pools s0) = Some p -> p_units pl = p_units p - lp_units_of s0 a sg + lft ->
  keeper_remove s sg a pl we wn l lft ed nd = Ok s' -> UInv s'.
Proof.
  unfold keeper_remove. intros HI Hu Hl Hp Hsg Hg Hunits H. repeat inv1 H; subst s'.
  - apply Z.eqb_eq in E. subst lft.
    match goal with |- UInv (del_lp (with_bank (set_pool s a pl) ?b) a sg) =>
      change (del_lp (with_bank (set_pool s a pl) b) a sg) with (with_bank (del_lp (set_pool s a pl) a sg) b) end.
    assert (HD : UInv (del_lp (set_pool s a pl) a sg)) by (eapply UInv_delete; try eassumption; lia).
    intros a'. apply HD.
  - match goal with |- UInv (set_lp (with_bank (set_pool s a pl) ?b) a sg ?l') =>
      assert (HD : UInv (set_lp (set_pool s a pl) a sg l')) by (eapply UInv_update; try eassumption; cbn; lia);
      intros a'; specialize (HD a'); exact HD end.
Qed.

Lemma remove_liquidity_UInv s sg a w asym s' : UInv s -> remove_liquidity s sg a w asym = Ok s' -> UInv s'.
Proof.
  unfold remove_liquidity. intros HI H. repeat inv1 H. use_get_pool. use_uints. subst.
  match goal with Hg : get_lp s a sg = Ok ?l |- _ => apply opt_or_fail_ok in Hg; pose proof Hg as Hf end.
  match goal with Hp : prune_lp _ _ _ _ = _ |- _ => eapply prune_lp_usum in Hp; [|exact Hf]; destruct Hp as (Hu & Hpools & Hunits & Hsg & Hl) end.
  match goal with Hk : keeper_remove (set_lp ?s1 a sg ?l1) _ _ _ _ _ _ _ _ _ = Ok _, Hg : get a (cs_pools s) = Some ?p |- _ =>
    eapply (keeper_remove_UInv s (set_lp s1 a sg l1) sg a _ _ _ _ _ _ _ s' p HI); [| | | |exact Hg| |exact Hk] end.
  - intros a'. rewrite usum_set_lp. destruct (Z.eqb_spec a' a) as [->|]; [|apply Hu]. rewrite Hu, Hsg. cbn. lia.
  - intros a' Hne. unfold set_lp. destruct (lp_last _ =? 0); rewrite lps_for_put_other by exact Hne; apply Hl; exact Hne.
  - rewrite pools_set_lp. exact Hpools.
  - rewrite lp_units_set_lp_same. cbn. unfold lp_units_of at 1. rewrite Hf. cbn [fopt]. exact Hunits.
  - cbn. unfold lp_units_of. rewrite Hf. cbn [fopt]. rewrite Hunits in *. lia.
Qed.

Lemma remove_liquidity_units_UInv s sg a u s' : UInv s -> remove_liquidity_units s sg a u = Ok s' -> UInv s'.
Proof.
  unfold remove_liquidity_units. intros HI H. repeat inv1 H. use_get_pool. use_uints. subst.
  match goal with Hg : get_lp s a sg = Ok ?l |- _ => apply opt_or_fail_ok in Hg; pose proof Hg as Hf end.
  match goal with Hp : prune_lp _ _ _ _ = _ |- _ => eapply prune_lp_usum in Hp; [|exact Hf]; destruct Hp as (Hu & Hpools & Hunits & Hsg & Hl) end.
  match goal with Hk : keeper_remove (set_lp ?s1 a sg ?l1) _ _ _ _ _ _ _ _ _ = Ok _, Hg : get a (cs_pools s) = Some ?p |- _ =>
    eapply (keeper_remove_UInv s (set_lp s1 a sg l1) sg a _ _ _ _ _ _ _ s' p HI); [| | | |exact Hg| |exact Hk] end.
  - intros a'. rewrite usum_set_lp. destruct (Z.eqb_spec a' a) as [->|]; [|apply Hu]. rewrite Hu, Hsg. cbn. lia.
  - intros a' Hne. unfold set_lp. destruct (lp_last _ =? 0); rewrite lps_for_put_other by exact Hne; apply Hl; exact Hne.
  - rewrite pools_set_lp. exact Hpools.
  - rewrite lp_units_set_lp_same. cbn. unfold lp_units_of at 1. rewrite Hf. cbn [fopt]. exact Hunits.
  - cbn. unfold lp_units_of. rewrite Hf. cbn [fopt]. rewrite Hunits in *. lia.
Qed.

(* messages that change neither provider records nor pool units *)
Lemma UInv_same_units s s' :
  cs_lps s' = cs_lps s ->
  (forall a, option_map p_units (get a (cs_pools s')) = option_map p_units (get a (cs_pools s))) ->
  UInv s -> UInv s'.
Proof.
  intros Hl Hp HI a. specialize (HI a). specialize (Hp a). unfold usum, lps_for in *. rewrite Hl.
  destruct (get a (cs_pools s')) as [p'|]; destruct (get a (cs_pools s)) as [p|]; cbn in Hp; try discriminate; [|exact HI].
  injection Hp as ->. exact HI.
Qed.

Lemma units_upd_balances p sp : p_units (upd_balances p sp) = p_units p. Proof. reflexivity. Qed.

Lemma swap_UInv s sg sent recv amt mn s' emit : UInv s -> swap s sg sent recv amt mn = Ok (s', emit) -> UInv s'.
Proof.
  unfold swap. intros HI H. repeat inv1 H. subst s'. apply (UInv_same_units s); [| |exact HI].
  - destruct (negb (sent =? ROWAN) && negb (recv =? ROWAN)); [repeat inv1 Hx6|injection Hx6 as <- <-]; subst; reflexivity.
  - intros a. rewrite pools_with_bank, pools_set_pool. use_get_pool.
    destruct (negb (sent =? ROWAN) && negb (recv =? ROWAN)).
    + repeat inv1 Hx6. subst. use_get_pool.
      rewrite pools_set_pool, pools_with_bank in *.
      set (out := if recv =? ROWAN then sent else recv) in *.
      destruct (Z.eq_dec a out) as [->|Hne].
      * rewrite get_set_same. cbn [option_map]. rewrite units_upd_balances.
        destruct (Z.eq_dec out sent) as [Eo|Hos].
        -- rewrite Eo in *. rewrite get_set_same in Hx7. injection Hx7 as <-. rewrite units_upd_balances.
           match goal with Hg : get sent (cs_pools s) = Some ?p |- _ => rewrite Hg; reflexivity end.
        -- rewrite get_set_other in Hx7 by exact Hos. rewrite Hx7. reflexivity.
      * rewrite get_set_other by exact Hne.
        destruct (Z.eq_dec a sent) as [->|Hns].
        -- rewrite get_set_same. match goal with Hg : get sent (cs_pools s) = Some ?p |- _ => rewrite Hg; reflexivity end.
        -- rewrite get_set_other by exact Hns. reflexivity.
    + injection Hx6 as <- <-. rewrite pools_with_bank in *.
      set (out := if recv =? ROWAN then sent else recv) in *.
      destruct (Z.eq_dec a out) as [->|Hne].
      * rewrite get_set_same. cbn [option_map]. rewrite units_upd_balances, Hx7. reflexivity.
      * rewrite get_set_other by exact Hne. reflexivity.
Qed.

Lemma unlock_UInv s sg a u s' : UInv s -> unlock s sg a u = Ok s' -> UInv s'.
Proof.
  unfold unlock. intros HI H. repeat inv1 H. use_requires. subst s'.
  match goal with Hg : get_lp s a sg = Ok ?l |- _ => apply opt_or_fail_ok in Hg; pose proof Hg as Hf end.
  match goal with Hp : prune_lp _ _ _ _ = _ |- _ => eapply prune_lp_usum in Hp; [|exact Hf]; destruct Hp as (Hu & Hpools & Hunits & Hsg & Hl) end.
  intros a'. specialize (HI a'). rewrite pools_set_lp, Hpools.
  destruct (get a' (cs_pools s)).
  - rewrite usum_set_lp. destruct (Z.eqb_spec a' a) as [->|]; [|rewrite Hu; exact HI]. rewrite Hu, Hsg. cbn. lia.
  - destruct (Z.eq_dec a' a) as [->|Hne].
    + exfalso. unfold find_lp in Hf. rewrite HI in Hf. discriminate.
    + unfold set_lp. destruct (lp_last _ =? 0); rewrite lps_for_put_other by exact Hne; rewrite Hl by exact Hne; exact HI.
Qed.

Lemma cancel_unlock_UInv s sg a u s' : UInv s -> cancel_unlock s sg a u = Ok s' -> UInv s'.
Proof.
  unfold cancel_unlock. intros HI H. repeat inv1 H. subst s'.
  match goal with Hg : get_lp s a sg = Ok ?l |- _ => apply opt_or_fail_ok in Hg; pose proof Hg as Hf end.
  match goal with Hp : prune_lp _ _ _ _ = _ |- _ => eapply prune_lp_usum in Hp; [|exact Hf]; destruct Hp as (Hu & Hpools & Hunits & Hsg & Hl) end.
  intros a'. specialize (HI a'). rewrite pools_set_lp, Hpools.
  destruct (get a' (cs_pools s)).
  - rewrite usum_set_lp. destruct (Z.eqb_spec a' a) as [->|]; [|rewrite Hu; exact HI]. rewrite Hu, Hsg. cbn. lia.
  - destruct (Z.eq_dec a' a) as [->|Hne].
    + exfalso. unfold find_lp in Hf. rewrite HI in Hf. discriminate.
    + unfold set_lp. destruct (lp_last _ =? 0); rewrite lps_for_put_other by exact Hne; rewrite Hl by exact Hne; exact HI.
Qed.

Lemma add_to_bucket_UInv s sg coins s' : UInv s -> add_to_bucket s sg coins = Ok s' -> UInv s'.
Proof. unfold add_to_bucket. intros HI H. repeat inv1 H. subst s'. apply (UInv_same_units s); [reflexivity|reflexivity|exact HI]. Qed.

(* DecommissionPool: every provider of the pool is refunded and deleted, in store order, then the pool is deleted *)
Lemma refund_all_lps ls : forall s a pl nd ed pu nb eb s',
  lps_for s a = ls -> refund_all s a pl nd ed ls pu nb eb = Ok s' ->
  lps_for s' a = [] /\ cs_pools s' = cs_pools s /\ (forall a', a' <> a -> lps_for s' a' = lps_for s a').
Proof.
  induction ls as [|[k l] rest IH]; intros s a pl nd ed pu nb eb s' Hl H; cbn [refund_all] in H.
  - injection H as <-. auto.
  - repeat inv1 H.
    match goal with Hr : refund_all (del_lp (with_bank s ?b) a k) _ _ _ _ _ _ _ _ = Ok _ |- _ =>
      apply IH in Hr; [destruct Hr as (H1 & H2 & H3)|] end.
    + split; [exact H1|]. split; [rewrite H2; reflexivity|].
      intros a' Hne. rewrite H3 by exact Hne. rewrite lps_for_del_other by exact Hne. reflexivity.
    + rewrite lps_for_del. match goal with |- context [lps_for (with_bank s ?b) a] => change (lps_for (with_bank s b) a) with (lps_for s a) end. rewrite Hl. cbn [del].
      destruct (Z.ltb_spec k k); [lia|]. rewrite Z.eqb_refl. reflexivity.
Qed.

Lemma decommission_UInv s sg a s' : wf (cs_pools s) -> UInv s -> decommission s sg a = Ok s' -> UInv s'.
Proof.
  unfold decommission. intros Hwf HI H. repeat inv1 H. subst s'. use_get_pool.
  match goal with Hr : refund_all _ _ _ _ _ _ _ _ _ = Ok _ |- _ => apply refund_all_lps in Hr; [destruct Hr as (H1 & H2 & H3)|reflexivity] end.
  intros a'. specialize (HI a'). cbn -[get del usum lps_for]. rewrite H2.
  destruct (Z.eq_dec a' a) as [->|Hne].
  - rewrite wf_get_del_same by exact Hwf. exact H1.
  - rewrite wf_get_del_other by assumption. destruct (get a' (cs_pools s)).
    + unfold usum in *. match goal with |- context [lps_for (?x <| cs_pools := ?pp |>) a'] => change (lps_for (x <| cs_pools := pp |>) a') with (lps_for x a') end. rewrite H3 by exact Hne. exact HI.
    + match goal with |- context [lps_for (?x <| cs_pools := ?pp |>) a'] => change (lps_for (x <| cs_pools := pp |>) a') with (lps_for x a') end. rewrite H3 by exact Hne. exact HI.
Qed.

(* ---- all user messages, transactions, histories ---- *)
(* the one excluded case: an add to a pool with an empty side (finding F-14, refuted in ClpUnits) *)
Definition not_one_sided_add (s : clp_state) (m : clp_msg) : Prop :=
  match m with
  | MAddLiquidity _ a n e => forall p, get a (cs_pools s) = Some p -> symmetry_state (p_eb p + p_el p) e (p_nb p + p_nl p) n <> EmptyPool
  | _ => True
  end.

Lemma handle_UInv s m s' : wf (cs_pools s) -> UInv s -> not_one_sided_add s m -> handle s m = Ok s' -> UInv s'.
Proof.
  intros Hwf HI Hn H. destruct m; cbn [handle] in H.
  - eapply create_pool_UInv; eassumption.
  - eapply add_liquidity_UInv; eassumption.
  - eapply remove_liquidity_UInv; eassumption.
  - eapply remove_liquidity_units_UInv; eassumption.
  - repeat inv1 H. subst. eapply swap_UInv; eassumption.
  - eapply unlock_UInv; eassumption.
  - eapply cancel_unlock_UInv; eassumption.
  - eapply decommission_UInv; eassumption.
  - eapply add_to_bucket_UInv; eassumption.
Qed.

Lemma deliver_UInv s fee m : wf (cs_pools s) -> UInv s -> not_one_sided_add s m -> UInv (fst (deliver s fee m)).
Proof.
  intros Hwf HI Hn. unfold deliver.
  set (s0 := with_bank s (credit (cs_bank s) (signer_of m) ROWAN (- fee))).
  assert (HI0 : UInv s0) by (intros a; apply HI).
  destruct (handle s0 m) as [s'| |] eqn:E; cbn [fst]; try exact HI0.
  apply (handle_UInv s0 m s'); [exact Hwf|exact HI0|exact Hn|exact E].
Qed.

(* side conditions along a history: pool store sorted, no add into a one-sided pool *)
Fixpoint units_run (s : clp_state) (txs : list (Z * clp_msg)) : Prop :=
  match txs with
  | [] => True
  | (fee, m) :: rest => wf (cs_pools s) /\ not_one_sided_add s m /\ units_run (fst (deliver s fee m)) rest
  end.

Theorem run_txs_UInv : forall txs s, units_run s txs -> UInv s -> UInv (run_txs s txs).
Proof.
  induction txs as [|[fee m] rest IH]; intros s Hr HI; cbn [run_txs]; [exact HI|].
  destruct Hr as (Hwf & Hn & Hrest). apply IH; [exact Hrest|]. apply deliver_UInv; assumption.
Qed.
