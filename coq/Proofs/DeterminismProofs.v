From Coq Require Import ZArith Lia Bool List Permutation.
From RecordUpdate Require Import RecordUpdate.
From Sif Require Import Base.Outcome Base.Store Base.Bank Model.ClpTypes Model.ClpRewards Model.ClpState Model.ClpHooks
  Model.Determinism Proofs.BankProofs.
Import ListNotations.
Local Open Scope Z_scope.

(* with nothing blocked it is the function the correspondence check runs *)
Lemma transfer_blk_generic ds : forall order b,
  transfer_blk (fun _ => false) (fun a => addr_total a ds) b order = transfer_generic b order ds.
Proof.
  induction order as [|a rest IH]; intros b; cbn [transfer_blk transfer_generic]; [reflexivity|].
  destruct (send b CLP_MODULE a ROWAN (addr_total a ds)); rewrite IH; reflexivity.
Qed.

(* what is paid out over an order: the amounts of the recipients that can receive *)
Fixpoint paid_total (blocked : Z -> bool) (amt : Z -> Z) (order : list Z) : Z :=
  match order with
  | [] => 0
  | a :: rest => (if blocked a then 0 else amt a) + paid_total blocked amt rest
  end.

Lemma paid_total_perm blocked amt l1 l2 : Permutation l1 l2 -> paid_total blocked amt l1 = paid_total blocked amt l2.
Proof. induction 1; cbn [paid_total]; lia. Qed.

Lemma paid_total_nonneg blocked amt l : (forall a, In a l -> 0 <= amt a) -> 0 <= paid_total blocked amt l.
Proof.
  induction l as [|a r IH]; intros H; cbn [paid_total]; [lia|].
  assert (0 <= amt a) by (apply H; left; reflexivity).
  assert (0 <= paid_total blocked amt r) by (apply IH; intros; apply H; right; assumption).
  destruct (blocked a); lia.
Qed.

Ltac ifs_lia := repeat match goal with |- context [if ?c then _ else _] => destruct c end; lia.

Definition inl (a : Z) (l : list Z) : bool := existsb (Z.eqb a) l.

Lemma inl_In a l : inl a l = true <-> In a l.
Proof.
  unfold inl. rewrite existsb_exists. split.
  - intros (x & Hx & E). apply Z.eqb_eq in E. subst. exact Hx.
  - intros H. exists a. split; [exact H|apply Z.eqb_refl].
Qed.

Lemma inl_perm a l1 l2 : Permutation l1 l2 -> inl a l1 = inl a l2.
Proof.
  intros Hp. destruct (inl a l1) eqn:E1; destruct (inl a l2) eqn:E2; try reflexivity.
  - apply inl_In in E1. apply (Permutation_in _ Hp) in E1. apply inl_In in E1. congruence.
  - apply inl_In in E2. apply (Permutation_in _ (Permutation_sym Hp)) in E2. apply inl_In in E2. congruence.
Qed.

(* closed form: when the module account covers everything that can be paid, no payment fails for lack
   of funds, exactly the blocked recipients fail, and every balance is a function of the SET of recipients *)
Lemma transfer_blk_closed blocked amt : forall order b,
  NoDup order -> ~ In CLP_MODULE order -> (forall a, In a order -> 0 <= amt a) ->
  paid_total blocked amt order <= bal b CLP_MODULE ROWAN ->
  let '(b', failed) := transfer_blk blocked amt b order in
  failed = filter blocked order /\
  (forall a d, bal b' a d = bal b a d
     + (if d =? ROWAN then (if inl a order && negb (blocked a) then amt a else 0)
                           - (if a =? CLP_MODULE then paid_total blocked amt order else 0) else 0)) /\
  (forall d, sup b' d = sup b d).
Proof.
  induction order as [|x rest IH]; intros b Hnd Hclp Hnn Hfunds.
  - cbn. split; [reflexivity|]. split; [|reflexivity]. intros a d. destruct (d =? ROWAN); destruct (a =? CLP_MODULE); lia.
  - cbn [transfer_blk]. inversion Hnd as [|? ? Hnotin Hnd']; subst.
    assert (Hclp' : ~ In CLP_MODULE rest) by (intros H; apply Hclp; right; exact H).
    assert (Hxclp : x <> CLP_MODULE) by (intros ->; apply Hclp; left; reflexivity).
    assert (Hnn' : forall a, In a rest -> 0 <= amt a) by (intros; apply Hnn; right; assumption).
    assert (Hx0 : 0 <= amt x) by (apply Hnn; left; reflexivity).
    pose proof (paid_total_nonneg blocked amt rest Hnn') as Hrest0.
    destruct (blocked x) eqn:Eb; cbn [paid_total] in Hfunds; rewrite Eb in Hfunds.
    + rewrite Z.add_0_l in Hfunds. specialize (IH b Hnd' Hclp' Hnn' Hfunds).
      destruct (transfer_blk blocked amt b rest) as [b' failed]. destruct IH as (Hf & Hb & Hs).
      split; [cbn [filter]; rewrite Eb, Hf; reflexivity|]. split; [|exact Hs].
      intros a d. rewrite Hb. cbn [paid_total inl existsb]. rewrite Eb. fold (inl a rest).
      destruct (d =? ROWAN); [|lia].
      destruct (Z.eqb_spec a x) as [->|Hax]; cbn [orb].
      * assert (E : inl x rest = false).
        { destruct (inl x rest) eqn:E; [|reflexivity]. apply inl_In in E. contradiction. }
        rewrite E, Eb. cbn [andb negb]. ifs_lia.
      * ifs_lia.
    + destruct (send b CLP_MODULE x ROWAN (amt x)) as [b1|] eqn:Es.
      * pose proof (send_effect _ _ _ _ _ _ Es) as (_ & Hb1 & Hs1).
        assert (Hf1 : paid_total blocked amt rest <= bal b1 CLP_MODULE ROWAN).
        { rewrite Hb1. destruct (Z.eqb_spec CLP_MODULE CLP_MODULE); [|congruence]. destruct (Z.eqb_spec ROWAN ROWAN); [|congruence].
          destruct (Z.eqb_spec CLP_MODULE x); [congruence|]. cbn [andb]. lia. }
        specialize (IH b1 Hnd' Hclp' Hnn' Hf1).
        destruct (transfer_blk blocked amt b1 rest) as [b' failed]. destruct IH as (Hf & Hb & Hs).
        split; [cbn [filter]; rewrite Eb; exact Hf|]. split; [|intros d; rewrite Hs; apply Hs1].
        intros a d. rewrite Hb, Hb1. cbn [paid_total inl existsb]. rewrite Eb. fold (inl a rest).
        destruct (Z.eqb_spec d ROWAN) as [->|Hd]; [|rewrite !andb_false_r; lia].
        rewrite !andb_true_r.
        destruct (Z.eqb_spec a x) as [->|Hax]; cbn [orb].
        -- assert (E : inl x rest = false).
           { destruct (inl x rest) eqn:E; [|reflexivity]. apply inl_In in E. contradiction. }
           rewrite E, Eb. cbn [andb negb]. destruct (Z.eqb_spec x CLP_MODULE); [congruence|]. ifs_lia.
        -- ifs_lia.
      * (* cannot happen: the funds are there *)
        exfalso. unfold send in Es.
        destruct (Z.ltb_spec (amt x) 0); [lia|]. destruct (Z.eqb_spec (amt x) 0); [discriminate|].
        destruct (Z.ltb_spec (bal b CLP_MODULE ROWAN) (amt x)); [lia|discriminate].
Qed.

(* C09: two iteration orders of the recipient map give the same balances, the same supply and the same
   set of failed recipients *)
Lemma transfer_blk_perm blocked amt o1 o2 b :
  Permutation o1 o2 -> NoDup o1 -> ~ In CLP_MODULE o1 -> (forall a, In a o1 -> 0 <= amt a) ->
  paid_total blocked amt o1 <= bal b CLP_MODULE ROWAN ->
  let '(b1, f1) := transfer_blk blocked amt b o1 in
  let '(b2, f2) := transfer_blk blocked amt b o2 in
  (forall a d, bal b1 a d = bal b2 a d) /\ (forall d, sup b1 d = sup b2 d) /\ Permutation f1 f2.
Proof.
  intros Hp Hnd Hclp Hnn Hf.
  pose proof (transfer_blk_closed blocked amt o1 b Hnd Hclp Hnn Hf) as C1.
  assert (Hnd2 : NoDup o2) by (eapply Permutation_NoDup; eassumption).
  assert (Hclp2 : ~ In CLP_MODULE o2) by (intros H; apply Hclp; eapply Permutation_in; [apply Permutation_sym; eassumption|exact H]).
  assert (Hnn2 : forall a, In a o2 -> 0 <= amt a) by (intros a H; apply Hnn; eapply Permutation_in; [apply Permutation_sym; eassumption|exact H]).
  assert (Hf2 : paid_total blocked amt o2 <= bal b CLP_MODULE ROWAN) by (rewrite <- (paid_total_perm blocked amt _ _ Hp); exact Hf).
  pose proof (transfer_blk_closed blocked amt o2 b Hnd2 Hclp2 Hnn2 Hf2) as C2.
  destruct (transfer_blk blocked amt b o1) as [b1 f1]. destruct (transfer_blk blocked amt b o2) as [b2 f2].
  destruct C1 as (F1 & B1 & S1). destruct C2 as (F2 & B2 & S2).
  split; [|split].
  - intros a d. rewrite B1, B2, (inl_perm a _ _ Hp), (paid_total_perm blocked amt _ _ Hp). reflexivity.
  - intros d. rewrite S1, S2. reflexivity.
  - subst. clear -Hp. induction Hp; cbn [filter].
    + constructor.
    + destruct (blocked x); [constructor|]; assumption.
    + destruct (blocked x); destruct (blocked y); try apply Permutation_refl. apply perm_swap.
    + eapply Permutation_trans; eassumption.
Qed.

(* membership of the failed list is all the later code looks at (pool_after_failures uses inb) *)
Lemma inb_perm a l1 l2 : Permutation l1 l2 -> inb a l1 = inb a l2.
Proof. apply inl_perm. Qed.

(* `for _, x := range m { sum += x }` *)
Lemma map_sum_perm l1 l2 : Permutation l1 l2 -> map_sum l1 = map_sum l2.
Proof.
  unfold map_sum. assert (G : forall l acc, fold_left (fun acc (e : Z * Z) => acc + snd e) l acc = acc + fold_left (fun acc e => acc + snd e) l 0).
  { induction l as [|e r IH]; intros acc; cbn [fold_left]; [lia|]. rewrite IH, (IH (0 + snd e)). lia. }
  induction 1; cbn [fold_left]; try lia.
  - rewrite G, (G l' (0 + snd x)). lia.
  - rewrite G, (G l (0 + snd x + snd y)). lia.
Qed.

(* independent per-pool updates: the value stored under every key is the same for both orders *)
Lemma get_upd_pool k f m k' : get k' (upd_pool k f m) = if k' =? k then option_map f (get k m) else get k' m.
Proof.
  unfold upd_pool. destruct (Z.eqb_spec k' k) as [->|Hne].
  - destruct (get k m) eqn:E; cbn [option_map]; [apply get_set_same|exact E].
  - destruct (get k m); [apply get_set_other; assumption|reflexivity].
Qed.

Lemma pool_updates_get f : forall order m k,
  NoDup (map fst order) ->
  get k (pool_updates f order m) =
    match find (fun e => fst e =? k) order with
    | Some e => option_map (f (fst e) (snd e)) (get k m)
    | None => get k m
    end.
Proof.
  unfold pool_updates. induction order as [|e rest IH]; intros m k Hnd; cbn [fold_left find]; [reflexivity|].
  cbn [map] in Hnd. inversion Hnd as [|? ? Hnotin Hnd']; subst.
  rewrite IH by exact Hnd'.
  destruct (Z.eqb_spec (fst e) k) as [E|Hne].
  - subst k. assert (Hf : find (fun e0 => fst e0 =? fst e) rest = None).
    { destruct (find _ rest) as [e0|] eqn:Ef; [|reflexivity]. exfalso. apply find_some in Ef. destruct Ef as (Hin & Heq).
      apply Z.eqb_eq in Heq. apply Hnotin. rewrite <- Heq. apply in_map. exact Hin. }
    rewrite Hf, get_upd_pool, Z.eqb_refl. reflexivity.
  - destruct (find (fun e0 => fst e0 =? k) rest) as [e0|] eqn:Ef.
    + rewrite get_upd_pool. destruct (Z.eqb_spec k (fst e)); [congruence|reflexivity].
    + rewrite get_upd_pool. destruct (Z.eqb_spec k (fst e)); [congruence|reflexivity].
Qed.

Lemma find_perm_nodup (l1 l2 : list (Z * Z)) k :
  Permutation l1 l2 -> NoDup (map fst l1) -> find (fun e => fst e =? k) l1 = find (fun e => fst e =? k) l2.
Proof.
  intros Hp Hnd.
  assert (Hnd2 : NoDup (map fst l2)) by (eapply Permutation_NoDup; [apply Permutation_map; eassumption|exact Hnd]).
  assert (U : forall (l : list (Z * Z)) (e : Z * Z), NoDup (map fst l) -> In e l -> fst e = k -> find (fun e0 => fst e0 =? k) l = Some e).
  { induction l as [|x r IH]; intros e Hn Hin Hk; [contradiction|]. cbn [find]. cbn [map] in Hn. inversion Hn; subst.
    destruct Hin as [->|Hin].
    - rewrite Z.eqb_refl. reflexivity.
    - destruct (Z.eqb_spec (fst x) (fst e)) as [E|_]; [|apply IH; auto].
      exfalso. match goal with Hni : ~ In (fst x) (map fst r) |- _ => apply Hni; rewrite E; apply in_map; exact Hin end. }
  destruct (find (fun e => fst e =? k) l1) as [e|] eqn:E1.
  - apply find_some in E1. destruct E1 as (Hin & Hk). apply Z.eqb_eq in Hk.
    symmetry. apply U; [exact Hnd2| eapply Permutation_in; eassumption|exact Hk].
  - destruct (find (fun e => fst e =? k) l2) as [e|] eqn:E2; [|reflexivity].
    apply find_some in E2. destruct E2 as (Hin & Hk). apply Z.eqb_eq in Hk.
    rewrite (U l1 e Hnd (Permutation_in _ (Permutation_sym Hp) Hin) Hk) in E1. discriminate.
Qed.

Lemma pool_updates_perm f o1 o2 m :
  Permutation o1 o2 -> NoDup (map fst o1) ->
  forall k, get k (pool_updates f o1 m) = get k (pool_updates f o2 m).
Proof.
  intros Hp Hnd k.
  assert (Hnd2 : NoDup (map fst o2)) by (eapply Permutation_NoDup; [apply Permutation_map; eassumption|exact Hnd]).
  rewrite !pool_updates_get by assumption. rewrite (find_perm_nodup _ _ k Hp Hnd). reflexivity.
Qed.

(* ---- the loops of the model (ClpHooks) are instances of pool_updates ---- *)
Definition eqv (m1 m2 : store pool) : Prop := forall k, get k m1 = get k m2.

Lemma eqv_upd k f m1 m2 : eqv m1 m2 -> eqv (upd_pool k f m1) (upd_pool k f m2).
Proof. intros H k'. rewrite !get_upd_pool, H, (H k'). reflexivity. Qed.

Lemma eqv_upd_id k m : eqv (upd_pool k (fun pl => pl) m) m.
Proof. intros k'. rewrite get_upd_pool. destruct (Z.eqb_spec k' k) as [->|]; [destruct (get k m); reflexivity|reflexivity]. Qed.

Lemma eqv_upd_ext k f g m : (forall pl, f pl = g pl) -> eqv (upd_pool k f m) (upd_pool k g m).
Proof. intros H k'. rewrite !get_upd_pool. destruct (k' =? k); [|reflexivity]. destruct (get k m); cbn; [rewrite H|]; reflexivity. Qed.

(* DistributeDepthRewards: `for pool, rowan := range poolRowanMap { if rowan == 0 { continue }; ...; SetPool }` *)
Definition rpd_update (asset amt : Z) (pl : pool) : pool := if amt =? 0 then pl else pl <| p_rpd := p_rpd pl + amt |>.

Lemma rewards_loop_is_pool_updates failed : forall ds m1 m2, eqv m1 m2 ->
  eqv (fold_left (fun m d => let '(asset, amt) := pool_after_failures failed d in
                             if amt =? 0 then m else upd_pool asset (fun pl => pl <| p_rpd := p_rpd pl + amt |>) m) ds m1)
      (pool_updates rpd_update (map (pool_after_failures failed) ds) m2).
Proof.
  unfold pool_updates. induction ds as [|d rest IH]; intros m1 m2 H; cbn [fold_left map]; [exact H|].
  apply IH. destruct (pool_after_failures failed d) as [asset amt]. cbn [fst snd]. unfold rpd_update.
  destruct (amt =? 0).
  - intros k. rewrite (eqv_upd_id asset m2 k). apply H.
  - apply eqv_upd. exact H.
Qed.

(* TransferProviderDistribution (LPPD): `for pool, sub := range poolRowanMap { ...; SetPool }` *)
Definition lppd_update (asset sub : Z) (pl : pool) : pool := if p_nb pl <? sub then pl else pl <| p_nb := p_nb pl - sub |>.

Lemma lppd_loop_is_pool_updates failed : forall ds m1 m2, eqv m1 m2 ->
  eqv (fold_left (fun m d => let '(asset, sub) := pool_after_failures failed d in
                             upd_pool asset (fun pl => if p_nb pl <? sub then pl else pl <| p_nb := p_nb pl - sub |>) m) ds m1)
      (pool_updates lppd_update (map (pool_after_failures failed) ds) m2).
Proof.
  unfold pool_updates. induction ds as [|d rest IH]; intros m1 m2 H; cbn [fold_left map]; [exact H|].
  apply IH. destruct (pool_after_failures failed d) as [asset sub]. cbn [fst snd]. apply eqv_upd. exact H.
Qed.
