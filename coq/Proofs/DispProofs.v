(* x/dispensation: escrow, create / run effects, per-key ledger (paid at most once, in full), claims. *)
From Coq Require Import ZArith Lia Bool List.
From RecordUpdate Require Import RecordUpdate.
From Sif Require Import Base.Outcome Base.Store Base.Bank Proofs.BankProofs Model.Dispensation.
Import ListNotations.
Local Open Scope Z_scope.

(* ---------- keys ---------- *)
Lemma key_eqb_eq a b : key_eqb a b = true <-> a = b.
Proof.
  destruct a as [[a1 a2] a3], b as [[b1 b2] b3]. unfold key_eqb, k_name, k_type, k_raw; cbn.
  rewrite !andb_true_iff, !Z.eqb_eq. split; [intros [[-> ->] ->]; reflexivity | intros [= -> -> ->]; auto].
Qed.
Lemma key_eqb_refl a : key_eqb a a = true.
Proof. apply key_eqb_eq; reflexivity. Qed.
Lemma key_eqb_neq a b : a <> b -> key_eqb a b = false.
Proof. intros H. destruct (key_eqb a b) eqn:E; [apply key_eqb_eq in E; contradiction | reflexivity]. Qed.
Lemma key_eqb_spec a b : reflect (a = b) (key_eqb a b).
Proof. destruct (key_eqb a b) eqn:E; constructor; [apply key_eqb_eq; auto | intros ->; rewrite key_eqb_refl in E; discriminate]. Qed.

(* ---------- tables ---------- *)
Section TableLemmas.
  Context {V : Type}.
  Implicit Types t : table V.

  Definition tkeys t : list rkey := map fst t.

  Lemma rget_rreplace_same k v t : rget k t <> None -> rget k (rreplace k v t) = Some v.
  Proof.
    induction t as [|[k' v'] t IH]; cbn; [congruence|].
    destruct (key_eqb k k') eqn:E; cbn; [rewrite key_eqb_refl; reflexivity | rewrite E; exact IH].
  Qed.
  Lemma rget_rreplace_other k k2 v t : k2 <> k -> rget k2 (rreplace k v t) = rget k2 t.
  Proof.
    intros Hne. induction t as [|[k' v'] t IH]; cbn; [reflexivity|].
    destruct (key_eqb_spec k k') as [<-|Hk]; cbn; [rewrite (key_eqb_neq _ _ Hne); reflexivity|].
    destruct (key_eqb k2 k'); auto.
  Qed.
  Lemma tkeys_rreplace k v t : tkeys (rreplace k v t) = tkeys t.
  Proof.
    induction t as [|[k' v'] t IH]; cbn; [reflexivity|].
    destruct (key_eqb_spec k k') as [<-|Hk]; cbn; [reflexivity | f_equal; exact IH].
  Qed.
  Lemma rget_rinsert_same k v t : rget k t = None -> rget k (rinsert k v t) = Some v.
  Proof.
    induction t as [|[k' v'] t IH]; cbn; [rewrite key_eqb_refl; reflexivity|].
    destruct (key_eqb k k') eqn:E; [discriminate|]. intros H.
    destruct (key_ltb k k'); cbn; [rewrite key_eqb_refl; reflexivity | rewrite E; auto].
  Qed.
  Lemma rget_rinsert_other k k2 v t : k2 <> k -> rget k2 (rinsert k v t) = rget k2 t.
  Proof.
    intros Hne. induction t as [|[k' v'] t IH]; cbn; [rewrite (key_eqb_neq _ _ Hne); reflexivity|].
    destruct (key_ltb k k'); cbn; [rewrite (key_eqb_neq _ _ Hne); reflexivity|].
    destruct (key_eqb k2 k'); auto.
  Qed.
  Lemma tkeys_rinsert_in k v t x : In x (tkeys (rinsert k v t)) <-> x = k \/ In x (tkeys t).
  Proof.
    induction t as [|[k' v'] t IH]; cbn; [intuition|].
    destruct (key_ltb k k'); cbn; [intuition|]. rewrite IH. intuition.
  Qed.
  Lemma nodup_rinsert k v t : ~ In k (tkeys t) -> NoDup (tkeys t) -> NoDup (tkeys (rinsert k v t)).
  Proof.
    induction t as [|[k' v'] t IH]; cbn; intros Hni Hnd; [constructor; [tauto|constructor]|].
    destruct (key_ltb k k'); cbn; [constructor; auto|].
    inversion Hnd as [|? ? Hni' Hnd']; subst. constructor.
    - fold (tkeys (rinsert k v t)). rewrite tkeys_rinsert_in. intros [->|H]; [apply Hni; auto | auto].
    - apply IH; auto.
  Qed.

  Lemma rget_none_notin k t : rget k t = None <-> ~ In k (tkeys t).
  Proof.
    induction t as [|[k' v'] t IH]; cbn; [tauto|].
    destruct (key_eqb_spec k k') as [<-|Hk]; [split; [discriminate | intros H; exfalso; apply H; auto]|].
    rewrite IH. split; [intros H [H1|H1]; [congruence|auto] | intros H H1; apply H; auto].
  Qed.
  Lemma rget_in k v t : rget k t = Some v -> In (k, v) t.
  Proof.
    induction t as [|[k' v'] t IH]; cbn; [discriminate|].
    destruct (key_eqb_spec k k') as [<-|Hk]; [intros [= ->]; auto | auto].
  Qed.
  Lemma in_rget_nodup k v t : NoDup (tkeys t) -> In (k, v) t -> rget k t = Some v.
  Proof.
    induction t as [|[k' v'] t IH]; cbn; [tauto|]. intros Hnd [H|H].
    - injection H as -> ->. rewrite key_eqb_refl. reflexivity.
    - inversion Hnd as [|? ? Hni Hnd']; subst.
      destruct (key_eqb_spec k k') as [<-|Hk]; [exfalso; apply Hni; apply (in_map fst) in H; exact H | auto].
  Qed.

  Lemma rget_rset_same k v t : rget k (rset k v t) = Some v.
  Proof.
    unfold rset. destruct (rget k t) eqn:E; [apply rget_rreplace_same; congruence | apply rget_rinsert_same; exact E].
  Qed.
  Lemma rget_rset_other k k2 v t : k2 <> k -> rget k2 (rset k v t) = rget k2 t.
  Proof.
    intros. unfold rset. destruct (rget k t); [apply rget_rreplace_other | apply rget_rinsert_other]; auto.
  Qed.
  Lemma tkeys_rset_in k v t x : In x (tkeys (rset k v t)) <-> x = k \/ In x (tkeys t).
  Proof.
    unfold rset. destruct (rget k t) eqn:E.
    - rewrite tkeys_rreplace. split; [auto|]. intros [->|H]; [|exact H].
      apply rget_in in E. apply (in_map fst) in E. exact E.
    - apply tkeys_rinsert_in.
  Qed.
  Lemma nodup_rset k v t : NoDup (tkeys t) -> NoDup (tkeys (rset k v t)).
  Proof.
    intros Hnd. unfold rset. destruct (rget k t) eqn:E.
    - rewrite tkeys_rreplace. exact Hnd.
    - apply nodup_rinsert; auto. apply rget_none_notin; exact E.
  Qed.

  Lemma rget_rdel_other k k2 t : k2 <> k -> rget k2 (rdel k t) = rget k2 t.
  Proof.
    intros Hne. induction t as [|[k' v'] t IH]; cbn; [reflexivity|].
    destruct (key_eqb_spec k k') as [<-|Hk]; cbn.
    - rewrite (key_eqb_neq _ _ Hne). reflexivity.
    - destruct (key_eqb k2 k'); auto.
  Qed.
  Lemma tkeys_rdel_in k t x : In x (tkeys (rdel k t)) -> In x (tkeys t).
  Proof.
    induction t as [|[k' v'] t IH]; cbn; [tauto|].
    destruct (key_eqb k k'); cbn; [auto|]. intros [H|H]; auto.
  Qed.
  Lemma nodup_rdel k t : NoDup (tkeys t) -> NoDup (tkeys (rdel k t)).
  Proof.
    induction t as [|[k' v'] t IH]; cbn; intros Hnd; [constructor|].
    inversion Hnd as [|? ? Hni Hnd']; subst.
    destruct (key_eqb k k'); cbn; [exact Hnd'|]. constructor; [|auto].
    intros H. apply Hni. eapply tkeys_rdel_in; eauto.
  Qed.
  Lemma rget_rdel_same k t : NoDup (tkeys t) -> rget k (rdel k t) = None.
  Proof.
    induction t as [|[k' v'] t IH]; cbn; intros Hnd; [reflexivity|].
    inversion Hnd as [|? ? Hni Hnd']; subst.
    destruct (key_eqb_spec k k') as [<-|Hk]; cbn.
    - apply rget_none_notin. exact Hni.
    - rewrite (key_eqb_neq _ _ Hk). auto.
  Qed.

  (* sums over a table *)
  Variable f : V -> Z.
  Definition tsumf t : Z := fold_right (fun kv acc => f (snd kv) + acc) 0 t.
  Definition foptv (o : option V) : Z := match o with Some v => f v | None => 0 end.
  Lemma tsumf_rreplace k v t : tsumf (rreplace k v t) = tsumf t - foptv (rget k t) + (match rget k t with Some _ => f v | None => 0 end).
  Proof.
    unfold tsumf.
    induction t as [|[k' v'] t IH]; cbn; [lia|].
    destruct (key_eqb k k'); cbn; [lia | rewrite IH; lia].
  Qed.
  Lemma tsumf_rinsert k v t : tsumf (rinsert k v t) = tsumf t + f v.
  Proof.
    unfold tsumf.
    induction t as [|[k' v'] t IH]; cbn; [lia|].
    destruct (key_ltb k k'); cbn; [lia | rewrite IH; lia].
  Qed.
  Lemma tsumf_rset k v t : tsumf (rset k v t) = tsumf t - foptv (rget k t) + f v.
  Proof.
    unfold rset. destruct (rget k t) eqn:E; [rewrite tsumf_rreplace, E | rewrite tsumf_rinsert]; cbn [foptv]; lia.
  Qed.
  Lemma tsumf_rdel k t : tsumf (rdel k t) = tsumf t - foptv (rget k t).
  Proof.
    unfold tsumf.
    induction t as [|[k' v'] t IH]; cbn; [lia|].
    destruct (key_eqb k k'); cbn; [lia | rewrite IH; lia].
  Qed.
  Lemma tsumf_nonneg t : (forall k v, In (k, v) t -> 0 <= f v) -> 0 <= tsumf t.
  Proof.
    unfold tsumf.
    induction t as [|[k' v'] t IH]; cbn; intros H; [lia|].
    assert (0 <= f v') by (eapply H; left; reflexivity). assert (0 <= fold_right (fun kv acc => f (snd kv) + acc) 0 t) by (apply IH; intros; eapply H; right; eauto). lia.
  Qed.
End TableLemmas.

(* ---------- coins ---------- *)
Definition asum (d : Z) (cs : coins) : Z :=
  fold_right (fun c acc => (if fst c =? d then snd c else 0) + acc) 0 cs.

Lemma amt_coins_add d a b : amt d (coins_add a b) = amt d a + asum d b.
Proof.
  unfold coins_add, amt. revert a. induction b as [|[d' x] b IH]; intros a; cbn [fold_left asum fold_right fst snd]; [lia|].
  rewrite IH. fold (asum d b). destruct (Z.eqb_spec d' d) as [->|Hne].
  - rewrite getz_set_same. lia.
  - rewrite getz_set_other; [lia | congruence].
Qed.

Lemma valid_from_below lo cs d : coins_valid_from lo cs = true -> d <= lo -> getz d cs = 0 /\ asum d cs = 0.
Proof.
  revert lo. induction cs as [|[d' x] cs IH]; intros lo Hv Hle; [split; reflexivity|].
  cbn [coins_valid_from] in Hv. apply andb_true_iff in Hv as [Hv Hv2]. apply andb_true_iff in Hv as [Hlo Hx].
  apply Z.ltb_lt in Hlo. destruct (IH d' Hv2 ltac:(lia)) as [H1 H2].
  split.
  - unfold getz. cbn [get]. destruct (Z.ltb_spec d' d); [lia|]. destruct (Z.eqb_spec d' d); [lia|reflexivity].
  - cbn [asum fold_right fst snd]. fold (asum d cs). rewrite H2. destruct (Z.eqb_spec d' d); lia.
Qed.

Lemma valid_from_asum lo cs d : coins_valid_from lo cs = true -> asum d cs = amt d cs /\ 0 <= asum d cs.
Proof.
  revert lo. induction cs as [|[d' x] cs IH]; intros lo Hv; [split; [reflexivity | cbn; lia]|].
  pose proof Hv as Hv0. cbn [coins_valid_from] in Hv. apply andb_true_iff in Hv as [Hv Hv2]. apply andb_true_iff in Hv as [Hlo Hx].
  apply Z.ltb_lt in Hlo, Hx. destruct (IH d' Hv2) as [H1 H2].
  cbn [asum fold_right fst snd]. fold (asum d cs). unfold amt, getz. cbn [get].
  destruct (Z.ltb_spec d' d) as [Hlt|Hge].
  - destruct (Z.eqb_spec d' d); [lia|]. fold (getz d cs). unfold amt in H1. split; lia.
  - destruct (valid_from_below d' cs d Hv2 Hge) as [_ H0]. rewrite H0.
    destruct (Z.eqb_spec d' d); split; lia.
Qed.
Lemma valid_asum cs d : coins_valid cs = true -> asum d cs = amt d cs.
Proof. intros H. eapply valid_from_asum; exact H. Qed.
Lemma valid_nonneg cs d : coins_valid cs = true -> 0 <= amt d cs.
Proof. intros H. destruct (valid_from_asum _ _ d H). lia. Qed.

(* ---------- bank ---------- *)
Lemma sub_coins_effect cs : forall b a b', sub_coins b a cs = (b', true) ->
  forall a' d, bal b' a' d = bal b a' d - (if a' =? a then asum d cs else 0).
Proof.
  induction cs as [|[d' x] cs IH]; intros b a b' H a' d.
  - cbn in H. injection H as <-. cbn. destruct (a' =? a); lia.
  - cbn [sub_coins] in H. destruct (bal b a d' <? x); [discriminate|].
    rewrite (IH _ _ _ H). rewrite bal_set_bal. cbn [asum fold_right fst snd]. fold (asum d cs).
    destruct (Z.eqb_spec a' a) as [->|]; cbn [andb]; [|lia].
    destruct (Z.eqb_spec d d') as [->|]; [rewrite Z.eqb_refl; lia|].
    destruct (Z.eqb_spec d' d); [congruence|lia].
Qed.

Lemma sub_coins_ok cs : forall lo b a, coins_valid_from lo cs = true -> (forall d, amt d cs <= bal b a d) ->
  exists b', sub_coins b a cs = (b', true).
Proof.
  induction cs as [|[d' x] cs IH]; intros lo b a Hv Hle; [eexists; reflexivity|].
  pose proof Hv as Hv0. cbn [coins_valid_from] in Hv. apply andb_true_iff in Hv as [Hv Hv2]. apply andb_true_iff in Hv as [Hlo Hx].
  apply Z.ltb_lt in Hlo, Hx. cbn [sub_coins].
  assert (Hhead : x <= bal b a d').
  { specialize (Hle d'). unfold amt, getz in Hle. cbn [get] in Hle. rewrite Z.ltb_irrefl, Z.eqb_refl in Hle. exact Hle. }
  destruct (Z.ltb_spec (bal b a d') x); [lia|].
  apply (IH d'); [exact Hv2|]. intros d. rewrite bal_set_bal, Z.eqb_refl. cbn [andb].
  destruct (Z.eqb_spec d d') as [->|Hne].
  - destruct (valid_from_below d' cs d' Hv2 ltac:(lia)) as [H0 _]. unfold amt. rewrite H0. lia.
  - specialize (Hle d). unfold amt, getz in Hle |- *. cbn [get] in Hle.
    destruct (Z.ltb_spec d' d) as [Hlt|Hge]; [exact Hle|].
    destruct (valid_from_below d' cs d Hv2 Hge) as [H0 _]. unfold getz in H0. rewrite H0.
    destruct (Z.eqb_spec d' d); [congruence|]. exact Hle.
Qed.

Lemma add_coins_effect cs : forall b a a' d,
  bal (add_coins b a cs) a' d = bal b a' d + (if a' =? a then asum d cs else 0).
Proof.
  unfold add_coins. induction cs as [|[d' x] cs IH]; intros b a a' d; cbn [fold_left asum fold_right fst snd].
  - destruct (a' =? a); lia.
  - rewrite IH, bal_credit. fold (asum d cs).
    destruct (Z.eqb_spec a' a) as [->|]; cbn [andb]; [|lia].
    destruct (Z.eqb_spec d d') as [->|]; [rewrite Z.eqb_refl; lia|].
    destruct (Z.eqb_spec d' d); [congruence|lia].
Qed.

Lemma send_coins_effect b from to cs b' : send_coins b from to cs = (b', true) ->
  forall a d, bal b' a d = bal b a d - (if a =? from then asum d cs else 0) + (if a =? to then asum d cs else 0).
Proof.
  unfold send_coins. destruct (sub_coins b from cs) as [b1 ok] eqn:E. destruct ok; [|discriminate].
  intros [= <-] a d. rewrite add_coins_effect, (sub_coins_effect _ _ _ _ E). reflexivity.
Qed.
Lemma send_coins_ok b from to cs : coins_valid cs = true -> (forall d, amt d cs <= bal b from d) ->
  exists b', send_coins b from to cs = (b', true).
Proof.
  intros Hv Hle. destruct (sub_coins_ok cs _ b from Hv Hle) as [b1 E]. unfold send_coins. rewrite E. eexists; reflexivity.
Qed.

(* ---------- membership after table updates ---------- *)
Section TableIn.
  Context {V : Type}.
  Lemma in_rreplace k v (t : table V) x : In x (rreplace k v t) -> x = (k, v) \/ In x t.
  Proof.
    induction t as [|[k' v'] t IH]; cbn; [tauto|].
    destruct (key_eqb k k'); cbn; intros [H|H]; auto. destruct (IH H); auto.
  Qed.
  Lemma in_rinsert k v (t : table V) x : In x (rinsert k v t) -> x = (k, v) \/ In x t.
  Proof.
    induction t as [|[k' v'] t IH]; cbn; [intuition|].
    destruct (key_ltb k k'); cbn; intros [H|H]; auto. destruct (IH H); auto.
  Qed.
  Lemma in_rset k v (t : table V) x : In x (rset k v t) -> x = (k, v) \/ In x t.
  Proof. unfold rset. destruct (rget k t); [apply in_rreplace | apply in_rinsert]. Qed.
  Lemma in_rdel k (t : table V) x : In x (rdel k t) -> In x t.
  Proof.
    induction t as [|[k' v'] t IH]; cbn; [tauto|].
    destruct (key_eqb k k'); cbn; [auto|]. intros [H|H]; auto.
  Qed.
End TableIn.

(* ---------- invariants ---------- *)
Definition rc (d : Z) (r : drec) : Z := amt d (r_coins r).
Definition rsum (d : Z) (t : table drec) : Z := tsumf (rc d) t.

Record WF (s : disp_state) : Prop := mkWF {
  wf_nodup : NoDup (tkeys (ds_pending s));
  wf_pvalid : forall k r, In (k, r) (ds_pending s) -> coins_valid (r_coins r) = true;
  wf_fvalid : forall k r, In (k, r) (ds_failed s) -> coins_valid (r_coins r) = true;
  wf_blocked : In DISP_MODULE (ds_blocked s)
}.
(* the dispensation account holds at least the sum of all pending and failed records *)
Definition Escrow (s : disp_state) : Prop :=
  forall d, rsum d (ds_pending s) + rsum d (ds_failed s) <= bal (ds_bank s) DISP_MODULE d.

Lemma rsum_nonneg d t : (forall k r, In (k, r) t -> coins_valid (r_coins r) = true) -> 0 <= rsum d t.
Proof. intros H. apply tsumf_nonneg. intros k r Hin. apply valid_nonneg. eauto. Qed.

Lemma rsum_get_le d t k r : (forall k r, In (k, r) t -> coins_valid (r_coins r) = true) ->
  rget k t = Some r -> rc d r <= rsum d t.
Proof.
  intros Hv Hg. pose proof (tsumf_rdel (rc d) k t) as H. rewrite Hg in H. cbn [foptv] in H.
  assert (0 <= tsumf (rc d) (rdel k t)).
  { apply tsumf_nonneg. intros k' r' Hin. apply valid_nonneg. apply in_rdel in Hin. eauto. }
  unfold rsum. lia.
Qed.

Lemma inb_In x l : inb Z.eqb x l = true <-> In x l.
Proof.
  unfold inb. rewrite existsb_exists. split.
  - intros (y & Hy & E). apply Z.eqb_eq in E. subst. exact Hy.
  - intros H. exists x. split; [exact H | apply Z.eqb_refl].
Qed.

Definition is_blocked (s : disp_state) (k : rkey) : bool := inb Z.eqb (k_rcp k) (ds_blocked s).

(* one record of a run: either marked failed (blocked recipient) without payment, or paid in full to its recipient *)
Lemma pay_record_inv s k r :
  WF s -> Escrow s -> rget k (ds_pending s) = Some r ->
  let s' := pay_record s (k, r) in
  WF s' /\ Escrow s' /\
  ds_pending s' = rdel k (ds_pending s) /\ ds_blocked s' = ds_blocked s /\ ds_height s' = ds_height s /\
  ds_dists s' = ds_dists s /\
  (forall a d, bal (ds_bank s') a d = bal (ds_bank s) a d
      - (if (a =? DISP_MODULE) && negb (is_blocked s k) then rc d r else 0)
      + (if (a =? k_rcp k) && negb (is_blocked s k) then rc d r else 0)) /\
  (if is_blocked s k
   then ds_failed s' = rset k (r <| r_done := ds_height s |>) (ds_failed s) /\ ds_completed s' = ds_completed s /\ ds_claims s' = ds_claims s
   else ds_completed s' = rset k (r <| r_done := ds_height s |>) (ds_completed s) /\ ds_failed s' = ds_failed s /\
        ds_claims s' = if supports_claim (k_type k) then del_claim (k_rcp k) (k_type k) (ds_claims s) else ds_claims s).
Proof.
  intros Hwf Hesc Hget. destruct Hwf as [Hnd Hpv Hfv Hbl].
  assert (Hin : In (k, r) (ds_pending s)) by (apply rget_in; exact Hget).
  assert (Hval : coins_valid (r_coins r) = true) by eauto.
  assert (Hpend' : forall d, rsum d (rdel k (ds_pending s)) = rsum d (ds_pending s) - rc d r).
  { intros d. unfold rsum. rewrite tsumf_rdel, Hget. reflexivity. }
  assert (Hpv' : forall k0 r0, In (k0, r0) (rdel k (ds_pending s)) -> coins_valid (r_coins r0) = true).
  { intros k0 r0 H0. apply in_rdel in H0. eauto. }
  unfold pay_record, is_blocked. cbv zeta.
  destruct (inb Z.eqb (k_rcp k) (ds_blocked s)) eqn:Ebl.
  - (* blocked *)
    split; [|split].
    + constructor; cbn; auto.
      * apply nodup_rdel; exact Hnd.
      * intros k0 r0 H0. apply in_rset in H0 as [H0|H0]; [injection H0 as _ ->; exact Hval | eauto].
    + intros d. cbn -[rsum rc]. specialize (Hesc d). rewrite Hpend'. unfold rsum at 2. rewrite tsumf_rset.
      fold (rsum d (ds_failed s)).
      assert (0 <= foptv (rc d) (rget k (ds_failed s))).
      { destruct (rget k (ds_failed s)) eqn:Ef; cbn; [|lia]. apply valid_nonneg. apply rget_in in Ef. eauto. }
      change (rc d (r <| r_done := ds_height s |>)) with (rc d r). lia.
    + cbn. do 4 (split; [reflexivity|]). split; [|auto].
      intros a d. rewrite !andb_false_r. lia.
  - (* not blocked: the module account can pay *)
    assert (Hne : k_rcp k <> DISP_MODULE).
    { intros E. rewrite E in Ebl. apply inb_In in Hbl. congruence. }
    assert (Hle : forall d, amt d (r_coins r) <= bal (ds_bank s) DISP_MODULE d).
    { intros d. specialize (Hesc d). pose proof (rsum_get_le d _ _ _ Hpv Hget). pose proof (rsum_nonneg d _ Hfv). unfold rc in *. lia. }
    destruct (send_coins_ok (ds_bank s) DISP_MODULE (k_rcp k) (r_coins r) Hval Hle) as [b' Hs].
    rewrite Hs. pose proof (send_coins_effect _ _ _ _ _ Hs) as Hb.
    assert (Has : forall d, asum d (r_coins r) = rc d r) by (intros; apply valid_asum; exact Hval).
    destruct (supports_claim (k_type k)); cbn.
    all: split; [constructor; cbn; auto; apply nodup_rdel; exact Hnd|].
    all: split; [intros d; cbn -[rsum rc]; rewrite Hb, Hpend', Z.eqb_refl, Has; specialize (Hesc d);
                 destruct (Z.eqb_spec DISP_MODULE (k_rcp k)); [congruence | lia]|].
    all: do 4 (split; [reflexivity|]).
    all: split; [intros a d; rewrite Hb, Has, !andb_true_r; reflexivity | auto].
Qed.

(* ---------- the records a run selects ---------- *)
Lemma select_in t name runner typ n k r :
  In (k, r) (select_records t name runner typ n) ->
  In (k, r) t /\ k_name k = name /\ r_runner r = runner /\ k_type k = typ.
Proof.
  revert n. induction t as [|[k' r'] t IH]; intros n H; [destruct n; cbn in H; tauto|].
  destruct n as [|n]; [cbn in H; tauto|]. cbn [select_records] in H.
  destruct ((k_name k' =? name) && (r_runner r' =? runner) && (k_type k' =? typ)) eqn:E.
  - destruct H as [H|H].
    + injection H as <- <-. apply andb_true_iff in E as [E E3]. apply andb_true_iff in E as [E1 E2].
      apply Z.eqb_eq in E1, E2, E3. cbn; auto.
    + destruct (IH _ H) as (H1 & H2). split; [right; exact H1 | exact H2].
  - destruct (IH _ H) as (H1 & H2). split; [right; exact H1 | exact H2].
Qed.
Lemma select_keys_in t name runner typ n x :
  In x (tkeys (select_records t name runner typ n)) -> In x (tkeys t).
Proof.
  intros H. apply in_map_iff in H as ([k r] & <- & H). apply select_in in H as [H _]. apply (in_map fst) in H. exact H.
Qed.
Lemma select_nodup t name runner typ n :
  NoDup (tkeys t) -> NoDup (tkeys (select_records t name runner typ n)).
Proof.
  revert n. induction t as [|[k' r'] t IH]; intros n Hnd; [destruct n; constructor|].
  inversion Hnd as [|? ? Hni Hnd']; subst.
  destruct n as [|n]; [constructor|]. cbn [select_records].
  destruct ((k_name k' =? name) && (r_runner r' =? runner) && (k_type k' =? typ)).
  - cbn. constructor; [|apply IH; exact Hnd']. intros H. apply Hni. eapply select_keys_in; exact H.
  - apply IH; exact Hnd'.
Qed.
Lemma select_length t name runner typ n : (length (select_records t name runner typ n) <= n)%nat.
Proof.
  revert n. induction t as [|[k' r'] t IH]; intros n; [destruct n; cbn; lia|].
  destruct n as [|n]; [cbn; lia|]. cbn [select_records].
  destruct ((k_name k' =? name) && (r_runner r' =? runner) && (k_type k' =? typ)); cbn [length].
  - specialize (IH n). lia.
  - apply IH.
Qed.

(* ---------- a whole run ---------- *)
Definition pays (bl : list Z) (k : rkey) : bool := negb (inb Z.eqb (k_rcp k) bl).
Fixpoint sel_sum (bl : list Z) (P : rkey -> bool) (d : Z) (sel : list (rkey * drec)) : Z :=
  match sel with
  | [] => 0
  | (k, r) :: t => (if P k && pays bl k then rc d r else 0) + sel_sum bl P d t
  end.
Definition done_at (h : Z) (r : drec) : drec := r <| r_done := h |>.

Lemma in_del_claim c u t cl : In c (del_claim u t cl) <-> In c cl /\ c <> (u, t).
Proof.
  unfold del_claim. rewrite filter_In. destruct c as [c1 c2]. unfold pair_eqbZ; cbn.
  split; intros [H1 H2]; split; auto.
  - intros [= -> ->]. rewrite !Z.eqb_refl in H2. discriminate.
  - destruct (Z.eqb_spec u c1) as [->|]; [|reflexivity]. destruct (Z.eqb_spec t c2) as [->|]; [congruence|reflexivity].
Qed.

Record run_post (s s' : disp_state) (sel : list (rkey * drec)) : Prop := mkRunPost {
  rp_wf : WF s';
  rp_escrow : Escrow s';
  rp_blocked : ds_blocked s' = ds_blocked s;
  rp_height : ds_height s' = ds_height s;
  rp_dists : ds_dists s' = ds_dists s;
  (* the selected records, and only they, leave the pending table *)
  rp_pending_sel : forall k, In k (tkeys sel) -> rget k (ds_pending s') = None;
  rp_pending_other : forall k, ~ In k (tkeys sel) -> rget k (ds_pending s') = rget k (ds_pending s);
  (* each becomes completed (paid) or failed (blocked recipient), with its coins *)
  rp_outcome : forall k r, In (k, r) sel ->
    if pays (ds_blocked s) k
    then rget k (ds_completed s') = Some (done_at (ds_height s) r) /\ rget k (ds_failed s') = rget k (ds_failed s)
    else rget k (ds_failed s') = Some (done_at (ds_height s) r) /\ rget k (ds_completed s') = rget k (ds_completed s);
  rp_tables_other : forall k, ~ In k (tkeys sel) ->
    rget k (ds_completed s') = rget k (ds_completed s) /\ rget k (ds_failed s') = rget k (ds_failed s);
  (* every account receives exactly the coins of its paid records; the module account pays exactly their sum *)
  rp_bal : forall a d, bal (ds_bank s') a d = bal (ds_bank s) a d
      - (if a =? DISP_MODULE then sel_sum (ds_blocked s) (fun _ => true) d sel else 0)
      + sel_sum (ds_blocked s) (fun k => k_rcp k =? a) d sel;
  (* claims: only deletions, and the claim of every paid claim-type record is gone *)
  rp_claims_sub : forall c, In c (ds_claims s') -> In c (ds_claims s);
  rp_claims_del : forall k r, In (k, r) sel -> pays (ds_blocked s) k = true -> supports_claim (k_type k) = true ->
    ~ In (k_rcp k, k_type k) (ds_claims s');
  rp_claims_keep : forall c, In c (ds_claims s) ->
    (forall k r, In (k, r) sel -> pays (ds_blocked s) k = true -> supports_claim (k_type k) = true -> c <> (k_rcp k, k_type k)) ->
    In c (ds_claims s')
}.

Lemma run_fold sel : forall s,
  WF s -> Escrow s -> NoDup (tkeys sel) ->
  (forall k r, In (k, r) sel -> rget k (ds_pending s) = Some r) ->
  run_post s (fold_left pay_record sel s) sel.
Proof.
  induction sel as [|[k r] sel IH]; intros s Hwf Hesc Hnd Hsel.
  - cbn. constructor; auto; cbn; try tauto. intros a d. destruct (a =? DISP_MODULE); lia.
  - cbn [fold_left]. inversion Hnd as [|? ? Hni Hnd']; subst.
    assert (Hget : rget k (ds_pending s) = Some r) by (apply Hsel; left; reflexivity).
    pose proof (pay_record_inv s k r Hwf Hesc Hget) as Hp. cbv zeta in Hp.
    set (s1 := pay_record s (k, r)) in *.
    destruct Hp as (Hwf1 & Hesc1 & Hpend1 & Hbl1 & Hh1 & Hd1 & Hbal1 & Hout1).
    assert (Hsel1 : forall k' r', In (k', r') sel -> rget k' (ds_pending s1) = Some r').
    { intros k' r' Hin. rewrite Hpend1, rget_rdel_other; [apply Hsel; right; exact Hin|].
      intros ->. apply Hni. apply (in_map fst) in Hin. exact Hin. }
    specialize (IH s1 Hwf1 Hesc1 Hnd' Hsel1). destruct IH as [W E B H D PS PO OUT TO BAL CS CD CK].
    fold (is_blocked s k) in Hout1. unfold is_blocked in Hout1, Hbal1.
    assert (Hpk : pays (ds_blocked s) k = negb (inb Z.eqb (k_rcp k) (ds_blocked s))) by reflexivity.
    constructor; auto; try congruence.
    + (* pending: selected *)
      intros k0 [<-|Hin]; [|apply PS; exact Hin].
      rewrite PO by exact Hni. rewrite Hpend1. apply rget_rdel_same. apply Hwf.
    + intros k0 Hni0. cbn in Hni0. rewrite PO by tauto. rewrite Hpend1. apply rget_rdel_other. intros ->. tauto.
    + (* outcome *)
      intros k0 r0 [Heq|Hin].
      * injection Heq as <- <-. destruct (TO k Hni) as [TC TF]. rewrite TC, TF, Hpk.
        destruct (inb Z.eqb (k_rcp k) (ds_blocked s)); cbn [negb]; destruct Hout1 as (H1 & H2 & _); rewrite H1, H2;
          split; try reflexivity; apply rget_rset_same.
      * specialize (OUT k0 r0 Hin). rewrite Hbl1, Hh1 in OUT.
        assert (Hne : k0 <> k) by (intros ->; apply Hni; apply (in_map fst) in Hin; exact Hin).
        destruct (pays (ds_blocked s) k0); destruct OUT as [O1 O2]; rewrite O1, O2; split; try reflexivity;
          destruct (inb Z.eqb (k_rcp k) (ds_blocked s)); destruct Hout1 as (H1 & H2 & _); rewrite ?H1, ?H2;
          try reflexivity; apply rget_rset_other; exact Hne.
    + intros k0 Hni0. cbn in Hni0. destruct (TO k0 ltac:(tauto)) as [TC TF]. rewrite TC, TF.
      assert (Hne : k0 <> k) by (intros ->; tauto).
      destruct (inb Z.eqb (k_rcp k) (ds_blocked s)); destruct Hout1 as (H1 & H2 & _); rewrite H1, H2;
        split; try reflexivity; apply rget_rset_other; exact Hne.
    + (* balances *)
      intros a d. rewrite BAL, Hbal1, Hbl1. cbn [sel_sum]. rewrite Hpk. cbn [andb].
      destruct (a =? DISP_MODULE); destruct (k_rcp k =? a) eqn:Ea; rewrite ?(Z.eqb_sym a), ?Ea; cbn [andb];
        destruct (negb (inb Z.eqb (k_rcp k) (ds_blocked s))); lia.
    + (* claims only shrink *)
      intros c Hc. apply CS in Hc.
      destruct (inb Z.eqb (k_rcp k) (ds_blocked s)); destruct Hout1 as (_ & _ & H3); rewrite H3 in Hc; [exact Hc|].
      destruct (supports_claim (k_type k)); [apply in_del_claim in Hc; tauto | exact Hc].
    + intros k0 r0 [Heq|Hin] Hpy Hsup.
      * injection Heq as <- <-. intros Hc. apply CS in Hc. rewrite Hpk in Hpy.
        destruct (inb Z.eqb (k_rcp k) (ds_blocked s)); [discriminate|]. destruct Hout1 as (_ & _ & H3).
        rewrite H3, Hsup in Hc. apply in_del_claim in Hc. tauto.
      * apply (CD k0 r0 Hin); [rewrite Hbl1; exact Hpy | exact Hsup].
    + intros c Hc Hall. apply CK.
      * destruct (inb Z.eqb (k_rcp k) (ds_blocked s)) eqn:Eb; destruct Hout1 as (_ & _ & H3); rewrite H3; [exact Hc|].
        destruct (supports_claim (k_type k)) eqn:Es; [|exact Hc]. apply in_del_claim. split; [exact Hc|].
        apply (Hall k r); [left; reflexivity | unfold pays; rewrite Eb; reflexivity | exact Es].
      * intros k0 r0 Hin Hpy Hsup. apply (Hall k0 r0); [right; exact Hin | rewrite <- Hbl1; exact Hpy | exact Hsup].
Qed.

(* ---------- validity of sums of coins ---------- *)
Lemma valid_from_set lo a d v : coins_valid_from lo a = true -> lo < d -> 0 < v -> coins_valid_from lo (set d v a) = true.
Proof.
  revert lo. induction a as [|[k' v'] a IH]; intros lo Hv Hlo Hpos.
  - cbn. apply andb_true_iff; split; [apply andb_true_iff; split; [apply Z.ltb_lt|apply Z.ltb_lt]; lia | reflexivity].
  - cbn [coins_valid_from] in Hv. apply andb_true_iff in Hv as [Hv Hv2]. apply andb_true_iff in Hv as [H1 H2].
    cbn [set]. destruct (Z.ltb_spec k' d).
    + cbn [coins_valid_from]. rewrite H1, H2. cbn [andb]. apply IH; auto.
    + destruct (Z.eqb_spec k' d) as [->|Hne].
      * cbn [coins_valid_from]. rewrite H1, Hv2. replace (0 <? v) with true by (symmetry; apply Z.ltb_lt; lia). reflexivity.
      * cbn [coins_valid_from]. rewrite H2, Hv2.
        replace (lo <? d) with true by (symmetry; apply Z.ltb_lt; lia).
        replace (0 <? v) with true by (symmetry; apply Z.ltb_lt; lia).
        replace (d <? k') with true by (symmetry; apply Z.ltb_lt; lia). reflexivity.
Qed.
Lemma valid_from_elems lo cs c : coins_valid_from lo cs = true -> In c cs -> lo < fst c /\ 0 < snd c.
Proof.
  revert lo. induction cs as [|[d x] cs IH]; intros lo Hv Hin; [destruct Hin|].
  cbn [coins_valid_from] in Hv. apply andb_true_iff in Hv as [Hv Hv2]. apply andb_true_iff in Hv as [H1 H2].
  apply Z.ltb_lt in H1, H2. destruct Hin as [<-|Hin]; [cbn; lia|].
  destruct (IH d Hv2 Hin). lia.
Qed.
Lemma coins_add_valid a b : coins_valid a = true -> coins_valid b = true -> coins_valid (coins_add a b) = true.
Proof.
  unfold coins_add. intros Ha Hb.
  assert (Hel : forall c, In c b -> -1 < fst c /\ 0 < snd c) by (intros; eapply valid_from_elems; eauto).
  clear Hb. revert a Ha. induction b as [|c b IH]; intros a Ha; [exact Ha|].
  cbn [fold_left]. apply IH; [intros; apply Hel; right; auto|].
  destruct (Hel c (or_introl eq_refl)). apply valid_from_set; [exact Ha | lia |].
  pose proof (valid_nonneg a (fst c) Ha). unfold amt in *. lia.
Qed.

Definition otot (d : Z) (outs : list (Z * coins)) : Z := fold_right (fun o acc => asum d (snd o) + acc) 0 outs.
Definition outs_valid (outs : list (Z * coins)) : bool := forallb (fun o => coins_valid (snd o)) outs.

Lemma total_output_spec outs : outs_valid outs = true ->
  coins_valid (total_output outs) = true /\ forall d, amt d (total_output outs) = otot d outs.
Proof.
  destruct outs as [|o outs]; [split; reflexivity|].
  cbn [outs_valid forallb total_output]. intros H. apply andb_true_iff in H as [Ho Hr].
  assert (G : forall acc, coins_valid acc = true ->
    coins_valid (fold_left (fun acc o' => coins_add acc (snd o')) outs acc) = true /\
    forall d, amt d (fold_left (fun acc o' => coins_add acc (snd o')) outs acc) = amt d acc + otot d outs).
  { induction outs as [|o' outs IH]; intros acc Hacc; [split; [exact Hacc | intros; cbn; lia]|].
    cbn [forallb] in Hr. apply andb_true_iff in Hr as [Ho' Hr]. cbn [fold_left].
    destruct (IH Hr (coins_add acc (snd o')) (coins_add_valid _ _ Hacc Ho')) as [G1 G2].
    split; [exact G1|]. intros d. rewrite G2, amt_coins_add. cbn [otot fold_right]. fold (otot d outs). lia. }
  destruct (G (snd o) Ho) as [G1 G2]. split; [exact G1|].
  intros d. rewrite G2. cbn [otot fold_right]. fold (otot d outs). rewrite (valid_asum _ _ Ho). lia.
Qed.

(* ---------- CreateDrops ---------- *)
Definition pc (d : Z) (k : rkey) (t : table drec) : Z := foptv (rc d) (rget k t).
Definition outs_for (d : Z) (name typ : Z) (k : rkey) (outs : list (Z * coins)) : Z :=
  fold_right (fun o acc => (if key_eqb (name, typ, fst o) k then asum d (snd o) else 0) + acc) 0 outs.

Lemma create_drops_spec name typ runner outs : forall s s',
  WF s -> outs_valid outs = true -> create_drops s name typ runner outs = Ok s' ->
  WF s' /\ ds_bank s' = ds_bank s /\ ds_completed s' = ds_completed s /\ ds_failed s' = ds_failed s /\
  ds_dists s' = ds_dists s /\ ds_claims s' = ds_claims s /\ ds_blocked s' = ds_blocked s /\ ds_height s' = ds_height s /\
  (forall d, rsum d (ds_pending s') = rsum d (ds_pending s) + otot d outs) /\
  (forall d k, pc d k (ds_pending s') = pc d k (ds_pending s) + outs_for d name typ k outs) /\
  (forall k r, rget k (ds_pending s') = Some r -> rget k (ds_pending s) = Some r \/
               (k_name k = name /\ k_type k = typ /\ r_runner r = runner /\ r_start r = ds_height s /\ r_done r = -1)).
Proof.
  induction outs as [|[rcp cs] outs IH]; intros s s' Hwf Hov H.
  - cbn in H. injection H as <-. split; [exact Hwf|]. do 7 (split; [reflexivity|]).
    split; [|split]; intros; [cbn [otot fold_right]; lia | cbn [outs_for fold_right]; lia | left; assumption].
  - cbn [outs_valid forallb] in Hov. apply andb_true_iff in Hov as [Hcs Hov]. cbn [snd] in Hcs.
    cbn [create_drops] in H.
    set (k := (name, typ, rcp)) in *.
    set (cs' := match rget k (ds_pending s) with Some old => coins_add cs (r_coins old) | None => cs end) in *.
    destruct (coins_valid cs' && coins_all_positive cs') eqn:Ev; cbn [negb] in H; [|discriminate].
    apply andb_true_iff in Ev as [Ev _].
    set (s1 := s <| ds_pending := rset k (mkRec cs' runner (ds_height s) (-1)) (ds_pending s) |>
                 <| ds_ghost := ghost_owe k cs (ds_ghost s) |>) in *.
    destruct Hwf as [Hnd Hpv Hfv Hbl].
    assert (Hwf1 : WF s1).
    { constructor; cbn; auto. apply nodup_rset; exact Hnd.
      intros k0 r0 H0. apply in_rset in H0 as [H0|H0]; [injection H0 as _ ->; exact Ev | eauto]. }
    assert (Hrc : forall d, amt d cs' = pc d k (ds_pending s) + asum d cs).
    { intros d. unfold cs', pc. destruct (rget k (ds_pending s)) as [old|] eqn:Eo; cbn [foptv].
      - rewrite amt_coins_add. unfold rc. rewrite (valid_asum cs d Hcs).
        rewrite (valid_asum (r_coins old) d); [lia|]. apply rget_in in Eo. eauto.
      - rewrite (valid_asum cs d Hcs). lia. }
    destruct (IH s1 s' Hwf1 Hov H) as (W & B & C & F & D & CL & BL & HH & RS & PC & RUN).
    split; [exact W|]. cbn in B, C, F, D, CL, BL, HH. do 7 (split; [assumption|]).
    split; [|split].
    + intros d. rewrite RS. cbn [otot fold_right snd]. fold (otot d outs).
      change (ds_pending s1) with (rset k (mkRec cs' runner (ds_height s) (-1)) (ds_pending s)).
      unfold rsum at 1. rewrite tsumf_rset. fold (rsum d (ds_pending s)).
      change (rc d (mkRec cs' runner (ds_height s) (-1))) with (amt d cs'). rewrite Hrc. unfold pc. lia.
    + intros d k0. rewrite PC. cbn [outs_for fold_right fst snd]. fold (outs_for d name typ k0 outs). fold k.
      change (ds_pending s1) with (rset k (mkRec cs' runner (ds_height s) (-1)) (ds_pending s)).
      unfold pc at 1. destruct (key_eqb_spec k k0) as [<-|Hne].
      * rewrite rget_rset_same. cbn [foptv]. change (rc d (mkRec cs' runner (ds_height s) (-1))) with (amt d cs').
        rewrite Hrc. lia.
      * rewrite rget_rset_other by congruence. fold (pc d k0 (ds_pending s)). lia.
    + intros k0 r0 Hg. destruct (RUN k0 r0 Hg) as [Hold|Hnew].
      * change (ds_pending s1) with (rset k (mkRec cs' runner (ds_height s) (-1)) (ds_pending s)) in Hold.
        destruct (key_eqb_spec k0 k) as [->|Hne].
        -- rewrite rget_rset_same in Hold. injection Hold as <-. right. cbn. auto.
        -- rewrite rget_rset_other in Hold by exact Hne. left; exact Hold.
      * right. exact Hnew.
Qed.

(* ---------- MsgCreateDistribution ---------- *)
Lemma inb_triple_In x l : inb triple_eqb x l = true <-> In x l.
Proof.
  unfold inb, triple_eqb. rewrite existsb_exists. split.
  - intros (y & Hy & E). apply key_eqb_eq in E. subst. exact Hy.
  - intros H. exists x. split; [exact H | apply key_eqb_refl].
Qed.

Theorem create_distribution_spec s dist name typ runner outs s' :
  WF s -> Escrow s -> dist <> DISP_MODULE ->
  validate_basic (MCreateDist dist name typ runner outs) = true ->
  create_distribution s dist name typ runner outs = Ok s' ->
  WF s' /\ Escrow s' /\
  (* exactly the sum of the outputs moves from the distributor to the dispensation account *)
  (forall a d, bal (ds_bank s') a d = bal (ds_bank s) a d
     - (if a =? dist then otot d outs else 0) + (if a =? DISP_MODULE then otot d outs else 0)) /\
  (* exactly those outputs are recorded as pending, added to what was pending under the same key *)
  (forall d k, pc d k (ds_pending s') = pc d k (ds_pending s) + outs_for d name typ k outs) /\
  (forall k r, rget k (ds_pending s') = Some r -> rget k (ds_pending s) = Some r \/
               (k_name k = name /\ k_type k = typ /\ r_runner r = runner /\ r_start r = ds_height s /\ r_done r = -1)) /\
  ds_completed s' = ds_completed s /\ ds_failed s' = ds_failed s /\ ds_claims s' = ds_claims s /\
  ds_blocked s' = ds_blocked s /\ ds_height s' = ds_height s /\
  ~ In (name, typ, runner) (ds_dists s) /\ ds_dists s' = (name, typ, runner) :: ds_dists s.
Proof.
  intros Hwf Hesc Hne Hvb H. unfold create_distribution in H.
  cbn [validate_basic] in Hvb. apply andb_true_iff in Hvb as [Hvb Hov]. fold (outs_valid outs) in Hov.
  destruct (inb triple_eqb (name, typ, runner) (ds_dists s)) eqn:Ed; [discriminate|].
  destruct (send_coins _ dist DISP_MODULE (total_output outs)) as [b ok] eqn:Es. cbn [ds_bank] in Es.
  destruct ok; cbn [negb] in H; [|discriminate].
  destruct (total_output_spec outs Hov) as [Htv Hta].
  pose proof (send_coins_effect _ _ _ _ _ Es) as Hb.
  set (s1 := s <| ds_dists := (name, typ, runner) :: ds_dists s |> <| ds_bank := b |>) in *.
  assert (Hwf1 : WF s1) by (destruct Hwf; constructor; cbn; auto).
  destruct (create_drops_spec name typ runner outs s1 s' Hwf1 Hov H) as (W & B & C & F & D & CL & BL & HH & RS & PC & RUN).
  cbn in B, C, F, D, CL, BL, HH.
  assert (Hbal : forall a d, bal (ds_bank s') a d = bal (ds_bank s) a d
     - (if a =? dist then otot d outs else 0) + (if a =? DISP_MODULE then otot d outs else 0)).
  { intros a d. rewrite B, Hb. cbn [ds_bank]. rewrite (valid_asum _ d Htv), Hta. reflexivity. }
  split; [exact W|]. split.
  - intros d. rewrite Hbal, Z.eqb_refl, RS, F. unfold s1. cbn -[rsum rc otot bal Z.eqb].
    destruct (Z.eqb_spec DISP_MODULE dist); [congruence|]. specialize (Hesc d). lia.
  - split; [exact Hbal|]. split; [exact PC|]. split; [exact RUN|].
    do 5 (split; [assumption|]). split; [|exact D].
    intros Hin. apply inb_triple_In in Hin. congruence.
Qed.

(* ---------- MsgRunDistribution ---------- *)
Theorem run_distribution_spec s runner name typ count s' :
  WF s -> Escrow s ->
  run_distribution s runner name typ count = Ok s' ->
  let sel := select_records (ds_pending s) name runner typ (Z.to_nat count) in
  run_post s s' sel /\
  (* at most the requested number, all pending, all of this distribution and authorised to this runner *)
  (length sel <= Z.to_nat count)%nat /\ NoDup (tkeys sel) /\
  (forall k r, In (k, r) sel -> rget k (ds_pending s) = Some r /\ k_name k = name /\ r_runner r = runner /\ k_type k = typ).
Proof.
  intros Hwf Hesc H. unfold run_distribution in H. injection H as <-. cbv zeta.
  assert (Hnd : NoDup (tkeys (select_records (ds_pending s) name runner typ (Z.to_nat count)))) by (apply select_nodup; apply Hwf).
  assert (Hsel : forall k r, In (k, r) (select_records (ds_pending s) name runner typ (Z.to_nat count)) ->
                 rget k (ds_pending s) = Some r /\ k_name k = name /\ r_runner r = runner /\ k_type k = typ).
  { intros k r Hin. apply select_in in Hin as (H1 & H2). split; [apply in_rget_nodup; [apply Hwf | exact H1] | exact H2]. }
  split; [|split; [apply select_length | split; [exact Hnd | exact Hsel]]].
  apply run_fold; auto. intros k r Hin. apply Hsel; exact Hin.
Qed.

(* ---------- claims ---------- *)
Lemma inb_pair_In x l : inb pair_eqbZ x l = true <-> In x l.
Proof.
  unfold inb. rewrite existsb_exists. destruct x as [x1 x2]. split.
  - intros ([y1 y2] & Hy & E). unfold pair_eqbZ in E; cbn in E. apply andb_true_iff in E as [E1 E2].
    apply Z.eqb_eq in E1, E2. subst. exact Hy.
  - intros H. exists (x1, x2). split; [exact H | unfold pair_eqbZ; cbn; rewrite !Z.eqb_refl; reflexivity].
Qed.

Theorem create_claim_spec s user typ s' :
  create_claim s user typ = Ok s' ->
  ~ In (user, typ) (ds_claims s) /\ s' = s <| ds_claims := (user, typ) :: ds_claims s |>.
Proof.
  unfold create_claim. destruct (inb pair_eqbZ (user, typ) (ds_claims s)) eqn:E; [discriminate|].
  intros [= <-]. split; [|reflexivity]. intros Hin. apply inb_pair_In in Hin. congruence.
Qed.

Lemma pay_record_claims_nodup s kr : NoDup (ds_claims s) -> NoDup (ds_claims (pay_record s kr)).
Proof.
  intros Hnd. destruct kr as [k r]. unfold pay_record.
  destruct (inb Z.eqb (k_rcp k) (ds_blocked s)); [exact Hnd|].
  destruct (send_coins (ds_bank s) DISP_MODULE (k_rcp k) (r_coins r)) as [b ok]. destruct ok; [|exact Hnd].
  destruct (supports_claim (k_type k)); cbn; [apply NoDup_filter; exact Hnd | exact Hnd].
Qed.
Lemma fold_pay_claims_nodup sel : forall s, NoDup (ds_claims s) -> NoDup (ds_claims (fold_left pay_record sel s)).
Proof. induction sel as [|kr sel IH]; intros s H; [exact H | cbn; apply IH; apply pay_record_claims_nodup; exact H]. Qed.

(* ---------- the invariant over histories ---------- *)
Definition Inv (s : disp_state) : Prop := WF s /\ Escrow s /\ NoDup (ds_claims s).

Lemma credit_other b a d x a' d' : a' <> a -> bal (credit b a d x) a' d' = bal b a' d'.
Proof. intros H. rewrite bal_credit. destruct (Z.eqb_spec a' a); [contradiction|]. cbn; lia. Qed.

Lemma handle_inv s m s' : Inv s -> signer_of m <> DISP_MODULE -> validate_basic m = true -> handle s m = Ok s' -> Inv s'.
Proof.
  intros (Hwf & Hesc & Hcl) Hsg Hvb H. destruct m as [dist name typ runner outs | runner name typ count | user typ]; cbn [handle signer_of] in *.
  - destruct (create_distribution_spec _ _ _ _ _ _ _ Hwf Hesc Hsg Hvb H) as (W & E & _ & _ & _ & _ & _ & CL & _).
    split; [exact W|]. split; [exact E|]. rewrite CL. exact Hcl.
  - pose proof (run_distribution_spec _ _ _ _ _ _ Hwf Hesc H) as [P _]. cbv zeta in P.
    split; [apply P|]. split; [apply P|]. unfold run_distribution in H. injection H as <-. apply fold_pay_claims_nodup. exact Hcl.
  - apply create_claim_spec in H as [Hni ->]. split; [|split].
    + destruct Hwf; constructor; cbn; auto.
    + exact Hesc.
    + cbn. constructor; assumption.
Qed.

Lemma deliver_inv s fee m : Inv s -> signer_of m <> DISP_MODULE -> Inv (fst (deliver s fee m)).
Proof.
  intros Hinv Hsg. unfold deliver. destruct (validate_basic m) eqn:Evb; cbn [negb]; [|exact Hinv].
  set (s0 := s <| ds_bank := credit (ds_bank s) (signer_of m) 0 (- fee) |>).
  assert (H0 : Inv s0).
  { destruct Hinv as (Hwf & Hesc & Hcl). split; [|split].
    - destruct Hwf; constructor; cbn; auto.
    - intros d. cbn -[rsum rc bal]. rewrite credit_other by congruence. apply Hesc.
    - exact Hcl. }
  destruct (handle s0 m) eqn:Eh; cbn [fst]; try exact H0. eapply handle_inv; eauto.
Qed.

(* a history: transactions, new blocks, and bank activity of the rest of the chain, which never debits the
   dispensation account (the account has no key; its only debit sites are DistributeDrops and the mint
   controller's pass-through, which credits the same amount first) *)
Inductive hstep :=
| HTx (fee : Z) (m : disp_msg)
| HBlock (h : Z)
| HBank (b : bank).

Definition hstep_ok (s : disp_state) (st : hstep) : Prop :=
  match st with
  | HTx fee m => signer_of m <> DISP_MODULE
  | HBlock _ => True
  | HBank b => forall d, bal (ds_bank s) DISP_MODULE d <= bal b DISP_MODULE d
  end.
Definition hrun1 (s : disp_state) (st : hstep) : disp_state :=
  match st with
  | HTx fee m => fst (deliver s fee m)
  | HBlock h => s <| ds_height := h |>
  | HBank b => s <| ds_bank := b |>
  end.
Fixpoint hist_ok (s : disp_state) (h : list hstep) : Prop :=
  match h with [] => True | st :: h' => hstep_ok s st /\ hist_ok (hrun1 s st) h' end.
Definition hrun (s : disp_state) (h : list hstep) : disp_state := fold_left hrun1 h s.

Lemma hrun1_inv s st : Inv s -> hstep_ok s st -> Inv (hrun1 s st).
Proof.
  intros Hinv Hok. destruct st as [fee m|h|b]; cbn [hrun1 hstep_ok] in *.
  - apply deliver_inv; assumption.
  - destruct Hinv as (Hwf & Hesc & Hcl). split; [destruct Hwf; constructor; cbn; auto | split; [exact Hesc | exact Hcl]].
  - destruct Hinv as (Hwf & Hesc & Hcl). split; [destruct Hwf; constructor; cbn; auto | split; [|exact Hcl]].
    intros d. cbn -[rsum rc bal]. specialize (Hesc d). specialize (Hok d). lia.
Qed.

Theorem inv_history h : forall s, Inv s -> hist_ok s h -> Inv (hrun s h).
Proof.
  induction h as [|st h IH]; intros s Hinv Hok; [exact Hinv|].
  destruct Hok as [H1 H2]. cbn [hrun fold_left]. apply IH; [apply hrun1_inv; assumption | exact H2].
Qed.

Definition genesis (b : bank) (blocked : list Z) (h : Z) : disp_state := mkDS b [] [] [] [] [] blocked h [].
Lemma genesis_inv b blocked h : In DISP_MODULE blocked -> (forall d, 0 <= bal b DISP_MODULE d) -> Inv (genesis b blocked h).
Proof.
  intros Hb Hn. split; [constructor; cbn; auto; try tauto; constructor | split; [|constructor]].
  intros d. cbn -[bal]. apply Hn.
Qed.

(* ---------- the per-key ledger: recorded = still pending + paid + marked failed ---------- *)
Definition lg (s : disp_state) (k : rkey) : ledger := ledger_of k (ds_ghost s).
Definition Ledger (s : disp_state) : Prop := forall k d,
  amt d (l_owed (lg s k)) = pc d k (ds_pending s) + amt d (l_paid (lg s k)) + amt d (l_failed (lg s k)) /\
  0 <= amt d (l_paid (lg s k)) /\ 0 <= amt d (l_failed (lg s k)).

Lemma ledger_of_rset k0 k l g : ledger_of k0 (rset k l g) = if key_eqb k0 k then l else ledger_of k0 g.
Proof.
  unfold ledger_of. destruct (key_eqb_spec k0 k) as [->|Hne]; [rewrite rget_rset_same; reflexivity | rewrite rget_rset_other by exact Hne; reflexivity].
Qed.

Lemma pc_nonneg s d k : WF s -> 0 <= pc d k (ds_pending s).
Proof.
  intros Hwf. unfold pc. destruct (rget k (ds_pending s)) eqn:E; cbn [foptv]; [|lia].
  apply valid_nonneg. apply rget_in in E. eapply wf_pvalid; eauto.
Qed.

Lemma create_drops_ledger name typ runner outs : forall s s',
  WF s -> outs_valid outs = true -> Ledger s -> create_drops s name typ runner outs = Ok s' -> Ledger s'.
Proof.
  induction outs as [|[rcp cs] outs IH]; intros s s' Hwf Hov Hl H.
  - cbn in H. injection H as <-. exact Hl.
  - cbn [outs_valid forallb] in Hov. apply andb_true_iff in Hov as [Hcs Hov]. cbn [snd] in Hcs.
    cbn [create_drops] in H.
    set (k := (name, typ, rcp)) in *.
    set (cs' := match rget k (ds_pending s) with Some old => coins_add cs (r_coins old) | None => cs end) in *.
    destruct (coins_valid cs' && coins_all_positive cs') eqn:Ev; cbn [negb] in H; [|discriminate].
    apply andb_true_iff in Ev as [Ev _].
    set (s1 := s <| ds_pending := rset k (mkRec cs' runner (ds_height s) (-1)) (ds_pending s) |>
                 <| ds_ghost := ghost_owe k cs (ds_ghost s) |>) in *.
    pose proof Hwf as Hwf0. destruct Hwf as [Hnd Hpv Hfv Hbl].
    assert (Hwf1 : WF s1).
    { constructor; cbn; auto. apply nodup_rset; exact Hnd.
      intros k0 r0 H0. apply in_rset in H0 as [H0|H0]; [injection H0 as _ ->; exact Ev | eauto]. }
    assert (Hrc : forall d, amt d cs' = pc d k (ds_pending s) + asum d cs).
    { intros d. unfold cs', pc. destruct (rget k (ds_pending s)) as [old|] eqn:Eo; cbn [foptv].
      - rewrite amt_coins_add. unfold rc. rewrite (valid_asum cs d Hcs).
        rewrite (valid_asum (r_coins old) d); [lia|]. apply rget_in in Eo. eauto.
      - rewrite (valid_asum cs d Hcs). lia. }
    apply (IH s1 s' Hwf1 Hov); [|exact H].
    intros k0 d. specialize (Hl k0 d). unfold lg in *.
    change (ds_ghost s1) with (ghost_owe k cs (ds_ghost s)).
    change (ds_pending s1) with (rset k (mkRec cs' runner (ds_height s) (-1)) (ds_pending s)).
    unfold ghost_owe. rewrite ledger_of_rset. unfold pc at 1.
    destruct (key_eqb_spec k0 k) as [->|Hne].
    + rewrite rget_rset_same. cbn [foptv l_owed l_paid l_failed].
      change (rc d (mkRec cs' runner (ds_height s) (-1))) with (amt d cs'). rewrite amt_coins_add, Hrc. lia.
    + rewrite rget_rset_other by exact Hne. exact Hl.
Qed.

Lemma pay_record_ledger s k r :
  WF s -> Escrow s -> rget k (ds_pending s) = Some r -> Ledger s ->
  let s' := pay_record s (k, r) in
  Ledger s' /\
  forall k0 d, amt d (l_paid (lg s' k0)) = amt d (l_paid (lg s k0))
                 + (if key_eqb k0 k && pays (ds_blocked s) k then rc d r else 0).
Proof.
  intros Hwf Hesc Hget Hl. pose proof Hwf as Hwf0. destruct Hwf as [Hnd Hpv Hfv Hbl].
  assert (Hin : In (k, r) (ds_pending s)) by (apply rget_in; exact Hget).
  assert (Hval : coins_valid (r_coins r) = true) by eauto.
  assert (Has : forall d, asum d (r_coins r) = rc d r) by (intros; apply valid_asum; exact Hval).
  assert (Hpos : forall d, 0 <= rc d r) by (intros; apply valid_nonneg; exact Hval).
  assert (Hpck : forall d, pc d k (ds_pending s) = rc d r) by (intros; unfold pc; rewrite Hget; reflexivity).
  assert (Hpc' : forall d k0, pc d k0 (rdel k (ds_pending s)) = if key_eqb k0 k then 0 else pc d k0 (ds_pending s)).
  { intros d k0. unfold pc. destruct (key_eqb_spec k0 k) as [->|Hne]; [rewrite rget_rdel_same by exact Hnd; reflexivity | rewrite rget_rdel_other by exact Hne; reflexivity]. }
  unfold pay_record, pays. cbv zeta.
  destruct (inb Z.eqb (k_rcp k) (ds_blocked s)) eqn:Ebl; cbn [negb].
  - split.
    + intros k0 d. specialize (Hl k0 d). unfold lg in *. cbn -[pc amt]. rewrite Hpc'. unfold ghost_fail. rewrite ledger_of_rset.
      destruct (key_eqb_spec k0 k) as [->|Hne]; [|exact Hl].
      cbn [l_owed l_paid l_failed]. rewrite amt_coins_add, Has. rewrite Hpck in Hl. specialize (Hpos d). lia.
    + intros k0 d. unfold lg. cbn -[amt]. unfold ghost_fail. rewrite ledger_of_rset, andb_false_r.
      destruct (key_eqb_spec k0 k) as [->|]; cbn [l_paid]; lia.
  - assert (Hle : forall d, amt d (r_coins r) <= bal (ds_bank s) DISP_MODULE d).
    { intros d. specialize (Hesc d). pose proof (rsum_get_le d _ _ _ Hpv Hget). pose proof (rsum_nonneg d _ Hfv). unfold rc in *. lia. }
    destruct (send_coins_ok (ds_bank s) DISP_MODULE (k_rcp k) (r_coins r) Hval Hle) as [b' Hs].
    rewrite Hs.
    assert (G : forall s2, ds_pending s2 = rdel k (ds_pending s) -> ds_ghost s2 = ghost_pay k (r_coins r) (ds_ghost s) ->
      Ledger s2 /\ forall k0 d, amt d (l_paid (lg s2 k0)) = amt d (l_paid (lg s k0)) + (if key_eqb k0 k && true then rc d r else 0)).
    { intros s2 Hp2 Hg2. split.
      - intros k0 d. specialize (Hl k0 d). unfold lg in *. rewrite Hp2, Hg2, Hpc'. unfold ghost_pay. rewrite ledger_of_rset.
        destruct (key_eqb_spec k0 k) as [->|Hne]; [|exact Hl].
        cbn [l_owed l_paid l_failed]. rewrite amt_coins_add, Has. rewrite Hpck in Hl. specialize (Hpos d). lia.
      - intros k0 d. unfold lg. rewrite Hg2. unfold ghost_pay. rewrite ledger_of_rset, andb_true_r.
        destruct (key_eqb_spec k0 k) as [->|Hne]; cbn [l_paid]; [rewrite amt_coins_add, Has; reflexivity | lia]. }
    destruct (supports_claim (k_type k)); apply G; reflexivity.
Qed.

Lemma run_fold_ledger sel : forall s,
  WF s -> Escrow s -> NoDup (tkeys sel) ->
  (forall k r, In (k, r) sel -> rget k (ds_pending s) = Some r) -> Ledger s ->
  let s' := fold_left pay_record sel s in
  Ledger s' /\
  (* the ledger's paid column grows by exactly the coins of the records of that key paid in this run *)
  forall k0 d, amt d (l_paid (lg s' k0)) = amt d (l_paid (lg s k0)) + sel_sum (ds_blocked s) (key_eqb k0) d sel.
Proof.
  induction sel as [|[k r] sel IH]; intros s Hwf Hesc Hnd Hsel Hl; cbv zeta.
  - split; [exact Hl | intros; cbn; lia].
  - cbn [fold_left]. inversion Hnd as [|? ? Hni Hnd']; subst.
    assert (Hget : rget k (ds_pending s) = Some r) by (apply Hsel; left; reflexivity).
    pose proof (pay_record_inv s k r Hwf Hesc Hget) as Hp. cbv zeta in Hp.
    pose proof (pay_record_ledger s k r Hwf Hesc Hget Hl) as [Hl1 Hpd1]. cbv zeta in Hl1, Hpd1.
    set (s1 := pay_record s (k, r)) in *.
    destruct Hp as (Hwf1 & Hesc1 & Hpend1 & Hbl1 & _).
    assert (Hsel1 : forall k' r', In (k', r') sel -> rget k' (ds_pending s1) = Some r').
    { intros k' r' Hin. rewrite Hpend1, rget_rdel_other; [apply Hsel; right; exact Hin|].
      intros ->. apply Hni. apply (in_map fst) in Hin. exact Hin. }
    destruct (IH s1 Hwf1 Hesc1 Hnd' Hsel1 Hl1) as [L P]. split; [exact L|].
    intros k0 d. rewrite P, Hpd1, Hbl1. cbn [sel_sum]. lia.
Qed.

Definition LInv (s : disp_state) : Prop := Inv s /\ Ledger s.

Lemma handle_ledger s m s' : LInv s -> signer_of m <> DISP_MODULE -> validate_basic m = true -> handle s m = Ok s' -> Ledger s'.
Proof.
  intros [(Hwf & Hesc & Hcl) Hl] Hsg Hvb H. destruct m as [dist name typ runner outs | runner name typ count | user typ]; cbn [handle signer_of] in *.
  - unfold create_distribution in H. cbn [validate_basic] in Hvb. apply andb_true_iff in Hvb as [_ Hov]. fold (outs_valid outs) in Hov.
    destruct (inb triple_eqb (name, typ, runner) (ds_dists s)); [discriminate|].
    destruct (send_coins _ dist DISP_MODULE (total_output outs)) as [b ok]. destruct ok; cbn [negb] in H; [|discriminate].
    eapply create_drops_ledger; [| exact Hov | | exact H].
    + destruct Hwf; constructor; cbn; auto.
    + exact Hl.
  - unfold run_distribution in H. injection H as <-.
    apply run_fold_ledger; auto.
    + apply select_nodup; apply Hwf.
    + intros k r Hin. apply select_in in Hin as (H1 & _). apply in_rget_nodup; [apply Hwf | exact H1].
  - apply create_claim_spec in H as [_ ->]. exact Hl.
Qed.

Lemma hrun1_linv s st : LInv s -> hstep_ok s st -> LInv (hrun1 s st).
Proof.
  intros Hli Hok. split; [apply hrun1_inv; [apply Hli | exact Hok]|].
  destruct st as [fee m|h|b]; cbn [hrun1 hstep_ok] in *; try apply Hli.
  unfold deliver. destruct (validate_basic m) eqn:Evb; cbn [negb fst]; [|apply Hli].
  set (s0 := s <| ds_bank := credit (ds_bank s) (signer_of m) 0 (- fee) |>).
  assert (H0 : LInv s0).
  { destruct Hli as [(Hwf & Hesc & Hcl) Hl]. split; [split; [|split]|].
    - destruct Hwf; constructor; cbn; auto.
    - intros d. cbn -[rsum rc bal]. rewrite credit_other by congruence. apply Hesc.
    - exact Hcl.
    - exact Hl. }
  destruct (handle s0 m) eqn:Eh; cbn [fst]; try apply H0. eapply handle_ledger; eauto.
Qed.

Theorem linv_history h : forall s, LInv s -> hist_ok s h -> LInv (hrun s h).
Proof.
  induction h as [|st h IH]; intros s Hinv Hok; [exact Hinv|].
  destruct Hok as [H1 H2]. cbn [hrun fold_left]. apply IH; [apply hrun1_linv; assumption | exact H2].
Qed.

Lemma genesis_linv b blocked h : In DISP_MODULE blocked -> (forall d, 0 <= bal b DISP_MODULE d) -> LInv (genesis b blocked h).
Proof.
  intros Hb Hn. split; [apply genesis_inv; assumption|]. intros k d. cbn. lia.
Qed.

(* never more paid under a record key than was recorded for it; equality once nothing is pending or failed *)
Theorem paid_le_owed s k d : LInv s -> amt d (l_paid (lg s k)) <= amt d (l_owed (lg s k)).
Proof.
  intros [(Hwf & _) Hl]. destruct (Hl k d) as (H1 & H2 & H3). pose proof (pc_nonneg s d k Hwf). lia.
Qed.
