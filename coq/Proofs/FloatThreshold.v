(* C05: the consensus test of the oracle keeper is a float64 comparison, float64(power)/float64(total) >= 0.7. With IEEE-754
   binary64 arithmetic as formalised by Flocq (both integers exactly representable, the division correctly rounded to
   nearest-even, the constant 0.7 rounded to nearest-even) it decides exactly 10 * power >= 7 * total whenever the total is at
   most 2^40 — voting power is counted in whole rowan (sdk.DefaultPowerReduction = 10^18, app.go), the supply is a few 10^9.
   Uses the standard library's real numbers (their axioms are listed by Print Assumptions). *)
From Coq Require Import ZArith Reals Lra Lia.
From Flocq Require Import Core.
Open Scope R_scope.

Definition fexp64 := FLT_exp (-1074) 53.
#[local] Instance prec53 : Prec_gt_0 53. Proof. reflexivity. Qed.
Definition rnd64 (x : R) : R := round radix2 fexp64 ZnearestE x.

(* the float64 below 0.7 that is nearest to it, and its predecessor *)
Definition F0 : R := F2R (Float radix2 6305039478318694 (-53)).
Definition F1 : R := F2R (Float radix2 6305039478318693 (-53)).

Lemma bpow53 : bpow radix2 (-53) = / 9007199254740992.
Proof. unfold bpow. simpl Z.pow_pos. reflexivity. Qed.

Lemma F0_val : F0 = 6305039478318694 / 9007199254740992.
Proof. unfold F0, F2R. cbn [Fnum Fexp]. rewrite bpow53. reflexivity. Qed.
Lemma F1_val : F1 = 6305039478318693 / 9007199254740992.
Proof. unfold F1, F2R. cbn [Fnum Fexp]. rewrite bpow53. reflexivity. Qed.

Lemma F0_format : generic_format radix2 fexp64 F0.
Proof.
  apply generic_format_FLT. exists (Float radix2 6305039478318694 (-53)); [reflexivity| |]; cbn; lia.
Qed.
Lemma F1_format : generic_format radix2 fexp64 F1.
Proof.
  apply generic_format_FLT. exists (Float radix2 6305039478318693 (-53)); [reflexivity| |]; cbn; lia.
Qed.

Lemma F0_le : F0 <= 7 / 10. Proof. rewrite F0_val. lra. Qed.
Lemma F1_lt : F1 < F0. Proof. rewrite F0_val, F1_val. lra. Qed.
Lemma F1_ge : 7 / 10 - / 17592186044416 <= F1. Proof. rewrite F1_val. lra. Qed.

Lemma lin (p q z : R) : 10 * p <= 7 * q - 1 -> z <= / 10 -> p <= 7 * / 10 * q - z.
Proof. intros. lra. Qed.

(* float64(p) / float64(q) >= 0.7  <->  10 p >= 7 q, for integers 0 < q <= 2^40 (both exactly representable, the division
   correctly rounded, the constant 0.7 rounded to nearest) *)
Theorem float_threshold (p q : Z) : (0 < q <= 2 ^ 40)%Z ->
  (rnd64 (7 / 10) <= rnd64 (IZR p / IZR q) <-> (7 * q <= 10 * p)%Z).
Proof.
  intros [Hq0 Hq1]. assert (Hq : 0 < IZR q) by (apply IZR_lt; exact Hq0).
  assert (Hq' : IZR q <= 1099511627776) by (apply IZR_le in Hq1; exact Hq1).
  split.
  - intros H. destruct (Z_le_gt_dec (7 * q) (10 * p)) as [|Hgt]; [assumption|exfalso].
    assert (Hx : IZR p / IZR q <= F1).
    { apply Rle_trans with (2 := F1_ge).
      assert (Hi : (10 * p <= 7 * q - 1)%Z) by lia. apply IZR_le in Hi. rewrite minus_IZR, !mult_IZR in Hi.
      apply Rmult_le_reg_r with (IZR q); [exact Hq|]. unfold Rdiv. rewrite Rmult_assoc, Rinv_l by lra. rewrite Rmult_1_r.
      assert (/ 17592186044416 * IZR q <= / 10) by (apply Rmult_le_reg_l with 17592186044416; [lra|]; rewrite <- Rmult_assoc, Rinv_r by lra; lra).
      lra. }
    assert (H1 : rnd64 (IZR p / IZR q) <= F1) by (apply round_le_generic; [typeclasses eauto|typeclasses eauto|exact F1_format|exact Hx]).
    assert (H0 : F0 <= rnd64 (7 / 10)) by (apply round_ge_generic; [typeclasses eauto|typeclasses eauto|exact F0_format|exact F0_le]).
    pose proof F1_lt. lra.
  - intros Hi. apply round_le; [typeclasses eauto|typeclasses eauto|].
    apply IZR_le in Hi. rewrite !mult_IZR in Hi.
    apply Rmult_le_reg_r with (IZR q); [exact Hq|]. unfold Rdiv at 2. rewrite Rmult_assoc, Rinv_l by lra. lra.
Qed.


Close Scope R_scope.
From Sif Require Import Model.Bridge.
Open Scope Z_scope.

(* the model's rational tests are the float tests *)
Theorem ratio_ge_is_float (p q : Z) : 0 < q <= 2 ^ 40 ->
  (ratio_ge p q = true <-> (rnd64 (7 / 10) <= rnd64 (IZR p / IZR q))%R).
Proof.
  intros Hq. rewrite (float_threshold p q Hq). unfold ratio_ge. destruct (Z.eqb_spec q 0); [lia|]. apply Z.leb_le.
Qed.
Theorem ratio_lt_is_float (p q : Z) : 0 < q <= 2 ^ 40 ->
  (ratio_lt p q = true <-> (rnd64 (IZR p / IZR q) < rnd64 (7 / 10))%R).
Proof.
  intros Hq. unfold ratio_lt. destruct (Z.eqb_spec q 0); [lia|]. rewrite Z.ltb_lt. pose proof (float_threshold p q Hq) as H. split.
  - intros Hlt. apply Rnot_le_lt. intros Hc. apply H in Hc. lia.
  - intros Hlt. destruct (Z_lt_ge_dec (10 * p) (7 * q)) as [|Hge]; [assumption|]. exfalso.
    assert (Hle : 7 * q <= 10 * p) by lia. apply H in Hle. apply (Rlt_irrefl (rnd64 (7 / 10))). eapply Rle_lt_trans; eassumption.
Qed.
