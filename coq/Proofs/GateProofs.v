From Coq Require Import ZArith Lia Bool List.
From RecordUpdate Require Import RecordUpdate.
From Sif Require Import Base.Outcome Base.SdkMath Base.Store Base.Bank
  Model.ClpCalc Model.ClpTypes Model.ClpState Model.ClpMsgs Model.Registry Proofs.ClpInv.
Import ListNotations.
Local Open Scope Z_scope.

Definition registered_with (s : clp_state) (d perm : Z) : Prop :=
  exists bits, reg_entry (cs_params s) d = Some bits /\ has_perm bits perm = true.
Definition not_marked (s : clp_state) (d perm : Z) : Prop :=
  forall bits, reg_entry (cs_params s) d = Some bits -> has_perm bits perm = false.

Ltac gate_tac :=
  repeat match goal with
  | H : opt_or_fail (reg_entry _ _) = Ok _ |- _ => apply opt_or_fail_ok in H
  | H : require _ = Ok ?u |- _ => destruct u; apply require_ok in H
  end.

Lemma create_pool_gate s sg a n e s' : create_pool s sg a n e = Ok s' -> registered_with s a PERM_CLP.
Proof. unfold create_pool. intros H. repeat inv1 H. gate_tac. eexists; eauto. Qed.

Lemma remove_gate s sg a w asym s' : remove_liquidity s sg a w asym = Ok s' -> registered_with s a PERM_CLP.
Proof. unfold remove_liquidity. intros H. repeat inv1 H. gate_tac. eexists; eauto. Qed.

Lemma remove_units_gate s sg a u s' : remove_liquidity_units s sg a u = Ok s' -> registered_with s a PERM_CLP.
Proof. unfold remove_liquidity_units. intros H. repeat inv1 H. gate_tac. eexists; eauto. Qed.

Lemma swap_gate s sg sent recv amt mn s' emit :
  swap s sg sent recv amt mn = Ok (s', emit) ->
  registered_with s sent PERM_CLP /\ registered_with s recv PERM_CLP /\
  not_marked s sent PERM_DISABLE_SELL /\ not_marked s recv PERM_DISABLE_BUY.
Proof.
  unfold swap. intros H. repeat inv1 H. gate_tac.
  apply andb_prop in Hx1. destruct Hx1. apply negb_true_iff in Hx2, Hx3.
  repeat split; try (eexists; eauto; fail); intros bits Hb; congruence.
Qed.

(* AddLiquidity: the external token carries the AMM permission; when the add is asymmetric the implied
   swap direction obeys the sell / buy marks of both tokens, the native token's entry included *)
Lemma add_liquidity_gate s sg a n e s' :
  add_liquidity s sg a n e = Ok s' ->
  registered_with s a PERM_CLP /\ (exists nb, reg_entry (cs_params s) ROWAN = Some nb) /\
  exists p pu lpu st sw,
    get a (cs_pools s) = Some p /\
    calculate_pool_units (p_units p) (p_nb p + p_nl p) (p_eb p + p_el p) n e
       (fee_rate (cs_params s) ROWAN) (fee_rate (cs_params s) a) (cp_pmtp (cs_params s)) = Ok (pu, lpu, st, sw) /\
    match st with
    | NoSwap => True
    | SellNative => not_marked s ROWAN PERM_DISABLE_SELL /\ not_marked s a PERM_DISABLE_BUY
    | BuyNative => not_marked s a PERM_DISABLE_SELL /\ not_marked s ROWAN PERM_DISABLE_BUY
    end.
Proof.
  unfold add_liquidity. intros H. repeat inv1 H. gate_tac. use_get_pool. use_uints. subst.
  split; [eexists; eauto|]. split; [eexists; eauto|].
  do 5 eexists. split; [eassumption|]. split; [eassumption|].
  destruct s0; [| |exact I]; gate_tac;
  match goal with Hq : _ && _ = true |- _ => apply andb_prop in Hq; destruct Hq as (Ha & Hb); apply negb_true_iff in Ha, Hb end;
  split; intros bits Hbits; congruence.
Qed.

Lemma transfer_gate_spec reg d amt :
  transfer_gate reg d amt = true <->
  exists e, reg_lookup d reg = Some e /\ re_alias e = false /\ has_perm (re_bits e) PERM_IBCEXPORT = true /\ 0 < amt.
Proof.
  unfold transfer_gate. destruct (reg_lookup d reg) as [e|]; split.
  - intros H. apply andb_prop in H. destruct H as (H1 & H3). apply andb_prop in H1. destruct H1 as (H1 & H2).
    apply negb_true_iff in H1. apply Z.ltb_lt in H3. eauto.
  - intros (e' & [= <-] & H1 & H2 & H3). rewrite H1, H2. cbn. apply Z.ltb_lt. assumption.
  - discriminate.
  - intros (e' & H & _). discriminate.
Qed.

(* ---------- edits of the registry ---------- *)
Section Edits.
Context {E : Type}.
Implicit Types reg : list (Z * E).
Lemma lookup_set_same d e reg : lookup d (set_token d e reg) = Some e.
Proof.
  induction reg as [|[k x] reg IH]; cbn [set_token lookup]; [rewrite Z.eqb_refl; reflexivity|].
  destruct (Z.eqb_spec k d) as [->|Hne]; cbn [lookup]; [rewrite Z.eqb_refl; reflexivity|].
  destruct (Z.eqb_spec k d); [contradiction|exact IH].
Qed.
Lemma lookup_set_other d e reg d' : d' <> d -> lookup d' (set_token d e reg) = lookup d' reg.
Proof.
  intros Hne. induction reg as [|[k x] reg IH]; cbn [set_token lookup].
  - destruct (Z.eqb_spec d d'); [congruence|reflexivity].
  - destruct (Z.eqb_spec k d) as [->|Hk]; cbn [lookup].
    + destruct (Z.eqb_spec d d'); [congruence|reflexivity].
    + destruct (k =? d'); [reflexivity|exact IH].
Qed.
Lemma lookup_remove_same d reg : lookup d (remove_token d reg) = None.
Proof.
  induction reg as [|[k x] reg IH]; cbn [remove_token filter lookup fst]; [reflexivity|].
  destruct (Z.eqb_spec k d) as [->|Hne]; cbn [negb]; [exact IH|]. cbn [lookup]. destruct (Z.eqb_spec k d); [contradiction|exact IH].
Qed.
Lemma lookup_remove_other d reg d' : d' <> d -> lookup d' (remove_token d reg) = lookup d' reg.
Proof.
  intros Hne. induction reg as [|[k x] reg IH]; cbn [remove_token filter lookup fst]; [reflexivity|].
  destruct (Z.eqb_spec k d) as [->|Hk]; cbn [negb lookup].
  - destruct (Z.eqb_spec d d'); [congruence|exact IH].
  - destruct (k =? d'); [reflexivity|exact IH].
Qed.
(* a registration edits in place: the list keeps its length when the denom was listed, and lists the denom once if it did before *)
Lemma set_token_length d e reg : lookup d reg <> None -> length (set_token d e reg) = length reg.
Proof.
  induction reg as [|[k x] reg IH]; cbn [set_token lookup length]; [congruence|].
  destruct (k =? d); cbn [length]; [reflexivity|]. intros H. rewrite IH by exact H. reflexivity.
Qed.
End Edits.

Lemma reg_lookup_is_lookup d reg : reg_lookup d reg = lookup d reg.
Proof. induction reg as [|[k e] reg IH]; cbn; [reflexivity|]. destruct (k =? d); [reflexivity|exact IH]. Qed.

(* after MsgDeregister the gate refuses the denom, after MsgRegister it follows the new entry *)
Theorem gate_after_deregister reg d amt : transfer_gate (remove_token d reg) d amt = false.
Proof. unfold transfer_gate. rewrite reg_lookup_is_lookup, lookup_remove_same. reflexivity. Qed.
(* after MsgSetRegistry every lookup and the gate follow the list of the message alone: a denom it does not list is unknown *)
Lemma set_registry_takes_effect (new old : list (Z * reg_entry_x)) :
  (forall d, lookup d (set_registry new old) = lookup d new) /\ (forall d amt, transfer_gate (set_registry new old) d amt = transfer_gate new d amt) /\
  (forall d amt, lookup d new = None -> transfer_gate (set_registry new old) d amt = false).
Proof.
  unfold set_registry. split; [reflexivity|split; [reflexivity|]].
  intros d amt Hn. unfold transfer_gate. rewrite reg_lookup_is_lookup, Hn. reflexivity.
Qed.
Theorem gate_after_register reg d e amt :
  transfer_gate (set_token d e reg) d amt = negb (re_alias e) && has_perm (re_bits e) PERM_IBCEXPORT && (0 <? amt).
Proof. unfold transfer_gate. rewrite reg_lookup_is_lookup, lookup_set_same. reflexivity. Qed.
