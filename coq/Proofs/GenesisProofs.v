(* C14: import (export x) = x for the clp and dispensation stores (and hence export (import (export x)) = export x). *)
From Coq Require Import ZArith Lia Bool List.
From RecordUpdate Require Import RecordUpdate.
From Sif Require Import Base.Outcome Base.Store Base.Bank Model.ClpTypes Model.ClpPolicy Model.Dispensation Model.Margin Model.Genesis
  Proofs.DispProofs.
Import ListNotations.
Local Open Scope Z_scope.

Section Stores.
Context {V : Type}.
Implicit Types m acc : store V.

Definition keys_lt m (k : Z) : Prop := Forall (fun kv => fst kv < k) m.

Lemma set_snoc m k v : keys_lt m k -> set k v m = m ++ [(k, v)].
Proof.
  induction m as [|[k' v'] m IH]; intros H; [reflexivity|].
  inversion H as [|? ? H1 H2]; subst. cbn [fst] in H1. cbn [set app].
  destruct (Z.ltb_spec k' k); [|lia]. rewrite IH; auto.
Qed.
Lemma get_snoc_same m k v : keys_lt m k -> get k (m ++ [(k, v)]) = Some v.
Proof. intros H. rewrite <- set_snoc by exact H. apply get_set_same. Qed.
Lemma set_snoc_replace m k v v' : keys_lt m k -> set k v' (m ++ [(k, v)]) = m ++ [(k, v')].
Proof.
  induction m as [|[k' w] m IH]; intros H; cbn [set app].
  - rewrite Z.ltb_irrefl, Z.eqb_refl. reflexivity.
  - inversion H as [|? ? H1 H2]; subst. cbn [fst] in H1. destruct (Z.ltb_spec k' k); [|lia]. rewrite IH; auto.
Qed.

Lemma sorted_from_app lo a k v l :
  sorted_from lo (a ++ (k, v) :: l) -> keys_lt a k /\ sorted_from k l.
Proof.
  revert lo. induction a as [|[k' v'] a IH]; intros lo H; cbn [app sorted_from] in H.
  - destruct H as [_ H]. split; [constructor | exact H].
  - destruct H as [H1 H2]. destruct (IH _ H2) as [A B]. split; [|exact B].
    constructor; [|exact A]. cbn [fst].
    clear - H2. revert k' H2. induction a as [|[k2 v2] a IHa]; intros k' H2; cbn [app sorted_from] in H2; [lia|].
    destruct H2 as [H3 H4]. specialize (IHa _ H4). lia.
Qed.

Lemma of_list_acc l : forall acc lo, sorted_from lo (acc ++ l) ->
  fold_left (fun m kv => set (fst kv) (snd kv) m) l acc = acc ++ l.
Proof.
  induction l as [|[k v] l IH]; intros acc lo H; cbn [fold_left]; [rewrite app_nil_r; reflexivity|].
  destruct (sorted_from_app _ _ _ _ _ H) as [A _]. cbn [fst snd]. rewrite set_snoc by exact A.
  rewrite (IH (acc ++ [(k, v)]) lo); rewrite <- app_assoc; [reflexivity | exact H].
Qed.
(* writing back every exported record rebuilds the store *)
Lemma of_list_id m : wf m -> of_list m = m.
Proof. intros [lo H]. unfold of_list. apply (of_list_acc m [] lo). exact H. Qed.
End Stores.

(* ---------- the nested provider store ---------- *)
Section Nested.
Context {V : Type}.
Variable f : V -> V.
Implicit Types m acc : store (store V).

Lemma nset_last acc a (done : store V) k v : keys_lt acc a -> keys_lt done k ->
  nset a k v (acc ++ [(a, done)]) = acc ++ [(a, done ++ [(k, v)])].
Proof.
  intros Ha Hk. unfold nset, inner. rewrite (get_snoc_same acc a done Ha), (set_snoc done k v Hk).
  apply set_snoc_replace; exact Ha.
Qed.
Lemma nset_new acc a k v : keys_lt acc a -> nset a k v acc = acc ++ [(a, [(k, v)])].
Proof.
  intros Ha. unfold nset, inner.
  assert (Hg : get a acc = None).
  { clear - Ha. induction acc as [|[k' w] acc IHa]; [reflexivity|]. inversion Ha as [|? ? H1 H2]; subst. cbn [fst] in H1.
    cbn [get]. destruct (Z.ltb_spec k' a); [auto | lia]. }
  rewrite Hg. cbn [set]. apply set_snoc; exact Ha.
Qed.

(* entries of one asset, appended to an accumulator whose last entry is that asset *)
Lemma of_flat_inner a (i : store V) : forall acc (done : store V) lo,
  keys_lt acc a -> sorted_from lo (done ++ i) -> (forall kv, In kv i -> f (snd kv) = snd kv) ->
  fold_left (fun m e => nset (fst e) (fst (snd e)) (f (snd (snd e))) m) (map (fun e => (a, e)) i) (acc ++ [(a, done)])
  = acc ++ [(a, done ++ i)].
Proof.
  induction i as [|[k v] i IH]; intros acc done lo Ha Hs Hf; cbn [map fold_left]; [rewrite app_nil_r; reflexivity|].
  cbn [fst snd].
  destruct (sorted_from_app _ _ _ _ _ Hs) as [Hk _].
  pose proof (Hf (k, v) (or_introl eq_refl)) as Hfv. cbn [snd] in Hfv. rewrite Hfv. rewrite (nset_last acc a done k v Ha Hk).
  etransitivity; [apply (IH acc (done ++ [(k, v)]) lo Ha)|].
  - rewrite <- app_assoc. exact Hs.
  - intros kv Hin. apply Hf. right; exact Hin.
  - rewrite <- app_assoc. reflexivity.
Qed.

Definition inner_ok (kv : Z * store V) : Prop :=
  snd kv <> [] /\ wf (snd kv) /\ forall e, In e (snd kv) -> f (snd e) = snd e.

Lemma of_flat_acc m : forall acc lo, sorted_from lo (acc ++ m) -> Forall inner_ok m ->
  fold_left (fun m e => nset (fst e) (fst (snd e)) (f (snd (snd e))) m) (flatten m) acc = acc ++ m.
Proof.
  induction m as [|[a i] m IH]; intros acc lo Hs Hok; [cbn; rewrite app_nil_r; reflexivity|].
  inversion Hok as [|? ? (Hne & (lo' & Hwf) & Hf) Hok']; subst. cbn [snd] in *.
  destruct (sorted_from_app _ _ _ _ _ Hs) as [Ha _].
  unfold flatten. cbn [flat_map fst snd]. rewrite fold_left_app.
  destruct i as [|[k v] i]; [contradiction|]. cbn [map fold_left fst snd].
  pose proof (Hf (k, v) (or_introl eq_refl)) as Hfv. cbn [snd] in Hfv. rewrite Hfv. rewrite (nset_new acc a k v Ha).
  assert (E1 : fold_left (fun m e => nset (fst e) (fst (snd e)) (f (snd (snd e))) m) (map (fun e => (a, e)) i) (acc ++ [(a, [(k, v)])])
               = acc ++ [(a, (k, v) :: i)]).
  { apply (of_flat_inner a i acc [(k, v)] lo' Ha Hwf). intros kv Hin; apply Hf; right; exact Hin. }
  etransitivity; [apply f_equal; exact E1|].
  fold (flatten m).
  etransitivity; [apply (IH (acc ++ [(a, (k, v) :: i)]) lo); [rewrite <- app_assoc; exact Hs | exact Hok']|].
  rewrite <- app_assoc. reflexivity.
Qed.
Lemma of_flat_id m : wf m -> Forall inner_ok m -> of_flat f (flatten m) = m.
Proof. intros [lo H] Hok. unfold of_flat. apply (of_flat_acc m [] lo); assumption. Qed.
End Nested.

(* ---------- x/clp ---------- *)
Definition lp_stamped (l : lprov) : Prop := lp_last l <> 0.
Record CarriedWF (c : clp_carried) : Prop := mkCWF {
  cw_pools : wf (cc_pools c);
  cw_buckets : wf (cc_buckets c);
  cw_lps : wf (cc_lps c);
  cw_inner : Forall (fun kv => snd kv <> [] /\ wf (snd kv) /\ forall e, In e (snd kv) -> lp_stamped (snd e)) (cc_lps c)
}.

Theorem import_export_clp h c : CarriedWF c -> import_clp h (export_clp c) = c.
Proof.
  intros [Hp Hb Hl Hi]. destruct c as [pools lps buckets rw pd lp pm]. unfold import_clp, export_clp; cbn [cg_pools cg_lps cg_buckets cg_rewards cg_lppd cg_lp cg_pmtp cc_pools cc_lps cc_buckets cc_rewards cc_lppd cc_lp cc_pmtp] in *.
  rewrite (of_list_id pools Hp), (of_list_id buckets Hb).
  rewrite (of_flat_id (import_lp h) lps Hl); [reflexivity|].
  eapply Forall_impl; [|exact Hi]. intros kv (H1 & H2 & H3). split; [exact H1|]. split; [exact H2|].
  intros e He. specialize (H3 e He). unfold import_lp, lp_stamped in *. destruct (Z.eqb_spec (lp_last (snd e)) 0); [contradiction | reflexivity].
Qed.
Corollary reexport_clp h c : CarriedWF c -> export_clp (import_clp h (export_clp c)) = export_clp c.
Proof. intros H. rewrite import_export_clp by exact H. reflexivity. Qed.

(* ---------- x/dispensation ---------- *)
Lemma key_ltb_irrefl k : key_ltb k k = false.
Proof. destruct k as [[a b] c]. unfold key_ltb, k_name, k_type, k_raw; cbn. rewrite !Z.ltb_irrefl, !Z.eqb_refl. reflexivity. Qed.
Lemma key_ltb_asym a b : key_ltb a b = true -> key_ltb b a = false.
Proof.
  destruct a as [[a1 a2] a3], b as [[b1 b2] b3]. unfold key_ltb, k_name, k_type, k_raw; cbn.
  destruct (Z.ltb_spec a1 b1), (Z.ltb_spec b1 a1), (Z.eqb_spec a1 b1), (Z.eqb_spec b1 a1),
           (Z.ltb_spec a2 b2), (Z.ltb_spec b2 a2), (Z.eqb_spec a2 b2), (Z.eqb_spec b2 a2),
           (Z.ltb_spec a3 b3), (Z.ltb_spec b3 a3); cbn; try reflexivity; try discriminate; lia.
Qed.

Fixpoint tasc {V} (t : table V) : Prop :=
  match t with [] => True | (k, _) :: r => Forall (fun e => key_ltb k (fst e) = true) r /\ tasc r end.
Definition tkeys_lt {V} (t : table V) (k : rkey) : Prop := Forall (fun e => key_ltb (fst e) k = true) t.

Lemma rset_snoc {V} (t : table V) k v : tkeys_lt t k -> rset k v t = t ++ [(k, v)].
Proof.
  intros H. unfold rset.
  assert (Hn : rget k t = None).
  { induction t as [|[k' v'] t IH]; [reflexivity|]. inversion H as [|? ? H1 H2]; subst. cbn [fst] in H1. cbn [rget].
    destruct (key_eqb_spec k k') as [<-|]; [rewrite key_ltb_irrefl in H1; discriminate | auto]. }
  rewrite Hn. clear Hn. induction t as [|[k' v'] t IH]; [reflexivity|].
  inversion H as [|? ? H1 H2]; subst. cbn [fst] in H1. cbn [rinsert app]. rewrite (key_ltb_asym _ _ H1). rewrite IH; auto.
Qed.
Lemma tasc_app {V} (a : table V) k v l : tasc (a ++ (k, v) :: l) -> tkeys_lt a k.
Proof.
  induction a as [|[k' v'] a IH]; intros H; [constructor|]. cbn [app tasc] in H. destruct H as [H1 H2].
  constructor; [|apply IH; exact H2]. cbn [fst]. rewrite Forall_forall in H1. apply (H1 (k, v)). apply in_or_app. right; left; reflexivity.
Qed.

Lemma of_records_other st st' (l : table drec) : st <> st' -> forall acc,
  fold_left (fun t e => if fst e =? st then rset (fst (snd e)) (snd (snd e)) t else t) (map (fun e => (st', e)) l) acc = acc.
Proof.
  intros Hne. induction l as [|e l IH]; intros acc; [reflexivity|]. cbn [map fold_left fst].
  destruct (Z.eqb_spec st' st); [congruence | apply IH].
Qed.
Lemma of_records_same st (l : table drec) : forall acc, tasc (acc ++ l) ->
  fold_left (fun t e => if fst e =? st then rset (fst (snd e)) (snd (snd e)) t else t) (map (fun e => (st, e)) l) acc = acc ++ l.
Proof.
  induction l as [|[k v] l IH]; intros acc H; [cbn; rewrite app_nil_r; reflexivity|].
  cbn [map fold_left fst snd]. rewrite Z.eqb_refl. rewrite (rset_snoc acc k v (tasc_app _ _ _ _ H)).
  rewrite (IH (acc ++ [(k, v)])); rewrite <- app_assoc; [reflexivity | exact H].
Qed.

Definition DispWF (d : disp_carried) : Prop := tasc (dc_pending d) /\ tasc (dc_completed d) /\ tasc (dc_failed d).

Theorem import_export_disp d : DispWF d -> import_disp (export_disp d) = d.
Proof.
  intros (Hp & Hc & Hf). destruct d as [p c f ds cl]. unfold import_disp, export_disp, of_records, DispWF in *; cbn [dg_records dg_dists dg_claims dc_pending dc_completed dc_failed dc_dists dc_claims] in *.
  rewrite !fold_left_app.
  rewrite (of_records_same 1 p [] Hp), (of_records_other 1 2 c ltac:(lia)), (of_records_other 1 3 f ltac:(lia)).
  rewrite (of_records_other 2 1 p ltac:(lia)), (of_records_same 2 c [] Hc), (of_records_other 2 3 f ltac:(lia)).
  rewrite (of_records_other 3 1 p ltac:(lia)), (of_records_other 3 2 c ltac:(lia)), (of_records_same 3 f [] Hf).
  reflexivity.
Qed.
Corollary reexport_disp d : DispWF d -> export_disp (import_disp (export_disp d)) = export_disp d.
Proof. intros H. rewrite import_export_disp by exact H. reflexivity. Qed.

(* the table order is what the model's own updates maintain *)
Lemma key_ltb_iff a b : key_ltb a b = true <->
  (k_name a < k_name b \/ (k_name a = k_name b /\ (k_type a < k_type b \/ (k_type a = k_type b /\ k_raw a < k_raw b)))).
Proof. unfold key_ltb. rewrite orb_true_iff, andb_true_iff, orb_true_iff, andb_true_iff, !Z.ltb_lt, !Z.eqb_eq. reflexivity. Qed.
Lemma key_ltb_trans a b c : key_ltb a b = true -> key_ltb b c = true -> key_ltb a c = true.
Proof. rewrite !key_ltb_iff. lia. Qed.
Lemma key_ltb_total a b : a <> b -> key_ltb a b = false -> key_ltb b a = true.
Proof.
  intros Hne Hf. apply key_ltb_iff. assert (Hn : ~ (key_ltb a b = true)) by congruence. rewrite key_ltb_iff in Hn.
  destruct a as [[a1 a2] a3], b as [[b1 b2] b3]. unfold k_name, k_type, k_raw in *; cbn [fst snd] in *.
  assert (a1 <> b1 \/ a2 <> b2 \/ a3 <> b3).
  { destruct (Z.eq_dec a1 b1) as [->|]; [|auto]. destruct (Z.eq_dec a2 b2) as [->|]; [|auto]. destruct (Z.eq_dec a3 b3) as [->|]; [|auto]. congruence. }
  lia.
Qed.

Lemma tasc_rinsert {V} (t : table V) k v : tasc t -> rget k t = None -> tasc (rinsert k v t).
Proof.
  induction t as [|[k' v'] t IH]; intros H Hn; [cbn; split; [constructor | exact I]|].
  cbn [tasc] in H. destruct H as [H1 H2]. cbn [rget] in Hn. destruct (key_eqb_spec k k') as [|Hne]; [discriminate|].
  cbn [rinsert]. destruct (key_ltb k k') eqn:El.
  - cbn [tasc]. split; [|split; assumption]. constructor; [exact El|].
    rewrite Forall_forall in *. intros e He. eapply key_ltb_trans; [exact El | apply H1; exact He].
  - cbn [tasc]. split; [|apply IH; assumption].
    rewrite Forall_forall in *. intros e He. apply (in_rinsert k v t e) in He as [->|He]; [|auto].
    cbn [fst]. apply key_ltb_total; [congruence | exact El].
Qed.
Lemma tasc_keys {V} (t t' : table V) : tkeys t = tkeys t' -> tasc t -> tasc t'.
Proof.
  revert t'. induction t as [|[k v] t IH]; intros [|[k' v'] t'] E H; try discriminate; [exact I|].
  injection E as <- E. cbn [tasc] in *. destruct H as [H1 H2]. split; [|apply IH; assumption].
  rewrite Forall_forall in *. intros e He. apply (in_map fst) in He. fold (tkeys t') in He. rewrite <- E in He.
  apply in_map_iff in He as (e0 & E0 & He0). rewrite <- E0. apply H1; exact He0.
Qed.
Lemma tasc_rset {V} (t : table V) k v : tasc t -> tasc (rset k v t).
Proof.
  intros H. unfold rset. destruct (rget k t) eqn:E; [|apply tasc_rinsert; assumption].
  eapply tasc_keys; [|exact H]. symmetry. apply tkeys_rreplace.
Qed.
Lemma tasc_rdel {V} (t : table V) k : tasc t -> tasc (rdel k t).
Proof.
  induction t as [|[k' v'] t IH]; intros H; [exact I|]. cbn [tasc] in H. destruct H as [H1 H2]. cbn [rdel].
  destruct (key_eqb k k'); [exact H2|]. cbn [tasc]. split; [|apply IH; exact H2].
  rewrite Forall_forall in *. intros e He. apply H1. eapply in_rdel; exact He.
Qed.

(* ---------- x/margin ---------- *)
Definition ids_pos (m : store (store mtp)) : Prop := forall e, In e (flatten m) -> 1 <= fst (snd e).
Record MarginWF (c : margin_carried) : Prop := mkMWF {
  mw_outer : wf (mc_mtps c);
  mw_inner : Forall (fun kv : Z * store mtp => snd kv <> [] /\ wf (snd kv)) (mc_mtps c);
  mw_ids : ids_pos (mc_mtps c);                                   (* ids are handed out from 1 *)
  mw_open : mc_open c = Z.of_nat (length (flatten (mc_mtps c)));  (* C13: the open counter counts the stored positions *)
  mw_count : forall e, In e (flatten (mc_mtps c)) -> fst (snd e) <= mc_count c
}.

Lemma import_mtp_nonzero l : (forall e, In e l -> fst (snd e) <> 0) -> forall m cnt op,
  fold_left import_mtp l (m, cnt, op) =
  (fold_left (fun m e => nset (fst e) (fst (snd e)) (snd (snd e)) m) l m, cnt, op).
Proof.
  induction l as [|e l IH]; intros H m cnt op; [reflexivity|]. cbn [fold_left]. unfold import_mtp at 2.
  destruct (Z.eqb_spec (fst (snd e)) 0) as [E|_]; [exfalso; exact (H e (or_introl eq_refl) E)|].
  apply IH. intros e' He'. apply H. right; exact He'.
Qed.

Lemma fold_max_ge l : forall a, a <= fold_left Z.max l a.
Proof. induction l as [|x l IH]; intros a; cbn [fold_left]; [lia|]. specialize (IH (Z.max a x)). lia. Qed.
Lemma fold_max_in l : forall a x, In x l -> x <= fold_left Z.max l a.
Proof.
  induction l as [|y l IH]; intros a x H; [destruct H|]. destruct H as [<-|H]; cbn [fold_left].
  - pose proof (fold_max_ge l (Z.max a y)). lia.
  - apply IH; exact H.
Qed.
Lemma fold_max_le l b : forall a, a <= b -> (forall x, In x l -> x <= b) -> fold_left Z.max l a <= b.
Proof.
  induction l as [|y l IH]; intros a Ha H; cbn [fold_left]; [exact Ha|].
  apply IH; [pose proof (H y (or_introl eq_refl)); lia | intros x Hx; apply H; right; exact Hx].
Qed.

(* C14 for x/margin: parameters, positions and the open counter come back exactly; the id counter comes back as the
   highest id among the open positions: at least every stored id (so the next id is fresh), at most the old counter *)
Theorem import_export_margin c : MarginWF c ->
  let c' := import_margin (export_margin c) in
  mc_params c' = mc_params c /\ mc_mtps c' = mc_mtps c /\ mc_open c' = mc_open c /\
  (forall e, In e (flatten (mc_mtps c')) -> fst (snd e) <= mc_count c') /\ 0 <= mc_count c' /\ (0 <= mc_count c -> mc_count c' <= mc_count c).
Proof.
  intros [Ho Hi Hids Hop Hcnt]. destruct c as [ps mtps cnt op wl]. cbn [mc_params mc_mtps mc_count mc_open] in *.
  cbv zeta. unfold import_margin, export_margin. cbn [mg_params mg_mtps mc_params mc_mtps mc_count mc_open].
  rewrite import_mtp_nonzero by (intros e He; specialize (Hids e He); lia).
  assert (E : of_flat (fun x : mtp => x) (flatten mtps) = mtps).
  { apply (of_flat_id (fun x : mtp => x) mtps Ho). eapply Forall_impl; [|exact Hi]. intros kv (H1 & H2). split; [exact H1|]. split; [exact H2|]. reflexivity. }
  unfold of_flat in E. cbn beta in E. rewrite E.
  destruct (flatten mtps) as [|e0 l0] eqn:EF.
  - cbn [mc_params mc_mtps mc_open mc_count]. rewrite Hop. cbn. repeat split; try reflexivity; try lia. intros e He. rewrite EF in He. destruct He.
  - cbn [mc_params mc_mtps mc_open mc_count]. rewrite Hop. repeat split; try reflexivity.
    + intros e He. rewrite EF in He. unfold max_id.
      pose proof (fold_max_in (map (fun e => fst (snd e)) (e0 :: l0)) 0 (fst (snd e)) (in_map _ _ _ He)). lia.
    + unfold max_id. pose proof (fold_max_ge (map (fun e => fst (snd e)) (e0 :: l0)) 0). lia.
    + intros Hc. apply Z.max_lub; [exact Hc|]. unfold max_id. apply fold_max_le; [exact Hc|].
      intros x Hx. apply in_map_iff in Hx. destruct Hx as (e & <- & He). apply Hcnt. exact He.
Qed.

Corollary reexport_margin c : MarginWF c -> export_margin (import_margin (export_margin c)) = export_margin c.
Proof.
  intros H. destruct (import_export_margin c H) as (E1 & E2 & _). unfold export_margin at 1. rewrite E1, E2. reflexivity.
Qed.

(* what the format does not carry: the lifetime counter when the positions opened last were closed (F-19), and the whitelist (F-20) *)
Definition mc_example : margin_carried :=
  mkMC (mkMParams 0 0 1 false 0 0 0 0 [] [] false 0 false 0 0 1) [(10, [(1, mkMtp 0 5 5 0 0 0 2 7 2 0)])] 2 1 [14].
Lemma mc_example_wf : MarginWF mc_example.
Proof.
  constructor; cbn.
  - exists 0. cbn. auto with zarith.
  - constructor; [|constructor]. cbn. split; [discriminate|]. exists 0. cbn. auto with zarith.
  - intros e [<-|[]]. cbn. lia.
  - reflexivity.
  - intros e [<-|[]]. cbn. lia.
Qed.
Lemma margin_lifetime_counter_refuted : exists c, MarginWF c /\ mc_count (import_margin (export_margin c)) <> mc_count c.
Proof. exists mc_example. split; [exact mc_example_wf|]. vm_compute. discriminate. Qed.
Lemma margin_whitelist_refuted : exists c, MarginWF c /\ mc_whitelist (import_margin (export_margin c)) <> mc_whitelist c.
Proof. exists mc_example. split; [exact mc_example_wf|]. vm_compute. discriminate. Qed.
