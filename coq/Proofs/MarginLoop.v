(* C13: lifting the per-position theorem of the begin blocker to the whole pass over a pool, without per-step side
   conditions.  Part A: a frame property of the keeper functions, proved once for the monad's combinators: a computation
   that works on position (address, id) leaves every other stored position, the parameters and the height alone.
   Part B: pool balances and custody amounts stay non-negative.  Part C: the loop. *)
From Coq Require Import ZArith Lia Bool List.
From RecordUpdate Require Import RecordUpdate.
From Sif Require Import Base.Outcome Base.SdkMath Base.Store Base.Bank Model.Margin Proofs.BankProofs Proofs.MarginProofs.
Import ListNotations.
Local Open Scope Z_scope.
Local Open Scope pm_scope.

(* ---------- Part A: the frame ---------- *)
Definition mtps_wf (s : mstate) : Prop := wf (ms_mtps s) /\ Forall (fun kv : Z * store mtp => wf (snd kv)) (ms_mtps s).

Definition FR (c c' : mctx) : Prop :=
  c_addr c' = c_addr c /\ c_asset c' = c_asset c /\
  ms_params (c_s c') = ms_params (c_s c) /\ ms_height (c_s c') = ms_height (c_s c) /\
  (c_id c <> 0 -> mtps_wf (c_s c) ->
     c_id c' = c_id c /\ mtps_wf (c_s c') /\
     forall addr' id', (addr' <> c_addr c \/ id' <> c_id c) -> find_mtp (c_s c') addr' id' = find_mtp (c_s c) addr' id').

Lemma FR_refl c : FR c c.
Proof. unfold FR. split; [reflexivity|]. split; [reflexivity|]. split; [reflexivity|]. split; [reflexivity|]. intros _ Hw. split; [reflexivity|]. split; [exact Hw|reflexivity]. Qed.
Lemma FR_trans c1 c2 c3 : FR c1 c2 -> FR c2 c3 -> FR c1 c3.
Proof.
  intros (A1 & A2 & A3 & A4 & A5) (B1 & B2 & B3 & B4 & B5). unfold FR.
  split; [congruence|]. split; [congruence|]. split; [congruence|]. split; [congruence|].
  intros Hid Hwf. destruct (A5 Hid Hwf) as (E1 & W1 & F1).
  destruct (B5 ltac:(rewrite E1; exact Hid) W1) as (E2 & W2 & F2).
  split; [congruence|]. split; [exact W2|]. intros addr' id' Hk. rewrite F2 by (rewrite A1, E1; exact Hk). apply F1. exact Hk.
Qed.

Definition frames {A} (f : PM A) : Prop := forall c c' o, f c = (c', o) -> FR c c'.

Lemma frames_ret {A} (x : A) : frames (ret x).
Proof. intros c c' o H. unfold ret in H. injection H as <- _. apply FR_refl. Qed.
Lemma frames_lift {A} (x : Outcome A) : frames (lift x).
Proof. intros c c' o H. unfold lift in H. injection H as <- _. apply FR_refl. Qed.
Lemma frames_failM {A} : frames (@failM A).
Proof. apply frames_lift. Qed.
Lemma frames_getc : frames getc.
Proof. intros c c' o H. unfold getc in H. injection H as <- _. apply FR_refl. Qed.
Lemma frames_bind {A B} (m : PM A) (f : A -> PM B) : frames m -> (forall a, frames (f a)) -> frames (bindP m f).
Proof.
  intros Hm Hf c c' o H. unfold bindP in H. destruct (m c) as [c1 o1] eqn:E. specialize (Hm _ _ _ E).
  destruct o1 as [a|e|]; [eapply FR_trans; [exact Hm|eapply Hf; exact H]|injection H as <- _; exact Hm|injection H as <- _; exact Hm].
Qed.
Lemma frames_modc f : (forall c, FR c (f c)) -> frames (modc f).
Proof. intros Hf c c' o H. unfold modc in H. injection H as <- _. apply Hf. Qed.
Lemma frames_if {A} (b : bool) (f g : PM A) : frames f -> frames g -> frames (if b then f else g).
Proof. destruct b; auto. Qed.

(* context updates that do not touch positions, parameters or height *)
Lemma FR_same c c' :
  c_addr c' = c_addr c -> c_asset c' = c_asset c -> c_id c' = c_id c ->
  ms_params (c_s c') = ms_params (c_s c) -> ms_height (c_s c') = ms_height (c_s c) -> ms_mtps (c_s c') = ms_mtps (c_s c) -> FR c c'.
Proof.
  intros H1 H2 H3 H4 H5 H6. unfold FR. split; [exact H1|]. split; [exact H2|]. split; [exact H4|]. split; [exact H5|].
  intros _ Hw. split; [exact H3|]. split; [unfold mtps_wf in *; rewrite H6; exact Hw|].
  intros addr' id' _. unfold find_mtp, mtps_of. rewrite H6. reflexivity.
Qed.

Lemma frames_upd_pool f : frames (upd_pool f).
Proof.
  unfold upd_pool. apply frames_bind; [apply frames_getc|]. intros c0. apply frames_bind; [apply frames_lift|]. intros p.
  apply frames_modc. intros c. apply FR_same; reflexivity.
Qed.
Lemma frames_upd_mtp f : frames (upd_mtp f).
Proof.
  unfold upd_mtp. apply frames_bind; [apply frames_getc|]. intros c0. apply frames_bind; [apply frames_lift|]. intros p.
  apply frames_modc. intros c. apply FR_same; reflexivity.
Qed.
Lemma frames_set_pool : frames set_pool.
Proof. unfold set_pool. apply frames_modc. intros c. apply FR_same; reflexivity. Qed.
Lemma frames_bank_send from to d x : frames (bank_send from to d x).
Proof.
  unfold bank_send. apply frames_bind; [apply frames_getc|]. intros c0.
  destruct (send _ _ _ _ _); [apply frames_modc; intros c; apply FR_same; reflexivity|apply frames_failM].
Qed.

(* writes of the position store at the context's own key *)
Lemma mtps_wf_set s addr (inner : store mtp) : mtps_wf s -> wf inner -> mtps_wf (s <| ms_mtps := set addr inner (ms_mtps s) |>).
Proof.
  intros [Ho Hw] Hi. split; [cbn; apply wf_set; exact Ho|]. cbn. clear Ho.
  induction (ms_mtps s) as [|[k v] m IH]; cbn [set]; [constructor; [exact Hi|constructor]|].
  inversion Hw as [|? ? H1 H2]; subst. destruct (k <? addr); [constructor; [exact H1|apply IH; exact H2]|].
  destruct (k =? addr); constructor; auto.
Qed.
Lemma mtps_of_wf s addr : mtps_wf s -> wf (mtps_of s addr).
Proof.
  intros [_ Hw]. unfold mtps_of. destruct (get addr (ms_mtps s)) as [inner|] eqn:E; [|apply wf_nil].
  clear - Hw E. induction (ms_mtps s) as [|[k v] m IH]; [discriminate|]. cbn [get] in E. inversion Hw; subst.
  destruct (k <? addr); [apply IH; assumption|]. destruct (k =? addr); [injection E as <-; assumption|discriminate].
Qed.
Lemma find_after_set s addr id inner addr' id' :
  (addr' <> addr \/ id' <> id) ->
  (forall k, k <> id -> get k inner = get k (mtps_of s addr)) ->
  find_mtp (s <| ms_mtps := set addr inner (ms_mtps s) |>) addr' id' = find_mtp s addr' id'.
Proof.
  intros Hk Hin. unfold find_mtp, mtps_of at 1. cbn. destruct (Z.eq_dec addr' addr) as [->|Hne].
  - rewrite get_set_same. destruct Hk as [Hk|Hk]; [congruence|]. apply Hin. exact Hk.
  - rewrite get_set_other by exact Hne. reflexivity.
Qed.

Lemma frames_set_mtp : frames set_mtp.
Proof.
  unfold set_mtp. apply frames_modc. intros c. destruct (Z.eqb_spec (c_id c) 0) as [E|E].
  - unfold FR. cbn. split; [reflexivity|]. split; [reflexivity|]. split; [reflexivity|]. split; [reflexivity|]. intros Hc. contradiction.
  - unfold FR. cbn -[find_mtp]. split; [reflexivity|]. split; [reflexivity|]. split; [reflexivity|]. split; [reflexivity|].
    intros _ Hw. split; [reflexivity|]. unfold put_mtp. split.
    + apply mtps_wf_set; [exact Hw|apply wf_set, mtps_of_wf; exact Hw].
    + intros addr' id' Hk. apply (find_after_set (c_s c) (c_addr c) (c_id c)); [exact Hk|]. intros k Hne. apply get_set_other. exact Hne.
Qed.
Lemma frames_destroy_mtp : frames destroy_mtp.
Proof.
  unfold destroy_mtp. apply frames_bind; [apply frames_getc|]. intros c0.
  destruct (find_mtp _ _ _); [|apply frames_failM]. apply frames_modc. intros c.
  unfold FR. cbn -[find_mtp]. split; [reflexivity|]. split; [reflexivity|]. split; [reflexivity|]. split; [reflexivity|].
  intros _ Hw. split; [reflexivity|]. split.
  - pose proof (mtps_wf_set (c_s c) (c_addr c) (del (c_id c) (mtps_of (c_s c) (c_addr c))) Hw (wf_del _ _ (mtps_of_wf _ _ Hw))) as H.
    unfold mtps_wf in *. exact H.
  - intros addr' id' Hk.
    pose proof (find_after_set (c_s c) (c_addr c) (c_id c) (del (c_id c) (mtps_of (c_s c) (c_addr c))) addr' id' Hk) as H.
    unfold find_mtp, mtps_of in *. cbn in *. apply H. intros k Hne. apply wf_get_del_other; [apply (mtps_of_wf _ _ Hw)|exact Hne].
Qed.

(* the rest follows the syntax of the definitions *)
Create HintDb frames discriminated.
#[export] Hint Resolve frames_ret frames_lift frames_failM frames_getc frames_upd_pool frames_upd_mtp frames_set_pool frames_set_mtp
  frames_destroy_mtp frames_bank_send : frames.
Ltac frames_step :=
  first
    [ solve [auto 1 with frames nocore]
    | simple apply @frames_bind; [|intro]
    | simple apply @frames_if
    | match goal with |- frames (match ?x with _ => _ end) => destruct x; cbn beta iota zeta end ].
Ltac frames_auto := repeat frames_step.

Lemma frames_take_fund_payment amount asset pct fund : frames (take_fund_payment amount asset pct fund).
Proof. unfold take_fund_payment. frames_auto. Qed.
#[export] Hint Resolve frames_take_fund_payment : frames.
Lemma frames_take_out_custody : frames take_out_custody.
Proof. unfold take_out_custody. frames_auto. Qed.
#[export] Hint Resolve frames_take_out_custody : frames.
Lemma frames_incremental i : frames (incremental_interest_payment i).
Proof. unfold incremental_interest_payment. frames_auto. Qed.
Lemma frames_handle_interest i : frames (handle_interest_payment i).
Proof.
  unfold handle_interest_payment. apply frames_bind; [apply frames_getc|]. intros c0.
  destruct (mp_incr _); [|frames_auto].
  intros c c' o H. destruct (incremental_interest_payment i c) as [c1 o1] eqn:E. pose proof (frames_incremental i _ _ _ E) as F.
  destruct o1; injection H as <- _; exact F.
Qed.
#[export] Hint Resolve frames_handle_interest : frames.
Lemma frames_add_block_interest fin : frames (add_block_interest fin).
Proof. unfold add_block_interest. frames_auto. Qed.
#[export] Hint Resolve frames_add_block_interest : frames.
Lemma frames_process_interest : frames process_interest.
Proof. unfold process_interest. frames_auto. Qed.
Lemma frames_repay r tf : frames (repay r tf).
Proof. unfold repay. frames_auto. Qed.
#[export] Hint Resolve frames_repay : frames.
Lemma frames_mid_epoch_interest : frames mid_epoch_interest.
Proof. unfold mid_epoch_interest. frames_auto. Qed.
#[export] Hint Resolve frames_mid_epoch_interest : frames.
Lemma frames_force_close adm tf : frames (force_close_long adm tf).
Proof. unfold force_close_long. frames_auto. Qed.

Theorem frames_process_mtp : frames process_mtp.
Proof.
  intros c c' o H. unfold process_mtp in H.
  destruct (process_interest c) as [cA oA] eqn:EA. pose proof (frames_process_interest _ _ _ EA) as FA.
  destruct oA as [u|e|]; [|injection H as <- _; apply FR_refl|injection H as <- _; apply FR_refl].
  destruct (force_close_long false true cA) as [cF oF] eqn:EF. pose proof (frames_force_close _ _ _ _ _ EF) as FF.
  destruct oF as [r|e|]; injection H as <- _; [eapply FR_trans; eassumption|exact FA|apply FR_refl].
Qed.

(* ---------- Part B: balances and custody amounts stay non-negative ---------- *)
From Sif Require Import Proofs.ClpInv.

Definition stored_nonneg (s : mstate) : Prop := forall addr id m, find_mtp s addr id = Some m -> 0 <= m_cust_amt m.
Definition CN (c : mctx) : Prop :=
  0 <= m_cust_amt (c_mtp c) /\ 0 <= q_nb (c_pool c) /\ 0 <= q_eb (c_pool c) /\ stored_nonneg (c_s c).
Definition keepsCN {A} (f : PM A) : Prop := forall c c' o, f c = (c', o) -> CN c -> CN c'.

Lemma kcn_ret {A} (x : A) : keepsCN (ret x).
Proof. intros c c' o H. unfold ret in H. injection H as <- _. auto. Qed.
Lemma kcn_lift {A} (x : Outcome A) : keepsCN (lift x).
Proof. intros c c' o H. unfold lift in H. injection H as <- _. auto. Qed.
Lemma kcn_failM {A} : keepsCN (@failM A).
Proof. apply kcn_lift. Qed.
Lemma kcn_getc : keepsCN getc.
Proof. intros c c' o H. unfold getc in H. injection H as <- _. auto. Qed.
Lemma kcn_bind {A B} (m : PM A) (f : A -> PM B) : keepsCN m -> (forall a, keepsCN (f a)) -> keepsCN (bindP m f).
Proof.
  intros Hm Hf c c' o H Hc. unfold bindP in H. destruct (m c) as [c1 o1] eqn:E. specialize (Hm _ _ _ E Hc).
  destruct o1 as [a|e|]; [eapply Hf; eassumption|injection H as <- _; exact Hm|injection H as <- _; exact Hm].
Qed.
Lemma kcn_if {A} (b : bool) (f g : PM A) : keepsCN f -> keepsCN g -> keepsCN (if b then f else g).
Proof. destruct b; auto. Qed.
Lemma kcn_modc f : (forall c, CN c -> CN (f c)) -> keepsCN (modc f).
Proof. intros Hf c c' o H. unfold modc in H. injection H as <- _. apply Hf. Qed.

Lemma kcn_upd_pool f :
  (forall p p', f p = Ok p' -> 0 <= q_nb p -> 0 <= q_eb p -> 0 <= q_nb p' /\ 0 <= q_eb p') -> keepsCN (upd_pool f).
Proof.
  intros Hf c c' o H (H1 & H2 & H3 & H4). unfold upd_pool in H. unfold bindP at 1 in H. cbn [getc] in H.
  unfold bindP in H. unfold lift in H. destruct (f (c_pool c)) as [p'| |] eqn:E; [|injection H as <- _; repeat split; assumption..].
  unfold modc in H. injection H as <- _. destruct (Hf _ _ E H2 H3). repeat split; assumption.
Qed.
Lemma kcn_upd_mtp f :
  (forall m m', f m = Ok m' -> 0 <= m_cust_amt m -> 0 <= m_cust_amt m') -> keepsCN (upd_mtp f).
Proof.
  intros Hf c c' o H (H1 & H2 & H3 & H4). unfold upd_mtp in H. unfold bindP at 1 in H. cbn [getc] in H.
  unfold bindP in H. unfold lift in H. destruct (f (c_mtp c)) as [m'| |] eqn:E; [|injection H as <- _; repeat split; assumption..].
  unfold modc in H. injection H as <- _. pose proof (Hf _ _ E H1). repeat split; assumption.
Qed.
Lemma kcn_set_pool : keepsCN set_pool.
Proof. unfold set_pool. apply kcn_modc. intros c (H1 & H2 & H3 & H4). repeat split; assumption. Qed.
Lemma kcn_bank_send from to d x : keepsCN (bank_send from to d x).
Proof.
  unfold bank_send. apply kcn_bind; [apply kcn_getc|]. intros c0. destruct (send _ _ _ _ _); [|apply kcn_failM].
  apply kcn_modc. intros c (H1 & H2 & H3 & H4). repeat split; assumption.
Qed.
Lemma find_put_cases s addr id m addr' id' m' :
  find_mtp (put_mtp s addr id m) addr' id' = Some m' -> m' = m \/ find_mtp s addr' id' = Some m'.
Proof.
  unfold find_mtp, put_mtp, mtps_of at 1. cbn. destruct (Z.eq_dec addr' addr) as [->|Hne].
  - rewrite get_set_same. destruct (Z.eq_dec id' id) as [->|Hni]; [rewrite get_set_same; intros [= <-]; auto|].
    rewrite get_set_other by exact Hni. auto.
  - rewrite get_set_other by exact Hne. auto.
Qed.
Lemma kcn_set_mtp : keepsCN set_mtp.
Proof.
  unfold set_mtp. apply kcn_modc. intros c (H1 & H2 & H3 & H4).
  destruct (c_id c =? 0); (split; [exact H1|split; [exact H2|split; [exact H3|]]]); cbn -[find_mtp put_mtp];
  intros addr' id' m' Hf; apply find_put_cases in Hf; destruct Hf as [->|Hf]; [exact H1| |exact H1|exact (H4 _ _ _ Hf)].
  unfold find_mtp, mtps_of in Hf. cbn in Hf. exact (H4 _ _ _ Hf).
Qed.
Lemma get_del_some {V} k k' (m : store V) v : wf m -> get k' (del k m) = Some v -> get k' m = Some v.
Proof.
  intros Hw H. destruct (Z.eq_dec k' k) as [->|Hne]; [rewrite wf_get_del_same in H by exact Hw; discriminate|].
  rewrite wf_get_del_other in H by assumption. exact H.
Qed.
(* destroying needs the key order of the position store; the frame part carries it *)
Lemma kcn_destroy_mtp c c' o : destroy_mtp c = (c', o) -> mtps_wf (c_s c) -> CN c -> CN c'.
Proof.
  unfold destroy_mtp. intros H Hw (H1 & H2 & H3 & H4). unfold bindP at 1 in H. cbn [getc] in H.
  destruct (find_mtp _ _ _); [|unfold failM, lift in H; injection H as <- _; repeat split; assumption].
  unfold modc in H. injection H as <- _. split; [exact H1|split; [exact H2|split; [exact H3|]]].
  intros addr' id' m' Hf. unfold find_mtp, mtps_of at 1 in Hf. cbn in Hf.
  destruct (Z.eq_dec addr' (c_addr c)) as [->|Hne].
  - rewrite get_set_same in Hf. apply get_del_some in Hf; [|apply mtps_of_wf; exact Hw]. exact (H4 _ _ _ Hf).
  - rewrite get_set_other in Hf by exact Hne. exact (H4 _ _ _ Hf).
Qed.

Definition Good (c : mctx) : Prop := c_id c <> 0 /\ mtps_wf (c_s c) /\ CN c.
Definition keepsG {A} (f : PM A) : Prop := forall c c' o, f c = (c', o) -> Good c -> Good c'.
Lemma keepsG_of {A} (f : PM A) : frames f -> keepsCN f -> keepsG f.
Proof.
  intros Hf Hk c c' o H (Hid & Hw & Hc). destruct (Hf _ _ _ H) as (_ & _ & _ & _ & F5). destruct (F5 Hid Hw) as (E & W & _).
  split; [rewrite E; exact Hid|]. split; [exact W|]. eapply Hk; eassumption.
Qed.
Lemma kg_bind {A B} (m : PM A) (f : A -> PM B) : keepsG m -> (forall a, keepsG (f a)) -> keepsG (bindP m f).
Proof.
  intros Hm Hf c c' o H Hc. unfold bindP in H. destruct (m c) as [c1 o1] eqn:E. specialize (Hm _ _ _ E Hc).
  destruct o1 as [a|e|]; [eapply Hf; eassumption|injection H as <- _; exact Hm|injection H as <- _; exact Hm].
Qed.
Lemma kg_if {A} (b : bool) (f g : PM A) : keepsG f -> keepsG g -> keepsG (if b then f else g).
Proof. destruct b; auto. Qed.
Lemma kg_ret {A} (x : A) : keepsG (ret x). Proof. apply keepsG_of; [apply frames_ret|apply kcn_ret]. Qed.
Lemma kg_lift {A} (x : Outcome A) : keepsG (lift x). Proof. apply keepsG_of; [apply frames_lift|apply kcn_lift]. Qed.
Lemma kg_failM {A} : keepsG (@failM A). Proof. apply kg_lift. Qed.
Lemma kg_getc : keepsG getc. Proof. apply keepsG_of; [apply frames_getc|apply kcn_getc]. Qed.
Lemma kg_set_pool : keepsG set_pool. Proof. apply keepsG_of; [apply frames_set_pool|apply kcn_set_pool]. Qed.
Lemma kg_set_mtp : keepsG set_mtp. Proof. apply keepsG_of; [apply frames_set_mtp|apply kcn_set_mtp]. Qed.
Lemma kg_bank_send from to d x : keepsG (bank_send from to d x).
Proof. apply keepsG_of; [apply frames_bank_send|apply kcn_bank_send]. Qed.
Lemma kg_destroy_mtp : keepsG destroy_mtp.
Proof.
  intros c c' o H (Hid & Hw & Hc). destruct (frames_destroy_mtp _ _ _ H) as (_ & _ & _ & _ & F5). destruct (F5 Hid Hw) as (E & W & _).
  split; [rewrite E; exact Hid|]. split; [exact W|]. eapply kcn_destroy_mtp; eassumption.
Qed.
Lemma kg_upd_pool f :
  (forall p p', f p = Ok p' -> 0 <= q_nb p -> 0 <= q_eb p -> 0 <= q_nb p' /\ 0 <= q_eb p') -> keepsG (upd_pool f).
Proof. intros H. apply keepsG_of; [apply frames_upd_pool|apply kcn_upd_pool; exact H]. Qed.
Lemma kg_upd_mtp f :
  (forall m m', f m = Ok m' -> 0 <= m_cust_amt m -> 0 <= m_cust_amt m') -> keepsG (upd_mtp f).
Proof. intros H. apply keepsG_of; [apply frames_upd_mtp|apply kcn_upd_mtp; exact H]. Qed.

(* the field updates are sdk.Uint operations: what they write is non-negative *)
Ltac field_nonneg :=
  let p := fresh "p" in let p' := fresh "p'" in let H := fresh "H" in
  intros p p' H; intros;
  repeat match type of H with
         | (if ?b then _ else _) = Ok _ => destruct b
         | bind _ _ = Ok _ => apply bind_ok_inv in H; let a := fresh "a" in let E := fresh "E" in destruct H as (a & E & H)
         end;
  try (injection H as <-); uints; subst; cbn; try split; lia.

Create HintDb kg discriminated.
#[export] Hint Resolve kg_ret kg_lift kg_failM kg_getc kg_set_pool kg_set_mtp kg_bank_send kg_destroy_mtp : kg.
Ltac kg_step :=
  first
    [ solve [auto 1 with kg nocore]
    | simple apply @kg_upd_pool; field_nonneg
    | simple apply @kg_upd_mtp; field_nonneg
    | simple apply @kg_bind; [|intro]
    | simple apply @kg_if
    | match goal with |- keepsG (match ?x with _ => _ end) => destruct x; cbn beta iota zeta end ].
Ltac kg_auto := repeat kg_step.

Lemma kg_take_fund_payment amount asset pct fund : keepsG (take_fund_payment amount asset pct fund).
Proof. unfold take_fund_payment. kg_auto. Qed.
#[export] Hint Resolve kg_take_fund_payment : kg.
Lemma kg_take_out_custody : keepsG take_out_custody.
Proof. unfold take_out_custody. kg_auto. Qed.
#[export] Hint Resolve kg_take_out_custody : kg.
Lemma kg_incremental i : keepsG (incremental_interest_payment i).
Proof. unfold incremental_interest_payment. kg_auto. Qed.
Lemma kg_handle_interest i : keepsG (handle_interest_payment i).
Proof.
  unfold handle_interest_payment. apply kg_bind; [apply kg_getc|]. intros c0.
  destruct (mp_incr _); [|kg_auto].
  intros c c' o H Hg. destruct (incremental_interest_payment i c) as [c1 o1] eqn:E. pose proof (kg_incremental i _ _ _ E Hg) as F.
  destruct o1; injection H as <- _; exact F.
Qed.
#[export] Hint Resolve kg_handle_interest : kg.
Lemma kg_add_block_interest fin : keepsG (add_block_interest fin).
Proof. unfold add_block_interest. kg_auto. Qed.
#[export] Hint Resolve kg_add_block_interest : kg.
Lemma kg_process_interest : keepsG process_interest.
Proof. unfold process_interest. kg_auto. Qed.
Lemma kg_repay r tf : keepsG (repay r tf).
Proof. unfold repay. kg_auto. Qed.
#[export] Hint Resolve kg_repay : kg.
Lemma kg_mid_epoch_interest : keepsG mid_epoch_interest.
Proof. unfold mid_epoch_interest. kg_auto. Qed.
#[export] Hint Resolve kg_mid_epoch_interest : kg.
Lemma kg_force_close adm tf : keepsG (force_close_long adm tf).
Proof. unfold force_close_long. kg_auto. Qed.

Theorem kg_process_mtp : keepsG process_mtp.
Proof.
  intros c c' o H Hg. unfold process_mtp in H.
  destruct (process_interest c) as [cA oA] eqn:EA. pose proof (kg_process_interest _ _ _ EA Hg) as FA.
  destruct oA as [u|e|]; [|injection H as <- _; exact Hg|injection H as <- _; exact Hg].
  destruct (force_close_long false true cA) as [cF oF] eqn:EF. pose proof (kg_force_close _ _ _ _ _ EF FA) as FF.
  destruct oF as [r|e|]; injection H as <- _; [exact FF|exact FA|exact Hg].
Qed.


(* ---------- Part C: the pass over a pool ---------- *)
Section Sums.
Context {V : Type} (f : V -> Z).
Lemma sumf_in_nonneg (m : store V) : (forall kv, In kv m -> 0 <= f (snd kv)) -> 0 <= sumf f m.
Proof.
  induction m as [|kv m IH]; intros H; cbn [sumf fold_right]; [lia|]. fold (sumf f m).
  pose proof (H kv (or_introl eq_refl)). pose proof (IH (fun kv' Hi => H kv' (or_intror Hi))). lia.
Qed.
Lemma sumf_in_le (m : store V) kv : (forall kv, In kv m -> 0 <= f (snd kv)) -> In kv m -> f (snd kv) <= sumf f m.
Proof.
  induction m as [|kv' m IH]; intros H Hin; [destruct Hin|]. cbn [sumf fold_right]. fold (sumf f m).
  pose proof (H kv' (or_introl eq_refl)). pose proof (sumf_in_nonneg m (fun kv'' Hi => H kv'' (or_intror Hi))).
  destruct Hin as [->|Hin]; [lia|]. pose proof (IH (fun kv'' Hi => H kv'' (or_intror Hi)) Hin). lia.
Qed.
End Sums.

Lemma get_in {V} k (m : store V) v : get k m = Some v -> In (k, v) m.
Proof.
  induction m as [|[k' v'] m IH]; cbn [get]; [discriminate|]. destruct (k' <? k); [intros H; right; apply IH; exact H|].
  destruct (Z.eqb_spec k' k) as [->|]; [intros [= ->]; left; reflexivity|discriminate].
Qed.
Lemma in_get {V} (m : store V) k v : wf m -> In (k, v) m -> get k m = Some v.
Proof.
  intros [lo Hs]. revert lo Hs. induction m as [|[k' v'] m IH]; intros lo Hs Hin; [destruct Hin|]. cbn [sorted_from] in Hs. destruct Hs as [H1 H2].
  cbn [get]. destruct Hin as [E|Hin].
  - injection E as -> ->. rewrite Z.ltb_irrefl, Z.eqb_refl. reflexivity.
  - assert (k' < k).
    { clear - H2 Hin. revert k' H2. induction m as [|[k2 v2] m IHm]; intros k' H2; [destruct Hin|]. cbn in H2. destruct H2 as [H3 H4].
      destruct Hin as [E|Hin]; [injection E as -> ->; exact H3|]. specialize (IHm Hin k2 H4). lia. }
    destruct (Z.ltb_spec k' k); [|lia]. eapply IH; eassumption.
Qed.

(* a stored position's share of a total, when the stored positions' shares are non-negative *)
Lemma tot_ge_stored g s addr id m :
  mtps_wf s -> (forall addr' id' m', find_mtp s addr' id' = Some m' -> 0 <= g m') -> find_mtp s addr id = Some m -> g m <= tot g s.
Proof.
  intros [Ho Hi] Hg Hf. unfold tot. unfold find_mtp, mtps_of in Hf. destruct (get addr (ms_mtps s)) as [inner|] eqn:E; [|discriminate].
  assert (Hinner : forall a' inner', In (a', inner') (ms_mtps s) -> forall kv, In kv inner' -> 0 <= g (snd kv)).
  { intros a' inner' Hin [k v] Hk. cbn [snd]. apply (Hg a' k v). unfold find_mtp, mtps_of. rewrite (in_get _ _ _ Ho Hin).
    apply in_get; [|exact Hk]. exact (proj1 (Forall_forall _ _) Hi _ Hin). }
  pose proof (get_in _ _ _ E) as Hin.
  pose proof (sumf_in_le g inner (id, m) (Hinner _ _ Hin) (get_in _ _ _ Hf)) as H1. cbn [snd] in H1.
  pose proof (sumf_in_le (sumf g) (ms_mtps s) (addr, inner) (fun kv Hk => sumf_in_nonneg g (snd kv) (Hinner (fst kv) (snd kv) ltac:(destruct kv; exact Hk))) Hin) as H2.
  cbn [snd] in H2. lia.
Qed.

Definition key_of (t : Z * Z * mtp) : Z * Z := let '(addr, id, _) := t in (addr, id).

Definition Inv2 (a : Z) (st : mstate) (p : mpool) (ms : list (Z * Z * mtp)) : Prop :=
  LoopInv a st p /\ mtps_wf st /\ stored_nonneg st /\ 0 <= q_nb p /\ 0 <= q_eb p /\
  q_nb p + q_nc p <= bal (ms_bank st) CLP_MODULE ROWAN /\ q_eb p + q_ec p <= bal (ms_bank st) CLP_MODULE a /\
  epoch_position st = 0 /\ pct_ok st /\ funds_not_module st /\
  NoDup (map key_of ms) /\
  (forall addr id m, In (addr, id, m) ms -> find_mtp st addr id = Some m /\ on_pool a m /\ id <> 0 /\ addr <> CLP_MODULE).

Lemma custody_covered a st p addr id m :
  LoopInv a st p -> mtps_wf st -> stored_nonneg st -> 0 <= q_nb p -> 0 <= q_eb p ->
  q_nb p + q_nc p <= bal (ms_bank st) CLP_MODULE ROWAN -> q_eb p + q_ec p <= bal (ms_bank st) CLP_MODULE a ->
  find_mtp st addr id = Some m -> on_pool a m ->
  0 <= m_cust_amt m <= bal (ms_bank st) CLP_MODULE (m_cust_asset m).
Proof.
  intros ((A1 & A2 & _ & _) & _ & _) Hw Hn Hnb Heb Bn Be Hf (Ha & Hon). split; [exact (Hn _ _ _ Hf)|].
  destruct Hon as [(H1 & H2)|(H1 & H2)].
  - (* custody in the pool's asset *)
    rewrite H2. pose proof (tot_ge_stored (g_ec a) st addr id m Hw) as Hle.
    assert (Hg : forall addr' id' m', find_mtp st addr' id' = Some m' -> 0 <= g_ec a m').
    { intros ? ? m' Hf'. unfold g_ec. destruct (_ =? _); [exact (Hn _ _ _ Hf')|lia]. }
    specialize (Hle Hg Hf). unfold g_ec in Hle at 1. rewrite H2, Z.eqb_refl in Hle. lia.
  - rewrite H1. pose proof (tot_ge_stored (g_nc a) st addr id m Hw) as Hle.
    assert (Hg : forall addr' id' m', find_mtp st addr' id' = Some m' -> 0 <= g_nc a m').
    { intros ? ? m' Hf'. unfold g_nc. destruct (_ =? _); [exact (Hn _ _ _ Hf')|lia]. }
    specialize (Hle Hg Hf). unfold g_nc in Hle at 1. rewrite H2, Z.eqb_refl in Hle. lia.
Qed.

(* the per-step side conditions follow from the invariant of the pass *)
Lemma steps_ok_of_inv2 a : forall ms st p, Inv2 a st p ms -> steps_ok a st p ms.
Proof.
  induction ms as [|[[addr id] m] rest IH]; intros st p HI; cbn [steps_ok]; [exact I|].
  destruct HI as (HL & Hw & Hn & Hnb & Heb & Bn & Be & Hep & Hpct & Hfm & Hnd & Hall).
  destruct (Hall addr id m (or_introl eq_refl)) as (Hf & Hon & Hid & Hmod).
  pose proof (custody_covered a st p addr id m HL Hw Hn Hnb Heb Bn Be Hf Hon) as Hfunds.
  split; [exact Hf|]. split; [exact Hon|]. split; [exact Hid|]. split; [exact Hep|]. split; [exact Hpct|]. split; [exact Hfunds|].
  destruct (process_mtp (mkCtx st p m a addr id)) as [c' o] eqn:E.
  apply IH.
  destruct (process_mtp_step a st p m addr id c' o E Hep HL Hf Hon Hid Hpct Hfunds) as [HL' _].
  pose proof (process_mtp_gap a st p m addr id c' o E Hep HL Hf Hon Hid Hpct Hfunds Hfm Hmod) as (G1 & G2 & G3 & _).
  pose proof (frames_process_mtp _ _ _ E) as (F1 & F2 & F3 & F4 & F5). cbn [c_s c_addr c_id c_asset] in *.
  destruct (F5 Hid Hw) as (_ & Hw' & Hfr).
  assert (Hgood : Good (mkCtx st p m a addr id)).
  { split; [exact Hid|]. split; [exact Hw|]. split; [exact (Hn _ _ _ Hf)|]. split; [exact Hnb|]. split; [exact Heb|exact Hn]. }
  destruct (kg_process_mtp _ _ _ E Hgood) as (_ & _ & (_ & Hnb' & Heb' & Hn')).
  unfold Gn, Ge in G1, G2. cbn [c_s c_pool c_asset] in G1, G2. rewrite G3 in G2. cbn [c_asset] in G2.
  cbn [map key_of] in Hnd. apply NoDup_cons_iff in Hnd. destruct Hnd as [Hnin Hnd'].
  split; [exact HL'|]. split; [exact Hw'|]. split; [exact Hn'|]. split; [exact Hnb'|]. split; [exact Heb'|].
  split; [lia|]. split; [lia|].
  split; [unfold epoch_position in *; rewrite F3, F4; exact Hep|].
  split; [unfold pct_ok in *; rewrite F3; exact Hpct|].
  split; [unfold funds_not_module in *; rewrite F3; exact Hfm|].
  split; [exact Hnd'|].
  intros addr' id' m' Hin. destruct (Hall addr' id' m' (or_intror Hin)) as (Hf' & Hon' & Hid' & Hmod').
  split; [|auto]. rewrite Hfr; [exact Hf'|].
  destruct (Z.eq_dec addr' addr) as [Ea|]; [|left; assumption]. destruct (Z.eq_dec id' id) as [Ei|]; [|right; assumption].
  exfalso. apply Hnin. rewrite <- Ea, <- Ei. change (addr', id') with (key_of (addr', id', m')). apply in_map. exact Hin.
Qed.

(* the positions listed at the start of the pass: each stored under its key, keys pairwise different *)
Lemma all_mtps_in s addr id m : mtps_wf s -> In (addr, id, m) (all_mtps s) -> find_mtp s addr id = Some m.
Proof.
  intros [Ho Hi] Hin. unfold all_mtps in Hin. apply in_concat in Hin. destruct Hin as (l & Hl & Hin).
  apply in_map_iff in Hl. destruct Hl as ([a inner] & <- & Ha). cbn [fst snd] in Hin.
  apply in_map_iff in Hin. destruct Hin as ([i m'] & E & Hi'). cbn [fst snd] in E. injection E as <- <- <-.
  unfold find_mtp, mtps_of. rewrite (in_get _ _ _ Ho Ha). apply in_get; [|exact Hi']. exact (proj1 (Forall_forall _ _) Hi _ Ha).
Qed.
Lemma sorted_keys_nodup' {V} lo (m : store V) : sorted_from lo m -> NoDup (map fst m) /\ forall k, In k (map fst m) -> lo < k.
Proof.
  revert lo. induction m as [|[k v] m IH]; intros lo Hs; [split; [constructor|intros k []]|]. cbn in Hs. destruct Hs as [H1 H2].
  destruct (IH k H2) as [N B]. cbn [map fst]. split.
  - constructor; [|exact N]. intros Hin. specialize (B k Hin). lia.
  - intros k' [<-|Hin]; [exact H1|]. specialize (B k' Hin). lia.
Qed.
Lemma nodup_app {A} (l1 l2 : list A) : NoDup l1 -> NoDup l2 -> (forall x, In x l1 -> ~ In x l2) -> NoDup (l1 ++ l2).
Proof.
  induction l1 as [|x l1 IH]; intros N1 N2 D; [exact N2|]. cbn [app]. inversion N1 as [|? ? Hx N1']; subst. constructor.
  - rewrite in_app_iff. intros [H|H]; [contradiction|]. exact (D x (or_introl eq_refl) H).
  - apply IH; [exact N1'|exact N2|]. intros y Hy. apply D. right; exact Hy.
Qed.
Lemma all_mtps_nodup s : mtps_wf s -> NoDup (map key_of (all_mtps s)).
Proof.
  intros [[lo Ho] Hi]. unfold all_mtps. revert lo Ho Hi. induction (ms_mtps s) as [|[a inner] rest IH]; intros lo Ho Hi; [constructor|].
  cbn [map concat fst snd]. rewrite map_app. cbn in Ho. destruct Ho as [H1 H2]. inversion Hi as [|? ? Hw Hi']; subst. cbn [snd] in Hw.
  apply nodup_app.
  - rewrite map_map. destruct Hw as [lo' Hs]. destruct (sorted_keys_nodup' lo' inner Hs) as [N _].
    clear - N. induction inner as [|[i m] inner IHi]; [constructor|]. cbn [map fst] in *. inversion N as [|? ? Hn N']; subst. constructor; [|apply IHi; exact N'].
    intros Hin. apply Hn. apply in_map_iff in Hin. destruct Hin as ([i' m'] & E & Hin). cbn in E. injection E as <-. apply in_map_iff. exists (i', m'). split; [reflexivity|exact Hin].
  - exact (IH a H2 Hi').
  - intros [a' i'] Hin1 Hin2. rewrite map_map in Hin1. apply in_map_iff in Hin1. destruct Hin1 as ([i m] & E & _). cbn in E. injection E as Ea Ei.
    apply in_map_iff in Hin2. destruct Hin2 as ([[a2 i2] m2] & E2 & Hin2). cbn in E2. injection E2 as Ea2 Ei2.
    apply in_concat in Hin2. destruct Hin2 as (l & Hl & Hin2). apply in_map_iff in Hl. destruct Hl as ([a3 inner3] & El & Ha3). subst l.
    apply in_map_iff in Hin2. destruct Hin2 as ([i3 m3] & E3 & _). cbn in E3. injection E3 as Ea3 _ _.
    destruct (sorted_keys_nodup' a rest H2) as [_ B]. specialize (B a3 ltac:(apply in_map_iff; exists (a3, inner3); split; [reflexivity|exact Ha3])). cbn in B. lia.
Qed.
Lemma nodup_map_filter {A B} (f : A -> B) (g : A -> bool) l : NoDup (map f l) -> NoDup (map f (filter g l)).
Proof.
  induction l as [|x l IH]; intros N; [constructor|]. cbn [map filter] in *. inversion N as [|? ? Hx N']; subst.
  destruct (g x); [|apply IH; exact N']. cbn [map]. constructor; [|apply IH; exact N'].
  intros Hin. apply Hx. apply in_map_iff in Hin. destruct Hin as (y & E & Hy). apply filter_In in Hy. apply in_map_iff. exists y. split; [exact E|exact (proj1 Hy)].
Qed.

(* what the pass relies on in the state it starts from *)
Definition BBReady (s : mstate) (asset : Z) (pool : mpool) : Prop :=
  mtps_wf s /\ stored_nonneg s /\ 0 <= q_nb pool /\ 0 <= q_eb pool /\
  q_nb pool + q_nc pool <= bal (ms_bank s) CLP_MODULE ROWAN /\ q_eb pool + q_ec pool <= bal (ms_bank s) CLP_MODULE asset /\
  epoch_position s = 0 /\ pct_ok s /\ funds_not_module s /\
  (forall addr id m, find_mtp s addr id = Some m -> id <> 0 /\ addr <> CLP_MODULE /\ on_pool (pool_asset_of m) m).

(* C13 for the begin blocker's whole pass over a pool: the sums invariant is kept and a position is liquidated only at or
   below the safety factor - with no condition on the intermediate states of the loop *)
Theorem begin_block_pool_full s asset pool new_rate s' closed :
  SumInv s -> get asset (ms_pools s) = Some pool -> asset <> ROWAN -> BBReady s asset pool ->
  begin_block_pool s asset pool new_rate = Ok (s', closed) ->
  SumInv s' /\ (forall addr id h, In (addr, id, h) closed -> exists st0, h <= mp_safety (ms_params st0)).
Proof.
  intros HS Hg Ha (Hw & Hn & Hnb & Heb & Bn & Be & Hep & Hpct & Hfm & Hpos) H.
  apply (begin_block_pool_preserves s asset pool new_rate s' closed HS Hg Ha H).
  apply steps_ok_of_inv2.
  destruct HS as (HP & HO). destruct new_rate as [[r rn] rd].
  set (s1 := bb_s1 s asset pool (r, rn, rd)). set (p1 := bb_p1 pool (r, rn, rd)).
  assert (Em : ms_mtps s1 = ms_mtps s) by reflexivity.
  assert (Ef : forall addr id, find_mtp s1 addr id = find_mtp s addr id) by (intros; reflexivity).
  split.
  { split; [|split].
    - eapply (pool_agrees_fields s s1 asset pool p1); try reflexivity. apply (HP _ _ Hg Ha).
    - intros a' p' Hne Hg' Hr. unfold s1, bb_s1 in Hg'. cbn -[get Store.set] in Hg'. rewrite get_set_other in Hg' by exact Hne.
      eapply pool_agrees_fields; [reflexivity|reflexivity|reflexivity|reflexivity|reflexivity|apply (HP _ _ Hg' Hr)].
    - exact HO. }
  split; [exact Hw|]. split; [exact Hn|]. split; [exact Hnb|]. split; [exact Heb|].
  split; [exact Bn|]. split; [exact Be|]. split; [exact Hep|]. split; [exact Hpct|]. split; [exact Hfm|].
  split.
  - unfold bb_list. apply nodup_map_filter. apply (all_mtps_nodup s Hw).
  - intros addr id m Hin. unfold bb_list in Hin. apply filter_In in Hin. destruct Hin as [Hin Hfl].
    pose proof (all_mtps_in s addr id m Hw Hin) as Hf. destruct (Hpos _ _ _ Hf) as (Hid & Hmod & Hon).
    split; [exact Hf|]. split; [|split; assumption].
    destruct Hon as (Hpa & Hcases). unfold pool_asset_of in *. split; [exact Ha|].
    apply orb_true_iff in Hfl. destruct Hcases as [(C1 & C2)|(C1 & C2)].
    + left. split; [exact C1|]. rewrite C1, Z.eqb_refl in *. destruct Hfl as [Hfl|Hfl]; apply Z.eqb_eq in Hfl; [exact Hfl|congruence].
    + right. split; [exact C1|]. destruct Hfl as [Hfl|Hfl]; apply Z.eqb_eq in Hfl; [congruence|exact Hfl].
Qed.

(* ---------- Part D: all pools of a block ---------- *)
(* a third property of the combinators: the pool store changes only by writes under the context's asset *)
Lemma set_set {V} k (v v' : V) (m : store V) : set k v (set k v' m) = set k v m.
Proof.
  induction m as [|[k' w] m IH]; cbn [set]; [rewrite Z.ltb_irrefl, Z.eqb_refl; reflexivity|].
  destruct (k' <? k) eqn:E1; cbn [set]; [rewrite E1, IH; reflexivity|].
  destruct (k' =? k) eqn:E2; cbn [set]; rewrite Z.ltb_irrefl, Z.eqb_refl; reflexivity.
Qed.
Definition PF (c c' : mctx) : Prop :=
  c_asset c' = c_asset c /\
  (ms_pools (c_s c') = ms_pools (c_s c) \/ exists p', ms_pools (c_s c') = set (c_asset c) p' (ms_pools (c_s c))).
Lemma PF_refl c : PF c c. Proof. split; [reflexivity|left; reflexivity]. Qed.
Lemma PF_trans c1 c2 c3 : PF c1 c2 -> PF c2 c3 -> PF c1 c3.
Proof.
  intros (A1 & A2) (B1 & B2). split; [congruence|]. rewrite A1 in B2.
  destruct A2 as [A2|(p1 & A2)]; destruct B2 as [B2|(p2 & B2)]; rewrite B2, A2; [left; reflexivity|right; eauto|right; eauto|right; exists p2; apply set_set].
Qed.
Definition pframes {A} (f : PM A) : Prop := forall c c' o, f c = (c', o) -> PF c c'.
Lemma pf_ret {A} (x : A) : pframes (ret x). Proof. intros c c' o H. unfold ret in H. injection H as <- _. apply PF_refl. Qed.
Lemma pf_lift {A} (x : Outcome A) : pframes (lift x). Proof. intros c c' o H. unfold lift in H. injection H as <- _. apply PF_refl. Qed.
Lemma pf_failM {A} : pframes (@failM A). Proof. apply pf_lift. Qed.
Lemma pf_getc : pframes getc. Proof. intros c c' o H. unfold getc in H. injection H as <- _. apply PF_refl. Qed.
Lemma pf_bind {A B} (m : PM A) (f : A -> PM B) : pframes m -> (forall a, pframes (f a)) -> pframes (bindP m f).
Proof.
  intros Hm Hf c c' o H. unfold bindP in H. destruct (m c) as [c1 o1] eqn:E. specialize (Hm _ _ _ E).
  destruct o1 as [a|e|]; [eapply PF_trans; [exact Hm|eapply Hf; exact H]|injection H as <- _; exact Hm|injection H as <- _; exact Hm].
Qed.
Lemma pf_if {A} (b : bool) (f g : PM A) : pframes f -> pframes g -> pframes (if b then f else g).
Proof. destruct b; auto. Qed.
Lemma pf_modc f : (forall c, PF c (f c)) -> pframes (modc f).
Proof. intros Hf c c' o H. unfold modc in H. injection H as <- _. apply Hf. Qed.
Lemma pf_upd_pool f : pframes (upd_pool f).
Proof.
  unfold upd_pool. apply pf_bind; [apply pf_getc|]. intros c0. apply pf_bind; [apply pf_lift|]. intros p.
  apply pf_modc. intros c. split; [reflexivity|left; reflexivity].
Qed.
Lemma pf_upd_mtp f : pframes (upd_mtp f).
Proof.
  unfold upd_mtp. apply pf_bind; [apply pf_getc|]. intros c0. apply pf_bind; [apply pf_lift|]. intros p.
  apply pf_modc. intros c. split; [reflexivity|left; reflexivity].
Qed.
Lemma pf_set_pool : pframes set_pool.
Proof. unfold set_pool. apply pf_modc. intros c. split; [reflexivity|right; exists (c_pool c); reflexivity]. Qed.
Lemma pf_set_mtp : pframes set_mtp.
Proof. unfold set_mtp. apply pf_modc. intros c. destruct (c_id c =? 0); (split; [reflexivity|left; reflexivity]). Qed.
Lemma pf_destroy_mtp : pframes destroy_mtp.
Proof.
  unfold destroy_mtp. apply pf_bind; [apply pf_getc|]. intros c0. destruct (find_mtp _ _ _); [|apply pf_failM].
  apply pf_modc. intros c. split; [reflexivity|left; reflexivity].
Qed.
Lemma pf_bank_send from to d x : pframes (bank_send from to d x).
Proof.
  unfold bank_send. apply pf_bind; [apply pf_getc|]. intros c0. destruct (send _ _ _ _ _); [|apply pf_failM].
  apply pf_modc. intros c. split; [reflexivity|left; reflexivity].
Qed.
Create HintDb pf discriminated.
#[export] Hint Resolve pf_ret pf_lift pf_failM pf_getc pf_upd_pool pf_upd_mtp pf_set_pool pf_set_mtp pf_destroy_mtp pf_bank_send : pf.
Ltac pf_step :=
  first
    [ solve [auto 1 with pf nocore]
    | simple apply @pf_bind; [|intro]
    | simple apply @pf_if
    | match goal with |- pframes (match ?x with _ => _ end) => destruct x; cbn beta iota zeta end ].
Ltac pf_auto := repeat pf_step.
Lemma pf_take_fund_payment amount asset pct fund : pframes (take_fund_payment amount asset pct fund).
Proof. unfold take_fund_payment. pf_auto. Qed.
#[export] Hint Resolve pf_take_fund_payment : pf.
Lemma pf_take_out_custody : pframes take_out_custody.
Proof. unfold take_out_custody. pf_auto. Qed.
#[export] Hint Resolve pf_take_out_custody : pf.
Lemma pf_incremental i : pframes (incremental_interest_payment i).
Proof. unfold incremental_interest_payment. pf_auto. Qed.
Lemma pf_handle_interest i : pframes (handle_interest_payment i).
Proof.
  unfold handle_interest_payment. apply pf_bind; [apply pf_getc|]. intros c0. destruct (mp_incr _); [|pf_auto].
  intros c c' o H. destruct (incremental_interest_payment i c) as [c1 o1] eqn:E. pose proof (pf_incremental i _ _ _ E) as F.
  destruct o1; injection H as <- _; exact F.
Qed.
#[export] Hint Resolve pf_handle_interest : pf.
Lemma pf_add_block_interest fin : pframes (add_block_interest fin).
Proof. unfold add_block_interest. pf_auto. Qed.
#[export] Hint Resolve pf_add_block_interest : pf.
Lemma pf_process_interest : pframes process_interest. Proof. unfold process_interest. pf_auto. Qed.
Lemma pf_repay r tf : pframes (repay r tf). Proof. unfold repay. pf_auto. Qed.
#[export] Hint Resolve pf_repay : pf.
Lemma pf_mid_epoch_interest : pframes mid_epoch_interest. Proof. unfold mid_epoch_interest. pf_auto. Qed.
#[export] Hint Resolve pf_mid_epoch_interest : pf.
Lemma pf_force_close adm tf : pframes (force_close_long adm tf). Proof. unfold force_close_long. pf_auto. Qed.
Theorem pf_process_mtp : pframes process_mtp.
Proof.
  intros c c' o H. unfold process_mtp in H.
  destruct (process_interest c) as [cA oA] eqn:EA. pose proof (pf_process_interest _ _ _ EA) as FA.
  destruct oA as [u|e|]; [|injection H as <- _; apply PF_refl|injection H as <- _; apply PF_refl].
  destruct (force_close_long false true cA) as [cF oF] eqn:EF. pose proof (pf_force_close _ _ _ _ _ EF) as FF.
  destruct oF as [r|e|]; injection H as <- _; [eapply PF_trans; eassumption|exact FA|apply PF_refl].
Qed.

(* one step of the pass, everything it keeps *)
Lemma inv2_step a st p addr id m rest c' o :
  Inv2 a st p ((addr, id, m) :: rest) -> process_mtp (mkCtx st p m a addr id) = (c', o) ->
  Inv2 a (c_s c') (c_pool c') rest /\ PF (mkCtx st p m a addr id) c' /\ gap_eq (mkCtx st p m a addr id) c' /\
  ms_params (c_s c') = ms_params st /\ ms_height (c_s c') = ms_height st.
Proof.
  intros (HL & Hw & Hn & Hnb & Heb & Bn & Be & Hep & Hpct & Hfm & Hnd & Hall) E.
  destruct (Hall addr id m (or_introl eq_refl)) as (Hf & Hon & Hid & Hmod).
  pose proof (custody_covered a st p addr id m HL Hw Hn Hnb Heb Bn Be Hf Hon) as Hfunds.
  destruct (process_mtp_step a st p m addr id c' o E Hep HL Hf Hon Hid Hpct Hfunds) as [HL' _].
  pose proof (process_mtp_gap a st p m addr id c' o E Hep HL Hf Hon Hid Hpct Hfunds Hfm Hmod) as HG.
  pose proof HG as (G1 & G2 & G3 & _).
  pose proof (frames_process_mtp _ _ _ E) as (F1 & F2 & F3 & F4 & F5). cbn [c_s c_addr c_id c_asset] in *.
  destruct (F5 Hid Hw) as (_ & Hw' & Hfr).
  assert (Hgood : Good (mkCtx st p m a addr id)).
  { split; [exact Hid|]. split; [exact Hw|]. split; [exact (Hn _ _ _ Hf)|]. split; [exact Hnb|]. split; [exact Heb|exact Hn]. }
  destruct (kg_process_mtp _ _ _ E Hgood) as (_ & _ & (_ & Hnb' & Heb' & Hn')).
  unfold Gn, Ge in G1, G2. cbn [c_s c_pool c_asset] in G1, G2. rewrite G3 in G2. cbn [c_asset] in G2.
  cbn [map key_of] in Hnd. apply NoDup_cons_iff in Hnd. destruct Hnd as [Hnin Hnd'].
  split; [|split; [exact (pf_process_mtp _ _ _ E)|split; [exact HG|split; [exact F3|exact F4]]]].
  split; [exact HL'|]. split; [exact Hw'|]. split; [exact Hn'|]. split; [exact Hnb'|]. split; [exact Heb'|].
  split; [lia|]. split; [lia|].
  split; [unfold epoch_position in *; rewrite F3, F4; exact Hep|].
  split; [unfold pct_ok in *; rewrite F3; exact Hpct|].
  split; [unfold funds_not_module in *; rewrite F3; exact Hfm|].
  split; [exact Hnd'|].
  intros addr' id' m' Hin. destruct (Hall addr' id' m' (or_intror Hin)) as (Hf' & Hon' & Hid' & Hmod').
  split; [|auto]. rewrite Hfr; [exact Hf'|].
  destruct (Z.eq_dec addr' addr) as [Ea|]; [|left; assumption]. destruct (Z.eq_dec id' id) as [Ei|]; [|right; assumption].
  exfalso. apply Hnin. rewrite <- Ea, <- Ei. change (addr', id') with (key_of (addr', id', m')). apply in_map. exact Hin.
Qed.

(* what the whole pass keeps, between its first and its last state *)
Definition pass_rel (a : Z) (st : mstate) (p : mpool) (st' : mstate) (p' : mpool) : Prop :=
  (ms_pools st' = ms_pools st \/ exists q, ms_pools st' = set a q (ms_pools st)) /\
  bal (ms_bank st') CLP_MODULE ROWAN - (q_nb p' + q_nc p') = bal (ms_bank st) CLP_MODULE ROWAN - (q_nb p + q_nc p) /\
  bal (ms_bank st') CLP_MODULE a - (q_eb p' + q_ec p') = bal (ms_bank st) CLP_MODULE a - (q_eb p + q_ec p) /\
  (forall d, d <> ROWAN -> d <> a -> bal (ms_bank st') CLP_MODULE d = bal (ms_bank st) CLP_MODULE d) /\
  ms_params st' = ms_params st /\ ms_height st' = ms_height st.

Lemma bb_loop_full a : forall ms st p closed st' p' closed',
  fold_left (bb_step a) ms (st, p, closed) = (st', p', closed') -> Inv2 a st p ms ->
  Inv2 a st' p' [] /\ pass_rel a st p st' p'.
Proof.
  induction ms as [|[[addr id] m] rest IH]; intros st p closed st' p' closed' H HI.
  - cbn in H. injection H as <- <- <-. split; [exact HI|]. unfold pass_rel. repeat split; auto.
  - cbn [fold_left] in H. unfold bb_step at 2 in H.
    destruct (process_mtp (mkCtx st p m a addr id)) as [c1 o1] eqn:E.
    destruct (inv2_step a st p addr id m rest c1 o1 HI E) as (HI1 & (P1 & P2) & (G1 & G2 & G3 & G4) & E3 & E4).
    destruct (IH _ _ _ _ _ _ H HI1) as (HIf & (Q1 & Q2 & Q3 & Q4 & Q5 & Q6)).
    split; [exact HIf|]. cbn [c_s c_pool c_asset] in *. unfold Gn, Ge in G1, G2. cbn [c_s c_pool c_asset] in G1, G2. rewrite G3 in G2. cbn [c_asset] in G2.
    unfold pass_rel. split.
    + destruct P2 as [P2|(q1 & P2)]; destruct Q1 as [Q1|(q2 & Q1)]; rewrite Q1, P2; [left; reflexivity|right; eauto|right; eauto|right; exists q2; apply set_set].
    + split; [lia|]. split; [lia|]. split; [intros d Hd1 Hd2; rewrite Q4 by assumption; apply G4; assumption|]. split; congruence.
Qed.

(* a fourth property: the stored positions keep their shape (non-zero id, owner other than the module account, exactly one
   native asset) *)
Definition shape (m : mtp) : Prop := on_pool (pool_asset_of m) m.
Definition stored_shape (s : mstate) : Prop :=
  forall addr id m, find_mtp s addr id = Some m -> id <> 0 /\ addr <> CLP_MODULE /\ shape m.
Definition SH (c : mctx) : Prop :=
  c_addr c <> CLP_MODULE /\ c_id c <> 0 /\ shape (c_mtp c) /\ mtps_wf (c_s c) /\ stored_shape (c_s c).
Definition keepsSH {A} (f : PM A) : Prop := forall c c' o, f c = (c', o) -> SH c -> SH c'.
Lemma sh_ret {A} (x : A) : keepsSH (ret x). Proof. intros c c' o H. unfold ret in H. injection H as <- _. auto. Qed.
Lemma sh_lift {A} (x : Outcome A) : keepsSH (lift x). Proof. intros c c' o H. unfold lift in H. injection H as <- _. auto. Qed.
Lemma sh_failM {A} : keepsSH (@failM A). Proof. apply sh_lift. Qed.
Lemma sh_getc : keepsSH getc. Proof. intros c c' o H. unfold getc in H. injection H as <- _. auto. Qed.
Lemma sh_bind {A B} (m : PM A) (f : A -> PM B) : keepsSH m -> (forall a, keepsSH (f a)) -> keepsSH (bindP m f).
Proof.
  intros Hm Hf c c' o H Hc. unfold bindP in H. destruct (m c) as [c1 o1] eqn:E. specialize (Hm _ _ _ E Hc).
  destruct o1 as [a|e|]; [eapply Hf; eassumption|injection H as <- _; exact Hm|injection H as <- _; exact Hm].
Qed.
Lemma sh_if {A} (b : bool) (f g : PM A) : keepsSH f -> keepsSH g -> keepsSH (if b then f else g).
Proof. destruct b; auto. Qed.
Lemma sh_modc f : (forall c, SH c -> SH (f c)) -> keepsSH (modc f).
Proof. intros Hf c c' o H. unfold modc in H. injection H as <- _. apply Hf. Qed.
Lemma sh_upd_pool f : keepsSH (upd_pool f).
Proof.
  unfold upd_pool. apply sh_bind; [apply sh_getc|]. intros c0. apply sh_bind; [apply sh_lift|]. intros p. apply sh_modc. intros c H. exact H.
Qed.
Lemma sh_upd_mtp f :
  (forall m m', f m = Ok m' -> m_coll_asset m' = m_coll_asset m /\ m_cust_asset m' = m_cust_asset m) -> keepsSH (upd_mtp f).
Proof.
  intros Hf c c' o H (H1 & H2 & H3 & H4 & H5). unfold upd_mtp in H. unfold bindP at 1 in H. cbn [getc] in H.
  unfold bindP in H. unfold lift in H. destruct (f (c_mtp c)) as [m'| |] eqn:E; [|injection H as <- _; exact (conj H1 (conj H2 (conj H3 (conj H4 H5))))..].
  unfold modc in H. injection H as <- _. destruct (Hf _ _ E) as [E1 E2]. split; [exact H1|]. split; [exact H2|]. split; [|split; assumption].
  cbn. unfold shape, on_pool, pool_asset_of in *. rewrite E1, E2. exact H3.
Qed.
Lemma sh_set_pool : keepsSH set_pool. Proof. unfold set_pool. apply sh_modc. intros c H. exact H. Qed.
Lemma sh_bank_send from to d x : keepsSH (bank_send from to d x).
Proof.
  unfold bank_send. apply sh_bind; [apply sh_getc|]. intros c0. destruct (send _ _ _ _ _); [|apply sh_failM]. apply sh_modc. intros c H. exact H.
Qed.
Lemma find_put_cases' s addr id m addr' id' m' :
  find_mtp (put_mtp s addr id m) addr' id' = Some m' -> (addr' = addr /\ id' = id /\ m' = m) \/ find_mtp s addr' id' = Some m'.
Proof.
  unfold find_mtp, put_mtp, mtps_of at 1. cbn. destruct (Z.eq_dec addr' addr) as [->|Hne].
  - rewrite get_set_same. destruct (Z.eq_dec id' id) as [->|Hni]; [rewrite get_set_same; intros [= <-]; auto|].
    rewrite get_set_other by exact Hni. auto.
  - rewrite get_set_other by exact Hne. auto.
Qed.
Lemma sh_set_mtp : keepsSH set_mtp.
Proof.
  unfold set_mtp. apply sh_modc. intros c (H1 & H2 & H3 & H4 & H5). destruct (Z.eqb_spec (c_id c) 0) as [E|E]; [contradiction|].
  split; [exact H1|]. split; [exact H2|]. split; [exact H3|]. split.
  - unfold put_mtp. apply mtps_wf_set; [exact H4|apply wf_set, mtps_of_wf; exact H4].
  - intros addr' id' m' Hf. cbn -[find_mtp put_mtp] in Hf. apply find_put_cases' in Hf. destruct Hf as [(-> & -> & ->)|Hf]; [|exact (H5 _ _ _ Hf)].
    split; [exact E|]. split; [exact H1|exact H3].
Qed.
Lemma sh_destroy_mtp : keepsSH destroy_mtp.
Proof.
  unfold destroy_mtp. apply sh_bind; [apply sh_getc|]. intros c0. destruct (find_mtp _ _ _); [|apply sh_failM].
  apply sh_modc. intros c (H1 & H2 & H3 & H4 & H5). split; [exact H1|]. split; [exact H2|]. split; [exact H3|]. split.
  - pose proof (mtps_wf_set (c_s c) (c_addr c) (del (c_id c) (mtps_of (c_s c) (c_addr c))) H4 (wf_del _ _ (mtps_of_wf _ _ H4))) as H.
    unfold mtps_wf in *. exact H.
  - intros addr' id' m' Hf. unfold find_mtp, mtps_of at 1 in Hf. cbn in Hf.
    destruct (Z.eq_dec addr' (c_addr c)) as [->|Hne].
    + rewrite get_set_same in Hf. apply get_del_some in Hf; [|apply mtps_of_wf; exact H4]. exact (H5 _ _ _ Hf).
    + rewrite get_set_other in Hf by exact Hne. exact (H5 _ _ _ Hf).
Qed.
Ltac assets_same :=
  let m := fresh "m" in let m' := fresh "m'" in let H := fresh "H" in
  intros m m' H;
  repeat match type of H with
         | (if ?b then _ else _) = Ok _ => destruct b
         | bind _ _ = Ok _ => apply bind_ok_inv in H; let a := fresh "a" in let E := fresh "E" in destruct H as (a & E & H)
         end;
  try (injection H as <-); split; reflexivity.
Create HintDb sh discriminated.
#[export] Hint Resolve sh_ret sh_lift sh_failM sh_getc sh_upd_pool sh_set_pool sh_set_mtp sh_destroy_mtp sh_bank_send : sh.
Ltac sh_step :=
  first
    [ solve [auto 1 with sh nocore]
    | simple apply @sh_upd_mtp; assets_same
    | simple apply @sh_bind; [|intro]
    | simple apply @sh_if
    | match goal with |- keepsSH (match ?x with _ => _ end) => destruct x; cbn beta iota zeta end ].
Ltac sh_auto := repeat sh_step.
Lemma sh_take_fund_payment amount asset pct fund : keepsSH (take_fund_payment amount asset pct fund).
Proof. unfold take_fund_payment. sh_auto. Qed.
#[export] Hint Resolve sh_take_fund_payment : sh.
Lemma sh_take_out_custody : keepsSH take_out_custody. Proof. unfold take_out_custody. sh_auto. Qed.
#[export] Hint Resolve sh_take_out_custody : sh.
Lemma sh_incremental i : keepsSH (incremental_interest_payment i). Proof. unfold incremental_interest_payment. sh_auto. Qed.
Lemma sh_handle_interest i : keepsSH (handle_interest_payment i).
Proof.
  unfold handle_interest_payment. apply sh_bind; [apply sh_getc|]. intros c0. destruct (mp_incr _); [|sh_auto].
  intros c c' o H Hs. destruct (incremental_interest_payment i c) as [c1 o1] eqn:E. pose proof (sh_incremental i _ _ _ E Hs) as F.
  destruct o1; injection H as <- _; exact F.
Qed.
#[export] Hint Resolve sh_handle_interest : sh.
Lemma sh_add_block_interest fin : keepsSH (add_block_interest fin). Proof. unfold add_block_interest. sh_auto. Qed.
#[export] Hint Resolve sh_add_block_interest : sh.
Lemma sh_process_interest : keepsSH process_interest. Proof. unfold process_interest. sh_auto. Qed.
Lemma sh_repay r tf : keepsSH (repay r tf). Proof. unfold repay. sh_auto. Qed.
#[export] Hint Resolve sh_repay : sh.
Lemma sh_mid_epoch_interest : keepsSH mid_epoch_interest. Proof. unfold mid_epoch_interest. sh_auto. Qed.
#[export] Hint Resolve sh_mid_epoch_interest : sh.
Lemma sh_force_close adm tf : keepsSH (force_close_long adm tf). Proof. unfold force_close_long. sh_auto. Qed.
Theorem sh_process_mtp : keepsSH process_mtp.
Proof.
  intros c c' o H Hs. unfold process_mtp in H.
  destruct (process_interest c) as [cA oA] eqn:EA. pose proof (sh_process_interest _ _ _ EA Hs) as FA.
  destruct oA as [u|e|]; [|injection H as <- _; exact Hs|injection H as <- _; exact Hs].
  destruct (force_close_long false true cA) as [cF oF] eqn:EF. pose proof (sh_force_close _ _ _ _ _ EF FA) as FF.
  destruct oF as [r|e|]; injection H as <- _; [exact FF|exact FA|exact Hs].
Qed.

Lemma on_pool_shape a m : on_pool a m -> shape m.
Proof.
  intros (Ha & [(H1 & H2)|(H1 & H2)]); unfold shape, on_pool, pool_asset_of; rewrite H1.
  - rewrite Z.eqb_refl, H2. split; [exact Ha|]. left. split; reflexivity.
  - rewrite H2. destruct (Z.eqb_spec a ROWAN); [contradiction|]. split; [exact Ha|]. right. split; first [reflexivity|assumption].
Qed.

Lemma loop_shape a : forall ms st p closed st' p' closed',
  fold_left (bb_step a) ms (st, p, closed) = (st', p', closed') -> Inv2 a st p ms -> stored_shape st -> stored_shape st'.
Proof.
  induction ms as [|[[addr id] m] rest IH]; intros st p closed st' p' closed' H HI Hs.
  - cbn in H. injection H as <- _ _. exact Hs.
  - cbn [fold_left] in H. unfold bb_step at 2 in H.
    destruct (process_mtp (mkCtx st p m a addr id)) as [c1 o1] eqn:E.
    destruct (inv2_step a st p addr id m rest c1 o1 HI E) as (HI1 & _).
    destruct HI as (_ & Hw & _ & _ & _ & _ & _ & _ & _ & _ & _ & Hall).
    destruct (Hall addr id m (or_introl eq_refl)) as (_ & Hon & Hid & Hmod).
    assert (Hsh : SH (mkCtx st p m a addr id)) by (split; [exact Hmod|split; [exact Hid|split; [exact (on_pool_shape _ _ Hon)|split; [exact Hw|exact Hs]]]]).
    destruct (sh_process_mtp _ _ _ E Hsh) as (_ & _ & _ & _ & Hs1).
    exact (IH _ _ _ _ _ _ H HI1 Hs1).
Qed.

(* ---------- the block: every pool in turn ---------- *)
Definition fnat (p : mpool) : Z := q_nb p + q_nc p.
Definition MReady (s : mstate) : Prop :=
  mtps_wf s /\ stored_nonneg s /\ stored_shape s /\ pct_ok s /\ funds_not_module s /\ wf (ms_pools s) /\
  (forall a p, get a (ms_pools s) = Some p -> a <> ROWAN /\ 0 <= q_nb p /\ 0 <= q_eb p /\ q_eb p + q_ec p <= bal (ms_bank s) CLP_MODULE a) /\
  sumf fnat (ms_pools s) <= bal (ms_bank s) CLP_MODULE ROWAN.

Lemma tot_nonneg_stored g s : mtps_wf s -> (forall addr id m, find_mtp s addr id = Some m -> 0 <= g m) -> 0 <= tot g s.
Proof.
  intros [Ho Hi] Hg. unfold tot. apply sumf_in_nonneg. intros [a inner] Hin. cbn [snd]. apply sumf_in_nonneg. intros [k v] Hk. cbn [snd].
  apply (Hg a k v). unfold find_mtp, mtps_of. rewrite (in_get _ _ _ Ho Hin). apply in_get; [|exact Hk]. exact (proj1 (Forall_forall _ _) Hi _ Hin).
Qed.

Lemma mready_bbready s a pool : SumInv s -> MReady s -> epoch_position s = 0 -> get a (ms_pools s) = Some pool -> BBReady s a pool.
Proof.
  intros (HP & _) (Hw & Hn & Hsh & Hpct & Hfm & Hwp & Hpools & Hsum) Hep Hg.
  destruct (Hpools _ _ Hg) as (Ha & Hnb & Heb & Hbe).
  split; [exact Hw|]. split; [exact Hn|]. split; [exact Hnb|]. split; [exact Heb|]. split.
  - (* the native side: the other pools' shares are non-negative *)
    assert (Hnn : forall kv, In kv (ms_pools s) -> 0 <= fnat (snd kv)).
    { intros [a' p'] Hin. cbn [snd]. pose proof (in_get _ _ _ Hwp Hin) as Hg'. destruct (Hpools _ _ Hg') as (Ha' & Hnb' & _).
      destruct (HP _ _ Hg' Ha') as (A1 & _). unfold fnat. rewrite A1.
      pose proof (tot_nonneg_stored (g_nc a') s Hw ltac:(intros ? ? m' Hf'; unfold g_nc; destruct (_ =? _); [exact (Hn _ _ _ Hf')|lia])). lia. }
    pose proof (sumf_in_le fnat (ms_pools s) (a, pool) Hnn (get_in _ _ _ Hg)) as Hle. cbn [snd] in Hle. unfold fnat in Hle at 1. lia.
  - split; [exact Hbe|]. split; [exact Hep|]. split; [exact Hpct|]. split; [exact Hfm|]. exact Hsh.
Qed.

Lemma inv2_start s asset pool new_rate :
  SumInv s -> get asset (ms_pools s) = Some pool -> asset <> ROWAN -> BBReady s asset pool ->
  Inv2 asset (bb_s1 s asset pool new_rate) (bb_p1 pool new_rate) (bb_list (bb_s1 s asset pool new_rate) asset).
Proof.
  intros (HP & HO) Hg Ha (Hw & Hn & Hnb & Heb & Bn & Be & Hep & Hpct & Hfm & Hpos). destruct new_rate as [[r rn] rd].
  set (s1 := bb_s1 s asset pool (r, rn, rd)). set (p1 := bb_p1 pool (r, rn, rd)).
  split.
  { split; [|split].
    - eapply (pool_agrees_fields s s1 asset pool p1); try reflexivity. apply (HP _ _ Hg Ha).
    - intros a' p' Hne Hg' Hr. unfold s1, bb_s1 in Hg'. cbn -[get Store.set] in Hg'. rewrite get_set_other in Hg' by exact Hne.
      eapply pool_agrees_fields; [reflexivity|reflexivity|reflexivity|reflexivity|reflexivity|apply (HP _ _ Hg' Hr)].
    - exact HO. }
  split; [exact Hw|]. split; [exact Hn|]. split; [exact Hnb|]. split; [exact Heb|].
  split; [exact Bn|]. split; [exact Be|]. split; [exact Hep|]. split; [exact Hpct|]. split; [exact Hfm|].
  split.
  - unfold bb_list. apply nodup_map_filter. apply (all_mtps_nodup s Hw).
  - intros addr id m Hin. unfold bb_list in Hin. apply filter_In in Hin. destruct Hin as [Hin Hfl].
    pose proof (all_mtps_in s addr id m Hw Hin) as Hf. destruct (Hpos _ _ _ Hf) as (Hid & Hmod & Hon).
    split; [exact Hf|]. split; [|split; assumption].
    destruct Hon as (Hpa & Hcases). unfold pool_asset_of in *. split; [exact Ha|].
    apply orb_true_iff in Hfl. destruct Hcases as [(C1 & C2)|(C1 & C2)].
    + left. split; [exact C1|]. rewrite C1, Z.eqb_refl in *. destruct Hfl as [Hfl|Hfl]; apply Z.eqb_eq in Hfl; [exact Hfl|congruence].
    + right. split; [exact C1|]. destruct Hfl as [Hfl|Hfl]; apply Z.eqb_eq in Hfl; [congruence|exact Hfl].
Qed.

(* one pool's pass hands the next pool's pass what it needs *)
Theorem begin_block_pool_ready s a pool new_rate s' closed :
  SumInv s -> MReady s -> epoch_position s = 0 -> get a (ms_pools s) = Some pool ->
  begin_block_pool s a pool new_rate = Ok (s', closed) ->
  SumInv s' /\ MReady s' /\ epoch_position s' = 0 /\
  (forall addr id h, In (addr, id, h) closed -> exists st0, h <= mp_safety (ms_params st0)).
Proof.
  intros HS HM Hep Hg H.
  pose proof (mready_bbready s a pool HS HM Hep Hg) as HB.
  destruct HM as (Hw & Hn & Hsh & Hpct & Hfm & Hwp & Hpools & Hsum).
  destruct (Hpools _ _ Hg) as (Ha & Hnb & Heb & Hbe).
  destruct (begin_block_pool_full s a pool new_rate s' closed HS Hg Ha HB H) as [HS' Hcl].
  split; [exact HS'|]. split; [|split; [|exact Hcl]].
  2:{ unfold begin_block_pool in H. destruct (negb (mem a (mp_pools (ms_params s)))); [injection H as <- _; exact Hep|].
      destruct ((q_nb (pool <| q_bin := 0 |> <| q_bie := 0 |>) =? 0) || (q_eb (pool <| q_bin := 0 |> <| q_bie := 0 |>) =? 0)); [injection H as <- _; exact Hep|].
      destruct new_rate as [[r rn] rd].
      match type of H with context [fold_left ?f ?l ?i] => destruct (fold_left f l i) as [[s2 p2] cl] eqn:EF end. injection H as <- _.
      pose proof (inv2_start s a pool (r, rn, rd) HS Hg Ha HB) as HI.
      change (fold_left _ _ _) with (fold_left (bb_step a) (bb_list (bb_s1 s a pool (r, rn, rd)) a) (bb_s1 s a pool (r, rn, rd), bb_p1 pool (r, rn, rd), [])) in EF.
      destruct (bb_loop_full a _ _ _ _ _ _ _ EF HI) as (_ & (_ & _ & _ & _ & E5 & E6)).
      unfold epoch_position in *. cbn [ms_params ms_height]. change (ms_params (s2 <| ms_pools := set a p2 (ms_pools s2) |>)) with (ms_params s2).
      change (ms_height (s2 <| ms_pools := set a p2 (ms_pools s2) |>)) with (ms_height s2). rewrite E5, E6. exact Hep. }
  unfold begin_block_pool in H. destruct (negb (mem a (mp_pools (ms_params s)))).
  - (* not enabled for margin: only the block interest fields are reset *)
    injection H as <- _. set (p0 := pool <| q_bin := 0 |> <| q_bie := 0 |>).
    split; [exact Hw|]. split; [exact Hn|]. split; [exact Hsh|]. split; [exact Hpct|]. split; [exact Hfm|].
    split; [cbn; apply wf_set; exact Hwp|]. split.
    + intros a' p' Hg'. cbn -[get Store.set] in Hg'. destruct (Z.eq_dec a' a) as [->|Hne].
      * rewrite get_set_same in Hg'. injection Hg' as <-. split; [exact Ha|]. split; [exact Hnb|]. split; [exact Heb|exact Hbe].
      * rewrite get_set_other in Hg' by exact Hne. exact (Hpools _ _ Hg').
    + cbn -[sumf Store.set]. rewrite sumf_set, Hg. cbn [fopt]. unfold fnat in *. cbn. lia.
  - destruct ((q_nb (pool <| q_bin := 0 |> <| q_bie := 0 |>) =? 0) || (q_eb (pool <| q_bin := 0 |> <| q_bie := 0 |>) =? 0)).
    + injection H as <- _. exact (conj Hw (conj Hn (conj Hsh (conj Hpct (conj Hfm (conj Hwp (conj Hpools Hsum))))))).
    + destruct new_rate as [[r rn] rd].
      match type of H with context [fold_left ?f ?l ?i] => destruct (fold_left f l i) as [[s2 p2] cl] eqn:EF end. injection H as <- _.
      pose proof (inv2_start s a pool (r, rn, rd) HS Hg Ha HB) as HI.
      change (fold_left _ _ _) with (fold_left (bb_step a) (bb_list (bb_s1 s a pool (r, rn, rd)) a) (bb_s1 s a pool (r, rn, rd), bb_p1 pool (r, rn, rd), [])) in EF.
      pose proof (loop_shape a _ _ _ _ _ _ _ EF HI Hsh) as Hsh2.
      destruct (bb_loop_full a _ _ _ _ _ _ _ EF HI) as (HIf & (Q1 & Q2 & Q3 & Q4 & Q5 & Q6)).
      destruct HIf as (_ & Hw2 & Hn2 & Hnb2 & Heb2 & Bn2 & Be2 & _ & Hpct2 & Hfm2 & _ & _).
      assert (Epools : set a p2 (ms_pools s2) = set a p2 (ms_pools s)).
      { destruct Q1 as [Q1|(q & Q1)]; rewrite Q1; unfold bb_s1; cbn -[Store.set]; rewrite ?set_set; reflexivity. }
      split; [exact Hw2|]. split; [exact Hn2|]. split; [exact Hsh2|]. split; [exact Hpct2|]. split; [exact Hfm2|].
      cbn -[sumf get Store.set fnat]. rewrite Epools.
      split; [apply wf_set; exact Hwp|]. split.
      * intros a' p' Hg'. destruct (Z.eq_dec a' a) as [->|Hne].
        -- rewrite get_set_same in Hg'. injection Hg' as <-. split; [exact Ha|]. split; [exact Hnb2|]. split; [exact Heb2|exact Be2].
        -- rewrite get_set_other in Hg' by exact Hne. destruct (Hpools _ _ Hg') as (Ha' & B1 & B2 & B3).
           split; [exact Ha'|]. split; [exact B1|]. split; [exact B2|]. rewrite (Q4 a' Ha' Hne). exact B3.
      * rewrite sumf_set, Hg. cbn [fopt]. unfold fnat in *. cbn [bb_s1 bb_p1 ms_bank q_nb q_nc] in Q2. cbn in Q2. lia.
Qed.

Lemma begin_block_pools_ready : forall assets s rates closed0 s' closed,
  SumInv s -> MReady s -> epoch_position s = 0 ->
  (forall addr id h, In (addr, id, h) closed0 -> exists st0, h <= mp_safety (ms_params st0)) ->
  begin_block_pools s assets rates closed0 = Ok (s', closed) ->
  SumInv s' /\ MReady s' /\ (forall addr id h, In (addr, id, h) closed -> exists st0, h <= mp_safety (ms_params st0)).
Proof.
  induction assets as [|a rest IH]; intros s rates closed0 s' closed HS HM Hep Hc H; cbn [begin_block_pools] in H.
  - injection H as <- <-. auto.
  - destruct (get a (ms_pools s)) as [p|] eqn:Hg; [|eapply IH; eassumption].
    destruct (begin_block_pool s a p (hd (0, 0, 1) rates)) as [[s1 cl1]| |] eqn:E; cbn [bind] in H; try discriminate.
    destruct (begin_block_pool_ready s a p _ s1 cl1 HS HM Hep Hg E) as (HS1 & HM1 & Hep1 & Hc1).
    cbn [fst snd] in H. eapply (IH s1 (tl rates) (closed0 ++ cl1)); try eassumption.
    intros addr id h Hin. apply in_app_or in Hin. destruct Hin as [Hin|Hin]; [exact (Hc _ _ _ Hin)|exact (Hc1 _ _ _ Hin)].
Qed.

(* C13, the margin begin blocker as a whole: at an epoch boundary every margin-enabled pool is passed over in turn; the sums
   invariant holds afterwards, the state is again ready for the next block's pass, and every liquidated position's health
   was at or below the safety factor. Outside epoch boundaries nothing happens. *)
Theorem begin_block_margin_full s rates s' closed :
  SumInv s -> MReady s -> begin_block_margin s rates = Ok (s', closed) ->
  SumInv s' /\ MReady s' /\ (forall addr id h, In (addr, id, h) closed -> exists st0, h <= mp_safety (ms_params st0)).
Proof.
  intros HS HM H. unfold begin_block_margin in H. destruct (Z.eqb_spec (epoch_position s) 0) as [Hep|_].
  - eapply begin_block_pools_ready; try eassumption. intros ? ? ? [].
  - injection H as <- <-. split; [exact HS|]. split; [exact HM|]. intros ? ? ? [].
Qed.

(* ---------- C01 for the margin begin blocker as a whole ---------- *)
(* what the module account holds beyond what the pools record: natively over all pools, and per pool in its own token *)
Definition gapN (s : mstate) : Z := bal (ms_bank s) CLP_MODULE ROWAN - sumf fnat (ms_pools s).
Definition gapE (s : mstate) (a : Z) : Z :=
  bal (ms_bank s) CLP_MODULE a - match get a (ms_pools s) with Some p => q_eb p + q_ec p | None => 0 end.

Theorem begin_block_pool_gap s a pool new_rate s' closed :
  SumInv s -> MReady s -> epoch_position s = 0 -> get a (ms_pools s) = Some pool ->
  begin_block_pool s a pool new_rate = Ok (s', closed) ->
  gapN s' = gapN s /\ (forall a', a' <> ROWAN -> gapE s' a' = gapE s a').
Proof.
  intros HS HM Hep Hg H.
  pose proof (mready_bbready s a pool HS HM Hep Hg) as HB.
  destruct HM as (Hw & Hn & Hsh & Hpct & Hfm & Hwp & Hpools & Hsum).
  destruct (Hpools _ _ Hg) as (Ha & Hnb & Heb & Hbe).
  unfold begin_block_pool in H. destruct (negb (mem a (mp_pools (ms_params s)))).
  - injection H as <- _. unfold gapN, gapE. cbn -[sumf get Store.set fnat]. split.
    + rewrite sumf_set, Hg. cbn [fopt]. unfold fnat. cbn. lia.
    + intros a' Hr. destruct (Z.eq_dec a' a) as [->|Hne]; [rewrite get_set_same, Hg; cbn; lia|rewrite get_set_other by exact Hne; reflexivity].
  - destruct ((q_nb (pool <| q_bin := 0 |> <| q_bie := 0 |>) =? 0) || (q_eb (pool <| q_bin := 0 |> <| q_bie := 0 |>) =? 0)); [injection H as <- _; split; [reflexivity|intros; reflexivity]|].
    destruct new_rate as [[r rn] rd].
    match type of H with context [fold_left ?f ?l ?i] => destruct (fold_left f l i) as [[s2 p2] cl] eqn:EF end. injection H as <- _.
    pose proof (inv2_start s a pool (r, rn, rd) HS Hg Ha HB) as HI.
    change (fold_left _ _ _) with (fold_left (bb_step a) (bb_list (bb_s1 s a pool (r, rn, rd)) a) (bb_s1 s a pool (r, rn, rd), bb_p1 pool (r, rn, rd), [])) in EF.
    destruct (bb_loop_full a _ _ _ _ _ _ _ EF HI) as (_ & (Q1 & Q2 & Q3 & Q4 & _ & _)).
    assert (Epools : set a p2 (ms_pools s2) = set a p2 (ms_pools s)).
    { destruct Q1 as [Q1|(q & Q1)]; rewrite Q1; unfold bb_s1; cbn -[Store.set]; rewrite ?set_set; reflexivity. }
    unfold gapN, gapE. cbn -[sumf get Store.set fnat]. rewrite Epools.
    cbn [bb_s1 bb_p1 ms_bank q_nb q_nc q_eb q_ec] in Q2, Q3. cbn in Q2, Q3. split.
    + rewrite sumf_set, Hg. cbn [fopt]. unfold fnat. lia.
    + intros a' Hr. destruct (Z.eq_dec a' a) as [->|Hne].
      * rewrite get_set_same, Hg. lia.
      * rewrite get_set_other by exact Hne. rewrite (Q4 a' Hr Hne). reflexivity.
Qed.

Lemma begin_block_pools_gap : forall assets s rates closed0 s' closed,
  SumInv s -> MReady s -> epoch_position s = 0 -> begin_block_pools s assets rates closed0 = Ok (s', closed) ->
  gapN s' = gapN s /\ (forall a', a' <> ROWAN -> gapE s' a' = gapE s a').
Proof.
  induction assets as [|a rest IH]; intros s rates closed0 s' closed HS HM Hep H; cbn [begin_block_pools] in H.
  - injection H as <- _. split; [reflexivity|intros; reflexivity].
  - destruct (get a (ms_pools s)) as [p|] eqn:Hg; [|eapply IH; eassumption].
    destruct (begin_block_pool s a p (hd (0, 0, 1) rates)) as [[s1 cl1]| |] eqn:E; cbn [bind] in H; try discriminate.
    destruct (begin_block_pool_ready s a p _ s1 cl1 HS HM Hep Hg E) as (HS1 & HM1 & Hep1 & _).
    destruct (begin_block_pool_gap s a p _ s1 cl1 HS HM Hep Hg E) as (G1 & G2).
    cbn [fst snd] in H. destruct (IH s1 _ _ _ _ HS1 HM1 Hep1 H) as (G3 & G4).
    split; [congruence|]. intros a' Hr. rewrite (G4 a' Hr). apply G2. exact Hr.
Qed.

(* C01: the whole margin begin blocker (interest payments to the fund, liquidations with their payouts, every pool) leaves
   what the module account holds beyond the pools' records unchanged, natively and in every pool's token *)
Theorem begin_block_margin_gap s rates s' closed :
  SumInv s -> MReady s -> begin_block_margin s rates = Ok (s', closed) ->
  gapN s' = gapN s /\ (forall a', a' <> ROWAN -> gapE s' a' = gapE s a').
Proof.
  intros HS HM H. unfold begin_block_margin in H. destruct (Z.eqb_spec (epoch_position s) 0) as [Hep|_].
  - eapply begin_block_pools_gap; eassumption.
  - injection H as <- _. split; [reflexivity|intros; reflexivity].
Qed.
