(* C13: positions agree with pool totals; liquidation only when unhealthy. *)
From Coq Require Import ZArith Lia Bool List QArith.
From RecordUpdate Require Import RecordUpdate.
From Sif Require Import Base.Outcome Base.SdkMath Base.Store Base.Bank Model.ClpCalc Model.Margin Proofs.SdkMathProofs Proofs.PayoutProofs Proofs.NoFreeValue
  Proofs.BankProofs Proofs.ClpInv.
Import ListNotations.
Local Open Scope Z_scope.

(* ---------- inversion of the context monad ---------- *)
Lemma bindP_ok {A B} (m : PM A) (f : A -> PM B) c c' b :
  bindP m f c = (c', Ok b) -> exists c1 a, m c = (c1, Ok a) /\ f a c1 = (c', Ok b).
Proof.
  unfold bindP. destruct (m c) as [c1 o]. destruct o; intros H; try (inversion H; fail). eauto.
Qed.

Lemma lift_ok {A} (o : Outcome A) c c' a : lift o c = (c', Ok a) -> c' = c /\ o = Ok a.
Proof. unfold lift. intros [= <- ->]. auto. Qed.
Lemma ret_ok {A} (x : A) c c' a : ret x c = (c', Ok a) -> c' = c /\ a = x.
Proof. unfold ret. intros [= <- <-]. auto. Qed.
Lemma getc_ok c c' a : getc c = (c', Ok a) -> c' = c /\ a = c.
Proof. unfold getc. intros [= <- <-]. auto. Qed.
Lemma modc_ok f c c' a : modc f c = (c', Ok a) -> c' = f c.
Proof. unfold modc. intros [= <- _]. reflexivity. Qed.
Lemma failM_not_ok {A} c c' (a : A) : failM c = (c', Ok a) -> False.
Proof. unfold failM, lift. intros H. inversion H. Qed.

(* one step of a bind chain *)
Ltac pmg H := unfold bindP at 1 in H; cbn [getc] in H.
Tactic Notation "pm" hyp(H) "as" ident(c1) ident(a) ident(E) :=
  apply bindP_ok in H; destruct H as (c1 & a & E & H).

Lemma upd_pool_ok f c c' a : upd_pool f c = (c', Ok a) -> exists p, f (c_pool c) = Ok p /\ c' = c <| c_pool := p |>.
Proof.
  unfold upd_pool. intros H. unfold bindP at 1 in H. cbn [getc] in H.
  apply bindP_ok in H. destruct H as (c1 & p & E & H). apply lift_ok in E. destruct E as (-> & E).
  apply modc_ok in H. eauto.
Qed.
Lemma upd_mtp_ok f c c' a : upd_mtp f c = (c', Ok a) -> exists m, f (c_mtp c) = Ok m /\ c' = c <| c_mtp := m |>.
Proof.
  unfold upd_mtp. intros H. unfold bindP at 1 in H. cbn [getc] in H.
  apply bindP_ok in H. destruct H as (c1 & p & E & H). apply lift_ok in E. destruct E as (-> & E).
  apply modc_ok in H. eauto.
Qed.
Lemma set_pool_ok c c' a : set_pool c = (c', Ok a) ->
  c' = c <| c_s := (c_s c) <| ms_pools := set (c_asset c) (c_pool c) (ms_pools (c_s c)) |> |>.
Proof. unfold set_pool. intros H. apply modc_ok in H. exact H. Qed.
Lemma bank_send_ok from to d x c c' a : bank_send from to d x c = (c', Ok a) ->
  exists b, send (ms_bank (c_s c)) from to d x = Some b /\ c' = c <| c_s := (c_s c) <| ms_bank := b |> |>.
Proof.
  unfold bank_send. intros H. unfold bindP at 1 in H. cbn [getc] in H.
  destruct (send _ _ _ _ _) as [b|]; [|exfalso; eapply failM_not_ok; eassumption].
  apply modc_ok in H. eauto.
Qed.

(* ---------- sums over the nested position store ---------- *)
Section Tot.
Variable g : mtp -> Z.
Definition tot (s : mstate) : Z := sumf (sumf g) (ms_mtps s).
Definition gopt (o : option mtp) : Z := match o with Some m => g m | None => 0 end.

Lemma tot_put s addr id m : tot (put_mtp s addr id m) = tot s - gopt (find_mtp s addr id) + g m.
Proof.
  unfold tot, put_mtp, find_mtp, mtps_of. cbn -[sumf Store.set get]. rewrite sumf_set.
  destruct (get addr (ms_mtps s)) as [inner|] eqn:E; cbn [fopt].
  - rewrite sumf_set. unfold fopt, gopt. destruct (get id inner); lia.
  - cbn. unfold gopt. lia.
Qed.

Lemma tot_del s addr id :
  tot (s <| ms_mtps := set addr (del id (mtps_of s addr)) (ms_mtps s) |>) = tot s - gopt (find_mtp s addr id).
Proof.
  unfold tot, find_mtp, mtps_of. cbn -[sumf Store.set get del]. rewrite sumf_set.
  destruct (get addr (ms_mtps s)) as [inner|] eqn:E; cbn [fopt].
  - rewrite sumf_del. unfold fopt, gopt. destruct (get id inner); lia.
  - cbn. unfold gopt. lia.
Qed.
End Tot.

(* per-asset contributions of a position to the four pool totals (asset a <> ROWAN) *)
Definition g_nc (a : Z) (m : mtp) : Z := if m_coll_asset m =? a then m_cust_amt m else 0.
Definition g_ec (a : Z) (m : mtp) : Z := if m_cust_asset m =? a then m_cust_amt m else 0.
Definition g_nl (a : Z) (m : mtp) : Z := if m_cust_asset m =? a then m_liab m else 0.
Definition g_el (a : Z) (m : mtp) : Z := if m_coll_asset m =? a then m_liab m else 0.
Definition g_one (m : mtp) : Z := 1.

(* a position lives on exactly one pool: one of its assets is the native token, the other the pool's *)
Definition on_pool (a : Z) (m : mtp) : Prop :=
  a <> ROWAN /\ ((m_coll_asset m = ROWAN /\ m_cust_asset m = a) \/ (m_cust_asset m = ROWAN /\ m_coll_asset m = a)).

Definition pool_agrees (s : mstate) (a : Z) (p : mpool) : Prop :=
  q_nc p = tot (g_nc a) s /\ q_ec p = tot (g_ec a) s /\ q_nl p = tot (g_nl a) s /\ q_el p = tot (g_el a) s.

(* the state invariant of C13 *)
Definition MInv (s : mstate) : Prop :=
  (forall a p, get a (ms_pools s) = Some p -> a <> ROWAN /\ pool_agrees s a p) /\
  ms_open s = tot g_one s /\
  (forall addr id m, find_mtp s addr id = Some m -> 0 < id <= ms_count s /\ on_pool (pool_asset_of m) m /\
       exists p, get (pool_asset_of m) (ms_pools s) = Some p).

(* ---------- the link between the in-memory pool, the in-memory position and the stored positions ---------- *)
Definition others (g : mtp -> Z) (c : mctx) : Z := tot g (c_s c) - gopt g (find_mtp (c_s c) (c_addr c) (c_id c)).

(* cu / li: is the in-memory position's custody / are its liabilities currently booked on the in-memory pool *)
Definition Link (cu li : bool) (c : mctx) : Prop :=
  let a := c_asset c in let P := c_pool c in let M := c_mtp c in
  q_nc P = others (g_nc a) c + (if cu then g_nc a M else 0) /\
  q_ec P = others (g_ec a) c + (if cu then g_ec a M else 0) /\
  q_nl P = others (g_nl a) c + (if li then g_nl a M else 0) /\
  q_el P = others (g_el a) c + (if li then g_el a M else 0).

(* what Link looks at: the four pool totals, and the rest (position core, key, stored positions) *)
Definition pool4_eq (c c' : mctx) : Prop :=
  q_nc (c_pool c') = q_nc (c_pool c) /\ q_ec (c_pool c') = q_ec (c_pool c) /\
  q_nl (c_pool c') = q_nl (c_pool c) /\ q_el (c_pool c') = q_el (c_pool c).
Definition mcore_eq (c c' : mctx) : Prop :=
  m_coll_asset (c_mtp c') = m_coll_asset (c_mtp c) /\ m_cust_asset (c_mtp c') = m_cust_asset (c_mtp c) /\
  m_cust_amt (c_mtp c') = m_cust_amt (c_mtp c) /\ m_liab (c_mtp c') = m_liab (c_mtp c) /\
  c_asset c' = c_asset c /\ c_addr c' = c_addr c /\ c_id c' = c_id c /\
  ms_mtps (c_s c') = ms_mtps (c_s c) /\ ms_open (c_s c') = ms_open (c_s c) /\ ms_count (c_s c') = ms_count (c_s c) /\
  ms_params (c_s c') = ms_params (c_s c) /\ ms_height (c_s c') = ms_height (c_s c) /\
  (forall a', a' <> c_asset c -> get a' (ms_pools (c_s c')) = get a' (ms_pools (c_s c))).
Definition core_eq (c c' : mctx) : Prop := pool4_eq c c' /\ mcore_eq c c'.

Lemma mcore_eq_refl c : mcore_eq c c.
Proof. unfold mcore_eq. repeat split; reflexivity. Qed.
Lemma mcore_eq_trans c1 c2 c3 : mcore_eq c1 c2 -> mcore_eq c2 c3 -> mcore_eq c1 c3.
Proof.
  unfold mcore_eq. intros (A1&A2&A3&A4&A5&A6&A7&A8&A9&A10&A11&A12&A13) (B1&B2&B3&B4&B5&B6&B7&B8&B9&B10&B11&B12&B13).
  repeat split; try congruence. intros a' Ha. rewrite B13 by congruence. apply A13. exact Ha.
Qed.
Lemma core_eq_refl c : core_eq c c.
Proof. unfold core_eq, pool4_eq. split; [repeat split; reflexivity|apply mcore_eq_refl]. Qed.
Lemma core_eq_trans c1 c2 c3 : core_eq c1 c2 -> core_eq c2 c3 -> core_eq c1 c3.
Proof. unfold core_eq, pool4_eq. intros (P1 & M1) (P2 & M2). split; [intuition congruence|eapply mcore_eq_trans; eassumption]. Qed.

Lemma tot_core g s s' : ms_mtps s' = ms_mtps s -> tot g s' = tot g s.
Proof. unfold tot. intros ->. reflexivity. Qed.
Lemma find_core s s' addr id : ms_mtps s' = ms_mtps s -> find_mtp s' addr id = find_mtp s addr id.
Proof. unfold find_mtp, mtps_of. intros ->. reflexivity. Qed.

Lemma others_core g c c' : mcore_eq c c' -> others g c' = others g c.
Proof.
  unfold mcore_eq, others. intros (_&_&_&_&_&Ha&Hi&Hm&_).
  rewrite (tot_core g _ _ Hm), (find_core _ _ _ _ Hm), Ha, Hi. reflexivity.
Qed.

Lemma Link_core cu li c c' : core_eq c c' -> Link cu li c -> Link cu li c'.
Proof.
  intros (HP & H) L. pose proof HP as (E1&E2&E3&E4). pose proof H as (E5&E6&E7&E8&E9&_).
  unfold Link in *. rewrite !(others_core _ _ _ H), E1, E2, E3, E4, E9.
  unfold g_nc, g_ec, g_nl, g_el in *. rewrite E5, E6, E7, E8. exact L.
Qed.

(* primitives that leave the core alone *)
Lemma set_pool_core c c' a : set_pool c = (c', Ok a) -> core_eq c c'.
Proof.
  intros H. apply set_pool_ok in H. subst. unfold core_eq, pool4_eq, mcore_eq. cbn -[get Store.set]. repeat split; try reflexivity.
  intros a' Ha. apply get_set_other. exact Ha.
Qed.
Lemma bank_send_core from to d x c c' a : bank_send from to d x c = (c', Ok a) -> core_eq c c'.
Proof. intros H. apply bank_send_ok in H. destruct H as (b & _ & ->). unfold core_eq, pool4_eq, mcore_eq. cbn. repeat split; reflexivity. Qed.

Lemma take_fund_payment_core amount asset pct fund c c' t :
  take_fund_payment amount asset pct fund c = (c', Ok t) -> core_eq c c'.
Proof.
  unfold take_fund_payment. intros H. pm H as c1 tk E1. apply lift_ok in E1. destruct E1 as (-> & _).
  pm H as c2 u E2. apply ret_ok in H. destruct H as (-> & _).
  destruct (tk =? 0).
  - apply ret_ok in E2. destruct E2 as (-> & _). apply core_eq_refl.
  - eapply bank_send_core; eassumption.
Qed.

Ltac uints := repeat match goal with
  | H : uint_add _ _ = Ok _ |- _ => apply uint_add_ok in H; destruct H
  | H : uint_sub _ _ = Ok _ |- _ => apply uint_sub_ok in H; destruct H
  | H : ck_uint _ = Ok _ |- _ => apply ck_uint_ok in H; destruct H
  end.

Lemma gs_on_pool a m : on_pool a m ->
  (m_cust_asset m = ROWAN /\ g_nc a m = m_cust_amt m /\ g_ec a m = 0 /\ g_nl a m = 0 /\ g_el a m = m_liab m) \/
  (m_cust_asset m <> ROWAN /\ g_nc a m = 0 /\ g_ec a m = m_cust_amt m /\ g_nl a m = m_liab m /\ g_el a m = 0).
Proof.
  intros (Ha & [(Hc & Hu)|(Hu & Hc)]); unfold g_nc, g_ec, g_nl, g_el; rewrite Hc, Hu.
  - right. rewrite Z.eqb_refl. destruct (Z.eqb_spec ROWAN a); [congruence|]. auto.
  - left. rewrite Z.eqb_refl. destruct (Z.eqb_spec ROWAN a); [congruence|]. auto.
Qed.

(* TakeOutCustody: the position's custody leaves the pool's custody total *)
Lemma take_out_custody_link li c c' u :
  take_out_custody c = (c', Ok u) -> on_pool (c_asset c) (c_mtp c) -> Link true li c ->
  Link false li c' /\ mcore_eq c c'.
Proof.
  unfold take_out_custody. intros H Hon L. pmg H. pm H as c1 u1 E1.
  apply upd_pool_ok in E1. destruct E1 as (p & Hp & ->).
  pose proof (set_pool_core _ _ _ H) as Hc.
  assert (Hm : mcore_eq c (c <| c_pool := p |>)) by (unfold mcore_eq; cbn; repeat split; reflexivity).
  split; [|eapply mcore_eq_trans; [exact Hm|apply Hc]].
  apply (Link_core _ _ _ _ Hc). unfold Link in *. cbn [c_pool c_mtp c_asset]. 
  rewrite !(others_core _ _ _ Hm). destruct L as (L1 & L2 & L3 & L4).
  destruct (gs_on_pool _ _ Hon) as [(Hcu & G1 & G2 & G3 & G4)|(Hcu & G1 & G2 & G3 & G4)].
  - rewrite Hcu, Z.eqb_refl in Hp. repeat inv1 Hp. uints. subst. cbn. repeat split; lia.
  - destruct (Z.eqb_spec (m_cust_asset (c_mtp c)) ROWAN); [contradiction|]. repeat inv1 Hp. uints. subst. cbn. repeat split; lia.
Qed.

Lemma take_in_custody_link li c c' u :
  take_in_custody c = (c', Ok u) -> on_pool (c_asset c) (c_mtp c) -> Link false li c ->
  Link true li c' /\ mcore_eq c c'.
Proof.
  unfold take_in_custody. intros H Hon L. pmg H. pm H as c1 u1 E1.
  apply upd_pool_ok in E1. destruct E1 as (p & Hp & ->).
  pose proof (set_pool_core _ _ _ H) as Hc.
  assert (Hm : mcore_eq c (c <| c_pool := p |>)) by (unfold mcore_eq; cbn; repeat split; reflexivity).
  split; [|eapply mcore_eq_trans; [exact Hm|apply Hc]].
  apply (Link_core _ _ _ _ Hc). unfold Link in *. cbn [c_pool c_mtp c_asset].
  rewrite !(others_core _ _ _ Hm). destruct L as (L1 & L2 & L3 & L4).
  destruct (gs_on_pool _ _ Hon) as [(Hcu & G1 & G2 & G3 & G4)|(Hcu & G1 & G2 & G3 & G4)].
  - rewrite Hcu, Z.eqb_refl in Hp. repeat inv1 Hp. uints. subst. cbn. repeat split; lia.
  - destruct (Z.eqb_spec (m_cust_asset (c_mtp c)) ROWAN); [contradiction|]. repeat inv1 Hp. uints. subst. cbn. repeat split; lia.
Qed.

(* SetMTP of an existing key: the stored copy becomes the in-memory one; what the others hold is unchanged *)
Lemma set_mtp_existing c c' u : set_mtp c = (c', Ok u) -> c_id c <> 0 ->
  c' = c <| c_s := put_mtp (c_s c) (c_addr c) (c_id c) (c_mtp c) |>.
Proof.
  unfold set_mtp. intros H Hid. apply modc_ok in H. destruct (Z.eqb_spec (c_id c) 0); [contradiction|]. exact H.
Qed.

Lemma find_put_same s addr id m : find_mtp (put_mtp s addr id m) addr id = Some m.
Proof. unfold find_mtp, mtps_of, put_mtp. cbn -[Store.set get]. rewrite get_set_same. apply get_set_same. Qed.

Lemma others_put g c m :
  others g (c <| c_s := put_mtp (c_s c) (c_addr c) (c_id c) m |>) = others g c.
Proof. unfold others. cbn -[tot find_mtp put_mtp gopt]. rewrite tot_put, find_put_same. cbn [gopt]. lia. Qed.

Lemma Link_put cu li c m :
  Link cu li c -> Link cu li (c <| c_s := put_mtp (c_s c) (c_addr c) (c_id c) m |>).
Proof.
  unfold Link. intros L. rewrite !others_put. cbn -[others g_nc g_ec g_nl g_el]. exact L.
Qed.

(* ---------- any-outcome inversion (needed where an error is swallowed and the context kept) ---------- *)
Lemma bindP_any {A B} (m : PM A) (f : A -> PM B) c c' (o : Outcome B) :
  bindP m f c = (c', o) ->
  exists c1 o1, m c = (c1, o1) /\
    match o1 with
    | Ok a => f a c1 = (c', o)
    | Err e => c' = c1 /\ o = Err e
    | Panic => c' = c1 /\ o = Panic
    end.
Proof.
  unfold bindP. destruct (m c) as [c1 o1]. intros H. exists c1, o1. split; [reflexivity|].
  destruct o1; [exact H|inversion H; auto|inversion H; auto].
Qed.

Lemma lift_any {A} (o : Outcome A) c c' o' : lift o c = (c', o') -> c' = c /\ o' = o.
Proof. unfold lift. intros [= <- <-]. auto. Qed.

Lemma upd_mtp_any f c c' o : upd_mtp f c = (c', o) ->
  match f (c_mtp c) with Ok m => c' = c <| c_mtp := m |> /\ o = Ok tt | Err e => c' = c /\ o = Err e | Panic => c' = c /\ o = Panic end.
Proof.
  unfold upd_mtp, bindP, getc, lift, modc. destruct (f (c_mtp c)); intros [= <- <-]; auto.
Qed.
Lemma upd_pool_any f c c' o : upd_pool f c = (c', o) ->
  match f (c_pool c) with Ok p => c' = c <| c_pool := p |> /\ o = Ok tt | Err e => c' = c /\ o = Err e | Panic => c' = c /\ o = Panic end.
Proof.
  unfold upd_pool, bindP, getc, lift, modc. destruct (f (c_pool c)); intros [= <- <-]; auto.
Qed.
Lemma bank_send_any from to d x c c' o : bank_send from to d x c = (c', o) ->
  match send (ms_bank (c_s c)) from to d x with
  | Some b => c' = c <| c_s := (c_s c) <| ms_bank := b |> |> /\ o = Ok tt
  | None => c' = c /\ o = Err E_M
  end.
Proof.
  unfold bank_send, bindP, getc, modc, failM, lift. destruct (send _ _ _ _ _); intros [= <- <-]; auto.
Qed.

(* TakeFundPayment: with a percentage in [0,1] and the coins in the module account it cannot fail with an error,
   takes at most the amount, and leaves the core alone *)
Lemma take_fund_payment_any amount asset pct fund c c' o :
  take_fund_payment amount asset pct fund c = (c', o) ->
  0 <= amount -> 0 <= pct <= PREC -> amount <= bal (ms_bank (c_s c)) CLP_MODULE asset ->
  match o with
  | Ok t => 0 <= t <= amount /\ core_eq c c'
  | Err _ => False
  | Panic => True
  end.
Proof.
  unfold take_fund_payment. intros H Ha Hp Hb.
  apply bindP_any in H. destruct H as (c1 & o1 & E1 & H). apply lift_any in E1. destruct E1 as (-> & ->).
  destruct (Dmul pct (dec_of_int amount)) as [d| |] eqn:Ed; cbn [bind] in H.
  2:{ exfalso. unfold Dmul, ck_dec in Ed. destruct (fits_dec _); discriminate. }
  2:{ destruct H as (_ & ->). exact I. }
  destruct (ck_uint (dec_trunc_int d)) as [t| |] eqn:Et.
  2:{ exfalso. unfold ck_uint in Et. destruct (fits_uint _); discriminate. }
  2:{ destruct H as (_ & ->). exact I. }
  (* t = trunc(pct * amount) <= amount *)
  assert (Ht : 0 <= t <= amount).
  { apply ck_uint_ok in Et. destruct Et as (-> & Ht0). split; [exact Ht0|].
    unfold Dmul, ck_dec in Ed. destruct (fits_dec _); [|discriminate]. injection Ed as <-.
    unfold dec_of_int, dec_trunc_int.
    pose proof Proofs.SdkMathProofs.PREC_pos as HP.
    pose proof (Proofs.PayoutProofs.dec_mul_bounds pct (amount * PREC) ltac:(lia) ltac:(nia)) as (_ & UB).
    set (dm := dec_mul pct (amount * PREC)) in *.
    assert (Hdm0 : 0 <= dm) by (apply Proofs.SdkMathProofs.dec_mul_nonneg; nia).
    rewrite Z.quot_div_nonneg by lia.
    (* 2*PREC*dm <= 2*pct*amount*PREC + PREC <= 2*PREC*amount*PREC + PREC, so dm <= amount*PREC + 1/2, dm/PREC <= amount *)
    assert (pct * (amount * PREC) <= PREC * (amount * PREC)) by (apply Z.mul_le_mono_nonneg_r; nia).
    assert (2 * PREC * dm <= 2 * PREC * (amount * PREC) + PREC) by lia.
    assert (dm <= amount * PREC) by nia.
    apply Z.div_le_upper_bound; lia. }
  apply bindP_any in H. destruct H as (c2 & o2 & E2 & H).
  destruct (Z.eqb_spec t 0) as [->|Hne].
  - unfold ret in E2. injection E2 as <- <-. unfold ret in H. injection H as <- <-. split; [lia|apply core_eq_refl].
  - apply bank_send_any in E2.
    destruct (send (ms_bank (c_s c)) CLP_MODULE fund asset t) as [b|] eqn:Es.
    + destruct E2 as (-> & ->). unfold ret in H. injection H as <- <-. split; [exact Ht|].
      unfold core_eq, pool4_eq, mcore_eq. cbn. repeat split; reflexivity.
    + exfalso. unfold send in Es. destruct (Z.ltb_spec t 0); [lia|]. destruct (Z.eqb_spec t 0); [contradiction|].
      destruct (Z.ltb_spec (bal (ms_bank (c_s c)) CLP_MODULE asset) t); [lia|discriminate].
Qed.

Tactic Notation "pma" hyp(H) "as" ident(c1) ident(o1) ident(E) :=
  apply bindP_any in H; destruct H as (c1 & o1 & E & H).

(* parts of the context no keeper function changes, except the position's custody and the stored positions *)
Definition kcore_eq (c c' : mctx) : Prop :=
  m_coll_asset (c_mtp c') = m_coll_asset (c_mtp c) /\ m_cust_asset (c_mtp c') = m_cust_asset (c_mtp c) /\
  m_liab (c_mtp c') = m_liab (c_mtp c) /\
  c_asset c' = c_asset c /\ c_addr c' = c_addr c /\ c_id c' = c_id c /\
  ms_params (c_s c') = ms_params (c_s c) /\ ms_height (c_s c') = ms_height (c_s c) /\
  ms_open (c_s c') = ms_open (c_s c) /\ ms_count (c_s c') = ms_count (c_s c) /\
  (forall a', a' <> c_asset c -> get a' (ms_pools (c_s c')) = get a' (ms_pools (c_s c))).
Lemma kcore_refl c : kcore_eq c c.
Proof. unfold kcore_eq. repeat split; reflexivity. Qed.
Lemma kcore_trans c1 c2 c3 : kcore_eq c1 c2 -> kcore_eq c2 c3 -> kcore_eq c1 c3.
Proof.
  unfold kcore_eq. intros (A1&A2&A3&A4&A5&A6&A7&A8&A9&A10&A11) (B1&B2&B3&B4&B5&B6&B7&B8&B9&B10&B11).
  repeat split; try congruence. intros a' Ha. rewrite B11 by congruence. apply A11. exact Ha.
Qed.
Lemma mcore_kcore c c' : mcore_eq c c' -> kcore_eq c c'.
Proof. unfold mcore_eq, kcore_eq. intros (A1&A2&A3&A4&A5&A6&A7&A8&A9&A10&A11&A12&A13). repeat split; assumption. Qed.

Lemma clp_swap_pos s asset sent to p r : clp_swap s asset sent to p = Ok r -> 0 < r.
Proof.
  unfold clp_swap. intros H.
  destruct (to =? ROWAN); repeat inv1 H;
  match goal with Hc : calc_swap_result _ _ _ _ _ _ = Ok ?x |- _ => destruct x as [y fee]; apply calc_swap_result_nonneg in Hc end;
  cbn [fst] in *; match goal with E : (_ =? 0) = false |- _ => apply Z.eqb_neq in E end; subst; lia.
Qed.

(* an update of position fields Link does not look at *)
Lemma upd_mtp_core f c c' u :
  upd_mtp f c = (c', Ok u) ->
  (forall m m', f m = Ok m' -> m_coll_asset m' = m_coll_asset m /\ m_cust_asset m' = m_cust_asset m /\
                               m_cust_amt m' = m_cust_amt m /\ m_liab m' = m_liab m) ->
  core_eq c c'.
Proof.
  intros H Hf. apply upd_mtp_ok in H. destruct H as (m & Hm & ->). destruct (Hf _ _ Hm) as (A & B & C & D).
  unfold core_eq, pool4_eq, mcore_eq. cbn. repeat split; assumption.
Qed.

(* IncrementalInterestPayment: whatever it returns short of a panic, the in-memory pool and position stay linked *)
Lemma incremental_any i c c' o li :
  incremental_interest_payment i c = (c', o) ->
  on_pool (c_asset c) (c_mtp c) -> c_id c <> 0 -> Link true li c ->
  0 <= mp_incr_pct (ms_params (c_s c)) <= PREC ->
  0 <= m_cust_amt (c_mtp c) <= bal (ms_bank (c_s c)) CLP_MODULE (m_cust_asset (c_mtp c)) ->
  match o with
  | Panic => True
  | _ => Link true li c' /\ kcore_eq c c' /\ 0 <= m_cust_amt (c_mtp c') <= m_cust_amt (c_mtp c) /\ (forall g, others g c' = others g c)
  end.
Proof.
  unfold incremental_interest_payment. intros H Hon Hid L Hpct Hfunds.
  pmg H.
  (* interest *)
  pma H as c1 o1 E1. apply lift_any in E1. destruct E1 as (-> & ->).
  destruct (if 0 <? m_iunpaid (c_mtp c) then uint_add i (m_iunpaid (c_mtp c)) else Ok i) as [interest|e|] eqn:Ei.
  2:{ exfalso. destruct (0 <? _); [unfold uint_add, ck_uint in Ei; destruct (fits_uint _); discriminate|discriminate]. }
  2:{ destruct H as (_ & ->). exact I. }
  (* custody value of the payment *)
  pma H as c2 o2 E2. apply lift_any in E2. destruct E2 as (-> & ->).
  destruct (clp_swap (c_s c) (c_asset c) interest (m_cust_asset (c_mtp c)) (c_pool c)) as [ipc|e|] eqn:Es.
  2:{ destruct H as (-> & ->). split; [exact L|]. split; [apply kcore_refl|]. split; [lia|reflexivity]. }
  2:{ destruct H as (_ & ->). exact I. }
  apply clp_swap_pos in Es.
  (* unpaid interest reset *)
  pma H as c3 o3 E3. apply upd_mtp_any in E3. cbn beta in E3. destruct E3 as (-> & ->).
  set (cA := c <| c_mtp := (c_mtp c) <| m_iunpaid := 0 |> |>) in *.
  assert (HcA : core_eq c cA) by (unfold cA, core_eq, pool4_eq, mcore_eq; cbn; repeat split; reflexivity).
  (* the edge case: not enough custody *)
  pma H as c4 o4 E4.
  assert (Hc4 : match o4 with
                | Ok pr => core_eq c c4 /\ 0 <= snd pr <= m_cust_amt (c_mtp c) /\ ms_bank (c_s c4) = ms_bank (c_s c)
                | Err _ => core_eq c c4
                | Panic => True end).
  { destruct (m_cust_amt (c_mtp c) <? ipc) eqn:Elt.
    - pma E4 as c5 o5 E5. apply lift_any in E5. destruct E5 as (-> & ->).
      match type of E4 with match ?x with _ => _ end => destruct x as [cac|e|] eqn:Ecac end.
      2:{ destruct E4 as (-> & ->). exact HcA. }
      2:{ destruct E4 as (_ & ->). exact I. }
      pma E4 as c6 o6 E6. apply lift_any in E6. destruct E6 as (-> & ->).
      match type of E4 with match ?x with _ => _ end => destruct x as [un|e|] eqn:Eu end.
      2:{ exfalso. unfold uint_sub, ck_uint in Eu. destruct (fits_uint _); discriminate. }
      2:{ destruct E4 as (_ & ->). exact I. }
      pma E4 as c7 o7 E7. apply upd_mtp_any in E7. cbn beta in E7. destruct E7 as (-> & ->).
      unfold ret in E4. injection E4 as <- <-. cbn [snd].
      split; [|split; [lia|reflexivity]].
      eapply core_eq_trans; [exact HcA|]. unfold cA, core_eq, pool4_eq, mcore_eq; cbn; repeat split; reflexivity.
    - unfold ret in E4. injection E4 as <- <-. cbn [snd]. apply Z.ltb_ge in Elt.
      split; [exact HcA|]. split; [lia|reflexivity]. }
  destruct o4 as [[interest' ipc']|e|].
  2:{ destruct H as (-> & ->). split; [eapply Link_core; eassumption|]. split; [apply mcore_kcore, Hc4|].
      split; [destruct Hc4 as (_ & (_ & _ & Hcu & _)); rewrite Hcu; lia|]. intros g. apply others_core, Hc4. }
  2:{ destruct H as (_ & ->). exact I. }
  destruct Hc4 as (Hc4 & Hipc & Hbank). cbn [snd] in Hipc.
  (* the position pays *)
  pma H as c5 o5 E5. apply upd_mtp_any in E5. cbn beta in E5.
  destruct (uint_add (m_ipaid_coll (c_mtp c4)) interest') as [pa| |] eqn:Ea; cbn [bind] in E5.
  2:{ exfalso. unfold uint_add, ck_uint in Ea. destruct (fits_uint _); discriminate. }
  2:{ destruct E5 as (_ & ->). destruct H as (_ & ->). exact I. }
  destruct (uint_add (m_ipaid_cust (c_mtp c4)) ipc') as [pb| |] eqn:Eb; cbn [bind] in E5.
  2:{ exfalso. unfold uint_add, ck_uint in Eb. destruct (fits_uint _); discriminate. }
  2:{ destruct E5 as (_ & ->). destruct H as (_ & ->). exact I. }
  destruct (uint_sub (m_cust_amt (c_mtp c4)) ipc') as [cu| |] eqn:Ec; cbn [bind] in E5.
  2:{ exfalso. unfold uint_sub, ck_uint in Ec. destruct (fits_uint _); discriminate. }
  2:{ destruct E5 as (_ & ->). destruct H as (_ & ->). exact I. }
  destruct E5 as (-> & ->). apply uint_sub_ok in Ec. destruct Ec as (-> & Hcu0).
  pose proof Hc4 as ((P1 & P2 & P3 & P4) & (M1 & M2 & M3 & M4 & K1 & K2 & K3 & S1 & S2 & S3 & S4 & S5 & S6)).
  (* fund payment *)
  pma H as c6 o6 E6.
  eapply take_fund_payment_any in E6; cbn -[bal]; try rewrite ?Hbank, ?S4, ?M2; try lia.
  destruct o6 as [take|e|]; [|contradiction|destruct H as (_ & ->); exact I].
  destruct E6 as (Htake & Hc6).
  pma H as c7 o7 E7. apply lift_any in E7. destruct E7 as (-> & ->).
  destruct (uint_sub ipc' take) as [actual| |] eqn:Eact.
  2:{ exfalso. unfold uint_sub, ck_uint in Eact. destruct (fits_uint _); discriminate. }
  2:{ destruct H as (_ & ->). exact I. }
  (* the pool books it *)
  pma H as c8 o8 E8. apply upd_pool_any in E8.
  pose proof Hc6 as ((Q1 & Q2 & Q3 & Q4) & (N1 & N2 & N3 & N4 & J1 & J2 & J3 & T1 & T2 & T3 & T4 & T5 & T6)).
  cbn -[bal get] in Q1, Q2, Q3, Q4, N1, N2, N3, N4, J1, J2, J3, T1, T2, T3, T4, T5, T6.
  apply uint_sub_ok in Eact. destruct Eact as (-> & Hact0).
  (* the remaining steps: SetMTP, SetPool *)
  assert (Hfin : forall p', c8 = c6 <| c_pool := p' |> -> o8 = Ok tt ->
            q_nl p' = q_nl (c_pool c) -> q_el p' = q_el (c_pool c) ->
            q_nc p' = q_nc (c_pool c) - (if m_cust_asset (c_mtp c) =? ROWAN then ipc' else 0) ->
            q_ec p' = q_ec (c_pool c) - (if m_cust_asset (c_mtp c) =? ROWAN then 0 else ipc') ->
            match o with Panic => True | _ => Link true li c' /\ kcore_eq c c' /\ 0 <= m_cust_amt (c_mtp c') <= m_cust_amt (c_mtp c) /\ (forall g, others g c' = others g c) end).
  { intros p' -> -> Hnl Hel Hnc Hec.
    pma H as c9 o9 E9. assert (o9 = Ok tt) by (unfold set_mtp, modc in E9; congruence). subst o9.
    apply set_mtp_existing in E9; [|cbn; congruence]. subst c9.
    pma H as c10 o10 E10. assert (o10 = Ok tt) by (unfold set_pool, modc in E10; congruence). subst o10.
    pose proof (set_pool_core _ _ _ E10) as Hc10. unfold ret in H. injection H as <- <-.
    set (cB := c6 <| c_pool := p' |>) in *.
    assert (LB : Link true li cB).
    { unfold Link. destruct L as (L1 & L2 & L3 & L4).
      assert (Ho : forall g, others g cB = others g c).
      { intros g. unfold others, cB. cbn -[tot find_mtp]. rewrite (tot_core g _ _ T1), (find_core _ _ _ _ T1), J2, J3.
        cbn -[tot find_mtp]. rewrite (tot_core g _ _ S1), (find_core _ _ _ _ S1), K2, K3. reflexivity. }
      rewrite !Ho. unfold cB. cbn -[others g_nc g_ec g_nl g_el]. rewrite J1. cbn -[others g_nc g_ec g_nl g_el]. rewrite K1.
      destruct (gs_on_pool _ _ Hon) as [(Hcu & G1 & G2 & G3 & G4)|(Hcu & G1 & G2 & G3 & G4)].
      - rewrite Hcu, Z.eqb_refl in Hnc, Hec. unfold g_nc, g_ec, g_nl, g_el in *. rewrite N1, N2, N3, N4. cbn. rewrite M1, M2, M3, M4.
        destruct (m_coll_asset (c_mtp c) =? c_asset c); destruct (m_cust_asset (c_mtp c) =? c_asset c); repeat split; lia.
      - destruct (Z.eqb_spec (m_cust_asset (c_mtp c)) ROWAN); [contradiction|].
        unfold g_nc, g_ec, g_nl, g_el in *. rewrite N1, N2, N3, N4. cbn. rewrite M1, M2, M3, M4.
        destruct (m_coll_asset (c_mtp c) =? c_asset c); destruct (m_cust_asset (c_mtp c) =? c_asset c); repeat split; lia. }
    split; [apply (Link_core _ _ _ _ Hc10); apply Link_put; exact LB|].
    split.
    - eapply kcore_trans; [|apply mcore_kcore; apply Hc10].
      unfold kcore_eq, cB. cbn -[get]. repeat split; try congruence.
      intros a' Ha. rewrite T6 by congruence. apply S6. exact Ha.
    - split; [destruct Hc10 as (_ & (_ & _ & Hcu & _)); rewrite Hcu; unfold cB; cbn; rewrite N3; cbn; rewrite M3; lia|].
      intros g. rewrite (others_core g _ _ (proj2 Hc10)), others_put.
      unfold others, cB. cbn -[tot find_mtp]. rewrite (tot_core g _ _ T1), (find_core _ _ _ _ T1), J2, J3.
      cbn -[tot find_mtp]. rewrite (tot_core g _ _ S1), (find_core _ _ _ _ S1), K2, K3. reflexivity. }
  cbn beta in E8. destruct (m_cust_asset (c_mtp c) =? ROWAN) eqn:Er.
  - destruct (uint_sub (q_nc (c_pool c6)) ipc') as [x| |] eqn:Ex; cbn [bind] in E8.
    2:{ exfalso. unfold uint_sub, ck_uint in Ex. destruct (fits_uint _); discriminate. }
    2:{ destruct E8 as (_ & ->). destruct H as (_ & ->). exact I. }
    destruct (uint_add (q_nb (c_pool c6)) (ipc' - take)) as [y| |] eqn:Ey; cbn [bind] in E8.
    2:{ exfalso. unfold uint_add, ck_uint in Ey. destruct (fits_uint _); discriminate. }
    2:{ destruct E8 as (_ & ->). destruct H as (_ & ->). exact I. }
    destruct E8 as (E8 & ->). uints. subst. eapply Hfin; [reflexivity|reflexivity|cbn; lia..].
  - destruct (uint_sub (q_ec (c_pool c6)) ipc') as [x| |] eqn:Ex; cbn [bind] in E8.
    2:{ exfalso. unfold uint_sub, ck_uint in Ex. destruct (fits_uint _); discriminate. }
    2:{ destruct E8 as (_ & ->). destruct H as (_ & ->). exact I. }
    destruct (uint_add (q_eb (c_pool c6)) (ipc' - take)) as [y| |] eqn:Ey; cbn [bind] in E8.
    2:{ exfalso. unfold uint_add, ck_uint in Ey. destruct (fits_uint _); discriminate. }
    2:{ destruct E8 as (_ & ->). destruct H as (_ & ->). exact I. }
    destruct E8 as (E8 & ->). uints. subst. eapply Hfin; [reflexivity|reflexivity|cbn; lia..].
Qed.

(* ---------- what the interest steps keep ---------- *)
Definition Keeps (li : bool) (c c' : mctx) : Prop :=
  Link true li c' /\ kcore_eq c c' /\ m_cust_amt (c_mtp c') <= m_cust_amt (c_mtp c) /\ (forall g, others g c' = others g c).

Lemma Keeps_core_l li c c1 c2 : core_eq c c1 -> Keeps li c1 c2 -> Keeps li c c2.
Proof.
  intros Hc (L & K & B & O). split; [exact L|]. split; [eapply kcore_trans; [apply mcore_kcore, Hc|exact K]|].
  split; [destruct Hc as (_ & (_ & _ & Hcu & _)); rewrite <- Hcu; exact B|].
  intros g. rewrite O. apply others_core, Hc.
Qed.
Lemma Keeps_core_r li c c1 c2 : Keeps li c c1 -> core_eq c1 c2 -> Keeps li c c2.
Proof.
  intros (L & K & B & O) Hc. split; [eapply Link_core; eassumption|]. split; [eapply kcore_trans; [exact K|apply mcore_kcore, Hc]|].
  split; [destruct Hc as (_ & (_ & _ & Hcu & _)); rewrite Hcu; exact B|].
  intros g. rewrite (others_core g _ _ (proj2 Hc)). apply O.
Qed.
Lemma Keeps_refl li c : Link true li c -> Keeps li c c.
Proof. intros L. split; [exact L|]. split; [apply kcore_refl|]. split; [lia|reflexivity]. Qed.

Definition interest_hyps (c : mctx) : Prop :=
  on_pool (c_asset c) (c_mtp c) /\ c_id c <> 0 /\
  0 <= mp_incr_pct (ms_params (c_s c)) <= PREC /\
  0 <= m_cust_amt (c_mtp c) <= bal (ms_bank (c_s c)) CLP_MODULE (m_cust_asset (c_mtp c)).

Lemma interest_hyps_core c c' : core_eq c c' -> ms_bank (c_s c') = ms_bank (c_s c) -> interest_hyps c -> interest_hyps c'.
Proof.
  intros (_ & (M1 & M2 & M3 & M4 & K1 & K2 & K3 & S1 & S2 & S3 & S4 & S5 & S6)) Hb (Hon & Hid & Hp & Hf).
  unfold interest_hyps, on_pool in *. rewrite M1, M2, M3, K1, K3, S4, Hb. auto.
Qed.

(* HandleInterestPayment never returns an error; short of a panic the link is kept *)
Lemma handle_interest_any i c c' o li :
  handle_interest_payment i c = (c', o) -> interest_hyps c -> Link true li c ->
  match o with Panic => True | Err _ => False | Ok _ => Keeps li c c' end.
Proof.
  unfold handle_interest_payment. intros H (Hon & Hid & Hp & Hf) L. pmg H.
  destruct (mp_incr (ms_params (c_s c))).
  - destruct (incremental_interest_payment i c) as [c1 o1] eqn:E.
    pose proof (incremental_any _ _ _ _ li E Hon Hid L Hp Hf) as HI.
    destruct o1; injection H as <- <-; [destruct HI as (A&B&C&D); split; [exact A|split; [exact B|split; [lia|exact D]]]|destruct HI as (A&B&C&D); split; [exact A|split; [exact B|split; [lia|exact D]]]|exact I].
  - pma H as c1 o1 E1. apply upd_mtp_any in E1. cbn beta in E1. destruct E1 as (-> & ->).
    unfold ret in H. injection H as <- <-.
    apply Keeps_core_r with (c1 := c); [apply Keeps_refl; exact L|].
    unfold core_eq, pool4_eq, mcore_eq. cbn. repeat split; reflexivity.
Qed.

Lemma add_block_interest_ok fin c c' u : add_block_interest fin c = (c', Ok u) -> core_eq c c' /\ ms_bank (c_s c') = ms_bank (c_s c).
Proof.
  unfold add_block_interest. intros H. pmg H. apply upd_pool_ok in H. destruct H as (p & Hp & ->).
  destruct (m_coll_asset (c_mtp c) =? ROWAN); repeat inv1 Hp; subst;
  (split; [unfold core_eq, pool4_eq, mcore_eq; cbn; repeat split; reflexivity|reflexivity]).
Qed.

Lemma set_mtp_keeps li c c' u : set_mtp c = (c', Ok u) -> c_id c <> 0 ->
  Link true li c -> Link true li c' /\ kcore_eq c c' /\ m_cust_amt (c_mtp c') = m_cust_amt (c_mtp c) /\ (forall g, others g c' = others g c) /\
  ms_bank (c_s c') = ms_bank (c_s c).
Proof.
  intros H Hid L. apply set_mtp_existing in H; [|exact Hid]. subst.
  split; [apply Link_put; exact L|]. split; [unfold kcore_eq; cbn; repeat split; reflexivity|].
  split; [reflexivity|]. split; [intros g; apply others_put|reflexivity].
Qed.

(* the interest part of the begin blocker's per-position processing *)
Lemma process_interest_ok c c' u :
  process_interest c = (c', Ok u) -> interest_hyps c -> Link true true c -> Keeps true c c'.
Proof.
  unfold process_interest. intros H Hh L. pmg H.
  pm H as c1 h E1. apply lift_ok in E1. destruct E1 as (-> & Eh).
  pm H as c2 u2 E2. apply upd_mtp_ok in E2. destruct E2 as (m2 & Em2 & ->). injection Em2 as <-.
  set (cA := c <| c_mtp := (c_mtp c) <| m_health := h |> |>) in *.
  assert (HcA : core_eq c cA) by (unfold cA, core_eq, pool4_eq, mcore_eq; cbn; repeat split; reflexivity).
  pmg H. pm H as c3 i E3. apply lift_ok in E3. destruct E3 as (-> & Ei).
  pm H as c4 fin E4.
  pose proof (handle_interest_any _ _ _ _ true E4 (interest_hyps_core _ _ HcA eq_refl Hh) (Link_core _ _ _ _ HcA L)) as HK. cbn beta iota in HK.
  pm H as c5 u5 E5. apply add_block_interest_ok in E5. destruct E5 as (Hc5 & Hb5).
  pose proof (Keeps_core_r _ _ _ _ HK Hc5) as HK5.
  destruct HK5 as (L5 & K5 & B5 & O5).
  assert (Hid5 : c_id c5 <> 0).
  { destruct K5 as (_&_&_&_&_&Hid&_). rewrite Hid. cbn. apply Hh. }
  destruct (set_mtp_keeps true _ _ _ H Hid5 L5) as (L6 & K6 & C6 & O6 & _).
  apply Keeps_core_l with (c1 := cA); [exact HcA|].
  split; [exact L6|]. split; [eapply kcore_trans; eassumption|]. split; [rewrite C6; exact B5|].
  intros g. rewrite O6. apply O5.
Qed.

Lemma mid_epoch_ok c c' u li :
  mid_epoch_interest c = (c', Ok u) -> (epoch_position (c_s c) <> 0 -> interest_hyps c) -> Link true li c -> Keeps li c c'.
Proof.
  unfold mid_epoch_interest. intros H Hh0 L. pmg H.
  destruct (Z.ltb_spec 0 (epoch_position (c_s c))) as [Hpos|Hpos].
  - assert (Hh : interest_hyps c) by (apply Hh0; lia). pm H as c1 i E1. apply lift_ok in E1. destruct E1 as (-> & Ei).
    pm H as c2 fin E2. pose proof (handle_interest_any _ _ _ _ li E2 Hh L) as HK. cbn beta iota in HK.
    pm H as c3 u3 E3. apply add_block_interest_ok in E3. destruct E3 as (Hc3 & _).
    pmg H. pm H as c4 h E4. apply lift_ok in E4. destruct E4 as (-> & Eh).
    apply upd_mtp_ok in H. destruct H as (m & Em & ->). injection Em as <-.
    eapply Keeps_core_r; [eapply Keeps_core_r; [exact HK|exact Hc3]|].
    unfold core_eq, pool4_eq, mcore_eq; cbn; repeat split; reflexivity.
  - apply ret_ok in H. destruct H as (-> & _). apply Keeps_refl; exact L.
Qed.

Lemma destroy_mtp_ok c c' u : destroy_mtp c = (c', Ok u) ->
  find_mtp (c_s c) (c_addr c) (c_id c) <> None /\
  c' = c <| c_s := (c_s c) <| ms_mtps := set (c_addr c) (del (c_id c) (mtps_of (c_s c) (c_addr c))) (ms_mtps (c_s c)) |>
                           <| ms_open := if ms_open (c_s c) =? 0 then 18446744073709551615 else ms_open (c_s c) - 1 |> |>.
Proof.
  unfold destroy_mtp. intros H. pmg H. destruct (find_mtp (c_s c) (c_addr c) (c_id c)) eqn:E.
  - apply modc_ok in H. split; [discriminate|exact H].
  - exfalso. eapply failM_not_ok; eassumption.
Qed.

(* what a completed close leaves behind, relative to the context it started from *)
Definition Closed (c : mctx) (s' : mstate) : Prop :=
  let a := c_asset c in
  (forall g, tot g s' = others g c) /\
  (exists P', get a (ms_pools s') = Some P' /\ q_nc P' = others (g_nc a) c /\ q_ec P' = others (g_ec a) c /\
              q_nl P' = others (g_nl a) c /\ q_el P' = others (g_el a) c) /\
  (forall a', a' <> a -> get a' (ms_pools s') = get a' (ms_pools (c_s c))) /\
  ms_open s' = (if ms_open (c_s c) =? 0 then 18446744073709551615 else ms_open (c_s c) - 1) /\
  ms_count s' = ms_count (c_s c).

Lemma repay_ok r tf c c' u :
  repay r tf c = (c', Ok u) -> on_pool (c_asset c) (c_mtp c) -> Link false true c ->
  Closed c (c_s c') /\ find_mtp (c_s c) (c_addr c) (c_id c) <> None /\
  get (c_asset c) (ms_pools (c_s c')) = Some (c_pool c').
Proof.
  unfold repay. intros H Hon L. pmg H.
  pm H as c1 h E1. apply lift_ok in E1. destruct E1 as (-> & _).
  pm H as c2 u2 E2. apply upd_mtp_ok in E2. destruct E2 as (m2 & Em2 & ->). injection Em2 as <-.
  set (cA := c <| c_mtp := (c_mtp c) <| m_health := h |> |>) in *.
  assert (HcA : core_eq c cA) by (unfold cA, core_eq, pool4_eq, mcore_eq; cbn; repeat split; reflexivity).
  pm H as c3 owe E3. apply lift_ok in E3. destruct E3 as (-> & _).
  pm H as c4 tr E4. apply lift_ok in E4. destruct E4 as (-> & Etr). destruct tr as [[ret_amt debtP] debtI].
  pm H as c5 u5 E5.
  assert (Hc5 : core_eq cA c5).
  { destruct (ret_amt =? 0).
    - apply ret_ok in E5. destruct E5 as (-> & _). apply core_eq_refl.
    - pm E5 as c6 actual E6.
      assert (Hc6 : core_eq cA c6).
      { destruct tf.
        - pm E6 as c7 take E7. apply take_fund_payment_core in E7. apply lift_ok in E6. destruct E6 as (-> & _). exact E7.
        - apply ret_ok in E6. destruct E6 as (-> & _). apply core_eq_refl. }
      destruct (actual =? 0).
      + apply ret_ok in E5. destruct E5 as (-> & _). exact Hc6.
      + eapply core_eq_trans; [exact Hc6|]. eapply bank_send_core; eassumption. }
  pose proof (core_eq_trans _ _ _ HcA Hc5) as Hc.
  pm H as c6 u6 E6. apply upd_pool_ok in E6. destruct E6 as (p & Hp & ->).
  pm H as c7 u7 E7. apply destroy_mtp_ok in E7. destruct E7 as (Hex & ->).
  apply set_pool_ok in H. subst c'.
  (* the link at c5, with the pool updated *)
  pose proof (Link_core _ _ _ _ Hc L) as (L1 & L2 & L3 & L4).
  pose proof Hc as ((P1 & P2 & P3 & P4) & Hm).
  pose proof Hm as (M1 & M2 & M3 & M4 & K1 & K2 & K3 & S1 & S2 & S3 & S4 & S5 & S6).
  assert (Hon5 : on_pool (c_asset c5) (c_mtp c5)) by (unfold on_pool in *; rewrite M1, M2, K1; exact Hon).
  assert (Ho : forall g, others g c5 = others g c) by (intros g; apply others_core; exact Hm).
  assert (Hp' : q_nc p = others (g_nc (c_asset c)) c /\ q_ec p = others (g_ec (c_asset c)) c /\
                q_nl p = others (g_nl (c_asset c)) c /\ q_el p = others (g_el (c_asset c)) c).
  { rewrite <- !Ho, <- K1. cbn [c_mtp] in Hp.
    destruct (gs_on_pool _ _ Hon5) as [(Hcu & G1 & G2 & G3 & G4)|(Hcu & G1 & G2 & G3 & G4)].
    - (* custody native: collateral external *)
      assert (Ecoll : (m_coll_asset (c_mtp c) =? ROWAN) = false).
      { destruct Hon as (Ha & [(Hc1 & Hc2)|(Hc1 & Hc2)]); [rewrite M2 in Hcu; congruence|]. rewrite Hc2. apply Z.eqb_neq. exact Ha. }
      rewrite Ecoll in Hp. repeat inv1 Hp. uints. subst. cbn. rewrite M4 in *. repeat split; lia.
    - assert (Ecoll : (m_coll_asset (c_mtp c) =? ROWAN) = true).
      { destruct Hon as (Ha & [(Hc1 & Hc2)|(Hc1 & Hc2)]); [rewrite Hc1; reflexivity|]. rewrite M2 in Hcu. congruence. }
      rewrite Ecoll in Hp. repeat inv1 Hp. uints. subst. cbn. rewrite M4 in *. repeat split; lia. }
  split.
  - unfold Closed. cbn -[tot get Store.set others g_nc g_ec g_nl g_el del].
    split.
    { intros g. rewrite <- Ho. unfold others.
      rewrite <- (tot_del g (c_s c5) (c_addr c5) (c_id c5)). unfold tot. cbn. reflexivity. }
    split.
    { exists p. rewrite K1. split; [apply get_set_same|exact Hp']. }
    split.
    { intros a' Ha'. rewrite K1. rewrite get_set_other by exact Ha'. cbn -[get]. apply S6. exact Ha'. }
    split; [rewrite S2; reflexivity|exact S3].
  - split; [rewrite <- (find_core _ _ _ _ S1), <- K2, <- K3; exact Hex|].
    cbn -[get Store.set]. rewrite K1. apply get_set_same.
Qed.

(* TakeOutCustody, price the custody, Repay *)
Lemma closing_tail_ok {A} tf (k : Z -> A) c c' x :
  (take_out_custody ;;; c1 <-- getc ;;
   r <-- lift (clp_swap (c_s c1) (c_asset c1) (m_cust_amt (c_mtp c1)) (m_coll_asset (c_mtp c1)) (c_pool c1)) ;;
   repay r tf ;;; ret (k r))%pm c = (c', Ok x) ->
  on_pool (c_asset c) (c_mtp c) -> Link true true c ->
  Closed c (c_s c') /\ find_mtp (c_s c) (c_addr c) (c_id c) <> None /\
  get (c_asset c) (ms_pools (c_s c')) = Some (c_pool c').
Proof.
  intros H Hon L. pm H as c1 u1 E1. destruct (take_out_custody_link _ _ _ _ E1 Hon L) as (L1 & Hm1).
  pmg H. pm H as c2 r E2. apply lift_ok in E2. destruct E2 as (-> & _).
  pm H as c3 u3 E3. apply ret_ok in H. destruct H as (-> & _).
  pose proof Hm1 as (M1 & M2 & M3 & M4 & K1 & K2 & K3 & S1 & S2 & S3 & S4 & S5 & S6).
  assert (Hon1 : on_pool (c_asset c1) (c_mtp c1)) by (unfold on_pool in *; rewrite M1, M2, K1; exact Hon).
  destruct (repay_ok _ _ _ _ _ E3 Hon1 L1) as (HC & Hex & Hmem).
  split.
  - unfold Closed in *. rewrite K1 in HC. destruct HC as (C1 & C2 & C3 & C4 & C5).
    split; [intros g; rewrite C1; apply others_core; exact Hm1|].
    split; [destruct C2 as (P' & G & Q1 & Q2 & Q3 & Q4); exists P'; rewrite <- !(others_core _ _ _ Hm1); auto|].
    split; [intros a' Ha'; rewrite C3 by exact Ha'; apply S6; exact Ha'|].
    split; [rewrite C4, S2; reflexivity|rewrite C5; exact S3].
  - split; [rewrite <- (find_core _ _ _ _ S1), <- K2, <- K3; exact Hex|]. rewrite <- K1. exact Hmem.
Qed.

Lemma Closed_keeps li c c1 s' : Keeps li c c1 -> Closed c1 s' -> Closed c s'.
Proof.
  intros (_ & K & _ & O) (C1 & C2 & C3 & C4 & C5).
  destruct K as (_&_&_&Ka&_&_&_&_&Ko&Kc&Kp).
  unfold Closed in *. rewrite Ka in *.
  split; [intros g; rewrite C1; apply O|].
  split; [destruct C2 as (P' & G & Q1 & Q2 & Q3 & Q4); exists P'; rewrite <- !O; auto|].
  split; [intros a' Ha'; rewrite C3 by exact Ha'; apply Kp; exact Ha'|].
  split; [rewrite C4, Ko; reflexivity|rewrite C5; exact Kc].
Qed.

Lemma keeps_on_pool li c c1 : Keeps li c c1 -> on_pool (c_asset c) (c_mtp c) -> on_pool (c_asset c1) (c_mtp c1).
Proof. intros (_ & (K1&K2&_&Ka&_) & _) H. unfold on_pool in *. rewrite K1, K2, Ka. exact H. Qed.

Lemma keeps_find li c c1 : Keeps li c c1 -> c_addr c1 = c_addr c /\ c_id c1 = c_id c.
Proof. intros (_ & (_&_&_&_&Kaddr&Kid&_) & _). auto. Qed.

(* CloseLong *)
Lemma close_long_ok c c' r :
  close_long c = (c', Ok r) -> on_pool (c_asset c) (c_mtp c) -> (epoch_position (c_s c) <> 0 -> interest_hyps c) ->
  Link true true c -> Closed c (c_s c').
Proof.
  unfold close_long. intros H Hon Hh L. pm H as c1 u1 E1.
  pose proof (mid_epoch_ok _ _ _ true E1 Hh L) as HK.
  pose proof HK as (L1 & _).
  destruct (closing_tail_ok false (fun r => r) c1 c' r H (keeps_on_pool _ _ _ HK Hon) L1) as (HC & _ & _).
  eapply Closed_keeps; eassumption.
Qed.

(* ForceCloseLong: also returns the health the decision was taken on *)
Lemma force_close_long_ok adm tf c c' r :
  force_close_long adm tf c = (c', Ok r) -> on_pool (c_asset c) (c_mtp c) -> (epoch_position (c_s c) <> 0 -> interest_hyps c) ->
  Link true true c ->
  Closed c (c_s c') /\ (adm = false -> snd r <= mp_safety (ms_params (c_s c))) /\
  (exists c1, Keeps true c c1 /\ snd r = m_health (c_mtp c1)) /\
  get (c_asset c) (ms_pools (c_s c')) = Some (c_pool c').
Proof.
  unfold force_close_long. intros H Hon Hh L. pm H as c1 u1 E1.
  pose proof (mid_epoch_ok _ _ _ true E1 Hh L) as HK.
  pose proof HK as (L1 & K1 & _).
  pmg H.
  destruct (negb adm && (mp_safety (ms_params (c_s c1)) <? m_health (c_mtp c1))) eqn:Eg.
  { exfalso. unfold lift in H. inversion H. }
  destruct (closing_tail_ok tf (fun r => (r, m_health (c_mtp c1))) c1 c' r H (keeps_on_pool _ _ _ HK Hon) L1) as (HC & _ & Hmem).
  split; [eapply Closed_keeps; eassumption|].
  assert (Er : snd r = m_health (c_mtp c1)).
  { clear -H. pm H as c2 u2 E2. pmg H. pm H as c3 r3 E3. pm H as c4 u4 E4. apply ret_ok in H. destruct H as (_ & ->). reflexivity. }
  split.
  - intros ->. cbn [negb andb] in Eg. apply Z.ltb_ge in Eg. rewrite Er.
    destruct K1 as (_&_&_&_&_&_&Kp&_). rewrite <- Kp. exact Eg.
  - split; [exists c1; split; [exact HK|exact Er]|].
    destruct K1 as (_&_&_&Ka&_). rewrite <- Ka. exact Hmem.
Qed.

(* ---------- the sums invariant of C13 ---------- *)
Definition SumInv (s : mstate) : Prop :=
  (forall a p, get a (ms_pools s) = Some p -> a <> ROWAN -> pool_agrees s a p) /\ ms_open s = tot g_one s.

Lemma g_nonneg_one m : 0 <= g_one m. Proof. unfold g_one. lia. Qed.

Lemma tot_ge g s addr id m : (forall m, 0 <= g m) -> find_mtp s addr id = Some m -> g m <= tot g s.
Proof.
  intros Hg Hf. unfold find_mtp, mtps_of, tot in *. destruct (get addr (ms_mtps s)) as [inner|] eqn:E; [|discriminate].
  pose proof (sumf_get_le g id inner m Hg Hf).
  pose proof (sumf_get_le (sumf g) addr (ms_mtps s) inner (fun v => sumf_nonneg g v Hg) E). lia.
Qed.

Lemma others_mk g s p m a addr id : find_mtp s addr id = Some m -> others g (mkCtx s p m a addr id) = tot g s - g m.
Proof. intros H. unfold others. cbn. rewrite H. reflexivity. Qed.

Lemma link_of_agrees s a p m addr id :
  pool_agrees s a p -> find_mtp s addr id = Some m -> Link true true (mkCtx s p m a addr id).
Proof.
  intros (A1 & A2 & A3 & A4) Hf. unfold Link. cbn [c_asset c_pool c_mtp]. rewrite !(others_mk _ _ _ _ _ _ _ Hf). repeat split; lia.
Qed.

Lemma g_other_zero a a' m : on_pool a m -> a' <> a -> a' <> ROWAN ->
  g_nc a' m = 0 /\ g_ec a' m = 0 /\ g_nl a' m = 0 /\ g_el a' m = 0.
Proof.
  intros (Ha & [(H1 & H2)|(H1 & H2)]) Hne Hr; unfold g_nc, g_ec, g_nl, g_el; rewrite H1, H2;
  destruct (Z.eqb_spec ROWAN a'); try congruence; destruct (Z.eqb_spec a a'); try congruence; auto.
Qed.

(* a completed close of a stored position that lives on pool a keeps the invariant *)
Lemma Closed_SumInv s a p m addr id s' :
  SumInv s -> get a (ms_pools s) = Some p -> find_mtp s addr id = Some m -> on_pool a m ->
  Closed (mkCtx s p m a addr id) s' -> SumInv s'.
Proof.
  intros (HP & HO) Hg Hf Hon (C1 & (P' & G' & Q1 & Q2 & Q3 & Q4) & C3 & C4 & C5).
  cbn [c_asset c_s] in *.
  assert (Ht : forall g, tot g s' = tot g s - g m) by (intros g; rewrite C1; apply others_mk; exact Hf).
  split.
  - intros a' p' Hg' Hr. destruct (Z.eq_dec a' a) as [->|Hne].
    + rewrite G' in Hg'. injection Hg' as <-. unfold pool_agrees. rewrite !Ht.
      rewrite Q1, Q2, Q3, Q4, !(others_mk _ _ _ _ _ _ _ Hf). auto.
    + rewrite C3 in Hg' by exact Hne. destruct (HP _ _ Hg' Hr) as (A1 & A2 & A3 & A4).
      destruct (g_other_zero _ _ _ Hon Hne Hr) as (Z1 & Z2 & Z3 & Z4).
      unfold pool_agrees. rewrite !Ht, Z1, Z2, Z3, Z4. repeat split; lia.
  - rewrite Ht. pose proof (tot_ge g_one s addr id m g_nonneg_one Hf) as Hge. unfold g_one in Hge at 1.
    rewrite C4, HO. destruct (Z.eqb_spec (tot g_one s) 0); [lia|]. unfold g_one at 3. lia.
Qed.

Definition position_ok (s : mstate) (addr id : Z) (m : mtp) : Prop :=
  on_pool (pool_asset_of m) m /\ id <> 0 /\
  0 <= m_cust_amt m <= bal (ms_bank s) CLP_MODULE (m_cust_asset m).
Definition pct_ok (s : mstate) : Prop := 0 <= mp_incr_pct (ms_params s) <= PREC.

(* C13: Close keeps the pool totals equal to the sums over the positions, and the counter equal to their number *)
Theorem close_preserves s signer id c' r :
  SumInv s -> pct_ok s -> (forall m, find_mtp s signer id = Some m -> position_ok s signer id m) ->
  close_msg s signer id = (c', Ok r) -> SumInv (c_s c').
Proof.
  intros HI Hp Hpos H. unfold close_msg in H.
  destruct (find_mtp s signer id) as [m|] eqn:Hf; [|inversion H].
  destruct (get (pool_asset_of m) (ms_pools s)) as [pool|] eqn:Hg; [|inversion H].
  destruct (Hpos m eq_refl) as (Hon & Hid & Hfunds).
  assert (Ha : pool_asset_of m <> ROWAN) by apply Hon.
  pose proof (link_of_agrees s _ pool m signer id (proj1 HI _ _ Hg Ha) Hf) as L.
  assert (Hh : interest_hyps (mkCtx s pool m (pool_asset_of m) signer id)) by (unfold interest_hyps; cbn; auto).
  pose proof (close_long_ok _ _ _ H Hon (fun _ => Hh) L) as HC.
  eapply Closed_SumInv; eassumption.
Qed.

Theorem admin_close_preserves s adm addr id tf c' r :
  SumInv s -> pct_ok s -> (forall m, find_mtp s addr id = Some m -> position_ok s addr id m) ->
  admin_close_msg s adm addr id tf = (c', Ok r) -> SumInv (c_s c') /\ adm = true.
Proof.
  intros HI Hp Hpos H. unfold admin_close_msg in H.
  destruct adm; cbn [negb] in H; [|inversion H].
  destruct (find_mtp s addr id) as [m|] eqn:Hf; [|inversion H].
  destruct (get (pool_asset_of m) (ms_pools s)) as [pool|] eqn:Hg; [|inversion H].
  destruct (Hpos m eq_refl) as (Hon & Hid & Hfunds).
  assert (Ha : pool_asset_of m <> ROWAN) by apply Hon.
  pose proof (link_of_agrees s _ pool m addr id (proj1 HI _ _ Hg Ha) Hf) as L.
  assert (Hh : interest_hyps (mkCtx s pool m (pool_asset_of m) addr id)) by (unfold interest_hyps; cbn; auto).
  destruct (force_close_long_ok _ _ _ _ _ H Hon (fun _ => Hh) L) as (HC & _).
  split; [eapply Closed_SumInv; eassumption|reflexivity].
Qed.

(* only the position's own address can close it with MsgClose *)
Theorem close_needs_owner s signer id c' r :
  close_msg s signer id = (c', Ok r) -> exists m, find_mtp s signer id = Some m.
Proof. unfold close_msg. destruct (find_mtp s signer id) as [m|]; [eauto|intros H; inversion H]. Qed.

(* ---------- the begin blocker: one position at a time, the pool shared in memory ---------- *)
(* loop invariant: the in-memory pool of asset a agrees with the stored positions, the stored pools of the
   other assets agree, the counter equals the number of positions *)
Definition LoopInv (a : Z) (s : mstate) (p : mpool) : Prop :=
  pool_agrees s a p /\
  (forall a' p', a' <> a -> get a' (ms_pools s) = Some p' -> a' <> ROWAN -> pool_agrees s a' p') /\
  ms_open s = tot g_one s.

Lemma set_mtp_stored c c' u : set_mtp c = (c', Ok u) -> find_mtp (c_s c') (c_addr c') (c_id c') = Some (c_mtp c').
Proof.
  unfold set_mtp. intros H. apply modc_ok in H. subst. destruct (c_id c =? 0); cbn -[find_mtp put_mtp]; apply find_put_same.
Qed.

Lemma process_interest_stored c c' u : process_interest c = (c', Ok u) ->
  find_mtp (c_s c') (c_addr c') (c_id c') = Some (c_mtp c').
Proof.
  unfold process_interest. intros H. pmg H.
  pm H as c1 h E1. pm H as c2 u2 E2. pmg H. pm H as c3 i E3. pm H as c4 fin E4. pm H as c5 u5 E5.
  eapply set_mtp_stored; eassumption.
Qed.

Lemma LoopInv_after_interest a s p m addr id cA :
  LoopInv a s p -> find_mtp s addr id = Some m -> on_pool a m ->
  Keeps true (mkCtx s p m a addr id) cA ->
  find_mtp (c_s cA) (c_addr cA) (c_id cA) = Some (c_mtp cA) ->
  LoopInv a (c_s cA) (c_pool cA).
Proof.
  intros (HA & HB & HO) Hf Hon (L & K & _ & O) Hst.
  pose proof K as (K1 & K2 & K3 & Ka & Kaddr & Kid & Kp & Kh & Ko & Kc & Kpools). cbn in Ka, Kaddr, Kid, Ko, Kc, Kpools, K1, K2, K3.
  assert (Ht : forall g, tot g (c_s cA) = tot g s - g m + g (c_mtp cA)).
  { intros g. specialize (O g). unfold others in O. rewrite Hst in O. cbn -[tot] in O. rewrite Hf in O. cbn [gopt] in O. lia. }
  split; [|split].
  - unfold Link in L. rewrite Ka in L. destruct L as (L1 & L2 & L3 & L4).
    unfold pool_agrees. rewrite !Ht.
    assert (Ho : forall g, others g cA = tot g s - g m).
    { intros g. rewrite O. apply others_mk. exact Hf. }
    rewrite !Ho in *. repeat split; lia.
  - intros a' p' Hne Hg Hr. rewrite Kpools in Hg by exact Hne.
    destruct (HB _ _ Hne Hg Hr) as (A1 & A2 & A3 & A4).
    assert (HonA : on_pool a (c_mtp cA)) by (unfold on_pool in *; rewrite K1, K2; exact Hon).
    destruct (g_other_zero _ _ _ Hon Hne Hr) as (Z1 & Z2 & Z3 & Z4).
    destruct (g_other_zero _ _ _ HonA Hne Hr) as (Y1 & Y2 & Y3 & Y4).
    unfold pool_agrees. rewrite !Ht, Z1, Z2, Z3, Z4, Y1, Y2, Y3, Y4. repeat split; lia.
  - rewrite Ko, Ht. unfold g_one at 2 3. lia.
Qed.

Lemma LoopInv_after_close a s p m addr id cF :
  LoopInv a s p -> find_mtp s addr id = Some m -> on_pool a m ->
  Closed (mkCtx s p m a addr id) (c_s cF) -> get a (ms_pools (c_s cF)) = Some (c_pool cF) ->
  LoopInv a (c_s cF) (c_pool cF).
Proof.
  intros (HA & HB & HO) Hf Hon (C1 & (P' & G' & Q1 & Q2 & Q3 & Q4) & C3 & C4 & C5) Hmem.
  cbn [c_asset c_s] in *. rewrite Hmem in G'. injection G' as <-.
  assert (Ht : forall g, tot g (c_s cF) = tot g s - g m) by (intros g; rewrite C1; apply others_mk; exact Hf).
  split; [|split].
  - unfold pool_agrees. rewrite !Ht, Q1, Q2, Q3, Q4, !(others_mk _ _ _ _ _ _ _ Hf). auto.
  - intros a' p' Hne Hg Hr. rewrite C3 in Hg by exact Hne. destruct (HB _ _ Hne Hg Hr) as (A1 & A2 & A3 & A4).
    destruct (g_other_zero _ _ _ Hon Hne Hr) as (Z1 & Z2 & Z3 & Z4).
    unfold pool_agrees. rewrite !Ht, Z1, Z2, Z3, Z4. repeat split; lia.
  - rewrite Ht. pose proof (tot_ge g_one s addr id m g_nonneg_one Hf) as Hge. unfold g_one in Hge at 1.
    rewrite C4, HO. destruct (Z.eqb_spec (tot g_one s) 0); [lia|]. unfold g_one at 3. lia.
Qed.

(* C13: one position of the begin blocker. Whatever happens (interest only, liquidation, error, panic) the loop
   invariant is kept; a position is liquidated only if the health computed for it is at most the safety factor. *)
Theorem process_mtp_step a s p m addr id c' o :
  process_mtp (mkCtx s p m a addr id) = (c', o) ->
  epoch_position s = 0 ->
  LoopInv a s p -> find_mtp s addr id = Some m -> on_pool a m -> id <> 0 -> pct_ok s ->
  0 <= m_cust_amt m <= bal (ms_bank s) CLP_MODULE (m_cust_asset m) ->
  LoopInv a (c_s c') (c_pool c') /\
  (forall h, o = Ok h -> h <= mp_safety (ms_params s)).
Proof.
  intros H Hep HL Hf Hon Hid Hp Hfunds.
  set (c := mkCtx s p m a addr id) in *.
  assert (Hh : interest_hyps c).
  { unfold interest_hyps, c; cbn. split; [exact Hon|]. split; [exact Hid|]. split; [exact Hp|exact Hfunds]. }
  assert (L : Link true true c) by (apply link_of_agrees; [exact (proj1 HL)|exact Hf]).
  unfold process_mtp in H.
  destruct (process_interest c) as [cA oA] eqn:EA.
  destruct oA as [uA|e|].
  2:{ injection H as <- <-. cbn. split; [exact HL|]. intros h Hc. discriminate. }
  2:{ injection H as <- <-. cbn. split; [exact HL|]. intros h Hc. discriminate. }
  pose proof (process_interest_ok _ _ _ EA Hh L) as HK.
  pose proof (process_interest_stored _ _ _ EA) as Hst.
  pose proof (LoopInv_after_interest _ _ _ _ _ _ _ HL Hf Hon HK Hst) as HLA.
  destruct (force_close_long false true cA) as [cF oF] eqn:EF.
  destruct oF as [r|e|].
  - injection H as <- <-.
    pose proof HK as (LA & KA & _ & _).
    pose proof KA as (K1&K2&K3&Ka&Kaddr&Kid&Kp&Kh&_). cbn in K1, K2, K3, Ka, Kaddr, Kid, Kp, Kh.
    assert (HonA : on_pool (c_asset cA) (c_mtp cA)) by (eapply keeps_on_pool; [exact HK|exact Hon]).
    assert (HepA : epoch_position (c_s cA) = 0) by (unfold epoch_position in *; rewrite Kp, Kh; exact Hep).
    destruct (force_close_long_ok _ _ _ _ _ EF HonA (fun Hc => False_ind _ (Hc HepA)) LA) as (HC & Hsafe & _ & Hmem).
    split.
    + destruct cA as [sA pA mA aA addrA idA]. cbn in *. subst aA addrA idA.
      eapply (LoopInv_after_close a sA pA mA addr id cF); try eassumption.
    + intros h [= <-]. rewrite <- Kp. apply Hsafe. reflexivity.
  - injection H as <- <-. split; [exact HLA|]. intros h Hc. discriminate.
  - injection H as <- <-. cbn. split; [exact HL|]. intros h Hc. discriminate.
Qed.

(* ---------- Open ---------- *)
Lemma set_mtp_new c c' u : set_mtp c = (c', Ok u) -> c_id c = 0 ->
  c' = c <| c_id := ms_count (c_s c) + 1 |>
         <| c_s := put_mtp ((c_s c) <| ms_count := ms_count (c_s c) + 1 |> <| ms_open := ms_open (c_s c) + 1 |>) (c_addr c) (ms_count (c_s c) + 1) (c_mtp c) |>.
Proof. unfold set_mtp. intros H Hid. apply modc_ok in H. rewrite Hid in H. cbn [Z.eqb] in H. exact H. Qed.

(* Borrow: collateral in, liabilities booked, the position stored under a new id *)
Lemma borrow_fn_ok coll_amt cust_amt eta c c' u :
  borrow_fn coll_amt cust_amt eta c = (c', Ok u) ->
  c_id c = 0 -> m_cust_amt (c_mtp c) = 0 -> m_liab (c_mtp c) = 0 -> m_coll_amt (c_mtp c) = 0 ->
  on_pool (c_asset c) (c_mtp c) ->
  find_mtp (c_s c) (c_addr c) 0 = None -> find_mtp (c_s c) (c_addr c) (ms_count (c_s c) + 1) = None ->
  Link false false c ->
  Link false true c' /\ (forall g, others g c' = others g c) /\
  c_id c' = ms_count (c_s c) + 1 /\ c_addr c' = c_addr c /\ c_asset c' = c_asset c /\
  find_mtp (c_s c') (c_addr c') (c_id c') = Some (c_mtp c') /\
  m_coll_asset (c_mtp c') = m_coll_asset (c_mtp c) /\ m_cust_asset (c_mtp c') = m_cust_asset (c_mtp c) /\
  m_cust_amt (c_mtp c') = cust_amt /\ m_coll_amt (c_mtp c') = coll_amt /\
  ms_open (c_s c') = ms_open (c_s c) + 1 /\ ms_count (c_s c') = ms_count (c_s c) + 1 /\
  ms_params (c_s c') = ms_params (c_s c) /\
  (forall a', a' <> c_asset c -> get a' (ms_pools (c_s c')) = get a' (ms_pools (c_s c))) /\
  send (ms_bank (c_s c)) (c_addr c) CLP_MODULE (m_coll_asset (c_mtp c)) coll_amt = Some (ms_bank (c_s c')).
Proof.
  unfold borrow_fn. intros H Hid Hcu0 Hl0 Hca0 Hon Hf0 Hfn L. pmg H.
  pm H as c1 u1 E1. assert (c1 = c) by (destruct (_ <? _); [exfalso; eapply failM_not_ok; eassumption|apply ret_ok in E1; tauto]). subst c1.
  pm H as c2 liab_add E2. apply lift_ok in E2. destruct E2 as (-> & El).
  pm H as c3 u3 E3. apply upd_mtp_ok in E3. destruct E3 as (m3 & Em3 & ->).
  repeat inv1 Em3. uints. subst.
  pmg H. pm H as c4 h E4. apply lift_ok in E4. destruct E4 as (-> & _).
  pm H as c5 u5 E5. apply upd_mtp_ok in E5. destruct E5 as (m5 & Em5 & ->). injection Em5 as <-.
  pm H as c6 u6 E6. apply bank_send_ok in E6. destruct E6 as (b & Hsend & ->).
  pmg H. pm H as c7 u7 E7. apply upd_pool_ok in E7. destruct E7 as (p7 & Hp7 & ->).
  pm H as c8 u8 E8. apply set_pool_ok in E8. subst c8.
  apply set_mtp_new in H; [|cbn; exact Hid]. subst c'.
  cbn -[find_mtp put_mtp others tot get Store.set g_nc g_ec g_nl g_el send] in *.
  rewrite Hcu0, Hl0, Hca0 in *.
  set (M := c_mtp c <| m_coll_amt := 0 + coll_amt |> <| m_liab := 0 + liab_add |> <| m_cust_amt := 0 + cust_amt |> <| m_lev := eta + PREC |> <| m_health := h |>) in *.
  set (id' := ms_count (c_s c) + 1) in *.
  (* what the others hold does not change: the new key was free *)
  assert (HO : forall g st, ms_mtps st = ms_mtps (c_s c) ->
                 tot g (put_mtp st (c_addr c) id' M) - g M = tot g (c_s c) - gopt g (find_mtp (c_s c) (c_addr c) (c_id c))).
  { intros g st Hst. rewrite tot_put, (tot_core g _ _ Hst), (find_core _ _ _ _ Hst), Hfn, Hid, Hf0. cbn [gopt]. lia. }
  assert (Hoth : forall g, others g (c <| c_mtp := M |> <| c_s := c_s c <| ms_bank := b |> |> <| c_pool := p7 |>
                  <| c_s := c_s c <| ms_bank := b |> <| ms_pools := set (c_asset c) p7 (ms_pools (c_s c <| ms_bank := b |>)) |> |>
                  <| c_id := id' |>
                  <| c_s := put_mtp (c_s c <| ms_bank := b |> <| ms_pools := set (c_asset c) p7 (ms_pools (c_s c <| ms_bank := b |>)) |>
                                         <| ms_count := id' |> <| ms_open := ms_open (c_s c) + 1 |>) (c_addr c) id' M |>) = others g c).
  { intros g. unfold others. cbn -[tot find_mtp put_mtp]. rewrite find_put_same. cbn [gopt]. apply HO. reflexivity. }
  split.
  { unfold Link. rewrite !Hoth. cbn -[others g_nc g_ec g_nl g_el].
    destruct L as (L1 & L2 & L3 & L4).
    assert (HonM : on_pool (c_asset c) M) by (unfold on_pool, M in *; cbn; exact Hon).
    destruct (gs_on_pool _ _ HonM) as [(Hcu & G1 & G2 & G3 & G4)|(Hcu & G1 & G2 & G3 & G4)].
    - assert (Ecoll : (m_coll_asset (c_mtp c) =? ROWAN) = false).
      { destruct Hon as (Ha & [(Hc1 & Hc2)|(Hc1 & Hc2)]); [unfold M in Hcu; cbn in Hcu; congruence|]. rewrite Hc2. apply Z.eqb_neq. exact Ha. }
      rewrite Ecoll in Hp7. repeat inv1 Hp7. uints. subst. cbn. rewrite G3, G4. unfold M. cbn. repeat split; lia.
    - assert (Ecoll : (m_coll_asset (c_mtp c) =? ROWAN) = true).
      { destruct Hon as (Ha & [(Hc1 & Hc2)|(Hc1 & Hc2)]); [rewrite Hc1; reflexivity|]. unfold M in Hcu; cbn in Hcu. congruence. }
      rewrite Ecoll in Hp7. repeat inv1 Hp7. uints. subst. cbn. rewrite G3, G4. unfold M. cbn. repeat split; lia. }
  split; [exact Hoth|].
  cbn -[find_mtp put_mtp get Store.set send].
  split; [reflexivity|]. split; [reflexivity|]. split; [reflexivity|].
  split; [apply find_put_same|].
  unfold M. cbn -[get Store.set send].
  split; [reflexivity|]. split; [reflexivity|]. split; [lia|]. split; [lia|].
  split; [reflexivity|]. split; [reflexivity|]. split; [reflexivity|].
  split; [intros a' Ha'; apply get_set_other; exact Ha'|exact Hsend].
Qed.

(* C13: Open. An accepted Open takes exactly the stated collateral from the trader into the module account, stores
   one new position that lives on exactly one pool, whose health exceeds the safety factor, and keeps the sums *)
Theorem open_preserves s hl signer coll borrow amt lev c' u :
  SumInv s ->
  find_mtp s signer 0 = None -> find_mtp s signer (ms_count s + 1) = None ->
  open_msg s hl signer coll borrow amt lev = (c', Ok u) ->
  let a := if coll =? ROWAN then borrow else coll in
  let M := c_mtp c' in
  SumInv (c_s c') /\
  find_mtp (c_s c') signer (ms_count s + 1) = Some M /\ on_pool a M /\
  m_coll_asset M = coll /\ m_cust_asset M = borrow /\ m_coll_amt M = amt /\
  send (ms_bank s) signer CLP_MODULE coll amt = Some (ms_bank (c_s c')) /\
  (exists lr, mtp_health (c_s c') a M (c_pool c') = Ok lr /\ mp_safety (ms_params s) < lr) /\
  get a (ms_pools (c_s c')) = Some (c_pool c').
Proof.
  intros (HP & HO) Hf0 Hfn H a M. unfold open_msg in H.
  destruct (mp_whitelisting (ms_params s) && negb (mem signer (ms_whitelist s))); [inversion H|].
  destruct (mp_max_open (ms_params s) <=? ms_open s); [inversion H|].
  fold a in H. destruct (get a (ms_pools s)) as [pool|] eqn:Hg; [|inversion H].
  destruct (negb (mem a (mp_pools (ms_params s))) || mem a (mp_closed (ms_params s))); [inversion H|].
  destruct hl; [inversion H|].
  destruct (Bool.eqb (coll =? ROWAN) (borrow =? ROWAN)) eqn:Ex; [inversion H|].
  set (lv := Z.min lev (mp_lev_max (ms_params s))) in *.
  set (c1 := mkCtx s pool (new_mtp coll borrow lv) a signer 0) in *.
  assert (Hon : on_pool a (new_mtp coll borrow lv)).
  { unfold on_pool, new_mtp, a. cbn. destruct (Z.eqb_spec coll ROWAN) as [->|Hc]; destruct (Z.eqb_spec borrow ROWAN) as [->|Hb]; cbn in Ex; try discriminate.
    - split; [exact Hb|]. left. auto.
    - split; [exact Hc|]. right. auto. }
  assert (Ha : a <> ROWAN) by apply Hon.
  destruct (negb (mp_rowan_coll (ms_params s)) && (coll =? ROWAN)); [exfalso; eapply failM_not_ok; eassumption|].
  pm H as c2 lamt E2. apply lift_ok in E2. destruct E2 as (-> & _).
  pm H as c3 u3 E3. assert (c3 = c1) by (destruct (_ <? lamt); [exfalso; eapply failM_not_ok; eassumption|apply ret_ok in E3; tauto]). subst c3.
  pm H as c4 u4 E4. apply lift_ok in E4. destruct E4 as (-> & _).
  pm H as c5 cust E5. apply lift_ok in E5. destruct E5 as (-> & _).
  pm H as c6 u6 E6. assert (c6 = c1) by (destruct (_ <? cust); [exfalso; eapply failM_not_ok; eassumption|apply ret_ok in E6; tauto]). subst c6.
  pm H as c7 u7 E7.
  assert (L1 : Link false false c1).
  { destruct (HP _ _ Hg Ha) as (A1 & A2 & A3 & A4). unfold Link, others, c1. cbn -[tot find_mtp]. rewrite Hf0. cbn [gopt]. repeat split; lia. }
  destruct (borrow_fn_ok _ _ _ _ _ _ E7 eq_refl eq_refl eq_refl eq_refl Hon Hf0 Hfn L1)
    as (L7 & O7 & Hid7 & Haddr7 & Ha7 & Hst7 & Hca7 & Hcu7 & Hcam7 & Hcoll7 & Hop7 & Hcnt7 & Hpar7 & Hpools7 & Hsend).
  cbn [c_s c_addr c_asset c_mtp c1 new_mtp m_coll_asset m_cust_asset] in *.
  pm H as c8 u8 E8. pose proof (set_pool_core _ _ _ E8) as Hc8.
  pm H as c9 u9 E9.
  pose proof Hc8 as (HP8 & (M1 & M2 & M3 & M4 & K1 & K2 & K3 & S1 & S2 & S3 & S4 & S5 & S6)).
  assert (Hon8 : on_pool (c_asset c8) (c_mtp c8)) by (unfold on_pool in *; rewrite M1, M2, K1, Hca7, Hcu7, Ha7; exact Hon).
  destruct (take_in_custody_link _ _ _ _ E9 Hon8 (Link_core _ _ _ _ Hc8 L7)) as (L9 & Hm9).
  pose proof Hm9 as (N1 & N2 & N3 & N4 & J1 & J2 & J3 & T1 & T2 & T3 & T4 & T5 & T6).
  pmg H. pm H as c10 lr E10. apply lift_ok in E10. destruct E10 as (-> & Elr).
  destruct (Z.leb_spec lr (mp_safety (ms_params s))) as [Hle|Hgt]; [exfalso; eapply failM_not_ok; eassumption|].
  apply ret_ok in H. destruct H as (-> & _).
  (* the final context c9 *)
  assert (Ea9 : c_asset c9 = a) by congruence.
  assert (Eaddr9 : c_addr c9 = signer) by congruence.
  assert (Eid9 : c_id c9 = ms_count s + 1) by congruence.
  assert (Hst9 : find_mtp (c_s c9) signer (ms_count s + 1) = Some (c_mtp c9)).
  { rewrite (find_core _ _ _ _ T1), (find_core _ _ _ _ S1). rewrite <- Haddr7, <- Hid7.
    assert (Em : c_mtp c9 = c_mtp c7).
    { clear -E8 E9. apply set_pool_ok in E8. subst c8. unfold take_in_custody in E9. pmg E9. pm E9 as cx ux Ex.
      apply upd_pool_ok in Ex. destruct Ex as (px & _ & ->). apply set_pool_ok in E9. subst c9. reflexivity. }
    rewrite Em. exact Hst7. }
  assert (Hmem : get a (ms_pools (c_s c9)) = Some (c_pool c9)).
  { clear -E9 Ea9 J1 K1 Ha7. unfold take_in_custody in E9. pmg E9. pm E9 as cx ux Ex.
    apply upd_pool_ok in Ex. destruct Ex as (px & _ & ->). apply set_pool_ok in E9. subst c9.
    cbn -[get Store.set] in *. rewrite <- Ea9. apply get_set_same. }
  assert (HonM : on_pool a (c_mtp c9)) by (unfold on_pool in *; rewrite N1, N2, M1, M2, Hca7, Hcu7; exact Hon).
  assert (Ht : forall g, tot g (c_s c9) = tot g s + g (c_mtp c9)).
  { intros g. pose proof (others_core g _ _ Hm9) as O9. pose proof (others_core g _ _ (proj2 Hc8)) as O8. specialize (O7 g).
    unfold others in O9 at 1. rewrite Eaddr9, Eid9, Hst9 in O9. cbn [gopt] in O9.
    unfold others in O7 at 2. cbn -[tot] in O7. rewrite Hf0 in O7. cbn [gopt] in O7. lia. }
  split.
  { split.
    - intros a' p' Hg' Hr. destruct (Z.eq_dec a' a) as [->|Hne].
      + rewrite Hmem in Hg'. injection Hg' as <-. unfold pool_agrees. rewrite !Ht.
        unfold Link in L9. rewrite Ea9 in L9. destruct L9 as (Q1 & Q2 & Q3 & Q4).
        assert (Ho : forall g, others g c9 = tot g s).
        { intros g. rewrite (others_core g _ _ Hm9), (others_core g _ _ (proj2 Hc8)), O7. unfold others. cbn -[tot]. rewrite Hf0. cbn [gopt]. lia. }
        rewrite !Ho in *. auto.
      + assert (Hg0 : get a' (ms_pools s) = Some p').
        { rewrite <- Hpools7 by exact Hne. rewrite <- S6 by congruence. rewrite <- T6 by congruence. exact Hg'. }
        destruct (HP _ _ Hg0 Hr) as (A1 & A2 & A3 & A4).
        destruct (g_other_zero _ _ _ HonM Hne Hr) as (Z1 & Z2 & Z3 & Z4).
        unfold pool_agrees. rewrite !Ht, Z1, Z2, Z3, Z4. repeat split; lia.
    - rewrite Ht, T2, S2, Hop7, HO. unfold g_one at 3. lia. }
  fold M. split; [exact Hst9|]. split; [exact HonM|].
  split; [unfold M; congruence|]. split; [unfold M; congruence|].
  split.
  { assert (Em : c_mtp c9 = c_mtp c7).
    { clear -E8 E9. apply set_pool_ok in E8. subst c8. unfold take_in_custody in E9. pmg E9. pm E9 as cx ux Ex.
      apply upd_pool_ok in Ex. destruct Ex as (px & _ & ->). apply set_pool_ok in E9. subst c9. reflexivity. }
    unfold M. rewrite Em. exact Hcoll7. }
  split.
  { assert (Eb : ms_bank (c_s c9) = ms_bank (c_s c7)).
    { clear -E8 E9. apply set_pool_ok in E8. subst c8. unfold take_in_custody in E9. pmg E9. pm E9 as cx ux Ex.
      apply upd_pool_ok in Ex. destruct Ex as (px & _ & ->). apply set_pool_ok in E9. subst c9. reflexivity. }
    rewrite Eb. exact Hsend. }
  split; [|exact Hmem].
  exists lr. split; [exact Elr|exact Hgt].
Qed.

(* ---------- the begin blocker's loop over the positions of one pool ---------- *)
Definition bb_step (asset : Z) (acc : mstate * mpool * list (Z * Z * Z)) (t : Z * Z * mtp) : mstate * mpool * list (Z * Z * Z) :=
  let '(st, p, closed) := acc in
  let '(addr, id, m) := t in
  let '(c', o) := process_mtp (mkCtx st p m asset addr id) in
  (c_s c', c_pool c', match o with Ok h => closed ++ [(addr, id, h)] | _ => closed end).

(* per-step side conditions: the listed position is still stored as listed when its turn comes (the steps before it
   wrote only their own keys), it lives on this pool, the module account covers its custody *)
Fixpoint steps_ok (asset : Z) (st : mstate) (p : mpool) (ms : list (Z * Z * mtp)) : Prop :=
  match ms with
  | [] => True
  | (addr, id, m) :: rest =>
    find_mtp st addr id = Some m /\ on_pool asset m /\ id <> 0 /\ epoch_position st = 0 /\ pct_ok st /\
    0 <= m_cust_amt m <= bal (ms_bank st) CLP_MODULE (m_cust_asset m) /\
    let '(c', _) := process_mtp (mkCtx st p m asset addr id) in steps_ok asset (c_s c') (c_pool c') rest
  end.

Lemma bb_loop asset : forall ms st p closed st' p' closed',
  fold_left (bb_step asset) ms (st, p, closed) = (st', p', closed') ->
  LoopInv asset st p -> steps_ok asset st p ms ->
  LoopInv asset st' p' /\
  (forall addr id h, In (addr, id, h) closed' -> In (addr, id, h) closed \/ exists st0, h <= mp_safety (ms_params st0)).
Proof.
  induction ms as [|[[addr id] m] rest IH]; intros st p closed st' p' closed' H HL Hs.
  - cbn in H. injection H as <- <- <-. split; [exact HL|]. intros; left; assumption.
  - cbn [fold_left] in H. cbn [steps_ok] in Hs. destruct Hs as (Hf & Hon & Hid & Hep & Hp & Hfunds & Hrest).
    unfold bb_step at 2 in H.
    destruct (process_mtp (mkCtx st p m asset addr id)) as [c1 o1] eqn:E.
    destruct (process_mtp_step _ _ _ _ _ _ _ _ E Hep HL Hf Hon Hid Hp Hfunds) as (HL1 & Hsafe).
    destruct (IH _ _ _ _ _ _ H HL1 Hrest) as (HLf & Hc).
    split; [exact HLf|].
    intros a0 i0 h0 Hin. destruct (Hc _ _ _ Hin) as [Hin'|Hex]; [|right; exact Hex].
    destruct o1 as [h| |]; [|left; exact Hin'|left; exact Hin'].
    apply in_app_or in Hin'. destruct Hin' as [Hin'|[Heq|[]]]; [left; exact Hin'|].
    injection Heq as <- <- <-. right. exists st. apply Hsafe. reflexivity.
Qed.

(* writing the in-memory pool back at the end turns the loop invariant into the state invariant *)
Lemma LoopInv_write asset st p : asset <> ROWAN -> LoopInv asset st p -> SumInv (st <| ms_pools := set asset p (ms_pools st) |>).
Proof.
  intros Ha (HA & HB & HO). split.
  - intros a' p' Hg Hr. cbn -[get Store.set] in Hg. destruct (Z.eq_dec a' asset) as [->|Hne].
    + rewrite get_set_same in Hg. injection Hg as <-. exact HA.
    + rewrite get_set_other in Hg by exact Hne. apply (HB _ _ Hne Hg Hr).
  - exact HO.
Qed.

Definition bb_p1 (pool : mpool) (new_rate : Z * Z * Z) : mpool :=
  let '(r, rn, rd) := new_rate in
  pool <| q_bin := 0 |> <| q_bie := 0 |> <| q_rate := r |> <| q_rate_num := rn |> <| q_rate_den := rd |>.
Definition bb_s1 (s : mstate) (asset : Z) (pool : mpool) (new_rate : Z * Z * Z) : mstate :=
  s <| ms_pools := set asset (bb_p1 pool new_rate) (ms_pools s) |>.
Definition bb_list (s : mstate) (asset : Z) : list (Z * Z * mtp) :=
  filter (fun t => let '(_, _, m) := t in (m_cust_asset m =? asset) || (m_coll_asset m =? asset)) (all_mtps s).

Lemma pool_agrees_fields s s' a p p' :
  ms_mtps s' = ms_mtps s -> q_nc p' = q_nc p -> q_ec p' = q_ec p -> q_nl p' = q_nl p -> q_el p' = q_el p ->
  pool_agrees s a p -> pool_agrees s' a p'.
Proof.
  intros Hm E1 E2 E3 E4 (A1 & A2 & A3 & A4). unfold pool_agrees. rewrite !(tot_core _ _ _ Hm), E1, E2, E3, E4. auto.
Qed.

(* C13: the begin blocker's pass over one pool keeps the invariant and liquidates only at or below the safety factor *)
Theorem begin_block_pool_preserves s asset pool new_rate s' closed :
  SumInv s -> get asset (ms_pools s) = Some pool -> asset <> ROWAN ->
  begin_block_pool s asset pool new_rate = Ok (s', closed) ->
  steps_ok asset (bb_s1 s asset pool new_rate) (bb_p1 pool new_rate) (bb_list (bb_s1 s asset pool new_rate) asset) ->
  SumInv s' /\ (forall addr id h, In (addr, id, h) closed -> exists st0, h <= mp_safety (ms_params st0)).
Proof.
  intros (HP & HO) Hg Ha H Hsteps. unfold begin_block_pool in H.
  destruct (negb (mem asset (mp_pools (ms_params s)))).
  - injection H as <- <-. split; [|intros ? ? ? []].
    apply LoopInv_write; [exact Ha|]. split; [|split].
    + eapply pool_agrees_fields; [reflexivity|reflexivity|reflexivity|reflexivity|reflexivity|apply (HP _ _ Hg Ha)].
    + intros a' p' Hne Hg' Hr. apply (HP _ _ Hg' Hr).
    + exact HO.
  - destruct ((q_nb (pool <| q_bin := 0 |> <| q_bie := 0 |>) =? 0) || (q_eb (pool <| q_bin := 0 |> <| q_bie := 0 |>) =? 0)).
    { (* empty side: the pool is skipped, nothing is written *)
      injection H as <- <-. split; [split; assumption|intros ? ? ? []]. }
    destruct new_rate as [[r rn] rd].
    change (pool <| q_bin := 0 |> <| q_bie := 0 |> <| q_rate := r |> <| q_rate_num := rn |> <| q_rate_den := rd |>) with (bb_p1 pool (r, rn, rd)) in H.
    change (s <| ms_pools := set asset (bb_p1 pool (r, rn, rd)) (ms_pools s) |>) with (bb_s1 s asset pool (r, rn, rd)) in H.
    set (s1 := bb_s1 s asset pool (r, rn, rd)) in *. set (p1 := bb_p1 pool (r, rn, rd)) in *.
    change (filter _ (all_mtps s1)) with (bb_list s1 asset) in H.
    change (fold_left _ (bb_list s1 asset) (s1, p1, [])) with (fold_left (bb_step asset) (bb_list s1 asset) (s1, p1, [])) in H.
    destruct (fold_left (bb_step asset) (bb_list s1 asset) (s1, p1, [])) as [[s2 p2] cl] eqn:EF.
    injection H as <- <-.
    assert (HL1 : LoopInv asset s1 p1).
    { split; [|split].
      - eapply (pool_agrees_fields s s1 asset pool p1); try reflexivity. apply (HP _ _ Hg Ha).
      - intros a' p' Hne Hg' Hr. unfold s1, bb_s1 in Hg'. cbn -[get Store.set] in Hg'. rewrite get_set_other in Hg' by exact Hne.
        eapply pool_agrees_fields; [reflexivity|reflexivity|reflexivity|reflexivity|reflexivity|apply (HP _ _ Hg' Hr)].
      - exact HO. }
    destruct (bb_loop asset _ _ _ _ _ _ _ EF HL1 Hsteps) as (HLf & Hc).
    split; [apply LoopInv_write; assumption|].
    intros addr id h Hin. destruct (Hc _ _ _ Hin) as [[]|Hex]. exact Hex.
Qed.

(* ---------- C01 for x/margin: what the module account holds beyond what the pool records never changes ---------- *)
(* the in-memory pool's recorded native / external amounts (balance + custody) against the module account *)
Definition Gn (c : mctx) : Z := bal (ms_bank (c_s c)) CLP_MODULE ROWAN - (q_nb (c_pool c) + q_nc (c_pool c)).
Definition Ge (c : mctx) : Z := bal (ms_bank (c_s c)) CLP_MODULE (c_asset c) - (q_eb (c_pool c) + q_ec (c_pool c)).
Definition gap_eq (c c' : mctx) : Prop :=
  Gn c' = Gn c /\ Ge c' = Ge c /\ c_asset c' = c_asset c /\
  (forall d, d <> ROWAN -> d <> c_asset c -> bal (ms_bank (c_s c')) CLP_MODULE d = bal (ms_bank (c_s c)) CLP_MODULE d).

Lemma gap_eq_refl c : gap_eq c c.
Proof. unfold gap_eq. auto. Qed.
Lemma gap_eq_trans c1 c2 c3 : gap_eq c1 c2 -> gap_eq c2 c3 -> gap_eq c1 c3.
Proof.
  unfold gap_eq. intros (A1 & A2 & A3 & A4) (B1 & B2 & B3 & B4). repeat split; try congruence.
  intros d H1 H2. rewrite B4 by congruence. apply A4; assumption.
Qed.

(* steps that touch neither the bank nor the pool's balances and custody *)
Lemma gap_eq_same c c' :
  ms_bank (c_s c') = ms_bank (c_s c) -> c_asset c' = c_asset c ->
  q_nb (c_pool c') = q_nb (c_pool c) -> q_nc (c_pool c') = q_nc (c_pool c) ->
  q_eb (c_pool c') = q_eb (c_pool c) -> q_ec (c_pool c') = q_ec (c_pool c) -> gap_eq c c'.
Proof. intros Hb Ha E1 E2 E3 E4. unfold gap_eq, Gn, Ge. rewrite Hb, Ha, E1, E2, E3, E4. auto. Qed.

Lemma set_pool_gap c c' u : set_pool c = (c', Ok u) -> gap_eq c c'.
Proof. intros H. apply set_pool_ok in H. subst. apply gap_eq_same; reflexivity. Qed.
Lemma upd_mtp_gap f c c' u : upd_mtp f c = (c', Ok u) -> gap_eq c c'.
Proof. intros H. apply upd_mtp_ok in H. destruct H as (m & _ & ->). apply gap_eq_same; reflexivity. Qed.
Lemma set_mtp_gap c c' u : set_mtp c = (c', Ok u) -> gap_eq c c'.
Proof. unfold set_mtp. intros H. apply modc_ok in H. subst. destruct (c_id c =? 0); apply gap_eq_same; reflexivity. Qed.
Lemma destroy_mtp_gap c c' u : destroy_mtp c = (c', Ok u) -> gap_eq c c'.
Proof. intros H. apply destroy_mtp_ok in H. destruct H as (_ & ->). apply gap_eq_same; reflexivity. Qed.

(* coins leaving the module account: the gap drops by x in that denom unless the pool's books drop with it *)
Lemma bank_out_effect to d x c c' u : bank_send CLP_MODULE to d x c = (c', Ok u) -> to <> CLP_MODULE ->
  0 <= x /\ (forall d', bal (ms_bank (c_s c')) CLP_MODULE d' = bal (ms_bank (c_s c)) CLP_MODULE d' - (if d' =? d then x else 0)) /\
  c_pool c' = c_pool c /\ c_asset c' = c_asset c.
Proof.
  intros H Hto. apply bank_send_ok in H. destruct H as (b & Hs & ->). apply send_effect in Hs. destruct Hs as (Hx & Hb & _).
  split; [exact Hx|]. split; [|split; reflexivity].
  intros d'. cbn -[bal]. rewrite Hb. rewrite Z.eqb_refl. destruct (Z.eqb_spec CLP_MODULE to); [congruence|]. cbn [andb].
  destruct (d' =? d); lia.
Qed.

Lemma take_fund_payment_effect amount asset pct fund c c' t :
  take_fund_payment amount asset pct fund c = (c', Ok t) -> fund <> CLP_MODULE ->
  0 <= t /\ (forall d', bal (ms_bank (c_s c')) CLP_MODULE d' = bal (ms_bank (c_s c)) CLP_MODULE d' - (if d' =? asset then t else 0)) /\
  c_pool c' = c_pool c /\ c_asset c' = c_asset c.
Proof.
  unfold take_fund_payment. intros H Hf. pm H as c1 tk E1. apply lift_ok in E1. destruct E1 as (-> & Et).
  pm H as c2 u E2. apply ret_ok in H. destruct H as (-> & ->).
  assert (Ht0 : 0 <= tk) by (repeat inv1 Et; uints; lia).
  destruct (Z.eqb_spec tk 0) as [->|Hne].
  - apply ret_ok in E2. destruct E2 as (-> & _). split; [lia|]. split; [|split; reflexivity].
    intros d'. destruct (d' =? asset); lia.
  - destruct (bank_out_effect _ _ _ _ _ _ E2 Hf) as (_ & Hb & Hp & Ha). auto.
Qed.

Lemma upd_mtp_gap_any f c c' o : upd_mtp f c = (c', o) -> gap_eq c c'.
Proof.
  intros H. apply upd_mtp_any in H. destruct (f (c_mtp c)); destruct H as (-> & _); try apply gap_eq_refl. apply gap_eq_same; reflexivity.
Qed.

Lemma take_fund_payment_err amount asset pct fund c c' e : take_fund_payment amount asset pct fund c = (c', Err e) -> c' = c.
Proof.
  unfold take_fund_payment. intros H. pma H as c1 o1 E1. apply lift_any in E1. destruct E1 as (-> & ->).
  match type of H with match ?x with _ => _ end => destruct x as [tk|e1|] end; [|destruct H; assumption|destruct H; discriminate].
  pma H as c2 o2 E2. destruct (tk =? 0).
  - unfold ret in E2. injection E2 as <- <-. unfold ret in H. inversion H.
  - apply bank_send_any in E2. destruct (send _ _ _ _ _); destruct E2 as (-> & ->); [unfold ret in H; inversion H|destruct H; assumption].
Qed.

(* the custody side of the pool: recorded amounts on the side that holds the position's custody *)
Lemma incremental_gap_any i c c' o :
  incremental_interest_payment i c = (c', o) -> on_pool (c_asset c) (c_mtp c) ->
  mp_incr_fund (ms_params (c_s c)) <> CLP_MODULE ->
  match o with Panic => True | _ => gap_eq c c' end.
Proof.
  unfold incremental_interest_payment. intros H Hon Hfund. pmg H.
  pma H as c1 o1 E1. apply lift_any in E1. destruct E1 as (-> & ->).
  match type of H with match ?x with _ => _ end => destruct x as [interest|e|] end; [|destruct H as (-> & ->); apply gap_eq_refl|destruct H as (_ & ->); exact I].
  pma H as c2 o2 E2. apply lift_any in E2. destruct E2 as (-> & ->).
  match type of H with match ?x with _ => _ end => destruct x as [ipc|e|] end; [|destruct H as (-> & ->); apply gap_eq_refl|destruct H as (_ & ->); exact I].
  pma H as c3 o3 E3. pose proof (upd_mtp_gap_any _ _ _ _ E3) as G3.
  destruct o3 as [u3|e|]; [|destruct H as (-> & ->); exact G3|destruct H as (_ & ->); exact I].
  pma H as c4 o4 E4.
  assert (G4 : match o4 with Panic => True | _ => gap_eq c3 c4 end).
  { destruct (m_cust_amt (c_mtp c) <? ipc).
    - pma E4 as c5 o5 E5. apply lift_any in E5. destruct E5 as (-> & ->).
      match type of E4 with match ?x with _ => _ end => destruct x as [cac|e|] end; [|destruct E4 as (-> & ->); apply gap_eq_refl|destruct E4 as (_ & ->); exact I].
      pma E4 as c6 o6 E6. apply lift_any in E6. destruct E6 as (-> & ->).
      match type of E4 with match ?x with _ => _ end => destruct x as [un|e|] end; [|destruct E4 as (-> & ->); apply gap_eq_refl|destruct E4 as (_ & ->); exact I].
      pma E4 as c7 o7 E7. pose proof (upd_mtp_gap_any _ _ _ _ E7) as G7.
      destruct o7; [unfold ret in E4; injection E4 as <- <-; exact G7|destruct E4 as (-> & ->); exact G7|destruct E4 as (_ & ->); exact I].
    - unfold ret in E4. injection E4 as <- <-. apply gap_eq_refl. }
  destruct o4 as [[interest' ipc']|e|]; [|destruct H as (-> & ->); eapply gap_eq_trans; eassumption|destruct H as (_ & ->); exact I].
  pose proof (gap_eq_trans _ _ _ G3 G4) as G34.
  pma H as c5 o5 E5. pose proof (upd_mtp_gap_any _ _ _ _ E5) as G5.
  destruct o5 as [u5|e|]; [|destruct H as (-> & ->); eapply gap_eq_trans; eassumption|destruct H as (_ & ->); exact I].
  pose proof (gap_eq_trans _ _ _ G34 G5) as G05.
  pma H as c6 o6 E6.
  destruct o6 as [take|e|]; [|destruct H as (-> & ->); apply take_fund_payment_err in E6; subst; exact G05|destruct H as (_ & ->); exact I].
  (* params are those of c: only the position changed so far *)
  assert (Hpar : ms_params (c_s c) = ms_params (c_s c) ) by reflexivity.
  destruct (take_fund_payment_effect _ _ _ _ _ _ _ E6 Hfund) as (Ht0 & Hb6 & Hp6 & Ha6).
  pma H as c7 o7 E7. apply lift_any in E7. destruct E7 as (-> & ->).
  match type of H with match ?x with _ => _ end => destruct x as [actual|e|] eqn:Eact end; [|destruct H as (-> & ->); exfalso; unfold uint_sub, ck_uint in Eact; destruct (fits_uint _); discriminate|destruct H as (_ & ->); exact I].
  apply uint_sub_ok in Eact. destruct Eact as (-> & _).
  pma H as c8 o8 E8. apply upd_pool_any in E8. cbn beta in E8.
  (* the sides *)
  assert (A3 : c_asset c5 = c_asset c) by apply G05.
  assert (Hcases : m_cust_asset (c_mtp c) = ROWAN \/ m_cust_asset (c_mtp c) = c_asset c).
  { destruct Hon as (_ & [(_ & H2)|(H2 & _)]); auto. }
  assert (Hane : c_asset c <> ROWAN) by apply Hon.
  assert (Hfin : forall p8, c8 = c6 <| c_pool := p8 |> -> o8 = Ok tt -> gap_eq c5 (c6 <| c_pool := p8 |>) ->
                 match o with Panic => True | _ => gap_eq c c' end).
  { intros p8 -> -> GB.
    pma H as c9 o9 E9. assert (o9 = Ok tt) by (unfold set_mtp, modc in E9; congruence). subst o9. pose proof (set_mtp_gap _ _ _ E9) as G9.
    pma H as c10 o10 E10. assert (o10 = Ok tt) by (unfold set_pool, modc in E10; congruence). subst o10. pose proof (set_pool_gap _ _ _ E10) as G10.
    unfold ret in H. injection H as <- <-.
    eapply gap_eq_trans; [exact G05|]. eapply gap_eq_trans; [exact GB|]. eapply gap_eq_trans; [exact G9|exact G10]. }
  destruct (Z.eqb_spec (m_cust_asset (c_mtp c)) ROWAN) as [Er|Er].
  - match type of E8 with match ?x with _ => _ end => destruct x as [p8|e|] eqn:Ep8 end;
      [|exfalso; unfold uint_sub, uint_add, ck_uint in Ep8;
         repeat match type of Ep8 with context [fits_uint ?x] => destruct (fits_uint x); cbn [bind] in Ep8 end; discriminate
       |destruct E8 as (_ & ->); destruct H as (_ & ->); exact I].
    destruct E8 as (-> & ->). repeat inv1 Ep8. uints. subst.
    eapply Hfin; [reflexivity|reflexivity|].
    unfold gap_eq, Gn, Ge. cbn -[bal]. rewrite Ha6, !Hb6, Hp6, Er, A3.
    destruct (Z.eqb_spec ROWAN ROWAN); [|congruence]. destruct (Z.eqb_spec (c_asset c) ROWAN); [congruence|].
    split; [lia|]. split; [lia|]. split; [reflexivity|].
    intros d Hd1 Hd2. rewrite Hb6, Er. destruct (Z.eqb_spec d ROWAN); [congruence|]. lia.
  - assert (Ea : m_cust_asset (c_mtp c) = c_asset c) by tauto.
    match type of E8 with match ?x with _ => _ end => destruct x as [p8|e|] eqn:Ep8 end;
      [|exfalso; unfold uint_sub, uint_add, ck_uint in Ep8;
         repeat match type of Ep8 with context [fits_uint ?x] => destruct (fits_uint x); cbn [bind] in Ep8 end; discriminate
       |destruct E8 as (_ & ->); destruct H as (_ & ->); exact I].
    destruct E8 as (-> & ->). repeat inv1 Ep8. uints. subst.
    eapply Hfin; [reflexivity|reflexivity|].
    unfold gap_eq, Gn, Ge. cbn -[bal]. rewrite Ha6, !Hb6, Hp6, Ea, A3.
    destruct (Z.eqb_spec ROWAN (c_asset c)); [congruence|]. destruct (Z.eqb_spec (c_asset c) (c_asset c)); [|congruence].
    split; [lia|]. split; [lia|]. split; [reflexivity|].
    intros d Hd1 Hd2. rewrite Hb6, Ea. destruct (Z.eqb_spec d (c_asset c)); [congruence|]. lia.
Qed.

Lemma custody_move_gap (out : bool) c c' u :
  (if out then take_out_custody c else take_in_custody c) = (c', Ok u) -> gap_eq c c'.
Proof.
  destruct out; unfold take_out_custody, take_in_custody; intros H; pmg H; pm H as c1 u1 E1;
  apply upd_pool_ok in E1; destruct E1 as (p & Hp & ->); apply set_pool_gap in H;
  (eapply gap_eq_trans; [|exact H]);
  destruct (m_cust_asset (c_mtp c) =? ROWAN); repeat inv1 Hp; uints; subst;
  unfold gap_eq, Gn, Ge; cbn -[bal]; repeat split; try lia; auto.
Qed.

Lemma handle_interest_gap i c c' fin :
  handle_interest_payment i c = (c', Ok fin) -> on_pool (c_asset c) (c_mtp c) ->
  mp_incr_fund (ms_params (c_s c)) <> CLP_MODULE -> gap_eq c c'.
Proof.
  unfold handle_interest_payment. intros H Hon Hf. pmg H. destruct (mp_incr (ms_params (c_s c))).
  - destruct (incremental_interest_payment i c) as [c1 o1] eqn:E.
    pose proof (incremental_gap_any _ _ _ _ E Hon Hf) as G. destruct o1; inversion H; subst; exact G.
  - pm H as c1 u1 E1. apply upd_mtp_gap in E1. apply ret_ok in H. destruct H as (-> & _). exact E1.
Qed.

Lemma add_block_interest_gap fin c c' u : add_block_interest fin c = (c', Ok u) -> gap_eq c c'.
Proof.
  unfold add_block_interest. intros H. pmg H. apply upd_pool_ok in H. destruct H as (p & Hp & ->).
  destruct (m_coll_asset (c_mtp c) =? ROWAN); repeat inv1 Hp; subst; apply gap_eq_same; reflexivity.
Qed.

(* facts every step keeps: the position's assets, the pool asset, the parameters *)
Definition stable (c c' : mctx) : Prop :=
  m_coll_asset (c_mtp c') = m_coll_asset (c_mtp c) /\ m_cust_asset (c_mtp c') = m_cust_asset (c_mtp c) /\
  c_asset c' = c_asset c /\ c_addr c' = c_addr c /\ ms_params (c_s c') = ms_params (c_s c).

Lemma keeps_stable li c c' : Keeps li c c' -> stable c c'.
Proof. intros (_ & (K1&K2&_&Ka&Kaddr&_&Kp&_) & _). unfold stable. auto. Qed.

Lemma mid_epoch_gap c c' u :
  mid_epoch_interest c = (c', Ok u) -> on_pool (c_asset c) (c_mtp c) -> mp_incr_fund (ms_params (c_s c)) <> CLP_MODULE -> gap_eq c c'.
Proof.
  unfold mid_epoch_interest. intros H Hon Hf. pmg H. destruct (0 <? epoch_position (c_s c)).
  - pm H as c1 i E1. apply lift_ok in E1. destruct E1 as (-> & _).
    pm H as c2 fin E2. apply handle_interest_gap in E2; [|exact Hon|exact Hf].
    pm H as c3 u3 E3. apply add_block_interest_gap in E3.
    pmg H. pm H as c4 h E4. apply lift_ok in E4. destruct E4 as (-> & _).
    apply upd_mtp_gap in H. eapply gap_eq_trans; [exact E2|]. eapply gap_eq_trans; eassumption.
  - apply ret_ok in H. destruct H as (-> & _). apply gap_eq_refl.
Qed.

(* Repay: what leaves the module account (to the owner and to the fund) is what the pool's balance is reduced by *)
Lemma repay_gap r tf c c' u :
  repay r tf c = (c', Ok u) -> on_pool (c_asset c) (c_mtp c) ->
  mp_fc_fund (ms_params (c_s c)) <> CLP_MODULE -> c_addr c <> CLP_MODULE -> gap_eq c c'.
Proof.
  unfold repay. intros H Hon Hfund Howner. pmg H.
  pm H as c1 h E1. apply lift_ok in E1. destruct E1 as (-> & _).
  pm H as c2 u2 E2. apply upd_mtp_ok in E2. destruct E2 as (m2 & Em2 & ->). injection Em2 as <-.
  set (cA := c <| c_mtp := (c_mtp c) <| m_health := h |> |>) in *.
  pm H as c3 owe E3. apply lift_ok in E3. destruct E3 as (-> & _).
  pm H as c4 tr E4. apply lift_ok in E4. destruct E4 as (-> & Etr). destruct tr as [[ret_amt debtP] debtI].
  assert (Hret0 : 0 <= ret_amt).
  { destruct (r <? m_liab (c_mtp c)); [repeat inv1 Etr; lia|]. destruct (r <? owe); [repeat inv1 Etr; lia|]. repeat inv1 Etr. uints. lia. }
  pm H as c5 u5 E5.
  (* the coins paid out: exactly ret_amt of the collateral asset *)
  assert (Hpay : (forall d', bal (ms_bank (c_s c5)) CLP_MODULE d' = bal (ms_bank (c_s cA)) CLP_MODULE d' - (if d' =? m_coll_asset (c_mtp c) then ret_amt else 0)) /\
                 c_pool c5 = c_pool cA /\ c_asset c5 = c_asset cA).
  { destruct (Z.eqb_spec ret_amt 0) as [->|Hne].
    - apply ret_ok in E5. destruct E5 as (-> & _). split; [intros d'; destruct (d' =? _); lia|auto].
    - pm E5 as c6 actual E6.
      assert (H6 : exists take, 0 <= take /\ actual = ret_amt - take /\
                (forall d', bal (ms_bank (c_s c6)) CLP_MODULE d' = bal (ms_bank (c_s cA)) CLP_MODULE d' - (if d' =? m_coll_asset (c_mtp c) then take else 0)) /\
                c_pool c6 = c_pool cA /\ c_asset c6 = c_asset cA).
      { destruct tf.
        - pm E6 as c7 take E7. destruct (take_fund_payment_effect _ _ _ _ _ _ _ E7 Hfund) as (Ht0 & Hb7 & Hp7 & Ha7).
          apply lift_ok in E6. destruct E6 as (-> & Eact). apply uint_sub_ok in Eact. destruct Eact as (-> & _).
          exists take. auto.
        - apply ret_ok in E6. destruct E6 as (-> & ->). exists 0. split; [lia|]. split; [lia|].
          split; [intros d'; destruct (d' =? _); lia|auto]. }
      destruct H6 as (take & Ht0 & -> & Hb6 & Hp6 & Ha6).
      destruct (Z.eqb_spec (ret_amt - take) 0) as [E0|Hne2].
      + apply ret_ok in E5. destruct E5 as (-> & _). split; [|auto].
        intros d'. rewrite Hb6. destruct (d' =? _); lia.
      + assert (Howner6 : c_addr cA <> CLP_MODULE) by exact Howner.
        destruct (bank_out_effect _ _ _ _ _ _ E5 Howner6) as (_ & Hb5 & Hp5 & Ha5).
        split; [|split; congruence]. intros d'. rewrite Hb5, Hb6. destruct (d' =? _); lia. }
  destruct Hpay as (Hb5 & Hp5 & Ha5).
  pm H as c6 u6 E6. apply upd_pool_ok in E6. destruct E6 as (p & Hp & ->).
  pm H as c7 u7 E7. apply destroy_mtp_gap in E7. apply set_pool_gap in H.
  eapply gap_eq_trans; [|eapply gap_eq_trans; [exact E7|exact H]].
  assert (Hane : c_asset c <> ROWAN) by apply Hon.
  rewrite Hp5 in Hp. cbn [c_mtp c_pool cA] in Hp.
  unfold gap_eq, Gn, Ge. cbn -[bal Z.eqb]. rewrite Ha5, !Hb5. cbn -[bal Z.eqb].
  destruct Hon as (_ & [(Hc1 & Hc2)|(Hc1 & Hc2)]).
  - rewrite Hc1 in *. rewrite Z.eqb_refl in Hp. repeat inv1 Hp. uints. subst. cbn -[bal Z.eqb].
    destruct (Z.eqb_spec ROWAN ROWAN); [|congruence]. destruct (Z.eqb_spec (c_asset c) ROWAN); [congruence|].
    split; [lia|]. split; [lia|]. split; [reflexivity|].
    intros d Hd1 Hd2. rewrite Hb5. destruct (Z.eqb_spec d ROWAN); [congruence|]. cbn -[bal Z.eqb]. lia.
  - rewrite Hc2 in *. destruct (Z.eqb_spec (c_asset c) ROWAN); [congruence|]. repeat inv1 Hp. uints. subst.
    assert (E1 : (ROWAN =? c_asset c) = false) by (apply Z.eqb_neq; congruence).
    cbn -[bal Z.eqb]. rewrite ?E1, ?Z.eqb_refl.
    split; [lia|]. split; [lia|]. split; [reflexivity|].
    intros d Hd1 Hd2. rewrite Hb5. destruct (Z.eqb_spec d (c_asset c)); [congruence|]. cbn -[bal Z.eqb]. lia.
Qed.

Definition funds_not_module (s : mstate) : Prop :=
  mp_incr_fund (ms_params s) <> CLP_MODULE /\ mp_fc_fund (ms_params s) <> CLP_MODULE.

Lemma closing_tail_gap {A} tf (k : Z -> A) c c' x :
  (take_out_custody ;;; c1 <-- getc ;;
   r <-- lift (clp_swap (c_s c1) (c_asset c1) (m_cust_amt (c_mtp c1)) (m_coll_asset (c_mtp c1)) (c_pool c1)) ;;
   repay r tf ;;; ret (k r))%pm c = (c', Ok x) ->
  on_pool (c_asset c) (c_mtp c) -> mp_fc_fund (ms_params (c_s c)) <> CLP_MODULE -> c_addr c <> CLP_MODULE -> gap_eq c c'.
Proof.
  intros H Hon Hf Ho. pm H as c1 u1 E1.
  pose proof (custody_move_gap true _ _ _ E1) as G1.
  assert (S1 : stable c c1).
  { unfold take_out_custody in E1. pmg E1. pm E1 as cx ux Ex. apply upd_pool_ok in Ex. destruct Ex as (px & _ & ->).
    apply set_pool_ok in E1. subst. unfold stable. cbn. auto. }
  destruct S1 as (M1 & M2 & Ka & Kaddr & Kp).
  pmg H. pm H as c2 r E2. apply lift_ok in E2. destruct E2 as (-> & _).
  pm H as c3 u3 E3. apply ret_ok in H. destruct H as (-> & _).
  apply repay_gap in E3; [|unfold on_pool in *; rewrite M1, M2, Ka; exact Hon|rewrite Kp; exact Hf|rewrite Kaddr; exact Ho].
  eapply gap_eq_trans; eassumption.
Qed.

Lemma close_long_gap c c' r :
  close_long c = (c', Ok r) -> on_pool (c_asset c) (c_mtp c) -> (epoch_position (c_s c) <> 0 -> interest_hyps c) ->
  Link true true c -> funds_not_module (c_s c) -> c_addr c <> CLP_MODULE -> gap_eq c c'.
Proof.
  unfold close_long. intros H Hon Hh L (Hf1 & Hf2) Ho. pm H as c1 u1 E1.
  pose proof (mid_epoch_ok _ _ _ true E1 Hh L) as HK. pose proof (keeps_stable _ _ _ HK) as (M1 & M2 & Ka & Kaddr & Kp).
  pose proof (mid_epoch_gap _ _ _ E1 Hon Hf1) as G1.
  apply (closing_tail_gap false (fun r => r)) in H; [|eapply keeps_on_pool; eassumption|rewrite Kp; exact Hf2|rewrite Kaddr; exact Ho].
  eapply gap_eq_trans; eassumption.
Qed.

Lemma force_close_long_gap adm tf c c' r :
  force_close_long adm tf c = (c', Ok r) -> on_pool (c_asset c) (c_mtp c) -> (epoch_position (c_s c) <> 0 -> interest_hyps c) ->
  Link true true c -> funds_not_module (c_s c) -> c_addr c <> CLP_MODULE -> gap_eq c c'.
Proof.
  unfold force_close_long. intros H Hon Hh L (Hf1 & Hf2) Ho. pm H as c1 u1 E1.
  pose proof (mid_epoch_ok _ _ _ true E1 Hh L) as HK. pose proof (keeps_stable _ _ _ HK) as (M1 & M2 & Ka & Kaddr & Kp).
  pose proof (mid_epoch_gap _ _ _ E1 Hon Hf1) as G1.
  pmg H. destruct (negb adm && _); [exfalso; unfold lift in H; inversion H|].
  apply (closing_tail_gap tf (fun r => (r, m_health (c_mtp c1)))) in H; [|eapply keeps_on_pool; eassumption|rewrite Kp; exact Hf2|rewrite Kaddr; exact Ho].
  eapply gap_eq_trans; eassumption.
Qed.

Lemma process_interest_gap c c' u :
  process_interest c = (c', Ok u) -> on_pool (c_asset c) (c_mtp c) -> mp_incr_fund (ms_params (c_s c)) <> CLP_MODULE -> gap_eq c c'.
Proof.
  unfold process_interest. intros H Hon Hf. pmg H.
  pm H as c1 h E1. apply lift_ok in E1. destruct E1 as (-> & _).
  pm H as c2 u2 E2. apply upd_mtp_ok in E2. destruct E2 as (m2 & Em2 & ->). injection Em2 as <-.
  pmg H. pm H as c3 i E3. apply lift_ok in E3. destruct E3 as (-> & _).
  pm H as c4 fin E4. apply handle_interest_gap in E4; [|exact Hon|exact Hf].
  pm H as c5 u5 E5. apply add_block_interest_gap in E5. apply set_mtp_gap in H.
  eapply gap_eq_trans; [|eapply gap_eq_trans; [exact E4|eapply gap_eq_trans; eassumption]].
  apply gap_eq_same; reflexivity.
Qed.

(* C01 for the begin blocker's per-position step: whatever the outcome, the module account's coins beyond what the
   (in-memory) pool records are unchanged *)
Theorem process_mtp_gap a s p m addr id c' o :
  process_mtp (mkCtx s p m a addr id) = (c', o) ->
  epoch_position s = 0 -> LoopInv a s p -> find_mtp s addr id = Some m -> on_pool a m -> id <> 0 -> pct_ok s ->
  0 <= m_cust_amt m <= bal (ms_bank s) CLP_MODULE (m_cust_asset m) ->
  funds_not_module s -> addr <> CLP_MODULE ->
  gap_eq (mkCtx s p m a addr id) c'.
Proof.
  intros H Hep HL Hf Hon Hid Hp Hfunds (Hf1 & Hf2) Ho.
  set (c := mkCtx s p m a addr id) in *.
  assert (Hh : interest_hyps c).
  { unfold interest_hyps, c; cbn. split; [exact Hon|]. split; [exact Hid|]. split; [exact Hp|exact Hfunds]. }
  assert (L : Link true true c) by (apply link_of_agrees; [exact (proj1 HL)|exact Hf]).
  unfold process_mtp in H.
  destruct (process_interest c) as [cA oA] eqn:EA.
  destruct oA as [uA|e|]; [|injection H as <- <-; apply gap_eq_refl|injection H as <- <-; apply gap_eq_refl].
  pose proof (process_interest_ok _ _ _ EA Hh L) as HK.
  pose proof (process_interest_gap _ _ _ EA Hon Hf1) as GA.
  destruct (force_close_long false true cA) as [cF oF] eqn:EF.
  destruct oF as [r|e|]; [|injection H as <- <-; exact GA|injection H as <- <-; apply gap_eq_refl].
  injection H as <- <-.
  pose proof HK as (LA & KA & _ & _). pose proof (keeps_stable _ _ _ HK) as (M1 & M2 & Ka & Kaddr & Kp).
  pose proof KA as (_&_&_&_&_&_&Kp'&Kh&_). cbn in Kp', Kh.
  assert (HepA : epoch_position (c_s cA) = 0) by (unfold epoch_position in *; rewrite Kp', Kh; exact Hep).
  eapply gap_eq_trans; [exact GA|].
  eapply force_close_long_gap; [exact EF|eapply keeps_on_pool; eassumption|intros Hc; exfalso; exact (Hc HepA)|exact LA| |].
  - unfold funds_not_module. rewrite Kp. auto.
  - rewrite Kaddr. exact Ho.
Qed.

(* C01 for Close and AdminClose *)
Theorem close_gap s signer id c' r :
  SumInv s -> pct_ok s -> (forall m, find_mtp s signer id = Some m -> position_ok s signer id m) ->
  funds_not_module s -> signer <> CLP_MODULE ->
  close_msg s signer id = (c', Ok r) ->
  exists pool m, find_mtp s signer id = Some m /\ get (pool_asset_of m) (ms_pools s) = Some pool /\
    gap_eq (mkCtx s pool m (pool_asset_of m) signer id) c'.
Proof.
  intros HI Hp Hpos Hfm Ho H. unfold close_msg in H.
  destruct (find_mtp s signer id) as [m|] eqn:Hf; [|inversion H].
  destruct (get (pool_asset_of m) (ms_pools s)) as [pool|] eqn:Hg; [|inversion H].
  destruct (Hpos m eq_refl) as (Hon & Hid & Hfunds).
  assert (Ha : pool_asset_of m <> ROWAN) by apply Hon.
  pose proof (link_of_agrees s _ pool m signer id (proj1 HI _ _ Hg Ha) Hf) as L.
  assert (Hh : interest_hyps (mkCtx s pool m (pool_asset_of m) signer id)) by (unfold interest_hyps; cbn; auto).
  exists pool, m. split; [reflexivity|]. split; [exact Hg|].
  eapply close_long_gap; [exact H|exact Hon|intros _; exact Hh|exact L|exact Hfm|exact Ho].
Qed.

Theorem admin_close_gap s adm addr id tf c' r :
  SumInv s -> pct_ok s -> (forall m, find_mtp s addr id = Some m -> position_ok s addr id m) ->
  funds_not_module s -> addr <> CLP_MODULE ->
  admin_close_msg s adm addr id tf = (c', Ok r) ->
  exists pool m, find_mtp s addr id = Some m /\ get (pool_asset_of m) (ms_pools s) = Some pool /\
    gap_eq (mkCtx s pool m (pool_asset_of m) addr id) c'.
Proof.
  intros HI Hp Hpos Hfm Ho H. unfold admin_close_msg in H.
  destruct adm; cbn [negb] in H; [|inversion H].
  destruct (find_mtp s addr id) as [m|] eqn:Hf; [|inversion H].
  destruct (get (pool_asset_of m) (ms_pools s)) as [pool|] eqn:Hg; [|inversion H].
  destruct (Hpos m eq_refl) as (Hon & Hid & Hfunds).
  assert (Ha : pool_asset_of m <> ROWAN) by apply Hon.
  pose proof (link_of_agrees s _ pool m addr id (proj1 HI _ _ Hg Ha) Hf) as L.
  assert (Hh : interest_hyps (mkCtx s pool m (pool_asset_of m) addr id)) by (unfold interest_hyps; cbn; auto).
  exists pool, m. split; [reflexivity|]. split; [exact Hg|].
  eapply force_close_long_gap; [exact H|exact Hon|intros _; exact Hh|exact L|exact Hfm|exact Ho].
Qed.

Lemma bank_in_effect from d x c c' u : bank_send from CLP_MODULE d x c = (c', Ok u) -> from <> CLP_MODULE ->
  0 <= x /\ (forall d', bal (ms_bank (c_s c')) CLP_MODULE d' = bal (ms_bank (c_s c)) CLP_MODULE d' + (if d' =? d then x else 0)) /\
  c_pool c' = c_pool c /\ c_asset c' = c_asset c.
Proof.
  intros H Hfrom. apply bank_send_ok in H. destruct H as (b & Hs & ->). apply send_effect in Hs. destruct Hs as (Hx & Hb & _).
  split; [exact Hx|]. split; [|split; reflexivity].
  intros d'. cbn -[bal]. rewrite Hb. rewrite Z.eqb_refl. destruct (Z.eqb_spec CLP_MODULE from); [congruence|]. cbn [andb].
  destruct (d' =? d); lia.
Qed.

Lemma borrow_fn_gap coll_amt cust_amt eta c c' u :
  borrow_fn coll_amt cust_amt eta c = (c', Ok u) -> on_pool (c_asset c) (c_mtp c) -> c_addr c <> CLP_MODULE -> gap_eq c c'.
Proof.
  unfold borrow_fn. intros H Hon Ho. pmg H.
  pm H as c1 u1 E1. assert (c1 = c) by (destruct (_ <? _); [exfalso; eapply failM_not_ok; eassumption|apply ret_ok in E1; tauto]). subst c1.
  pm H as c2 liab_add E2. apply lift_ok in E2. destruct E2 as (-> & _).
  pm H as c3 u3 E3. apply upd_mtp_ok in E3. destruct E3 as (m3 & _ & ->).
  pmg H. pm H as c4 h E4. apply lift_ok in E4. destruct E4 as (-> & _).
  pm H as c5 u5 E5. apply upd_mtp_ok in E5. destruct E5 as (m5 & _ & ->).
  pm H as c6 u6 E6. destruct (bank_in_effect _ _ _ _ _ _ E6 Ho) as (Hx & Hb6 & Hp6 & Ha6).
  pmg H. pm H as c7 u7 E7. apply upd_pool_ok in E7. destruct E7 as (p7 & Hp7 & ->).
  pm H as c8 u8 E8. apply set_pool_gap in E8. apply set_mtp_gap in H.
  eapply gap_eq_trans; [|eapply gap_eq_trans; [exact E8|exact H]].
  assert (Hane : c_asset c <> ROWAN) by apply Hon.
  cbn -[bal Z.eqb] in Hb6, Hp6, Ha6. rewrite Hp6 in Hp7. cbn -[bal Z.eqb] in Hp7.
  unfold gap_eq, Gn, Ge. cbn -[bal Z.eqb]. rewrite Ha6, !Hb6.
  destruct Hon as (_ & [(Hc1 & Hc2)|(Hc1 & Hc2)]).
  - rewrite Hc1 in *. rewrite Z.eqb_refl in Hp7. repeat inv1 Hp7. uints. subst. cbn -[bal Z.eqb].
    assert (Eq1 : (c_asset c =? ROWAN) = false) by (apply Z.eqb_neq; congruence). rewrite Eq1, Z.eqb_refl.
    split; [lia|]. split; [lia|]. split; [reflexivity|].
    intros d Hd1 Hd2. rewrite Hb6. destruct (Z.eqb_spec d ROWAN); [congruence|]. lia.
  - rewrite Hc2 in *. destruct (Z.eqb_spec (c_asset c) ROWAN); [congruence|]. repeat inv1 Hp7. uints. subst. cbn -[bal Z.eqb].
    assert (Eq1 : (ROWAN =? c_asset c) = false) by (apply Z.eqb_neq; congruence). rewrite Eq1, Z.eqb_refl.
    split; [lia|]. split; [lia|]. split; [reflexivity|].
    intros d Hd1 Hd2. rewrite Hb6. destruct (Z.eqb_spec d (c_asset c)); [congruence|]. lia.
Qed.

(* C01 for Open *)
Theorem open_gap s hl signer coll borrow amt lev c' u :
  signer <> CLP_MODULE ->
  open_msg s hl signer coll borrow amt lev = (c', Ok u) ->
  let a := if coll =? ROWAN then borrow else coll in
  exists pool, get a (ms_pools s) = Some pool /\
    gap_eq (mkCtx s pool (new_mtp coll borrow (Z.min lev (mp_lev_max (ms_params s)))) a signer 0) c'.
Proof.
  intros Ho H a. unfold open_msg in H.
  destruct (mp_whitelisting (ms_params s) && negb (mem signer (ms_whitelist s))); [inversion H|].
  destruct (mp_max_open (ms_params s) <=? ms_open s); [inversion H|].
  fold a in H. destruct (get a (ms_pools s)) as [pool|] eqn:Hg; [|inversion H].
  destruct (negb (mem a (mp_pools (ms_params s))) || mem a (mp_closed (ms_params s))); [inversion H|].
  destruct hl; [inversion H|].
  destruct (Bool.eqb (coll =? ROWAN) (borrow =? ROWAN)) eqn:Ex; [inversion H|].
  exists pool. split; [reflexivity|].
  set (lv := Z.min lev (mp_lev_max (ms_params s))) in *.
  set (c1 := mkCtx s pool (new_mtp coll borrow lv) a signer 0) in *.
  assert (Hon : on_pool a (new_mtp coll borrow lv)).
  { unfold on_pool, new_mtp, a. cbn. destruct (Z.eqb_spec coll ROWAN) as [->|Hc]; destruct (Z.eqb_spec borrow ROWAN) as [->|Hb]; cbn in Ex; try discriminate.
    - split; [exact Hb|]. left. auto.
    - split; [exact Hc|]. right. auto. }
  destruct (negb (mp_rowan_coll (ms_params s)) && (coll =? ROWAN)); [exfalso; eapply failM_not_ok; eassumption|].
  pm H as c2 lamt E2. apply lift_ok in E2. destruct E2 as (-> & _).
  pm H as c3 u3 E3. assert (c3 = c1) by (destruct (_ <? lamt); [exfalso; eapply failM_not_ok; eassumption|apply ret_ok in E3; tauto]). subst c3.
  pm H as c4 u4 E4. apply lift_ok in E4. destruct E4 as (-> & _).
  pm H as c5 cust E5. apply lift_ok in E5. destruct E5 as (-> & _).
  pm H as c6 u6 E6. assert (c6 = c1) by (destruct (_ <? cust); [exfalso; eapply failM_not_ok; eassumption|apply ret_ok in E6; tauto]). subst c6.
  pm H as c7 u7 E7. apply borrow_fn_gap in E7; [|exact Hon|exact Ho].
  pm H as c8 u8 E8. apply set_pool_gap in E8.
  pm H as c9 u9 E9. pose proof (custody_move_gap false _ _ _ E9) as G9.
  pmg H. pm H as c10 lr E10. apply lift_ok in E10. destruct E10 as (-> & _).
  destruct (lr <=? mp_safety (ms_params s)); [exfalso; eapply failM_not_ok; eassumption|].
  apply ret_ok in H. destruct H as (-> & _).
  eapply gap_eq_trans; [exact E7|]. eapply gap_eq_trans; [exact E8|exact G9].
Qed.
