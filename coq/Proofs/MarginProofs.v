(* C13: positions agree with pool totals; liquidation only when unhealthy. *)
From Coq Require Import ZArith Lia Bool List QArith.
From RecordUpdate Require Import RecordUpdate.
From Sif Require Import Base.Outcome Base.SdkMath Base.Store Base.Bank Model.ClpCalc Model.Margin Proofs.SdkMathProofs Proofs.PayoutProofs Proofs.NoFreeValue
  Proofs.BankProofs Proofs.ClpInv.
Import ListNotations.
Local Open Scope Z_scope.

(* ---------- inversion of the context monad ---------- *)
Lemma bindP_ok {A B} (m : PM A) (f : A -> PM B) c c' b :
  bindP m f c = (c', Ok b) -> exists c1 a, m c = (c1, Ok a) /\ f a c1 = (c', Ok b).
Proof.
  unfold bindP. destruct (m c) as [c1 o]. destruct o; intros H; try (inversion H; fail). eauto.
Qed.

Lemma lift_ok {A} (o : Outcome A) c c' a : lift o c = (c', Ok a) -> c' = c /\ o = Ok a.
Proof. unfold lift. intros [= <- ->]. auto. Qed.
Lemma ret_ok {A} (x : A) c c' a : ret x c = (c', Ok a) -> c' = c /\ a = x.
Proof. unfold ret. intros [= <- <-]. auto. Qed.
Lemma getc_ok c c' a : getc c = (c', Ok a) -> c' = c /\ a = c.
Proof. unfold getc. intros [= <- <-]. auto. Qed.
Lemma modc_ok f c c' a : modc f c = (c', Ok a) -> c' = f c.
Proof. unfold modc. intros [= <- _]. reflexivity. Qed.
Lemma failM_not_ok {A} c c' (a : A) : failM c = (c', Ok a) -> False.
Proof. unfold failM, lift. intros H. inversion H. Qed.

(* one step of a bind chain *)
Ltac pmg H := unfold bindP at 1 in H; cbn [getc] in H.
Tactic Notation "pm" hyp(H) "as" ident(c1) ident(a) ident(E) :=
  apply bindP_ok in H; destruct H as (c1 & a & E & H).

Lemma upd_pool_ok f c c' a : upd_pool f c = (c', Ok a) -> exists p, f (c_pool c) = Ok p /\ c' = c <| c_pool := p |>.
Proof.
  unfold upd_pool. intros H. unfold bindP at 1 in H. cbn [getc] in H.
  apply bindP_ok in H. destruct H as (c1 & p & E & H). apply lift_ok in E. destruct E as (-> & E).
  apply modc_ok in H. eauto.
Qed.
Lemma upd_mtp_ok f c c' a : upd_mtp f c = (c', Ok a) -> exists m, f (c_mtp c) = Ok m /\ c' = c <| c_mtp := m |>.
Proof.
  unfold upd_mtp. intros H. unfold bindP at 1 in H. cbn [getc] in H.
  apply bindP_ok in H. destruct H as (c1 & p & E & H). apply lift_ok in E. destruct E as (-> & E).
  apply modc_ok in H. eauto.
Qed.
Lemma set_pool_ok c c' a : set_pool c = (c', Ok a) ->
  c' = c <| c_s := (c_s c) <| ms_pools := set (c_asset c) (c_pool c) (ms_pools (c_s c)) |> |>.
Proof. unfold set_pool. intros H. apply modc_ok in H. exact H. Qed.
Lemma bank_send_ok from to d x c c' a : bank_send from to d x c = (c', Ok a) ->
  exists b, send (ms_bank (c_s c)) from to d x = Some b /\ c' = c <| c_s := (c_s c) <| ms_bank := b |> |>.
Proof.
  unfold bank_send. intros H. unfold bindP at 1 in H. cbn [getc] in H.
  destruct (send _ _ _ _ _) as [b|]; [|exfalso; eapply failM_not_ok; eassumption].
  apply modc_ok in H. eauto.
Qed.

(* ---------- sums over the nested position store ---------- *)
Section Tot.
Variable g : mtp -> Z.
Definition tot (s : mstate) : Z := sumf (sumf g) (ms_mtps s).
Definition gopt (o : option mtp) : Z := match o with Some m => g m | None => 0 end.

Lemma tot_put s addr id m : tot (put_mtp s addr id m) = tot s - gopt (find_mtp s addr id) + g m.
Proof.
  unfold tot, put_mtp, find_mtp, mtps_of. cbn -[sumf Store.set get]. rewrite sumf_set.
  destruct (get addr (ms_mtps s)) as [inner|] eqn:E; cbn [fopt].
  - rewrite sumf_set. unfold fopt, gopt. destruct (get id inner); lia.
  - cbn. unfold gopt. lia.
Qed.

Lemma tot_del s addr id :
  tot (s <| ms_mtps := set addr (del id (mtps_of s addr)) (ms_mtps s) |>) = tot s - gopt (find_mtp s addr id).
Proof.
  unfold tot, find_mtp, mtps_of. cbn -[sumf Store.set get del]. rewrite sumf_set.
  destruct (get addr (ms_mtps s)) as [inner|] eqn:E; cbn [fopt].
  - rewrite sumf_del. unfold fopt, gopt. destruct (get id inner); lia.
  - cbn. unfold gopt. lia.
Qed.
End Tot.

(* per-asset contributions of a position to the four pool totals (asset a <> ROWAN) *)
Definition g_nc (a : Z) (m : mtp) : Z := if m_coll_asset m =? a then m_cust_amt m else 0.
Definition g_ec (a : Z) (m : mtp) : Z := if m_cust_asset m =? a then m_cust_amt m else 0.
Definition g_nl (a : Z) (m : mtp) : Z := if m_cust_asset m =? a then m_liab m else 0.
Definition g_el (a : Z) (m : mtp) : Z := if m_coll_asset m =? a then m_liab m else 0.
Definition g_one (m : mtp) : Z := 1.

(* a position lives on exactly one pool: one of its assets is the native token, the other the pool's *)
Definition on_pool (a : Z) (m : mtp) : Prop :=
  a <> ROWAN /\ ((m_coll_asset m = ROWAN /\ m_cust_asset m = a) \/ (m_cust_asset m = ROWAN /\ m_coll_asset m = a)).

Definition pool_agrees (s : mstate) (a : Z) (p : mpool) : Prop :=
  q_nc p = tot (g_nc a) s /\ q_ec p = tot (g_ec a) s /\ q_nl p = tot (g_nl a) s /\ q_el p = tot (g_el a) s.

(* the state invariant of C13 *)
Definition MInv (s : mstate) : Prop :=
  (forall a p, get a (ms_pools s) = Some p -> a <> ROWAN /\ pool_agrees s a p) /\
  ms_open s = tot g_one s /\
  (forall addr id m, find_mtp s addr id = Some m -> 0 < id <= ms_count s /\ on_pool (pool_asset_of m) m /\
       exists p, get (pool_asset_of m) (ms_pools s) = Some p).

(* ---------- the link between the in-memory pool, the in-memory position and the stored positions ---------- *)
Definition others (g : mtp -> Z) (c : mctx) : Z := tot g (c_s c) - gopt g (find_mtp (c_s c) (c_addr c) (c_id c)).

(* cu / li: is the in-memory position's custody / are its liabilities currently booked on the in-memory pool *)
Definition Link (cu li : bool) (c : mctx) : Prop :=
  let a := c_asset c in let P := c_pool c in let M := c_mtp c in
  q_nc P = others (g_nc a) c + (if cu then g_nc a M else 0) /\
  q_ec P = others (g_ec a) c + (if cu then g_ec a M else 0) /\
  q_nl P = others (g_nl a) c + (if li then g_nl a M else 0) /\
  q_el P = others (g_el a) c + (if li then g_el a M else 0).

(* what Link looks at: the four pool totals, and the rest (position core, key, stored positions) *)
Definition pool4_eq (c c' : mctx) : Prop :=
  q_nc (c_pool c') = q_nc (c_pool c) /\ q_ec (c_pool c') = q_ec (c_pool c) /\
  q_nl (c_pool c') = q_nl (c_pool c) /\ q_el (c_pool c') = q_el (c_pool c).
Definition mcore_eq (c c' : mctx) : Prop :=
  m_coll_asset (c_mtp c') = m_coll_asset (c_mtp c) /\ m_cust_asset (c_mtp c') = m_cust_asset (c_mtp c) /\
  m_cust_amt (c_mtp c') = m_cust_amt (c_mtp c) /\ m_liab (c_mtp c') = m_liab (c_mtp c) /\
  c_asset c' = c_asset c /\ c_addr c' = c_addr c /\ c_id c' = c_id c /\
  ms_mtps (c_s c') = ms_mtps (c_s c) /\ ms_open (c_s c') = ms_open (c_s c) /\ ms_count (c_s c') = ms_count (c_s c) /\
  ms_params (c_s c') = ms_params (c_s c) /\ ms_height (c_s c') = ms_height (c_s c).
Definition core_eq (c c' : mctx) : Prop := pool4_eq c c' /\ mcore_eq c c'.

Lemma mcore_eq_refl c : mcore_eq c c.
Proof. unfold mcore_eq. repeat split; reflexivity. Qed.
Lemma mcore_eq_trans c1 c2 c3 : mcore_eq c1 c2 -> mcore_eq c2 c3 -> mcore_eq c1 c3.
Proof. unfold mcore_eq. intuition congruence. Qed.
Lemma core_eq_refl c : core_eq c c.
Proof. unfold core_eq, pool4_eq. split; [repeat split; reflexivity|apply mcore_eq_refl]. Qed.
Lemma core_eq_trans c1 c2 c3 : core_eq c1 c2 -> core_eq c2 c3 -> core_eq c1 c3.
Proof. unfold core_eq, pool4_eq. intros (P1 & M1) (P2 & M2). split; [intuition congruence|eapply mcore_eq_trans; eassumption]. Qed.

Lemma tot_core g s s' : ms_mtps s' = ms_mtps s -> tot g s' = tot g s.
Proof. unfold tot. intros ->. reflexivity. Qed.
Lemma find_core s s' addr id : ms_mtps s' = ms_mtps s -> find_mtp s' addr id = find_mtp s addr id.
Proof. unfold find_mtp, mtps_of. intros ->. reflexivity. Qed.

Lemma others_core g c c' : mcore_eq c c' -> others g c' = others g c.
Proof.
  unfold mcore_eq, others. intros (_&_&_&_&_&Ha&Hi&Hm&_).
  rewrite (tot_core g _ _ Hm), (find_core _ _ _ _ Hm), Ha, Hi. reflexivity.
Qed.

Lemma Link_core cu li c c' : core_eq c c' -> Link cu li c -> Link cu li c'.
Proof.
  intros (HP & H) L. pose proof HP as (E1&E2&E3&E4). pose proof H as (E5&E6&E7&E8&E9&_).
  unfold Link in *. rewrite !(others_core _ _ _ H), E1, E2, E3, E4, E9.
  unfold g_nc, g_ec, g_nl, g_el in *. rewrite E5, E6, E7, E8. exact L.
Qed.

(* primitives that leave the core alone *)
Lemma set_pool_core c c' a : set_pool c = (c', Ok a) -> core_eq c c'.
Proof. intros H. apply set_pool_ok in H. subst. unfold core_eq, pool4_eq, mcore_eq. cbn. repeat split; reflexivity. Qed.
Lemma bank_send_core from to d x c c' a : bank_send from to d x c = (c', Ok a) -> core_eq c c'.
Proof. intros H. apply bank_send_ok in H. destruct H as (b & _ & ->). unfold core_eq, pool4_eq, mcore_eq. cbn. repeat split; reflexivity. Qed.

Lemma take_fund_payment_core amount asset pct fund c c' t :
  take_fund_payment amount asset pct fund c = (c', Ok t) -> core_eq c c'.
Proof.
  unfold take_fund_payment. intros H. pm H as c1 tk E1. apply lift_ok in E1. destruct E1 as (-> & _).
  pm H as c2 u E2. apply ret_ok in H. destruct H as (-> & _).
  destruct (tk =? 0).
  - apply ret_ok in E2. destruct E2 as (-> & _). apply core_eq_refl.
  - eapply bank_send_core; eassumption.
Qed.

Ltac uints := repeat match goal with
  | H : uint_add _ _ = Ok _ |- _ => apply uint_add_ok in H; destruct H
  | H : uint_sub _ _ = Ok _ |- _ => apply uint_sub_ok in H; destruct H
  | H : ck_uint _ = Ok _ |- _ => apply ck_uint_ok in H; destruct H
  end.

Lemma gs_on_pool a m : on_pool a m ->
  (m_cust_asset m = ROWAN /\ g_nc a m = m_cust_amt m /\ g_ec a m = 0 /\ g_nl a m = 0 /\ g_el a m = m_liab m) \/
  (m_cust_asset m <> ROWAN /\ g_nc a m = 0 /\ g_ec a m = m_cust_amt m /\ g_nl a m = m_liab m /\ g_el a m = 0).
Proof.
  intros (Ha & [(Hc & Hu)|(Hu & Hc)]); unfold g_nc, g_ec, g_nl, g_el; rewrite Hc, Hu.
  - right. rewrite Z.eqb_refl. destruct (Z.eqb_spec ROWAN a); [congruence|]. auto.
  - left. rewrite Z.eqb_refl. destruct (Z.eqb_spec ROWAN a); [congruence|]. auto.
Qed.

(* TakeOutCustody: the position's custody leaves the pool's custody total *)
Lemma take_out_custody_link li c c' u :
  take_out_custody c = (c', Ok u) -> on_pool (c_asset c) (c_mtp c) -> Link true li c ->
  Link false li c' /\ mcore_eq c c'.
Proof.
  unfold take_out_custody. intros H Hon L. pmg H. pm H as c1 u1 E1.
  apply upd_pool_ok in E1. destruct E1 as (p & Hp & ->).
  pose proof (set_pool_core _ _ _ H) as Hc.
  assert (Hm : mcore_eq c (c <| c_pool := p |>)) by (unfold mcore_eq; cbn; repeat split; reflexivity).
  split; [|eapply mcore_eq_trans; [exact Hm|apply Hc]].
  apply (Link_core _ _ _ _ Hc). unfold Link in *. cbn [c_pool c_mtp c_asset]. 
  rewrite !(others_core _ _ _ Hm). destruct L as (L1 & L2 & L3 & L4).
  destruct (gs_on_pool _ _ Hon) as [(Hcu & G1 & G2 & G3 & G4)|(Hcu & G1 & G2 & G3 & G4)].
  - rewrite Hcu, Z.eqb_refl in Hp. repeat inv1 Hp. uints. subst. cbn. repeat split; lia.
  - destruct (Z.eqb_spec (m_cust_asset (c_mtp c)) ROWAN); [contradiction|]. repeat inv1 Hp. uints. subst. cbn. repeat split; lia.
Qed.

Lemma take_in_custody_link li c c' u :
  take_in_custody c = (c', Ok u) -> on_pool (c_asset c) (c_mtp c) -> Link false li c ->
  Link true li c' /\ mcore_eq c c'.
Proof.
  unfold take_in_custody. intros H Hon L. pmg H. pm H as c1 u1 E1.
  apply upd_pool_ok in E1. destruct E1 as (p & Hp & ->).
  pose proof (set_pool_core _ _ _ H) as Hc.
  assert (Hm : mcore_eq c (c <| c_pool := p |>)) by (unfold mcore_eq; cbn; repeat split; reflexivity).
  split; [|eapply mcore_eq_trans; [exact Hm|apply Hc]].
  apply (Link_core _ _ _ _ Hc). unfold Link in *. cbn [c_pool c_mtp c_asset].
  rewrite !(others_core _ _ _ Hm). destruct L as (L1 & L2 & L3 & L4).
  destruct (gs_on_pool _ _ Hon) as [(Hcu & G1 & G2 & G3 & G4)|(Hcu & G1 & G2 & G3 & G4)].
  - rewrite Hcu, Z.eqb_refl in Hp. repeat inv1 Hp. uints. subst. cbn. repeat split; lia.
  - destruct (Z.eqb_spec (m_cust_asset (c_mtp c)) ROWAN); [contradiction|]. repeat inv1 Hp. uints. subst. cbn. repeat split; lia.
Qed.

(* SetMTP of an existing key: the stored copy becomes the in-memory one; what the others hold is unchanged *)
Lemma set_mtp_existing c c' u : set_mtp c = (c', Ok u) -> c_id c <> 0 ->
  c' = c <| c_s := put_mtp (c_s c) (c_addr c) (c_id c) (c_mtp c) |>.
Proof.
  unfold set_mtp. intros H Hid. apply modc_ok in H. destruct (Z.eqb_spec (c_id c) 0); [contradiction|]. exact H.
Qed.

Lemma find_put_same s addr id m : find_mtp (put_mtp s addr id m) addr id = Some m.
Proof. unfold find_mtp, mtps_of, put_mtp. cbn -[Store.set get]. rewrite get_set_same. apply get_set_same. Qed.

Lemma others_put g c m :
  others g (c <| c_s := put_mtp (c_s c) (c_addr c) (c_id c) m |>) = others g c.
Proof. unfold others. cbn -[tot find_mtp put_mtp gopt]. rewrite tot_put, find_put_same. cbn [gopt]. lia. Qed.

Lemma Link_put cu li c m :
  Link cu li c -> Link cu li (c <| c_s := put_mtp (c_s c) (c_addr c) (c_id c) m |>).
Proof.
  unfold Link. intros L. rewrite !others_put. cbn -[others g_nc g_ec g_nl g_el]. exact L.
Qed.

(* ---------- any-outcome inversion (needed where an error is swallowed and the context kept) ---------- *)
Lemma bindP_any {A B} (m : PM A) (f : A -> PM B) c c' (o : Outcome B) :
  bindP m f c = (c', o) ->
  exists c1 o1, m c = (c1, o1) /\
    match o1 with
    | Ok a => f a c1 = (c', o)
    | Err e => c' = c1 /\ o = Err e
    | Panic => c' = c1 /\ o = Panic
    end.
Proof.
  unfold bindP. destruct (m c) as [c1 o1]. intros H. exists c1, o1. split; [reflexivity|].
  destruct o1; [exact H|inversion H; auto|inversion H; auto].
Qed.

Lemma lift_any {A} (o : Outcome A) c c' o' : lift o c = (c', o') -> c' = c /\ o' = o.
Proof. unfold lift. intros [= <- <-]. auto. Qed.

Lemma upd_mtp_any f c c' o : upd_mtp f c = (c', o) ->
  match f (c_mtp c) with Ok m => c' = c <| c_mtp := m |> /\ o = Ok tt | Err e => c' = c /\ o = Err e | Panic => c' = c /\ o = Panic end.
Proof.
  unfold upd_mtp, bindP, getc, lift, modc. destruct (f (c_mtp c)); intros [= <- <-]; auto.
Qed.
Lemma upd_pool_any f c c' o : upd_pool f c = (c', o) ->
  match f (c_pool c) with Ok p => c' = c <| c_pool := p |> /\ o = Ok tt | Err e => c' = c /\ o = Err e | Panic => c' = c /\ o = Panic end.
Proof.
  unfold upd_pool, bindP, getc, lift, modc. destruct (f (c_pool c)); intros [= <- <-]; auto.
Qed.
Lemma bank_send_any from to d x c c' o : bank_send from to d x c = (c', o) ->
  match send (ms_bank (c_s c)) from to d x with
  | Some b => c' = c <| c_s := (c_s c) <| ms_bank := b |> |> /\ o = Ok tt
  | None => c' = c /\ o = Err E_M
  end.
Proof.
  unfold bank_send, bindP, getc, modc, failM, lift. destruct (send _ _ _ _ _); intros [= <- <-]; auto.
Qed.

(* TakeFundPayment: with a percentage in [0,1] and the coins in the module account it cannot fail with an error,
   takes at most the amount, and leaves the core alone *)
Lemma take_fund_payment_any amount asset pct fund c c' o :
  take_fund_payment amount asset pct fund c = (c', o) ->
  0 <= amount -> 0 <= pct <= PREC -> amount <= bal (ms_bank (c_s c)) CLP_MODULE asset ->
  match o with
  | Ok t => 0 <= t <= amount /\ core_eq c c'
  | Err _ => False
  | Panic => True
  end.
Proof.
  unfold take_fund_payment. intros H Ha Hp Hb.
  apply bindP_any in H. destruct H as (c1 & o1 & E1 & H). apply lift_any in E1. destruct E1 as (-> & ->).
  destruct (Dmul pct (dec_of_int amount)) as [d| |] eqn:Ed; cbn [bind] in H.
  2:{ exfalso. unfold Dmul, ck_dec in Ed. destruct (fits_dec _); discriminate. }
  2:{ destruct H as (_ & ->). exact I. }
  destruct (ck_uint (dec_trunc_int d)) as [t| |] eqn:Et.
  2:{ exfalso. unfold ck_uint in Et. destruct (fits_uint _); discriminate. }
  2:{ destruct H as (_ & ->). exact I. }
  (* t = trunc(pct * amount) <= amount *)
  assert (Ht : 0 <= t <= amount).
  { apply ck_uint_ok in Et. destruct Et as (-> & Ht0). split; [exact Ht0|].
    unfold Dmul, ck_dec in Ed. destruct (fits_dec _); [|discriminate]. injection Ed as <-.
    unfold dec_of_int, dec_trunc_int.
    pose proof Proofs.SdkMathProofs.PREC_pos as HP.
    pose proof (Proofs.PayoutProofs.dec_mul_bounds pct (amount * PREC) ltac:(lia) ltac:(nia)) as (_ & UB).
    set (dm := dec_mul pct (amount * PREC)) in *.
    assert (Hdm0 : 0 <= dm) by (apply Proofs.SdkMathProofs.dec_mul_nonneg; nia).
    rewrite Z.quot_div_nonneg by lia.
    (* 2*PREC*dm <= 2*pct*amount*PREC + PREC <= 2*PREC*amount*PREC + PREC, so dm <= amount*PREC + 1/2, dm/PREC <= amount *)
    assert (pct * (amount * PREC) <= PREC * (amount * PREC)) by (apply Z.mul_le_mono_nonneg_r; nia).
    assert (2 * PREC * dm <= 2 * PREC * (amount * PREC) + PREC) by lia.
    assert (dm <= amount * PREC) by nia.
    apply Z.div_le_upper_bound; lia. }
  apply bindP_any in H. destruct H as (c2 & o2 & E2 & H).
  destruct (Z.eqb_spec t 0) as [->|Hne].
  - unfold ret in E2. injection E2 as <- <-. unfold ret in H. injection H as <- <-. split; [lia|apply core_eq_refl].
  - apply bank_send_any in E2.
    destruct (send (ms_bank (c_s c)) CLP_MODULE fund asset t) as [b|] eqn:Es.
    + destruct E2 as (-> & ->). unfold ret in H. injection H as <- <-. split; [exact Ht|].
      unfold core_eq, pool4_eq, mcore_eq. cbn. repeat split; reflexivity.
    + exfalso. unfold send in Es. destruct (Z.ltb_spec t 0); [lia|]. destruct (Z.eqb_spec t 0); [contradiction|].
      destruct (Z.ltb_spec (bal (ms_bank (c_s c)) CLP_MODULE asset) t); [lia|discriminate].
Qed.

Tactic Notation "pma" hyp(H) "as" ident(c1) ident(o1) ident(E) :=
  apply bindP_any in H; destruct H as (c1 & o1 & E & H).

(* parts of the context no keeper function changes, except the position's custody and the stored positions *)
Definition kcore_eq (c c' : mctx) : Prop :=
  m_coll_asset (c_mtp c') = m_coll_asset (c_mtp c) /\ m_cust_asset (c_mtp c') = m_cust_asset (c_mtp c) /\
  m_liab (c_mtp c') = m_liab (c_mtp c) /\
  c_asset c' = c_asset c /\ c_addr c' = c_addr c /\ c_id c' = c_id c /\
  ms_params (c_s c') = ms_params (c_s c) /\ ms_height (c_s c') = ms_height (c_s c).
Lemma kcore_refl c : kcore_eq c c.
Proof. unfold kcore_eq. repeat split; reflexivity. Qed.
Lemma kcore_trans c1 c2 c3 : kcore_eq c1 c2 -> kcore_eq c2 c3 -> kcore_eq c1 c3.
Proof. unfold kcore_eq. intuition congruence. Qed.
Lemma mcore_kcore c c' : mcore_eq c c' -> kcore_eq c c'.
Proof. unfold mcore_eq, kcore_eq. intuition. Qed.

Lemma clp_swap_pos s asset sent to p r : clp_swap s asset sent to p = Ok r -> 0 < r.
Proof.
  unfold clp_swap. intros H.
  destruct (to =? ROWAN); repeat inv1 H;
  match goal with Hc : calc_swap_result _ _ _ _ _ _ = Ok ?x |- _ => destruct x as [y fee]; apply calc_swap_result_nonneg in Hc end;
  cbn [fst] in *; match goal with E : (_ =? 0) = false |- _ => apply Z.eqb_neq in E end; subst; lia.
Qed.

(* an update of position fields Link does not look at *)
Lemma upd_mtp_core f c c' u :
  upd_mtp f c = (c', Ok u) ->
  (forall m m', f m = Ok m' -> m_coll_asset m' = m_coll_asset m /\ m_cust_asset m' = m_cust_asset m /\
                               m_cust_amt m' = m_cust_amt m /\ m_liab m' = m_liab m) ->
  core_eq c c'.
Proof.
  intros H Hf. apply upd_mtp_ok in H. destruct H as (m & Hm & ->). destruct (Hf _ _ Hm) as (A & B & C & D).
  unfold core_eq, pool4_eq, mcore_eq. cbn. repeat split; assumption.
Qed.

(* IncrementalInterestPayment: whatever it returns short of a panic, the in-memory pool and position stay linked *)
Lemma incremental_any i c c' o li :
  incremental_interest_payment i c = (c', o) ->
  on_pool (c_asset c) (c_mtp c) -> c_id c <> 0 -> Link true li c ->
  0 <= mp_incr_pct (ms_params (c_s c)) <= PREC ->
  0 <= m_cust_amt (c_mtp c) <= bal (ms_bank (c_s c)) CLP_MODULE (m_cust_asset (c_mtp c)) ->
  match o with
  | Panic => True
  | _ => Link true li c' /\ kcore_eq c c' /\ 0 <= m_cust_amt (c_mtp c') <= m_cust_amt (c_mtp c)
  end.
Proof.
  unfold incremental_interest_payment. intros H Hon Hid L Hpct Hfunds.
  pmg H.
  (* interest *)
  pma H as c1 o1 E1. apply lift_any in E1. destruct E1 as (-> & ->).
  destruct (if 0 <? m_iunpaid (c_mtp c) then uint_add i (m_iunpaid (c_mtp c)) else Ok i) as [interest|e|] eqn:Ei.
  2:{ exfalso. destruct (0 <? _); [unfold uint_add, ck_uint in Ei; destruct (fits_uint _); discriminate|discriminate]. }
  2:{ destruct H as (_ & ->). exact I. }
  (* custody value of the payment *)
  pma H as c2 o2 E2. apply lift_any in E2. destruct E2 as (-> & ->).
  destruct (clp_swap (c_s c) (c_asset c) interest (m_cust_asset (c_mtp c)) (c_pool c)) as [ipc|e|] eqn:Es.
  2:{ destruct H as (-> & ->). split; [exact L|]. split; [apply kcore_refl|lia]. }
  2:{ destruct H as (_ & ->). exact I. }
  apply clp_swap_pos in Es.
  (* unpaid interest reset *)
  pma H as c3 o3 E3. apply upd_mtp_any in E3. cbn beta in E3. destruct E3 as (-> & ->).
  set (cA := c <| c_mtp := (c_mtp c) <| m_iunpaid := 0 |> |>) in *.
  assert (HcA : core_eq c cA) by (unfold cA, core_eq, pool4_eq, mcore_eq; cbn; repeat split; reflexivity).
  (* the edge case: not enough custody *)
  pma H as c4 o4 E4.
  assert (Hc4 : match o4 with
                | Ok pr => core_eq c c4 /\ 0 <= snd pr <= m_cust_amt (c_mtp c) /\ ms_bank (c_s c4) = ms_bank (c_s c)
                | Err _ => core_eq c c4
                | Panic => True end).
  { destruct (m_cust_amt (c_mtp c) <? ipc) eqn:Elt.
    - pma E4 as c5 o5 E5. apply lift_any in E5. destruct E5 as (-> & ->).
      match type of E4 with match ?x with _ => _ end => destruct x as [cac|e|] eqn:Ecac end.
      2:{ destruct E4 as (-> & ->). exact HcA. }
      2:{ destruct E4 as (_ & ->). exact I. }
      pma E4 as c6 o6 E6. apply lift_any in E6. destruct E6 as (-> & ->).
      match type of E4 with match ?x with _ => _ end => destruct x as [un|e|] eqn:Eu end.
      2:{ exfalso. unfold uint_sub, ck_uint in Eu. destruct (fits_uint _); discriminate. }
      2:{ destruct E4 as (_ & ->). exact I. }
      pma E4 as c7 o7 E7. apply upd_mtp_any in E7. cbn beta in E7. destruct E7 as (-> & ->).
      unfold ret in E4. injection E4 as <- <-. cbn [snd].
      split; [|split; [lia|reflexivity]].
      eapply core_eq_trans; [exact HcA|]. unfold cA, core_eq, pool4_eq, mcore_eq; cbn; repeat split; reflexivity.
    - unfold ret in E4. injection E4 as <- <-. cbn [snd]. apply Z.ltb_ge in Elt.
      split; [exact HcA|]. split; [lia|reflexivity]. }
  destruct o4 as [[interest' ipc']|e|].
  2:{ destruct H as (-> & ->). split; [eapply Link_core; eassumption|]. split; [apply mcore_kcore, Hc4|].
      destruct Hc4 as (_ & (_ & _ & Hcu & _)). rewrite Hcu. lia. }
  2:{ destruct H as (_ & ->). exact I. }
  destruct Hc4 as (Hc4 & Hipc & Hbank). cbn [snd] in Hipc.
  (* the position pays *)
  pma H as c5 o5 E5. apply upd_mtp_any in E5. cbn beta in E5.
  destruct (uint_add (m_ipaid_coll (c_mtp c4)) interest') as [pa| |] eqn:Ea; cbn [bind] in E5.
  2:{ exfalso. unfold uint_add, ck_uint in Ea. destruct (fits_uint _); discriminate. }
  2:{ destruct E5 as (_ & ->). destruct H as (_ & ->). exact I. }
  destruct (uint_add (m_ipaid_cust (c_mtp c4)) ipc') as [pb| |] eqn:Eb; cbn [bind] in E5.
  2:{ exfalso. unfold uint_add, ck_uint in Eb. destruct (fits_uint _); discriminate. }
  2:{ destruct E5 as (_ & ->). destruct H as (_ & ->). exact I. }
  destruct (uint_sub (m_cust_amt (c_mtp c4)) ipc') as [cu| |] eqn:Ec; cbn [bind] in E5.
  2:{ exfalso. unfold uint_sub, ck_uint in Ec. destruct (fits_uint _); discriminate. }
  2:{ destruct E5 as (_ & ->). destruct H as (_ & ->). exact I. }
  destruct E5 as (-> & ->). apply uint_sub_ok in Ec. destruct Ec as (-> & Hcu0).
  pose proof Hc4 as ((P1 & P2 & P3 & P4) & (M1 & M2 & M3 & M4 & K1 & K2 & K3 & S1 & S2 & S3 & S4 & S5)).
  (* fund payment *)
  pma H as c6 o6 E6.
  eapply take_fund_payment_any in E6; cbn -[bal]; try rewrite ?Hbank, ?S4, ?M2; try lia.
  destruct o6 as [take|e|]; [|contradiction|destruct H as (_ & ->); exact I].
  destruct E6 as (Htake & Hc6).
  pma H as c7 o7 E7. apply lift_any in E7. destruct E7 as (-> & ->).
  destruct (uint_sub ipc' take) as [actual| |] eqn:Eact.
  2:{ exfalso. unfold uint_sub, ck_uint in Eact. destruct (fits_uint _); discriminate. }
  2:{ destruct H as (_ & ->). exact I. }
  (* the pool books it *)
  pma H as c8 o8 E8. apply upd_pool_any in E8.
  pose proof Hc6 as ((Q1 & Q2 & Q3 & Q4) & (N1 & N2 & N3 & N4 & J1 & J2 & J3 & T1 & T2 & T3 & T4 & T5)).
  cbn -[bal] in Q1, Q2, Q3, Q4, N1, N2, N3, N4, J1, J2, J3, T1, T2, T3, T4, T5.
  apply uint_sub_ok in Eact. destruct Eact as (-> & Hact0).
  (* the remaining steps: SetMTP, SetPool *)
  assert (Hfin : forall p', c8 = c6 <| c_pool := p' |> -> o8 = Ok tt ->
            q_nl p' = q_nl (c_pool c) -> q_el p' = q_el (c_pool c) ->
            q_nc p' = q_nc (c_pool c) - (if m_cust_asset (c_mtp c) =? ROWAN then ipc' else 0) ->
            q_ec p' = q_ec (c_pool c) - (if m_cust_asset (c_mtp c) =? ROWAN then 0 else ipc') ->
            match o with Panic => True | _ => Link true li c' /\ kcore_eq c c' /\ 0 <= m_cust_amt (c_mtp c') <= m_cust_amt (c_mtp c) end).
  { intros p' -> -> Hnl Hel Hnc Hec.
    pma H as c9 o9 E9. assert (o9 = Ok tt) by (unfold set_mtp, modc in E9; congruence). subst o9.
    apply set_mtp_existing in E9; [|cbn; congruence]. subst c9.
    pma H as c10 o10 E10. assert (o10 = Ok tt) by (unfold set_pool, modc in E10; congruence). subst o10.
    pose proof (set_pool_core _ _ _ E10) as Hc10. unfold ret in H. injection H as <- <-.
    set (cB := c6 <| c_pool := p' |>) in *.
    assert (LB : Link true li cB).
    { unfold Link. destruct L as (L1 & L2 & L3 & L4).
      assert (Ho : forall g, others g cB = others g c).
      { intros g. unfold others, cB. cbn -[tot find_mtp]. rewrite (tot_core g _ _ T1), (find_core _ _ _ _ T1), J2, J3.
        cbn -[tot find_mtp]. rewrite (tot_core g _ _ S1), (find_core _ _ _ _ S1), K2, K3. reflexivity. }
      rewrite !Ho. unfold cB. cbn -[others g_nc g_ec g_nl g_el]. rewrite J1. cbn -[others g_nc g_ec g_nl g_el]. rewrite K1.
      destruct (gs_on_pool _ _ Hon) as [(Hcu & G1 & G2 & G3 & G4)|(Hcu & G1 & G2 & G3 & G4)].
      - rewrite Hcu, Z.eqb_refl in Hnc, Hec. unfold g_nc, g_ec, g_nl, g_el in *. rewrite N1, N2, N3, N4. cbn. rewrite M1, M2, M3, M4.
        destruct (m_coll_asset (c_mtp c) =? c_asset c); destruct (m_cust_asset (c_mtp c) =? c_asset c); repeat split; lia.
      - destruct (Z.eqb_spec (m_cust_asset (c_mtp c)) ROWAN); [contradiction|].
        unfold g_nc, g_ec, g_nl, g_el in *. rewrite N1, N2, N3, N4. cbn. rewrite M1, M2, M3, M4.
        destruct (m_coll_asset (c_mtp c) =? c_asset c); destruct (m_cust_asset (c_mtp c) =? c_asset c); repeat split; lia. }
    split; [apply (Link_core _ _ _ _ Hc10); apply Link_put; exact LB|].
    split.
    - eapply kcore_trans; [|apply mcore_kcore; apply Hc10].
      unfold kcore_eq, cB. cbn. rewrite N1, N2, N4, J1, J2, J3, T4, T5. cbn. rewrite M1, M2, M4, K1, K2, K3, S4, S5. repeat split; reflexivity.
    - destruct Hc10 as (_ & (_ & _ & Hcu & _)). rewrite Hcu. unfold cB. cbn. rewrite N3. cbn. rewrite M3. lia. }
  cbn beta in E8. destruct (m_cust_asset (c_mtp c) =? ROWAN) eqn:Er.
  - destruct (uint_sub (q_nc (c_pool c6)) ipc') as [x| |] eqn:Ex; cbn [bind] in E8.
    2:{ exfalso. unfold uint_sub, ck_uint in Ex. destruct (fits_uint _); discriminate. }
    2:{ destruct E8 as (_ & ->). destruct H as (_ & ->). exact I. }
    destruct (uint_add (q_nb (c_pool c6)) (ipc' - take)) as [y| |] eqn:Ey; cbn [bind] in E8.
    2:{ exfalso. unfold uint_add, ck_uint in Ey. destruct (fits_uint _); discriminate. }
    2:{ destruct E8 as (_ & ->). destruct H as (_ & ->). exact I. }
    destruct E8 as (E8 & ->). uints. subst. eapply Hfin; [reflexivity|reflexivity|cbn; lia..].
  - destruct (uint_sub (q_ec (c_pool c6)) ipc') as [x| |] eqn:Ex; cbn [bind] in E8.
    2:{ exfalso. unfold uint_sub, ck_uint in Ex. destruct (fits_uint _); discriminate. }
    2:{ destruct E8 as (_ & ->). destruct H as (_ & ->). exact I. }
    destruct (uint_add (q_eb (c_pool c6)) (ipc' - take)) as [y| |] eqn:Ey; cbn [bind] in E8.
    2:{ exfalso. unfold uint_add, ck_uint in Ey. destruct (fits_uint _); discriminate. }
    2:{ destruct E8 as (_ & ->). destruct H as (_ & ->). exact I. }
    destruct E8 as (E8 & ->). uints. subst. eapply Hfin; [reflexivity|reflexivity|cbn; lia..].
Qed.
