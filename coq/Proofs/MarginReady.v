(* C13 / C01: what the begin-blocker theorems ask of the state at the start of a block (MReady: stored positions well
   formed, non-negative and of the right shape, parameters in range, pools in key order and covered by the module account)
   is kept by the closing messages — MsgClose by the owner, MsgAdminClose by the administrator — together with the sums
   invariant and the module account's gap. With C13_begin_block (the premise is re-established at the end of the block)
   the premise becomes one on the state before the first of any sequence of blocks and closing transactions. *)
From Coq Require Import ZArith Lia Bool List.
From RecordUpdate Require Import RecordUpdate.
From Sif Require Import Base.Outcome Base.SdkMath Base.Store Base.Bank Model.Margin Proofs.BankProofs Proofs.ClpInv Proofs.MarginProofs Proofs.MarginLoop.
Import ListNotations.
Local Open Scope Z_scope.

Lemma frames_close_long : frames close_long. Proof. unfold close_long. frames_auto. Qed.
Lemma kg_close_long : keepsG close_long. Proof. unfold close_long. kg_auto. Qed.
Lemma pf_close_long : pframes close_long. Proof. unfold close_long. pf_auto. Qed.
Lemma sh_close_long : keepsSH close_long. Proof. unfold close_long. sh_auto. Qed.

(* from the facts the combinators give about the context after a procedure to the state predicate *)
Lemma assemble_ready s a pool c c' :
  c_s c = s -> c_asset c = a -> c_pool c = pool ->
  MReady s -> get a (ms_pools s) = Some pool ->
  Good c' -> stored_shape (c_s c') -> ms_params (c_s c') = ms_params s -> PF c c' ->
  get a (ms_pools (c_s c')) = Some (c_pool c') -> gap_eq c c' ->
  MReady (c_s c') /\ gapN (c_s c') = gapN s /\ (forall a', a' <> ROWAN -> gapE (c_s c') a' = gapE s a').
Proof.
  intros Es Ea Ep (Hw & Hn & Hsh & Hpct & Hfm & Hwp & Hpools & Hsum) Hg (_ & Hw' & (_ & Hnb' & Heb' & Hn')) Hsh' Hpar (_ & Hpf) Hst HG.
  destruct (Hpools _ _ Hg) as (Ha & Hnb & Heb & Hbe).
  destruct HG as (G1 & G2 & G3 & G4). unfold Gn, Ge in G1, G2. rewrite G3 in G2. rewrite Es, Ea, Ep in *.
  assert (C3 : forall a', a' <> a -> get a' (ms_pools (c_s c')) = get a' (ms_pools s)).
  { intros a' Hne. destruct Hpf as [->|(p' & ->)]; [reflexivity|apply get_set_other; exact Hne]. }
  assert (Hwp' : wf (ms_pools (c_s c'))) by (destruct Hpf as [->|(p' & ->)]; [exact Hwp|apply wf_set; exact Hwp]).
  assert (HgapN : gapN (c_s c') = gapN s).
  { unfold gapN. destruct Hpf as [E|(p' & E)].
    - rewrite E in Hst. rewrite Hg in Hst. injection Hst as Ep'. rewrite E. rewrite <- Ep' in G1. lia.
    - rewrite E in Hst. rewrite get_set_same in Hst. injection Hst as ->. rewrite E, sumf_set, Hg. cbn [fopt]. unfold fnat. lia. }
  assert (HgapE : forall a', a' <> ROWAN -> gapE (c_s c') a' = gapE s a').
  { intros a' Hr. unfold gapE. destruct (Z.eq_dec a' a) as [->|Hne].
    - rewrite Hst, Hg. lia.
    - rewrite (C3 a' Hne). rewrite (G4 a' Hr Hne). reflexivity. }
  split; [|split; [exact HgapN|exact HgapE]].
  split; [exact Hw'|]. split; [exact Hn'|]. split; [exact Hsh'|].
  split; [unfold pct_ok in *; rewrite Hpar; exact Hpct|]. split; [unfold funds_not_module in *; rewrite Hpar; exact Hfm|].
  split; [exact Hwp'|]. split.
  - intros a' p' Hg'. destruct (Z.eq_dec a' a) as [->|Hne].
    + rewrite Hst in Hg'. injection Hg' as <-. split; [exact Ha|]. split; [exact Hnb'|]. split; [exact Heb'|]. lia.
    + rewrite (C3 a' Hne) in Hg'. destruct (Hpools _ _ Hg') as (Q1 & Q2 & Q3 & Q4). split; [exact Q1|]. split; [exact Q2|]. split; [exact Q3|].
      rewrite (G4 a' Q1 Hne). exact Q4.
  - unfold gapN in HgapN. lia.
Qed.

(* the closing of one stored position, whichever of the two procedures does it *)
Section Closing.
  Variables (A : Type) (f : PM A).
  Hypotheses (Ff : frames f) (Gf : keepsG f) (Pf : pframes f) (Sf : keepsSH f).

  Lemma closing_ready s pool m addr id c' (r : A) :
    let asset := pool_asset_of m in
    let c := mkCtx s pool m asset addr id in
    SumInv s -> MReady s -> find_mtp s addr id = Some m -> get asset (ms_pools s) = Some pool ->
    f c = (c', Ok r) ->
    get asset (ms_pools (c_s c')) = Some (c_pool c') -> gap_eq c c' ->
    MReady (c_s c') /\ gapN (c_s c') = gapN s /\ (forall a', a' <> ROWAN -> gapE (c_s c') a' = gapE s a').
  Proof.
    intros asset c HS HM Hf Hg H Hst HG. pose proof HM as (Hw & Hn & Hsh & Hpct & Hfm & Hwp & Hpools & Hsum).
    destruct (Hsh _ _ _ Hf) as (Hid & Haddr & Hshape).
    destruct (Hpools _ _ Hg) as (Ha & Hnb & Heb & Hbe).
    assert (G0 : Good c) by (split; [exact Hid|]; split; [exact Hw|]; split; [exact (Hn _ _ _ Hf)|]; split; [exact Hnb|]; split; [exact Heb|exact Hn]).
    assert (S0 : SH c) by (split; [exact Haddr|]; split; [exact Hid|]; split; [exact Hshape|]; split; [exact Hw|exact Hsh]).
    destruct (Sf _ _ _ H S0) as (_ & _ & _ & _ & Hsh').
    destruct (Ff _ _ _ H) as (_ & _ & Hpar & _ & _).
    exact (assemble_ready s asset pool c c' eq_refl eq_refl eq_refl HM Hg (Gf _ _ _ H G0) Hsh' Hpar (Pf _ _ _ H) Hst HG).
  Qed.
End Closing.

Lemma ready_native_bound s a pool : SumInv s -> MReady s -> get a (ms_pools s) = Some pool ->
  q_nb pool + q_nc pool <= bal (ms_bank s) CLP_MODULE ROWAN.
Proof.
  intros (HP & _) (Hw & Hn & Hsh & Hpct & Hfm & Hwp & Hpools & Hsum) Hg.
  assert (Hnn : forall kv, In kv (ms_pools s) -> 0 <= fnat (snd kv)).
  { intros [a' p'] Hin. cbn [snd]. pose proof (in_get _ _ _ Hwp Hin) as Hg'. destruct (Hpools _ _ Hg') as (Ha' & Hnb' & _).
    destruct (HP _ _ Hg' Ha') as (A1 & _). unfold fnat. rewrite A1.
    pose proof (tot_nonneg_stored (g_nc a') s Hw ltac:(intros ? ? m' Hf'; unfold g_nc; destruct (_ =? _); [exact (Hn _ _ _ Hf')|lia])). lia. }
  pose proof (sumf_in_le fnat (ms_pools s) (a, pool) Hnn (get_in _ _ _ Hg)) as Hle. cbn [snd] in Hle. unfold fnat in Hle at 1. lia.
Qed.

Lemma position_ok_of_ready s addr id m pool :
  SumInv s -> MReady s -> find_mtp s addr id = Some m -> get (pool_asset_of m) (ms_pools s) = Some pool -> position_ok s addr id m.
Proof.
  intros HS HM Hf Hg. pose proof (ready_native_bound s _ pool HS HM Hg) as Bn.
  destruct HS as (HP & HO). destruct HM as (Hw & Hn & Hsh & _ & _ & Hwp & Hpools & Hsum). destruct (Hsh _ _ _ Hf) as (Hid & _ & Hshape).
  destruct (Hpools _ _ Hg) as (Ha & Hnb & Heb & Hbe).
  split; [exact Hshape|]. split; [exact Hid|].
  apply (custody_covered (pool_asset_of m) s pool addr id m); try assumption.
  split; [exact (HP _ _ Hg Ha)|]. split; [intros a' p' _ Hg' Hr; exact (HP _ _ Hg' Hr)|exact HO].
Qed.

(* ---- MsgClose ---- *)
Theorem close_ready s signer id c' r :
  SumInv s -> MReady s -> close_msg s signer id = (c', Ok r) ->
  SumInv (c_s c') /\ MReady (c_s c') /\ gapN (c_s c') = gapN s /\ (forall a', a' <> ROWAN -> gapE (c_s c') a' = gapE s a').
Proof.
  intros HS HM H. pose proof H as H0. unfold close_msg in H.
  destruct (find_mtp s signer id) as [m|] eqn:Hf; [|inversion H].
  destruct (get (pool_asset_of m) (ms_pools s)) as [pool|] eqn:Hg; [|inversion H].
  pose proof (position_ok_of_ready s signer id m pool HS HM Hf Hg) as Hpos.
  assert (Hposa : forall m0, find_mtp s signer id = Some m0 -> position_ok s signer id m0) by (intros m0 E; rewrite Hf in E; injection E as <-; exact Hpos).
  pose proof HM as (Hw & Hn & Hsh & Hpct & Hfm & Hwp & Hpools & Hsum).
  destruct (Hsh _ _ _ Hf) as (Hid & Haddr & Hshape).
  split; [exact (close_preserves s signer id c' r HS Hpct Hposa H0)|].
  destruct (close_gap s signer id c' r HS Hpct Hposa Hfm Haddr H0) as (pool' & m' & Hf' & Hg' & HG).
  rewrite Hf in Hf'. injection Hf' as <-. rewrite Hg in Hg'. injection Hg' as <-.
  destruct Hpos as (Hon & Hid' & Hfunds).
  assert (Ha : pool_asset_of m <> ROWAN) by apply Hon.
  pose proof (link_of_agrees s _ pool m signer id (proj1 HS _ _ Hg Ha) Hf) as L.
  assert (Hh : interest_hyps (mkCtx s pool m (pool_asset_of m) signer id)) by (unfold interest_hyps; cbn; auto).
  (* the stored pool at the end is the context's pool *)
  assert (HCS : Closed (mkCtx s pool m (pool_asset_of m) signer id) (c_s c') /\ get (pool_asset_of m) (ms_pools (c_s c')) = Some (c_pool c')).
  { unfold close_long in H. pm H as c1 u1 E1.
    pose proof (mid_epoch_ok _ _ _ true E1 (fun _ => Hh) L) as HK. pose proof HK as (L1 & K1 & _).
    destruct (closing_tail_ok false (fun r => r) c1 c' r H (keeps_on_pool _ _ _ HK Hon) L1) as (HC & _ & Hmem).
    split; [eapply Closed_keeps; eassumption|]. destruct K1 as (_&_&_&Ka&_). cbn [c_asset] in Ka. rewrite <- Ka. exact Hmem. }
  destruct HCS as (HC & Hst).
  exact (closing_ready _ close_long frames_close_long kg_close_long pf_close_long sh_close_long s pool m signer id c' r HS HM Hf Hg H Hst HG).
Qed.

(* ---- MsgAdminClose ---- *)
Theorem admin_close_ready s adm addr id tf c' r :
  SumInv s -> MReady s -> admin_close_msg s adm addr id tf = (c', Ok r) ->
  adm = true /\ SumInv (c_s c') /\ MReady (c_s c') /\ gapN (c_s c') = gapN s /\ (forall a', a' <> ROWAN -> gapE (c_s c') a' = gapE s a').
Proof.
  intros HS HM H. pose proof H as H0. unfold admin_close_msg in H.
  destruct adm; cbn [negb] in H; [|inversion H]. split; [reflexivity|].
  destruct (find_mtp s addr id) as [m|] eqn:Hf; [|inversion H].
  destruct (get (pool_asset_of m) (ms_pools s)) as [pool|] eqn:Hg; [|inversion H].
  pose proof (position_ok_of_ready s addr id m pool HS HM Hf Hg) as Hpos.
  assert (Hposa : forall m0, find_mtp s addr id = Some m0 -> position_ok s addr id m0) by (intros m0 E; rewrite Hf in E; injection E as <-; exact Hpos).
  pose proof HM as (Hw & Hn & Hsh & Hpct & Hfm & Hwp & Hpools & Hsum).
  destruct (Hsh _ _ _ Hf) as (Hid & Haddr & Hshape).
  split; [exact (proj1 (admin_close_preserves s true addr id tf c' r HS Hpct Hposa H0))|].
  destruct (admin_close_gap s true addr id tf c' r HS Hpct Hposa Hfm Haddr H0) as (pool' & m' & Hf' & Hg' & HG).
  rewrite Hf in Hf'. injection Hf' as <-. rewrite Hg in Hg'. injection Hg' as <-.
  destruct Hpos as (Hon & Hid' & Hfunds).
  assert (Ha : pool_asset_of m <> ROWAN) by apply Hon.
  pose proof (link_of_agrees s _ pool m addr id (proj1 HS _ _ Hg Ha) Hf) as L.
  assert (Hh : interest_hyps (mkCtx s pool m (pool_asset_of m) addr id)) by (unfold interest_hyps; cbn; auto).
  destruct (force_close_long_ok _ _ _ _ _ H Hon (fun _ => Hh) L) as (HC & _ & _ & Hst). cbn [c_asset] in Hst.
  exact (closing_ready _ (force_close_long true tf) (frames_force_close true tf) (kg_force_close true tf) (pf_force_close true tf) (sh_force_close true tf)
           s pool m addr id c' r HS HM Hf Hg H Hst HG).
Qed.

(* ---- MsgOpen ---- *)
Lemma frames_take_in_custody : frames take_in_custody. Proof. unfold take_in_custody. frames_auto. Qed.
Lemma kg_take_in_custody : keepsG take_in_custody. Proof. unfold take_in_custody. kg_auto. Qed.
Lemma pf_take_in_custody : pframes take_in_custody. Proof. unfold take_in_custody. pf_auto. Qed.
Lemma sh_take_in_custody : keepsSH take_in_custody. Proof. unfold take_in_custody. sh_auto. Qed.
#[local] Hint Resolve frames_take_in_custody : frames.
#[local] Hint Resolve kg_take_in_custody : kg.
#[local] Hint Resolve pf_take_in_custody : pf.
#[local] Hint Resolve sh_take_in_custody : sh.

Lemma on_pool_asset a m : on_pool a m -> pool_asset_of m = a.
Proof.
  intros (Ha & [(H1 & H2)|(H1 & H2)]); unfold pool_asset_of.
  - rewrite H1. cbn. exact H2.
  - rewrite H2. destruct (Z.eqb_spec a ROWAN); [contradiction|reflexivity].
Qed.

(* Borrow: up to the point where the new position has its id (the steps before it touch no stored position) *)
Lemma borrow_fn_good coll_amt cust_amt eta c c' u :
  borrow_fn coll_amt cust_amt eta c = (c', Ok u) ->
  c_id c = 0 -> 0 <= ms_count (c_s c) -> mtps_wf (c_s c) -> CN c -> stored_shape (c_s c) ->
  c_addr c <> CLP_MODULE -> on_pool (c_asset c) (c_mtp c) ->
  Good c' /\ SH c' /\ PF c c' /\ ms_params (c_s c') = ms_params (c_s c).
Proof.
  unfold borrow_fn. intros H Hid Hcnt Hw (Hc1 & Hc2 & Hc3 & Hc4) Hsh Haddr Hon. pmg H.
  pm H as c1 u1 E1. assert (c1 = c) by (destruct (_ <? _); [exfalso; eapply failM_not_ok; eassumption|apply ret_ok in E1; tauto]). subst c1.
  pm H as c2 liab_add E2. apply lift_ok in E2. destruct E2 as (-> & El).
  pm H as c3 u3 E3. apply upd_mtp_ok in E3. destruct E3 as (m3 & Em3 & ->).
  repeat inv1 Em3. uints. subst.
  pmg H. pm H as c4 h E4. apply lift_ok in E4. destruct E4 as (-> & _).
  pm H as c5 u5 E5. apply upd_mtp_ok in E5. destruct E5 as (m5 & Em5 & ->). injection Em5 as <-.
  pm H as c6 u6 E6. apply bank_send_ok in E6. destruct E6 as (b & Hsend & ->).
  pmg H. pm H as c7 u7 E7. apply upd_pool_ok in E7. destruct E7 as (p7 & Hp7 & ->).
  pm H as c8 u8 E8. apply set_pool_ok in E8. subst c8.
  apply set_mtp_new in H; [|cbn; exact Hid]. subst c'.
  cbn -[find_mtp put_mtp get Store.set send] in *.
  set (M := c_mtp c <| m_coll_amt := m_coll_amt (c_mtp c) + coll_amt |> <| m_liab := m_liab (c_mtp c) + liab_add |>
                    <| m_cust_amt := m_cust_amt (c_mtp c) + cust_amt |> <| m_lev := eta + PREC |> <| m_health := h |>) in *.
  set (id' := ms_count (c_s c) + 1) in *.
  assert (Hp7nn : 0 <= q_nb p7 /\ 0 <= q_eb p7).
  { destruct (m_coll_asset (c_mtp c) =? ROWAN); repeat inv1 Hp7; uints; subst; cbn; split; lia. }
  assert (HMnn : 0 <= m_cust_amt M) by (unfold M; cbn; lia).
  assert (HMshape : shape M).
  { unfold shape. assert (E : pool_asset_of M = pool_asset_of (c_mtp c)) by reflexivity. rewrite E, (on_pool_asset _ _ Hon).
    unfold on_pool, M in *. cbn. exact Hon. }
  assert (Hw' : mtps_wf (put_mtp (c_s c <| ms_bank := b |> <| ms_pools := set (c_asset c) p7 (ms_pools (c_s c <| ms_bank := b |>)) |>
                                         <| ms_count := id' |> <| ms_open := ms_open (c_s c) + 1 |>) (c_addr c) id' M)).
  { unfold put_mtp. apply mtps_wf_set; [exact Hw|]. apply wf_set. apply (mtps_of_wf (c_s c) (c_addr c) Hw). }
  split.
  { split; [cbn; unfold id'; lia|]. split; [exact Hw'|]. cbn -[find_mtp put_mtp].
    split; [exact HMnn|]. split; [exact (proj1 Hp7nn)|]. split; [exact (proj2 Hp7nn)|].
    intros addr' idx m' Hf. apply find_put_cases in Hf. destruct Hf as [->|Hf]; [exact HMnn|]. exact (Hc4 _ _ _ Hf). }
  split.
  { assert (Hid' : id' <> 0) by (unfold id'; lia).
    unfold SH. cbn -[find_mtp put_mtp]. split; [exact Haddr|]. split; [exact Hid'|]. split; [exact HMshape|]. split; [exact Hw'|].
    intros addr' idx m' Hf. apply find_put_cases' in Hf. destruct Hf as [(-> & -> & ->)|Hf].
    - split; [exact Hid'|]. split; [exact Haddr|exact HMshape].
    - exact (Hsh _ _ _ Hf). }
  split; [|reflexivity].
  split; [reflexivity|]. right. exists p7. reflexivity.
Qed.

Theorem open_ready s hl signer coll borrow amt lev c' u :
  SumInv s -> MReady s -> signer <> CLP_MODULE -> 0 <= ms_count s -> find_mtp s signer (ms_count s + 1) = None ->
  open_msg s hl signer coll borrow amt lev = (c', Ok u) ->
  SumInv (c_s c') /\ MReady (c_s c') /\ gapN (c_s c') = gapN s /\ (forall a', a' <> ROWAN -> gapE (c_s c') a' = gapE s a').
Proof.
  intros HS HM Hsg Hcnt Hfn H. pose proof HM as (Hw & Hn & Hsh & Hpct & Hfm & Hwp & Hpools & Hsum).
  assert (Hf0 : find_mtp s signer 0 = None).
  { destruct (find_mtp s signer 0) as [m0|] eqn:E; [|reflexivity]. destruct (Hsh _ _ _ E) as (Hid & _). contradiction. }
  destruct (open_preserves s hl signer coll borrow amt lev c' u HS Hf0 Hfn H) as (HS' & _ & _ & _ & _ & _ & _ & _ & Hmem).
  destruct (open_gap s hl signer coll borrow amt lev c' u Hsg H) as (pool & Hg & HG).
  split; [exact HS'|].
  set (a := if coll =? ROWAN then borrow else coll) in *.
  destruct (Hpools _ _ Hg) as (Ha & Hnb & Heb & Hbe).
  unfold open_msg in H.
  destruct (mp_whitelisting (ms_params s) && negb (mem signer (ms_whitelist s))); [inversion H|].
  destruct (mp_max_open (ms_params s) <=? ms_open s); [inversion H|].
  fold a in H. rewrite Hg in H.
  destruct (negb (mem a (mp_pools (ms_params s))) || mem a (mp_closed (ms_params s))); [inversion H|].
  destruct hl; [inversion H|].
  destruct (Bool.eqb (coll =? ROWAN) (borrow =? ROWAN)) eqn:Ex; [inversion H|].
  set (lv := Z.min lev (mp_lev_max (ms_params s))) in *.
  set (c1 := mkCtx s pool (new_mtp coll borrow lv) a signer 0) in *.
  assert (Hon : on_pool a (new_mtp coll borrow lv)).
  { unfold on_pool, new_mtp, a. cbn. destruct (Z.eqb_spec coll ROWAN) as [->|Hc]; destruct (Z.eqb_spec borrow ROWAN) as [->|Hb]; cbn in Ex; try discriminate.
    - split; [exact Hb|]. left. auto.
    - split; [exact Hc|]. right. auto. }
  destruct (negb (mp_rowan_coll (ms_params s)) && (coll =? ROWAN)); [exfalso; eapply failM_not_ok; eassumption|].
  pm H as c2 lamt E2. apply lift_ok in E2. destruct E2 as (-> & _).
  pm H as c3 u3 E3. assert (c3 = c1) by (destruct (_ <? lamt); [exfalso; eapply failM_not_ok; eassumption|apply ret_ok in E3; tauto]). subst c3.
  pm H as c4 u4 E4. apply lift_ok in E4. destruct E4 as (-> & _).
  pm H as c5 cust E5. apply lift_ok in E5. destruct E5 as (-> & _).
  pm H as c6 u6 E6. assert (c6 = c1) by (destruct (_ <? cust); [exfalso; eapply failM_not_ok; eassumption|apply ret_ok in E6; tauto]). subst c6.
  pm H as c7 u7 E7.
  assert (CN1 : CN c1) by (unfold CN, c1, new_mtp; cbn; split; [lia|]; split; [exact Hnb|]; split; [exact Heb|exact Hn]).
  destruct (borrow_fn_good _ _ _ _ _ _ E7 eq_refl Hcnt Hw CN1 Hsh Hsg Hon) as (G7 & S7 & P7 & Par7).
  (* the rest: store the pool, move the custody, health check — all on a position that has its id *)
  match type of H with ?rest c7 = _ =>
    assert (Fr : frames rest) by frames_auto; assert (Kg : keepsG rest) by kg_auto;
    assert (Pf : pframes rest) by pf_auto; assert (Sh : keepsSH rest) by sh_auto end.
  pose proof (Kg _ _ _ H G7) as G'. destruct (Sh _ _ _ H S7) as (_ & _ & _ & _ & Hsh').
  destruct (Fr _ _ _ H) as (_ & _ & Par' & _ & _).
  assert (PF' : PF c1 c') by (eapply PF_trans; [exact P7|exact (Pf _ _ _ H)]).
  assert (Hpar : ms_params (c_s c') = ms_params s) by (rewrite Par', Par7; reflexivity).
  exact (assemble_ready s a pool c1 c' eq_refl eq_refl eq_refl HM Hg G' Hsh' Hpar PF' Hmem HG).
Qed.

(* ---- histories of margin transactions and blocks ---- *)
(* the fee a delivered transaction pays first does not touch the module account *)
Lemma fee_debit_ready s signer fee :
  signer <> CLP_MODULE -> SumInv s -> MReady s ->
  let s0 := s <| ms_bank := credit (ms_bank s) signer ROWAN (- fee) |> in
  SumInv s0 /\ MReady s0 /\ gapN s0 = gapN s /\ (forall a, gapE s0 a = gapE s a).
Proof.
  intros Hsg HS (Hw & Hn & Hsh & Hpct & Hfm & Hwp & Hpools & Hsum) s0.
  assert (Hb : forall d, bal (ms_bank s0) CLP_MODULE d = bal (ms_bank s) CLP_MODULE d).
  { intros d. unfold s0. cbn. rewrite bal_credit. destruct (Z.eqb_spec CLP_MODULE signer) as [E|_]; [symmetry in E; contradiction|]. cbn [andb]. lia. }
  split; [exact HS|]. split.
  - split; [exact Hw|]. split; [exact Hn|]. split; [exact Hsh|]. split; [exact Hpct|]. split; [exact Hfm|]. split; [exact Hwp|]. split.
    + intros a p Hg. destruct (Hpools a p Hg) as (Q1 & Q2 & Q3 & Q4). rewrite Hb. auto.
    + rewrite Hb. exact Hsum.
  - split; [unfold gapN; rewrite Hb; reflexivity|]. intros a. unfold gapE. rewrite Hb. reflexivity.
Qed.

Inductive mstep :=
| SMsg (fee : Z) (health_low : bool) (m : margin_msg)     (* a delivered margin transaction (the pool-health gate bit of Open is an input) *)
| SBlock (rates : list (Z * Z * Z)).                       (* the next block's begin blocker (the new interest rates are inputs) *)

Definition signer_of_margin (m : margin_msg) : Z :=
  match m with MOpen sg _ _ _ _ => sg | MClose sg _ => sg | MAdminClose _ sg _ _ _ => sg end.

(* None: the begin blocker itself fails (a panic there halts the chain: property C10) *)
Definition mstep_apply (s : mstate) (e : mstep) : option mstate :=
  match e with
  | SMsg fee hl m => Some (fst (deliver_margin s fee hl m))
  | SBlock rates =>
    let s1 := s <| ms_height := ms_height s + 1 |> in
    match begin_block_margin s1 rates with Ok (s', _) => Some s' | _ => None end
  end.
Fixpoint mrun (s : mstate) (es : list mstep) : option mstate :=
  match es with
  | [] => Some s
  | e :: rest => match mstep_apply s e with Some s1 => mrun s1 rest | None => None end
  end.

(* what is asked along the run: nobody signs as the module account; the administrator's closes name an owner other than the
   module account; when a position is opened the id counter is non-negative and the next id is free (kept by the chain:
   ids are handed out by the counter; evaluated on observed states, not proved here) *)
Definition mstep_ok (s : mstate) (e : mstep) : Prop :=
  match e with
  | SMsg fee hl m =>
    signer_of_margin m <> CLP_MODULE /\
    match m with
    | MOpen sg _ _ _ _ => 0 <= ms_count s /\ find_mtp s sg (ms_count s + 1) = None
    | _ => True
    end
  | SBlock _ => True
  end.
Fixpoint mrun_ok (s : mstate) (es : list mstep) : Prop :=
  match es with
  | [] => True
  | e :: rest => mstep_ok s e /\ match mstep_apply s e with Some s1 => mrun_ok s1 rest | None => True end
  end.

Lemma height_ready s h : SumInv s -> MReady s ->
  let s1 := s <| ms_height := h |> in SumInv s1 /\ MReady s1 /\ gapN s1 = gapN s /\ (forall a, gapE s1 a = gapE s a).
Proof. intros HS HM s1. split; [exact HS|]. split; [exact HM|]. split; [reflexivity|intros; reflexivity]. Qed.

Theorem mstep_ready s e s' :
  SumInv s -> MReady s -> mstep_ok s e -> mstep_apply s e = Some s' ->
  SumInv s' /\ MReady s' /\ gapN s' = gapN s /\ (forall a, a <> ROWAN -> gapE s' a = gapE s a).
Proof.
  intros HS HM Hok H. destruct e as [fee hl m|rates]; cbn [mstep_apply] in H.
  - injection H as <-. destruct Hok as (Hsg & Hm). unfold deliver_margin.
    fold (signer_of_margin m).
    destruct (fee_debit_ready s (signer_of_margin m) fee Hsg HS HM) as (HS0 & HM0 & GN0 & GE0).
    set (s0 := s <| ms_bank := credit (ms_bank s) (signer_of_margin m) ROWAN (- fee) |>) in *.
    assert (Hfail : SumInv s0 /\ MReady s0 /\ gapN s0 = gapN s /\ (forall a, a <> ROWAN -> gapE s0 a = gapE s a))
      by (split; [exact HS0|]; split; [exact HM0|]; split; [exact GN0|intros a _; apply GE0]).
    destruct m as [sg c b a l|sg id|adm sg addr id tf]; cbn [signer_of_margin] in *.
    + destruct (open_msg s0 hl sg c b a l) as [c' o] eqn:E. destruct o as [u| |]; cbn [snd fst]; try exact Hfail.
      destruct Hm as (Hcnt & Hfresh).
      destruct (open_ready s0 hl sg c b a l c' u HS0 HM0 Hsg Hcnt Hfresh E) as (A1 & A2 & A3 & A4).
      split; [exact A1|]. split; [exact A2|]. split; [congruence|]. intros a' Hr. rewrite (A4 a' Hr). apply GE0.
    + destruct (close_msg s0 sg id) as [c' o] eqn:E. destruct o as [r| |]; cbn [snd fst]; try exact Hfail.
      destruct (close_ready s0 sg id c' r HS0 HM0 E) as (A1 & A2 & A3 & A4).
      split; [exact A1|]. split; [exact A2|]. split; [congruence|]. intros a' Hr. rewrite (A4 a' Hr). apply GE0.
    + destruct (admin_close_msg s0 adm addr id tf) as [c' o] eqn:E. destruct o as [r| |]; cbn [snd fst]; try exact Hfail.
      destruct (admin_close_ready s0 adm addr id tf c' r HS0 HM0 E) as (_ & A1 & A2 & A3 & A4).
      split; [exact A1|]. split; [exact A2|]. split; [congruence|]. intros a' Hr. rewrite (A4 a' Hr). apply GE0.
  - destruct (height_ready s (ms_height s + 1) HS HM) as (HS1 & HM1 & GN1 & GE1).
    set (s1 := s <| ms_height := ms_height s + 1 |>) in *.
    destruct (begin_block_margin s1 rates) as [[s2 cl]| |] eqn:E; try discriminate. injection H as <-.
    destruct (begin_block_margin_full s1 rates s2 cl HS1 HM1 E) as (A1 & A2 & _).
    destruct (begin_block_margin_gap s1 rates s2 cl HS1 HM1 E) as (A3 & A4).
    split; [exact A1|]. split; [exact A2|]. split; [congruence|]. intros a' Hr. rewrite (A4 a' Hr). apply GE1.
Qed.

(* C13 / C01 over histories of margin transactions and blocks: premise on the first state *)
Theorem margin_history es : forall s s',
  SumInv s -> MReady s -> mrun_ok s es -> mrun s es = Some s' ->
  SumInv s' /\ MReady s' /\ gapN s' = gapN s /\ (forall a, a <> ROWAN -> gapE s' a = gapE s a).
Proof.
  induction es as [|e rest IH]; intros s s' HS HM Hok H; cbn [mrun mrun_ok] in *.
  - injection H as <-. split; [exact HS|]. split; [exact HM|]. split; [reflexivity|intros; reflexivity].
  - destruct Hok as (Hok1 & Hrest). destruct (mstep_apply s e) as [s1|] eqn:E; [|discriminate].
    destruct (mstep_ready s e s1 HS HM Hok1 E) as (A1 & A2 & A3 & A4).
    destruct (IH s1 s' A1 A2 Hrest H) as (B1 & B2 & B3 & B4).
    split; [exact B1|]. split; [exact B2|]. split; [congruence|]. intros a Hr. rewrite (B4 a Hr). apply A4. exact Hr.
Qed.
