(* C13 / C01: what the begin-blocker theorems ask of the state at the start of a block (MReady: stored positions well
   formed, non-negative and of the right shape, parameters in range, pools in key order and covered by the module account)
   is kept by the closing messages — MsgClose by the owner, MsgAdminClose by the administrator — together with the sums
   invariant and the module account's gap. With C13_begin_block (the premise is re-established at the end of the block)
   the premise becomes one on the state before the first of any sequence of blocks and closing transactions. *)
From Coq Require Import ZArith Lia Bool List.
From RecordUpdate Require Import RecordUpdate.
From Sif Require Import Base.Outcome Base.SdkMath Base.Store Base.Bank Model.Margin Proofs.BankProofs Proofs.MarginProofs Proofs.MarginLoop.
Import ListNotations.
Local Open Scope Z_scope.

Lemma frames_close_long : frames close_long. Proof. unfold close_long. frames_auto. Qed.
Lemma kg_close_long : keepsG close_long. Proof. unfold close_long. kg_auto. Qed.
Lemma pf_close_long : pframes close_long. Proof. unfold close_long. pf_auto. Qed.
Lemma sh_close_long : keepsSH close_long. Proof. unfold close_long. sh_auto. Qed.

(* the closing of one stored position, whichever of the two procedures does it *)
Section Closing.
  Variables (A : Type) (f : PM A).
  Hypotheses (Ff : frames f) (Gf : keepsG f) (Pf : pframes f) (Sf : keepsSH f).

  Lemma closing_ready s pool m addr id c' (r : A) :
    let asset := pool_asset_of m in
    let c := mkCtx s pool m asset addr id in
    SumInv s -> MReady s -> find_mtp s addr id = Some m -> get asset (ms_pools s) = Some pool ->
    f c = (c', Ok r) ->
    Closed c (c_s c') -> get asset (ms_pools (c_s c')) = Some (c_pool c') -> gap_eq c c' ->
    MReady (c_s c') /\ gapN (c_s c') = gapN s /\ (forall a', a' <> ROWAN -> gapE (c_s c') a' = gapE s a').
  Proof.
    intros asset c HS (Hw & Hn & Hsh & Hpct & Hfm & Hwp & Hpools & Hsum) Hf Hg H HC Hst HG.
    destruct (Hsh _ _ _ Hf) as (Hid & Haddr & Hshape).
    destruct (Hpools _ _ Hg) as (Ha & Hnb & Heb & Hbe).
    assert (G0 : Good c) by (split; [exact Hid|]; split; [exact Hw|]; split; [exact (Hn _ _ _ Hf)|]; split; [exact Hnb|]; split; [exact Heb|exact Hn]).
    assert (S0 : SH c) by (split; [exact Haddr|]; split; [exact Hid|]; split; [exact Hshape|]; split; [exact Hw|exact Hsh]).
    destruct (Gf _ _ _ H G0) as (_ & Hw' & (_ & Hnb' & Heb' & Hn')).
    destruct (Sf _ _ _ H S0) as (_ & _ & _ & _ & Hsh').
    destruct (Ff _ _ _ H) as (_ & _ & Hpar & _ & _).
    destruct (Pf _ _ _ H) as (_ & Hpf).
    destruct HC as (_ & _ & C3 & _ & _). cbn [c_asset c_s c] in C3.
    destruct HG as (G1 & G2 & G3 & G4). unfold Gn, Ge in G1, G2. rewrite G3 in G2. cbn [c_s c_pool c_asset c] in G1, G2, G4.
    assert (Hwp' : wf (ms_pools (c_s c'))) by (destruct Hpf as [->|(p' & ->)]; [exact Hwp|apply wf_set; exact Hwp]).
    assert (HgapN : gapN (c_s c') = gapN s).
    { unfold gapN. cbn [c_asset c_s c] in Hpf. destruct Hpf as [E|(p' & E)].
      - rewrite E in Hst. rewrite Hg in Hst. injection Hst as Ep. rewrite E. rewrite <- Ep in G1. lia.
      - rewrite E in Hst. rewrite get_set_same in Hst. injection Hst as ->. rewrite E, sumf_set, Hg. cbn [fopt]. unfold fnat. lia. }
    assert (HgapE : forall a', a' <> ROWAN -> gapE (c_s c') a' = gapE s a').
    { intros a' Hr. unfold gapE. destruct (Z.eq_dec a' asset) as [->|Hne].
      - rewrite Hst, Hg. lia.
      - rewrite (C3 a' Hne). rewrite (G4 a' Hr Hne). reflexivity. }
    split; [|split; [exact HgapN|exact HgapE]].
    split; [exact Hw'|]. split; [exact Hn'|]. split; [exact Hsh'|].
    split; [unfold pct_ok in *; rewrite Hpar; exact Hpct|]. split; [unfold funds_not_module in *; rewrite Hpar; exact Hfm|].
    split; [exact Hwp'|]. split.
    - intros a' p' Hg'. destruct (Z.eq_dec a' asset) as [->|Hne].
      + rewrite Hst in Hg'. injection Hg' as <-. split; [exact Ha|]. split; [exact Hnb'|]. split; [exact Heb'|]. lia.
      + rewrite (C3 a' Hne) in Hg'. destruct (Hpools _ _ Hg') as (Q1 & Q2 & Q3 & Q4). split; [exact Q1|]. split; [exact Q2|]. split; [exact Q3|].
        rewrite (G4 a' Q1 Hne). exact Q4.
    - unfold gapN in HgapN. lia.
  Qed.
End Closing.

Lemma ready_native_bound s a pool : SumInv s -> MReady s -> get a (ms_pools s) = Some pool ->
  q_nb pool + q_nc pool <= bal (ms_bank s) CLP_MODULE ROWAN.
Proof.
  intros (HP & _) (Hw & Hn & Hsh & Hpct & Hfm & Hwp & Hpools & Hsum) Hg.
  assert (Hnn : forall kv, In kv (ms_pools s) -> 0 <= fnat (snd kv)).
  { intros [a' p'] Hin. cbn [snd]. pose proof (in_get _ _ _ Hwp Hin) as Hg'. destruct (Hpools _ _ Hg') as (Ha' & Hnb' & _).
    destruct (HP _ _ Hg' Ha') as (A1 & _). unfold fnat. rewrite A1.
    pose proof (tot_nonneg_stored (g_nc a') s Hw ltac:(intros ? ? m' Hf'; unfold g_nc; destruct (_ =? _); [exact (Hn _ _ _ Hf')|lia])). lia. }
  pose proof (sumf_in_le fnat (ms_pools s) (a, pool) Hnn (get_in _ _ _ Hg)) as Hle. cbn [snd] in Hle. unfold fnat in Hle at 1. lia.
Qed.

Lemma position_ok_of_ready s addr id m pool :
  SumInv s -> MReady s -> find_mtp s addr id = Some m -> get (pool_asset_of m) (ms_pools s) = Some pool -> position_ok s addr id m.
Proof.
  intros HS HM Hf Hg. pose proof (ready_native_bound s _ pool HS HM Hg) as Bn.
  destruct HS as (HP & HO). destruct HM as (Hw & Hn & Hsh & _ & _ & Hwp & Hpools & Hsum). destruct (Hsh _ _ _ Hf) as (Hid & _ & Hshape).
  destruct (Hpools _ _ Hg) as (Ha & Hnb & Heb & Hbe).
  split; [exact Hshape|]. split; [exact Hid|].
  apply (custody_covered (pool_asset_of m) s pool addr id m); try assumption.
  split; [exact (HP _ _ Hg Ha)|]. split; [intros a' p' _ Hg' Hr; exact (HP _ _ Hg' Hr)|exact HO].
Qed.

(* ---- MsgClose ---- *)
Theorem close_ready s signer id c' r :
  SumInv s -> MReady s -> close_msg s signer id = (c', Ok r) ->
  SumInv (c_s c') /\ MReady (c_s c') /\ gapN (c_s c') = gapN s /\ (forall a', a' <> ROWAN -> gapE (c_s c') a' = gapE s a').
Proof.
  intros HS HM H. pose proof H as H0. unfold close_msg in H.
  destruct (find_mtp s signer id) as [m|] eqn:Hf; [|inversion H].
  destruct (get (pool_asset_of m) (ms_pools s)) as [pool|] eqn:Hg; [|inversion H].
  pose proof (position_ok_of_ready s signer id m pool HS HM Hf Hg) as Hpos.
  assert (Hposa : forall m0, find_mtp s signer id = Some m0 -> position_ok s signer id m0) by (intros m0 E; rewrite Hf in E; injection E as <-; exact Hpos).
  pose proof HM as (Hw & Hn & Hsh & Hpct & Hfm & Hwp & Hpools & Hsum).
  destruct (Hsh _ _ _ Hf) as (Hid & Haddr & Hshape).
  split; [exact (close_preserves s signer id c' r HS Hpct Hposa H0)|].
  destruct (close_gap s signer id c' r HS Hpct Hposa Hfm Haddr H0) as (pool' & m' & Hf' & Hg' & HG).
  rewrite Hf in Hf'. injection Hf' as <-. rewrite Hg in Hg'. injection Hg' as <-.
  destruct Hpos as (Hon & Hid' & Hfunds).
  assert (Ha : pool_asset_of m <> ROWAN) by apply Hon.
  pose proof (link_of_agrees s _ pool m signer id (proj1 HS _ _ Hg Ha) Hf) as L.
  assert (Hh : interest_hyps (mkCtx s pool m (pool_asset_of m) signer id)) by (unfold interest_hyps; cbn; auto).
  (* the stored pool at the end is the context's pool *)
  assert (HCS : Closed (mkCtx s pool m (pool_asset_of m) signer id) (c_s c') /\ get (pool_asset_of m) (ms_pools (c_s c')) = Some (c_pool c')).
  { unfold close_long in H. pm H as c1 u1 E1.
    pose proof (mid_epoch_ok _ _ _ true E1 (fun _ => Hh) L) as HK. pose proof HK as (L1 & K1 & _).
    destruct (closing_tail_ok false (fun r => r) c1 c' r H (keeps_on_pool _ _ _ HK Hon) L1) as (HC & _ & Hmem).
    split; [eapply Closed_keeps; eassumption|]. destruct K1 as (_&_&_&Ka&_). cbn [c_asset] in Ka. rewrite <- Ka. exact Hmem. }
  destruct HCS as (HC & Hst).
  exact (closing_ready _ close_long frames_close_long kg_close_long pf_close_long sh_close_long s pool m signer id c' r HS HM Hf Hg H HC Hst HG).
Qed.

(* ---- MsgAdminClose ---- *)
Theorem admin_close_ready s adm addr id tf c' r :
  SumInv s -> MReady s -> admin_close_msg s adm addr id tf = (c', Ok r) ->
  adm = true /\ SumInv (c_s c') /\ MReady (c_s c') /\ gapN (c_s c') = gapN s /\ (forall a', a' <> ROWAN -> gapE (c_s c') a' = gapE s a').
Proof.
  intros HS HM H. pose proof H as H0. unfold admin_close_msg in H.
  destruct adm; cbn [negb] in H; [|inversion H]. split; [reflexivity|].
  destruct (find_mtp s addr id) as [m|] eqn:Hf; [|inversion H].
  destruct (get (pool_asset_of m) (ms_pools s)) as [pool|] eqn:Hg; [|inversion H].
  pose proof (position_ok_of_ready s addr id m pool HS HM Hf Hg) as Hpos.
  assert (Hposa : forall m0, find_mtp s addr id = Some m0 -> position_ok s addr id m0) by (intros m0 E; rewrite Hf in E; injection E as <-; exact Hpos).
  pose proof HM as (Hw & Hn & Hsh & Hpct & Hfm & Hwp & Hpools & Hsum).
  destruct (Hsh _ _ _ Hf) as (Hid & Haddr & Hshape).
  split; [exact (proj1 (admin_close_preserves s true addr id tf c' r HS Hpct Hposa H0))|].
  destruct (admin_close_gap s true addr id tf c' r HS Hpct Hposa Hfm Haddr H0) as (pool' & m' & Hf' & Hg' & HG).
  rewrite Hf in Hf'. injection Hf' as <-. rewrite Hg in Hg'. injection Hg' as <-.
  destruct Hpos as (Hon & Hid' & Hfunds).
  assert (Ha : pool_asset_of m <> ROWAN) by apply Hon.
  pose proof (link_of_agrees s _ pool m addr id (proj1 HS _ _ Hg Ha) Hf) as L.
  assert (Hh : interest_hyps (mkCtx s pool m (pool_asset_of m) addr id)) by (unfold interest_hyps; cbn; auto).
  destruct (force_close_long_ok _ _ _ _ _ H Hon (fun _ => Hh) L) as (HC & _ & _ & Hst). cbn [c_asset] in Hst.
  exact (closing_ready _ (force_close_long true tf) (frames_force_close true tf) (kg_force_close true tf) (pf_force_close true tf) (sh_force_close true tf)
           s pool m addr id c' r HS HM Hf Hg H HC Hst HG).
Qed.
