From Coq Require Import ZArith List Bool Lia.
From Sif Require Import Base.Outcome Model.Mint.
Local Open Scope Z_scope.

Lemma per_pos : 0 < MINT_PER_BLOCK. Proof. reflexivity. Qed.
Lemma per_le_max : MINT_PER_BLOCK <= MAX_MINT. Proof. discriminate. Qed.
Global Opaque MAX_MINT MINT_PER_BLOCK.

Definition WF (s : mstate) : Prop :=
  m_found s = true /\ 0 <= m_counter s <= MAX_MINT /\ m_eco_blocked s = false.

Lemma begin_block_spec s :
  WF s ->
  WF (fst (begin_block s)) /\
  snd (begin_block s) = Z.min MINT_PER_BLOCK (MAX_MINT - m_counter s) /\
  0 <= snd (begin_block s) /\
  m_counter (fst (begin_block s)) = m_counter s + snd (begin_block s) /\
  m_eco (fst (begin_block s)) = m_eco s + snd (begin_block s) /\
  m_supply (fst (begin_block s)) = m_supply s + snd (begin_block s) /\
  m_module (fst (begin_block s)) = m_module s.
Proof.
  intros (Hf & Hc & Hb). pose proof per_pos as HP.
  unfold begin_block, tokens_can_be_minted, is_last_block. rewrite Hf. cbn [andb].
  destruct (Z.ltb_spec (m_counter s) MAX_MINT) as [Hlt|Hge]; cbn [negb].
  - destruct (Z.leb_spec (MAX_MINT - m_counter s) MINT_PER_BLOCK) as [Hl|Hl].
    + destruct (Z.leb_spec (MAX_MINT - m_counter s) 0) as [H0|H0]; [lia|].
      cbn [m_eco_blocked m_found m_counter m_eco m_module m_supply fst snd]. rewrite Hb.
      cbn [m_eco_blocked m_found m_counter m_eco m_module m_supply fst snd].
      unfold WF; cbn [m_eco_blocked m_found m_counter m_eco m_module m_supply].
      repeat split; try assumption; try lia.
    + destruct (Z.leb_spec MINT_PER_BLOCK 0) as [H0|H0]; [lia|].
      cbn [m_eco_blocked m_found m_counter m_eco m_module m_supply fst snd]. rewrite Hb.
      cbn [m_eco_blocked m_found m_counter m_eco m_module m_supply fst snd].
      unfold WF; cbn [m_eco_blocked m_found m_counter m_eco m_module m_supply].
      repeat split; try assumption; try lia.
  - cbn [fst snd]. unfold WF. repeat split; try assumption; try lia.
Qed.

Lemma run_spec n : forall s,
  WF s ->
  WF (fst (run n s)) /\
  m_counter (fst (run n s)) = Z.min MAX_MINT (m_counter s + Z.of_nat n * MINT_PER_BLOCK) /\
  snd (run n s) = m_counter (fst (run n s)) - m_counter s /\
  m_eco (fst (run n s)) = m_eco s + snd (run n s) /\
  m_supply (fst (run n s)) = m_supply s + snd (run n s) /\
  m_module (fst (run n s)) = m_module s.
Proof.
  pose proof per_pos as HP.
  induction n as [|n IH]; intros s Hwf.
  - cbn [run fst snd]. destruct Hwf as (Hf & Hc & Hb). unfold WF. repeat split; try assumption; try lia.
  - cbn [run]. pose proof (begin_block_spec s Hwf) as H1.
    destruct (begin_block s) as [s1 a]. cbn [fst snd] in H1.
    destruct H1 as (Hwf1 & Ha & Ha0 & Hc1 & He1 & Hs1 & Hm1).
    specialize (IH s1 Hwf1). destruct (run n s1) as [s2 b]. cbn [fst snd] in *.
    destruct IH as (Hwf2 & Hc2 & Hb2 & He2 & Hs2 & Hm2).
    destruct Hwf as (Hf & Hc & Hb).
    repeat split; try apply Hwf2; try lia.
Qed.

(* after the cap is reached nothing is minted *)
Lemma capped_mints_nothing s : m_counter s = MAX_MINT -> begin_block s = (s, 0).
Proof.
  intros Heq. unfold begin_block, tokens_can_be_minted. rewrite Heq.
  rewrite Z.ltb_irrefl, andb_false_r. reflexivity.
Qed.

(* no controller record: nothing is minted *)
Lemma no_controller_mints_nothing s : m_found s = false -> begin_block s = (s, 0).
Proof. intros Hf. unfold begin_block, tokens_can_be_minted. rewrite Hf. reflexivity. Qed.
