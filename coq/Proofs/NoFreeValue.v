(* C04 — no free value: round trips never profit, backing per unit never drops by more than dust.
   Everything is reduced to integer inequalities (cross-multiplied), so no reals are needed. *)
From Coq Require Import ZArith Lia Bool List QArith Qround Qabs Lqa.
From RecordUpdate Require Import RecordUpdate.
From Sif Require Import Base.Outcome Base.SdkMath Base.Store Base.Bank
  Model.ClpCalc Model.ClpTypes Model.ClpState Model.ClpMsgs
  Proofs.SdkMathProofs Proofs.BankProofs Proofs.ClpInv Proofs.SwapProofs Proofs.PayoutProofs Proofs.ClpUnits.
Import ListNotations.
Local Open Scope Z_scope.

Transparent PREC.
Lemma PREC_big : 1000 <= PREC. Proof. unfold PREC. lia. Qed.
Opaque PREC.

(* ---------- rationals of the swap formula as integer inequalities ---------- *)
Lemma Qmake_div (a b : Z) : 0 < b -> (inject_Z a / inject_Z b == a # (Z.to_pos b))%Q.
Proof.
  intros Hb. unfold Qdiv, Qinv, inject_Z. cbn. destruct b; try lia. cbn. unfold Qeq, Qmult; cbn. lia.
Qed.

Lemma Qle_div_Z y n d : 0 < d -> (inject_Z y <= inject_Z n / inject_Z d)%Q <-> y * d <= n.
Proof. intros Hd. rewrite Qmake_div by assumption. unfold Qle; cbn. rewrite Z2Pos.id by lia. lia. Qed.

Lemma adjusted_q_frac tr X x Y r : 0 < X -> 0 < x -> 0 <= r ->
  (adjusted_q tr X x Y r == if tr then inject_Z (x * Y * PREC) / inject_Z ((X + x) * (PREC + r))
                           else inject_Z (x * Y * (PREC + r)) / inject_Z ((X + x) * PREC))%Q.
Proof.
  intros HX Hx Hr. unfold adjusted_q, zq, dec_to_q.
  assert (Hp : (r # Z.to_pos PREC == inject_Z r / inject_Z PREC)%Q) by (rewrite Qmake_div; [reflexivity|apply PREC_pos]).
  destruct tr; cbv zeta; rewrite Hp; rewrite !inject_Z_mult, !inject_Z_plus.
  all: assert (0 < inject_Z PREC)%Q by (rewrite <- (Zlt_Qlt 0); apply PREC_pos).
  all: assert (0 < inject_Z X)%Q by (rewrite <- (Zlt_Qlt 0); lia).
  all: assert (0 < inject_Z x)%Q by (rewrite <- (Zlt_Qlt 0); lia).
  all: assert (0 <= inject_Z r)%Q by (rewrite <- (Zle_Qle 0); lia).
  all: change (inject_Z 1) with 1%Q; field; repeat split; try lra.
Qed.

(* the swap output, cross-multiplied: y <= x*Y/(X+x) shifted by the ratio-shifting factor *)
Definition swap_le (tr : bool) (X x Y r y : Z) : Prop :=
  if tr then y * ((X + x) * (PREC + r)) <= x * Y * PREC
  else y * ((X + x) * PREC) <= x * Y * (PREC + r).

Lemma calc_swap_result_le tr X x Y r f y fee :
  0 < X -> 0 < x -> 0 < Y -> 0 <= r -> 0 <= f <= PREC ->
  calc_swap_result tr X x Y r f = Ok (y, fee) -> 0 <= y /\ swap_le tr X x Y r y.
Proof.
  intros HX Hx HY Hr Hf H. pose proof PREC_pos.
  destruct (calc_swap_result_upper _ _ _ _ _ _ _ _ HX Hx HY Hr Hf H) as (Hy & _ & _ & Hq).
  split; [exact Hy|]. rewrite (adjusted_q_frac tr X x Y r HX Hx Hr) in Hq. unfold swap_le.
  destruct tr; cbv iota in Hq.
  - assert (Hd : 0 < (X + x) * (PREC + r)) by nia. exact (proj1 (Qle_div_Z _ _ _ Hd) Hq).
  - assert (Hd : 0 < (X + x) * PREC) by nia. exact (proj1 (Qle_div_Z _ _ _ Hd) Hq).
Qed.

Lemma calc_swap_result_zero tr X x Y r f : x = 0 -> calc_swap_result tr X x Y r f = Ok (0, 0).
Proof. intros ->. unfold calc_swap_result. rewrite Z.eqb_refl, orb_true_r. reflexivity. Qed.

(* ---------- clause 1: swap and swap back ---------- *)
Lemma swap_roundtrip_calc tr X x Y r f f' y fee x' fee' :
  0 < X -> 0 < x -> 0 < Y -> 0 <= r -> 0 <= f <= PREC -> 0 <= f' <= PREC ->
  calc_swap_result tr X x Y r f = Ok (y, fee) -> y < Y ->
  calc_swap_result (negb tr) (Y - y) y (X + x) r f' = Ok (x', fee') ->
  x' <= x.
Proof.
  intros HX Hx HY Hr Hf Hf' H1 HyY H2. pose proof PREC_pos.
  destruct (calc_swap_result_le _ _ _ _ _ _ _ _ HX Hx HY Hr Hf H1) as (Hy & L1).
  destruct (Z.eq_dec y 0) as [->|Hy0].
  - rewrite calc_swap_result_zero in H2 by reflexivity. injection H2 as <- _. lia.
  - assert (L2 := calc_swap_result_le (negb tr) (Y - y) y (X + x) r f' x' fee' ltac:(lia) ltac:(lia) ltac:(lia) Hr Hf' H2).
    destruct L2 as (_ & L2). unfold swap_le in *. replace (Y - y + y) with Y in L2 by lia.
    destruct tr; cbn [negb] in L2.
    + assert (x' * (Y * PREC) <= x * (Y * PREC)) by nia. nia.
    + assert (x' * (Y * (PREC + r)) <= x * (Y * (PREC + r))) by nia. nia.
Qed.

(* monotonicity of the bound in the amount sent: what the second pair of legs of an
   external <-> external round trip needs *)
Lemma swap_le_mono tr X x1 x2 Y r y :
  0 < X -> 0 <= x1 <= x2 -> 0 < Y -> 0 <= r -> 0 <= y -> swap_le tr X x1 Y r y -> 
  y * ((X + x2) * (if tr then PREC + r else PREC)) <= x2 * Y * (if tr then PREC else PREC + r).
Proof.
  intros HX Hx HY Hr Hy H. pose proof PREC_pos. unfold swap_le in H.
  assert (E : x1 * (X + x2) <= x2 * (X + x1)) by nia.
  destruct tr.
  - apply Z.mul_le_mono_pos_r with (p := X + x1); [lia|].
    transitivity (x1 * Y * PREC * (X + x2)).
    + replace (y * ((X + x2) * (PREC + r)) * (X + x1)) with (y * ((X + x1) * (PREC + r)) * (X + x2)) by ring.
      apply Z.mul_le_mono_nonneg_r; lia.
    + replace (x1 * Y * PREC * (X + x2)) with ((x1 * (X + x2)) * (Y * PREC)) by ring.
      replace (x2 * Y * PREC * (X + x1)) with ((x2 * (X + x1)) * (Y * PREC)) by ring.
      apply Z.mul_le_mono_nonneg_r; nia.
  - apply Z.mul_le_mono_pos_r with (p := X + x1); [lia|].
    transitivity (x1 * Y * (PREC + r) * (X + x2)).
    + replace (y * ((X + x2) * PREC) * (X + x1)) with (y * ((X + x1) * PREC) * (X + x2)) by ring.
      apply Z.mul_le_mono_nonneg_r; lia.
    + replace (x1 * Y * (PREC + r) * (X + x2)) with ((x1 * (X + x2)) * (Y * (PREC + r))) by ring.
      replace (x2 * Y * (PREC + r) * (X + x1)) with ((x2 * (X + x1)) * (Y * (PREC + r))) by ring.
      apply Z.mul_le_mono_nonneg_r; nia.
Qed.

(* degenerate inputs included: empty side or zero amount give (0, 0) *)
Lemma swap_roundtrip_calc_all tr X x Y r f f' y fee x' fee' :
  0 <= X -> 0 <= x -> 0 <= Y -> 0 <= r -> 0 <= f <= PREC -> 0 <= f' <= PREC ->
  calc_swap_result tr X x Y r f = Ok (y, fee) -> y < Y ->
  calc_swap_result (negb tr) (Y - y) y (X + x) r f' = Ok (x', fee') ->
  x' <= x.
Proof.
  intros HX Hx HY Hr Hf Hf' H1 HyY H2.
  destruct (Z.eq_dec X 0) as [->|]; [|destruct (Z.eq_dec x 0) as [->|]; [|destruct (Z.eq_dec Y 0) as [->|]]].
  - unfold calc_swap_result in H1. cbn [Z.eqb orb] in H1. injection H1 as <- _.
    rewrite calc_swap_result_zero in H2 by reflexivity. injection H2 as <- _. exact Hx.
  - rewrite calc_swap_result_zero in H1 by reflexivity. injection H1 as <- _.
    rewrite calc_swap_result_zero in H2 by reflexivity. injection H2 as <- _. lia.
  - unfold calc_swap_result in H1. rewrite Z.eqb_refl, !orb_true_r in H1. injection H1 as <- _.
    rewrite calc_swap_result_zero in H2 by reflexivity. injection H2 as <- _. lia.
  - apply (swap_roundtrip_calc tr X x Y r f f' y fee x' fee'); try assumption; lia.
Qed.

(* the single leg of a direct swap, as the handler calls it *)
Lemma swap_single_leg s sg sent recv amt mn s' emit :
  swap s sg sent recv amt mn = Ok (s', emit) -> (sent = ROWAN \/ recv = ROWAN) ->
  let a := if recv =? ROWAN then sent else recv in
  exists p fee sp, get a (cs_pools s) = Some p /\
    swap_one (recv =? ROWAN) amt (to_spool p) (cp_pmtp (cs_params s)) (fee_rate (cs_params s) sent) = Ok (emit, fee, sp) /\
    cs_pools s' = set a (upd_balances p sp) (cs_pools s) /\ cs_params s' = cs_params s /\ 0 <= amt.
Proof.
  unfold swap. intros H Hroute. repeat inv1 H. subst.
  assert (Edbl : negb (sent =? ROWAN) && negb (recv =? ROWAN) = false).
  { destruct Hroute as [-> | ->]; cbn; [reflexivity|apply andb_false_r]. }
  match goal with Hd : (if negb (sent =? ROWAN) && negb (recv =? ROWAN) then _ else _) = Ok _ |- _ =>
    rewrite Edbl in Hd; injection Hd as <- <- end. use_get_pool.
  match goal with Hg : get _ (cs_pools (with_bank _ _)) = Some _ |- _ => rewrite pools_with_bank in Hg end.
  assert (Hamt : 0 <= amt).
  { match goal with Hs : bsend (cs_bank s) _ _ _ amt = Ok _ |- _ => apply bsend_ok, send_effect in Hs; tauto end. }
  do 3 eexists. split; [eassumption|]. split; [eassumption|].
  rewrite pools_with_bank, pools_set_pool, pools_with_bank. split; [reflexivity|]. split; [reflexivity|exact Hamt].
Qed.

Definition rates_ok (ps : clp_params) : Prop :=
  0 <= cp_pmtp ps /\ 0 <= cp_fee_default ps <= PREC /\ (forall d f, assoc d (cp_fee_tokens ps) = Some f -> 0 <= f <= PREC).

Lemma fee_rate_ok ps d : rates_ok ps -> 0 <= fee_rate ps d <= PREC.
Proof. intros (_ & Hd & Ht). unfold fee_rate. destruct (assoc d (cp_fee_tokens ps)) eqn:E; [eapply Ht; eassumption|exact Hd]. Qed.

Definition pool_nonneg (p : pool) : Prop := 0 <= p_nb p /\ 0 <= p_eb p /\ 0 <= p_nl p /\ 0 <= p_el p.

(* clause 1 on the message handlers, direct routes: swap, then swap the proceeds back *)
Lemma swap_roundtrip_single s sg sent recv amt mn s' emit mn' s'' back :
  rates_ok (cs_params s) ->
  (forall a p, get a (cs_pools s) = Some p -> pool_nonneg p) ->
  (sent = ROWAN \/ recv = ROWAN) -> sent <> recv ->
  swap s sg sent recv amt mn = Ok (s', emit) ->
  swap s' sg recv sent emit mn' = Ok (s'', back) ->
  back <= amt.
Proof.
  intros Hr Hnn Hroute Hne H1 H2.
  destruct (swap_single_leg _ _ _ _ _ _ _ _ H1 Hroute) as (p & fee & sp & Hg & Hl1 & Hp1 & Hps & Hamt).
  assert (Hroute' : recv = ROWAN \/ sent = ROWAN) by tauto.
  destruct (swap_single_leg _ _ _ _ _ _ _ _ H2 Hroute') as (p2 & fee2 & sp2 & Hg2 & Hl2 & _ & _ & _).
  cbv zeta in *. rewrite Hps in Hl2.
  assert (Ea : (if sent =? ROWAN then recv else sent) = (if recv =? ROWAN then sent else recv)).
  { destruct (Z.eqb_spec sent ROWAN), (Z.eqb_spec recv ROWAN); try congruence; destruct Hroute; congruence. }
  rewrite Ea, Hp1, get_set_same in Hg2. injection Hg2 as <-.
  assert (Edir : (sent =? ROWAN) = negb (recv =? ROWAN)).
  { destruct (Z.eqb_spec sent ROWAN), (Z.eqb_spec recv ROWAN); cbn; try congruence; destruct Hroute; congruence. }
  rewrite Edir in Hl2.
  pose proof (swap_one_effect _ _ _ _ _ _ _ _ Hl1) as He.
  apply swap_one_calc in Hl1. apply swap_one_calc in Hl2.
  destruct (Hnn _ _ Hg) as (N1 & N2 & N3 & N4). destruct Hr as (Hpm & Hfees).
  pose proof (fee_rate_ok (cs_params s) sent (conj Hpm Hfees)) as F1.
  pose proof (fee_rate_ok (cs_params s) recv (conj Hpm Hfees)) as F2.
  unfold to_spool, upd_balances in *. cbn in He, Hl1, Hl2.
  destruct (recv =? ROWAN); cbn [negb] in *; destruct He as ((E1 & E2 & E3) & E4 & E5); rewrite E1, E2 in Hl2.
  - eapply (swap_roundtrip_calc_all true (p_eb p + p_el p) amt (p_nb p + p_nl p)); try exact Hl1; try eassumption; try lia.
    replace (p_nb p + p_nl p - emit) with (p_nb p - emit + p_nl p) by lia.
    replace (p_eb p + p_el p + amt) with (p_eb p + amt + p_el p) by lia. exact Hl2.
  - eapply (swap_roundtrip_calc_all false (p_nb p + p_nl p) amt (p_eb p + p_el p)); try exact Hl1; try eassumption; try lia.
    replace (p_eb p + p_el p - emit) with (p_eb p - emit + p_el p) by lia.
    replace (p_nb p + p_nl p + amt) with (p_nb p + amt + p_nl p) by lia. exact Hl2.
Qed.

(* the two legs of an external -> external swap *)
Lemma swap_double_legs s sg sent recv amt mn s' emit :
  swap s sg sent recv amt mn = Ok (s', emit) ->
  sent <> ROWAN -> recv <> ROWAN -> sent <> recv ->
  exists mid p1 p2 fee1 fee2 sp1 sp2, get sent (cs_pools s) = Some p1 /\ get recv (cs_pools s) = Some p2 /\
    swap_one true amt (to_spool p1) (cp_pmtp (cs_params s)) (fee_rate (cs_params s) sent) = Ok (mid, fee1, sp1) /\
    swap_one false mid (to_spool p2) (cp_pmtp (cs_params s)) (fee_rate (cs_params s) sent) = Ok (emit, fee2, sp2) /\
    cs_pools s' = set recv (upd_balances p2 sp2) (set sent (upd_balances p1 sp1) (cs_pools s)) /\
    cs_params s' = cs_params s /\ 0 <= amt.
Proof.
  unfold swap. intros H Hs Hr Hne. repeat inv1 H. subst.
  assert (Hamt : 0 <= amt).
  { match goal with Hb : bsend (cs_bank s) _ _ _ amt = Ok _ |- _ => apply bsend_ok, send_effect in Hb; tauto end. }
  apply Z.eqb_neq in Hs, Hr. rewrite Hs, Hr in *. cbn [negb andb] in *.
  match goal with Hd : bind (get_pool _ sent) _ = Ok _ |- _ => repeat inv1 Hd end. subst. use_get_pool.
  match goal with Hg : get recv (cs_pools (set_pool _ _ _)) = Some _ |- _ =>
    rewrite pools_set_pool, pools_with_bank in Hg; rewrite get_set_other in Hg by congruence end.
  match goal with Hg : get sent (cs_pools (with_bank _ _)) = Some _ |- _ => rewrite pools_with_bank in Hg end.
  do 7 eexists. split; [eassumption|]. split; [eassumption|]. split; [eassumption|]. split; [eassumption|].
  rewrite pools_with_bank, pools_set_pool, pools_set_pool, pools_with_bank.
  split; [reflexivity|]. split; [reflexivity|exact Hamt].
Qed.

Lemma calc_swap_result_nonneg tr X x Y r f y fee : calc_swap_result tr X x Y r f = Ok (y, fee) -> 0 <= y.
Proof.
  unfold calc_swap_result. destruct ((X =? 0) || (x =? 0) || (Y =? 0)); [intros [= <- _]; lia|].
  intros H. repeat inv1 H.
  match goal with Hs : uint_sub _ _ = Ok _ |- _ => apply uint_sub_ok in Hs; destruct Hs; subst; assumption end.
Qed.

(* clause 1, external -> external and back: four legs through two pools *)
Lemma swap_roundtrip_double s sg sent recv amt mn s' emit mn' s'' back :
  rates_ok (cs_params s) ->
  (forall a p, get a (cs_pools s) = Some p -> pool_nonneg p) ->
  sent <> ROWAN -> recv <> ROWAN -> sent <> recv ->
  swap s sg sent recv amt mn = Ok (s', emit) ->
  swap s' sg recv sent emit mn' = Ok (s'', back) ->
  back <= amt.
Proof.
  intros Hr Hnn Hs Hrc Hne H1 H2.
  destruct (swap_double_legs _ _ _ _ _ _ _ _ H1 Hs Hrc Hne) as (m1 & p1 & p2 & fe1 & fe2 & sp1 & sp2 & G1 & G2 & L1 & L2 & Hp & Hps & Hamt).
  destruct (swap_double_legs _ _ _ _ _ _ _ _ H2 Hrc Hs ltac:(congruence)) as (m2 & q2 & q1 & fe3 & fe4 & sq2 & sq1 & G3 & G4 & L3 & L4 & _ & _ & _).
  rewrite Hps in L3, L4. rewrite Hp in G3, G4.
  rewrite get_set_same in G3. injection G3 as <-.
  rewrite get_set_other, get_set_same in G4 by congruence. injection G4 as <-.
  destruct (Hnn _ _ G1) as (A1 & A2 & A3 & A4). destruct (Hnn _ _ G2) as (B1 & B2 & B3 & B4).
  destruct Hr as (Hpm & Hfees).
  pose proof (fee_rate_ok (cs_params s) sent (conj Hpm Hfees)) as F1.
  pose proof (fee_rate_ok (cs_params s) recv (conj Hpm Hfees)) as F2.
  pose proof (swap_one_effect _ _ _ _ _ _ _ _ L1) as E1. pose proof (swap_one_effect _ _ _ _ _ _ _ _ L2) as E2.
  apply swap_one_calc in L1, L2, L3, L4.
  unfold to_spool, upd_balances in *. cbn in E1, E2, L1, L2, L3, L4.
  destruct E1 as ((E11 & E12 & E13) & _ & _). destruct E2 as ((E21 & E22 & E23) & _ & _).
  rewrite E11, E12 in L4. rewrite E21, E22 in L3.
  pose proof (calc_swap_result_nonneg _ _ _ _ _ _ _ _ L1) as Hm1.
  pose proof (calc_swap_result_nonneg _ _ _ _ _ _ _ _ L2) as Hemit.
  pose proof (calc_swap_result_nonneg _ _ _ _ _ _ _ _ L3) as Hm2.
  pose proof (calc_swap_result_nonneg _ _ _ _ _ _ _ _ L4) as Hback.
  (* pool of the received asset: m1 -> emit -> m2 <= m1 *)
  assert (Hm : m2 <= m1).
  { apply (swap_roundtrip_calc_all false (p_nb p2 + p_nl p2) m1 (p_eb p2 + p_el p2) (cp_pmtp (cs_params s))
             (fee_rate (cs_params s) sent) (fee_rate (cs_params s) recv) emit fe2 m2 fe3); try assumption; try lia.
    cbn [negb]. replace (p_eb p2 + p_el p2 - emit) with (p_eb p2 - emit + p_el p2) by lia.
    replace (p_nb p2 + p_nl p2 + m1) with (p_nb p2 + m1 + p_nl p2) by lia. exact L3. }
  (* pool of the sent asset: amt -> m1, then m2 <= m1 -> back *)
  set (Xa := p_eb p1 + p_el p1) in *. set (Ya := p_nb p1 + p_nl p1) in *.
  replace (p_nb p1 - m1 + p_nl p1) with (Ya - m1) in L4 by (unfold Ya; lia).
  replace (p_eb p1 + amt + p_el p1) with (Xa + amt) in L4 by (unfold Xa; lia).
  destruct (Z.eq_dec m2 0) as [->|Hm20].
  { rewrite calc_swap_result_zero in L4 by reflexivity. injection L4 as <- _. exact Hamt. }
  destruct (Z.eq_dec Xa 0) as [EX|HX0].
  { rewrite EX in L1. unfold calc_swap_result in L1. cbn [Z.eqb orb] in L1. injection L1 as <- _. lia. }
  destruct (Z.eq_dec amt 0) as [->|Hamt0].
  { rewrite calc_swap_result_zero in L1 by reflexivity. injection L1 as <- _. lia. }
  assert (HYa : 0 < Ya) by (unfold Ya; lia).
  pose proof PREC_pos.
  destruct (calc_swap_result_le true Xa amt Ya _ _ _ _ ltac:(lia) ltac:(lia) HYa Hpm F1 L1) as (_ & S1).
  destruct (calc_swap_result_le false (Ya - m1) m2 (Xa + amt) _ _ _ _ ltac:(lia) ltac:(lia) ltac:(lia) Hpm F2 L4) as (_ & S4).
  pose proof (swap_le_mono false (Ya - m1) m2 m1 (Xa + amt) (cp_pmtp (cs_params s)) back ltac:(lia) ltac:(lia) ltac:(lia) Hpm Hback S4) as S4'.
  cbv iota in S4'. unfold swap_le in S1. replace (Ya - m1 + m1) with Ya in S4' by lia.
  set (pm := cp_pmtp (cs_params s)) in *.
  (* back * Ya * PREC <= m1 * (Xa+amt) * (PREC+pm) <= amt * Ya * PREC *)
  assert (back * (Ya * PREC) <= amt * (Ya * PREC)) by nia.
  apply Z.mul_le_mono_pos_r with (p := Ya * PREC); nia.
Qed.

(* ---------- clause 2: add, then remove what was received ---------- *)
Lemma Dquo_ok a b c : Dquo a b = Ok c -> b <> 0 /\ c = dec_quo a b.
Proof.
  unfold Dquo. destruct (Z.eqb_spec b 0); [discriminate|]. unfold ck_dec. destruct (fits_dec _); [|discriminate].
  intros [= <-]. auto.
Qed.

(* one side of a withdrawal of a claim c (an 18-digit decimal number of units, c = units * 10^18) out of
   T units from a depth N: at most N*c/T, one base unit and 1e-18 relative *)
Lemma withdraw_side_upper_dec T c N q wnd :
  0 < c <= T * PREC -> 0 <= N ->
  q = dec_quo (dec_of_int T) c -> wnd = dec_quo (dec_of_int N) q ->
  0 < q /\ 0 <= wnd /\
  (dec_round_int wnd - 1) * (T * PREC * PREC - c) <= N * c * PREC /\
  (dec_trunc_int wnd - 1) * (T * PREC * PREC - c) <= N * c * PREC.
Proof.
  intros Hu HN -> ->. pose proof PREC_pos as HP. assert (HPb := PREC_big). unfold dec_of_int.
  set (q := dec_quo (T * PREC) c).
  destruct (dec_quo_bounds (T * PREC) c ltac:(nia) ltac:(lia)) as (LB & _). fold q in LB.
  assert (Hq : 0 < q).
  { assert (K1 : c * (PREC * PREC) <= 2 * (T * PREC) * PREC * PREC - c * (PREC * PREC)).
    { assert (c * (PREC * PREC) <= (T * PREC) * (PREC * PREC)) by (apply Z.mul_le_mono_nonneg_r; nia). nia. }
    assert (K2 : PREC * c + 2 * c < c * (PREC * PREC)).
    { assert (PREC + 2 < PREC * PREC) by nia. nia. }
    assert (0 < 2 * PREC * (q * c)) by lia. nia. }
  split; [exact Hq|].
  set (wnd := dec_quo (N * PREC) q).
  destruct (dec_quo_bounds (N * PREC) q ltac:(nia) Hq) as (_ & UB). fold wnd in UB.
  assert (Hw0 : 0 <= wnd) by (apply dec_quo_nonneg; nia).
  split; [exact Hw0|].
  assert (UB' : 2 * (wnd * q) <= 2 * N * PREC * PREC + q).
  { assert (PREC * (2 * (wnd * q)) <= PREC * (2 * N * PREC * PREC + q)) by nia. nia. }
  assert (Main : forall w, 2 * PREC * w <= 2 * wnd + PREC -> (w - 1) * (T * PREC * PREC - c) <= N * c * PREC).
  { intros w Hw. assert (Hd : 0 <= T * PREC * PREC - c) by nia.
    destruct (Z.le_gt_cases w 1) as [Hle|Hgt].
    { assert ((w - 1) * (T * PREC * PREC - c) <= 0) by (apply Z.mul_nonpos_nonneg; lia).
      assert (0 <= N * c * PREC) by (apply Z.mul_nonneg_nonneg; [apply Z.mul_nonneg_nonneg|]; lia). lia. }
    assert (A1 : 2 * PREC * w * q <= (2 * wnd + PREC) * q) by (apply Z.mul_le_mono_nonneg_r; lia).
    assert (A2 : (2 * wnd + PREC) * q = 2 * (wnd * q) + PREC * q) by ring.
    assert (A3 : q * 1 <= q * PREC) by (apply Z.mul_le_mono_nonneg_l; lia).
    assert (A4 : 2 * PREC * ((w - 1) * q) = 2 * PREC * w * q - 2 * (PREC * q)) by ring.
    assert (A5 : 2 * PREC * ((w - 1) * q) <= 2 * PREC * (N * PREC)).
    { replace (2 * PREC * (N * PREC)) with (2 * N * PREC * PREC) by ring. replace (q * PREC) with (PREC * q) in A3 by ring. lia. }
    assert (S1 : (w - 1) * q <= N * PREC) by (apply Z.mul_le_mono_pos_l with (p := 2 * PREC); lia).
    assert (S2 : (2 * PREC * c) * ((w - 1) * q) <= (2 * PREC * c) * (N * PREC)) by (apply Z.mul_le_mono_nonneg_l; nia).
    assert (S3 : (2 * (T * PREC) * PREC * PREC - PREC * c - 2 * c) * (w - 1) <= (2 * PREC * (q * c)) * (w - 1))
      by (apply Z.mul_le_mono_nonneg_r; lia).
    assert (S4 : (2 * PREC * (T * PREC * PREC - c)) * (w - 1) <= (2 * (T * PREC) * PREC * PREC - PREC * c - 2 * c) * (w - 1)).
    { apply Z.mul_le_mono_nonneg_r; [lia|]. assert (2 * c <= c * PREC) by nia.
      replace (2 * PREC * (T * PREC * PREC - c)) with (2 * (T * PREC) * PREC * PREC - 2 * (c * PREC)) by ring. lia. }
    assert (S5 : (2 * PREC * (q * c)) * (w - 1) = (2 * PREC * c) * ((w - 1) * q)) by ring.
    apply Z.mul_le_mono_pos_l with (p := 2 * PREC); [lia|].
    replace (2 * PREC * ((w - 1) * (T * PREC * PREC - c))) with ((2 * PREC * (T * PREC * PREC - c)) * (w - 1)) by ring.
    replace (2 * PREC * (N * c * PREC)) with ((2 * PREC * c) * (N * PREC)) by ring. lia. }
  split.
  - apply Main. pose proof (dec_round_bounds wnd Hw0). lia.
  - apply Main. pose proof (dec_trunc_bounds wnd Hw0). lia.
Qed.

Lemma withdraw_side_upper T u N q wnd :
  0 < u <= T -> 0 <= N ->
  q = dec_quo (dec_of_int T) (dec_of_int u) -> wnd = dec_quo (dec_of_int N) q ->
  0 < q /\ 0 <= wnd /\
  (dec_round_int wnd - 1) * (T * PREC - u) <= N * u * PREC /\
  (dec_trunc_int wnd - 1) * (T * PREC - u) <= N * u * PREC.
Proof.
  intros Hu HN Hq Hw. pose proof PREC_pos as HP.
  destruct (withdraw_side_upper_dec T (dec_of_int u) N q wnd ltac:(unfold dec_of_int; nia) HN Hq Hw) as (H1 & H2 & H3 & H4).
  split; [exact H1|]. split; [exact H2|]. unfold dec_of_int in H3, H4.
  split; (apply Z.mul_le_mono_pos_r with (p := PREC); [lia|]); lia.
Qed.

Lemma withdraw_from_units_upper T N E lpu u wn we lft :
  0 < T -> 0 <= N -> 0 <= E -> 0 <= u <= T ->
  calculate_withdrawal_from_units T N E lpu u = Ok (wn, we, lft) ->
  0 < u /\ (wn - 1) * (T * PREC - u) <= N * u * PREC /\ (we - 1) * (T * PREC - u) <= E * u * PREC.
Proof.
  intros HT HN HE Hu H. unfold calculate_withdrawal_from_units in H. repeat inv1 H. unfold to_uint in *.
  repeat match goal with Hq : Dquo _ _ = Ok _ |- _ => apply Dquo_ok in Hq; destruct Hq end.
  repeat match goal with Hq : ck_uint _ = Ok _ |- _ => apply ck_uint_ok in Hq; destruct Hq end. subst.
  assert (Hu0 : 0 < u).
  { destruct (Z.eq_dec u 0) as [->|]; [|lia]. exfalso.
    match goal with Hz : dec_of_int 0 <> 0 |- _ => apply Hz; reflexivity end. }
  split; [exact Hu0|].
  destruct (withdraw_side_upper T u N _ _ ltac:(lia) HN eq_refl eq_refl) as (_ & _ & HA1 & _).
  destruct (withdraw_side_upper T u E _ _ ltac:(lia) HE eq_refl eq_refl) as (_ & _ & HA2 & _).
  split; assumption.
Qed.

(* what CalculatePoolUnits hands out, whatever the internal swap amount is *)
Lemma swap_amount_nonneg_n R A r a f p s : nat_swap_amount R A r a f p = Ok s -> 0 <= s.
Proof. unfold nat_swap_amount. intros H. repeat inv1 H. unfold to_uint in *. apply ck_uint_ok in H. lia. Qed.
Lemma swap_amount_nonneg_e R A r a f p s : ext_swap_amount R A r a f p = Ok s -> 0 <= s.
Proof. unfold ext_swap_amount. intros H. repeat inv1 H. unfold to_uint in *. apply ck_uint_ok in H. lia. Qed.

Lemma calculate_pool_units_spec P R A r a fs fb pm pu l st sw :
  0 < R -> 0 < A ->
  calculate_pool_units P R A r a fs fb pm = Ok (pu, l, st, sw) ->
  pu = P + l /\
  match st with
  | SellNative => 0 <= sw <= r /\ l = (r - sw) * P / (R + sw)
  | BuyNative => 0 <= sw <= a /\ l = (a - sw) * P / (A + sw)
  | NoSwap => sw = 0 /\ ((a = 0 /\ r = 0 /\ l = 0) \/ (R * a = r * A /\ l = r * P / R))
  end.
Proof.
  intros HR HA H. unfold calculate_pool_units in H.
  destruct (symmetry_state A a R r) eqn:Es.
  - unfold symmetry_state in Es. destruct (Z.eqb_spec A 0); [lia|]. destruct (Z.eqb_spec R 0); [lia|]. cbn in Es.
    destruct ((a =? 0) && (r =? 0)); [discriminate|]. destruct (a =? 0); [discriminate|]. destruct (R * a ?= r * A); discriminate.
  - injection H as <- <- <- <-. split; [lia|]. split; [reflexivity|]. left.
    unfold symmetry_state in Es. destruct (Z.eqb_spec A 0); [lia|]. destruct (Z.eqb_spec R 0); [lia|]. cbn in Es.
    destruct (Z.eqb_spec a 0); destruct (Z.eqb_spec r 0); cbn in Es; try discriminate; [auto| |]; destruct (R * a ?= r * A); discriminate.
  - repeat inv1 H. apply swap_amount_nonneg_e in Hx. apply uint_sub_ok in Hx0. apply uint_add_ok in Hx1.
    apply pool_units_symmetric_ok in Hx2. destruct Hx0, Hx1, Hx2. subst. split; [reflexivity|]. split; [lia|reflexivity].
  - repeat inv1 H. apply pool_units_symmetric_ok in Hx. destruct Hx. subst. split; [reflexivity|]. split; [reflexivity|]. right.
    split; [|reflexivity].
    unfold symmetry_state in Es. destruct (Z.eqb_spec A 0); [lia|]. destruct (Z.eqb_spec R 0); [lia|]. cbn in Es.
    destruct ((a =? 0) && (r =? 0)); [discriminate|]. destruct (a =? 0); [discriminate|].
    destruct (R * a ?= r * A) eqn:Ec; try discriminate. apply Z.compare_eq in Ec. exact Ec.
  - repeat inv1 H. apply swap_amount_nonneg_n in Hx. apply uint_sub_ok in Hx0. apply uint_add_ok in Hx1.
    apply pool_units_symmetric_ok in Hx2. destruct Hx0, Hx1, Hx2. subst. split; [reflexivity|]. split; [lia|reflexivity].
Qed.

(* units handed out for a symmetric add of x to a side of depth X: l = floor(x*P/X); removing them
   from the side that then holds X + x + extra returns at most ... *)
Definition returns_at_most (given back : Z) : Prop := (back - 1) * (PREC - 1) <= given * PREC.

Lemma returns_at_most_small given back : returns_at_most given back -> 0 <= given < PREC - 1 -> back <= given + 1.
Proof. unfold returns_at_most. intros H Hg. pose proof PREC_big. nia. Qed.

Lemma side_returns P X x s l w :
  0 < P -> 0 < X -> 0 <= s <= x -> l * (X + s) <= (x - s) * P -> 0 < l ->
  (w - 1) * ((P + l) * PREC - l) <= (X + x) * l * PREC ->
  returns_at_most x w.
Proof.
  intros HP HX Hs Hfl Hl Hw. unfold returns_at_most. pose proof PREC_big as HPb.
  assert (Hkey : (X + x) * l <= (P + l) * (x - s)).
  { replace ((X + x) * l) with (l * (X + s) + (x - s) * l) by ring. replace ((P + l) * (x - s)) with ((x - s) * P + (x - s) * l) by ring. lia. }
  destruct (Z.le_gt_cases w 1) as [Hle|Hgt].
  { assert ((w - 1) * (PREC - 1) <= 0) by (apply Z.mul_nonpos_nonneg; lia).
    assert (0 <= x * PREC) by nia. lia. }
  assert (B1 : (w - 1) * ((P + l) * (PREC - 1)) <= (w - 1) * ((P + l) * PREC - l)).
  { apply Z.mul_le_mono_nonneg_l; [lia|]. nia. }
  assert (B2 : (X + x) * l * PREC <= (P + l) * (x - s) * PREC) by (apply Z.mul_le_mono_nonneg_r; lia).
  assert (B3 : (P + l) * (x - s) * PREC <= (P + l) * (x * PREC)).
  { replace ((P + l) * (x - s) * PREC) with ((P + l) * ((x - s) * PREC)) by ring. apply Z.mul_le_mono_nonneg_l; [lia|]. nia. }
  apply Z.mul_le_mono_pos_l with (p := P + l); [lia|].
  replace ((P + l) * ((w - 1) * (PREC - 1))) with ((w - 1) * ((P + l) * (PREC - 1))) by ring. lia.
Qed.

(* clause 2, first part: add (r, a), remove the units received. The side that was (partly) swapped
   internally — both sides for a symmetric add — returns at most what was put in (one base unit and
   1e-18 relative for the 18-digit quotients), for ANY internal swap amount 0 <= s <= deposit. *)
Lemma add_remove_calc P R A r a fs fb pm pu l st sw lpu wn we lft :
  0 < P -> 0 < R -> 0 < A -> 0 <= r -> 0 <= a ->
  calculate_pool_units P R A r a fs fb pm = Ok (pu, l, st, sw) ->
  calculate_withdrawal_from_units pu (R + r) (A + a) lpu l = Ok (wn, we, lft) ->
  match st with
  | SellNative => returns_at_most r wn
  | BuyNative => returns_at_most a we
  | NoSwap => returns_at_most r wn /\ returns_at_most a we
  end.
Proof.
  intros HP HR HA Hr Ha H1 H2.
  destruct (calculate_pool_units_spec _ _ _ _ _ _ _ _ _ _ _ _ HR HA H1) as (-> & Hst).
  assert (Hl0 : 0 <= l).
  { destruct st; [destruct Hst as (? & ->)|destruct Hst as (? & ->)|destruct Hst as (_ & [(_ & _ & ->)|(_ & ->)])];
    try lia; apply Z.div_pos; nia. }
  destruct (withdraw_from_units_upper (P + l) (R + r) (A + a) lpu l wn we lft ltac:(lia) ltac:(lia) ltac:(lia) ltac:(lia) H2)
    as (Hlpos & Wn & We).
  assert (Hfloor : forall n d, 0 < d -> (n / d) * d <= n).
  { intros n d Hd. pose proof (Z.mul_div_le n d Hd). lia. }
  destruct st.
  - destruct Hst as (Hs & Hl). apply (side_returns P R r sw l wn); try assumption. rewrite Hl. apply Hfloor. lia.
  - destruct Hst as (Hs & Hl). apply (side_returns P A a sw l we); try assumption. rewrite Hl. apply Hfloor. lia.
  - destruct Hst as (_ & [(_ & _ & ->)|(Hsym & Hl)]); [lia|].
    assert (HlR : l * R <= r * P) by (rewrite Hl; apply Hfloor; lia).
    split.
    + apply (side_returns P R r 0 l wn); try assumption; try lia.
    + apply (side_returns P A a 0 l we); try assumption; try lia.
      rewrite Z.sub_0_r, Z.add_0_r.
      assert (l * A * R <= a * P * R).
      { replace (l * A * R) with ((l * R) * A) by ring. replace (a * P * R) with ((r * P) * A) by (ring_simplify; nia).
        apply Z.mul_le_mono_nonneg_r; lia. }
      apply Z.mul_le_mono_pos_r with (p := R); lia.
Qed.

(* ---------- clause 3: backing per unit, sqrt(R*A)/P, compared through its square ---------- *)
(* backing of (R', A', P') is at least that of (R, A, P) *)
Definition backing_le (R A P R' A' P' : Z) : Prop := R * A * (P' * P') <= R' * A' * (P * P).

(* swaps with ratio shifting off: the product of the depths never decreases, units are untouched *)
Lemma swap_backing tr X x Y f y fee :
  0 < X -> 0 < x -> 0 < Y -> 0 <= f <= PREC ->
  calc_swap_result tr X x Y 0 f = Ok (y, fee) -> X * Y <= (X + x) * (Y - y).
Proof.
  intros HX Hx HY Hf H. pose proof PREC_pos.
  destruct (calc_swap_result_le _ _ _ _ _ _ _ _ HX Hx HY (Z.le_refl 0) Hf H) as (Hy & L). unfold swap_le in L.
  rewrite Z.add_0_r in L.
  assert (y * (X + x) <= x * Y).
  { apply Z.mul_le_mono_pos_r with (p := PREC); [lia|]. destruct tr; lia. }
  nia.
Qed.

(* liquidity added with an internal swap of s of the deposited side (s = 0: symmetric add):
   backing does not drop provided s is at least the fee-less root, i.e. R*A*(R+r) <= (A+a)*(R+s)^2 *)
Definition near_root (R A r a s : Z) : Prop := R * A * (R + r) <= (A + a) * ((R + s) * (R + s)).

Lemma add_backing P R A r a s l :
  0 < P -> 0 < R -> 0 < A -> 0 <= a -> 0 <= s <= r -> 0 <= l ->
  l * (R + s) <= (r - s) * P -> near_root R A r a s ->
  backing_le R A P (R + r) (A + a) (P + l).
Proof.
  intros HP HR HA Ha Hs Hl Hfl Hnr. unfold backing_le, near_root in *.
  assert (K1 : (P + l) * (R + s) <= P * (R + r)).
  { replace ((P + l) * (R + s)) with (P * (R + s) + l * (R + s)) by ring. replace (P * (R + r)) with (P * (R + s) + (r - s) * P) by ring. lia. }
  assert (K2 : ((P + l) * (R + s)) * ((P + l) * (R + s)) <= (P * (R + r)) * (P * (R + r))) by (apply Z.mul_le_mono_nonneg; nia).
  apply Z.mul_le_mono_pos_r with (p := (R + s) * (R + s)); [nia|].
  transitivity (R * A * ((P * (R + r)) * (P * (R + r)))).
  - replace (R * A * ((P + l) * (P + l)) * ((R + s) * (R + s))) with (R * A * (((P + l) * (R + s)) * ((P + l) * (R + s)))) by ring.
    apply Z.mul_le_mono_nonneg_l; [nia|exact K2].
  - replace (R * A * (P * (R + r) * (P * (R + r)))) with ((R * A * (R + r)) * (P * P * (R + r))) by ring.
    replace ((R + r) * (A + a) * (P * P) * ((R + s) * (R + s))) with (((A + a) * ((R + s) * (R + s))) * (P * P * (R + r))) by ring.
    apply Z.mul_le_mono_nonneg_r; [nia|exact Hnr].
Qed.

Lemma near_root_symmetric R A r a : R * a = r * A -> near_root R A r a 0.
Proof.
  intros H. unfold near_root. rewrite Z.add_0_r.
  replace ((A + a) * (R * R)) with (R * A * R + R * (R * a)) by ring. rewrite H. lia.
Qed.

(* CalculatePoolUnits, symmetric case: backing per unit never drops — exact, no dust *)
Lemma add_backing_symmetric P R A r a fs fb pm pu l sw :
  0 < P -> 0 < R -> 0 < A -> 0 <= r -> 0 <= a ->
  calculate_pool_units P R A r a fs fb pm = Ok (pu, l, NoSwap, sw) ->
  backing_le R A P (R + r) (A + a) pu.
Proof.
  intros HP HR HA Hr Ha H.
  destruct (calculate_pool_units_spec _ _ _ _ _ _ _ _ _ _ _ _ HR HA H) as (-> & _ & [(-> & -> & ->)|(Hsym & Hl)]).
  - unfold backing_le. rewrite !Z.add_0_r. lia.
  - apply (add_backing P R A r a 0 l); try assumption; try lia.
    + rewrite Hl. apply Z.div_pos; nia.
    + rewrite Z.add_0_r, Z.sub_0_r, Hl. pose proof (Z.mul_div_le (r * P) R HR). lia.
    + apply near_root_symmetric. exact Hsym.
Qed.

(* asymmetric adds, both directions: the same conclusion under near_root for the internal swap amount *)
Lemma add_backing_asymmetric P R A r a fs fb pm pu l st sw :
  0 < P -> 0 < R -> 0 < A -> 0 <= r -> 0 <= a ->
  calculate_pool_units P R A r a fs fb pm = Ok (pu, l, st, sw) ->
  match st with
  | SellNative => near_root R A r a sw -> backing_le R A P (R + r) (A + a) pu
  | BuyNative => near_root A R a r sw -> backing_le R A P (R + r) (A + a) pu
  | NoSwap => backing_le R A P (R + r) (A + a) pu
  end.
Proof.
  intros HP HR HA Hr Ha H. destruct st.
  - destruct (calculate_pool_units_spec _ _ _ _ _ _ _ _ _ _ _ _ HR HA H) as (-> & Hs & Hl). intros Hn.
    apply (add_backing P R A r a sw l); try assumption.
    + rewrite Hl. apply Z.div_pos; nia.
    + rewrite Hl. pose proof (Z.mul_div_le ((r - sw) * P) (R + sw) ltac:(lia)). lia.
  - destruct (calculate_pool_units_spec _ _ _ _ _ _ _ _ _ _ _ _ HR HA H) as (-> & Hs & Hl). intros Hn.
    assert (Hb : backing_le A R P (A + a) (R + r) (P + l)).
    { apply (add_backing P A R a r sw l); try assumption.
      + rewrite Hl. apply Z.div_pos; nia.
      + rewrite Hl. pose proof (Z.mul_div_le ((a - sw) * P) (A + sw) ltac:(lia)). lia. }
    unfold backing_le in *. replace (R * A) with (A * R) by ring. replace ((R + r) * (A + a)) with ((A + a) * (R + r)) by ring. exact Hb.
  - eapply add_backing_symmetric; eassumption.
Qed.

(* removals: each side keeps its pro-rata share up to dust(R) = 2 + R/(10^18 - 1) base units *)
Definition dust18 (R : Z) : Z := 2 + R / (PREC - 1).

Lemma remove_side_keeps P c R w :
  0 < P -> 0 <= R -> 0 < c <= P * PREC -> 0 <= w ->
  (w - 1) * (P * PREC * PREC - c) <= R * c * PREC ->
  R * (P * PREC - c) <= (R - w + dust18 R) * (P * PREC).
Proof.
  intros HP HR Hc Hw H. assert (HPb := PREC_big). unfold dust18.
  set (k := R / (PREC - 1)).
  assert (Hk : R < (k + 1) * (PREC - 1)).
  { unfold k. pose proof (Z.div_mod R (PREC - 1) ltac:(lia)). pose proof (Z.mod_pos_bound R (PREC - 1) ltac:(lia)). nia. }
  assert (Hk0 : 0 <= k) by (unfold k; apply Z.div_pos; lia).
  destruct (Z.le_gt_cases w 1) as [Hle|Hgt].
  { assert (0 <= R * c) by nia. nia. }
  (* (w-1) * P*PREC * (PREC-1) <= (w-1) * (P*PREC*PREC - c) <= R*c*PREC = R*c*(PREC-1) + R*c *)
  assert (B1 : (w - 1) * ((P * PREC) * (PREC - 1)) <= (w - 1) * (P * PREC * PREC - c)).
  { apply Z.mul_le_mono_nonneg_l; [lia|]. nia. }
  assert (B2 : R * c <= (k + 1) * (PREC - 1) * (P * PREC)).
  { transitivity (R * (P * PREC)); [apply Z.mul_le_mono_nonneg_l; lia|]. apply Z.mul_le_mono_nonneg_r; [nia|lia]. }
  assert (B3 : (w - 1) * (P * PREC) * (PREC - 1) <= (R * c + (k + 1) * (P * PREC)) * (PREC - 1)).
  { replace ((w - 1) * (P * PREC) * (PREC - 1)) with ((w - 1) * ((P * PREC) * (PREC - 1))) by ring.
    replace ((R * c + (k + 1) * (P * PREC)) * (PREC - 1)) with (R * c * (PREC - 1) + (k + 1) * (PREC - 1) * (P * PREC)) by ring.
    replace (R * c * PREC) with (R * c * (PREC - 1) + R * c) in H by ring. lia. }
  assert (B4 : (w - 1) * (P * PREC) <= R * c + (k + 1) * (P * PREC)) by (apply Z.mul_le_mono_pos_r with (p := PREC - 1); lia).
  replace ((R - w + (2 + k)) * (P * PREC)) with (R * (P * PREC) - (w - 1) * (P * PREC) + (k + 1) * (P * PREC)) by ring.
  replace (R * (P * PREC - c)) with (R * (P * PREC) - R * c) by ring. lia.
Qed.

Lemma remove_units_backing P R A lpu u wn we lft :
  0 < P -> 0 <= R -> 0 <= A -> 0 <= u <= P ->
  calculate_withdrawal_from_units P R A lpu u = Ok (wn, we, lft) ->
  R * (P - u) <= (R - wn + dust18 R) * P /\ A * (P - u) <= (A - we + dust18 A) * P /\
  backing_le R A P (R - wn + dust18 R) (A - we + dust18 A) (P - u).
Proof.
  intros HP HR HA Hu H. unfold calculate_withdrawal_from_units in H. repeat inv1 H. unfold to_uint in *.
  repeat match goal with Hq : Dquo _ _ = Ok _ |- _ => apply Dquo_ok in Hq; destruct Hq end.
  repeat match goal with Hq : ck_uint _ = Ok _ |- _ => apply ck_uint_ok in Hq; destruct Hq end. subst.
  assert (Hu0 : 0 < u).
  { destruct (Z.eq_dec u 0) as [->|]; [|lia]. exfalso.
    match goal with Hz : dec_of_int 0 <> 0 |- _ => apply Hz; reflexivity end. }
  pose proof PREC_pos as HPp.
  destruct (withdraw_side_upper_dec P (dec_of_int u) R _ _ ltac:(unfold dec_of_int; nia) HR eq_refl eq_refl) as (_ & _ & W1 & _).
  destruct (withdraw_side_upper_dec P (dec_of_int u) A _ _ ltac:(unfold dec_of_int; nia) HA eq_refl eq_refl) as (_ & _ & W2 & _).
  match type of W1 with (?w - 1) * _ <= _ => set (wn := w) in * end.
  match type of W2 with (?w - 1) * _ <= _ => set (we := w) in * end.
  assert (S1 : R * (P * PREC - dec_of_int u) <= (R - wn + dust18 R) * (P * PREC))
    by (apply remove_side_keeps; try assumption; unfold dec_of_int; nia).
  assert (S2 : A * (P * PREC - dec_of_int u) <= (A - we + dust18 A) * (P * PREC))
    by (apply remove_side_keeps; try assumption; unfold dec_of_int; nia).
  unfold dec_of_int in S1, S2.
  assert (T1 : R * (P - u) <= (R - wn + dust18 R) * P) by (apply Z.mul_le_mono_pos_r with (p := PREC); lia).
  assert (T2 : A * (P - u) <= (A - we + dust18 A) * P) by (apply Z.mul_le_mono_pos_r with (p := PREC); lia).
  split; [exact T1|]. split; [exact T2|]. unfold backing_le.
  replace (R * A * ((P - u) * (P - u))) with ((R * (P - u)) * (A * (P - u))) by ring.
  replace ((R - wn + dust18 R) * (A - we + dust18 A) * (P * P)) with (((R - wn + dust18 R) * P) * ((A - we + dust18 A) * P)) by ring.
  apply Z.mul_le_mono_nonneg; nia.
Qed.

(* ---------- clause 2, second part: the algebra behind "no better than swapping" ----------
   In exact arithmetic an asymmetric add is an internal swap of s at the public price followed by a
   symmetric add; s is the positive root of a quadratic. The code's closed forms are that root. *)
Local Open Scope Q_scope.
Lemma asym_add_remove_exact (R A r a s e : Q) :
  (r - s) * (A - e) == (a + e) * (R + s) -> (A + a) * (r - s) == (a + e) * (R + r).
Proof. intros H. assert ((A + a) * (r - s) - (a + e) * (R + r) == (r - s) * (A - e) - (a + e) * (R + s)) by ring. lra. Qed.

Definition sell_w (R A r a f p : Q) : Q := 2 * a * R + A * R * (1 + (1 + p) * (1 - f)) - A * r * (1 - (1 + p) * (1 - f)).

Lemma sell_native_quadratic (R A r a s f p : Q) :
  (r - s) * (A * (R + s) - s * A * ((1 + p) * (1 - f))) - (a * (R + s) + s * A * ((1 + p) * (1 - f))) * (R + s)
  == - ((a + A) * s * s + sell_w R A r a f p * s + R * (a * R - A * r)).
Proof. unfold sell_w. ring. Qed.

Lemma nat_swap_amount_rat_root (R A r a f p : Q) s :
  nat_swap_amount_rat R A r a f p = Ok s ->
  exists (D : Q) (z : Z),
    D == sell_w R A r a f p * sell_w R A r a f p - 4 * (a + A) * (R * (a * R - A * r)) /\
    approx_sqrt D = Ok z /\ ~ (a + A) * 2 == 0 /\
    s == Qabs ((inject_Z z - sell_w R A r a f p) / (2 * (a + A))).
Proof.
  unfold nat_swap_amount_rat. cbv zeta. intros H.
  apply bind_ok_inv in H. destruct H as (z & Ez & H).
  apply bind_ok_inv in H. destruct H as (q & Eq & H).
  match type of Ez with approx_sqrt ?d = _ => set (D := d) in * end.
  unfold qdiv_ck in Eq. destruct (q_is_zero ((a + A) * 2)) eqn:Enz; [discriminate|].
  assert (Es : s = Qabs q) by congruence. 
  match type of Eq with Ok ?u = Ok q => assert (Eq' : q = u) by congruence end. clear Eq H.
  exists D, z. split; [unfold D, sell_w; ring|]. split; [exact Ez|].
  assert (Hnz : ~ (a + A) * 2 == 0).
  { intros Hc. unfold q_is_zero in Enz. apply Z.eqb_neq in Enz. apply Enz. unfold Qeq in Hc. rewrite Z.mul_1_r in Hc. exact Hc. }
  split; [exact Hnz|]. rewrite Es, Eq'. apply Qabs_wd. unfold sell_w. field. intros Hc. apply Hnz. lra.
Qed.

Definition buy_w (R A r a f p : Q) : Q :=
  2 * r * A * (1 + p) + R * A * ((1 + p) + (1 - f)) - R * a * ((1 + p) - (1 - f)).

(* selling s of the external deposit for native at (1-f)/(1+p): symmetric afterwards <-> quadratic = 0 *)
Lemma buy_native_quadratic (R A r a s f p : Q) :
  (1 + p) * ((a - s) * (R * (A + s)) - (r * (A + s)) * (A + s)) - ((a - s) * (s * R * (1 - f)) + (s * R * (1 - f)) * (A + s))
  == - ((r + R) * (1 + p) * s * s + buy_w R A r a f p * s + A * (r * A - R * a) * (1 + p)).
Proof. unfold buy_w. ring. Qed.

Lemma ext_swap_amount_rat_root (R A r a f p : Q) s :
  ext_swap_amount_rat R A r a f p = Ok s ->
  exists (D : Q) (z : Z),
    D == buy_w R A r a f p * buy_w R A r a f p - 4 * ((r + R) * (1 + p)) * (A * (r * A - R * a) * (1 + p)) /\
    approx_sqrt D = Ok z /\ ~ 2 * (p + 1) * (r + R) == 0 /\
    s == Qabs ((inject_Z z - buy_w R A r a f p) / (2 * ((r + R) * (1 + p)))).
Proof.
  unfold ext_swap_amount_rat. cbv zeta. intros H.
  apply bind_ok_inv in H. destruct H as (z & Ez & H).
  apply bind_ok_inv in H. destruct H as (q & Eq & H).
  match type of Ez with approx_sqrt ?d = _ => set (D := d) in * end.
  unfold qdiv_ck in Eq. destruct (q_is_zero (2 * (p + 1) * (r + R))) eqn:Enz; [discriminate|].
  assert (Es : s = Qabs q) by congruence.
  match type of Eq with Ok ?u = Ok q => assert (Eq' : q = u) by congruence end. clear Eq H.
  exists D, z. split; [unfold D, buy_w; ring|]. split; [exact Ez|].
  assert (Hnz : ~ 2 * (p + 1) * (r + R) == 0).
  { intros Hc. unfold q_is_zero in Enz. apply Z.eqb_neq in Enz. apply Enz. unfold Qeq in Hc. rewrite Z.mul_1_r in Hc. exact Hc. }
  split; [exact Hnz|]. rewrite Es, Eq'. apply Qabs_wd. unfold buy_w. field.
  repeat split; intros Hc; apply Hnz; nra.
Qed.
Local Close Scope Q_scope.
Local Open Scope Z_scope.

Lemma returns_at_most_div given back : 0 <= given -> returns_at_most given back -> back <= given + 1 + given / (PREC - 1).
Proof.
  unfold returns_at_most. intros Hg H. assert (HPb := PREC_big).
  assert ((back - 1 - given) * (PREC - 1) <= given) by lia.
  destruct (Z.le_gt_cases (back - 1 - given) (given / (PREC - 1))) as [Hle|Hgt]; [lia|].
  pose proof (Z.div_mod given (PREC - 1) ltac:(lia)). pose proof (Z.mod_pos_bound given (PREC - 1) ltac:(lia)). nia.
Qed.

(* the property's wording: an add followed by the removal of the units received never returns more
   of BOTH tokens (beyond one base unit and 1e-18 relative) *)
Lemma add_remove_not_both P R A r a fs fb pm pu l st sw lpu wn we lft :
  0 < P -> 0 < R -> 0 < A -> 0 <= r -> 0 <= a ->
  calculate_pool_units P R A r a fs fb pm = Ok (pu, l, st, sw) ->
  calculate_withdrawal_from_units pu (R + r) (A + a) lpu l = Ok (wn, we, lft) ->
  ~ (r + 1 + r / (PREC - 1) < wn /\ a + 1 + a / (PREC - 1) < we).
Proof.
  intros HP HR HA Hr Ha H1 H2 (B1 & B2).
  pose proof (add_remove_calc _ _ _ _ _ _ _ _ _ _ _ _ _ _ _ _ HP HR HA Hr Ha H1 H2) as H.
  destruct st.
  - apply returns_at_most_div in H; lia.
  - apply returns_at_most_div in H; lia.
  - destruct H as (H & _). apply returns_at_most_div in H; lia.
Qed.
