From Coq Require Import ZArith Lia Bool List.
From Sif Require Import Base.Outcome Base.SdkMath Proofs.SdkMathProofs.
From Sif Require Import Model.ClpRewards Base.Store Base.Bank Model.ClpTypes Model.ClpState Model.ClpHooks Proofs.BankProofs.
Import ListNotations.
Local Open Scope Z_scope.

(* rounding facts, all on non-negative arguments; D = 10^18 *)
Lemma chop_round_bounds d : 0 <= d -> 2 * d - PREC <= 2 * PREC * chop_round d <= 2 * d + PREC.
Proof. intros H. unfold chop_round. destruct (Z.ltb_spec d 0); [lia|]. apply chop_round_pos_bounds; assumption. Qed.

Lemma dec_mul_bounds x y : 0 <= x -> 0 <= y -> 2 * (x * y) - PREC <= 2 * PREC * dec_mul x y <= 2 * (x * y) + PREC.
Proof. intros. unfold dec_mul. apply chop_round_bounds. nia. Qed.

Lemma dec_quo_bounds a b : 0 <= a -> 0 < b ->
  2 * a * PREC * PREC - PREC * b - 2 * b < 2 * PREC * (dec_quo a b * b) /\
  2 * PREC * (dec_quo a b * b) <= 2 * a * PREC * PREC + PREC * b.
Proof.
  intros Ha Hb. unfold dec_quo. pose proof PREC_pos as HP.
  set (t := Z.quot (a * PREC * PREC) b).
  assert (Ht0 : 0 <= t) by (apply Z.quot_pos; nia).
  assert (Ht : t * b <= a * PREC * PREC < (t + 1) * b).
  { unfold t. rewrite Z.quot_div_nonneg by nia.
    pose proof (Z.div_mod (a * PREC * PREC) b ltac:(lia)). pose proof (Z.mod_pos_bound (a * PREC * PREC) b Hb). nia. }
  pose proof (chop_round_bounds t Ht0) as Hc. nia.
Qed.

Lemma dec_trunc_bounds m : 0 <= m -> PREC * dec_trunc_int m <= m < PREC * dec_trunc_int m + PREC.
Proof.
  intros H. unfold dec_trunc_int. pose proof PREC_pos. rewrite Z.quot_div_nonneg by lia.
  pose proof (Z.div_mod m PREC ltac:(lia)). pose proof (Z.mod_pos_bound m PREC ltac:(lia)). lia.
Qed.

Lemma dec_round_bounds m : 0 <= m -> 2 * m - PREC <= 2 * PREC * dec_round_int m <= 2 * m + PREC.
Proof. apply chop_round_bounds. Qed.

(* bucket share: amt = trunc( quo(u, T) * bucket ) is within 1 + bucket/10^18 of bucket*u/T *)
Definition bucket_amount (u total bucket : Z) : Z :=
  dec_trunc_int (dec_mul_int (dec_quo (dec_of_int u) (dec_of_int total)) bucket).

Lemma bucket_amount_bounds u T b :
  0 <= u -> 0 < T -> 0 <= b ->
  let amt := bucket_amount u T b in
  0 <= amt /\
  T * PREC * amt <= u * b * PREC + T * b /\                      (* amt <= b*u/T + b/10^18 *)
  u * b * PREC < T * PREC * (amt + 1) + T * b.                    (* amt > b*u/T - 1 - b/10^18 *)
Proof.
  intros Hu HT Hb amt. unfold amt, bucket_amount, dec_mul_int, dec_of_int. pose proof PREC_pos as HP.
  set (q := dec_quo (u * PREC) (T * PREC)).
  assert (Hq0 : 0 <= q) by (apply dec_quo_nonneg; nia).
  destruct (dec_quo_bounds (u * PREC) (T * PREC) ltac:(nia) ltac:(nia)) as (Hl & Hh). fold q in Hl, Hh.
  destruct (dec_trunc_bounds (q * b) ltac:(nia)) as (Tl & Th).
  set (r := dec_trunc_int (q * b)) in *.
  assert (Hr0 : 0 <= r) by (apply dec_trunc_int_nonneg; nia).
  split; [exact Hr0|].
  assert (HD2 : 2 <= PREC) by (pose proof PREC_val; pose proof HALF_pos; lia).
  (* quotient bounds divided by PREC *)
  assert (Hh' : 2 * (q * T) <= 2 * u * PREC + T) by nia.
  assert (Hl' : 2 * u * PREC * PREC - T * PREC - 2 * T < 2 * PREC * (q * T)) by nia.
  (* multiplied by the bucket *)
  assert (Hhb : 2 * (q * T) * b <= (2 * u * PREC + T) * b) by (apply Z.mul_le_mono_nonneg_r; lia).
  assert (Hlb : (2 * u * PREC * PREC - T * PREC - 2 * T) * b <= 2 * PREC * (q * T) * b) by (apply Z.mul_le_mono_nonneg_r; lia).
  assert (Tl' : T * (PREC * r) <= T * (q * b)) by (apply Z.mul_le_mono_nonneg_l; lia).
  assert (Th' : T * (q * b) < T * (PREC * r + PREC)) by (apply Z.mul_lt_mono_pos_l; lia).
  split; [nia|].
  assert (Tb : 0 <= T * b) by nia.
  nia.
Qed.


(* LPPD / depth-reward per-provider amount: round( round(quo(u,P) * pd) ) is within 1 + pd/10^36 of pd*u/(P*10^18),
   where pd is the Dec (10^18-scaled) amount to distribute for the pool *)
Lemma calc_provider_amount_bounds pd P u :
  0 <= pd -> 0 < P -> 0 <= u ->
  let r := calc_provider_amount pd P u in
  0 <= r /\
  P * PREC * PREC * r <= u * pd * PREC + P * PREC * PREC + P * pd /\
  u * pd * PREC <= P * PREC * PREC * r + P * PREC * PREC + P * pd.
Proof.
  intros Hpd HP Hu r. unfold r, calc_provider_amount, dec_of_int. destruct (Z.eqb_spec P 0) as [E0|_]; [lia|]. pose proof PREC_pos as HD.
  assert (HD2 : 2 <= PREC) by (pose proof PREC_val; pose proof HALF_pos; lia).
  set (q := dec_quo (u * PREC) (P * PREC)).
  assert (Hq0 : 0 <= q) by (apply dec_quo_nonneg; nia).
  destruct (dec_quo_bounds (u * PREC) (P * PREC) ltac:(nia) ltac:(nia)) as (Hl & Hh). fold q in Hl, Hh.
  assert (Hh' : 2 * (q * P) <= 2 * u * PREC + P) by nia.
  assert (Hl' : 2 * u * PREC * PREC - P * PREC - 2 * P < 2 * PREC * (q * P)) by nia.
  set (m := dec_mul q pd).
  assert (Hm0 : 0 <= m) by (apply dec_mul_nonneg; assumption).
  destruct (dec_mul_bounds q pd Hq0 Hpd) as (Ml & Mh). fold m in Ml, Mh.
  destruct (dec_round_bounds m Hm0) as (Rl & Rh).
  set (rr := dec_round_int m) in *.
  assert (Hr0 : 0 <= rr) by (apply dec_round_int_nonneg; assumption).
  split; [exact Hr0|].
  assert (Hhb : 2 * (q * P) * pd <= (2 * u * PREC + P) * pd) by (apply Z.mul_le_mono_nonneg_r; lia).
  assert (Hlb : (2 * u * PREC * PREC - P * PREC - 2 * P) * pd <= 2 * PREC * (q * P) * pd) by (apply Z.mul_le_mono_nonneg_r; lia).
  (* 4 D^2 r <= 4 q pd + 2D + 2D^2   and   4 D^2 r >= 4 q pd - 2D - 2D^2 *)
  assert (U1 : 4 * PREC * PREC * rr <= 4 * (q * pd) + 2 * PREC + 2 * PREC * PREC) by nia.
  assert (L1 : 4 * (q * pd) - 2 * PREC - 2 * PREC * PREC <= 4 * PREC * PREC * rr) by nia.
  assert (U2 : P * (4 * PREC * PREC * rr) <= P * (4 * (q * pd) + 2 * PREC + 2 * PREC * PREC)) by (apply Z.mul_le_mono_nonneg_l; lia).
  assert (L2 : P * (4 * (q * pd) - 2 * PREC - 2 * PREC * PREC) <= P * (4 * PREC * PREC * rr)) by (apply Z.mul_le_mono_nonneg_l; lia).
  assert (Ppd : 0 <= P * pd) by nia.
  split; nia.
Qed.

Lemma chop_round_exact x : 0 <= x -> chop_round (x * PREC) = x.
Proof.
  intros Hx. pose proof PREC_pos. unfold chop_round. destruct (Z.ltb_spec (x * PREC) 0); [nia|].
  unfold chop_round_pos. rewrite Z.mod_mul by lia. rewrite Z.eqb_refl. apply Z.div_mul. lia.
Qed.

(* generic: trunc( quo(a, T) * b / 10^18 ) against a*b/T (a, T Dec-scaled alike) *)
Lemma share_trunc_bounds a T b :
  0 <= a -> 0 < T -> 0 <= b ->
  let amt := dec_trunc_int (dec_quo a T * b) in
  0 <= amt /\
  2 * T * amt <= 2 * a * b + T * b /\
  2 * a * b * PREC < 2 * T * PREC * (amt + 1) + T * PREC * b + 2 * T * b.
Proof.
  intros Ha HT Hb amt. unfold amt. pose proof PREC_pos as HD.
  set (q := dec_quo a T).
  assert (Hq0 : 0 <= q) by (apply dec_quo_nonneg; assumption).
  destruct (dec_quo_bounds a T Ha HT) as (Hl & Hh). fold q in Hl, Hh.
  destruct (dec_trunc_bounds (q * b) ltac:(nia)) as (Tl & Th).
  set (r := dec_trunc_int (q * b)) in *.
  assert (Hr0 : 0 <= r) by (apply dec_trunc_int_nonneg; nia).
  split; [exact Hr0|].
  assert (Hh' : 2 * (q * T) <= 2 * a * PREC + T) by nia.
  assert (Hhb : 2 * (q * T) * b <= (2 * a * PREC + T) * b) by (apply Z.mul_le_mono_nonneg_r; lia).
  assert (Hlb : (2 * a * PREC * PREC - PREC * T - 2 * T) * b <= 2 * PREC * (q * T) * b) by (apply Z.mul_le_mono_nonneg_r; lia).
  assert (Tl' : T * (PREC * r) <= T * (q * b)) by (apply Z.mul_le_mono_nonneg_l; lia).
  assert (Th' : T * (q * b) < T * (PREC * r + PREC)) by (apply Z.mul_lt_mono_pos_l; lia).
  split; nia.
Qed.

(* depth rewards: a pool's part of the block distribution against bd * w / W, w = nb*mult, W = total depth *)
Lemma calc_pool_distribution_bounds mult nb td bd :
  0 <= mult -> 0 <= nb -> 0 < td -> 0 <= bd ->
  let w := dec_mul (dec_of_int nb) mult in
  let d := calc_pool_distribution mult nb td bd in
  0 <= d /\
  2 * td * d <= 2 * w * bd + td * bd /\
  2 * w * bd * PREC < 2 * td * PREC * (d + 1) + td * PREC * bd + 2 * td * bd.
Proof.
  intros Hm Hnb Htd Hbd w d. unfold d, calc_pool_distribution. fold w. pose proof PREC_pos.
  assert (Hw : 0 <= w) by (apply dec_mul_nonneg; unfold dec_of_int; nia).
  assert (Hq : 0 <= dec_quo w td) by (apply dec_quo_nonneg; assumption).
  assert (E : dec_mul (dec_quo w td) (dec_of_int bd) = dec_quo w td * bd).
  { unfold dec_mul, dec_of_int. replace (dec_quo w td * (bd * PREC)) with ((dec_quo w td * bd) * PREC) by ring.
    apply chop_round_exact. nia. }
  rewrite !E. apply share_trunc_bounds; assumption.
Qed.

Definition asum (l : list (Z * Z)) : Z := fold_right (fun e acc => snd e + acc) 0 l.

(* the clamped loop: the running total never passes the rounded pool amount, every provider gets a
   non-negative amount no larger than its unclamped share, the amounts add up to the total,
   and exactly the given providers (in order) are paid *)
Lemma collect_pd_loop_spec pd pdu P : forall lps total,
  0 <= pd -> 0 < P -> 0 <= total <= pdu -> Forall (fun l => 0 <= snd l) lps ->
  let '(out, tot) := collect_pd_loop pd pdu P lps total in
  total <= tot <= pdu /\ asum out = tot - total /\ map fst out = map fst lps /\
  Forall2 (fun l o => 0 <= snd o <= calc_provider_amount pd P (snd l)) lps out.
Proof.
  induction lps as [|[addr u] rest IH]; intros total Hpd HP Ht Hall; cbn [collect_pd_loop].
  - cbn. repeat split; try lia. constructor.
  - inversion Hall as [|? ? Hu Hrest]; subst. cbn [snd] in Hu.
    destruct (calc_provider_amount_bounds pd P u Hpd HP Hu) as (Hr0 & _).
    set (pr := calc_provider_amount pd P u) in *.
    destruct (Z.ltb_spec pdu (total + pr)) as [Hc|Hc].
    + specialize (IH pdu Hpd HP ltac:(lia) Hrest).
      destruct (collect_pd_loop pd pdu P rest pdu) as [out tot]. destruct IH as (I1 & I2 & I3 & I4).
      cbn [asum fold_right snd map fst]. fold (asum out).
      repeat split; try lia; [f_equal; exact I3|]. constructor; [cbn [snd]; lia|exact I4].
    + specialize (IH (total + pr) Hpd HP ltac:(lia) Hrest).
      destruct (collect_pd_loop pd pdu P rest (total + pr)) as [out tot]. destruct IH as (I1 & I2 & I3 & I4).
      cbn [asum fold_right snd map fst]. fold (asum out).
      repeat split; try lia; [f_equal; exact I3|]. constructor; [cbn [snd]; lia|exact I4].
Qed.

(* LPPD for one pool: takes at most round(rate * native balance) from the pool, what it takes is what its
   providers receive, each within its pro-rata share *)
Lemma collect_provider_distribution_spec depth rate P lps :
  0 <= depth -> 0 <= rate -> 0 < P -> Forall (fun l => 0 <= snd l) lps ->
  let pd := dec_mul rate depth in
  let '(out, tot) := collect_provider_distribution depth rate P lps in
  0 <= tot <= dec_round_int pd /\ asum out = tot /\ map fst out = map fst lps /\
  Forall2 (fun l o => 0 <= snd o <= calc_provider_amount pd P (snd l)) lps out.
Proof.
  intros Hd Hr HP Hall pd. unfold collect_provider_distribution. fold pd.
  assert (Hpd : 0 <= pd) by (apply dec_mul_nonneg; assumption).
  pose proof (collect_pd_loop_spec pd (dec_round_int pd) P lps 0 Hpd HP
                ltac:(split; [lia|apply dec_round_int_nonneg; assumption]) Hall) as H.
  destruct (collect_pd_loop pd (dec_round_int pd) P lps 0) as [out tot].
  destruct H as (H1 & H2 & H3 & H4). repeat split; try lia; assumption.
Qed.


(* payouts go only to the addresses of the distribution lists: every other account (the module account
   aside) keeps every balance *)
Lemma transfer_generic_frame order : forall b ds b' failed a d,
  transfer_generic b order ds = (b', failed) ->
  ~ In a order -> a <> CLP_MODULE -> bal b' a d = bal b a d.
Proof.
  induction order as [|x rest IH]; intros b ds b' failed a d H Hnin Hm; cbn [transfer_generic] in H.
  - injection H as <- _. reflexivity.
  - destruct (send b CLP_MODULE x ROWAN (addr_total x ds)) as [b1|] eqn:Hs.
    + rewrite (IH _ _ _ _ a d H) by (try assumption; intros Hc; apply Hnin; right; exact Hc).
      apply send_effect in Hs. destruct Hs as (_ & Hb & _). rewrite Hb.
      destruct (Z.eqb_spec a CLP_MODULE); [contradiction|].
      destruct (Z.eqb_spec a x); [subst; exfalso; apply Hnin; left; reflexivity|]. cbn [andb]. lia.
    + destruct (transfer_generic b rest ds) as [b2 f2] eqn:Hr. injection H as <- _.
      apply (IH _ _ _ _ a d Hr); [intros Hc; apply Hnin; right; exact Hc|assumption].
Qed.

(* and only in the native token *)
Lemma transfer_generic_denoms order : forall b ds b' failed a d,
  transfer_generic b order ds = (b', failed) -> d <> ROWAN -> bal b' a d = bal b a d.
Proof.
  induction order as [|x rest IH]; intros b ds b' failed a d H Hd; cbn [transfer_generic] in H.
  - injection H as <- _. reflexivity.
  - destruct (send b CLP_MODULE x ROWAN (addr_total x ds)) as [b1|] eqn:Hs.
    + rewrite (IH _ _ _ _ a d H Hd). apply send_effect in Hs. destruct Hs as (_ & Hb & _). rewrite Hb.
      destruct (Z.eqb_spec d ROWAN); [contradiction|]. rewrite !andb_false_r. lia.
    + destruct (transfer_generic b rest ds) as [b2 f2] eqn:Hr. injection H as <- _. apply (IH _ _ _ _ a d Hr Hd).
Qed.
