(* C10: what the administrator messages accept is what the block hooks can digest. *)
From Coq Require Import ZArith Lia Bool List.
From RecordUpdate Require Import RecordUpdate.
From Sif Require Import Base.Outcome Base.SdkMath Base.Store Base.Bank Model.ClpTypes Model.ClpRewards Model.ClpPolicy.
Import ListNotations.
Local Open Scope Z_scope.

Lemma uint_lim_pos : 0 < UINT_LIM. Proof. reflexivity. Qed.
Lemma u64_lim_pos : 0 < U64_LIM. Proof. reflexivity. Qed.
Lemma u64_eq : ClpRewards.U64 = U64_LIM. Proof. reflexivity. Qed.
Global Opaque UINT_LIM U64_LIM ClpRewards.U64 DEC_LIM.

(* ---------- liquidity protection ---------- *)
Definition LPSafe (l : lp_state) : Prop :=
  0 <= lps_current l <= lps_max l /\ lps_max l < UINT_LIM /\ (lps_active l = true -> 1 <= lps_epoch l).

Lemma fits_uint_iff x : fits_uint x = true <-> 0 <= x < UINT_LIM.
Proof. unfold fits_uint. rewrite andb_true_iff, Z.leb_le, Z.ltb_lt. tauto. Qed.

(* the replenishment in BeginBlock cannot panic on a safe state, and keeps it safe *)
Lemma lp_begin_safe l : LPSafe l -> exists l', lp_begin l = Ok l' /\ LPSafe l' /\ lps_max l' = lps_max l /\ lps_current l <= lps_current l'.
Proof.
  intros (Hc & Hm & He). unfold lp_begin. destruct (lps_active l) eqn:Ea; cbn [negb].
  - specialize (He eq_refl). unfold uint_quo. destruct (Z.eqb_spec (lps_epoch l) 0); [lia|].
    cbn [bind]. unfold uint_sub, ck_uint.
    assert (F1 : fits_uint (lps_max l - lps_current l) = true) by (apply fits_uint_iff; lia).
    rewrite F1. cbn [bind].
    assert (Hq : 0 <= lps_max l / lps_epoch l) by (apply Z.div_pos; lia).
    destruct (Z.ltb_spec (lps_max l - lps_current l) (lps_max l / lps_epoch l)).
    + eexists. split; [reflexivity|]. unfold LPSafe; cbn -[PREC Z.rem]. rewrite Ea. repeat split; try lia; try (intros; lia).
    + unfold uint_add, ck_uint.
      assert (F2 : fits_uint (lps_current l + lps_max l / lps_epoch l) = true) by (apply fits_uint_iff; lia).
      rewrite F2. cbn [bind]. eexists. split; [reflexivity|]. unfold LPSafe; cbn -[PREC Z.rem]. rewrite Ea. repeat split; try lia; try (intros; lia).
  - exists l. unfold LPSafe. rewrite Ea. repeat split; try lia; try (intros; discriminate).
Qed.

(* what the two administrator messages accept is safe *)
Lemma update_lp_params_safe s mx ep a s' :
  0 <= mx < UINT_LIM -> update_lp_params s mx ep a = Ok s' -> LPSafe (pol_lp s') /\ pol_pmtp s' = pol_pmtp s /\ pol_rewards s' = pol_rewards s /\ pol_lppd s' = pol_lppd s /\ pol_height s' = pol_height s.
Proof.
  intros Hmx. unfold update_lp_params. destruct (Z.leb_spec ep 0); [discriminate|]. intros [= <-].
  cbn -[PREC Z.rem]. unfold LPSafe; cbn -[PREC Z.rem]. repeat split; try lia.
Qed.
Lemma modify_lp_rates_safe s c s' :
  0 <= c -> LPSafe (pol_lp s) -> modify_lp_rates s c = Ok s' -> LPSafe (pol_lp s') /\ pol_pmtp s' = pol_pmtp s /\ pol_rewards s' = pol_rewards s /\ pol_lppd s' = pol_lppd s /\ pol_height s' = pol_height s.
Proof.
  intros Hc (H1 & H2 & H3). unfold modify_lp_rates. destruct (Z.ltb_spec (lps_max (pol_lp s)) c); [discriminate|]. intros [= <-].
  cbn -[PREC Z.rem]. unfold LPSafe; cbn -[PREC Z.rem]. repeat split; try lia. exact H3.
Qed.

(* ---------- reward periods ---------- *)
Definition rp_safe (p : reward_period) : Prop := (rp_end p - rp_start p + 1) mod U64_LIM <> 0.
Definition rp_typed (p : rp_msg) : Prop := 0 <= rm_start p < U64_LIM /\ 0 <= rm_end p < U64_LIM.

Lemma rp_valid_safe p : rp_typed p -> rp_valid p = true -> rp_safe (rp_of_msg p).
Proof.
  intros ((Hs1 & Hs2) & (He1 & He2)) Hv. unfold rp_valid in Hv.
  repeat (apply andb_true_iff in Hv as [Hv ?]).
  match goal with H : (rm_start p <=? rm_end p) = true |- _ => apply Z.leb_le in H end.
  match goal with H : negb (_ =? _) = true |- _ => apply negb_true_iff, Z.eqb_neq in H end.
  unfold rp_safe, rp_of_msg; cbn -[PREC Z.rem]. 
  assert (Hlt : 0 < rm_end p - rm_start p + 1 < U64_LIM) by lia.
  rewrite Z.mod_small by lia. lia.
Qed.

(* the two policy-dependent panic sites of the reward path in EndBlock *)
Lemma rp_safe_block_distribution p : rp_safe p -> exists x, calc_block_distribution p = Ok x.
Proof.
  unfold rp_safe, calc_block_distribution. rewrite u64_eq. intros H.
  destruct (Z.eqb_spec ((rp_end p - rp_start p + 1) mod U64_LIM) 0); [contradiction|]. eexists; reflexivity.
Qed.
Lemma rewards_mod_site h p :
  let p' := if rp_mod p =? 0 then mkRP (rp_start p) (rp_end p) (rp_alloc p) (rp_mults p) (rp_default p) (rp_distribute p) 1 else p in
  exists b, is_distribution_block h (rp_start p') (rp_mod p') = Ok b.
Proof.
  cbv zeta. unfold is_distribution_block. destruct (Z.eqb_spec (rp_mod p) 0) as [E|E]; cbn -[PREC Z.rem]. 
  - eexists; reflexivity.
  - destruct (Z.eqb_spec (rp_mod p) 0); [contradiction|]. eexists; reflexivity.
Qed.

(* ---------- provider distribution periods ---------- *)
Definition lppd_safe (p : lppd_period) : Prop := pd_mod p <> 0 /\ 0 <= pd_rate p <= PREC /\ pd_start p <= pd_end p.
Lemma lppd_valid_safe p : lppd_valid p = true -> lppd_safe p.
Proof.
  unfold lppd_valid, lppd_safe. intros Hv. repeat (apply andb_true_iff in Hv as [Hv ?]).
  match goal with H : negb (_ =? _) = true |- _ => apply negb_true_iff, Z.eqb_neq in H end.
  repeat match goal with H : (_ <=? _) = true |- _ => apply Z.leb_le in H end. lia.
Qed.
Lemma lppd_safe_site h p : lppd_safe p -> exists b, is_distribution_block h (pd_start p) (pd_mod p) = Ok b.
Proof.
  intros (H & _). unfold is_distribution_block. destruct (Z.eqb_spec (pd_mod p) 0); [contradiction|]. eexists; reflexivity.
Qed.

(* ---------- ratio shifting ---------- *)
Definition PMSafe (pm : pmtp_state) : Prop := 1 <= pm_epoch_len pm /\ - PREC < pm_gov pm.

Lemma update_pmtp_params_safe s g el st en br s' :
  PMSafe (pol_pmtp s) -> update_pmtp_params s g el st en br = Ok s' ->
  PMSafe (pol_pmtp s') /\ pol_height s < pm_start (pol_pmtp s') <= pm_end (pol_pmtp s') /\
  Z.rem (pm_end (pol_pmtp s') - pm_start (pol_pmtp s') + 1) (pm_epoch_len (pol_pmtp s')) = 0 /\
  pol_lp s' = pol_lp s /\ pol_rewards s' = pol_rewards s /\ pol_lppd s' = pol_lppd s /\ pol_height s' = pol_height s.
Proof.
  intros (Hs1 & Hs2). unfold update_pmtp_params.
  destruct (Z.leb_spec el 0); [discriminate|]. destruct (Z.ltb_spec st 0); [discriminate|].
  destruct (Z.leb_spec en 0); [discriminate|]. destruct (Z.ltb_spec en st); [discriminate|].
  destruct (Z.eqb_spec (Z.rem (en - st + 1) el) 0) as [Er|]; [|discriminate]. cbn [negb].
  destruct (in_window s); [discriminate|]. destruct (Z.leb_spec st (pol_height s)); [discriminate|].
  destruct g as [| |gv].
  - intros Hup. apply bind_ok_inv in Hup as (u & _ & Hup). injection Hup as <-. cbn -[Z.rem PREC]. unfold PMSafe; cbn -[Z.rem PREC]. repeat split; try lia; try exact Er.
  - discriminate.
  - destruct (Z.leb_spec gv (- PREC)); [discriminate|]. intros Hup. apply bind_ok_inv in Hup as (u & _ & Hup). injection Hup as <-.
    cbn -[Z.rem PREC]. unfold PMSafe; cbn -[Z.rem PREC]. repeat split; try lia; try exact Er.
Qed.

(* an accepted policy of negative rate: on its last block PolicyCalculations, run with the block rate PolicyStart will store,
   gives a running rate above -1 (1 + rate > 0: nothing in block processing divides by zero because of it) - whatever the
   earlier policies left behind *)
Lemma end_rate_ok_inv pm br : end_rate_ok pm br = Ok tt -> pm_gov pm < 0 -> 0 < pm_epoch_len pm ->
  exists b, br = Some b /\ (0 <= b \/ exists r, policy_end_rate pm b = Ok r /\ - PREC < r).
Proof.
  unfold end_rate_ok. intros Hok Hg Hl. destruct (Z.leb_spec 0 (pm_gov pm)) as [Hge|Hlt]; [lia|].
  destruct (Z.leb_spec (pm_epoch_len pm) 0) as [Hle|Hgt]; [lia|]. cbn [orb] in Hok.
  destruct br as [b|]; [|discriminate]. exists b. split; [reflexivity|].
  destruct (Z.leb_spec 0 b) as [Hb|Hb]; [left; assumption|right].
  apply bind_ok_inv in Hok as (r & Hr & Hok). exists r. split; [exact Hr|].
  destruct (Z.leb_spec r (- PREC)) as [Hr2|Hr2]; [discriminate|lia].
Qed.
Lemma update_pmtp_params_end_rate s g el st en br s' :
  update_pmtp_params s g el st en br = Ok s' -> pm_gov (pol_pmtp s') < 0 ->
  pm_inter (pol_pmtp s') = pm_inter (pol_pmtp s) /\
  exists b, br = Some b /\ (0 <= b \/ exists r, policy_end_rate (pol_pmtp s') b = Ok r /\ - PREC < r).
Proof.
  unfold update_pmtp_params.
  destruct (Z.leb_spec el 0) as [Hel|Hel]; [discriminate|]. destruct (st <? 0); [discriminate|].
  destruct (en <=? 0); [discriminate|]. destruct (en <? st); [discriminate|].
  destruct (negb _); [discriminate|]. destruct (in_window s); [discriminate|]. destruct (st <=? pol_height s); [discriminate|].
  destruct g as [| |gv].
  - intros Hup. apply bind_ok_inv in Hup as (u & Hu & Hup). injection Hup as <-. cbn [pol_pmtp]. intros Hg. split; [reflexivity|].
    destruct u. apply (end_rate_ok_inv _ _ Hu Hg). cbn. exact Hel.
  - discriminate.
  - destruct (gv <=? - PREC); [discriminate|]. intros Hup. apply bind_ok_inv in Hup as (u & Hu & Hup). injection Hup as <-. cbn [pol_pmtp].
    intros Hg. split; [reflexivity|]. destruct u. apply (end_rate_ok_inv _ _ Hu Hg). cbn. exact Hel.
Qed.
(* ... and that is the rate the begin blocker computes on that block: PolicyStart stores the block rate, PolicyCalculations uses it *)
Lemma policy_end_rate_is_calc pm b r : policy_end_rate pm b = Ok r ->
  exists pm', policy_calc (pm <| pm_block_rate := b |>) (pm_end pm) = Ok pm' /\ pm_running pm' = r.
Proof. unfold policy_end_rate. intros H. apply bind_ok_inv in H as (pm' & Hc & H). injection H as <-. exists pm'. auto. Qed.

(* ModifyPmtpRates: a running rate set while a policy of negative rate is scheduled (not started yet) is the rate that policy
   starts from: it is accepted only if the policy still ends above -1 *)
Lemma modify_pmtp_rates_end_rate s b rv e br s' :
  modify_pmtp_rates s b (DVal rv) e br = Ok s' -> in_window s = false -> pol_height s < pm_start (pol_pmtp s) ->
  pm_gov (pol_pmtp s) < 0 -> 0 < pm_epoch_len (pol_pmtp s) ->
  pm_inter (pol_pmtp s') = rv /\ pm_gov (pol_pmtp s') = pm_gov (pol_pmtp s) /\
  pm_start (pol_pmtp s') = pm_start (pol_pmtp s) /\ pm_end (pol_pmtp s') = pm_end (pol_pmtp s) /\
  exists bb, br = Some bb /\ (0 <= bb \/ exists r, policy_end_rate (pol_pmtp s') bb = Ok r /\ - PREC < r).
Proof.
  intros H Hw Hh Hg Hl. unfold modify_pmtp_rates in H. rewrite Hw in H.
  apply bind_ok_inv in H as (pm1 & H1 & H). apply bind_ok_inv in H as (pm2 & H2 & H).
  rewrite andb_false_r in H. injection H as <-. cbn [pol_pmtp].
  assert (E1 : pm_gov pm1 = pm_gov (pol_pmtp s) /\ pm_start pm1 = pm_start (pol_pmtp s) /\ pm_end pm1 = pm_end (pol_pmtp s) /\
               pm_epoch_len pm1 = pm_epoch_len (pol_pmtp s)).
  { destruct b; [injection H1 as <-; auto|discriminate|injection H1 as <-; auto]. }
  destruct E1 as (G1 & G2 & G3 & G4).
  destruct (rv <=? - PREC); [discriminate|].
  destruct (Z.ltb_spec (pol_height s) (pm_start pm1)) as [Hlt|Hge]; [|lia].
  apply bind_ok_inv in H2 as (u & Hu & H2). injection H2 as <-. cbn.
  split; [reflexivity|]. split; [exact G1|]. split; [exact G2|]. split; [exact G3|].
  unfold end_rate_ok in Hu. cbn -[PREC policy_end_rate Z.leb Z.opp] in Hu. rewrite G1, G4 in Hu.
  destruct (Z.leb_spec 0 (pm_gov (pol_pmtp s))) as [Hx|Hx]; [lia|].
  destruct (Z.leb_spec (pm_epoch_len (pol_pmtp s)) 0) as [Hy|Hy]; [lia|]. cbn [orb] in Hu.
  destruct br as [bb|]; [|discriminate]. exists bb. split; [reflexivity|].
  destruct (Z.leb_spec 0 bb) as [Hb|Hb]; [left; exact Hb|right].
  apply bind_ok_inv in Hu as (r & Hr & Hu). exists r. split; [exact Hr|].
  destruct (Z.leb_spec r (- PREC)) as [Hr1|Hr1]; [discriminate|exact Hr1].
Qed.

Lemma modify_pmtp_rates_safe s b r e br s' :
  PMSafe (pol_pmtp s) -> modify_pmtp_rates s b r e br = Ok s' ->
  PMSafe (pol_pmtp s') /\
  (* a running rate given in the message is above -1 (1 + rate > 0) *)
  (forall rv, r = DVal rv -> in_window s = false -> - PREC < rv /\ pm_running (pol_pmtp s') = rv) /\
  pol_lp s' = pol_lp s /\ pol_rewards s' = pol_rewards s /\ pol_lppd s' = pol_lppd s /\ pol_height s' = pol_height s.
Proof.
  intros (Hs1 & Hs2) H. unfold modify_pmtp_rates in H.
  apply bind_ok_inv in H as (pm1 & H1 & H). apply bind_ok_inv in H as (pm2 & H2 & H).
  assert (E1 : pm_epoch_len pm1 = pm_epoch_len (pol_pmtp s) /\ pm_gov pm1 = pm_gov (pol_pmtp s)).
  { destruct b; [injection H1 as <-; auto | |]; destruct (in_window s); try discriminate; injection H1 as <-; auto. }
  assert (E2 : pm_epoch_len pm2 = pm_epoch_len pm1 /\ pm_gov pm2 = pm_gov pm1 /\
               (forall rv, r = DVal rv -> in_window s = false -> - PREC < rv /\ pm_running pm2 = rv)).
  { destruct r as [| |rv].
    - injection H2 as <-. split; [reflexivity|]. split; [reflexivity|]. discriminate.
    - destruct (in_window s) eqn:Ew; [|discriminate]. injection H2 as <-. split; [reflexivity|]. split; [reflexivity|]. discriminate.
    - destruct (in_window s) eqn:Ew.
      + injection H2 as <-. split; [reflexivity|]. split; [reflexivity|]. intros rv' _ Hf. discriminate.
      + destruct (Z.leb_spec rv (- PREC)); [discriminate|].
        assert (H2' : pm2 = pm1 <| pm_running := rv |> <| pm_inter := rv |>).
        { destruct (pol_height s <? pm_start pm1); [apply bind_ok_inv in H2 as (u & _ & H2)|]; injection H2 as <-; reflexivity. }
        subst pm2. split; [reflexivity|]. split; [reflexivity|].
        intros rv' [= <-] _. split; [lia | reflexivity]. }
  destruct E1 as (A1 & A2), E2 as (B1 & B2 & B3).
  assert (G : forall pmf, pm_epoch_len pmf = pm_epoch_len pm2 -> pm_gov pmf = pm_gov pm2 -> PMSafe pmf).
  { intros pmf G1 G2. unfold PMSafe. rewrite G1, G2, B1, B2, A1, A2. split; assumption. }
  destruct (e && in_window s) eqn:Ee; injection H as <-.
  - split; [apply G; reflexivity|]. split; [|cbn; auto].
    intros rv Hr Hw. apply andb_true_iff in Ee as [_ Ee]. congruence.
  - split; [apply G; reflexivity|]. split; [|cbn; auto].
    intros rv Hr Hw. apply (B3 rv Hr Hw).
Qed.

(* Dec.Power cannot overflow for a base of absolute value at most one (block rates in [-2, 0]) *)
Lemma chop_round_pos_bound d : 0 <= d -> chop_round_pos d <= d / PREC + 1 /\ 0 <= chop_round_pos d.
Proof.
  intros Hd. unfold chop_round_pos.
  assert (Hq : 0 <= d / PREC) by (apply Z.div_pos; [lia | reflexivity]).
  destruct (d mod PREC =? 0); [lia|]. destruct (d mod PREC <? HALF); [lia|].
  destruct (HALF <? d mod PREC); [lia|]. destruct (Z.even (d / PREC)); lia.
Qed.
Lemma chop_round_pos_le_one d : 0 <= d <= PREC * PREC -> 0 <= chop_round_pos d <= PREC.
Proof.
  intros Hd. assert (P : 0 < PREC) by reflexivity.
  destruct (Z.eq_dec d (PREC * PREC)) as [->|Hne].
  - unfold chop_round_pos. rewrite Z.mod_mul by lia. cbn [Z.eqb]. rewrite Z.div_mul by lia. lia.
  - destruct (chop_round_pos_bound d ltac:(lia)) as [H1 H2].
    assert (d / PREC < PREC) by (apply Z.div_lt_upper_bound; lia). lia.
Qed.
Lemma dec_mul_le_one a b : Z.abs a <= PREC -> Z.abs b <= PREC -> Z.abs (dec_mul a b) <= PREC.
Proof.
  intros Ha Hb. unfold dec_mul, chop_round.
  assert (Hab : Z.abs (a * b) <= PREC * PREC) by (rewrite Z.abs_mul; apply Z.mul_le_mono_nonneg; lia).
  destruct (Z.ltb_spec (a * b) 0).
  - destruct (chop_round_pos_le_one (- (a * b)) ltac:(lia)). lia.
  - destruct (chop_round_pos_le_one (a * b) ltac:(lia)). lia.
Qed.
Lemma prec_fits : PREC < DEC_LIM. Proof. reflexivity. Qed.
Lemma Dmul_le_one a b : Z.abs a <= PREC -> Z.abs b <= PREC -> exists c, Dmul a b = Ok c /\ Z.abs c <= PREC.
Proof.
  intros Ha Hb. pose proof (dec_mul_le_one a b Ha Hb) as H. unfold Dmul, ck_dec, fits_dec.
  pose proof prec_fits. destruct (Z.ltb_spec (Z.abs (dec_mul a b)) DEC_LIM); [eexists; split; [reflexivity|exact H] | lia].
Qed.
Lemma Dpower_loop_le_one fuel : forall d tmp i, Z.abs d <= PREC -> Z.abs tmp <= PREC ->
  exists d' tmp', Dpower_loop fuel d tmp i = Ok (d', tmp') /\ Z.abs d' <= PREC /\ Z.abs tmp' <= PREC.
Proof.
  induction fuel as [|f IH]; intros d tmp i Hd Ht; cbn [Dpower_loop]; [eauto|].
  destruct (i <=? 1); [eauto|].
  destruct (Dmul_le_one d d Hd Hd) as (dd & E1 & H1).
  destruct (Z.odd i).
  - destruct (Dmul_le_one tmp d Ht Hd) as (td & E2 & H2). rewrite E2. cbn [bind]. rewrite E1. cbn [bind]. apply IH; auto.
  - cbn [bind]. rewrite E1. cbn [bind]. apply IH; auto.
Qed.
Lemma abs_prec : Z.abs PREC <= PREC. Proof. assert (Z.abs PREC = PREC) by reflexivity. lia. Qed.
Lemma Dpower_le_one d p : Z.abs d <= PREC -> exists c, Dpower d p = Ok c /\ Z.abs c <= PREC.
Proof.
  intros Hd. unfold Dpower. destruct (p =? 0); [exists PREC; split; [reflexivity | exact abs_prec]|].
  destruct (Dpower_loop_le_one 64 d PREC p Hd abs_prec) as (d' & tmp' & E & H1 & H2).
  rewrite E. cbn [bind]. apply Dmul_le_one; auto.
Qed.

Definition starts (pm : pmtp_state) (h : Z) : bool := (h =? pm_start pm) && (pm_epochs pm =? 0) && (pm_blocks pm =? 0).
Definition runs (pm : pmtp_state) (h : Z) : bool := (pm_start pm <=? h) && (h <=? pm_end pm) && (0 <? pm_epochs pm).

Lemma policy_start_safe pm b : PMSafe pm -> exists pm', policy_start pm (Some b) = Ok pm' /\ PMSafe pm' /\
  pm_start pm' = pm_start pm /\ pm_end pm' = pm_end pm /\ pm_inter pm' = pm_inter pm /\ pm_block_rate pm' = b.
Proof.
  intros (H1 & H2). unfold policy_start. destruct (Z.eqb_spec (pm_epoch_len pm) 0); [lia|].
  eexists. split; [reflexivity|]. unfold PMSafe; cbn -[PREC Z.rem]. repeat split; lia.
Qed.

(* the only ways the ratio-shifting part of BeginBlock can panic on a safe state: the block rate computed by
   math.Pow at policy start does not parse, or Dec.Power / the additions overflow 315 bits *)
Lemma pmtp_begin_safe pm h br :
  PMSafe pm ->
  (starts pm h = true -> br <> None) ->
  (forall pm1, (if starts pm h then policy_start pm br else Ok pm) = Ok pm1 -> runs pm1 h = true -> exists pm', policy_calc pm1 h = Ok pm') ->
  exists pm', pmtp_begin pm h br = Ok pm' /\ PMSafe pm'.
Proof.
  intros Hs Hbr Hcalc. unfold pmtp_begin. fold (starts pm h).
  assert (H1 : exists pm1, (if starts pm h then policy_start pm br else Ok pm) = Ok pm1 /\ PMSafe pm1).
  { destruct (starts pm h) eqn:Est; [|eauto]. destruct br as [b|]; [|exfalso; apply Hbr; auto].
    destruct (policy_start_safe pm b Hs) as (pm' & E & S & _). eauto. }
  destruct H1 as (pm1 & E1 & S1). rewrite E1. cbn [bind]. fold (runs pm1 h).
  assert (H2 : exists pm2, (if runs pm1 h then bind (policy_calc pm1 h) (fun pm' => Ok (pm' <| pm_blocks := pm_blocks pm' - 1 |>)) else Ok pm1) = Ok pm2 /\ PMSafe pm2).
  { destruct (runs pm1 h) eqn:Er; [|eauto]. destruct (Hcalc pm1 E1 Er) as (pm' & Ec). rewrite Ec. cbn [bind].
    eexists; split; [reflexivity|]. unfold policy_calc in Ec.
    apply bind_ok_inv in Ec as (? & _ & Ec). apply bind_ok_inv in Ec as (? & _ & Ec).
    apply bind_ok_inv in Ec as (? & _ & Ec). apply bind_ok_inv in Ec as (? & _ & Ec). injection Ec as <-.
    destruct S1. unfold PMSafe; cbn -[PREC Z.rem]. split; assumption. }
  destruct H2 as (pm2 & E2 & S2). rewrite E2. cbn [bind].
  eexists. split; [reflexivity|]. destruct S2 as (A & B).
  destruct ((pm_blocks pm2 =? 0) && (h <? pm_end pm2) && (pm_start pm2 <=? h));
    match goal with |- PMSafe (if ?c then _ else _) => destruct c end; unfold PMSafe; cbn -[PREC Z.rem]; split; assumption.
Qed.

(* with a block rate in [-2, 0] (a down-shifting policy) and rates within the decimal range, nothing overflows *)
Lemma policy_calc_le_one pm h :
  Z.abs (PREC + pm_block_rate pm) <= PREC -> Z.abs (pm_inter pm) < DEC_LIM - 2 * PREC ->
  exists pm', policy_calc pm h = Ok pm'.
Proof.
  intros Hb Hi. unfold policy_calc, ck_dec at 1, fits_dec. pose proof prec_fits.
  destruct (Z.ltb_spec (Z.abs (PREC + pm_block_rate pm)) DEC_LIM); [|lia]. cbn [bind].
  destruct (Dpower_le_one (PREC + pm_block_rate pm) (h - pm_start pm + 1) Hb) as (c & Ec & Hc). rewrite Ec. cbn [bind].
  unfold ck_dec, fits_dec.
  destruct (Z.ltb_spec (Z.abs (c - PREC)) DEC_LIM); [|lia]. cbn [bind].
  destruct (Z.ltb_spec (Z.abs (c - PREC + pm_inter pm)) DEC_LIM); [|lia]. cbn [bind]. eexists; reflexivity.
Qed.

Lemma prec_ne0 : PREC <> 0. Proof. discriminate. Qed.
Local Opaque PREC.
(* PolicyRun's price computation never divides by zero *)
Lemma spot_price_x_total X Y r n : exists o, spot_price_x X Y r n = Ok o /\
  forall num den, o = Some (num, den) -> den <> 0.
Proof.
  unfold spot_price_x. destruct (Z.eqb_spec X 0); [eexists; split; [reflexivity | discriminate]|].
  destruct (Z.eqb_spec (PREC + r) 0); [eexists; split; [reflexivity | discriminate]|].
  pose proof prec_ne0.
  destruct n; eexists; (split; [reflexivity|]); intros num den Hq; injection Hq as _ <-; apply Z.neq_mul_0; split; assumption.
Qed.

(* ---------- all policy messages keep the policy state digestible ---------- *)
Definition PolSafe (s : policy_state) : Prop :=
  LPSafe (pol_lp s) /\ PMSafe (pol_pmtp s) /\ Forall rp_safe (pol_rewards s) /\ Forall lppd_safe (pol_lppd s).

Definition msg_typed (m : policy_msg) : Prop :=
  match m with
  | PAddRewardPeriods ps => Forall rp_typed ps
  | PUpdateLPParams mx _ _ => 0 <= mx < UINT_LIM
  | PModifyLPRates c => 0 <= c
  | _ => True
  end.

Lemma policy_handle_safe s m s' : PolSafe s -> msg_typed m -> policy_handle s m = Ok s' -> PolSafe s' /\ pol_height s' = pol_height s.
Proof.
  intros (HL & HP & HR & HD) Ht H. destruct m as [ps|ps|g el st en|b r e|mx ep a|c|d rs]; cbn [policy_handle msg_typed] in *.
  - destruct (forallb rp_valid ps) eqn:Ev; [|discriminate]. injection H as <-. split; [|reflexivity].
    split; [exact HL|]. split; [exact HP|]. split; [|exact HD].
    rewrite forallb_forall in Ev. rewrite Forall_forall in Ht.
    apply Forall_forall. intros p Hin. apply in_map_iff in Hin as (q & <- & Hq). apply rp_valid_safe; auto.
  - destruct (forallb lppd_valid ps) eqn:Ev; [|discriminate]. injection H as <-. split; [|reflexivity].
    split; [exact HL|]. split; [exact HP|]. split; [exact HR|].
    rewrite forallb_forall in Ev. apply Forall_forall. intros p Hin. apply lppd_valid_safe; auto.
  - destruct (update_pmtp_params_safe _ _ _ _ _ _ _ HP H) as (S & _ & _ & E1 & E2 & E3 & E4).
    split; [|exact E4]. unfold PolSafe. rewrite E1, E2, E3. auto.
  - destruct (modify_pmtp_rates_safe _ _ _ _ _ _ HP H) as (S & _ & E1 & E2 & E3 & E4).
    split; [|exact E4]. unfold PolSafe. rewrite E1, E2, E3. auto.
  - destruct (update_lp_params_safe _ _ _ _ _ Ht H) as (S & E1 & E2 & E3 & E4).
    split; [|exact E4]. unfold PolSafe. rewrite E1, E2, E3. auto.
  - destruct (modify_lp_rates_safe _ _ _ Ht HL H) as (S & E1 & E2 & E3 & E4).
    split; [|exact E4]. unfold PolSafe. rewrite E1, E2, E3. auto.
  - destruct (fee_rate_ok d && forallb fee_rate_ok rs); [|discriminate]. injection H as <-. split; [|reflexivity]. exact (conj HL (conj HP (conj HR HD))).
Qed.

(* swap-fee parameters: an accepted message carries only rates in [0,1] *)
Lemma swap_fee_accepted s d rs s' : policy_handle s (PUpdateSwapFee d rs) = Ok s' ->
  s' = s /\ 0 <= d <= PREC /\ Forall (fun r => 0 <= r <= PREC) rs.
Proof.
  cbn [policy_handle]. destruct (fee_rate_ok d && forallb fee_rate_ok rs) eqn:E; [|discriminate]. intros [= <-].
  apply andb_prop in E. destruct E as [E1 E2]. unfold fee_rate_ok in E1. apply andb_prop in E1. destruct E1 as [A B].
  apply Z.leb_le in A, B. split; [reflexivity|]. split; [lia|]. apply Forall_forall. intros r Hr. rewrite forallb_forall in E2.
  specialize (E2 r Hr). unfold fee_rate_ok in E2. apply andb_prop in E2. destruct E2 as [C D]. apply Z.leb_le in C, D. lia.
Qed.

Lemma policy_deliver_safe s m : PolSafe s -> msg_typed m -> PolSafe (fst (policy_deliver s m)).
Proof.
  intros Hs Ht. unfold policy_deliver. destruct (policy_handle s m) eqn:E; cbn [fst]; auto.
  eapply policy_handle_safe; eauto.
Qed.

(* BeginBlock on a safe policy state: the liquidity-protection part cannot panic; the whole policy part
   returns normally unless the block rate computed at policy start is unparsable or Dec.Power overflows *)
Lemma policy_begin_safe s br :
  PolSafe s ->
  (starts (pol_pmtp s) (pol_height s) = true -> br <> None) ->
  (forall pm1, (if starts (pol_pmtp s) (pol_height s) then policy_start (pol_pmtp s) br else Ok (pol_pmtp s)) = Ok pm1 ->
     runs pm1 (pol_height s) = true -> exists pm', policy_calc pm1 (pol_height s) = Ok pm') ->
  exists s', policy_begin s br = Ok s' /\ PolSafe s' /\ pol_height s' = pol_height s.
Proof.
  intros (HL & HP & HR & HD) Hbr Hc. unfold policy_begin.
  destruct (lp_begin_safe _ HL) as (l' & El & Sl & _). rewrite El. cbn [bind].
  destruct (pmtp_begin_safe _ _ _ HP Hbr Hc) as (pm' & Ep & Sp). rewrite Ep. cbn [bind].
  eexists. split; [reflexivity|]. split; [|reflexivity]. split; [exact Sl|]. split; [exact Sp|]. split; assumption.
Qed.

(* ---------- over histories of administrator messages and blocks ---------- *)
Inductive pstep := PMsg (m : policy_msg) | PBlock (br : option Z).
Definition prun1 (s : policy_state) (st : pstep) : Outcome policy_state :=
  match st with
  | PMsg m => Ok (fst (policy_deliver s m))
  | PBlock br => bind (policy_begin (s <| pol_height := pol_height s + 1 |>) br) (fun s' => Ok s')
  end.
Fixpoint prun (s : policy_state) (h : list pstep) : Outcome policy_state :=
  match h with [] => Ok s | st :: h' => bind (prun1 s st) (fun s1 => prun s1 h') end.

(* the float oracle gives a parsable number and Dec.Power does not overflow in block [br] from state [s] *)
Definition block_env_ok (s : policy_state) (br : option Z) : Prop :=
  let s1 := s <| pol_height := pol_height s + 1 |> in
  (starts (pol_pmtp s1) (pol_height s1) = true -> br <> None) /\
  (forall pm1, (if starts (pol_pmtp s1) (pol_height s1) then policy_start (pol_pmtp s1) br else Ok (pol_pmtp s1)) = Ok pm1 ->
     runs pm1 (pol_height s1) = true -> exists pm', policy_calc pm1 (pol_height s1) = Ok pm').
Fixpoint hist_env_ok (s : policy_state) (h : list pstep) : Prop :=
  match h with
  | [] => True
  | PMsg m :: h' => msg_typed m /\ hist_env_ok (fst (policy_deliver s m)) h'
  | PBlock br :: h' => block_env_ok s br /\
      match policy_begin (s <| pol_height := pol_height s + 1 |>) br with Ok s1 => hist_env_ok s1 h' | _ => True end
  end.

Theorem policy_history_no_panic : forall h s, PolSafe s -> hist_env_ok s h -> exists s', prun s h = Ok s' /\ PolSafe s'.
Proof.
  induction h as [|st h IH]; intros s Hs He; [exists s; split; [reflexivity | exact Hs]|].
  destruct st as [m|br]; cbn [prun prun1 hist_env_ok] in *.
  - destruct He as (Ht & He). cbn [bind]. apply IH; [apply policy_deliver_safe; assumption | exact He].
  - destruct He as ((Hb1 & Hb2) & He). cbv zeta in Hb1, Hb2.
    assert (Hs1 : PolSafe (s <| pol_height := pol_height s + 1 |>)) by (destruct Hs as (A & B & C & D); split; [exact A|]; split; [exact B|]; split; assumption).
    destruct (policy_begin_safe _ br Hs1 Hb1 Hb2) as (s' & E & S & _). rewrite E in *. cbn [bind]. apply IH; assumption.
Qed.
