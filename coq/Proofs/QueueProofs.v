(* C02, "net of units already queued for removal": what counts as queued does not depend on the requests the provider has
   against other pools, nor on where they sit in the store's key order. *)
From Coq Require Import ZArith Lia List Bool Permutation.
From Sif Require Import Base.Outcome Base.SdkMath Model.ClpCalc Model.ClpQueue.
Import ListNotations.
Local Open Scope Z_scope.

Definition of_pool (asset : Z) (r : Z * Z) : bool := fst r =? asset.

Lemma queued_units_filter lp asset reqs : queued_units lp asset reqs = queued_units lp asset (filter (of_pool asset) reqs).
Proof.
  induction reqs as [|[a w] rest IH]; cbn [queued_units filter]; [reflexivity|].
  unfold of_pool at 1. cbn [fst]. destruct (a =? asset) eqn:E; [|exact IH]. cbn [queued_units]. rewrite E, IH. reflexivity.
Qed.

(* on a list of requests that all convert and add up without overflow the result is the plain sum *)
Fixpoint plain_sum (lp asset : Z) (reqs : list (Z * Z)) : Z :=
  match reqs with
  | [] => 0
  | (a, w) :: rest => (if a =? asset then lp / (10000 / w) else 0) + plain_sum lp asset rest
  end.

Lemma conv_ok lp w u : conv_wbasis_to_units lp w = Ok u -> u = lp / (10000 / w).
Proof.
  unfold conv_wbasis_to_units, uint_quo. destruct (w <? 0); [discriminate|]. destruct (w =? 0); [discriminate|]. cbn [bind].
  destruct (10000 / w =? 0); [discriminate|]. intros [= <-]. reflexivity.
Qed.

Lemma queued_units_sum lp asset reqs q : queued_units lp asset reqs = Ok q -> q = plain_sum lp asset reqs.
Proof.
  revert q. induction reqs as [|[a w] rest IH]; intros q H; cbn [queued_units plain_sum] in *; [injection H as <-; reflexivity|].
  destruct (a =? asset).
  - destruct (conv_wbasis_to_units lp w) as [u| |] eqn:Ec; cbn [bind] in H; try discriminate.
    destruct (queued_units lp asset rest) as [r| |] eqn:Er; cbn [bind] in H; try discriminate.
    unfold uint_add, ck_uint in H. destruct (fits_uint (u + r)); [|discriminate]. injection H as <-.
    rewrite (conv_ok _ _ _ Ec), (IH r eq_refl). reflexivity.
  - rewrite (IH q H). lia.
Qed.

Lemma plain_sum_perm lp asset l1 l2 : Permutation l1 l2 -> plain_sum lp asset l1 = plain_sum lp asset l2.
Proof.
  induction 1 as [|[a w] l l' Hp IH|[a w] [b v] l|l l' l'' H1 IH1 H2 IH2]; cbn [plain_sum]; lia.
Qed.

(* the store order of the provider's requests does not matter *)
Theorem queued_units_perm lp asset l1 l2 q1 q2 :
  Permutation l1 l2 -> queued_units lp asset l1 = Ok q1 -> queued_units lp asset l2 = Ok q2 -> q1 = q2.
Proof. intros Hp H1 H2. rewrite (queued_units_sum _ _ _ _ H1), (queued_units_sum _ _ _ _ H2). apply plain_sum_perm. exact Hp. Qed.

(* requests against other pools do not matter, wherever they sit *)
Theorem queued_units_other_pools lp asset reqs others q :
  Forall (fun r => fst r <> asset) others ->
  queued_units lp asset reqs = Ok q -> forall mixed, Permutation mixed (others ++ reqs) ->
  forall q', queued_units lp asset mixed = Ok q' -> q' = q.
Proof.
  intros Ho Hq mixed Hp q' Hq'. rewrite (queued_units_sum _ _ _ _ Hq), (queued_units_sum _ _ _ _ Hq'), (plain_sum_perm lp asset _ _ Hp).
  clear -Ho. induction others as [|[a w] rest IH]; cbn [app plain_sum]; [reflexivity|].
  inversion Ho as [|? ? Ha Hr]; subst. cbn [fst] in Ha. destruct (Z.eqb_spec a asset); [contradiction|]. rewrite (IH Hr). lia.
Qed.

(* a removal that fits leaves at least the queued units with the provider *)
Theorem removal_fits_bound wunits lp queued : removal_fits wunits lp queued = Ok true -> wunits + queued <= lp.
Proof.
  unfold removal_fits, uint_sub, ck_uint. destruct (fits_uint (lp - queued)); cbn [bind]; [|discriminate]. intros [= H]. apply Z.leb_le in H. lia.
Qed.
