From Coq Require Import ZArith Lia List Bool.
From Sif Require Import Model.RelayerLoop.
Import ListNotations.
Local Open Scope Z_scope.

Section Proofs.
Variable ev : Z -> list Z.

Lemma range_fuel_In fuel : forall from to b, Z.of_nat fuel >= to - from + 1 ->
  In b (range_fuel fuel from to) <-> from <= b <= to.
Proof.
  induction fuel as [|f IH]; intros from to b Hf.
  - cbn. split; [tauto|]. intros. lia.
  - cbn [range_fuel]. destruct (Z.ltb_spec to from).
    + cbn. split; [tauto|lia].
    + cbn [In]. rewrite IH by lia. lia.
Qed.

Lemma range_In from to b : In b (range from to) <-> from <= b <= to.
Proof. unfold range. apply range_fuel_In. lia. Qed.

Lemma events_in_In from to b e : In (b, e) (events_in ev from to) <-> from <= b <= to /\ In e (ev b).
Proof.
  unfold events_in. rewrite in_concat. split.
  - intros (l & Hl & Hin). apply in_map_iff in Hl. destruct Hl as (b' & <- & Hb'). apply in_map_iff in Hin.
    destruct Hin as (e' & [= <- <-] & He'). apply range_In in Hb'. auto.
  - intros (Hb & He). exists (map (fun e0 => (b, e0)) (ev b)). split.
    + apply in_map_iff. exists b. split; [reflexivity|apply range_In; exact Hb].
    + apply in_map_iff. exists e. auto.
Qed.

(* every event of every block in [lo, hi) has been handed to submission *)
Definition covered (sub : list (Z * Z)) (lo hi : Z) : Prop :=
  forall b e, lo <= b < hi -> In e (ev b) -> In (b, e) sub.

Lemma covered_mono sub sub' lo hi hi' : covered sub lo hi -> hi' <= hi -> (forall x, In x sub -> In x sub') -> covered sub' lo hi'.
Proof. intros H Hh Hs b e Hb He. apply Hs, H; [lia|exact He]. Qed.

Definition Inv (s : rstate) : Prop :=
  (forall b e, In (b, e) (r_submitted s) -> b <= r_maxhead s - TRAILING /\ In e (ev b)) /\
  covered (r_submitted s) (r_lo s) (r_persisted s) /\
  (r_cursor s = 0 -> r_persisted s = 0) /\
  match r_pc s with
  | Idle => covered (r_submitted s) (r_lo s) (r_cursor s)
  | Fetched from to evs =>
    from = r_cursor s /\ evs = events_in ev from to /\ covered (r_submitted s) (r_lo s) (r_cursor s) /\ to <= r_maxhead s - TRAILING
  | Handed to => covered (r_submitted s) (r_lo s) (to + 1)
  end.

Lemma Inv_init : Inv init.
Proof. unfold Inv, init, covered. cbn. repeat split; intros; try contradiction; try lia. Qed.

Lemma Inv_step s i : Inv s -> Inv (step ev s i).
Proof.
  intros (HA & HP & HZ & HC). destruct i as [n ok| |].
  - (* a header *)
    unfold step. destruct (r_pc s) eqn:Epc; [|unfold Inv; rewrite Epc; auto|unfold Inv; rewrite Epc; auto].
    destruct (Z.ltb_spec (n - TRAILING) 0).
    { unfold Inv. cbn. split; [|split; [assumption|split; assumption]]. intros b e0 Hin. destruct (HA _ _ Hin). split; [lia|assumption]. }
    set (cur := if r_cursor s =? 0 then n - TRAILING else r_cursor s).
    set (lo := if r_cursor s =? 0 then n - TRAILING else r_lo s).
    assert (HA' : forall b e, In (b, e) (r_submitted s) -> b <= Z.max (r_maxhead s) n - TRAILING /\ In e (ev b)).
    { intros b e0 Hin. destruct (HA _ _ Hin). split; [lia|assumption]. }
    assert (HPl : covered (r_submitted s) lo (r_persisted s)).
    { unfold lo. destruct (Z.eqb_spec (r_cursor s) 0) as [E0|]; [|exact HP].
      (* the cursor was 0: nothing is persisted *)
      rewrite (HZ E0). intros b e0 Hb He. lia. }
    assert (HCl : covered (r_submitted s) lo cur).
    { unfold lo, cur. destruct (Z.eqb_spec (r_cursor s) 0); [intros b e0 Hb; lia|exact HC]. }
    destruct ok; cbn [negb].
    + destruct (events_in ev cur (n - TRAILING)) as [|x evs] eqn:Ee.
      * unfold Inv. cbn. split; [exact HA'|].
        assert (Hcov : covered (r_submitted s) lo (n - TRAILING + 1)).
        { intros b e0 Hb He. destruct (Z.lt_ge_cases b cur) as [Hlt|Hge]; [apply HCl; [lia|exact He]|].
          exfalso. assert (Hin : In (b, e0) (events_in ev cur (n - TRAILING))) by (apply events_in_In; split; [lia|exact He]).
          rewrite Ee in Hin. contradiction. }
        split; [exact Hcov|]. split; [lia|exact Hcov].
      * unfold Inv. cbn. split; [exact HA'|]. split; [exact HPl|].
        assert (HZ' : cur = 0 -> r_persisted s = 0).
        { unfold cur. destruct (Z.eqb_spec (r_cursor s) 0) as [E0|]; [intros _; exact (HZ E0)|exact HZ]. }
        split; [exact HZ'|].
        split; [reflexivity|]. split; [symmetry; exact Ee|]. split; [exact HCl|lia].
    + assert (HZ' : cur = 0 -> r_persisted s = 0).
      { unfold cur. destruct (Z.eqb_spec (r_cursor s) 0) as [E0|]; [intros _; exact (HZ E0)|exact HZ]. }
      unfold Inv. cbn. split; [exact HA'|]. split; [exact HPl|]. split; [exact HZ'|exact HCl].
  - (* the next action of the iteration *)
    unfold step. destruct (r_pc s) as [|from to evs|to] eqn:Epc.
    + unfold Inv. rewrite Epc. auto.
    + destruct HC as (-> & -> & HC & Hto). unfold Inv. cbn.
      split.
      { intros b e0 Hin. apply in_app_or in Hin. destruct Hin as [Hin|Hin]; [apply HA; exact Hin|].
        apply events_in_In in Hin. destruct Hin as (Hb & He). split; [lia|exact He]. }
      split; [eapply covered_mono; [exact HP|lia|intros; apply in_or_app; auto]|].
      split; [exact HZ|].
      intros b e0 Hb He. apply in_or_app. destruct (Z.lt_ge_cases b (r_cursor s)) as [Hlt|Hge].
      * left. apply HC; [lia|exact He].
      * right. apply events_in_In. split; [lia|exact He].
    + unfold Inv. cbn. split; [exact HA|]. split; [exact HC|]. split; [lia|exact HC].
  - (* kill and restart *)
    unfold step, Inv. cbn. split; [exact HA|].
    destruct (Z.eqb_spec (r_persisted s) 0) as [E0|].
    + rewrite E0. split; [intros b e0 Hb; lia|]. split; [reflexivity|intros b e0 Hb; lia].
    + split; [exact HP|]. split; [intros; assumption|exact HP].
Qed.

Theorem Inv_run : forall is s, Inv s -> Inv (run ev s is).
Proof. unfold run. induction is as [|i is IH]; intros s H; cbn [fold_left]; [exact H|]. apply IH, Inv_step, H. Qed.

(* confirmation depth: whatever the header schedule, failures and kills, a submitted event lies at least 50 blocks
   behind the newest header seen, and is an event of that block *)
Theorem confirmations : forall is b e,
  In (b, e) (r_submitted (run ev init is)) -> b + TRAILING <= r_maxhead (run ev init is) /\ In e (ev b).
Proof. intros is b e Hin. destruct (Inv_run is init Inv_init) as (HA & _). destruct (HA _ _ Hin) as (H1 & H2). split; [|exact H2]. revert H1. generalize (r_maxhead (run ev init is)). intros m H1. lia. Qed.

(* no gaps: every event of every block between the start of the scan and the persisted cursor has been handed over *)
Theorem no_gap : forall is, let s := run ev init is in covered (r_submitted s) (r_lo s) (r_persisted s).
Proof. intros is. apply (Inv_run is init Inv_init). Qed.

(* a kill resumes at the persisted cursor with nothing in progress, and loses no submission already made *)
Theorem kill_resumes : forall s, let s' := step ev s Kill in
  r_pc s' = Idle /\ r_cursor s' = r_persisted s /\ r_persisted s' = r_persisted s /\ r_submitted s' = r_submitted s.
Proof. intros s. cbn. auto. Qed.

(* from the cursor, one undisturbed iteration on a header at least 50 ahead hands over every event of
   [cursor, n-50] and only then persists n-49 *)
Theorem resume_covers : forall s n,
  r_pc s = Idle -> 0 < r_cursor s -> r_cursor s <= n - TRAILING ->
  let s' := run ev s [Head n true; Tick; Tick] in
  r_pc s' = Idle /\ r_persisted s' = n - TRAILING + 1 /\ r_cursor s' = n - TRAILING + 1 /\
  (forall b e, r_cursor s <= b <= n - TRAILING -> In e (ev b) -> In (b, e) (r_submitted s')) /\
  (forall x, In x (r_submitted s) -> In x (r_submitted s')).
Proof.
  intros s n Hpc Hc Hle. unfold run. cbn [fold_left].
  assert (E1 : step ev s (Head n true) =
     match events_in ev (r_cursor s) (n - TRAILING) with
     | [] => mkR Idle (n - TRAILING + 1) (n - TRAILING + 1) (r_submitted s) (Z.max (r_maxhead s) n) (r_lo s)
     | evs => mkR (Fetched (r_cursor s) (n - TRAILING) evs) (r_cursor s) (r_persisted s) (r_submitted s) (Z.max (r_maxhead s) n) (r_lo s)
     end).
  { unfold step. rewrite Hpc. destruct (Z.ltb_spec (n - TRAILING) 0); [unfold TRAILING in *; lia|].
    destruct (Z.eqb_spec (r_cursor s) 0); [lia|]. reflexivity. }
  rewrite E1. destruct (events_in ev (r_cursor s) (n - TRAILING)) as [|x evs] eqn:Ee.
  - cbn. split; [reflexivity|]. split; [reflexivity|]. split; [reflexivity|]. split; [|auto].
    intros b e Hb He. exfalso.
    assert (Hin : In (b, e) (events_in ev (r_cursor s) (n - TRAILING))) by (apply events_in_In; auto). rewrite Ee in Hin. contradiction.
  - cbn. split; [reflexivity|]. split; [reflexivity|]. split; [reflexivity|]. split.
    + intros b e Hb He. apply in_or_app. right. rewrite <- Ee. apply events_in_In. auto.
    + intros y Hy. apply in_or_app. auto.
Qed.

(* the cursor is persisted only after the range it closes has been handled *)
Theorem persist_only_after : forall s i, Inv s ->
  r_persisted (step ev s i) <> r_persisted s ->
  (exists to, r_pc s = Handed to /\ i = Tick /\ r_persisted (step ev s i) = to + 1) \/
  (exists n, i = Head n true /\ r_pc s = Idle /\ r_persisted (step ev s i) = n - TRAILING + 1 /\
             events_in ev (if r_cursor s =? 0 then n - TRAILING else r_cursor s) (n - TRAILING) = []).
Proof.
  intros s i HI Hne. destruct i as [n ok| |]; unfold step in *.
  - destruct (r_pc s) eqn:Epc; [|contradiction|contradiction].
    destruct (n - TRAILING <? 0); [cbn in Hne; contradiction|].
    destruct ok; cbn [negb] in *; [|cbn in Hne; contradiction].
    destruct (events_in ev _ (n - TRAILING)) eqn:Ee; [|cbn in Hne; contradiction].
    right. exists n. cbn. auto.
  - destruct (r_pc s) as [|from to evs|to] eqn:Epc; [contradiction|cbn in Hne; contradiction|].
    left. exists to. cbn. auto.
  - cbn in Hne. contradiction.
Qed.

(* submissions are never taken back *)
Theorem submitted_grows : forall s i x, In x (r_submitted s) -> In x (r_submitted (step ev s i)).
Proof.
  intros s i x Hin. destruct i as [n ok| |]; unfold step.
  - destruct (r_pc s); [|exact Hin|exact Hin]. destruct (n - TRAILING <? 0); [exact Hin|]. destruct (negb ok); [exact Hin|].
    destruct (events_in ev _ _); exact Hin.
  - destruct (r_pc s); [exact Hin|cbn; apply in_or_app; auto|exact Hin].
  - exact Hin.
Qed.
End Proofs.

(* an event the relayer cannot translate hides no other event: one undisturbed iteration from the cursor hands over every
   burn / lock event of [cursor, n-50], and the claims made of what was handed over hold every translatable one of them -
   whatever untranslatable events stand before or after it in its block or range - and nothing but translatable events that
   were handed over *)
Theorem untranslatable_hide_nothing : forall tr ev s n,
  r_pc s = Idle -> 0 < r_cursor s -> r_cursor s <= n - TRAILING ->
  let s' := run ev s [Head n true; Tick; Tick] in
  r_persisted s' = n - TRAILING + 1 /\
  (forall b e, r_cursor s <= b <= n - TRAILING -> In e (ev b) -> tr e = true -> In (b, e) (handle_events tr (r_submitted s'))) /\
  (forall b e, In (b, e) (handle_events tr (r_submitted s')) -> tr e = true /\ In (b, e) (r_submitted s')).
Proof.
  intros tr ev s n Hpc Hc Hle s'.
  destruct (resume_covers ev s n Hpc Hc Hle) as (_ & Hp & _ & Hcov & _).
  split; [exact Hp|]. split.
  - intros b e Hb He Ht. unfold handle_events. apply filter_In. split; [apply Hcov; assumption|exact Ht].
  - intros b e Hin. unfold handle_events in Hin. apply filter_In in Hin. cbn [snd] in Hin. tauto.
Qed.
(* the claims are a sub-list of what was handed over, so C17_confirmations and C17_no_gap speak about them too *)
Lemma handle_events_app tr l1 l2 : handle_events tr (l1 ++ l2) = handle_events tr l1 ++ handle_events tr l2.
Proof. unfold handle_events. apply filter_app. Qed.
