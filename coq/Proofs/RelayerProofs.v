(* C16: the relayer's translations are faithful. *)
From Coq Require Import ZArith Lia Bool List.
From Sif Require Import Model.Relayer.
Import ListNotations.
Local Open Scope Z_scope.

(* ---------- burn symbols ---------- *)
Lemma burn_symbol_spec v s : burn_symbol v = Some s <-> v = PREFIX_C :: s.
Proof.
  unfold burn_symbol. destruct v as [|c rest]; [split; discriminate|].
  destruct (Z.eqb_spec c PREFIX_C) as [->|Hne]; split.
  - intros [= ->]. reflexivity.
  - intros [= ->]. reflexivity.
  - discriminate.
  - intros [= -> ->]. contradiction.
Qed.

(* ---------- the attribute parser ---------- *)
(* the value of attribute [kv] is acceptable *)
Definition attr_ok (burn : bool) (kv : Z * str) : bool :=
  let '(k, v) := kv in
  if k =? 2 then match parse_dec v with Some _ => true | None => false end
  else if k =? 3 then match parse_address v with Some _ => true | None => false end
  else if k =? 4 then (if burn then match burn_symbol v with Some _ => true | None => false end else true)
  else if k =? 5 then match parse_dec v with Some _ => true | None => false end
  else true.

Lemma step_ok burn t a kv : (exists a', step burn t a kv = Some a') <-> attr_ok burn kv = true.
Proof.
  destruct kv as [k v]. unfold step, attr_ok.
  destruct (Z.eqb_spec k 1) as [->|]; [cbn; split; eauto|].
  destruct (Z.eqb_spec k 2) as [->|]; [destruct (parse_dec v); split; eauto; try discriminate; intros [? ?]; discriminate|].
  destruct (Z.eqb_spec k 3) as [->|]; [destruct (parse_address v); split; eauto; try discriminate; intros [? ?]; discriminate|].
  destruct (Z.eqb_spec k 4) as [->|]; [destruct burn; [destruct (burn_symbol v)|]; split; eauto; try discriminate; intros [? ?]; discriminate|].
  destruct (Z.eqb_spec k 5) as [->|]; [destruct (parse_dec v); split; eauto; try discriminate; intros [? ?]; discriminate|].
  split; eauto.
Qed.

(* the parser gets through the list iff every attribute value is acceptable *)
Lemma run_attrs_ok burn t l : forall a, (exists a', run_attrs burn t a l = Some a') <-> forallb (attr_ok burn) l = true.
Proof.
  induction l as [|kv l IH]; intros a; cbn [run_attrs forallb]; [split; eauto|].
  rewrite andb_true_iff. split.
  - intros [a' H]. destruct (step burn t a kv) as [a1|] eqn:E; [|discriminate].
    split; [apply (step_ok burn t a kv); eauto | apply (IH a1); eauto].
  - intros [H1 H2]. apply (step_ok burn t a kv) in H1 as [a1 E]. rewrite E. apply IH; exact H2.
Qed.

(* where the fields of the accumulator come from *)
Definition from_attrs (burn : bool) (t : sym_table) (all : list (Z * str)) (a : acc) : Prop :=
  (forall s, a_sender a = Some s -> In (1, s) all) /\
  (forall n, a_seq a = Some n -> exists v, In (2, v) all /\ parse_dec v = Some n) /\
  (forall r, a_recv a = Some r -> exists v, In (3, v) all /\ parse_address v = Some r) /\
  (forall y, a_sym a = Some y -> exists v, In (4, v) all /\ (if burn then v = PREFIX_C :: y else y = sif_to_eth t v)) /\
  (forall m, a_amt a = Some m -> exists v, In (5, v) all /\ parse_dec v = Some m).

Lemma step_from burn t all a kv a' : In kv all -> from_attrs burn t all a -> step burn t a kv = Some a' -> from_attrs burn t all a'.
Proof.
  intros Hin (F1 & F2 & F3 & F4 & F5) H. destruct kv as [k v]. unfold step in H.
  destruct (Z.eqb_spec k 1) as [->|]; [injection H as <-; unfold from_attrs; cbn; repeat split; auto; intros s [= <-]; exact Hin|].
  destruct (Z.eqb_spec k 2) as [->|].
  { destruct (parse_dec v) eqn:E; [|discriminate]. injection H as <-. unfold from_attrs; cbn; repeat split; auto.
    intros q [= <-]. eauto. }
  destruct (Z.eqb_spec k 3) as [->|].
  { destruct (parse_address v) eqn:E; [|discriminate]. injection H as <-. unfold from_attrs; cbn; repeat split; auto.
    intros r [= <-]. eauto. }
  destruct (Z.eqb_spec k 4) as [->|].
  { destruct burn.
    - destruct (burn_symbol v) eqn:E; [|discriminate]. injection H as <-. unfold from_attrs; cbn; repeat split; auto.
      intros y [= <-]. exists v. split; [exact Hin | apply burn_symbol_spec; exact E].
    - injection H as <-. unfold from_attrs; cbn; repeat split; auto. intros y [= <-]. eauto. }
  destruct (Z.eqb_spec k 5) as [->|].
  { destruct (parse_dec v) eqn:E; [|discriminate]. injection H as <-. unfold from_attrs; cbn; repeat split; auto.
    intros m [= <-]. eauto. }
  injection H as <-. unfold from_attrs; auto.
Qed.

Lemma run_attrs_from burn t all l : forall a a', incl l all -> from_attrs burn t all a -> run_attrs burn t a l = Some a' -> from_attrs burn t all a'.
Proof.
  induction l as [|kv l IH]; intros a a' Hi Hf H; cbn [run_attrs] in H; [injection H as <-; exact Hf|].
  destruct (step burn t a kv) as [a1|] eqn:E; [|discriminate].
  apply (IH a1 a'); [intros x Hx; apply Hi; right; exact Hx | | exact H].
  eapply step_from; [apply Hi; left; reflexivity | exact Hf | exact E].
Qed.

(* soundness: every field of a translated message is the (parsed) value of an attribute of the event with the
   right key - so no required attribute can be missing, and a burn symbol is the attribute's value with exactly the
   leading prefix removed *)
Theorem burn_lock_sound burn t attrs m :
  burn_lock_to_msg burn t attrs = Some m ->
  In (1, cm_sender m) attrs /\
  (exists v n, In (2, v) attrs /\ parse_dec v = Some n /\ cm_sequence m = Some n) /\
  (exists v, In (3, v) attrs /\ parse_address v = Some (cm_receiver m)) /\
  (exists v, In (4, v) attrs /\ (if burn then v = PREFIX_C :: cm_symbol m else cm_symbol m = sif_to_eth t v)) /\
  (exists v n, In (5, v) attrs /\ parse_dec v = Some n /\ cm_amount m = Some n).
Proof.
  unfold burn_lock_to_msg. destruct (run_attrs burn t acc0 attrs) as [a|] eqn:E; [|discriminate].
  assert (F : from_attrs burn t attrs a).
  { eapply run_attrs_from; [apply incl_refl | | exact E]. unfold from_attrs, acc0; cbn. repeat split; intros; discriminate. }
  destruct F as (F1 & F2 & F3 & F4 & F5). unfold finish.
  destruct (a_sender a) as [s|] eqn:E1; [|discriminate]. destruct (a_seq a) as [q|] eqn:E2; [|discriminate].
  destruct (a_recv a) as [r|] eqn:E3; [|discriminate]. destruct (a_sym a) as [y|] eqn:E4; [|discriminate].
  destruct (a_amt a) as [am|] eqn:E5; [|discriminate]. intros [= <-]. cbn.
  split; [apply F1; reflexivity|].
  split; [destruct (F2 q eq_refl) as (v & H1 & H2); eauto|].
  split; [apply F3; reflexivity|].
  split; [apply F4; reflexivity|].
  destruct (F5 am eq_refl) as (v & H1 & H2); eauto.
Qed.

(* which accumulator fields are set: exactly those whose key occurs *)
Definition has_key (k : Z) (l : list (Z * str)) : bool := existsb (fun kv => fst kv =? k) l.
Definition set_of (a : acc) (k : Z) : bool :=
  if k =? 1 then match a_sender a with Some _ => true | None => false end
  else if k =? 2 then match a_seq a with Some _ => true | None => false end
  else if k =? 3 then match a_recv a with Some _ => true | None => false end
  else if k =? 4 then match a_sym a with Some _ => true | None => false end
  else match a_amt a with Some _ => true | None => false end.

Lemma step_set burn t a kv a' k : 1 <= k <= 5 -> step burn t a kv = Some a' -> set_of a' k = set_of a k || (fst kv =? k).
Proof.
  intros Hk H. destruct kv as [k0 v]. unfold step in H. cbn [fst].
  assert (Hcases : k = 1 \/ k = 2 \/ k = 3 \/ k = 4 \/ k = 5) by lia.
  destruct (Z.eqb_spec k0 1) as [->|]; [injection H as <-; destruct Hcases as [-> | [-> | [-> | [-> | ->]]]]; unfold set_of; cbn; destruct (a_sender a), (a_seq a), (a_recv a), (a_sym a), (a_amt a); reflexivity|].
  destruct (Z.eqb_spec k0 2) as [->|].
  { destruct (parse_dec v); [|discriminate]. injection H as <-. destruct Hcases as [-> | [-> | [-> | [-> | ->]]]]; unfold set_of; cbn; destruct (a_sender a), (a_seq a), (a_recv a), (a_sym a), (a_amt a); reflexivity. }
  destruct (Z.eqb_spec k0 3) as [->|].
  { destruct (parse_address v); [|discriminate]. injection H as <-. destruct Hcases as [-> | [-> | [-> | [-> | ->]]]]; unfold set_of; cbn; destruct (a_sender a), (a_seq a), (a_recv a), (a_sym a), (a_amt a); reflexivity. }
  destruct (Z.eqb_spec k0 4) as [->|].
  { destruct burn; [destruct (burn_symbol v); [|discriminate]|]; injection H as <-; destruct Hcases as [-> | [-> | [-> | [-> | ->]]]]; unfold set_of; cbn; destruct (a_sender a), (a_seq a), (a_recv a), (a_sym a), (a_amt a); reflexivity. }
  destruct (Z.eqb_spec k0 5) as [->|].
  { destruct (parse_dec v); [|discriminate]. injection H as <-. destruct Hcases as [-> | [-> | [-> | [-> | ->]]]]; unfold set_of; cbn; destruct (a_sender a), (a_seq a), (a_recv a), (a_sym a), (a_amt a); reflexivity. }
  injection H as <-. destruct (Z.eqb_spec k0 k); [lia|]. rewrite orb_false_r. reflexivity.
Qed.

Lemma run_attrs_set burn t l : forall a a' k, 1 <= k <= 5 -> run_attrs burn t a l = Some a' -> set_of a' k = set_of a k || has_key k l.
Proof.
  induction l as [|kv l IH]; intros a a' k Hk H; cbn [run_attrs has_key existsb] in *; [injection H as <-; rewrite orb_false_r; reflexivity|].
  destruct (step burn t a kv) as [a1|] eqn:E; [|discriminate].
  rewrite (IH a1 a' k Hk H), (step_set burn t a kv a1 k Hk E). fold (has_key k l). rewrite orb_assoc. reflexivity.
Qed.

Lemma set_of_acc0 k : set_of acc0 k = false.
Proof. unfold set_of, acc0; cbn. destruct (k =? 1), (k =? 2), (k =? 3), (k =? 4); reflexivity. Qed.

(* acceptance: exactly the events that carry all five attributes and only acceptable values - in any order *)
Theorem burn_lock_accepts_iff burn t attrs :
  (exists m, burn_lock_to_msg burn t attrs = Some m) <->
  forallb (attr_ok burn) attrs = true /\ forallb (fun k => has_key k attrs) [1; 2; 3; 4; 5] = true.
Proof.
  unfold burn_lock_to_msg. split.
  - intros [m H]. destruct (run_attrs burn t acc0 attrs) as [a|] eqn:E; [|discriminate].
    split; [apply (run_attrs_ok burn t attrs acc0); eauto|].
    assert (S : forall k, 1 <= k <= 5 -> set_of a k = has_key k attrs) by (intros k Hk; rewrite (run_attrs_set burn t attrs acc0 a k Hk E), set_of_acc0; reflexivity).
    unfold finish in H.
    destruct (a_sender a) eqn:E1; [|discriminate]. destruct (a_seq a) eqn:E2; [|discriminate].
    destruct (a_recv a) eqn:E3; [|discriminate]. destruct (a_sym a) eqn:E4; [|discriminate]. destruct (a_amt a) eqn:E5; [|discriminate].
    cbn [forallb]. rewrite <- !S by lia. unfold set_of; cbn. rewrite E1, E2, E3, E4, E5. reflexivity.
  - intros [Hok Hk]. apply (run_attrs_ok burn t attrs acc0) in Hok as [a E]. rewrite E.
    assert (S : forall k, 1 <= k <= 5 -> set_of a k = has_key k attrs) by (intros k Hk'; rewrite (run_attrs_set burn t attrs acc0 a k Hk' E), set_of_acc0; reflexivity).
    cbn [forallb] in Hk. repeat (apply andb_true_iff in Hk as [? Hk]).
    pose proof (S 1 ltac:(lia)) as S1. pose proof (S 2 ltac:(lia)) as S2. pose proof (S 3 ltac:(lia)) as S3.
    pose proof (S 4 ltac:(lia)) as S4. pose proof (S 5 ltac:(lia)) as S5.
    unfold set_of in S1, S2, S3, S4, S5; cbn in S1, S2, S3, S4, S5. unfold finish.
    destruct (a_sender a); [|congruence]. destruct (a_seq a); [|congruence]. destruct (a_recv a); [|congruence].
    destruct (a_sym a); [|congruence]. destruct (a_amt a); [|congruence]. eauto.
Qed.

(* ---------- Ethereum event -> claim ---------- *)
Lemma wrap64_small z : 0 <= z < 2 ^ 63 -> wrap64 z = z.
Proof.
  intros H. unfold wrap64. rewrite Z.mod_small by lia. destruct (Z.ltb_spec z (2 ^ 63)); lia.
Qed.

Theorem event_to_claim_faithful t e c :
  event_to_claim t e = Some c ->
  ev_recipient_valid e = true /\
  cl_sender c = ev_from e /\ cl_token c = ev_token e /\ cl_amount c = ev_value e /\ cl_burn c = ev_burn e /\
  cl_symbol c = (if ev_burn e then eth_to_sif t (ev_symbol e) else to_lower (ev_symbol e)) /\
  (0 <= ev_chain e < 2 ^ 63 -> cl_chain c = ev_chain e) /\ (0 <= ev_nonce e < 2 ^ 63 -> cl_nonce c = ev_nonce e).
Proof.
  unfold event_to_claim. destruct (ev_recipient_valid e); cbn [negb]; [|discriminate].
  destruct (negb (ev_burn e) && _ && _); [discriminate|]. intros [= <-]. cbn.
  repeat split; auto; intros; apply wrap64_small; assumption.
Qed.

(* two events of one chain with different (nonce, sender) never get the same claim identity *)
Section Identity.
  Variable fmt : Z -> str.             (* strconv.FormatInt(_, 10) *)
  Variable hex : list Z -> str.        (* the "0x..." rendering of an address *)
  Hypothesis fmt_inj : forall a b, fmt a = fmt b -> a = b.
  Hypothesis hex_inj : forall a b, hex a = hex b -> a = b.
  Hypothesis hex_len : forall a, length (hex a) = 42%nat.

  Lemma app_inv_len {A} (a b c d : list A) : length b = length d -> a ++ b = c ++ d -> a = c /\ b = d.
  Proof.
    intros Hl H. assert (length a = length c).
    { apply (f_equal (@length A)) in H. rewrite !app_length in H. lia. }
    revert c H H0. induction a as [|x a IH]; intros [|y c] H Hlen; try discriminate; [auto|].
    injection H as -> H. injection Hlen as Hlen. destruct (IH c H Hlen) as [-> ->]. auto.
  Qed.

  Theorem oracle_id_injective c1 c2 :
    cl_chain c1 = cl_chain c2 -> oracle_id fmt hex c1 = oracle_id fmt hex c2 ->
    cl_nonce c1 = cl_nonce c2 /\ cl_sender c1 = cl_sender c2.
  Proof.
    unfold oracle_id. intros Hc H. rewrite Hc in H. apply app_inv_head in H.
    apply app_inv_len in H; [|rewrite !hex_len; reflexivity]. destruct H as [H1 H2]. auto.
  Qed.
End Identity.

(* across chain ids the concatenation collides: finding F-8, with a decimal printer for small numbers *)
Definition dec2 (z : Z) : str := if z <? 10 then [48 + z] else [48 + z / 10; 48 + z mod 10].
Lemma oracle_id_collision hex s :
  oracle_id dec2 hex (mkCl 1 23 s [] [] 0 false) = oracle_id dec2 hex (mkCl 12 3 s [] [] 0 false).
Proof. reflexivity. Qed.
