From Coq Require Import ZArith Lia Bool List.
From RecordUpdate Require Import RecordUpdate.
From Sif Require Import Base.Outcome Base.SdkMath Base.Store Base.Bank
  Model.ClpTypes Model.ClpRewards Model.ClpState Model.ClpHooks Proofs.SdkMathProofs.
Import ListNotations.
Local Open Scope Z_scope.

(* CollectPoolRewardTuples never hands out more than the block distribution *)
Lemma collect_tuples_le raws : forall remaining,
  0 <= remaining -> Forall (fun r => 0 <= snd r) raws ->
  0 <= snd (collect_tuples raws remaining) <= remaining /\
  Forall (fun t => 0 < snd t) (fst (collect_tuples raws remaining)) /\
  fold_right (fun t acc => snd t + acc) 0 (fst (collect_tuples raws remaining)) = snd (collect_tuples raws remaining).
Proof.
  induction raws as [|[a raw] rest IH]; intros remaining Hr Hall; cbn [collect_tuples].
  - cbn. repeat split; auto; lia.
  - inversion Hall as [|? ? Hraw Hrest]; subst. cbn [snd] in Hraw.
    destruct (Z.eqb_spec remaining 0); [cbn; repeat split; auto; lia|].
    destruct (Z.eqb_spec raw 0); [apply IH; auto|].
    set (d := if remaining <? raw then remaining else raw).
    assert (Hd : 0 < d <= remaining) by (unfold d; destruct (Z.ltb_spec remaining raw); lia).
    specialize (IH (remaining - d) ltac:(lia) Hrest).
    destruct (collect_tuples rest (remaining - d)) as [ts tot]. cbn [fst snd] in *.
    destruct IH as (H1 & H2 & H3). repeat split; try lia.
    + constructor; [cbn; lia|assumption].
    + cbn. lia.
Qed.

Lemma calc_pool_distribution_nonneg m nb td bd :
  0 <= m -> 0 <= nb -> 0 < td -> 0 <= bd -> 0 <= calc_pool_distribution m nb td bd.
Proof.
  intros. unfold calc_pool_distribution, dec_of_int. pose proof PREC_pos.
  apply dec_trunc_int_nonneg, dec_mul_nonneg; [|nia].
  apply dec_quo_nonneg; [|assumption]. apply dec_mul_nonneg; nia.
Qed.

Lemma pool_multiplier_nonneg a ms d :
  0 <= d -> Forall (fun m => 0 <= snd m) ms -> 0 <= pool_multiplier a ms d.
Proof.
  intros Hd; induction 1 as [|[x m] ms Hm Hms IH]; cbn; [assumption|].
  destruct (x =? a); [exact Hm|exact IH].
Qed.

Definition period_wf (p : reward_period) : Prop :=
  0 <= rp_default p /\ Forall (fun m => 0 <= snd m) (rp_mults p) /\ 0 <= rp_alloc p.
Definition pools_wf (m : store pool) : Prop := Forall (fun kv => 0 <= p_nb (snd kv)) m.

Lemma raw_distributions_nonneg pools p td bd :
  period_wf p -> pools_wf pools -> 0 < td -> 0 <= bd ->
  Forall (fun r => 0 <= snd r) (raw_distributions pools p td bd).
Proof.
  intros (Hd & Hm & _) Hp Htd Hbd. unfold raw_distributions.
  apply Forall_map. eapply Forall_impl; [|exact Hp]. intros [k pl] Hnb; cbn in *.
  apply calc_pool_distribution_nonneg; auto. apply pool_multiplier_nonneg; auto.
Qed.

Lemma map_reset_wf pools :
  pools_wf pools -> pools_wf (map (fun kv : Z * pool => (fst kv, snd kv <| p_rpd := 0 |>)) pools).
Proof. unfold pools_wf. intros H. apply Forall_map. eapply Forall_impl; [|exact H]. intros [k pl]; cbn; auto. Qed.

(* what DistributeDepthRewards mints is bounded by the block distribution it is given *)
Lemma distribute_minted_le s bd p s' minted burned :
  period_wf p -> pools_wf (cs_pools s) -> 0 <= bd ->
  distribute_depth_rewards s bd p = Ok (s', minted, burned) ->
  0 <= minted <= bd.
Proof.
  intros Hp Hpools Hbd. unfold distribute_depth_rewards.
  destruct (Z.eqb_spec bd 0); [intros [= <- <- <-]; lia|].
  set (td := total_depth (cs_pools s) p).
  set (pools0 := if cs_height s =? rp_start p then _ else _).
  assert (Hp0 : pools_wf pools0).
  { unfold pools0. destruct (cs_height s =? rp_start p); [apply map_reset_wf|]; assumption. }
  destruct (Z.leb_spec td 0); [intros [= <- <- <-]; lia|].
  pose proof (collect_tuples_le (raw_distributions pools0 p td bd) bd Hbd
                (raw_distributions_nonneg pools0 p td bd Hp Hp0 ltac:(lia) Hbd)) as (Hle & _ & _).
  destruct (collect_tuples (raw_distributions pools0 p td bd) bd) as [tuples to_mint]. cbn [snd] in Hle.
  destruct (rp_distribute p); cbn [negb].
  - match goal with |- context [fold_left ?f tuples ?a] => destruct (fold_left f tuples a) as [pools1 ds] end.
    match goal with |- context [transfer_generic ?b ?o ?d] => destruct (transfer_generic b o d) as [b2 failed] end.
    match goal with |- context [?x <? 0] => destruct (x <? 0) end; [discriminate|].
    match goal with |- context [burn ?b ?a ?d ?x] => destruct (burn b a d x) end; intros [= <- <- <-]; lia.
  - intros [= <- <- <-]. lia.
Qed.

(* one block of the reward path *)
Definition cur_of (p : reward_period) : Z := rp_alloc p / ((rp_end p - rp_start p + 1) mod U64).

Definition norm_period (p0 : reward_period) : reward_period :=
  if rp_mod p0 =? 0 then mkRP (rp_start p0) (rp_end p0) (rp_alloc p0) (rp_mults p0) (rp_default p0) (rp_distribute p0) 1 else p0.

Lemma rewards_run_bound s s' minted burned :
  Forall period_wf (cs_reward_periods s) -> pools_wf (cs_pools s) -> 0 <= cs_accu s ->
  rewards_run s = Ok (s', minted, burned) ->
  match find_period (cs_height s) (cs_reward_periods s) with
  | None => minted = 0 /\ cs_accu s' = cs_accu s
  | Some p => 0 <= minted /\ 0 <= cs_accu s' /\ cs_accu s' + minted <= cs_accu s + cur_of p
  end.
Proof.
  intros Hps Hpools Hacc. unfold rewards_run.
  destruct (find_period (cs_height s) (cs_reward_periods s)) as [p0|] eqn:Hf; [|intros [= <- <- <-]; auto].
  assert (Hwf0 : period_wf p0).
  { clear -Hps Hf. induction (cs_reward_periods s) as [|q qs IH]; [discriminate|].
    inversion Hps; subst. cbn in Hf. destruct (_ && _); [injection Hf as <-; assumption|auto]. }
  assert (Hcur0 : 0 <= cur_of p0).
  { unfold cur_of. destruct Hwf0 as (_ & _ & Ha). destruct (Z.eq_dec ((rp_end p0 - rp_start p0 + 1) mod U64) 0) as [->|?]; [rewrite Zdiv_0_r; lia|]. apply Z.div_pos; [exact Ha|]. pose proof (Z.mod_pos_bound (rp_end p0 - rp_start p0 + 1) U64 ltac:(reflexivity)); lia. }
  destruct (Z.eqb_spec (rp_alloc p0) 0) as [Hz|Hz]; [intros [= <- <- <-]; lia|].
  fold (norm_period p0). set (p := norm_period p0).
  assert (Hwf : period_wf p).
  { unfold p, norm_period. destruct (rp_mod p0 =? 0); [|assumption]. destruct Hwf0 as (? & ? & ?). repeat split; assumption. }
  assert (Hcur : cur_of p = cur_of p0).
  { unfold p, norm_period. destruct (rp_mod p0 =? 0); reflexivity. }
  unfold is_distribution_block. destruct (rp_mod p =? 0); [discriminate|]. cbn [bind].
  unfold calc_block_distribution. fold (cur_of p).
  destruct (_ =? 0); [discriminate|]. cbn [bind].
  unfold uint_add, ck_uint. destruct (fits_uint (cs_accu s + cur_of p)); [|discriminate]. cbn [bind].
  destruct (Z.rem _ _ =? 0).
  - destruct (distribute_depth_rewards s (cs_accu s + cur_of p) p) as [[[s1 m1] b1]| |] eqn:Hd; try discriminate.
    cbn [bind]. intros [= <- <- <-].
    assert (Hbd : 0 <= cs_accu s + cur_of p) by (rewrite Hcur; lia).
    pose proof (distribute_minted_le s _ p s1 m1 b1 Hwf Hpools Hbd Hd). cbn. rewrite <- Hcur. lia.
  - intros [= <- <- <-]. cbn. rewrite <- Hcur. lia.
Qed.

(* a non-distribution block creates nothing and moves the per-block share into the accumulator *)
Lemma rewards_run_nondist s s' minted burned p :
  find_period (cs_height s) (cs_reward_periods s) = Some p -> rp_alloc p <> 0 ->
  is_distribution_block (cs_height s) (rp_start (norm_period p)) (rp_mod (norm_period p)) = Ok false ->
  rewards_run s = Ok (s', minted, burned) ->
  minted = 0 /\ burned = 0 /\ cs_accu s' = cs_accu s + cur_of p /\ cs_bank s' = cs_bank s /\ cs_pools s' = cs_pools s.
Proof.
  intros Hf Hz Hnd. unfold rewards_run. rewrite Hf.
  destruct (Z.eqb_spec (rp_alloc p) 0); [contradiction|].
  fold (norm_period p). rewrite Hnd. cbn [bind].
  assert (Hcur : cur_of (norm_period p) = cur_of p).
  { unfold norm_period. destruct (rp_mod p =? 0); reflexivity. }
  unfold calc_block_distribution. fold (cur_of (norm_period p)).
  destruct (_ =? 0); [discriminate|]. cbn [bind].
  unfold uint_add, ck_uint. destruct (fits_uint _); [|discriminate]. cbn [bind].
  intros [= <- <- <-]. cbn. rewrite Hcur. auto.
Qed.

(* A history of blocks inside one reward period.  Between two blocks anything may happen to the
   state (messages, other hooks) except that nothing else writes the accumulator. *)
Inductive rhist (p : reward_period) : Z -> nat -> Z -> Z -> Prop :=
| rh0 a : 0 <= a -> rhist p a 0 0 a
| rhS a0 n tot s s' m b :
    rhist p a0 n tot (cs_accu s) ->
    find_period (cs_height s) (cs_reward_periods s) = Some p ->
    Forall period_wf (cs_reward_periods s) -> pools_wf (cs_pools s) ->
    rewards_run s = Ok (s', m, b) ->
    rhist p a0 (S n) (tot + m) (cs_accu s').

Lemma rhist_bound p a0 n tot a :
  rhist p a0 n tot a -> 0 <= a /\ 0 <= tot /\ tot + a <= a0 + Z.of_nat n * cur_of p.
Proof.
  induction 1 as [a Ha|a0 n tot s s' m b Hh IH Hf Hps Hpools Hrun].
  - cbn. lia.
  - destruct IH as (Ha & Ht & Hb).
    pose proof (rewards_run_bound s s' m b Hps Hpools Ha Hrun) as H. rewrite Hf in H.
    rewrite Nat2Z.inj_succ. nia.
Qed.

Definition period_len (p : reward_period) : Z := (rp_end p - rp_start p + 1) mod U64.

(* over at most a whole period, starting with an empty accumulator, no more than the allocation is created *)
Lemma rhist_period_bound p n tot a :
  rhist p 0 n tot a -> 0 <= rp_alloc p -> 0 < period_len p -> Z.of_nat n <= period_len p ->
  tot <= rp_alloc p.
Proof.
  intros Hh Ha Hl Hn. apply rhist_bound in Hh. destruct Hh as (H1 & H2 & H3).
  unfold cur_of in H3. fold (period_len p) in H3.
  pose proof (Z.mul_div_le (rp_alloc p) (period_len p) Hl).
  assert (0 <= rp_alloc p / period_len p) by (apply Z.div_pos; lia).
  nia.
Qed.
