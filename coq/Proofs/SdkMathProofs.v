From Coq Require Import ZArith Lia Bool.
From Sif Require Import Base.Outcome Base.SdkMath.
Local Open Scope Z_scope.

Lemma PREC_pos : 0 < PREC. Proof. reflexivity. Qed.
Lemma PREC_val : PREC = 2 * HALF. Proof. reflexivity. Qed.
Lemma HALF_pos : 0 < HALF. Proof. reflexivity. Qed.
Global Opaque PREC HALF.

Lemma chop_round_pos_nonneg d : 0 <= d -> 0 <= chop_round_pos d.
Proof.
  intros H. unfold chop_round_pos. pose proof PREC_pos.
  assert (0 <= d / PREC) by (apply Z.div_pos; lia).
  repeat match goal with |- context [if ?b then _ else _] => destruct b end; lia.
Qed.

Lemma chop_round_nonneg d : 0 <= d -> 0 <= chop_round d.
Proof.
  intros H. unfold chop_round. destruct (Z.ltb_spec d 0); [lia|]. now apply chop_round_pos_nonneg.
Qed.

(* | chop_round_pos d - d / PREC | <= 1/2, stated on integers *)
Lemma chop_round_pos_bounds d : 0 <= d ->
  2 * d - PREC <= 2 * PREC * chop_round_pos d <= 2 * d + PREC.
Proof.
  intros H. unfold chop_round_pos. pose proof PREC_pos. pose proof PREC_val.
  pose proof (Z.div_mod d PREC ltac:(lia)) as Hd.
  pose proof (Z.mod_pos_bound d PREC ltac:(lia)) as Hm.
  destruct (Z.eqb_spec (d mod PREC) 0); [nia|].
  destruct (Z.ltb_spec (d mod PREC) HALF); [nia|].
  destruct (Z.ltb_spec HALF (d mod PREC)); [nia|].
  destruct (Z.even (d / PREC)); nia.
Qed.

Lemma chop_round_pos_mono a b : 0 <= a <= b -> chop_round_pos a <= chop_round_pos b.
Proof.
  intros [Ha Hab]. pose proof PREC_pos. pose proof PREC_val.
  destruct (Z.eq_dec (a / PREC) (b / PREC)) as [Heq|Hne].
  - unfold chop_round_pos. rewrite <- Heq.
    pose proof (Z.div_mod a PREC ltac:(lia)). pose proof (Z.div_mod b PREC ltac:(lia)).
    pose proof (Z.mod_pos_bound a PREC ltac:(lia)). pose proof (Z.mod_pos_bound b PREC ltac:(lia)).
    assert (a mod PREC <= b mod PREC) by nia.
    destruct (Z.eqb_spec (a mod PREC) 0); destruct (Z.eqb_spec (b mod PREC) 0);
    destruct (Z.ltb_spec (a mod PREC) HALF); destruct (Z.ltb_spec (b mod PREC) HALF);
    destruct (Z.ltb_spec HALF (a mod PREC)); destruct (Z.ltb_spec HALF (b mod PREC));
    destruct (Z.even (a / PREC)); lia.
  - assert (a / PREC <= b / PREC) by (apply Z.div_le_mono; lia).
    assert (a / PREC + 1 <= b / PREC) by lia.
    assert (chop_round_pos a <= a / PREC + 1).
    { unfold chop_round_pos. repeat match goal with |- context [if ?c then _ else _] => destruct c end; lia. }
    assert (b / PREC <= chop_round_pos b).
    { unfold chop_round_pos. repeat match goal with |- context [if ?c then _ else _] => destruct c end; lia. }
    lia.
Qed.

Lemma dec_mul_nonneg a b : 0 <= a -> 0 <= b -> 0 <= dec_mul a b.
Proof. intros. unfold dec_mul. apply chop_round_nonneg. nia. Qed.

Lemma dec_quo_nonneg a b : 0 <= a -> 0 < b -> 0 <= dec_quo a b.
Proof.
  intros. unfold dec_quo. apply chop_round_nonneg. pose proof PREC_pos.
  apply Z.quot_pos; nia.
Qed.

Lemma dec_trunc_int_nonneg d : 0 <= d -> 0 <= dec_trunc_int d.
Proof. intros. unfold dec_trunc_int. pose proof PREC_pos. apply Z.quot_pos; lia. Qed.

Lemma dec_round_int_nonneg d : 0 <= d -> 0 <= dec_round_int d.
Proof. apply chop_round_nonneg. Qed.
