From Coq Require Import ZArith Lia Bool List QArith Qround Qabs Lqa.
From RecordUpdate Require Import RecordUpdate.
From Sif Require Import Base.Outcome Base.SdkMath Base.Store Base.Bank
  Model.ClpCalc Model.ClpTypes Model.ClpState Model.ClpMsgs Proofs.BankProofs Proofs.ClpInv.
Import ListNotations.
Local Open Scope Z_scope.

Lemma rat_int_quo_floor q : (0 <= q)%Q -> rat_int_quo q = Qfloor q.
Proof.
  destruct q as [n d]. unfold Qle; cbn. intros H. unfold rat_int_quo; cbn.
  rewrite Z.quot_div_nonneg; [reflexivity|lia|lia].
Qed.

Lemma rat_int_quo_bounds q : (0 <= q)%Q ->
  (inject_Z (rat_int_quo q) <= q)%Q /\ (q < inject_Z (rat_int_quo q) + 1)%Q.
Proof.
  intros H. rewrite rat_int_quo_floor by assumption. split; [apply Qfloor_le|].
  pose proof (Qlt_floor q) as Hl. rewrite inject_Z_plus in Hl. exact Hl.
Qed.

(* the rational the code calls "adjusted": x*Y/(X+x) times or divided by (1+r) *)
Definition adjusted_q (to_rowan : bool) (X x Y r : Z) : Q :=
  let raw := Qdiv (Qmult (zq x) (zq Y)) (Qplus (zq X) (zq x)) in
  let pf := Qplus (zq 1) (dec_to_q r) in
  if to_rowan then Qdiv raw pf else Qmult raw pf.

Lemma dec_to_q_nonneg d : 0 <= d -> (0 <= dec_to_q d)%Q.
Proof. intros. unfold dec_to_q, Qle; cbn. lia. Qed.

Lemma adjusted_nonneg tr X x Y r : 0 < X -> 0 < x -> 0 < Y -> 0 <= r -> (0 <= adjusted_q tr X x Y r)%Q.
Proof.
  intros HX Hx HY Hr. unfold adjusted_q.
  assert (Hraw : (0 <= zq x * zq Y / (zq X + zq x))%Q).
  { apply Qle_shift_div_l.
    - unfold zq. rewrite <- inject_Z_plus. rewrite <- (Zlt_Qlt 0). lia.
    - rewrite Qmult_0_l. unfold zq. rewrite <- inject_Z_mult. rewrite <- (Zle_Qle 0). nia. }
  assert (Hpf : (0 < zq 1 + dec_to_q r)%Q).
  { pose proof (dec_to_q_nonneg r Hr). unfold zq. change (inject_Z 1) with 1%Q. lra. }
  destruct tr.
  - apply Qle_shift_div_l; [exact Hpf|]. rewrite Qmult_0_l. exact Hraw.
  - apply Qmult_le_0_compat; [exact Hraw|]. lra.
Qed.

(* C03 upper bound, one leg: output <= adjusted*(1-f) + 1, output >= 0 *)
Lemma calc_swap_result_upper tr X x Y r f y fee :
  0 < X -> 0 < x -> 0 < Y -> 0 <= r -> 0 <= f <= PREC ->
  calc_swap_result tr X x Y r f = Ok (y, fee) ->
  0 <= y /\ 0 <= fee /\
  (inject_Z y <= adjusted_q tr X x Y r * (1 - dec_to_q f) + 1)%Q /\
  (inject_Z y <= adjusted_q tr X x Y r)%Q.
Proof.
  intros HX Hx HY Hr Hf H. unfold calc_swap_result in H.
  destruct (Z.eqb_spec X 0); [lia|]. destruct (Z.eqb_spec x 0); [lia|]. destruct (Z.eqb_spec Y 0); [lia|].
  cbn [orb] in H.
  pose proof (adjusted_nonneg tr X x Y r HX Hx HY Hr) as Hadj. unfold adjusted_q in *.
  set (raw := (zq x * zq Y / (zq X + zq x))%Q) in *.
  set (pf := (zq 1 + dec_to_q r)%Q) in *.
  assert (Hfq : (0 <= dec_to_q f)%Q) by (apply dec_to_q_nonneg; lia).
  destruct tr.
  - unfold qdiv_ck in H. destruct (q_is_zero pf); [discriminate|]. cbn [bind] in H.
    set (adj := (raw / pf)%Q) in *.
    repeat inv1 H. unfold to_uint in *.
    apply ck_uint_ok in Hx0, Hx1. apply uint_sub_ok in Hx2. destruct Hx0, Hx1, Hx2. subst.
    assert (Haf : (0 <= adj * dec_to_q f)%Q) by (apply Qmult_le_0_compat; assumption).
    destruct (rat_int_quo_bounds adj Hadj) as (A1 & A2).
    destruct (rat_int_quo_bounds _ Haf) as (B1 & B2).
    split; [lia|]. split; [assumption|].
    unfold Z.sub. rewrite inject_Z_plus, inject_Z_opp.
    match goal with Hz : 0 <= rat_int_quo (adj * dec_to_q f) |- _ => rewrite Zle_Qle in Hz; change (inject_Z 0) with 0%Q in Hz end.
    set (fq := dec_to_q f) in *. clearbody fq. clearbody adj.
    set (ia := inject_Z (rat_int_quo adj)) in *. set (ib := inject_Z (rat_int_quo (adj * fq))) in *. clearbody ia ib.
    split; lra.
  - cbn [bind] in H. set (adj := (raw * pf)%Q) in *.
    repeat inv1 H. unfold to_uint in *.
    apply ck_uint_ok in Hx0, Hx1. apply uint_sub_ok in Hx2. destruct Hx0, Hx1, Hx2. subst.
    assert (Haf : (0 <= adj * dec_to_q f)%Q) by (apply Qmult_le_0_compat; assumption).
    destruct (rat_int_quo_bounds adj Hadj) as (A1 & A2).
    destruct (rat_int_quo_bounds _ Haf) as (B1 & B2).
    split; [lia|]. split; [assumption|].
    unfold Z.sub. rewrite inject_Z_plus, inject_Z_opp.
    match goal with Hz : 0 <= rat_int_quo (adj * dec_to_q f) |- _ => rewrite Zle_Qle in Hz; change (inject_Z 0) with 0%Q in Hz end.
    set (fq := dec_to_q f) in *. clearbody fq. clearbody adj.
    set (ia := inject_Z (rat_int_quo adj)) in *. set (ib := inject_Z (rat_int_quo (adj * fq))) in *. clearbody ia ib.
    split; lra.
Qed.

Definition ind (b : bool) (x : Z) : Z := if b then x else 0.

(* C03 settle: exact movement of every balance of every account *)
Lemma swap_settles s sg sent recv amt mn s' emit :
  swap s sg sent recv amt mn = Ok (s', emit) ->
  mn <= emit /\ 0 <= amt /\ 0 <= emit /\
  (forall a' d', bal (cs_bank s') a' d' = bal (cs_bank s) a' d'
      - ind ((a' =? sg) && (d' =? sent)) amt + ind ((a' =? CLP_MODULE) && (d' =? sent)) amt
      - ind ((a' =? CLP_MODULE) && (d' =? recv)) emit + ind ((a' =? sg) && (d' =? recv)) emit) /\
  (forall d', sup (cs_bank s') d' = sup (cs_bank s) d') /\
  cs_lps s' = cs_lps s /\ cs_buckets s' = cs_buckets s /\ cs_params s' = cs_params s.
Proof.
  unfold swap. intros H. repeat inv1 H. subst s'.
  use_requires. apply Z.leb_le in Hx9.
  assert (Hsup : forall b from to d q b', bsend b from to d q = Ok b' -> forall d', sup b' d' = sup b d').
  { intros b from to d q b' Hs. apply bsend_ok, send_effect in Hs. tauto. }
  assert (Hnn : forall b from to d q b', bsend b from to d q = Ok b' -> 0 <= q).
  { intros b from to d q b' Hs. apply bsend_ok, send_effect in Hs. tauto. }
  pose proof (Hnn _ _ _ _ _ _ Hx5) as Hamt. pose proof (Hnn _ _ _ _ _ _ Hx10) as Hemit.
  pose proof (Hsup _ _ _ _ _ _ Hx5) as Hs5. pose proof (Hsup _ _ _ _ _ _ Hx10) as Hs10.
  use_sends.
  destruct (negb (sent =? ROWAN) && negb (recv =? ROWAN)) eqn:Edbl.
  - repeat inv1 Hx6. subst. split; [assumption|]. split; [assumption|]. split; [assumption|].
    split; [|split; [|repeat split; reflexivity]].
    + intros a' d'. norm_gap. unfold ind.
      repeat match goal with |- context [?x =? ?y] => destruct (Z.eqb_spec x y); subst end; cbn [andb]; lia.
    + intros d'. rewrite bank_with_bank, Hs10. rewrite !bank_set_pool, bank_with_bank. apply Hs5.
  - injection Hx6 as <- <-. subst. split; [assumption|]. split; [assumption|]. split; [assumption|].
    split; [|split; [|repeat split; reflexivity]].
    + intros a' d'. norm_gap. unfold ind.
      repeat match goal with |- context [?x =? ?y] => destruct (Z.eqb_spec x y); subst end; cbn [andb]; lia.
    + intros d'. rewrite bank_with_bank, Hs10. rewrite !bank_set_pool, bank_with_bank. apply Hs5.
Qed.

Definition moved (p : pool) (dn de : Z) : pool := p <| p_nb := p_nb p + dn |> <| p_eb := p_eb p + de |>.


Lemma swap_one_moved p tr z r f res fee sp :
  swap_one tr z (to_spool p) r f = Ok (res, fee, sp) ->
  upd_balances p sp = (if tr then moved p (- res) z else moved p z (- res)) /\
  res < (if tr then p_nb p else p_eb p).
Proof.
  intros H. apply swap_one_effect in H. cbn in H. destruct tr; destruct H as ((H1 & H2 & H3) & _ & _);
  unfold upd_balances, moved; rewrite H1, H2; split; try assumption; f_equal; lia.
Qed.

(* pools: native -> external and external -> native (one leg) *)
Lemma swap_pools_single s sg sent recv amt mn s' emit :
  swap s sg sent recv amt mn = Ok (s', emit) ->
  (sent = ROWAN \/ recv = ROWAN) ->
  let a := if recv =? ROWAN then sent else recv in
  exists p, get a (cs_pools s) = Some p /\
    cs_pools s' = set a (if recv =? ROWAN then moved p (- emit) amt else moved p amt (- emit)) (cs_pools s) /\
    emit < (if recv =? ROWAN then p_nb p else p_eb p).
Proof.
  unfold swap. intros H Hroute. repeat inv1 H. subst.
  assert (Edbl : negb (sent =? ROWAN) && negb (recv =? ROWAN) = false).
  { destruct Hroute as [-> | ->]; cbn; [reflexivity|apply andb_false_r]. }
  match goal with Hd : (if negb (sent =? ROWAN) && negb (recv =? ROWAN) then _ else _) = Ok _ |- _ =>
    rewrite Edbl in Hd; injection Hd as <- <- end. use_get_pool.
  match goal with Hg : get _ (cs_pools (with_bank _ _)) = Some _ |- _ => rewrite pools_with_bank in Hg; eexists; split; [exact Hg|] end.
  match goal with H1 : swap_one _ _ _ _ _ = Ok _ |- _ => apply swap_one_moved in H1; destruct H1 as (Hu & Hlt) end. rewrite Hu.
  rewrite pools_with_bank, pools_set_pool, pools_with_bank. split; [reflexivity|exact Hlt].
Qed.

(* pools: external -> external through the native token (two legs) *)
Lemma swap_pools_double s sg sent recv amt mn s' emit :
  swap s sg sent recv amt mn = Ok (s', emit) ->
  sent <> ROWAN -> recv <> ROWAN -> sent <> recv ->
  exists mid p1 p2, get sent (cs_pools s) = Some p1 /\ get recv (cs_pools s) = Some p2 /\
    cs_pools s' = set recv (moved p2 mid (- emit)) (set sent (moved p1 (- mid) amt) (cs_pools s)) /\
    mid < p_nb p1 /\ emit < p_eb p2.
Proof.
  unfold swap. intros H Hs Hr Hne. repeat inv1 H. subst.
  apply Z.eqb_neq in Hs, Hr. rewrite Hs, Hr in *. cbn [negb andb] in *.
  match goal with Hd : bind (get_pool _ sent) _ = Ok _ |- _ => repeat inv1 Hd end. subst. use_get_pool.
  match goal with Hg : get recv (cs_pools (set_pool _ _ _)) = Some _ |- _ =>
    rewrite pools_set_pool, pools_with_bank in Hg; rewrite get_set_other in Hg by congruence; rename Hg into Hx7 end.
  match goal with Hg : get sent (cs_pools (with_bank _ _)) = Some _ |- _ => rewrite pools_with_bank in Hg; rename Hg into Hx6 end.
  match goal with H1 : swap_one true _ _ _ _ = Ok _, H2 : swap_one false _ _ _ _ = Ok _ |- _ =>
    apply swap_one_moved in H1; apply swap_one_moved in H2; destruct H1 as (Hu1 & Hl1); destruct H2 as (Hu2 & Hl2) end.
  do 3 eexists. split; [exact Hx6|]. split; [exact Hx7|].
  rewrite pools_with_bank, pools_set_pool, pools_set_pool, pools_with_bank, Hu1, Hu2.
  split; [reflexivity|]. split; assumption.
Qed.

(* what SwapOne hands to the calculator: the depths including margin liabilities *)
Lemma swap_one_calc tr z sp r f res fee sp' :
  swap_one tr z sp r f = Ok (res, fee, sp') ->
  calc_swap_result tr ((if tr then sp_eb sp + sp_el sp else sp_nb sp + sp_nl sp)) z
                      ((if tr then sp_nb sp + sp_nl sp else sp_eb sp + sp_el sp)) r f = Ok (res, fee).
Proof.
  unfold swap_one. destruct tr; intros H; repeat inv1 H;
  repeat match goal with Hq : uint_add _ _ = Ok _ |- _ => apply uint_add_ok in Hq; destruct Hq end; subst; assumption.
Qed.

(* a failed transaction leaves everything but the fee unchanged *)
Lemma deliver_fail_unchanged s fee m :
  snd (deliver s fee m) = false ->
  fst (deliver s fee m) = with_bank s (credit (cs_bank s) (signer_of m) ROWAN (- fee)).
Proof. unfold deliver. destruct (handle _ m); cbn; congruence. Qed.
