(* C15 over histories: in every state reached by user messages, blocks and administrator changes of the lock / cancel
   periods, every provider's outstanding unlock requests are non-negative, were made at heights up to the current one,
   and add up to at most the provider's units. *)
From Coq Require Import ZArith Lia Bool List.
From RecordUpdate Require Import RecordUpdate.
From Sif Require Import Base.Outcome Base.SdkMath Base.Store Base.Bank
  Model.ClpCalc Model.ClpTypes Model.ClpState Model.ClpMsgs Proofs.BankProofs Proofs.ClpInv Proofs.ClpUnits Proofs.UnlockProofs.
Import ListNotations.
Local Open Scope Z_scope.

Definition rec_ok (h : Z) (us : list (Z * Z)) : Prop := nonneg_units us /\ Forall (fun r => fst r <= h) us.
Definition lp_ok (h : Z) (l : lprov) : Prop := rec_ok h (lp_unlocks l) /\ usum (lp_unlocks l) <= lp_units l.
(* every provider record of every asset (stated over the stored lists, so that no key order is needed) *)
Definition QInvH (h : Z) (s : clp_state) : Prop := forall a, Forall (fun kv => lp_ok h (snd kv)) (lps_for s a).
Definition QInv (s : clp_state) : Prop := QInvH (cs_height s) s.

(* ---------- lists of requests ---------- *)
Lemma usum_nonneg us : nonneg_units us -> 0 <= usum us.
Proof. induction 1 as [|r us Hr _ IH]; cbn; [lia|]. fold (usum us). lia. Qed.
Lemma usum_app a b : usum (a ++ b) = usum a + usum b.
Proof. induction a as [|r a IH]; cbn; [reflexivity|]. fold (usum (a ++ b)) (usum a). lia. Qed.
Lemma fold_sum_usum us : forall acc, fold_left (fun acc r => acc + snd r) us acc = acc + usum us.
Proof. induction us as [|r us IH]; intros acc; cbn; [lia|]. fold (usum us). rewrite IH. lia. Qed.
Lemma rec_ok_filter h f us : rec_ok h us -> rec_ok h (filter f us).
Proof.
  intros [H1 H2]. split; [unfold nonneg_units in *|]; apply Forall_forall; intros r Hr; apply filter_In in Hr; destruct Hr as [Hr _];
  [exact (proj1 (Forall_forall _ _) H1 r Hr) | exact (proj1 (Forall_forall _ _) H2 r Hr)].
Qed.
Lemma usum_filter_le f us : nonneg_units us -> usum (filter f us) <= usum us.
Proof.
  induction 1 as [|r us Hr _ IH]; cbn; [lia|]. fold (usum us). destruct (f r); cbn; fold (usum (filter f us)); lia.
Qed.
Lemma heights_of_map h (us us' : list (Z * Z)) : map fst us' = map fst us -> Forall (fun r => fst r <= h) us -> Forall (fun r => fst r <= h) us'.
Proof.
  revert us'. induction us as [|r us IH]; intros [|r' us'] E H; try discriminate; [constructor|].
  cbn in E. injection E as E1 E2. inversion H; subst. constructor; [lia|apply IH; assumption].
Qed.
Lemma forall2_usum_le (us us' : list (Z * Z)) : Forall2 (fun r r' => snd r' <= snd r) us us' -> usum us' <= usum us.
Proof. induction 1 as [|r r' us us' Hr _ IH]; cbn; [lia|]. fold (usum us) (usum us'). lia. Qed.

(* with every request matured (or a cancel), the loop leaves units to find only after taking everything *)
Lemma use_loop_left_pos any h lock us : forall lft us' lft',
  Forall (fun r => any || (fst r + lock <=? h) = true) us ->
  use_loop any h lock us lft = (us', lft') -> 0 < lft' -> usum us' = 0.
Proof.
  induction us as [|[rh ru] rest IH]; intros lft us' lft' Hm H Hp; cbn [use_loop] in H.
  - injection H as <- <-. reflexivity.
  - inversion Hm as [|? ? Hr Hrest]; subst. cbn [fst] in Hr. rewrite Hr in H.
    destruct (ru <? lft).
    + destruct (use_loop any h lock rest (lft - ru)) as [rest' l'] eqn:E. injection H as <- <-.
      cbn. fold (usum rest'). rewrite (IH _ _ _ Hrest E Hp). reflexivity.
    + injection H as <- <-. lia.
Qed.

(* what is left of the requests after a consumption: never more than the requests minus the amount, floored at 0,
   when the lock period is non-zero or every request has matured *)
Lemma use_unlocked_remaining any h lock us units caller stored :
  nonneg_units us -> 0 <= units ->
  (lock = 0 -> Forall (fun r => any || (fst r + lock <=? h) = true) us) ->
  use_unlocked any h lock us units = Ok (caller, stored) ->
  usum caller <= Z.max 0 (usum us - units).
Proof.
  unfold use_unlocked. intros Hnn Hu Hall H.
  destruct (use_loop any h lock us units) as [us' lft'] eqn:Hl.
  pose proof (use_loop_spec any h lock us units us' lft' Hnn Hu Hl) as (_ & _ & Hle & Hs & _).
  destruct (negb (lock =? 0) && negb (lft' =? 0)) eqn:E; [discriminate|]. injection H as <- <-.
  destruct (Z.eqb_spec lft' 0) as [->|Hne]; [lia|].
  destruct (Z.eqb_spec lock 0) as [Hl0|Hl0]; [|cbn in E; discriminate].
  rewrite (use_loop_left_pos any h lock us units us' lft' (Hall Hl0) Hl) by lia. lia.
Qed.

Lemma use_unlocked_rec_ok any h lock us units caller stored :
  rec_ok h us -> 0 <= units -> use_unlocked any h lock us units = Ok (caller, stored) ->
  rec_ok h caller /\ rec_ok h stored /\ usum stored = usum caller /\ usum caller <= usum us.
Proof.
  intros [Hnn Hh] Hu H. pose proof (use_unlocked_spec any h lock us units caller stored Hnn Hu H) as (E1 & N1 & _ & _ & F2).
  unfold use_unlocked in H. destruct (use_loop any h lock us units) as [us' lft'] eqn:Hl.
  pose proof (use_loop_spec any h lock us units us' lft' Hnn Hu Hl) as (Hmap & _).
  destruct (negb (lock =? 0) && negb (lft' =? 0)); [discriminate|]. injection H as <- <-.
  assert (R : rec_ok h us') by (split; [exact N1|eapply heights_of_map; eassumption]).
  split; [exact R|]. split; [apply rec_ok_filter; exact R|]. split; [exact E1|].
  apply forall2_usum_le. clear - F2. induction F2 as [|r r' a b [Hle _] _ IH]; constructor; assumption.
Qed.

(* requests made at heights up to h have all matured when the lock period is 0 *)
Lemma matured_lock0 any h (us : list (Z * Z)) : Forall (fun r => fst r <= h) us -> Forall (fun r => any || (fst r + 0 <=? h) = true) us.
Proof. intros H. eapply Forall_impl; [|exact H]. intros r Hr. cbn beta in *. destruct (Z.leb_spec (fst r + 0) h); [apply orb_true_r|lia]. Qed.

(* ---------- the provider store ---------- *)
Lemma Forall_set {V} (P : Z * V -> Prop) k v (m : store V) : P (k, v) -> Forall P m -> Forall P (set k v m).
Proof.
  intros Hv. induction m as [|[k' v'] m IH]; intros H; cbn [set]; [constructor; [exact Hv|constructor]|].
  inversion H as [|? ? H1 H2]; subst. destruct (k' <? k); [constructor; [exact H1|apply IH; exact H2]|].
  destruct (k' =? k); [constructor; [exact Hv|exact H2]|constructor; [exact Hv|exact H]].
Qed.
Lemma Forall_del {V} (P : Z * V -> Prop) k (m : store V) : Forall P m -> Forall P (del k m).
Proof.
  induction m as [|[k' v'] m IH]; intros H; cbn [del]; [constructor|].
  inversion H as [|? ? H1 H2]; subst. destruct (k' <? k); [constructor; [exact H1|apply IH; exact H2]|].
  destruct (k' =? k); [exact H2|exact H].
Qed.
Lemma get_In {V} k (m : store V) v : get k m = Some v -> In (k, v) m.
Proof.
  induction m as [|[k' v'] m IH]; cbn [get]; [discriminate|]. destruct (k' <? k); [intros H; right; apply IH; exact H|].
  destruct (Z.eqb_spec k' k) as [->|]; [intros [= ->]; left; reflexivity|discriminate].
Qed.

Lemma lps_for_put_any s a addr l a' : lps_for (put_lp s a addr l) a' = if a' =? a then set addr l (lps_for s a) else lps_for s a'.
Proof.
  destruct (Z.eqb_spec a' a) as [->|Hne]; [apply lps_for_put|]. unfold lps_for, put_lp; cbn. rewrite get_set_other by exact Hne. reflexivity.
Qed.
Lemma lps_for_del_any s a addr a' : lps_for (del_lp s a addr) a' = if a' =? a then del addr (lps_for s a) else lps_for s a'.
Proof.
  destruct (Z.eqb_spec a' a) as [->|Hne]; [apply lps_for_del|]. unfold lps_for, del_lp; cbn. rewrite get_set_other by exact Hne. reflexivity.
Qed.

Lemma lp_ok_last h l x : lp_ok h l -> lp_ok h (l <| lp_last := x |>).
Proof. intros H. exact H. Qed.

Lemma QInvH_put h s a addr l : QInvH h s -> lp_ok h l -> QInvH h (put_lp s a addr l).
Proof.
  intros HI Hl a'. rewrite lps_for_put_any. destruct (a' =? a); [|apply HI]. apply Forall_set; [exact Hl|apply HI].
Qed.
Lemma QInvH_set_lp h s a addr l : QInvH h s -> lp_ok h l -> QInvH h (set_lp s a addr l).
Proof. intros HI Hl. unfold set_lp. apply QInvH_put; [exact HI|]. destruct (lp_last l =? 0); exact Hl. Qed.
Lemma QInvH_del_lp h s a addr : QInvH h s -> QInvH h (del_lp s a addr).
Proof. intros HI a'. rewrite lps_for_del_any. destruct (a' =? a); [|apply HI]. apply Forall_del. apply HI. Qed.
Lemma QInvH_same_lps h s s' : cs_lps s' = cs_lps s -> QInvH h s -> QInvH h s'.
Proof. intros E HI a. unfold lps_for. rewrite E. apply HI. Qed.
Lemma QInvH_find h s a addr l : QInvH h s -> find_lp s a addr = Some l -> lp_ok h l.
Proof. intros HI Hf. apply get_In in Hf. exact (proj1 (Forall_forall _ _) (HI a) _ Hf). Qed.

Lemma prune_lp_QInvH h s a addr l0 s1 l1 :
  QInvH h s -> find_lp s a addr = Some l0 -> prune_lp s a addr l0 = (s1, l1) ->
  QInvH h s1 /\ lp_ok h l1 /\ lp_units l1 = lp_units l0 /\ cs_height s1 = cs_height s /\ cs_params s1 = cs_params s /\ cs_pools s1 = cs_pools s.
Proof.
  intros HI Hf. pose proof (QInvH_find _ _ _ _ _ HI Hf) as [Hr Hs]. unfold prune_lp. destruct (Nat.eqb _ _).
  - intros [= <- <-]. split; [exact HI|]. split; [split; assumption|]. repeat split; reflexivity.
  - intros [= <- <-].
    assert (Hok : lp_ok h (l0 <| lp_unlocks := prune_unlocks (cs_height s) (cp_lock (cs_params s)) (cp_cancel (cs_params s)) (lp_unlocks l0) |>)).
    { split; [cbn; apply rec_ok_filter; exact Hr|]. eapply Z.le_trans; [|exact Hs]. cbn [lp_unlocks]. cbn. exact (usum_filter_le _ _ (proj1 Hr)). }
    split; [apply QInvH_put; [exact HI|]|split; [|split; [|split; [reflexivity|split; reflexivity]]]];
    match goal with |- context [if ?c then _ else _] => destruct c end; try exact Hok; reflexivity.
Qed.

(* ---------- pool units are never negative ---------- *)
Definition PInv (s : clp_state) : Prop := Forall (fun kv : Z * pool => 0 <= p_units (snd kv)) (cs_pools s).
Lemma PInv_find s a p : PInv s -> get a (cs_pools s) = Some p -> 0 <= p_units p.
Proof. intros HP Hg. apply get_In in Hg. exact (proj1 (Forall_forall _ _) HP _ Hg). Qed.
Lemma PInv_set_pool s a p : PInv s -> 0 <= p_units p -> PInv (set_pool s a p).
Proof. intros HP Hp. unfold PInv. rewrite pools_set_pool. apply Forall_set; [exact Hp|exact HP]. Qed.
Lemma PInv_same_pools s s' : cs_pools s' = cs_pools s -> PInv s -> PInv s'.
Proof. unfold PInv. intros ->. auto. Qed.

Lemma pool_units_symmetric_nonneg X x P pu lpu : 0 <= X -> 0 <= x -> 0 <= P -> pool_units_symmetric X x P = Ok (pu, lpu) -> 0 <= pu /\ 0 <= lpu.
Proof.
  unfold pool_units_symmetric. intros HX Hx HP H. destruct (Z.eqb_spec X 0); [discriminate|]. repeat inv1 H. use_uints. subst.
  assert (0 <= x * P / X) by (apply Z.div_pos; [apply Z.mul_nonneg_nonneg; assumption|lia]). lia.
Qed.
Lemma calculate_pool_units_nonneg P R A r a fs fb pm pu lpu st sw :
  0 <= P -> 0 <= R -> 0 <= A -> 0 <= r -> 0 <= a ->
  calculate_pool_units P R A r a fs fb pm = Ok (pu, lpu, st, sw) -> 0 <= pu /\ 0 <= lpu.
Proof.
  intros HP HR HA Hr Ha H. unfold calculate_pool_units in H. destruct (symmetry_state A a R r).
  - destruct ((a =? 0) || (r =? 0)); [discriminate|]. injection H as <- <- <- <-. lia.
  - injection H as <- <- <- <-. lia.
  - repeat inv1 H. use_uints. subst. match goal with Hs : pool_units_symmetric _ _ _ = Ok _ |- _ => apply pool_units_symmetric_nonneg in Hs; [exact Hs|lia..] end.
  - repeat inv1 H. subst. match goal with Hs : pool_units_symmetric _ _ _ = Ok _ |- _ => apply pool_units_symmetric_nonneg in Hs; [exact Hs|lia..] end.
  - repeat inv1 H. use_uints. subst. match goal with Hs : pool_units_symmetric _ _ _ = Ok _ |- _ => apply pool_units_symmetric_nonneg in Hs; [exact Hs|lia..] end.
Qed.

(* ---------- the messages ---------- *)
Lemma create_pool_QInvH h s sg a n e s' : QInvH h s -> create_pool s sg a n e = Ok s' -> QInvH h s'.
Proof.
  unfold create_pool. intros HI H. repeat inv1 H. subst s'. apply QInvH_set_lp; [apply (QInvH_same_lps h s); [reflexivity|exact HI]|].
  split; cbn -[usum]; [split; constructor|]. cbn in *. destruct ((e =? 0) || (n =? 0)); [discriminate|]. injection Hx3 as <- <- <- <-.
  use_requires. apply Z.leb_le in Hx. unfold POOL_THRESHOLD in Hx. lia.
Qed.

Lemma add_liquidity_QInvH h s sg a n e s' : 0 <= n -> 0 <= e -> PInv s -> QInvH h s -> add_liquidity s sg a n e = Ok s' -> QInvH h s' /\ PInv s'.
Proof.
  unfold add_liquidity. intros Hn He HP HI H. repeat inv1 H. use_get_pool.
  match goal with Hg : get a (cs_pools s) = Some ?p |- _ => pose proof (PInv_find _ _ _ HP Hg) as HPu end.
  use_uints. subst.
  match goal with Hc : calculate_pool_units _ _ _ _ _ _ _ _ = Ok _ |- _ => apply calculate_pool_units_nonneg in Hc; [destruct Hc as [Hpu Hlpu]|lia..] end.
  destruct (find_lp s a sg) as [l|] eqn:Hf; repeat inv1 H; subst s'.
  - split.
    + apply QInvH_set_lp; [apply (QInvH_same_lps h s); [reflexivity|exact HI]|].
      pose proof (QInvH_find _ _ _ _ _ HI Hf) as [Hr Hs]. split; [exact Hr|]. use_uints. subst. cbn -[usum]. lia.
    + unfold PInv. rewrite pools_set_lp, pools_set_pool, pools_with_bank. apply Forall_set; [cbn; exact Hpu|exact HP].
  - split.
    + apply QInvH_set_lp; [apply (QInvH_same_lps h s); [reflexivity|exact HI]|]. split; cbn -[usum]; [split; constructor|exact Hlpu].
    + unfold PInv. rewrite pools_set_lp, pools_set_pool, pools_with_bank. apply Forall_set; [cbn; exact Hpu|exact HP].
Qed.

Lemma keeper_remove_QInvH h s sg a pl we wn l lft ed nd s' :
  QInvH h s -> (lft <> 0 -> lp_ok h (l <| lp_units := lft |>)) -> keeper_remove s sg a pl we wn l lft ed nd = Ok s' -> QInvH h s'.
Proof.
  unfold keeper_remove. intros HI Hl H. repeat inv1 H; subst s'.
  - apply QInvH_del_lp. apply (QInvH_same_lps h s); [reflexivity|exact HI].
  - apply QInvH_set_lp; [apply (QInvH_same_lps h s); [reflexivity|exact HI]|].
    apply Z.eqb_neq in E. exact (Hl E).
Qed.

Lemma calculate_withdrawal_left_nonneg pu nd ed lpu w asym wn we lft sw :
  calculate_withdrawal pu nd ed lpu w asym = Ok (wn, we, lft, sw) -> 0 <= lft.
Proof.
  unfold calculate_withdrawal. intros H. repeat inv1 H. subst.
  match goal with Hc : to_uint _ = Ok lft |- _ => unfold to_uint in Hc; apply ck_uint_ok in Hc; lia end.
Qed.
Lemma calculate_withdrawal_from_units_left_nonneg pu nd ed lpu wu wn we lft :
  calculate_withdrawal_from_units pu nd ed lpu wu = Ok (wn, we, lft) -> 0 <= lft.
Proof.
  unfold calculate_withdrawal_from_units. intros H. repeat inv1 H. subst.
  match goal with Hc : to_uint _ = Ok lft |- _ => unfold to_uint in Hc; apply ck_uint_ok in Hc; lia end.
Qed.

(* the part shared by both removal messages: after pruning, [burned] units are taken out of the requests *)
Lemma removal_QInvH h s1 sg a pl we wn l lft ed nd burned caller stored s' :
  h = cs_height s1 -> QInvH h s1 -> lp_ok h l -> 0 <= lft -> burned = lp_units l - lft -> 0 <= burned ->
  use_unlocked false (cs_height s1) (cp_lock (cs_params s1)) (lp_unlocks l) burned = Ok (caller, stored) ->
  keeper_remove (set_lp s1 a sg (l <| lp_unlocks := stored |>)) sg a pl we wn (l <| lp_unlocks := caller |>) lft ed nd = Ok s' ->
  QInvH h s'.
Proof.
  intros Hh HI [Hr Hs] Hlft Hb Hb0 Hu Hk. subst h.
  pose proof (use_unlocked_rec_ok _ _ _ _ _ _ _ Hr Hb0 Hu) as (Rc & Rs & Es & Ele).
  eapply keeper_remove_QInvH; [| |exact Hk].
  - apply QInvH_set_lp; [exact HI|]. split; cbn -[usum]; [exact Rs|lia].
  - intros _. split; cbn -[usum]; [exact Rc|].
    pose proof (use_unlocked_remaining false (cs_height s1) (cp_lock (cs_params s1)) (lp_unlocks l) burned caller stored (proj1 Hr) Hb0) as Hrem.
    assert (Hall : cp_lock (cs_params s1) = 0 -> Forall (fun r => false || (fst r + cp_lock (cs_params s1) <=? cs_height s1) = true) (lp_unlocks l)).
    { intros ->. apply matured_lock0. exact (proj2 Hr). }
    specialize (Hrem Hall Hu). lia.
Qed.

Lemma remove_liquidity_QInvH s sg a w asym s' : QInv s -> remove_liquidity s sg a w asym = Ok s' -> QInvH (cs_height s) s'.
Proof.
  unfold remove_liquidity, QInv. intros HI H. repeat inv1 H. use_uints.
  match goal with Hg : get_lp s a sg = Ok ?l |- _ => apply opt_or_fail_ok in Hg; pose proof Hg as Hf end.
  match goal with Hp : prune_lp _ _ _ _ = _ |- _ => eapply prune_lp_QInvH in Hp; [|exact HI|exact Hf]; destruct Hp as (HI1 & Hok & Hun & Hh & Hps & Hpl) end.
  try match goal with Hc : calculate_withdrawal _ _ _ _ _ _ = Ok _ |- _ => pose proof (calculate_withdrawal_left_nonneg _ _ _ _ _ _ _ _ _ _ Hc) end.
  try match goal with Hc : calculate_withdrawal_from_units _ _ _ _ _ = Ok _ |- _ => pose proof (calculate_withdrawal_from_units_left_nonneg _ _ _ _ _ _ _ _ Hc) end.
  match goal with Hk : keeper_remove _ _ _ _ _ _ _ ?lft _ _ = Ok _, Hu : use_unlocked _ _ _ _ ?b = Ok _ |- _ =>
    eapply (removal_QInvH (cs_height s) _ sg a _ _ _ _ lft _ _ b); [symmetry; exact Hh|exact HI1|exact Hok| | | | |exact Hk] end;
    try (rewrite Hh, Hps; eassumption); try lia.
Qed.

Lemma remove_liquidity_units_QInvH s sg a u s' : QInv s -> remove_liquidity_units s sg a u = Ok s' -> QInvH (cs_height s) s'.
Proof.
  unfold remove_liquidity_units, QInv. intros HI H. repeat inv1 H. use_uints.
  match goal with Hg : get_lp s a sg = Ok ?l |- _ => apply opt_or_fail_ok in Hg; pose proof Hg as Hf end.
  match goal with Hp : prune_lp _ _ _ _ = _ |- _ => eapply prune_lp_QInvH in Hp; [|exact HI|exact Hf]; destruct Hp as (HI1 & Hok & Hun & Hh & Hps & Hpl) end.
  try match goal with Hc : calculate_withdrawal _ _ _ _ _ _ = Ok _ |- _ => pose proof (calculate_withdrawal_left_nonneg _ _ _ _ _ _ _ _ _ _ Hc) end.
  try match goal with Hc : calculate_withdrawal_from_units _ _ _ _ _ = Ok _ |- _ => pose proof (calculate_withdrawal_from_units_left_nonneg _ _ _ _ _ _ _ _ Hc) end.
  match goal with Hk : keeper_remove _ _ _ _ _ _ _ ?lft _ _ = Ok _, Hu : use_unlocked _ _ _ _ ?b = Ok _ |- _ =>
    eapply (removal_QInvH (cs_height s) _ sg a _ _ _ _ lft _ _ b); [symmetry; exact Hh|exact HI1|exact Hok| | | | |exact Hk] end;
    try (rewrite Hh, Hps; eassumption); try lia.
Qed.

Lemma unlock_QInvH s sg a u s' : 0 <= u -> QInv s -> unlock s sg a u = Ok s' -> QInvH (cs_height s) s'.
Proof.
  unfold unlock, QInv. intros Hu HI H. repeat inv1 H. use_requires. subst s'.
  match goal with Hg : get_lp s a sg = Ok ?l |- _ => apply opt_or_fail_ok in Hg; pose proof Hg as Hf end.
  match goal with Hp : prune_lp _ _ _ _ = _ |- _ => eapply prune_lp_QInvH in Hp; [|exact HI|exact Hf]; destruct Hp as (HI1 & [[Hn Hhs] Hs] & Hun & Hh & Hps & Hpl) end.
  apply QInvH_set_lp; [exact HI1|]. split; cbn.
  - split; [apply Forall_app; split; [exact Hn|constructor; [cbn; lia|constructor]]|apply Forall_app; split; [exact Hhs|constructor; [cbn; lia|constructor]]].
  - rewrite usum_app. cbn. match goal with Hq : (_ <=? _) = true |- _ => apply Z.leb_le in Hq; rewrite fold_sum_usum in Hq end. lia.
Qed.

Lemma cancel_unlock_QInvH s sg a u s' : 0 <= u -> QInv s -> cancel_unlock s sg a u = Ok s' -> QInvH (cs_height s) s'.
Proof.
  unfold cancel_unlock, QInv. intros Hu HI H. repeat inv1 H. subst s'.
  match goal with Hg : get_lp s a sg = Ok ?l |- _ => apply opt_or_fail_ok in Hg; pose proof Hg as Hf end.
  match goal with Hp : prune_lp _ _ _ _ = _ |- _ => eapply prune_lp_QInvH in Hp; [|exact HI|exact Hf]; destruct Hp as (HI1 & [Hr Hs] & Hun & Hh & Hps & Hpl) end.
  match goal with Hq : use_unlocked true _ _ _ _ = Ok _ |- _ => pose proof (use_unlocked_rec_ok _ _ _ _ _ _ _ Hr Hu Hq) as (Rc & Rs & Es & Ele) end.
  apply QInvH_set_lp; [exact HI1|]. split; cbn -[usum]; [exact Rs|lia].
Qed.

Lemma refund_all_QInvH h ls : forall s a pl nd ed pu nb eb s', QInvH h s -> refund_all s a pl nd ed ls pu nb eb = Ok s' -> QInvH h s'.
Proof.
  induction ls as [|[k l] rest IH]; intros s a pl nd ed pu nb eb s' HI H; cbn [refund_all] in H; [injection H as <-; exact HI|].
  repeat inv1 H.
  match goal with Hr : refund_all _ _ _ _ _ _ _ _ _ = Ok _ |- _ => eapply IH; [|exact Hr] end.
  apply QInvH_del_lp. apply (QInvH_same_lps h s); [reflexivity|exact HI].
Qed.
Lemma decommission_QInvH h s sg a s' : QInvH h s -> decommission s sg a = Ok s' -> QInvH h s'.
Proof.
  unfold decommission. intros HI H. repeat inv1 H. subst s'.
  match goal with Hr : refund_all _ _ _ _ _ _ _ _ _ = Ok ?s1 |- _ => apply (refund_all_QInvH h) in Hr; [|exact HI];
    apply (QInvH_same_lps h s1); [reflexivity|exact Hr] end.
Qed.

(* ---------- pool units stay non-negative ---------- *)
Lemma PInv_set_lp s a addr l : PInv s -> PInv (set_lp s a addr l).
Proof. intros H. exact H. Qed.
Lemma create_pool_PInv s sg a n e s' : PInv s -> create_pool s sg a n e = Ok s' -> PInv s'.
Proof.
  unfold create_pool. intros HP H. repeat inv1 H. subst s'. cbn in Hx3. destruct ((e =? 0) || (n =? 0)); [discriminate|]. injection Hx3 as <- <- <- <-.
  use_requires. apply Z.leb_le in Hx. unfold POOL_THRESHOLD in Hx.
  unfold PInv. rewrite pools_set_lp, pools_set_pool, pools_with_bank. apply Forall_set; [cbn; lia|exact HP].
Qed.
Lemma keeper_remove_PInv s sg a pl we wn l lft ed nd s' : PInv s -> 0 <= p_units pl -> keeper_remove s sg a pl we wn l lft ed nd = Ok s' -> PInv s'.
Proof.
  unfold keeper_remove. intros HP Hpl H. repeat inv1 H; subst s'; unfold PInv;
  rewrite ?pools_del_lp, ?pools_set_lp, ?pools_with_bank, ?pools_set_pool; apply Forall_set; assumption.
Qed.
Lemma remove_liquidity_PInv s sg a w asym s' : PInv s -> remove_liquidity s sg a w asym = Ok s' -> PInv s'.
Proof.
  unfold remove_liquidity. intros HP H. repeat inv1 H. use_uints.
  match goal with Hp : prune_lp _ _ _ _ = (?c, _) |- _ => assert (Hpl : cs_pools c = cs_pools s) by (unfold prune_lp in Hp; destruct (Nat.eqb _ _); injection Hp as <- <-; reflexivity) end.
  match goal with Hk : keeper_remove _ _ _ _ _ _ _ _ _ _ = Ok _ |- _ => eapply keeper_remove_PInv in Hk; [exact Hk| |cbn; lia] end.
  unfold PInv. rewrite pools_set_lp, Hpl. exact HP.
Qed.
Lemma remove_liquidity_units_PInv s sg a u s' : PInv s -> remove_liquidity_units s sg a u = Ok s' -> PInv s'.
Proof.
  unfold remove_liquidity_units. intros HP H. repeat inv1 H. use_uints.
  match goal with Hp : prune_lp _ _ _ _ = (?c, _) |- _ => assert (Hpl : cs_pools c = cs_pools s) by (unfold prune_lp in Hp; destruct (Nat.eqb _ _); injection Hp as <- <-; reflexivity) end.
  match goal with Hk : keeper_remove _ _ _ _ _ _ _ _ _ _ = Ok _ |- _ => eapply keeper_remove_PInv in Hk; [exact Hk| |cbn; lia] end.
  unfold PInv. rewrite pools_set_lp, Hpl. exact HP.
Qed.
Lemma swap_PInv s sg sent recv amt mn s' emit : PInv s -> swap s sg sent recv amt mn = Ok (s', emit) -> PInv s'.
Proof.
  unfold swap. intros HP H. repeat inv1 H. subst s'. use_get_pool.
  unfold PInv. rewrite pools_with_bank, pools_set_pool.
  destruct (negb (sent =? ROWAN) && negb (recv =? ROWAN)).
  - repeat inv1 Hx6. subst. use_get_pool. rewrite pools_set_pool, pools_with_bank in *.
    apply Forall_set.
    + cbn [snd]. change (p_units (upd_balances ?p ?sp)) with (p_units p).
      match goal with Hg : get ?k (set sent ?p0 (cs_pools s)) = Some ?p |- _ =>
        destruct (Z.eq_dec k sent) as [Ek|Ek]; [rewrite Ek, get_set_same in Hg; injection Hg as <-|rewrite get_set_other in Hg by exact Ek] end.
      * change (p_units (upd_balances ?p ?sp)) with (p_units p). eapply PInv_find; eassumption.
      * eapply PInv_find; eassumption.
    + apply Forall_set; [|exact HP]. cbn [snd]. change (p_units (upd_balances ?p ?sp)) with (p_units p). eapply PInv_find; eassumption.
  - injection Hx6 as <- <-. rewrite pools_with_bank in *. apply Forall_set; [|exact HP].
    cbn [snd]. change (p_units (upd_balances ?p ?sp)) with (p_units p). eapply PInv_find; eassumption.
Qed.
Lemma refund_all_pools ls : forall s a pl nd ed pu nb eb s', refund_all s a pl nd ed ls pu nb eb = Ok s' -> cs_pools s' = cs_pools s.
Proof.
  induction ls as [|[k l] rest IH]; intros s a pl nd ed pu nb eb s' H; cbn [refund_all] in H; [injection H as <-; reflexivity|].
  repeat inv1 H. match goal with Hr : refund_all _ _ _ _ _ _ _ _ _ = Ok _ |- _ => apply IH in Hr; rewrite Hr; reflexivity end.
Qed.
Lemma decommission_PInv s sg a s' : PInv s -> decommission s sg a = Ok s' -> PInv s'.
Proof.
  unfold decommission. intros HP H. repeat inv1 H. subst s'.
  match goal with Hr : refund_all _ _ _ _ _ _ _ _ _ = Ok _ |- _ => apply refund_all_pools in Hr end.
  unfold PInv. cbn. rewrite Hx4. apply Forall_del. exact HP.
Qed.

(* the amounts of a message are unsigned integers in the code *)
Definition msg_unsigned (m : clp_msg) : Prop :=
  match m with
  | MAddLiquidity _ _ n e => 0 <= n /\ 0 <= e
  | MUnlock _ _ u | MCancelUnlock _ _ u => 0 <= u
  | _ => True
  end.
Definition CInv (s : clp_state) : Prop := QInv s /\ PInv s.

Lemma handle_height_unused : True.
Proof. trivial. Qed.

Lemma handle_CInvH s m s' : CInv s -> msg_unsigned m -> handle s m = Ok s' -> QInvH (cs_height s) s' /\ PInv s'.
Proof.
  intros [HI HP] Hm H. destruct m; cbn [handle] in H.
  - split; [eapply create_pool_QInvH; eassumption|eapply create_pool_PInv; eassumption].
  - destruct Hm as [Hn He]. exact (add_liquidity_QInvH _ _ _ _ _ _ _ Hn He HP HI H).
  - split; [eapply remove_liquidity_QInvH; eassumption|eapply remove_liquidity_PInv; eassumption].
  - split; [eapply remove_liquidity_units_QInvH; eassumption|eapply remove_liquidity_units_PInv; eassumption].
  - repeat inv1 H. subst. split; [|eapply swap_PInv; eassumption]. unfold swap in *. repeat inv1 Hx. subst.
    apply (QInvH_same_lps _ s); [|exact HI].
    match goal with Hq : (if negb (sent =? ROWAN) && negb (recv =? ROWAN) then _ else _) = Ok _ |- _ =>
      destruct (negb (sent =? ROWAN) && negb (recv =? ROWAN)); [repeat inv1 Hq|injection Hq as <- <-]; subst; reflexivity end.
  - split; [eapply unlock_QInvH; eassumption|].
    unfold unlock in H. repeat inv1 H. subst s'.
    match goal with Hp : prune_lp _ _ _ _ = (?c, _) |- _ => assert (Hpl : cs_pools c = cs_pools s) by (unfold prune_lp in Hp; destruct (Nat.eqb _ _); injection Hp as <- <-; reflexivity) end.
    unfold PInv. rewrite pools_set_lp, Hpl. exact HP.
  - split; [eapply cancel_unlock_QInvH; eassumption|].
    unfold cancel_unlock in H. repeat inv1 H. subst s'.
    match goal with Hp : prune_lp _ _ _ _ = (?c, _) |- _ => assert (Hpl : cs_pools c = cs_pools s) by (unfold prune_lp in Hp; destruct (Nat.eqb _ _); injection Hp as <- <-; reflexivity) end.
    unfold PInv. rewrite pools_set_lp, Hpl. exact HP.
  - split; [eapply decommission_QInvH; eassumption|eapply decommission_PInv; eassumption].
  - unfold add_to_bucket in H. repeat inv1 H. subst s'. split; [apply (QInvH_same_lps _ s); [reflexivity|exact HI]|exact HP].
Qed.

(* ---------- no message changes the height ---------- *)
Lemma prune_lp_height s a addr l s1 l1 : prune_lp s a addr l = (s1, l1) -> cs_height s1 = cs_height s.
Proof. unfold prune_lp. destruct (Nat.eqb _ _); intros [= <- <-]; reflexivity. Qed.
Lemma keeper_remove_height s sg a pl we wn l lft ed nd s' : keeper_remove s sg a pl we wn l lft ed nd = Ok s' -> cs_height s' = cs_height s.
Proof. unfold keeper_remove. intros H. repeat inv1 H; subst s'; reflexivity. Qed.
Lemma refund_all_height ls : forall s a pl nd ed pu nb eb s', refund_all s a pl nd ed ls pu nb eb = Ok s' -> cs_height s' = cs_height s.
Proof.
  induction ls as [|[k l] rest IH]; intros s a pl nd ed pu nb eb s' H; cbn [refund_all] in H; [injection H as <-; reflexivity|].
  repeat inv1 H. match goal with Hr : refund_all _ _ _ _ _ _ _ _ _ = Ok _ |- _ => apply IH in Hr; rewrite Hr; reflexivity end.
Qed.
Lemma handle_height s m s' : handle s m = Ok s' -> cs_height s' = cs_height s.
Proof.
  intros H. destruct m; cbn [handle] in H.
  - unfold create_pool in H. repeat inv1 H. subst s'. reflexivity.
  - unfold add_liquidity in H. repeat inv1 H. destruct (find_lp s asset signer); repeat inv1 H; subst s'; reflexivity.
  - unfold remove_liquidity in H. repeat inv1 H.
    match goal with Hp : prune_lp _ _ _ _ = _ |- _ => apply prune_lp_height in Hp end.
    match goal with Hk : keeper_remove _ _ _ _ _ _ _ _ _ _ = Ok _ |- _ => apply keeper_remove_height in Hk; rewrite Hk end. cbn. assumption.
  - unfold remove_liquidity_units in H. repeat inv1 H.
    match goal with Hp : prune_lp _ _ _ _ = _ |- _ => apply prune_lp_height in Hp end.
    match goal with Hk : keeper_remove _ _ _ _ _ _ _ _ _ _ = Ok _ |- _ => apply keeper_remove_height in Hk; rewrite Hk end. cbn. assumption.
  - repeat inv1 H. subst. unfold swap in *. repeat inv1 Hx. subst.
    match goal with Hq : (if negb (sent =? ROWAN) && negb (recv =? ROWAN) then _ else _) = Ok _ |- _ =>
      destruct (negb (sent =? ROWAN) && negb (recv =? ROWAN)); [repeat inv1 Hq|injection Hq as <- <-]; subst; reflexivity end.
  - unfold unlock in H. repeat inv1 H. subst s'. match goal with Hp : prune_lp _ _ _ _ = _ |- _ => apply prune_lp_height in Hp end. cbn. assumption.
  - unfold cancel_unlock in H. repeat inv1 H. subst s'. match goal with Hp : prune_lp _ _ _ _ = _ |- _ => apply prune_lp_height in Hp end. cbn. assumption.
  - unfold decommission in H. repeat inv1 H. subst s'. match goal with Hr : refund_all _ _ _ _ _ _ _ _ _ = Ok _ |- _ => apply refund_all_height in Hr end. cbn. assumption.
  - unfold add_to_bucket in H. repeat inv1 H. subst s'. reflexivity.
Qed.

Lemma deliver_CInv s fee m : CInv s -> msg_unsigned m -> CInv (fst (deliver s fee m)).
Proof.
  intros [HI HP] Hm. unfold deliver.
  set (s0 := with_bank s (credit (cs_bank s) (signer_of m) ROWAN (- fee))).
  assert (H0 : CInv s0) by (split; [exact HI|exact HP]).
  destruct (handle s0 m) as [s'| |] eqn:E; cbn [fst]; try exact H0.
  pose proof (handle_height _ _ _ E) as Hh. destruct (handle_CInvH _ _ _ H0 Hm E) as [A B].
  split; [unfold QInv; rewrite Hh; exact A|exact B].
Qed.

(* ---------- histories: transactions, blocks, administrator changes of the periods, growth of a provider's units ---------- *)
Inductive hist_step :=
| HTx (fee : Z) (m : clp_msg)            (* a delivered transaction (fee kept, writes kept only on success) *)
| HNextBlock                             (* the height advances *)
| HSetParams (ps : clp_params)           (* any change of parameters, the lock and cancel periods among them *)
| HGrow (a addr du : Z).                 (* a provider's units grow (re-invested rewards) *)
Definition grow (s : clp_state) (a addr du : Z) : clp_state :=
  match find_lp s a addr with
  | Some l => put_lp s a addr (l <| lp_units := lp_units l + du |>)
  | None => s
  end.
Definition hstep (s : clp_state) (st : hist_step) : clp_state :=
  match st with
  | HTx fee m => fst (deliver s fee m)
  | HNextBlock => s <| cs_height := cs_height s + 1 |>
  | HSetParams ps => s <| cs_params := ps |>
  | HGrow a addr du => grow s a addr du
  end.
Definition step_ok (st : hist_step) : Prop :=
  match st with HTx _ m => msg_unsigned m | HGrow _ _ du => 0 <= du | _ => True end.

Lemma QInvH_mono h h' s : h <= h' -> QInvH h s -> QInvH h' s.
Proof.
  intros Hle HI a. eapply Forall_impl; [|apply HI]. intros kv [[Hn Hh] Hs]. split; [split; [exact Hn|]|exact Hs].
  eapply Forall_impl; [|exact Hh]. intros r Hr. cbn beta in *. lia.
Qed.

Lemma hstep_CInv s st : CInv s -> step_ok st -> CInv (hstep s st).
Proof.
  intros [HI HP] Hok. destruct st; cbn [hstep step_ok] in *.
  - apply deliver_CInv; [split; assumption|exact Hok].
  - split; [|exact HP]. unfold QInv. cbn. apply (QInvH_mono (cs_height s)); [lia|]. intros a. apply HI.
  - split; [|exact HP]. intros a. apply HI.
  - unfold grow. destruct (find_lp s a addr) as [l|] eqn:Hf; [|split; assumption].
    split; [|exact HP]. unfold QInv. apply QInvH_put; [exact HI|].
    destruct (QInvH_find _ _ _ _ _ HI Hf) as [Hr Hs]. split; [exact Hr|]. cbn -[usum]. lia.
Qed.

Theorem history_CInv : forall steps s, CInv s -> Forall step_ok steps -> CInv (fold_left hstep steps s).
Proof.
  induction steps as [|st rest IH]; intros s HI Hok; cbn [fold_left]; [exact HI|].
  inversion Hok; subst. apply IH; [apply hstep_CInv; assumption|assumption].
Qed.

(* what the invariant says about one provider *)
Corollary history_outstanding_le_units steps s a addr l :
  CInv s -> Forall step_ok steps -> find_lp (fold_left hstep steps s) a addr = Some l ->
  0 <= usum (lp_unlocks l) <= lp_units l /\ nonneg_units (lp_unlocks l).
Proof.
  intros HI Hok Hf. destruct (history_CInv steps s HI Hok) as [HQ _].
  destruct (QInvH_find _ _ _ _ _ HQ Hf) as [[Hn _] Hs]. pose proof (usum_nonneg _ Hn). split; [lia|exact Hn].
Qed.

(* the empty chain satisfies the invariant *)
Lemma CInv_initial s : cs_lps s = [] -> cs_pools s = [] -> CInv s.
Proof. intros Hl Hp. split; [intros a; unfold lps_for; rewrite Hl; constructor|unfold PInv; rewrite Hp; constructor]. Qed.
