From Coq Require Import ZArith Lia Bool List.
From RecordUpdate Require Import RecordUpdate.
From Sif Require Import Base.Outcome Base.SdkMath Base.Store Base.Bank
  Model.ClpCalc Model.ClpTypes Model.ClpState Model.ClpMsgs Proofs.ClpInv Proofs.ClpUnits.
Import ListNotations.
Local Open Scope Z_scope.

Definition usum (us : list (Z * Z)) : Z := fold_right (fun r acc => snd r + acc) 0 us.
Definition matured (h lock : Z) (r : Z * Z) : bool := fst r + lock <=? h.
Definition nonneg_units (us : list (Z * Z)) : Prop := Forall (fun r => 0 <= snd r) us.

(* the consumption loop: records keep their request heights and order; only matured records (or all,
   for a cancel) lose units; what they lose in total is exactly what was asked for minus what is left *)
Lemma use_loop_spec any h lock us : forall left us' left',
  nonneg_units us -> 0 <= left ->
  use_loop any h lock us left = (us', left') ->
  map fst us' = map fst us /\
  nonneg_units us' /\ 0 <= left' <= left /\
  usum us - usum us' = left - left' /\
  Forall2 (fun r r' => snd r' <= snd r /\ (snd r' < snd r -> any || matured h lock r = true)) us us'.
Proof.
  induction us as [|[rh ru] rest IH]; intros left us' left' Hnn Hl H; cbn [use_loop] in H.
  - injection H as <- <-. cbn. repeat split; try constructor; lia.
  - inversion Hnn as [|? ? Hru Hrest]; subst. cbn [snd] in Hru.
    destruct (any || (rh + lock <=? h)) eqn:Em.
    + destruct (Z.ltb_spec ru left).
      * destruct (use_loop any h lock rest (left - ru)) as [rest' l'] eqn:Hr. injection H as <- <-.
        apply IH in Hr; [|assumption|lia]. destruct Hr as (Hf & Hn' & Hl' & Hs & Hall).
        cbn [map fst usum fold_right snd]. fold (usum rest) (usum rest').
        repeat split; try lia; [f_equal; assumption|constructor; [cbn; lia|assumption]|].
        constructor; [cbn [snd]; split; [lia|intros _; unfold matured; cbn [fst]; exact Em]|assumption].
      * injection H as <- <-. cbn [map fst usum fold_right snd]. fold (usum rest).
        repeat split; try lia; [constructor; [cbn; lia|assumption]|].
        constructor; [cbn [snd]; split; [lia|intros _; unfold matured; cbn [fst]; exact Em]|].
        clear. induction rest; constructor; [split; [lia|intros; lia]|assumption].
    + destruct (use_loop any h lock rest left) as [rest' l'] eqn:Hr. injection H as <- <-.
      apply IH in Hr; [|assumption|assumption]. destruct Hr as (Hf & Hn' & Hl' & Hs & Hall).
      cbn [map fst usum fold_right snd]. fold (usum rest) (usum rest').
      repeat split; try lia; [f_equal; assumption|constructor; [cbn; lia|assumption]|].
      constructor; [cbn [snd]; split; [lia|intros; lia]|assumption].
Qed.

Lemma usum_filter_nonzero us : usum (filter (fun r => negb (snd r =? 0)) us) = usum us.
Proof.
  induction us as [|[rh ru] rest IH]; cbn; [reflexivity|]. fold (usum rest).
  destruct (Z.eqb_spec ru 0); cbn; fold (usum (filter (fun r => negb (snd r =? 0)) rest)); lia.
Qed.

(* UseUnlockedLiquidity with a lock period: success means matured requests covered the whole amount,
   and exactly that amount was taken out of them *)
Lemma use_unlocked_spec any h lock us units caller stored :
  nonneg_units us -> 0 <= units ->
  use_unlocked any h lock us units = Ok (caller, stored) ->
  usum stored = usum caller /\ nonneg_units caller /\
  usum us - usum caller <= units /\
  (lock <> 0 -> usum us - usum caller = units) /\
  Forall2 (fun r r' => snd r' <= snd r /\ (snd r' < snd r -> any || matured h lock r = true)) us caller.
Proof.
  unfold use_unlocked. intros Hnn Hu H.
  destruct (use_loop any h lock us units) as [us' left] eqn:Hl.
  apply use_loop_spec in Hl; [|assumption|assumption]. destruct Hl as (_ & Hn' & Hle & Hs & Hall).
  destruct (negb (lock =? 0) && negb (left =? 0)) eqn:E; [discriminate|]. injection H as <- <-.
  split; [apply usum_filter_nonzero|]. split; [assumption|]. split; [lia|]. split; [|assumption].
  intros Hlk. apply Z.eqb_neq in Hlk. rewrite Hlk in E. cbn in E. apply negb_false_iff, Z.eqb_eq in E. lia.
Qed.

(* with L = 0 no request is needed *)
Lemma use_unlocked_L0 any h us units : exists c st, use_unlocked any h 0 us units = Ok (c, st).
Proof. unfold use_unlocked. destruct (use_loop any h 0 us units). cbn. eauto. Qed.

(* pruning removes exactly the expired and the empty records *)
Lemma prune_unlocks_spec h lock cancel us r :
  In r (prune_unlocks h lock cancel us) <-> In r us /\ h < fst r + lock + cancel /\ snd r <> 0.
Proof.
  unfold prune_unlocks. rewrite filter_In. split; intros (H1 & H2).
  - apply andb_prop in H2. destruct H2 as (Ha & Hb). apply negb_true_iff in Ha, Hb.
    apply Z.leb_gt in Ha. apply Z.eqb_neq in Hb. auto.
  - destruct H2 as (Ha & Hb). split; [assumption|]. apply andb_true_intro. split; apply negb_true_iff.
    + apply Z.leb_gt. lia. + apply Z.eqb_neq. assumption.
Qed.

Lemma usum_prune_le h lock cancel us : nonneg_units us -> usum (prune_unlocks h lock cancel us) <= usum us.
Proof.
  unfold prune_unlocks. induction 1 as [|[rh ru] rest Hr Hrest IH]; cbn; [lia|]. fold (usum rest).
  destruct (_ && _); cbn; fold (usum (filter (fun r => negb (fst r + lock + cancel <=? h) && negb (snd r =? 0)) rest)); cbn in Hr; lia.
Qed.

Lemma filter_len_le {A} (f : A -> bool) l : (length (filter f l) <= length l)%nat.
Proof. induction l as [|x l IH]; cbn; [lia|]. destruct (f x); cbn; lia. Qed.

Lemma filter_length_eq {A} (f : A -> bool) l : length (filter f l) = length l -> filter f l = l.
Proof.
  induction l as [|x l IH]; cbn; [reflexivity|]. destruct (f x); cbn; intros H.
  - f_equal. apply IH. lia.
  - pose proof (filter_len_le f l). lia.
Qed.

Lemma prune_lp_unlocks s a addr l s' l' :
  prune_lp s a addr l = (s', l') ->
  lp_unlocks l' = prune_unlocks (cs_height s) (cp_lock (cs_params s)) (cp_cancel (cs_params s)) (lp_unlocks l) /\
  lp_units l' = lp_units l.
Proof.
  unfold prune_lp. destruct (Nat.eqb _ _) eqn:E.
  - intros [= <- <-]. apply Nat.eqb_eq in E. unfold prune_unlocks in *. rewrite (filter_length_eq _ _ E). auto.
  - intros [= <- <-]. destruct (lp_last _ =? 0); cbn; auto.
Qed.

(* a removal succeeds only if UseUnlockedLiquidity succeeds, on the provider's pruned request list,
   for exactly the number of units the removal burns *)
Lemma remove_units_requires s sg a u s' :
  remove_liquidity_units s sg a u = Ok s' ->
  exists l0 lft caller stored,
    find_lp s a sg = Some l0 /\ 0 <= lp_units l0 - lft /\
    use_unlocked false (cs_height s) (cp_lock (cs_params s))
      (prune_unlocks (cs_height s) (cp_lock (cs_params s)) (cp_cancel (cs_params s)) (lp_unlocks l0))
      (lp_units l0 - lft) = Ok (caller, stored) /\
    (lft <> 0 -> exists l', find_lp s' a sg = Some l' /\ lp_units l' = lft /\ lp_unlocks l' = caller).
Proof.
  unfold remove_liquidity_units. intros H. repeat inv1 H. use_requires. use_uints. subst.
  match goal with Hg : get_lp s a sg = Ok ?l |- _ => apply opt_or_fail_ok in Hg; pose proof Hg as Hf end.
  match goal with Hp : prune_lp _ _ _ _ = _ |- _ => pose proof (prune_lp_unlocks _ _ _ _ _ _ Hp) as (Hul & Hun) end.
  match goal with Hu : use_unlocked _ _ _ _ ?b = Ok (?c, ?st), Hc : calculate_withdrawal_from_units _ _ _ _ _ = Ok (_, _, ?lft) |- _ =>
    exists x2, lft, c, st end.
  split; [exact Hf|]. rewrite <- Hun, <- Hul. split; [assumption|]. split; [assumption|].
  intros Hl. match goal with Hk : keeper_remove _ _ _ _ _ _ _ _ _ _ = Ok _ |- _ => unfold keeper_remove in Hk; repeat inv1 Hk end.
  - apply Z.eqb_eq in E. contradiction.
  - subst s'. match goal with |- context [set_lp ?s0 a sg ?l] => destruct (find_set_lp_same s0 a sg l) as (l' & Hf' & Hu' & Hul') end.
    exists l'. split; [exact Hf'|]. split; [exact Hu'|exact Hul'].
Qed.

(* a removal succeeds only if UseUnlockedLiquidity succeeds, on the provider's pruned request list,
   for exactly the number of units the removal burns *)
Lemma remove_requires s sg a w asym s' :
  remove_liquidity s sg a w asym = Ok s' ->
  exists l0 lft caller stored,
    find_lp s a sg = Some l0 /\ 0 <= lp_units l0 - lft /\
    use_unlocked false (cs_height s) (cp_lock (cs_params s))
      (prune_unlocks (cs_height s) (cp_lock (cs_params s)) (cp_cancel (cs_params s)) (lp_unlocks l0))
      (lp_units l0 - lft) = Ok (caller, stored) /\
    (lft <> 0 -> exists l', find_lp s' a sg = Some l' /\ lp_units l' = lft /\ lp_unlocks l' = caller).
Proof.
  unfold remove_liquidity. intros H. repeat inv1 H. use_requires. use_uints. subst.
  match goal with Hg : get_lp s a sg = Ok ?l |- _ => apply opt_or_fail_ok in Hg; pose proof Hg as Hf end.
  match goal with Hp : prune_lp _ _ _ _ = _ |- _ => pose proof (prune_lp_unlocks _ _ _ _ _ _ Hp) as (Hul & Hun) end.
  match goal with Hu : use_unlocked _ _ _ _ ?b = Ok (?c, ?st), Hc : calculate_withdrawal _ _ _ _ _ _ = Ok (_, _, ?lft, _) |- _ =>
    exists x2, lft, c, st end.
  split; [exact Hf|]. rewrite <- Hun, <- Hul. split; [assumption|]. split; [assumption|].
  intros Hl. match goal with Hk : keeper_remove _ _ _ _ _ _ _ _ _ _ = Ok _ |- _ => unfold keeper_remove in Hk; repeat inv1 Hk end.
  - apply Z.eqb_eq in E. contradiction.
  - subst s'. match goal with |- context [set_lp ?s0 a sg ?l] => destruct (find_set_lp_same s0 a sg l) as (l' & Hf' & Hu' & Hul') end.
    exists l'. split; [exact Hf'|]. split; [exact Hu'|exact Hul'].
Qed.

(* an unlock request is accepted only within the provider's units, and is recorded at the current height *)
Lemma unlock_spec s sg a u s' :
  unlock s sg a u = Ok s' ->
  exists l0 l', find_lp s a sg = Some l0 /\ find_lp s' a sg = Some l' /\
    let us0 := prune_unlocks (cs_height s) (cp_lock (cs_params s)) (cp_cancel (cs_params s)) (lp_unlocks l0) in
    fold_left (fun acc r => acc + snd r) us0 0 + u <= lp_units l0 /\
    lp_unlocks l' = us0 ++ [(cs_height s, u)] /\ lp_units l' = lp_units l0.
Proof.
  unfold unlock. intros H. repeat inv1 H. use_requires. subst.
  match goal with Hg : get_lp s a sg = Ok ?l |- _ => apply opt_or_fail_ok in Hg; pose proof Hg as Hf end.
  match goal with Hp : prune_lp _ _ _ _ = _ |- _ => pose proof (prune_lp_unlocks _ _ _ _ _ _ Hp) as (Hul & Hun);
    apply prune_lp_frame in Hp; destruct Hp as (_ & _ & _ & Hh & _) end.
  match goal with |- context [set_lp ?s0 a sg ?l] => destruct (find_set_lp_same s0 a sg l) as (l' & Hf' & Hu' & Hul') end.
  exists x, l'. split; [exact Hf|]. split; [exact Hf'|]. cbn zeta. rewrite <- Hul, <- Hun.
  split; [apply Z.leb_le; assumption|]. split; [rewrite Hul'; reflexivity|rewrite Hu'; reflexivity].
Qed.
