(* C01 — AMM solvency.  gap s d = (coins of denom d held by the clp module account)
                                 - (sum over pools of balance + custody in d) - (rewards bucket of d). *)
From Coq Require Import ZArith List Bool.
From Sif Require Import Base.Outcome Base.Store Base.Bank Model.ClpTypes Model.ClpState Model.ClpMsgs Proofs.ClpInv.
Import ListNotations.
Local Open Scope Z_scope.

(* every user message other than a decommission, from any state, with any amounts: if it succeeds the
   recorded amounts and the coins held move by exactly the same quantities, for every denom *)
Theorem C01_message_exact : forall s m s',
  signer_of m <> CLP_MODULE -> is_decommission m = false ->
  handle s m = Ok s' -> forall d, gap s' d = gap s d.
Proof. exact handle_gap. Qed.
Print Assumptions C01_message_exact.

(* a delivered transaction (fee, then message, message writes discarded on failure) *)
Theorem C01_transaction : forall s fee m,
  signer_of m <> CLP_MODULE -> wf (cs_pools s) -> custody_nonneg s ->
  forall d, gap s d <= gap (fst (deliver s fee m)) d /\
            (is_decommission m = false -> gap (fst (deliver s fee m)) d = gap s d).
Proof. exact deliver_gap. Qed.
Print Assumptions C01_transaction.

(* decommissioning a pool can only leave coins behind (the rounding remainder), never a shortfall,
   and touches only the pool's two denoms *)
Theorem C01_decommission : forall s sg a s',
  wf (cs_pools s) -> custody_nonneg s -> decommission s sg a = Ok s' ->
  forall d, gap s d <= gap s' d /\ (d <> ROWAN -> d <> a -> gap s' d = gap s d).
Proof. exact decommission_gap. Qed.
Print Assumptions C01_decommission.

(* histories of any length: the module covers the recorded amounts after every transaction, and
   balance - recorded is constant along histories without decommission.
   PARTIAL: (i) the side condition good_run (sorted pool store, non-negative recorded amounts in every
   visited state) is a hypothesis, not yet proved preserved; (ii) block hooks (LPPD, depth rewards,
   epoch payouts, margin) are covered by the per-transition correspondence and monitor, not by this theorem. *)
Theorem C01_history_partial : forall txs s,
  good_run s txs ->
  forall d, gap s d <= gap (run_txs s txs) d /\
            (forallb (fun t => negb (is_decommission (snd t))) txs = true -> gap (run_txs s txs) d = gap s d).
Proof. exact run_txs_gap. Qed.
Print Assumptions C01_history_partial.

Theorem C01_solvency_partial : forall txs s, good_run s txs -> solvent s -> solvent (run_txs s txs).
Proof. exact run_txs_solvent. Qed.
Print Assumptions C01_solvency_partial.

(* the same over histories with a premise on the first state only: a pool store in key order with non-negative balances
   and custody is kept in that shape by every delivered transaction (Proofs/ClpGood.v), so the side condition of
   C01_history_partial holds along any run *)
From Sif Require Proofs.ClpGood.
Module CG := Sif.Proofs.ClpGood.
Theorem C01_history : forall txs s, CG.GInv s -> CG.signers_ok txs ->
  forall d, gap s d <= gap (run_txs s txs) d /\
            (forallb (fun t => negb (is_decommission (snd t))) txs = true -> gap (run_txs s txs) d = gap s d).
Proof. exact CG.run_txs_gap_full. Qed.
Print Assumptions C01_history.
Theorem C01_solvency : forall txs s, CG.GInv s -> CG.signers_ok txs -> solvent s -> solvent (run_txs s txs).
Proof. exact CG.run_txs_solvent_full. Qed.
Print Assumptions C01_solvency.

(* non-vacuity: a concrete state with a pool; a swap and an add execute and keep the gap at 0 *)
Definition ex_params := mkCP 0 3000000000000000 [] 0 0 [(0, 7); (1, 7)] [10] 0 false [] 0.
Definition ex_state : clp_state :=
  mkClp (mkBank [(1, [(0, 5000000000000000000000); (1, 7000000000000000000000)]);
                 (10, [(0, 9000000000000000000000); (1, 9000000000000000000000)])] [])
        [(1, mkPool 5000000000000000000000 7000000000000000000000 5000000000000000000000 0 0 0 0 0 0)]
        [(1, [(10, mkLp 5000000000000000000000 [] 2)])] [] 0 [] [] 5 ex_params.
Definition ex_txs := [(1000, MSwap 10 0 1 1000000000000000000 0); (1000, MAddLiquidity 10 1 3000000000000000000 0);
                      (1000, MRemoveLiquidity 10 1 5000 0); (1000, MDecommission 10 1)].
Example C01_example :
  gap ex_state 0 = 0 /\ gap ex_state 1 = 0 /\
  map (fun n => (gap (run_txs ex_state (firstn n ex_txs)) 0, gap (run_txs ex_state (firstn n ex_txs)) 1)) [1; 2; 3; 4]%nat
    = [(0, 0); (0, 0); (0, 0); (0, 0)] /\
  snd (deliver ex_state 1000 (MSwap 10 0 1 1000000000000000000 0)) = true.
Proof. vm_compute. repeat split; reflexivity. Qed.

(* ---- the per-block processing of x/clp (Proofs/ClpHooksGap.v): for every token the module account holds exactly as much
   beyond the recorded amounts after the hook as before it ---- *)
From Sif Require Proofs.ClpHooksGap Model.ClpEpoch Model.ClpHooks Base.SdkMath.
Module HG := Sif.Proofs.ClpHooksGap.
(* AfterEpochEnd: the rewards buckets paid out to wallets or re-invested into the pools (failed payments and failed
   re-investments included). Premise: no provider record is keyed by the module account. *)
Theorem C01_epoch_hook : forall s s',
  Forall (fun kv => HG.no_module_lp (snd kv)) (cs_lps s) -> Sif.Model.ClpEpoch.after_epoch_end s = Ok s' -> forall d, gap s' d = gap s d.
Proof. exact HG.after_epoch_end_gap. Qed.
Print Assumptions C01_epoch_hook.
(* EndBlocker, provider distribution: what leaves the pools' native balances is what the providers are paid (payments
   that fail are put back). Premises: pools in key order; a pool with providers has a non-negative native balance,
   positive units and providers with non-negative units other than the module account; period rates in [0,1] (validated). *)
Theorem C01_provider_distribution : forall s s',
  HG.lppd_ready s -> Forall (fun p => 0 <= pd_rate p <= Sif.Base.SdkMath.PREC) (cs_lppd_periods s) ->
  Sif.Model.ClpHooks.lppd_run s = Ok s' -> forall d, gap s' d = gap s d.
Proof. exact HG.lppd_run_gap. Qed.
Print Assumptions C01_provider_distribution.
(* EndBlocker, depth rewards: what is minted is added to the pools (accumulation) or paid to the providers, the rest
   burned (distribution). Premises: pools in key order with non-negative native balances, every pool has providers,
   well-formed reward periods, the module account's balance is not negative. *)
Theorem C01_depth_rewards : forall s s' minted burned,
  HG.rewards_ready s -> Sif.Model.ClpHooks.rewards_run s = Ok (s', minted, burned) -> forall d, gap s' d = gap s d.
Proof. exact HG.rewards_run_gap. Qed.
Print Assumptions C01_depth_rewards.
Theorem C01_end_block : forall s s' minted burned,
  HG.lppd_ready s -> Forall (fun p => 0 <= pd_rate p <= Sif.Base.SdkMath.PREC) (cs_lppd_periods s) ->
  (forall s1, Sif.Model.ClpHooks.lppd_run s = Ok s1 -> HG.rewards_ready s1) ->
  Sif.Model.ClpHooks.end_block s = Ok (s', minted, burned) -> forall d, gap s' d = gap s d.
Proof. exact HG.end_block_gap. Qed.
Print Assumptions C01_end_block.

(* chains of blocks: transactions, EndBlocker, the epoch hook and block advances in any order. After every step the module
   account covers the recorded amounts, and as long as no pool is decommissioned it holds exactly as much beyond them as
   at the start. chain_ready collects, along the run, what each step relies on in the state it starts from (sorted pool
   store and non-negative amounts for a transaction; the hooks' premises above); a failing hook leaves the state as it was. *)
Theorem C01_chain : forall steps s, HG.chain_ready s steps ->
  forall d, gap s d <= gap (fold_left HG.chain_apply steps s) d /\
            (forallb HG.no_decommission steps = true -> gap (fold_left HG.chain_apply steps s) d = gap s d).
Proof. exact HG.chain_gap. Qed.
Print Assumptions C01_chain.
Theorem C01_chain_solvent : forall steps s, HG.chain_ready s steps -> solvent s -> solvent (fold_left HG.chain_apply steps s).
Proof. exact HG.chain_solvent. Qed.
Print Assumptions C01_chain_solvent.

(* non-vacuity: a block in which both the provider distribution (1 %) and the depth rewards (accumulation) run *)
Definition ex_hook_state : clp_state :=
  mkClp (mkBank [(1, [(0, 5000000000000000000000); (1, 7000000000000000000000)]);
                 (10, [(0, 9000000000000000000000)]); (11, [(0, 1000000000000000000)])] [])
        [(1, mkPool 5000000000000000000000 7000000000000000000000 5000000000000000000000 0 0 0 0 0 0)]
        [(1, [(10, mkLp 4000000000000000000000 [] 2); (11, mkLp 1000000000000000000000 [] 2)])] [] 0
        [mkRP 3 12 1000000000000000000000 [] 1000000000000000000 false 1] [mkPD 10000000000000000 4 9 1] 5 ex_params.
Example C01_end_block_example :
  HG.lppd_ready ex_hook_state /\
  match Sif.Model.ClpHooks.end_block ex_hook_state with
  | Ok (s', minted, _) => (gap s' 0 = gap ex_hook_state 0) /\ (minted = 100000000000000000000) /\
                          (bal (cs_bank s') 10 0 = 9040000000000000000000) /\ (bal (cs_bank s') 11 0 = 11000000000000000000)
  | _ => False
  end.
Proof.
  split.
  - split; [exists 0; cbn; auto with zarith|]. intros a pl [E|[]] _. injection E as <- <-. vm_compute.
    split; [discriminate|]. split; [reflexivity|]. repeat constructor; cbn; try discriminate.
  - vm_compute. repeat split; reflexivity.
Qed.

(* ---- x/margin (model of Model/Margin.v): what the module account holds beyond what the position's pool records
   (balance + custody, native and external side) is unchanged, and no other denomination of the module account
   moves, by Open, Close, AdminClose and by the begin blocker's processing of a position whatever its outcome ---- *)
Require Sif.Model.Margin Sif.Proofs.MarginProofs.
Module M := Sif.Model.Margin.
Module MP := Sif.Proofs.MarginProofs.

Theorem C01_margin_open : forall s hl signer coll borrow amt lev c' u,
  signer <> M.CLP_MODULE ->
  M.open_msg s hl signer coll borrow amt lev = (c', Ok u) ->
  let a := if coll =? M.ROWAN then borrow else coll in
  exists pool, get a (M.ms_pools s) = Some pool /\
    MP.gap_eq (M.mkCtx s pool (M.new_mtp coll borrow (Z.min lev (M.mp_lev_max (M.ms_params s)))) a signer 0) c'.
Proof. exact MP.open_gap. Qed.
Print Assumptions C01_margin_open.

Theorem C01_margin_close : forall s signer id c' r,
  MP.SumInv s -> MP.pct_ok s -> (forall m, M.find_mtp s signer id = Some m -> MP.position_ok s signer id m) ->
  MP.funds_not_module s -> signer <> M.CLP_MODULE ->
  M.close_msg s signer id = (c', Ok r) ->
  exists pool m, M.find_mtp s signer id = Some m /\ get (M.pool_asset_of m) (M.ms_pools s) = Some pool /\
    MP.gap_eq (M.mkCtx s pool m (M.pool_asset_of m) signer id) c'.
Proof. exact MP.close_gap. Qed.
Print Assumptions C01_margin_close.

Theorem C01_margin_admin_close : forall s adm addr id tf c' r,
  MP.SumInv s -> MP.pct_ok s -> (forall m, M.find_mtp s addr id = Some m -> MP.position_ok s addr id m) ->
  MP.funds_not_module s -> addr <> M.CLP_MODULE ->
  M.admin_close_msg s adm addr id tf = (c', Ok r) ->
  exists pool m, M.find_mtp s addr id = Some m /\ get (M.pool_asset_of m) (M.ms_pools s) = Some pool /\
    MP.gap_eq (M.mkCtx s pool m (M.pool_asset_of m) addr id) c'.
Proof. exact MP.admin_close_gap. Qed.
Print Assumptions C01_margin_admin_close.

Theorem C01_margin_begin_block_position : forall a s p m addr id c' o,
  M.process_mtp (M.mkCtx s p m a addr id) = (c', o) ->
  M.epoch_position s = 0 -> MP.LoopInv a s p -> M.find_mtp s addr id = Some m -> MP.on_pool a m -> id <> 0 -> MP.pct_ok s ->
  0 <= M.m_cust_amt m <= bal (M.ms_bank s) M.CLP_MODULE (M.m_cust_asset m) ->
  MP.funds_not_module s -> addr <> M.CLP_MODULE ->
  MP.gap_eq (M.mkCtx s p m a addr id) c'.
Proof. exact MP.process_mtp_gap. Qed.
Print Assumptions C01_margin_begin_block_position.

(* the margin begin blocker as a whole: interest payments to the fund address, liquidations with their payouts, every
   margin-enabled pool in turn. What the module account holds beyond what the pools record (natively: beyond the sum over
   all pools of balance + custody; per pool: beyond its external balance + custody) is unchanged. Premises: the sums
   invariant of C13 and the start-of-block readiness MReady, which the begin blocker re-establishes (C13_begin_block). *)
From Sif Require Proofs.MarginLoop.
Module ML := Sif.Proofs.MarginLoop.
Theorem C01_margin_begin_block : forall s rates s' closed,
  MP.SumInv s -> ML.MReady s -> M.begin_block_margin s rates = Ok (s', closed) ->
  ML.gapN s' = ML.gapN s /\ (forall a, a <> M.ROWAN -> ML.gapE s' a = ML.gapE s a).
Proof. exact ML.begin_block_margin_gap. Qed.
Print Assumptions C01_margin_begin_block.
