(* C02 — pool units = sum of provider units; removals never exceed holdings. *)
From Coq Require Import ZArith List Bool.
From Sif Require Import Base.Outcome Base.Store Base.Bank Model.ClpCalc Model.ClpTypes Model.ClpState Model.ClpMsgs
  Proofs.ClpInv Proofs.ClpUnits.
Import ListNotations.
Local Open Scope Z_scope.

(* the units calculator adds to the pool total exactly what it gives the provider (any depths, amounts,
   fee and ratio-shifting rates), in every branch except the empty-side one *)
Theorem C02_calc_total : forall P R A r a fs fb pm pu lpu st sw,
  calculate_pool_units P R A r a fs fb pm = Ok (pu, lpu, st, sw) ->
  symmetry_state A a R r <> EmptyPool -> pu = P + lpu.
Proof. exact calculate_pool_units_total. Qed.
Print Assumptions C02_calc_total.

(* AddLiquidity (symmetric or asymmetric): pool total and the signer's record move together, no other
   provider's units change *)
Theorem C02_add : forall s sg a n e s',
  add_liquidity s sg a n e = Ok s' ->
  (forall p, get a (cs_pools s) = Some p ->
     symmetry_state (p_eb p + p_el p) e (p_nb p + p_nl p) n <> EmptyPool) ->
  pool_units_of s' a - pool_units_of s a = lp_units_of s' a sg - lp_units_of s a sg /\
  forall addr, addr <> sg -> lp_units_of s' a addr = lp_units_of s a addr.
Proof. exact add_liquidity_units. Qed.
Print Assumptions C02_add.

(* the excluded branch really breaks the accounting on the unchanged code (finding F-14) *)
Theorem C02_add_to_one_sided_pool_refuted :
  exists s', add_liquidity f14_state 10 1 5 5 = Ok s' /\
             pool_units_of s' 1 = 5 /\ lp_units_of s' 1 10 + lp_units_of s' 1 11 = 1005.
Proof. exact add_to_one_sided_pool_refuted. Qed.
Print Assumptions C02_add_to_one_sided_pool_refuted.

(* removal by basis points / by units: burns exactly the difference of the remover's record, never more
   than held, leaves every other provider untouched *)
Theorem C02_remove : forall s sg a w asym s',
  wf (lps_for s a) -> remove_liquidity s sg a w asym = Ok s' ->
  pool_units_of s' a - pool_units_of s a = lp_units_of s' a sg - lp_units_of s a sg /\
  0 <= lp_units_of s a sg - lp_units_of s' a sg <= lp_units_of s a sg /\ 0 <= lp_units_of s' a sg /\
  forall addr, addr <> sg -> lp_units_of s' a addr = lp_units_of s a addr.
Proof. exact remove_liquidity_units_acct. Qed.
Print Assumptions C02_remove.

Theorem C02_remove_units : forall s sg a u s',
  wf (lps_for s a) -> remove_liquidity_units s sg a u = Ok s' ->
  pool_units_of s' a - pool_units_of s a = lp_units_of s' a sg - lp_units_of s a sg /\
  0 <= lp_units_of s a sg - lp_units_of s' a sg <= lp_units_of s a sg /\ 0 <= lp_units_of s' a sg /\
  forall addr, addr <> sg -> lp_units_of s' a addr = lp_units_of s a addr.
Proof. exact remove_units_units_acct. Qed.
Print Assumptions C02_remove_units.
