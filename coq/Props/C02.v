(* C02 — pool units = sum of provider units; removals never exceed holdings. *)
From Coq Require Import ZArith List Bool.
From Sif Require Import Base.Outcome Base.Store Base.Bank Model.ClpCalc Model.ClpTypes Model.ClpState Model.ClpMsgs
  Proofs.ClpInv Proofs.ClpUnits Proofs.ClpUnitsHist.
Import ListNotations.
Local Open Scope Z_scope.

(* the units calculator adds to the pool total exactly what it gives the provider (any depths, amounts,
   fee and ratio-shifting rates), in every branch except the empty-side one *)
Theorem C02_calc_total : forall P R A r a fs fb pm pu lpu st sw,
  calculate_pool_units P R A r a fs fb pm = Ok (pu, lpu, st, sw) ->
  symmetry_state A a R r <> EmptyPool -> pu = P + lpu.
Proof. exact calculate_pool_units_total. Qed.
Print Assumptions C02_calc_total.

(* AddLiquidity (symmetric or asymmetric): pool total and the signer's record move together, no other
   provider's units change *)
Theorem C02_add : forall s sg a n e s',
  add_liquidity s sg a n e = Ok s' ->
  (forall p, get a (cs_pools s) = Some p ->
     symmetry_state (p_eb p + p_el p) e (p_nb p + p_nl p) n <> EmptyPool) ->
  pool_units_of s' a - pool_units_of s a = lp_units_of s' a sg - lp_units_of s a sg /\
  forall addr, addr <> sg -> lp_units_of s' a addr = lp_units_of s a addr.
Proof. exact add_liquidity_units. Qed.
Print Assumptions C02_add.

(* the excluded branch really breaks the accounting on the unchanged code (finding F-14) *)
Theorem C02_add_to_one_sided_pool_refuted :
  exists s', add_liquidity f14_state 10 1 5 5 = Ok s' /\
             pool_units_of s' 1 = 5 /\ lp_units_of s' 1 10 + lp_units_of s' 1 11 = 1005.
Proof. exact add_to_one_sided_pool_refuted. Qed.
Print Assumptions C02_add_to_one_sided_pool_refuted.

(* removal by basis points / by units: burns exactly the difference of the remover's record, never more
   than held, leaves every other provider untouched *)
Theorem C02_remove : forall s sg a w asym s',
  wf (lps_for s a) -> remove_liquidity s sg a w asym = Ok s' ->
  pool_units_of s' a - pool_units_of s a = lp_units_of s' a sg - lp_units_of s a sg /\
  0 <= lp_units_of s a sg - lp_units_of s' a sg <= lp_units_of s a sg /\ 0 <= lp_units_of s' a sg /\
  forall addr, addr <> sg -> lp_units_of s' a addr = lp_units_of s a addr.
Proof. exact remove_liquidity_units_acct. Qed.
Print Assumptions C02_remove.

Theorem C02_remove_units : forall s sg a u s',
  wf (lps_for s a) -> remove_liquidity_units s sg a u = Ok s' ->
  pool_units_of s' a - pool_units_of s a = lp_units_of s' a sg - lp_units_of s a sg /\
  0 <= lp_units_of s a sg - lp_units_of s' a sg <= lp_units_of s a sg /\ 0 <= lp_units_of s' a sg /\
  forall addr, addr <> sg -> lp_units_of s' a addr = lp_units_of s a addr.
Proof. exact remove_units_units_acct. Qed.
Print Assumptions C02_remove_units.

(* ---- over histories: in every state reached by any sequence of user transactions (accepted or refused), every
   pool's units equal the sum of its providers' units, and an asset without a pool has no provider records.
   Side conditions along the history (units_run): the pool store stays sorted, and no liquidity is added to a pool
   with an empty side (finding F-14, refuted above) ---- *)
Theorem C02_history : forall txs s, units_run s txs -> UInv s -> UInv (run_txs s txs).
Proof. exact run_txs_UInv. Qed.
Print Assumptions C02_history.

Theorem C02_message_keeps_units : forall s m s',
  wf (cs_pools s) -> UInv s -> not_one_sided_add s m -> handle s m = Ok s' -> UInv s'.
Proof. exact handle_UInv. Qed.
Print Assumptions C02_message_keeps_units.

(* with a premise on the first state only (pool store in key order, non-negative balances): the one condition left along
   the run is that no liquidity is added to a pool with an empty side (finding F-14) *)
From Sif Require Proofs.ClpGood.
Theorem C02_history_full : forall txs s,
  Sif.Proofs.ClpGood.GInv s -> Sif.Proofs.ClpGood.no_one_sided_run s txs -> UInv s -> UInv (run_txs s txs).
Proof. exact Sif.Proofs.ClpGood.run_txs_UInv_full. Qed.
Print Assumptions C02_history_full.

Example C02_history_example :
  let s := mkClp (mkBank [(10, [(0, 9000000000000000000000); (1, 9000000000000000000000)]);
                          (11, [(0, 9000000000000000000000); (1, 9000000000000000000000)])] [])
        [] [] [] 0 [] [] 5 (mkCP 0 3000000000000000 [] 0 0 [(0, 7); (1, 7)] [10] 0 false [] 0) in
  let txs := [(1000, MCreatePool 10 1 5000000000000000000000 7000000000000000000000);
              (1000, MAddLiquidity 11 1 3000000000000000000 0); (1000, MSwap 10 0 1 1000000000000000000 0);
              (1000, MRemoveLiquidityUnits 11 1 1000000000000000)] in
  UInv s /\ units_run s txs /\ usum (run_txs s txs) 1 = pool_units_of (run_txs s txs) 1 /\ 5000000000000000000000 < usum (run_txs s txs) 1.
Proof.
  cbv zeta. split; [|split; [|split]].
  - intros a. reflexivity.
  - cbn [units_run]. repeat split; try (exists 0; vm_compute; tauto); try exact I.
    intros p Hg. vm_compute in Hg. injection Hg as <-. vm_compute. discriminate.
  - vm_compute. reflexivity.
  - vm_compute. reflexivity.
Qed.

(* "net of units already queued for removal": the units a provider has queued against a pool are the sum over its requests
   against THAT pool, whatever requests against other pools lie before, between or after them in the store's key order;
   a removal that passes the gate leaves the queued units with the provider. (The queue itself: see Model/ClpQueue.v on
   why it stays empty on a running chain; the keeper's function is compared on queues built through the message server.) *)
From Coq Require Import Permutation.
From Sif Require Import Model.ClpQueue Proofs.QueueProofs.

Theorem C02_queued_units_order_free : forall lp asset l1 l2 q1 q2,
  Permutation l1 l2 -> queued_units lp asset l1 = Ok q1 -> queued_units lp asset l2 = Ok q2 -> q1 = q2.
Proof. exact queued_units_perm. Qed.
Print Assumptions C02_queued_units_order_free.

Theorem C02_queued_units_other_pools : forall lp asset reqs others q,
  Forall (fun r => fst r <> asset) others ->
  queued_units lp asset reqs = Ok q -> forall mixed, Permutation mixed (others ++ reqs) ->
  forall q', queued_units lp asset mixed = Ok q' -> q' = q.
Proof. exact queued_units_other_pools. Qed.
Print Assumptions C02_queued_units_other_pools.

Theorem C02_removal_net_of_queued : forall wunits lp queued, removal_fits wunits lp queued = Ok true -> wunits + queued <= lp.
Proof. exact removal_fits_bound. Qed.
Print Assumptions C02_removal_net_of_queued.

Example C02_queue_example :
  queued_units 1000 2 [(1, 5000); (2, 2500); (1, 10000); (2, 5000)] = Ok 750 /\
  queued_units 1000 2 [(2, 5000); (2, 2500)] = Ok 750 /\
  removal_fits 250 1000 750 = Ok true /\ removal_fits 251 1000 750 = Ok false.
Proof. vm_compute. repeat split; reflexivity. Qed.
