(* C03 — swaps settle exactly, within constant-product bounds, honouring the minimum. *)
From Coq Require Import ZArith List Bool QArith.
From Sif Require Import Base.Outcome Base.SdkMath Base.Store Base.Bank Model.ClpCalc Model.ClpTypes Model.ClpState Model.ClpMsgs
  Proofs.ClpInv Proofs.SwapProofs.
Import ListNotations.
Local Open Scope Z_scope.

(* a successful swap: trader -amt sent, +emit received; module account the opposite; every other
   (account, denom), the supply, providers, buckets and parameters unchanged; emit >= the stated minimum *)
Theorem C03_settle : forall s sg sent recv amt mn s' emit,
  swap s sg sent recv amt mn = Ok (s', emit) ->
  mn <= emit /\ 0 <= amt /\ 0 <= emit /\
  (forall a' d', bal (cs_bank s') a' d' = bal (cs_bank s) a' d'
      - ind ((a' =? sg) && (d' =? sent)) amt + ind ((a' =? CLP_MODULE) && (d' =? sent)) amt
      - ind ((a' =? CLP_MODULE) && (d' =? recv)) emit + ind ((a' =? sg) && (d' =? recv)) emit) /\
  (forall d', sup (cs_bank s') d' = sup (cs_bank s) d') /\
  cs_lps s' = cs_lps s /\ cs_buckets s' = cs_buckets s /\ cs_params s' = cs_params s.
Proof. exact swap_settles. Qed.
Print Assumptions C03_settle.

(* the pool moves by exactly (+amt, -emit) and the output is strictly below the pool's balance *)
Theorem C03_pools_single : forall s sg sent recv amt mn s' emit,
  swap s sg sent recv amt mn = Ok (s', emit) -> (sent = ROWAN \/ recv = ROWAN) ->
  let a := if recv =? ROWAN then sent else recv in
  exists p, get a (cs_pools s) = Some p /\
    cs_pools s' = set a (if recv =? ROWAN then moved p (- emit) amt else moved p amt (- emit)) (cs_pools s) /\
    emit < (if recv =? ROWAN then p_nb p else p_eb p).
Proof. exact swap_pools_single. Qed.
Print Assumptions C03_pools_single.

Theorem C03_pools_double : forall s sg sent recv amt mn s' emit,
  swap s sg sent recv amt mn = Ok (s', emit) -> sent <> ROWAN -> recv <> ROWAN -> sent <> recv ->
  exists mid p1 p2, get sent (cs_pools s) = Some p1 /\ get recv (cs_pools s) = Some p2 /\
    cs_pools s' = set recv (moved p2 mid (- emit)) (set sent (moved p1 (- mid) amt) (cs_pools s)) /\
    mid < p_nb p1 /\ emit < p_eb p2.
Proof. exact swap_pools_double. Qed.
Print Assumptions C03_pools_double.

(* each leg is computed from the depths including margin liabilities ... *)
Theorem C03_leg_depths : forall tr z sp r f res fee sp',
  swap_one tr z sp r f = Ok (res, fee, sp') ->
  calc_swap_result tr ((if tr then sp_eb sp + sp_el sp else sp_nb sp + sp_nl sp)) z
                      ((if tr then sp_nb sp + sp_nl sp else sp_eb sp + sp_el sp)) r f = Ok (res, fee).
Proof. exact swap_one_calc. Qed.
Print Assumptions C03_leg_depths.

(* ... and never exceeds x*Y/(X+x), shifted by (1+r) (bought token external) or 1/(1+r) (bought token
   native), reduced by the fee rate, plus one base unit — for all depths, amounts, r >= 0, f in [0,1] *)
Theorem C03_leg_upper : forall tr X x Y r f y fee,
  0 < X -> 0 < x -> 0 < Y -> 0 <= r -> 0 <= f <= PREC ->
  calc_swap_result tr X x Y r f = Ok (y, fee) ->
  0 <= y /\ 0 <= fee /\
  (inject_Z y <= adjusted_q tr X x Y r * (1 - dec_to_q f) + 1)%Q /\
  (inject_Z y <= adjusted_q tr X x Y r)%Q.
Proof. exact calc_swap_result_upper. Qed.
Print Assumptions C03_leg_upper.

(* a swap that cannot meet the conditions fails, and a failed transaction changes nothing but the fee *)
Theorem C03_fail_unchanged : forall s fee m,
  snd (deliver s fee m) = false ->
  fst (deliver s fee m) = with_bank s (credit (cs_bank s) (signer_of m) ROWAN (- fee)).
Proof. exact deliver_fail_unchanged. Qed.
Print Assumptions C03_fail_unchanged.

Example C03_example :
  calc_swap_result false 1000000 1000 2000000 0 3000000000000000 = Ok (1993, 5) /\
  calc_swap_result true 1000000 1000 2000000 PREC PREC = Ok (0, 999).
Proof. split; vm_compute; reflexivity. Qed.
