(* C04 — no free value: AMM round trips never profit and never dilute other providers. *)
From Coq Require Import ZArith List Bool QArith Qabs.
From Sif Require Import Base.Outcome Base.SdkMath Base.Store Base.Bank Model.ClpCalc Model.ClpTypes Model.ClpState Model.ClpMsgs
  Proofs.ClpInv Proofs.SwapProofs Proofs.NoFreeValue.
Import ListNotations.
Local Open Scope Z_scope.

(* ---- clause 1: swap, then swap the proceeds back ---- *)
(* on the calculator, for all depths (liabilities included), amounts, fee rates in [0,1] on either leg and
   ratio-shifting rates >= 0; degenerate (empty side / zero amount) inputs included *)
Theorem C04_swap_roundtrip_calc : forall tr X x Y r f f' y fee x' fee',
  0 <= X -> 0 <= x -> 0 <= Y -> 0 <= r -> 0 <= f <= PREC -> 0 <= f' <= PREC ->
  calc_swap_result tr X x Y r f = Ok (y, fee) -> y < Y ->
  calc_swap_result (negb tr) (Y - y) y (X + x) r f' = Ok (x', fee') ->
  x' <= x.
Proof. exact swap_roundtrip_calc_all. Qed.
Print Assumptions C04_swap_roundtrip_calc.

(* on the message handler, native <-> external *)
Theorem C04_swap_roundtrip : forall s sg sent recv amt mn s' emit mn' s'' back,
  rates_ok (cs_params s) ->
  (forall a p, get a (cs_pools s) = Some p -> pool_nonneg p) ->
  (sent = ROWAN \/ recv = ROWAN) -> sent <> recv ->
  swap s sg sent recv amt mn = Ok (s', emit) ->
  swap s' sg recv sent emit mn' = Ok (s'', back) ->
  back <= amt.
Proof. exact swap_roundtrip_single. Qed.
Print Assumptions C04_swap_roundtrip.

(* external -> external through the native token and back: four legs, two pools *)
Theorem C04_swap_roundtrip_double : forall s sg sent recv amt mn s' emit mn' s'' back,
  rates_ok (cs_params s) ->
  (forall a p, get a (cs_pools s) = Some p -> pool_nonneg p) ->
  sent <> ROWAN -> recv <> ROWAN -> sent <> recv ->
  swap s sg sent recv amt mn = Ok (s', emit) ->
  swap s' sg recv sent emit mn' = Ok (s'', back) ->
  back <= amt.
Proof. exact swap_roundtrip_double. Qed.
Print Assumptions C04_swap_roundtrip_double.

(* ---- clause 2, first part: add (r, a), remove the units received ---- *)
(* the side that was (partly) swapped internally — both sides of a symmetric add — returns at most what
   was put in, up to one base unit and 1e-18 relative; for ANY internal swap amount the calculator picks *)
Theorem C04_add_remove_side : forall P R A r a fs fb pm pu l st sw lpu wn we lft,
  0 < P -> 0 < R -> 0 < A -> 0 <= r -> 0 <= a ->
  calculate_pool_units P R A r a fs fb pm = Ok (pu, l, st, sw) ->
  calculate_withdrawal_from_units pu (R + r) (A + a) lpu l = Ok (wn, we, lft) ->
  match st with
  | SellNative => returns_at_most r wn
  | BuyNative => returns_at_most a we
  | NoSwap => returns_at_most r wn /\ returns_at_most a we
  end.
Proof. exact add_remove_calc. Qed.
Print Assumptions C04_add_remove_side.

Theorem C04_add_remove_not_both : forall P R A r a fs fb pm pu l st sw lpu wn we lft,
  0 < P -> 0 < R -> 0 < A -> 0 <= r -> 0 <= a ->
  calculate_pool_units P R A r a fs fb pm = Ok (pu, l, st, sw) ->
  calculate_withdrawal_from_units pu (R + r) (A + a) lpu l = Ok (wn, we, lft) ->
  ~ (r + 1 + r / (PREC - 1) < wn /\ a + 1 + a / (PREC - 1) < we).
Proof. exact add_remove_not_both. Qed.
Print Assumptions C04_add_remove_not_both.

(* ---- clause 2, second part ("no better than swapping"): PARTIAL ----
   Proved: (i) in exact arithmetic, if the deposit is symmetric after an internal swap of s for e, then
   removing the share received returns exactly (r - s, a + e): the add+remove IS the swap of s;
   (ii) "symmetric after the swap at the public price with fee f and ratio shift p" is a quadratic in s;
   (iii) the calculator's closed forms are (z - b)/(2a) of exactly that quadratic, z the integer square
   root of the floored discriminant. Not proved: the numeric bound with the dust of DESIGN.md 4/C04
   (it needs lower bounds on swap and withdrawal results); that bound is monitored on every run. *)
Theorem C04_add_remove_vs_swap_partial_exact : forall (R A r a s e : Q),
  ((r - s) * (A - e) == (a + e) * (R + s) -> (A + a) * (r - s) == (a + e) * (R + r))%Q.
Proof. exact asym_add_remove_exact. Qed.
Print Assumptions C04_add_remove_vs_swap_partial_exact.

Theorem C04_add_remove_vs_swap_partial_sell_quadratic : forall (R A r a s f p : Q),
  ((r - s) * (A * (R + s) - s * A * ((1 + p) * (1 - f))) - (a * (R + s) + s * A * ((1 + p) * (1 - f))) * (R + s)
   == - ((a + A) * s * s + sell_w R A r a f p * s + R * (a * R - A * r)))%Q.
Proof. exact sell_native_quadratic. Qed.
Print Assumptions C04_add_remove_vs_swap_partial_sell_quadratic.

Theorem C04_add_remove_vs_swap_partial_sell_root : forall (R A r a f p s : Q),
  nat_swap_amount_rat R A r a f p = Ok s ->
  exists (D : Q) (z : Z),
    (D == sell_w R A r a f p * sell_w R A r a f p - 4 * (a + A) * (R * (a * R - A * r)))%Q /\
    approx_sqrt D = Ok z /\ ~ ((a + A) * 2 == 0)%Q /\
    (s == Qabs ((inject_Z z - sell_w R A r a f p) / (2 * (a + A))))%Q.
Proof. intros R A r a f p s. exact (nat_swap_amount_rat_root R A r a f p s). Qed.
Print Assumptions C04_add_remove_vs_swap_partial_sell_root.

Theorem C04_add_remove_vs_swap_partial_buy_quadratic : forall (R A r a s f p : Q),
  ((1 + p) * ((a - s) * (R * (A + s)) - (r * (A + s)) * (A + s)) - ((a - s) * (s * R * (1 - f)) + (s * R * (1 - f)) * (A + s))
   == - ((r + R) * (1 + p) * s * s + buy_w R A r a f p * s + A * (r * A - R * a) * (1 + p)))%Q.
Proof. exact buy_native_quadratic. Qed.
Print Assumptions C04_add_remove_vs_swap_partial_buy_quadratic.

Theorem C04_add_remove_vs_swap_partial_buy_root : forall (R A r a f p s : Q),
  ext_swap_amount_rat R A r a f p = Ok s ->
  exists (D : Q) (z : Z),
    (D == buy_w R A r a f p * buy_w R A r a f p - 4 * ((r + R) * (1 + p)) * (A * (r * A - R * a) * (1 + p)))%Q /\
    approx_sqrt D = Ok z /\ ~ (2 * (p + 1) * (r + R) == 0)%Q /\
    (s == Qabs ((inject_Z z - buy_w R A r a f p) / (2 * ((r + R) * (1 + p)))))%Q.
Proof. intros R A r a f p s. exact (ext_swap_amount_rat_root R A r a f p s). Qed.
Print Assumptions C04_add_remove_vs_swap_partial_buy_root.

(* ---- clause 3: backing per unit sqrt(R*A)/P, compared through its square; ratio shifting off ---- *)
Theorem C04_backing_swap : forall tr X x Y f y fee,
  0 < X -> 0 < x -> 0 < Y -> 0 <= f <= PREC ->
  calc_swap_result tr X x Y 0 f = Ok (y, fee) -> X * Y <= (X + x) * (Y - y).
Proof. exact swap_backing. Qed.
Print Assumptions C04_backing_swap.

(* adds: symmetric adds exactly (no dust); asymmetric adds PARTIAL: under near_root for the internal
   swap amount (s at least the fee-less root: R*A*(R+r) <= (A+a)*(R+s)^2), monitored on every run *)
Theorem C04_backing_add_partial : forall P R A r a fs fb pm pu l st sw,
  0 < P -> 0 < R -> 0 < A -> 0 <= r -> 0 <= a ->
  calculate_pool_units P R A r a fs fb pm = Ok (pu, l, st, sw) ->
  match st with
  | SellNative => near_root R A r a sw -> backing_le R A P (R + r) (A + a) pu
  | BuyNative => near_root A R a r sw -> backing_le R A P (R + r) (A + a) pu
  | NoSwap => backing_le R A P (R + r) (A + a) pu
  end.
Proof. exact add_backing_asymmetric. Qed.
Print Assumptions C04_backing_add_partial.

(* removals: each side keeps its pro-rata share, and the pool its backing, once dust18 = 2 + depth/(1e18-1)
   base units are put back on each side *)
Theorem C04_backing_remove : forall P R A lpu u wn we lft,
  0 < P -> 0 <= R -> 0 <= A -> 0 <= u <= P ->
  calculate_withdrawal_from_units P R A lpu u = Ok (wn, we, lft) ->
  R * (P - u) <= (R - wn + dust18 R) * P /\ A * (P - u) <= (A - we + dust18 A) * P /\
  backing_le R A P (R - wn + dust18 R) (A - we + dust18 A) (P - u).
Proof. exact remove_units_backing. Qed.
Print Assumptions C04_backing_remove.

(* the hypotheses are met by concrete, non-trivial inputs *)
Example C04_example_swap :
  calc_swap_result false 1000000 1000 2000000 0 3000000000000000 = Ok (1993, 5) /\
  calc_swap_result true (2000000 - 1993) 1993 (1000000 + 1000) 0 3000000000000000 = Ok (995, 2).
Proof. split; vm_compute; reflexivity. Qed.

Example C04_example_add_remove :
  calculate_pool_units 1000000 2000000 1000000 50000 0 3000000000000000 3000000000000000 0 = Ok (1012404, 12404, SellNative, 24883) /\
  calculate_withdrawal_from_units 1012404 2050000 1000000 12404 12404 = Ok (25117, 12252, 0) /\
  near_root 2000000 1000000 50000 0 24883 /\
  calc_swap_result false 2000000 (50000 - 25117) 1000000 0 3000000000000000 = Ok (12252, 36).
Proof. split; [vm_compute; reflexivity|]. split; [vm_compute; reflexivity|]. split; [unfold near_root; vm_compute; discriminate|vm_compute; reflexivity]. Qed.

(* margin-enabled pools: a removal (by basis points or by units) that is executed leaves the pool with a health of at least
   the removal-queue threshold — liquidity cannot be pulled from under the open positions *)
From Sif Require Import Proofs.ClpHealth.
Theorem C04_removal_keeps_pool_health : forall s sg a w asym s',
  remove_liquidity s sg a w asym = Ok s' -> existsb (Z.eqb a) (cp_margin (cs_params s)) = true ->
  exists pl', get a (cs_pools s') = Some pl' /\ cp_rq_threshold (cs_params s) <= pool_health (p_nb pl') (p_nl pl') (p_eb pl') (p_el pl').
Proof. exact remove_liquidity_health. Qed.
Print Assumptions C04_removal_keeps_pool_health.
Theorem C04_removal_by_units_keeps_pool_health : forall s sg a u s',
  remove_liquidity_units s sg a u = Ok s' -> existsb (Z.eqb a) (cp_margin (cs_params s)) = true ->
  exists pl', get a (cs_pools s') = Some pl' /\ cp_rq_threshold (cs_params s) <= pool_health (p_nb pl') (p_nl pl') (p_eb pl') (p_el pl').
Proof. exact remove_liquidity_units_health. Qed.
Print Assumptions C04_removal_by_units_keeps_pool_health.
