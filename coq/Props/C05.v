(* C05 — bridge prophecies need the whitelisted-power threshold and are final. *)
From Coq Require Import ZArith List Bool Permutation Lia.
From Sif Require Import Base.Outcome Base.Store Base.Bank Model.Bridge Proofs.BridgeProofs Proofs.BridgeOrder Gen.Consts.
Import ListNotations.
Local Open Scope Z_scope.

(* a claim is accepted only from a currently whitelisted, bonded validator that has not claimed on this
   prophecy yet, and only while the prophecy is pending *)
Theorem C05_gate : forall s perm pid val cid s' pr,
  process_claim s perm pid val cid = Ok (s', pr) ->
  mem val (br_whitelist s) = true /\ is_active s val = true /\
  pr_status (old_prophecy s pid) = 0 /\ lookup val (pr_vclaims (old_prophecy s pid)) = None /\
  s' = RecordSet.set br_prophecies (fun _ => set pid pr (br_prophecies s)) s /\
  let pr1 := RecordSet.set pr_vclaims (fun _ => pr_vclaims (old_prophecy s pid) ++ [(val, cid)])
               (RecordSet.set pr_claims (fun _ => add_claim cid val (pr_claims (old_prophecy s pid))) (old_prophecy s pid)) in
  pr = process_completion s (perm (pr_claims pr1)) pr1.
Proof. exact process_claim_inv. Qed.
Print Assumptions C05_gate.

(* success needs the threshold: the power counted for the final claim is the power of its supporters that
   are bonded and whitelisted NOW (claim_power filters both), out of all bonded whitelisted power *)
Theorem C05_threshold : forall s perm pid val cid s' pr,
  0 <= total_power s ->
  process_claim s perm pid val cid = Ok (s', pr) -> pr_status pr = 1 ->
  exists vals, In (pr_final pr, vals) (perm (add_claim cid val (pr_claims (old_prophecy s pid)))) /\
               ratio_ge (claim_power s vals) (total_power s) = true.
Proof. exact success_needs_threshold. Qed.
Print Assumptions C05_threshold.

(* the threshold test is 70 % *)
Theorem C05_threshold_is_70_percent : forall p q, 0 < q -> (ratio_ge p q = true <-> 7 * q <= 10 * p).
Proof. intros p q Hq. unfold ratio_ge. destruct (Z.eqb_spec q 0); [lia|]. apply Z.leb_le. Qed.
Print Assumptions C05_threshold_is_70_percent.

Theorem C05_threshold_constant : gen_consensus_needed_times_1000 = 700 /\ gen_oracle_keeper_uses_default_threshold = 1.
Proof. split; reflexivity. Qed.
Print Assumptions C05_threshold_constant.

(* finality: once successful or failed, every later claim fails (and a failed transaction changes nothing);
   claims about other events never touch it *)
Theorem C05_final : forall s perm pid val cid ct,
  pr_status (old_prophecy s pid) <> 0 -> exists e, create_claim s perm pid val cid ct = e /\ is_ok e = false.
Proof. exact finalised_rejects. Qed.
Print Assumptions C05_final.

Theorem C05_final_stable : forall perm s m pid,
  status_of s pid <> 0 -> status_of (fst (deliver_claim perm s m)) pid = status_of s pid.
Proof. exact status_stable. Qed.
Print Assumptions C05_final_stable.

(* the outcome does not depend on the order in which Go ranges over the claim map.
   PARTIAL: the hypothesis that the claims' powers add up to at most the total (each validator claims at
   most once per prophecy) is assumed here, not derived from the prophecy invariant. *)
Theorem C05_order_independent_partial : forall s l1 l2 pr,
  Permutation l1 l2 -> powers_nonneg s -> claims_total s l1 <= total_power s ->
  pr_status (process_completion s l1 pr) = pr_status (process_completion s l2 pr) /\
  (pr_status (process_completion s l1 pr) = 1 -> pr_status pr <> 1 ->
   pr_final (process_completion s l1 pr) = pr_final (process_completion s l2 pr)).
Proof. exact completion_order_independent. Qed.
Print Assumptions C05_order_independent_partial.

(* ... and that hypothesis is an invariant: every stored prophecy lists a validator under at most one claim content
   (kept by every claim transaction), so with a staking set that is a map with non-negative powers the whole result
   of a claim transaction — new state, prophecy, status, final claim, balances — is the same for any two orders *)
Theorem C05_order_independent : forall s perm1 perm2 pid val cid ct,
  is_order perm1 -> is_order perm2 -> staking_wf s -> prophecies_inv s ->
  create_claim s perm1 pid val cid ct = create_claim s perm2 pid val cid ct.
Proof. exact create_claim_order_free. Qed.
Print Assumptions C05_order_independent.

Theorem C05_claims_bounded_by_total : forall s pr, staking_wf s -> claims_inv pr -> claims_total s (pr_claims pr) <= total_power s.
Proof. intros s pr Hw Hc. exact (claims_inv_bound s pr Hw (proj1 Hc)). Qed.
Print Assumptions C05_claims_bounded_by_total.

(* over histories: claims (several prophecies in flight, any contents), whitelist additions and removals, and
   arbitrary changes of the staking set in between; premise on the first state only *)
Theorem C05_history_order_independent : forall perm1 perm2 es s,
  is_order perm1 -> is_order perm2 -> bridge_inv s -> evs_wf es ->
  bridge_run perm1 s es = bridge_run perm2 s es /\ bridge_inv (fst (bridge_run perm1 s es)).
Proof. intros perm1 perm2 es s H1 H2 Hi He. split; [exact (bridge_run_order_free perm1 perm2 es H1 H2 s Hi He)|exact (bridge_run_inv perm1 es s Hi He)]. Qed.
Print Assumptions C05_history_order_independent.

Theorem C05_initial : forall s, staking_wf s -> br_prophecies s = [] -> bridge_inv s.
Proof. exact bridge_inv_initial. Qed.
Print Assumptions C05_initial.

(* non-vacuity: three validators 30/45/25, two contents, a removal from the whitelist in between; the second content
   reaches 70 of the remaining 70 and the event is credited at the last step, under both orders *)
Definition ex_bridge : bridge_state :=
  mkBridge (mkBank [] []) [] [1; 2; 3] [(1, (30, true)); (2, (45, true)); (3, (25, true))] [] [] [] false [] None 9 [9].
Definition ex_events : list bridge_ev :=
  [EvClaim (mkClaimMsg 7 1 100 (mkContent 50 10 1 1)); EvClaim (mkClaimMsg 7 2 101 (mkContent 51 10 1 1));
   EvWhitelist 9 1 false; EvClaim (mkClaimMsg 7 3 101 (mkContent 51 10 1 1))].
Example C05_history_example :
  bridge_inv ex_bridge /\ evs_wf ex_events /\ is_order (fun l => l) /\ is_order (@rev _) /\
  snd (bridge_run (fun l => l) ex_bridge ex_events) = [None; None; None; Some 7] /\
  snd (bridge_run (@rev _) ex_bridge ex_events) = [None; None; None; Some 7].
Proof.
  split; [apply bridge_inv_initial; [split; [repeat constructor; cbn; intuition lia|repeat constructor; cbn; lia]|reflexivity]|].
  split; [repeat constructor|]. split; [intros l; reflexivity|]. split; [intros l; symmetry; apply Permutation_rev|].
  split; vm_compute; reflexivity.
Qed.

(* the premise is decidable, and Check/Bridge.v evaluates it on the pre- and post-state of every observed transaction *)
Theorem C05_premise_checked : forall s, bridge_inv_b s = true -> bridge_inv s.
Proof. exact bridge_inv_b_sound. Qed.
Print Assumptions C05_premise_checked.

(* the threshold tests are float64 comparisons in the code, float64(power) / float64(total) >= 0.7 (and < 0.7 for the
   "can no longer succeed" branch). In IEEE-754 binary64 as formalised by Flocq — the two integers exactly representable,
   the division correctly rounded, the constant 0.7 rounded to nearest-even — they are exactly the rational tests of the
   model, for totals up to 2^40 (voting power is counted in whole rowan, the supply is a few 10^9). These two theorems use the
   standard library's real numbers: their axioms are what Print Assumptions lists. *)
From Coq Require Import Reals.
From Sif Require Import Proofs.FloatThreshold.

Theorem C05_threshold_is_the_float_test : forall p q, 0 < q <= 2 ^ 40 ->
  (ratio_ge p q = true <-> (rnd64 (7 / 10) <= rnd64 (IZR p / IZR q))%R).
Proof. exact ratio_ge_is_float. Qed.
Print Assumptions C05_threshold_is_the_float_test.

Theorem C05_failure_test_is_the_float_test : forall p q, 0 < q <= 2 ^ 40 ->
  (ratio_lt p q = true <-> (rnd64 (IZR p / IZR q) < rnd64 (7 / 10))%R).
Proof. exact ratio_lt_is_float. Qed.
Print Assumptions C05_failure_test_is_the_float_test.
