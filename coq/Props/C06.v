(* C06 — each bridged Ethereum event is credited at most once, as agreed. *)
From Coq Require Import ZArith List Bool.
From Sif Require Import Base.Outcome Base.Store Base.Bank Model.Bridge Proofs.BridgeProofs.
Import ListNotations.
Local Open Scope Z_scope.

(* one claim message: either nothing is credited (bank and peggy list untouched), or the prophecy was
   pending and is successful now, and exactly the amount of the FINAL claim content is created and paid to
   the recipient named in that content, in "c"+symbol for a lock and in the symbol itself for a burn;
   every other balance and supply is unchanged; the pegged denom is on the peggy list afterwards *)
Theorem C06_claim_effect : forall s perm pid val cid ct s',
  create_claim s perm pid val cid ct = Ok s' ->
  pr_status (old_prophecy s pid) = 0 /\
  exists pr, get pid (br_prophecies s') = Some pr /\
    (forall pid', pid' <> pid -> get pid' (br_prophecies s') = get pid' (br_prophecies s)) /\
    (pr_status pr <> 1 -> br_bank s' = br_bank s /\ br_peggy s' = br_peggy s) /\
    (pr_status pr = 1 ->
       exists ctf, get (pr_final pr) (set cid ct (br_contents s)) = Some ctf /\ 0 <= ct_amount ctf /\
         (ct_type ctf = 1 \/ ct_type ctf = 2) /\ mem (ct_receiver ctf) (br_blocked s) = false /\
         (forall a d, bal (br_bank s') a d = bal (br_bank s) a d + ind ((a =? ct_receiver ctf) && (d =? credit_denom ctf)) (ct_amount ctf)) /\
         (forall d, sup (br_bank s') d = sup (br_bank s) d + ind (d =? credit_denom ctf) (ct_amount ctf)) /\
         (ct_type ctf = 1 -> mem (credit_denom ctf) (br_peggy s') = true)).
Proof. exact create_claim_effect. Qed.
Print Assumptions C06_claim_effect.

(* over any sequence of claim messages, from any validators, about any events, with any contents, in
   any map iteration order: no event is credited twice *)
Theorem C06_at_most_once : forall perm ms s, NoDup (snd (run_claims perm s ms)).
Proof. exact credited_at_most_once. Qed.
Print Assumptions C06_at_most_once.

(* a credited (pegged) denom can thereafter be burned but not locked: lock/burn test the peggy list *)
Theorem C06_pegged_burnable_not_lockable : forall s is_burn sender eth amount symbol ceth s',
  sender <> BRIDGE_MODULE ->
  lock_or_burn s is_burn sender eth amount symbol ceth = Ok s' -> mem symbol (br_peggy s) = is_burn.
Proof. intros. eapply lock_or_burn_effect in H0; [|assumption]. tauto. Qed.
Print Assumptions C06_pegged_burnable_not_lockable.
