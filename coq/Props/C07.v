(* C07 — peg supply conservation on lock/burn; pause and blacklist stop exports. *)
From Coq Require Import ZArith List Bool.
From Sif Require Import Base.Outcome Base.Store Base.Bank Model.Bridge Proofs.BridgeProofs.
Import ListNotations.
Local Open Scope Z_scope.

(* a successful lock (is_burn = false) or burn (is_burn = true): bridge not paused, receiver not
   blacklisted, native tokens only locked / pegged tokens only burned; the sender loses exactly the amount
   of the token and the fee in ceth (one combined debit when the token is ceth), the fee goes to the
   configured receiver or else the bridge module account, supply of the token drops by the amount,
   every other balance and supply, the prophecies, the whitelist and the peggy list are unchanged *)
Theorem C07_lock_burn : forall s is_burn sender eth amount symbol ceth s',
  sender <> BRIDGE_MODULE ->
  lock_or_burn s is_burn sender eth amount symbol ceth = Ok s' ->
  br_paused s = false /\ mem eth (br_blacklist s) = false /\
  mem symbol (br_peggy s) = is_burn /\
  0 < amount /\ 0 < ceth /\
  (forall a d, bal (br_bank s') a d = bal (br_bank s) a d
     - ind ((a =? sender) && (d =? symbol)) amount
     - ind ((a =? sender) && (d =? CETH)) ceth
     + ind ((a =? fee_receiver s) && (d =? CETH)) ceth) /\
  (forall d, sup (br_bank s') d = sup (br_bank s) d - ind (d =? symbol) amount) /\
  br_prophecies s' = br_prophecies s /\ br_whitelist s' = br_whitelist s /\ br_peggy s' = br_peggy s.
Proof. exact lock_or_burn_effect. Qed.
Print Assumptions C07_lock_burn.

(* the only other way the bridge changes a supply is a consensus-approved credit (C06_claim_effect);
   claims that do not reach consensus change no balance *)
Theorem C07_claims_only_credit : forall s perm pid val cid ct s',
  create_claim s perm pid val cid ct = Ok s' ->
  exists pr, get pid (br_prophecies s') = Some pr /\
    (pr_status pr <> 1 -> br_bank s' = br_bank s /\ br_peggy s' = br_peggy s).
Proof. intros. apply create_claim_effect in H. destruct H as (_ & pr & H1 & _ & H2 & _). eauto. Qed.
Print Assumptions C07_claims_only_credit.

(* the blacklist: only the holder of the bridge's administrator role changes it; after an accepted update exactly the
   listed Ethereum accounts are refused (an address is an account here: the harness gives every spelling of one address
   the same id, and the correspondence check compares the stored list as a set of accounts) *)
Theorem C07_blacklist_update : forall s sender addrs s',
  set_blacklist s true sender addrs = Ok s' ->
  (forall a is_burn sd amount symbol ceth, In a addrs -> is_ok (lock_or_burn s' is_burn sd a amount symbol ceth) = false) /\
  (forall a, ~ In a addrs -> mem a (br_blacklist s') = false).
Proof. exact blacklist_takes_effect. Qed.
Print Assumptions C07_blacklist_update.

Theorem C07_blacklist_update_needs_role : forall s sender addrs, exists e, set_blacklist s false sender addrs = e /\ is_ok e = false.
Proof. exact set_blacklist_refused. Qed.
Print Assumptions C07_blacklist_update_needs_role.

Theorem C07_blacklist_update_frame : forall s is_admin sender addrs s',
  set_blacklist s is_admin sender addrs = Ok s' ->
  is_admin = true /\ br_blacklist s' = addrs /\ br_bank s' = br_bank s /\ br_prophecies s' = br_prophecies s /\
  br_paused s' = br_paused s /\ br_peggy s' = br_peggy s /\ br_accounts s' = br_accounts s.
Proof. exact set_blacklist_effect. Qed.
Print Assumptions C07_blacklist_update_frame.

Example C07_guards :
  let s := mkBridge (mkBank [(10, [(1001, 100000000000000000000000)])] []) [] [] [] [] [] [1001] true [] None 11 [10] in
  lock_or_burn s true 10 1 5 1001 LOCK_GAS_COST = Err 1.
Proof. vm_compute. reflexivity. Qed.
