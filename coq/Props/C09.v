(* C09 — state-machine determinism: the code paths that range over Go maps do not depend on the
   iteration order; no wall clock or randomness in the state machine. *)
From Coq Require Import ZArith List Bool String Permutation.
From RecordUpdate Require Import RecordUpdate.
From Sif Require Import Base.Outcome Base.Store Base.Bank Model.ClpTypes Model.ClpRewards Model.ClpState Model.ClpHooks
  Model.Bridge Model.Determinism Proofs.BridgeProofs Proofs.DeterminismProofs Gen.Clock.
Import ListNotations.
Local Open Scope Z_scope.

(* ---- payouts to the provider map (LPPD, depth rewards): `for lp, total := range lpRowanMap` ---- *)
(* any two iteration orders give the same balance of every account in every denom, the same supply and
   the same set of failed recipients; payments to recipients that cannot receive fail in either order.
   Hypothesis (C01): the module account covers what can be paid, so no payment fails for lack of funds. *)
Theorem C09_transfer_perm : forall blocked amt o1 o2 b,
  Permutation o1 o2 -> NoDup o1 -> ~ In CLP_MODULE o1 -> (forall a, In a o1 -> 0 <= amt a) ->
  paid_total blocked amt o1 <= bal b CLP_MODULE ROWAN ->
  let '(b1, f1) := transfer_blk blocked amt b o1 in
  let '(b2, f2) := transfer_blk blocked amt b o2 in
  (forall a d, bal b1 a d = bal b2 a d) /\ (forall d, sup b1 d = sup b2 d) /\ Permutation f1 f2.
Proof. exact transfer_blk_perm. Qed.
Print Assumptions C09_transfer_perm.

(* it is the function the per-transition correspondence runs against the real EndBlocker *)
Theorem C09_transfer_is_model : forall ds order b,
  transfer_blk (fun _ => false) (fun a => addr_total a ds) b order = transfer_generic b order ds.
Proof. exact transfer_blk_generic. Qed.
Print Assumptions C09_transfer_is_model.

(* the later code looks at the failed list only through membership *)
Theorem C09_failed_membership : forall a l1 l2, Permutation l1 l2 -> inb a l1 = inb a l2.
Proof. exact inb_perm. Qed.
Print Assumptions C09_failed_membership.

(* ---- `for pool, x := range poolRowanMap { ...; SetPool(pool) }` (LPPD and depth rewards) ---- *)
Theorem C09_pool_updates_perm : forall f o1 o2 m,
  Permutation o1 o2 -> NoDup (map fst o1) ->
  forall k, get k (pool_updates f o1 m) = get k (pool_updates f o2 m).
Proof. exact pool_updates_perm. Qed.
Print Assumptions C09_pool_updates_perm.

Theorem C09_rewards_loop_is_pool_updates : forall failed ds m1 m2, eqv m1 m2 ->
  eqv (fold_left (fun m d => let '(asset, amt) := pool_after_failures failed d in
                             if amt =? 0 then m else upd_pool asset (fun pl => pl <| p_rpd := p_rpd pl + amt |>) m) ds m1)
      (pool_updates rpd_update (map (pool_after_failures failed) ds) m2).
Proof. exact rewards_loop_is_pool_updates. Qed.
Print Assumptions C09_rewards_loop_is_pool_updates.

Theorem C09_lppd_loop_is_pool_updates : forall failed ds m1 m2, eqv m1 m2 ->
  eqv (fold_left (fun m d => let '(asset, sub) := pool_after_failures failed d in
                             upd_pool asset (fun pl => if p_nb pl <? sub then pl else pl <| p_nb := p_nb pl - sub |>) m) ds m1)
      (pool_updates lppd_update (map (pool_after_failures failed) ds) m2).
Proof. exact lppd_loop_is_pool_updates. Qed.
Print Assumptions C09_lppd_loop_is_pool_updates.

(* `for _, rowan := range poolRowanMap { sum += rowan }` *)
Theorem C09_sum_perm : forall l1 l2, Permutation l1 l2 -> map_sum l1 = map_sum l2.
Proof. exact map_sum_perm. Qed.
Print Assumptions C09_sum_perm.

(* ---- FindHighestClaim: `for claim, validators := range prophecy.ClaimValidators` ---- *)
Theorem C09_claims_perm : forall s l1 l2 pr,
  Permutation l1 l2 -> powers_nonneg s -> claims_total s l1 <= total_power s ->
  pr_status (process_completion s l1 pr) = pr_status (process_completion s l2 pr) /\
  (pr_status (process_completion s l1 pr) = 1 -> pr_status pr <> 1 ->
   pr_final (process_completion s l1 pr) = pr_final (process_completion s l2 pr)).
Proof. exact completion_order_independent. Qed.
Print Assumptions C09_claims_perm.

(* ---- the source: where the clock is read and where maps are ranged over (regenerated every run) ---- *)
Local Open Scope string_scope.
Definition expected_clock_sites : list (string * string * string * string) :=
  [("x/clp/abci.go", "EndBlocker", "time.Now", "defer telemetry.ModuleMeasureSince");       (* telemetry only *)
   ("x/clp/abci.go", "BeginBlocker", "time.Now", "defer telemetry.ModuleMeasureSince");
   ("x/clp/abci.go", "MeasureBlockTime", "time.Now", "statement");                          (* log line only *)
   ("x/epochs/keeper/abci.go", "Keeper.BeginBlocker", "time.Now", "defer telemetry.ModuleMeasureSince")].

Theorem C09_no_clock : gen_clock_sites = expected_clock_sites.
Proof. reflexivity. Qed.
Print Assumptions C09_no_clock.

(* every `range` over a map in x/ and app/: each is covered by a theorem above (T), by C05's claim
   theorem (B), is order-independent because assets are independent and only re-run tested (E), or is
   outside the state machine (Q: query helper) *)
Definition expected_map_ranges : list (string * string * string) :=
  [("x/clp/keeper/epoch_hooks.go", "Keeper.AfterEpochEnd", "rewardsEligibleLps");                              (* E *)
   ("x/clp/keeper/provider_distribution.go", "Keeper.TransferProviderDistribution", "poolRowanMap");         (* T: lppd loop *)
   ("x/clp/keeper/provider_distribution.go", "Keeper.TransferProviderDistributionGeneric", "lpRowanMap");    (* T: transfer *)
   ("x/clp/keeper/provider_distribution.go", "PoolRowanMapToLPPools", "poolRowanMap");                       (* T: per-recipient lists used for subtraction (commutative) and events *)
   ("x/clp/keeper/rewards.go", "Keeper.DistributeDepthRewards", "poolRowanMap");                             (* T: sum *)
   ("x/clp/keeper/rewards.go", "Keeper.DistributeDepthRewards", "poolRowanMap");                             (* T: rewards loop *)
   ("x/ethbridge/types/msgs.go", "MapOracleClaimsToEthBridgeClaims", "oracleValidatorClaims");               (* Q *)
   ("x/oracle/types/prophecy.go", "Prophecy.FindHighestClaim", "prophecy.ClaimValidators")].                 (* B *)

Theorem C09_map_ranges : gen_map_ranges = expected_map_ranges.
Proof. reflexivity. Qed.
Print Assumptions C09_map_ranges.
Local Close Scope string_scope.

(* package-level variables that hold arbitrary-precision numbers (sdk.Int / Uint / Dec wrap a *big.Int that Unmarshal writes
   through): a copy of one shares the number with every application instance of the process. The two of the ante
   decorators are only compared against; the rest are test fixtures. A new one is a way for one chain's state to reach
   another chain's results in the same process. *)
Local Open Scope string_scope.
Definition expected_numeric_globals : list (string * string) :=
  [("app/ante/commission.go", "MinCommission");
   ("app/ante/commission.go", "maxVotingPower");
   ("x/ethbridge/types/test_common.go", "testCethAmount");
   ("x/ethbridge/types/test_common.go", "TestCoinsAmount");
   ("x/ethbridge/types/test_common.go", "AltTestCoinsAmountSDKInt")].
Theorem C09_no_shared_numbers : gen_numeric_globals = expected_numeric_globals.
Proof. reflexivity. Qed.
Print Assumptions C09_no_shared_numbers.
Local Close Scope string_scope.

(* package-level variables that function bodies assign to (state that lives as long as the process, not as long as the
   chain): the time stamp of the "Block took N s" log line, and the codec set up at package initialisation. A new one is a
   way for what a block computes to depend on what the process did before — a restarted node has done nothing. *)
Local Open Scope string_scope.
Definition expected_written_globals : list (string * string * string) :=
  [("x/clp/abci.go", "MeasureBlockTime", "blockTime");          (* log line only *)
   ("x/oracle/types/codec.go", "init", "ModuleCdc")].          (* package initialisation *)
Theorem C09_no_process_state : gen_written_globals = expected_written_globals.
Proof. reflexivity. Qed.
Print Assumptions C09_no_process_state.
Local Close Scope string_scope.

(* the hypotheses are satisfiable: three recipients, one of them blocked, two orders *)
Example C09_example :
  let b := mkBank [(1, [(0, 100)])] [(0, 100)] in
  let amt := fun a => if a =? 10 then 30 else if a =? 11 then 20 else 7 in
  let blocked := fun a => a =? 12 in
  paid_total blocked amt [10; 11; 12] <= bal b CLP_MODULE ROWAN /\
  (let '(b1, f1) := transfer_blk blocked amt b [10; 11; 12] in (bal b1 10 0, bal b1 11 0, bal b1 12 0, bal b1 1 0, f1)) = (30, 20, 0, 50, [12]) /\
  (let '(b2, f2) := transfer_blk blocked amt b [12; 11; 10] in (bal b2 10 0, bal b2 11 0, bal b2 12 0, bal b2 1 0, f2)) = (30, 20, 0, 50, [12]).
Proof. cbv zeta. split; [vm_compute; discriminate|]. split; vm_compute; reflexivity. Qed.
