(* C10 — block processing never panics for user histories or accepted policy settings.
   Partial: the theorems cover the policy-dependent panic sites of the clp BeginBlocker and EndBlocker (the
   sites the administrator messages can reach) and the confinement of message panics; freedom from 256/315-bit
   overflow of the remaining hook arithmetic is a hypothesis (operating envelope), not a theorem, and the
   margin and epoch hooks are covered by the harness monitors only. *)
From Coq Require Import ZArith List Bool Lia.
From RecordUpdate Require Import RecordUpdate.
From Sif Require Import Base.Outcome Base.SdkMath Base.Store Base.Bank Model.ClpTypes Model.ClpRewards Model.ClpPolicy
  Model.ClpState Model.ClpMsgs Model.Dispensation Proofs.PolicyProofs.
Import ListNotations.
Local Open Scope Z_scope.

(* Every administrator policy message that is accepted leaves the policy state "digestible" (PolSafe:
   current threshold <= max and epoch length >= 1 when protection is active; ratio-shifting epoch length >= 1
   and governance rate > -1; every reward period has a non-zero uint64 length; every provider-distribution
   period has mod <> 0 and rate in [0,1]); a rejected one changes nothing. *)
Theorem C10_accepted_policy_is_safe : forall s m,
  PolSafe s -> msg_typed m -> PolSafe (fst (policy_deliver s m)).
Proof. exact policy_deliver_safe. Qed.
Print Assumptions C10_accepted_policy_is_safe.

(* The liquidity-protection replenishment of BeginBlock cannot panic on a safe state (no division by a zero
   epoch length, no unsigned underflow of max - current) and keeps it safe. *)
Theorem C10_lp_begin_no_panic : forall l,
  LPSafe l -> exists l', lp_begin l = Ok l' /\ LPSafe l' /\ lps_max l' = lps_max l /\ lps_current l <= lps_current l'.
Proof. exact lp_begin_safe. Qed.
Print Assumptions C10_lp_begin_no_panic.

(* The policy-dependent panic sites of EndBlock: the per-block allocation of a safe reward period (division by
   the period length), the modulo of the reward path (0 is replaced by 1) and of a safe provider-distribution
   period. *)
Theorem C10_endblock_policy_sites : forall h,
  (forall p, rp_safe p -> exists x, calc_block_distribution p = Ok x) /\
  (forall p, let p' := if rp_mod p =? 0 then mkRP (rp_start p) (rp_end p) (rp_alloc p) (rp_mults p) (rp_default p) (rp_distribute p) 1 else p in
             exists b, is_distribution_block h (rp_start p') (rp_mod p') = Ok b) /\
  (forall p, lppd_safe p -> exists b, is_distribution_block h (pd_start p) (pd_mod p) = Ok b).
Proof.
  intros h. split; [exact rp_safe_block_distribution | split; [exact (rewards_mod_site h) | exact (lppd_safe_site h)]].
Qed.
Print Assumptions C10_endblock_policy_sites.

(* The ratio-shifting part of BeginBlock on a safe state returns normally unless (i) the policy starts in this
   block and the block rate computed by math.Pow does not parse ([br = None]; excluded for governance rates
   > -1 by the float assumption recorded in the trusted base) or (ii) Dec.Power / the additions of
   PolicyCalculations overflow 315 bits. *)
Theorem C10_pmtp_begin : forall pm h br,
  PMSafe pm ->
  (starts pm h = true -> br <> None) ->
  (forall pm1, (if starts pm h then policy_start pm br else Ok pm) = Ok pm1 -> runs pm1 h = true -> exists pm', policy_calc pm1 h = Ok pm') ->
  exists pm', pmtp_begin pm h br = Ok pm' /\ PMSafe pm'.
Proof. exact pmtp_begin_safe. Qed.
Print Assumptions C10_pmtp_begin.

(* (ii) never happens for a block rate in [-2, 0], whatever the length of the policy *)
Theorem C10_policy_calc_down_shift : forall pm h,
  Z.abs (PREC + pm_block_rate pm) <= PREC -> Z.abs (pm_inter pm) < DEC_LIM - 2 * PREC ->
  exists pm', policy_calc pm h = Ok pm'.
Proof. exact policy_calc_le_one. Qed.
Print Assumptions C10_policy_calc_down_shift.

(* ... and it does happen for a large accepted governance rate: known finding F-16, stated on the model *)
Theorem C10_policy_calc_overflow_refuted : exists pm h,
  PMSafe pm /\ runs pm h = true /\ policy_calc pm h = Panic.
Proof.
  exists (mkPM 3 8 2 (10 ^ 38 * PREC) (10 ^ 38 * PREC) 0 0 3 2), 5.
  split; [split; vm_compute; congruence|]. split; vm_compute; reflexivity.
Qed.
Print Assumptions C10_policy_calc_overflow_refuted.

(* PolicyRun's price computation returns an error instead of dividing by zero *)
Theorem C10_policy_run_no_division_by_zero : forall X Y r n, exists o, spot_price_x X Y r n = Ok o /\
  forall num den, o = Some (num, den) -> den <> 0.
Proof. exact spot_price_x_total. Qed.
Print Assumptions C10_policy_run_no_division_by_zero.

(* Over every history of administrator messages (accepted or not) and blocks, from a safe policy state: the
   policy part of every BeginBlock returns normally and the state stays safe, provided each block's float
   result parses and its Dec.Power does not overflow (hist_env_ok). *)
Theorem C10_policy_history : forall h s,
  PolSafe s -> hist_env_ok s h -> exists s', prun s h = Ok s' /\ PolSafe s'.
Proof. exact policy_history_no_panic. Qed.
Print Assumptions C10_policy_history.

(* A panic while executing a message is confined to the transaction: the delivered transaction fails and the
   state is the one after the ante handler (fee taken), in every modelled module. *)
Theorem C10_tx_panic_confined :
  (forall s fee m, ClpMsgs.handle (with_bank s (credit (cs_bank s) (ClpMsgs.signer_of m) ROWAN (- fee))) m = Panic ->
     ClpMsgs.deliver s fee m = (with_bank s (credit (cs_bank s) (ClpMsgs.signer_of m) ROWAN (- fee)), false)) /\
  (forall s fee m, Dispensation.validate_basic m = true ->
     Dispensation.handle (s <| ds_bank := credit (ds_bank s) (Dispensation.signer_of m) 0 (- fee) |>) m = Panic ->
     Dispensation.deliver s fee m = (s <| ds_bank := credit (ds_bank s) (Dispensation.signer_of m) 0 (- fee) |>, false)) /\
  (forall s m, policy_handle s m = Panic -> policy_deliver s m = (s, false)).
Proof.
  split; [|split].
  - intros s fee m H. unfold ClpMsgs.deliver. rewrite H. reflexivity.
  - intros s fee m Hv H. unfold Dispensation.deliver. rewrite Hv. cbn [negb]. rewrite H. reflexivity.
  - intros s m H. unfold policy_deliver. rewrite H. reflexivity.
Qed.
Print Assumptions C10_tx_panic_confined.

(* ---- what the fixed validations exclude (findings F-4, F-5, F-6 on the model) ---- *)
Example C10_f4_current_above_max : lp_begin (mkLPS 100 10 true 200) = Panic.
Proof. vm_compute. reflexivity. Qed.
Example C10_f4_rejected : forall s, lps_max (pol_lp s) = 100 -> fst (policy_deliver s (PModifyLPRates 200)) = s.
Proof. intros s H. unfold policy_deliver, policy_handle, modify_lp_rates. rewrite H. reflexivity. Qed.
Example C10_f5_wrapped_length : calc_block_distribution (mkRP 0 (2 ^ 64 - 1) 1000 [] PREC false 1) = Panic.
Proof. vm_compute. reflexivity. Qed.
Example C10_f5_rejected : rp_valid (mkRM false 0 (2 ^ 64 - 1) (Some 1000) [] (Some PREC) false 1) = false
  /\ rp_valid (mkRM false 5 9 None [] (Some PREC) false 1) = false.
Proof. split; vm_compute; reflexivity. Qed.
Example C10_f6_nan_at_start : policy_start (mkPM 5 8 2 (- 2 * PREC) 0 0 0 0 0) None = Panic.
Proof. reflexivity. Qed.
(* a safe state satisfying all hypotheses, and a history on it *)
Example C10_nonvacuous :
  let s := mkPol 2 (mkLPS 1000 10 true 400) (mkPM 0 0 1 0 0 0 0 0 0) [] [] in
  PolSafe s /\
  exists s', prun s [PMsg (PUpdatePmtpParams (DVal (- PREC / 2)) 2 4 7 (Some (- PREC / 4))); PMsg (PModifyLPRates 2000); PBlock None; PBlock (Some (- PREC / 4)); PBlock None] = Ok s'
    /\ lps_current (pol_lp s') = 700 /\ pm_epochs (pol_pmtp s') = 1 /\ pm_running (pol_pmtp s') = -437500000000000000.
Proof.
  cbv zeta. split.
  - split; [|split; [|split; constructor]].
    + unfold LPSafe; cbn [pol_lp lps_current lps_max lps_active lps_epoch].
      assert (1000 < UINT_LIM) by (vm_compute; reflexivity). repeat split; try lia.
    + unfold PMSafe; cbn [pol_pmtp pm_epoch_len pm_gov]. split; [lia | vm_compute; reflexivity].
  - eexists. split; [vm_compute; reflexivity|]. repeat split.
Qed.

(* ratio-shifting policies add up: each leaves its final running rate behind for the next one to start from. An accepted
   policy of negative rate reaches, on its last block, a running rate above -1 as PolicyCalculations computes it there with
   the block rate PolicyStart stores ([br]: PmtpPeriodBlockRate) - so 1 + rate is positive wherever block processing
   divides by it (finding F-29: two accepted policies of rate -0.5 gave exactly -1) *)
Theorem C10_accepted_policy_end_rate : forall s g el st en br s',
  update_pmtp_params s g el st en br = Ok s' -> pm_gov (pol_pmtp s') < 0 ->
  pm_inter (pol_pmtp s') = pm_inter (pol_pmtp s) /\
  exists b, br = Some b /\
    (0 <= b \/ exists r pm', policy_calc (pol_pmtp s' <| pm_block_rate := b |>) (pm_end (pol_pmtp s')) = Ok pm' /\
                             pm_running pm' = r /\ - PREC < r).
Proof.
  intros s g el st en br s' H Hg. destruct (update_pmtp_params_end_rate _ _ _ _ _ _ _ H Hg) as (Hi & b & Hb & Hr).
  split; [exact Hi|]. exists b. split; [exact Hb|]. destruct Hr as [Hr|(r & Hr & Hlt)]; [left; exact Hr|right].
  destruct (policy_end_rate_is_calc _ _ _ Hr) as (pm' & Hc & Hp). exists r, pm'. auto.
Qed.
Print Assumptions C10_accepted_policy_end_rate.
(* ... and a running rate set by ModifyPmtpRates while such a policy is scheduled (not started yet) is the rate the policy will
   start from: it is accepted only if the policy still ends above -1 (finding F-30: policy -0.5 scheduled, then running rate
   -0.5 set, gave exactly -1) *)
Theorem C10_rates_under_scheduled_policy : forall s b rv e br s',
  modify_pmtp_rates s b (DVal rv) e br = Ok s' -> in_window s = false -> pol_height s < pm_start (pol_pmtp s) ->
  pm_gov (pol_pmtp s) < 0 -> 0 < pm_epoch_len (pol_pmtp s) ->
  pm_inter (pol_pmtp s') = rv /\ pm_gov (pol_pmtp s') = pm_gov (pol_pmtp s) /\
  pm_start (pol_pmtp s') = pm_start (pol_pmtp s) /\ pm_end (pol_pmtp s') = pm_end (pol_pmtp s) /\
  exists bb, br = Some bb /\ (0 <= bb \/ exists r, policy_end_rate (pol_pmtp s') bb = Ok r /\ - PREC < r).
Proof. exact modify_pmtp_rates_end_rate. Qed.
Print Assumptions C10_rates_under_scheduled_policy.
Example C10_f30_rate_under_scheduled_policy_refused :
  let s := mkPol 3 (mkLPS 1000 10 true 400) (mkPM 5 5 1 (- PREC / 2) 0 0 0 0 0) [] [] in
  modify_pmtp_rates s DEmpty (DVal (- PREC / 2)) false (Some (- PREC / 2)) = Err 5 /\
  exists s', modify_pmtp_rates s DEmpty (DVal (- PREC / 4)) false (Some (- PREC / 2)) = Ok s'.
Proof. vm_compute. split; [reflexivity|eexists; reflexivity]. Qed.
Example C10_f29_second_policy_refused :
  let s := mkPol 6 (mkLPS 1000 10 true 400) (mkPM 3 3 1 (- PREC / 2) (- PREC / 2) (- PREC / 2) (- PREC / 2) 0 0) [] [] in
  update_pmtp_params s (DVal (- PREC / 2)) 1 7 7 (Some (- PREC / 2)) = Err 5 /\
  policy_end_rate (pol_pmtp s <| pm_start := 7 |> <| pm_end := 7 |>) (- PREC / 2) = Ok (- PREC) /\
  exists s', update_pmtp_params s (DVal (- PREC / 4)) 1 7 7 (Some (- PREC / 4)) = Ok s'.
Proof. vm_compute. split; [reflexivity|split; [reflexivity|eexists; reflexivity]]. Qed.

(* swap-fee parameters: a message that is accepted carries a default rate and per-token rates in [0,1] only (a rate above 1
   makes the fee exceed the swapped amount: sdk.Uint underflow in the epoch hook's re-investment) *)
Theorem C10_swap_fee_rates_in_range : forall s d rs s',
  policy_handle s (PUpdateSwapFee d rs) = Ok s' -> s' = s /\ 0 <= d <= PREC /\ Forall (fun r => 0 <= r <= PREC) rs.
Proof. exact swap_fee_accepted. Qed.
Print Assumptions C10_swap_fee_rates_in_range.
