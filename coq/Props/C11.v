(* C11 — dispensation pays each record exactly once from escrowed funds. *)
From Coq Require Import ZArith List Bool.
From RecordUpdate Require Import RecordUpdate.
From Sif Require Import Base.Outcome Base.Store Base.Bank Model.Dispensation Proofs.DispProofs.
Import ListNotations.
Local Open Scope Z_scope.

(* Creating a distribution (a message that passed ValidateBasic, signed by an account other than the module
   account): exactly the sum of its outputs (otot, per denom) moves from the distributor to the dispensation
   account, nobody else's balance changes; under every key (name, type, recipient) the pending coins grow by
   exactly the outputs addressed to that key (outs_for) — nothing else is recorded; a record that is new or
   changed carries the message's runner, the current height as start and no completion height; completed and
   failed records, claims and the blocked list are untouched; the distribution (name, type, runner) did not
   exist before.  The well-formedness and escrow invariants are kept. *)
Theorem C11_create : forall s dist name typ runner outs s',
  WF s -> Escrow s -> dist <> DISP_MODULE ->
  validate_basic (MCreateDist dist name typ runner outs) = true ->
  create_distribution s dist name typ runner outs = Ok s' ->
  WF s' /\ Escrow s' /\
  (forall a d, bal (ds_bank s') a d = bal (ds_bank s) a d
     - (if a =? dist then otot d outs else 0) + (if a =? DISP_MODULE then otot d outs else 0)) /\
  (forall d k, pc d k (ds_pending s') = pc d k (ds_pending s) + outs_for d name typ k outs) /\
  (forall k r, rget k (ds_pending s') = Some r -> rget k (ds_pending s) = Some r \/
               (k_name k = name /\ k_type k = typ /\ r_runner r = runner /\ r_start r = ds_height s /\ r_done r = -1)) /\
  ds_completed s' = ds_completed s /\ ds_failed s' = ds_failed s /\ ds_claims s' = ds_claims s /\
  ds_blocked s' = ds_blocked s /\ ds_height s' = ds_height s /\
  ~ In (name, typ, runner) (ds_dists s) /\ ds_dists s' = (name, typ, runner) :: ds_dists s.
Proof. exact create_distribution_spec. Qed.
Print Assumptions C11_create.

(* A run by [runner] for (name, type, count): the processed records [sel] are at most [count], all were
   pending, all belong to this distribution name and type and carry this runner (the signer of the message);
   they and only they leave the pending table (run_post: rp_pending_sel / rp_pending_other); each becomes
   completed with its coins and the current height if its recipient can receive, otherwise failed without
   any payment (rp_outcome); every account's balance grows by exactly the coins of its own paid records and
   the module account's drops by exactly their sum (rp_bal); claims only shrink, the claim of every paid
   claim-type record is deleted and no other claim is (rp_claims_sub, rp_claims_del, rp_claims_keep); invariants kept (rp_wf, rp_escrow). *)
Theorem C11_run : forall s runner name typ count s',
  WF s -> Escrow s ->
  run_distribution s runner name typ count = Ok s' ->
  let sel := select_records (ds_pending s) name runner typ (Z.to_nat count) in
  run_post s s' sel /\
  (length sel <= Z.to_nat count)%nat /\ NoDup (tkeys sel) /\
  (forall k r, In (k, r) sel -> rget k (ds_pending s) = Some r /\ k_name k = name /\ r_runner r = runner /\ k_type k = typ).
Proof. exact run_distribution_spec. Qed.
Print Assumptions C11_run.

(* At all times: over every history of transactions (any of the three messages, accepted or rejected, with
   any fee), new blocks and bank activity of the rest of the chain that does not debit the dispensation
   account, from any state satisfying the invariant (e.g. genesis): the dispensation account holds at least
   the sum of all pending and failed records in every denom, pending keys are unique, and no user holds two
   claims of one type. *)
Theorem C11_escrow_always : forall h s,
  Inv s -> hist_ok s h ->
  let s' := hrun s h in
  (forall d, rsum d (ds_pending s') + rsum d (ds_failed s') <= bal (ds_bank s') DISP_MODULE d) /\
  NoDup (tkeys (ds_pending s')) /\ NoDup (ds_claims s').
Proof.
  intros h s Hi Hok. destruct (inv_history h s Hi Hok) as (Hwf & Hesc & Hcl).
  split; [exact Hesc | split; [apply Hwf | exact Hcl]].
Qed.
Print Assumptions C11_escrow_always.

Theorem C11_genesis_inv : forall b blocked h,
  In DISP_MODULE blocked -> (forall d, 0 <= bal b DISP_MODULE d) -> LInv (genesis b blocked h).
Proof. exact genesis_linv. Qed.
Print Assumptions C11_genesis_inv.

(* At most once, in full: over every such history the per-key ledger balances — what was ever recorded under
   a key = what is still pending under it + what was paid + what was marked failed — so the payments under
   a key never exceed what was recorded for it, and (C11_run) each payment is the full coins of one record
   that leaves the pending table in the same step. *)
Theorem C11_ledger_always : forall h s k d,
  LInv s -> hist_ok s h ->
  let s' := hrun s h in
  amt d (l_owed (lg s' k)) = pc d k (ds_pending s') + amt d (l_paid (lg s' k)) + amt d (l_failed (lg s' k)) /\
  0 <= amt d (l_failed (lg s' k)) /\
  0 <= amt d (l_paid (lg s' k)) <= amt d (l_owed (lg s' k)).
Proof.
  intros h s k d Hi Hok. pose proof (linv_history h s Hi Hok) as Hl. cbv zeta.
  pose proof (paid_le_owed _ k d Hl). destruct Hl as [_ Hl]. destruct (Hl k d) as (H1 & H2 & H3). repeat split; auto.
Qed.
Print Assumptions C11_ledger_always.

(* the ledger's paid column is exactly the payments made: in a run it grows, per key, by the coins of the
   records of that key that were paid (the same quantity rp_bal credits to the recipients) *)
Theorem C11_ledger_is_payments : forall s runner name typ count s',
  LInv s -> run_distribution s runner name typ count = Ok s' ->
  let sel := select_records (ds_pending s) name runner typ (Z.to_nat count) in
  forall k d, amt d (l_paid (lg s' k)) = amt d (l_paid (lg s k)) + sel_sum (ds_blocked s) (key_eqb k) d sel.
Proof.
  intros s runner name typ count s' [(Hwf & Hesc & _) Hl] H. unfold run_distribution in H. injection H as <-.
  cbv zeta. apply run_fold_ledger; auto.
  - apply select_nodup; apply Hwf.
  - intros k r Hin. apply select_in in Hin as (H1 & _). apply in_rget_nodup; [apply Hwf | exact H1].
Qed.
Print Assumptions C11_ledger_is_payments.

(* a claim is created only if the user holds none of that type *)
Theorem C11_claim : forall s user typ s',
  create_claim s user typ = Ok s' ->
  ~ In (user, typ) (ds_claims s) /\ s' = s <| ds_claims := (user, typ) :: ds_claims s |>.
Proof. exact create_claim_spec. Qed.
Print Assumptions C11_claim.

(* ---- the hypotheses are met by a concrete non-trivial history (computed) ---- *)
Definition ex_bank : bank := mkBank [(2, []); (10, [(0, 1000); (1, 500)]); (11, [(0, 1000)]); (12, [(0, 1)])] [].
Definition ex_hist : list hstep :=
  [ HTx 1 (MCreateDist 10 1 3 11 [(12, [(0, 100); (1, 50)]); (2, [(0, 7)]); (12, [(0, 5)])]);
    HTx 1 (MCreateClaim 12 3);
    HBlock 8;
    HTx 1 (MRunDist 10 1 3 5);      (* wrong runner: nothing happens *)
    HTx 1 (MRunDist 11 1 3 5) ].    (* the runner: 12 is paid 105 + 50 and loses its claim, the module account's record fails *)
Example C11_nonvacuous :
  let s := hrun (genesis ex_bank [2] 7) ex_hist in
  bal (ds_bank s) 12 0 = 105 /\ bal (ds_bank s) 12 1 = 50 /\ bal (ds_bank s) 2 0 = 7 /\
  ds_pending s = [] /\ ds_claims s = [] /\ length (ds_completed s) = 1%nat /\ length (ds_failed s) = 1%nat /\
  amt 0 (l_paid (lg s (1, 3, 12))) = 105 /\ amt 0 (l_owed (lg s (1, 3, 12))) = 105 /\ amt 0 (l_failed (lg s (1, 3, 2))) = 7.
Proof. vm_compute. repeat split; reflexivity. Qed.
Example C11_nonvacuous_hyps : hist_ok (genesis ex_bank [2] 7) ex_hist /\ LInv (genesis ex_bank [2] 7).
Proof.
  split; [cbn; repeat split; discriminate|].
  apply genesis_linv; [left; reflexivity | intros d; vm_compute; destruct d; discriminate].
Qed.
