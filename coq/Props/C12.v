(* C12 — token-registry permissions gate every AMM operation and IBC export. *)
From Coq Require Import ZArith List Bool.
From Sif Require Import Base.Outcome Base.Store Base.Bank Model.ClpCalc Model.ClpTypes Model.ClpState Model.ClpMsgs Model.Registry
  Proofs.ClpInv Proofs.SwapProofs Proofs.GateProofs.
Import ListNotations.
Local Open Scope Z_scope.

Theorem C12_create_pool : forall s sg a n e s', create_pool s sg a n e = Ok s' -> registered_with s a PERM_CLP.
Proof. exact create_pool_gate. Qed.
Print Assumptions C12_create_pool.

Theorem C12_remove : forall s sg a w asym s', remove_liquidity s sg a w asym = Ok s' -> registered_with s a PERM_CLP.
Proof. exact remove_gate. Qed.
Print Assumptions C12_remove.

Theorem C12_remove_units : forall s sg a u s', remove_liquidity_units s sg a u = Ok s' -> registered_with s a PERM_CLP.
Proof. exact remove_units_gate. Qed.
Print Assumptions C12_remove_units.

Theorem C12_swap : forall s sg sent recv amt mn s' emit,
  swap s sg sent recv amt mn = Ok (s', emit) ->
  registered_with s sent PERM_CLP /\ registered_with s recv PERM_CLP /\
  not_marked s sent PERM_DISABLE_SELL /\ not_marked s recv PERM_DISABLE_BUY.
Proof. exact swap_gate. Qed.
Print Assumptions C12_swap.

Theorem C12_add_liquidity : forall s sg a n e s',
  add_liquidity s sg a n e = Ok s' ->
  registered_with s a PERM_CLP /\ (exists nb, reg_entry (cs_params s) ROWAN = Some nb) /\
  exists p pu lpu st sw,
    get a (cs_pools s) = Some p /\
    calculate_pool_units (p_units p) (p_nb p + p_nl p) (p_eb p + p_el p) n e
       (fee_rate (cs_params s) ROWAN) (fee_rate (cs_params s) a) (cp_pmtp (cs_params s)) = Ok (pu, lpu, st, sw) /\
    match st with
    | NoSwap => True
    | SellNative => not_marked s ROWAN PERM_DISABLE_SELL /\ not_marked s a PERM_DISABLE_BUY
    | BuyNative => not_marked s a PERM_DISABLE_SELL /\ not_marked s ROWAN PERM_DISABLE_BUY
    end.
Proof. exact add_liquidity_gate. Qed.
Print Assumptions C12_add_liquidity.

(* an outgoing IBC transfer reaches ibc-go iff the denom is registered, is not an alias, carries the
   export permission and the amount is positive *)
Theorem C12_export : forall reg d amt,
  transfer_gate reg d amt = true <->
  exists e, reg_lookup d reg = Some e /\ re_alias e = false /\ has_perm (re_bits e) PERM_IBCEXPORT = true /\ 0 < amt.
Proof. exact transfer_gate_spec. Qed.
Print Assumptions C12_export.

(* refused operations change no state (but the fee); handlers read the registry of the state they run in,
   so an edit is in force for the very next message *)
Theorem C12_refusal_no_change : forall s fee m,
  snd (deliver s fee m) = false ->
  fst (deliver s fee m) = with_bank s (credit (cs_bank s) (signer_of m) ROWAN (- fee)).
Proof. exact deliver_fail_unchanged. Qed.
Print Assumptions C12_refusal_no_change.

(* edits of the registry (MsgRegister = SetToken, MsgDeregister = RemoveToken, lookups return the first entry of a denom):
   a registration is what every later lookup of that denom returns and it changes no other denom's entry; after a
   deregistration the denom is unknown - wherever it stood in the list and however often it was listed - so the transfer
   gate refuses it (and the AMM handlers, which start with the same lookup, fail) *)
Theorem C12_register_takes_effect : forall (reg : list (Z * reg_entry_x)) d e,
  lookup d (set_token d e reg) = Some e /\ (forall d', d' <> d -> lookup d' (set_token d e reg) = lookup d' reg).
Proof. intros. split; [apply lookup_set_same|intros; apply lookup_set_other; assumption]. Qed.
Print Assumptions C12_register_takes_effect.
Theorem C12_deregister_takes_effect : forall (reg : list (Z * reg_entry_x)) d,
  lookup d (remove_token d reg) = None /\ (forall d', d' <> d -> lookup d' (remove_token d reg) = lookup d' reg) /\
  forall amt, transfer_gate (remove_token d reg) d amt = false.
Proof. intros. split; [apply lookup_remove_same|split; [intros; apply lookup_remove_other; assumption|intros; apply gate_after_deregister]]. Qed.
Print Assumptions C12_deregister_takes_effect.
(* MsgSetRegistry: the list of the message - of any length, the empty one included - is what every later lookup sees *)
Theorem C12_set_registry_takes_effect : forall (new old : list (Z * reg_entry_x)),
  (forall d, lookup d (set_registry new old) = lookup d new) /\ (forall d amt, transfer_gate (set_registry new old) d amt = transfer_gate new d amt) /\
  (forall d amt, lookup d new = None -> transfer_gate (set_registry new old) d amt = false).
Proof. exact set_registry_takes_effect. Qed.
Print Assumptions C12_set_registry_takes_effect.
Example C12_edit_example :
  let reg := [(1, mkRE 7 false); (0, mkRE 7 false); (1, mkRE 3 false)] in
  transfer_gate reg 1 5 = true /\ transfer_gate (remove_token 1 reg) 1 5 = false /\
  transfer_gate (set_token 1 (mkRE 1 false) reg) 1 5 = false /\ length (set_token 1 (mkRE 1 false) reg) = 3%nat.
Proof. vm_compute. repeat split; reflexivity. Qed.
